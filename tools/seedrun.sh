#!/bin/bash
# seedrun.sh [seed-id ...] : applies each seeded change to /repo, runs the quick check of its property
# (and any extra property ids given in SEED_PROPS), then reverts /repo. Prints one line per seed.
cd /verif
ids="$@"; [ -z "$ids" ] && ids=$(ls seeded)
claimed=$(python3 -c "import json;print(' '.join(c['property_id'] for c in json.load(open('MANIFEST.json'))['checks']))")
for s in $ids; do
  p=${s:0:3}
  git -C /repo apply /verif/seeded/$s/patch.diff || { echo "$s APPLY-FAILED"; continue; }
  hits=""
  for q in $p $SEED_PROPS; do
    case " $claimed " in *" $q "*) ;; *) continue;; esac
    out=$(./bin/sacheck -prop $q -tier quick -child 2>&1)
    n=$(echo "$out" | grep -cE "^  (VIOLATED|UNDECIDED)")
    [ "$n" -gt 0 ] && hits="$hits $q:$(echo "$out" | grep -E '^  (VIOLATED|UNDECIDED)' | head -2 | sed -E 's/.*\[([^]]*)\].*/\1/' | tr '\n' ',')"
  done
  git -C /repo checkout -- .
  if [ -n "$hits" ]; then echo "$s CAUGHT $hits"; else echo "$s missed"; fi
done
