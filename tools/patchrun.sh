#!/bin/bash
# patchrun.sh <patch.diff> [prop ...] : applies a patch to /repo, runs the quick check of every claimed
# property (or the given ones) in child mode, prints the keys of violated/undecided obligations, reverts /repo.
cd /verif
patch=$1; shift
props="$@"; [ -z "$props" ] && props=$(python3 -c "import json;print(' '.join(c['property_id'] for c in json.load(open('MANIFEST.json'))['checks']))")
git -C /repo apply "$patch" || { echo "APPLY-FAILED $patch"; exit 2; }
hits=""
for q in $props; do
  out=$(./bin/sacheck -prop $q -tier quick -child 2>&1)
  n=$(echo "$out" | grep -cE "^  (VIOLATED|UNDECIDED)")
  if [ "$n" -gt 0 ]; then
    hits="$hits $q:[$(echo "$out" | grep -E '^  (VIOLATED|UNDECIDED)' | head -3 | sed -E 's/^  [A-Z]+ C[0-9]+ \[([^]]*)\].*/\1/' | tr '\n' ';')]"
  fi
  echo "$out" | grep -qE "load:|panic:|type/load errors" && hits="$hits $q:[LOAD-OR-PANIC]"
done
git -C /repo checkout -- .
git -C /repo clean -fdq
if [ -n "$hits" ]; then echo "$(basename $(dirname $patch))/$(basename $patch) ALARM $hits"; else echo "$(basename $(dirname $patch))/$(basename $patch) silent"; fi
