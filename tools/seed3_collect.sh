#!/bin/bash
# seed3_collect.sh <Cnn> [extra props]: confirms a round-3 seed in its author's scratch worktree (/tmp/s3-Cnn,
# deliverables in /tmp/s3-Cnn-out), stores it as seeded/Cnn-D and runs the property's quick check against it.
export GOFLAGS=-mod=mod GOPROXY=off GOSUMDB=off GOTOOLCHAIN=local PATH=/opt/veriftools/go1.26.8/bin:$PATH
p=$1; shift
wt=/tmp/s3-$p; out=/tmp/s3-$p-out
[ -f $out/patch.diff ] || { echo "$p NO-PATCH"; exit 1; }
res=$(/verif/tools/verify_seed2.sh $wt $out 2>&1 | tail -1)
echo "$res"
case "$res" in *"suite_fail_lines=0 demo_with_patch_exit=1 demo_without_patch_exit=0"*) ;; *) echo "$p NOT-CONFIRMED"; exit 1;; esac
d=/verif/seeded/$p-D; mkdir -p $d
cp $out/patch.diff $out/DEMO_PATH.txt $out/notes.md $d/ 2>/dev/null
cp $out/*_test.go $d/
python3 - "$p" "$res" <<'PY'
import json,sys,glob,os
p,res=sys.argv[1],sys.argv[2]
d=f'/verif/seeded/{p}-D'
demo=[os.path.basename(f) for f in glob.glob(d+'/*_test.go')][0]
lines=open(d+'/DEMO_PATH.txt').read().splitlines()
meta={'id':p+'-D','property':p,'round':'3','patch':'patch.diff','demo_file':demo,'demo_path_in_repo':lines[0].strip(),'demo_cmd':lines[1].strip(),
 'needs_to_manifest':'see notes.md (written by the sub-agent that produced the change)',
 'confirmed':{'how':'tools/verify_seed2.sh in the author\'s scratch worktree (removed afterwards): '+res,'suite_passes_with_patch':True,'demo_fails_with_patch':True,'demo_passes_without_patch':True},
 'source':'independent sub-agent given only the property text, the one-line titles of earlier seeds (to avoid repeats) and a scratch worktree; asked for a plausible maintenance commit with the defect as a side effect; base tree = /repo at bf93c9a'}
json.dump(meta,open(d+'/meta.json','w'),indent=1)
PY
/verif/tools/wtrun.sh $wt $d/patch.diff $p "$@" | cut -c1-400
