#!/bin/bash
# verify_seed.sh <seed-dir> : confirms in a scratch worktree that (1) the suite passes with the patch,
# (2) the demo fails with the patch, (3) the demo passes without it. Prints one summary line.
export GOFLAGS=-mod=mod GOPROXY=off GOSUMDB=off GOTOOLCHAIN=local PATH=/opt/veriftools/go1.26.8/bin:$PATH
d=$1; name=$(basename $d); wt=/tmp/wtv-$name
git -C /repo worktree add -q --detach $wt HEAD || exit 2
trap "git -C /repo worktree remove --force $wt" EXIT
demo_path=$(head -1 $d/DEMO_PATH.txt | grep -oE '[a-z0-9/]+/[A-Za-z0-9_]+_test\.go' | head -1)
demo_file=$(ls $d/*_test.go | head -1)
pkg=./$(dirname $demo_path)/
run=$(grep -ohE -- '-run[ =][A-Za-z0-9_^$|]+' $d/DEMO_PATH.txt $d/notes.md | head -1 | sed 's/-run[ =]//')
[ -z "$run" ] && run=$(grep -oE 'func (Test[A-Za-z0-9_]+)' $demo_file | head -1 | sed 's/func //')
cd $wt
git apply $d/patch.diff || { echo "$name APPLY-FAILED"; exit 1; }
suite=$(go test -vet=off -count=1 ./... 2>&1 | grep -cE '^(FAIL|---)')
cp $demo_file $wt/$demo_path
go test -vet=off -count=1 -run "$run" $pkg >/tmp/$name.with.log 2>&1; with=$?
git apply -R $d/patch.diff
go test -vet=off -count=1 -run "$run" $pkg >/tmp/$name.without.log 2>&1; without=$?
echo "$name suite_fail_lines=$suite demo_with_patch_exit=$with demo_without_patch_exit=$without demo=$demo_path run=$run"
