#!/bin/bash
# wtrun.sh <worktree> <patch.diff> [prop ...] : like patchrun.sh but in a scratch worktree (sacheck -repo), so
# several can run in parallel. Prints one line.
wt=$1; patch=$2; shift; shift
cd /verif
props="$@"; [ -z "$props" ] && props=$(python3 -c "import json;print(' '.join(c['property_id'] for c in json.load(open('MANIFEST.json'))['checks']))")
git -C $wt checkout -q -- . ; git -C $wt clean -fdq
git -C $wt apply "$patch" || { echo "$(basename $(dirname $patch))/$(basename $patch) APPLY-FAILED"; exit 2; }
hits=""
for q in $props; do
  out=$(./bin/sacheck -repo $wt -prop $q -tier quick -child 2>&1)
  n=$(echo "$out" | grep -cE "^  (VIOLATED|UNDECIDED)")
  if [ "$n" -gt 0 ]; then
    hits="$hits $q:[$(echo "$out" | grep -E '^  (VIOLATED|UNDECIDED)' | head -3 | sed -E 's/^  [A-Z]+ C[0-9]+ \[([^]]*)\].*/\1/' | tr '\n' ';')]"
  fi
  echo "$out" | grep -qE "^load:|panic:|type/load errors" && hits="$hits $q:[LOAD-OR-PANIC]"
done
git -C $wt checkout -q -- . ; git -C $wt clean -fdq
if [ -n "$hits" ]; then echo "$(basename $(dirname $patch))/$(basename $patch) ALARM $hits"; else echo "$(basename $(dirname $patch))/$(basename $patch) silent"; fi
