#!/usr/bin/env python3
"""Regenerates /verif/MANIFEST.json from the table below (claimed checks) and properties.jsonl."""
import json, os
V = os.path.dirname(os.path.dirname(os.path.abspath(__file__)))
props = [json.loads(l) for l in open(os.path.join(V, 'properties.jsonl'))]

# id -> (design_ref, technique, level text, level note)
CLAIMED = json.load(open(os.path.join(V, 'tools', 'claimed.json')))
NA = json.load(open(os.path.join(V, 'tools', 'not_applicable.json')))

SETUP = ("cd /verif/sa && env GOFLAGS=-mod=mod GOPROXY=off GOSUMDB=off GOTOOLCHAIN=local GOWORK=off "
         "PATH=/opt/veriftools/go1.26.8/bin:$PATH go build -o /verif/bin/sacheck .")
m = {
 "version": 1,
 "setup_cmd": SETUP,
 "hooks": {"guard": "verif", "enable": "none: the analyser reads /repo's source; no hooks or instrumentation exist",
           "baseline_off_cmd": "cd /repo && go test -vet=off -count=1 ./...", "source_commits": [], "add_only": True},
 "engines": [{"name": "sacheck", "path": "sa/", "serves_properties": sorted(CLAIMED),
              "kind_free_text": "custom static analyser over go/packages + go/types + go/ssa + VTA call graph of /repo's working tree (wire-schema extraction, provenance atoms, guard extraction with must-pass-through, affine forms, taint, effects, type paths); never executes the code under analysis"}],
 "checks": [], "not_applicable": [],
 "notes": "All checks: ./bin/sacheck -prop <id> -tier quick|thorough re-loads and re-type-checks /repo on every run. Thorough adds linux/arm64 and linux/386 build configurations (child processes), a deeper call-following bound and the in-memory overlay mutant corpus (selftest). known_findings.json lists genuine defects recorded rather than repaired.",
}
fixes = []
try:
    kf = json.load(open(os.path.join(V, 'known_findings.json')))
    fixes = sorted({f['commit'] for f in kf['findings'] if f.get('status') == 'fixed' and f.get('commit')})
except Exception:
    pass
for p in props:
    i = p['id']
    if i in CLAIMED:
        c = CLAIMED[i]
        m['checks'].append({
            "property_id": i,
            "quick_cmd": f"./bin/sacheck -prop {i} -tier quick",
            "thorough_cmd": f"./bin/sacheck -prop {i} -tier thorough",
            "evidence_file": f"/verif/evidence/{i}.json",
            "replay_cmd_template": "./bin/sacheck -replay {path}",
            "engine": "sacheck",
            "level_claimed": {"category": "other", "text": c['level'], "design_ref": c['design']},
            "level_note": c['note'],
            "technique": c['technique'],
        })
    else:
        m['not_applicable'].append({"property_id": i, "reason": NA.get(i, "check not yet built (DESIGN.md section 10 build order); nothing is claimed for this property yet")})
json.dump(m, open(os.path.join(V, 'MANIFEST.json'), 'w'), indent=1)
print("claimed", len(m['checks']), "n/a", len(m['not_applicable']))
