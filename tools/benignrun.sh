#!/bin/bash
# benignrun.sh : applies every behaviour-preserving refactoring under /verif/benign to /repo in turn, runs all
# claimed quick checks, reverts. Every line must say "silent".
cd /verif
for p in benign/*/r*.diff; do tools/patchrun.sh /verif/$p; done
