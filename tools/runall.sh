#!/bin/bash
# runs every claimed quick check on the current /repo tree; prints one line per property
cd /verif
for p in $(python3 -c "import json;print(' '.join(c['property_id'] for c in json.load(open('MANIFEST.json'))['checks']))"); do
  ./bin/sacheck -prop $p -tier ${1:-quick} 2>&1 | grep -E "^(C[0-9]+ tier|VIOLATION|SELFTEST-MISS)" | cut -c1-160
done
