#!/bin/bash
# seed8_collect.sh <Cnn> [extra props]: round 8 = one maintenance commit in two versions written by the same
# sub-agent in /tmp/s5-Cnn (deliverables in /tmp/s5-Cnn-out): patch.diff (with a defect) and fixed.diff (correct).
# Confirms both (suite passes with each; the demo fails with patch.diff and passes with fixed.diff and on the
# pristine tree), stores the seed as seeded/Cnn-F and the twin as benign/k6/Cnn.diff, runs the property's check on both.
export GOFLAGS=-mod=mod GOPROXY=off GOSUMDB=off GOTOOLCHAIN=local PATH=/opt/veriftools/go1.26.8/bin:$PATH
p=$1; shift
wt=/tmp/s5-$p; out=/tmp/s8-$p-out
[ -f $out/patch.diff ] && [ -f $out/fixed.diff ] || { echo "$p INCOMPLETE"; exit 1; }
res=$(/verif/tools/verify_seed2.sh $wt $out 2>&1 | tail -1)
echo "$res"
case "$res" in *"suite_fail_lines=0 demo_with_patch_exit=1 demo_without_patch_exit=0"*) ;; *) echo "$p SEED-NOT-CONFIRMED"; exit 1;; esac
# the corrected twin: suite passes, demo passes
cd $wt && git checkout -q -- . && git clean -fdq && git apply $out/fixed.diff || { echo "$p FIXED-APPLY-FAILED"; exit 1; }
demo_path=$(sed -n 1p $out/DEMO_PATH.txt | tr -d ' \r'); demo_cmd=$(sed -n 2p $out/DEMO_PATH.txt)
cp $(ls $out/*_test.go | head -1) $wt/$demo_path
suite=$(go test -vet=off -count=1 -timeout 10m ./... 2>&1 | grep -cE '^(FAIL|---|panic)')
rm -f $wt/$demo_path; git checkout -q -- . ; git clean -fdq
echo "$p fixed: suite_fail_lines_incl_demo=$suite"
[ "$suite" = "0" ] || { echo "$p TWIN-NOT-CONFIRMED"; exit 1; }
d=/verif/seeded/$p-I; mkdir -p $d /verif/benign/k6
cp $out/patch.diff $out/DEMO_PATH.txt $out/notes.md $d/ 2>/dev/null; cp $out/*_test.go $d/
cp $out/fixed.diff /verif/benign/k6/$p.diff
python3 - "$p" "$res" <<'PY'
import json,sys,glob,os
p,res=sys.argv[1],sys.argv[2]
d=f'/verif/seeded/{p}-I'
demo=[os.path.basename(f) for f in glob.glob(d+'/*_test.go')][0]
lines=open(d+'/DEMO_PATH.txt').read().splitlines()
meta={'id':p+'-I','property':p,'round':'8','patch':'patch.diff','demo_file':demo,'demo_path_in_repo':lines[0].strip(),'demo_cmd':lines[1].strip(),
 'corrected_twin':f'benign/k6/{p}.diff',
 'needs_to_manifest':'see notes.md (written by the sub-agent that produced the change)',
 'confirmed':{'how':'tools/seed8_collect.sh in the author\'s scratch worktree (removed afterwards): '+res+'; corrected twin: suite and demo pass','suite_passes_with_patch':True,'demo_fails_with_patch':True,'demo_passes_without_patch':True},
 'source':'independent sub-agent given only the property text, the titles of earlier seeds and a scratch worktree; asked for one maintenance commit in two versions (correct, and with one subtle defect); base tree = /repo at a4c5199'}
json.dump(meta,open(d+'/meta.json','w'),indent=1)
PY
echo "SEED: $(/verif/tools/wtrun.sh $wt $d/patch.diff $p "$@" | cut -c1-300)"
echo "TWIN: $(/verif/tools/wtrun.sh $wt /verif/benign/k6/$p.diff | cut -c1-400)"
