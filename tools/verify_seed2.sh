#!/bin/bash
# verify_seed2.sh <worktree> <outdir> : confirms a round-2 seed in its scratch worktree:
# suite passes with the patch, demo fails with it, demo passes without it. One summary line.
export GOFLAGS=-mod=mod GOPROXY=off GOSUMDB=off GOTOOLCHAIN=local PATH=/opt/veriftools/go1.26.8/bin:$PATH
wt=$1; d=$2; name=$(basename $d)
cd $wt && git checkout -q -- . && git clean -fdq
demo_path=$(sed -n 1p $d/DEMO_PATH.txt | tr -d ' \r')
demo_cmd=$(sed -n 2p $d/DEMO_PATH.txt)
demo_file=$(ls $d/*_test.go | head -1)
git apply $d/patch.diff || { echo "$name APPLY-FAILED"; exit 1; }
suite=$(go test -vet=off -count=1 -timeout 10m ./... 2>&1 | grep -cE '^(FAIL|---|panic)')
cp $demo_file $wt/$demo_path
timeout 600 bash -c "$demo_cmd" >/tmp/$name.with.log 2>&1; with=$?
git apply -R $d/patch.diff
timeout 600 bash -c "$demo_cmd" >/tmp/$name.without.log 2>&1; without=$?
rm -f $wt/$demo_path
git checkout -q -- . ; git clean -fdq
echo "$name suite_fail_lines=$suite demo_with_patch_exit=$with demo_without_patch_exit=$without"
