#!/bin/bash
# regress.sh <outfile> <worktree> ... : runs the seed matrix (each seed against its own property, plus the extras
# recorded below) and the whole benign corpus (every patch against every claimed property) in parallel, one job
# queue shared by the given scratch worktrees of /repo. One line per patch in <outfile>.
out=$1; shift
cd /verif
declare -A extra=( [C11-A]="C18" [C20-C]="C15" [C01-E]="C02" [C01-F]="C07" [C02-I]="C04" [C03-I]="C12" [C09-I]="C14" [C14-I]="C12" [C18-I]="C04" )
jobs=$(mktemp)
for d in seeded/*/; do s=$(basename $d); p=${s:0:3}; echo "S /verif/seeded/$s/patch.diff $p ${extra[$s]}" >> $jobs; done
for f in benign/*/*.diff; do echo "B /verif/$f" >> $jobs; done
n=$#; i=0; : > $out
for wt in "$@"; do
  ( awk -v n=$n -v i=$i 'NR%n==i' $jobs | while read kind patch props; do
      echo "$kind $(tools/wtrun.sh $wt $patch $props | cut -c1-400)" >> $out
    done ) &
  i=$((i+1))
done
wait; rm -f $jobs
sort $out -o $out
echo "seeds: $(grep -c '^S ' $out) caught: $(grep '^S ' $out | grep -c ALARM)  benign: $(grep -c '^B ' $out) silent: $(grep '^B ' $out | grep -c silent)"
