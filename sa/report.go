package main

import (
	"encoding/json"
	"fmt"
	"os"
	"path/filepath"
	"regexp"
	"sort"
	"strings"
	"time"
)

// An Obligation is one rule instance decided on this run.
type Obligation struct {
	Rule     string `json:"rule"`
	Instance string `json:"instance"`
	Status   string `json:"status"` // discharged | violated | undecided | info
	Where    string `json:"where,omitempty"`
	Detail   string `json:"detail,omitempty"`
}

func (o Obligation) Key() string { return o.Rule + "|" + o.Instance }

type KnownFinding struct {
	Property  string `json:"property"`
	Status    string `json:"status"` // known | fixed
	Rule      string `json:"rule"`
	Construct string `json:"construct"`
	// ConstructRe, when set, identifies the finding by the failing operands rather than by the enclosing
	// function (which a helper extraction changes): a regular expression over the obligation instance.
	ConstructRe string `json:"construct_re,omitempty"`
	What        string `json:"what"`
	Input       string `json:"input,omitempty"`
	Commit      string `json:"commit,omitempty"`
}

// Ctx carries the loaded program and collects the obligations of one property run.
type Ctx struct {
	Prop     string
	Tier     string
	Arch     string
	P        *Program
	VerifDir string
	Depth    int // inlining / call-following bound

	start       time.Time
	obs         []Obligation
	mins        map[string]int
	explanation string
	notCovered  []string
	assumptions []string
	funcs       map[string]bool
	callSites   int
	extra       map[string]any
	finished    bool
	Unlisted    []string // keys of violations not covered by known findings (set by Finish)
}

func NewCtx(prop, tier string, p *Program, verifDir string) *Ctx {
	c := &Ctx{Prop: prop, Tier: tier, P: p, VerifDir: verifDir, start: procStart, mins: map[string]int{}, funcs: map[string]bool{}, extra: map[string]any{}}
	c.Depth = 3
	if tier == "thorough" {
		c.Depth = 5
	}
	if p != nil {
		c.Arch = p.GOARCH
	}
	return c
}

func (c *Ctx) OK(rule, instance, where, detail string) {
	c.obs = append(c.obs, Obligation{rule, instance, "discharged", where, detail})
}
func (c *Ctx) Fail(rule, instance, where, detail string) {
	c.obs = append(c.obs, Obligation{rule, instance, "violated", where, detail})
}
func (c *Ctx) Undecided(rule, instance, where, detail string) {
	c.obs = append(c.obs, Obligation{rule, instance, "undecided", where, detail})
}
func (c *Ctx) Info(rule, instance, where, detail string) {
	c.obs = append(c.obs, Obligation{rule, instance, "info", where, detail})
}

// Check records a discharged obligation when ok, a violation otherwise.
func (c *Ctx) Check(ok bool, rule, instance, where, detail string) bool {
	if ok {
		c.OK(rule, instance, where, detail)
	} else {
		c.Fail(rule, instance, where, detail)
	}
	return ok
}

// Min declares the minimum number of non-info instances a rule must have produced (vacuity guard).
func (c *Ctx) Min(rule string, n int) { c.mins[rule] = n }
func (c *Ctx) Explain(s string)       { c.explanation = s }
func (c *Ctx) NotCovered(s ...string) { c.notCovered = append(c.notCovered, s...) }
func (c *Ctx) Assume(s ...string)     { c.assumptions = append(c.assumptions, s...) }
func (c *Ctx) NoteFunc(name string)   { c.funcs[name] = true }
func (c *Ctx) NoteCallSites(n int)    { c.callSites += n }
func (c *Ctx) Extra(k string, v any)  { c.extra[k] = v }
func (c *Ctx) CountRule(rule string) (n int) {
	for _, o := range c.obs {
		if o.Rule == rule && o.Status != "info" {
			n++
		}
	}
	return
}

func loadKnown(verifDir string) ([]KnownFinding, error) {
	b, err := os.ReadFile(filepath.Join(verifDir, "known_findings.json"))
	if os.IsNotExist(err) {
		return nil, nil
	}
	if err != nil {
		return nil, err
	}
	var k struct {
		Findings []KnownFinding `json:"findings"`
	}
	if err := json.Unmarshal(b, &k); err != nil {
		return nil, fmt.Errorf("known_findings.json: %w", err)
	}
	return k.Findings, nil
}

// Finish applies vacuity guards, matches known findings, writes evidence and replay files,
// prints the protocol lines and returns the process exit code.
func (c *Ctx) Finish(writeEvidence bool) int {
	defer func() { c.finished = true }()
	// vacuity guards
	rules := make([]string, 0, len(c.mins))
	for r := range c.mins {
		rules = append(rules, r)
	}
	sort.Strings(rules)
	for _, r := range rules {
		if n := c.CountRule(r); n < c.mins[r] {
			c.Undecided(r, "min-instances", "", fmt.Sprintf("rule matched %d instance(s), minimum confirmed by hand is %d: the rule's anchors no longer resolve or its scope shrank", n, c.mins[r]))
		}
	}
	known, kerr := loadKnown(c.VerifDir)
	if kerr != nil {
		c.Undecided("known-findings", "load", "", kerr.Error())
	}
	knownIdx := map[string]KnownFinding{}
	for _, k := range known {
		if k.Property == c.Prop && k.Status == "known" {
			knownIdx[k.Rule+"|"+k.Construct] = k
		}
	}
	var viol, knownHit []Obligation
	discharged, total := 0, 0
	distinct := map[string]bool{}
	for _, o := range c.obs {
		switch o.Status {
		case "discharged":
			discharged++
			total++
			if o.Where != "" {
				distinct[o.Key()] = true
			}
		case "violated", "undecided":
			total++
			distinct[o.Key()] = true
			if _, ok := knownIdx[o.Key()]; ok && o.Status == "violated" {
				knownHit = append(knownHit, o)
			} else if k, ok := matchKnownRe(known, c.Prop, o); ok && o.Status == "violated" {
				knownIdx[o.Key()] = k
				knownHit = append(knownHit, o)
			} else {
				viol = append(viol, o)
			}
		}
	}
	exit := 0
	if os.Getenv("SACHECK_VERBOSE") != "" {
		for _, o := range c.obs {
			fmt.Printf("  . %s [%s] at %s: %s\n", o.Status, o.Key(), o.Where, oneLine(o.Detail))
		}
	}
	replayDir := filepath.Join(c.VerifDir, "evidence", "replay")
	for _, o := range knownHit {
		k := knownIdx[o.Key()]
		fmt.Printf("KNOWN-FINDING: property=%s %s [%s] at %s: %s\n", c.Prop, k.What, o.Key(), o.Where, oneLine(o.Detail))
	}
	for i, o := range viol {
		exit = 1
		c.Unlisted = append(c.Unlisted, o.Key())
		path := filepath.Join(replayDir, fmt.Sprintf("%s-%s-%d.json", c.Prop, c.Arch, i+1))
		if writeEvidence {
			os.MkdirAll(replayDir, 0o755)
			rb, _ := json.MarshalIndent(map[string]any{
				"property": c.Prop, "tier": c.Tier, "arch": c.Arch, "rule": o.Rule, "instance": o.Instance, "key": o.Key(),
				"status": o.Status, "where": o.Where, "detail": o.Detail,
				"replay": fmt.Sprintf("./bin/sacheck -prop %s -tier %s  (re-analyses /repo; the violation is present iff an obligation with this key is reported again)", c.Prop, c.Tier),
			}, "", " ")
			os.WriteFile(path, rb, 0o644)
		}
		fmt.Printf("  %s %s [%s] at %s: %s\n", strings.ToUpper(o.Status), c.Prop, o.Key(), o.Where, oneLine(o.Detail))
		fmt.Printf("VIOLATION property=%s replay=%s\n", c.Prop, path)
	}
	if writeEvidence {
		c.writeEvidence(total, discharged, len(distinct), len(viol), knownHit)
	}
	fmt.Printf("%s tier=%s arch=%s obligations=%d discharged=%d known=%d violations=%d wall=%.1fs\n", c.Prop, c.Tier, c.Arch, total, discharged, len(knownHit), len(viol), time.Since(c.start).Seconds())
	return exit
}

func oneLine(s string) string {
	s = strings.ReplaceAll(s, "\n", " ")
	if len(s) > 400 {
		s = s[:400] + "…"
	}
	return s
}

func (c *Ctx) writeEvidence(total, discharged, distinct, nviol int, knownHit []Obligation) {
	// samples: up to 40 obligations, spread over rules
	byRule := map[string][]Obligation{}
	var order []string
	for _, o := range c.obs {
		if o.Status == "info" {
			continue
		}
		if _, ok := byRule[o.Rule]; !ok {
			order = append(order, o.Rule)
		}
		byRule[o.Rule] = append(byRule[o.Rule], o)
	}
	var samples []any
	ruleCounts := map[string]int{}
	for _, r := range order {
		ruleCounts[r] = len(byRule[r])
		for i, o := range byRule[r] {
			if i >= 4 && o.Status == "discharged" {
				continue
			}
			samples = append(samples, o)
		}
	}
	if len(samples) > 120 {
		samples = samples[:120]
	}
	if len(samples) == 0 {
		samples = append(samples, "no obligations")
	}
	var infos []Obligation
	for _, o := range c.obs {
		if o.Status == "info" && len(infos) < 40 {
			infos = append(infos, o)
		}
	}
	pkgs := []string{}
	if c.P != nil {
		for _, p := range c.P.Pkgs {
			pkgs = append(pkgs, p.PkgPath)
		}
	}
	fl := make([]string, 0, len(c.funcs))
	for f := range c.funcs {
		fl = append(fl, f)
	}
	sort.Strings(fl)
	nf := len(fl)
	if len(fl) > 60 {
		fl = fl[:60]
	}
	expl := c.explanation
	if len(c.notCovered) > 0 {
		expl += " NOT COVERED: " + strings.Join(c.notCovered, "; ") + "."
	}
	cov := map[string]any{
		"explanation":          expl,
		"obligations":          total,
		"discharged":           discharged,
		"evaluations":          total,
		"distinct_nontrivial":  distinct,
		"rule":                 "one evaluation per rule instance decided against a construct of /repo's current source; an instance is non-trivial when it matched a concrete construct (file:line) of /repo or was violated/undecided; distinct by rule|instance key",
		"samples":              samples,
		"rule_instance_counts": ruleCounts,
		"checker_cmd":          fmt.Sprintf("./bin/sacheck -prop %s -tier %s", c.Prop, c.Tier),
		"trusted_base": []string{"go/types type checker and go/ssa builder (go1.26.8, x/tools v0.50.0)", "VTA call graph over CHA", "the analyser's engines (sa/*.go) and its rule tables written from the property statements",
			"known_findings.json entries (each a defect confirmed by execution during triage)"},
		"packages":           pkgs,
		"build_configs":      []string{"linux/" + c.Arch},
		"functions_analysed": nf,
		"functions_sample":   fl,
		"call_sites":         c.callSites,
		"known_findings_hit": knownHit,
		"info":               infos,
		"exhaustive":         false,
	}
	for k, v := range c.extra {
		cov[k] = v
	}
	seed := 0
	fmt.Sscanf(os.Getenv("VERIF_SEED"), "%d", &seed)
	ev := map[string]any{
		"property_id": c.Prop,
		"tier":        c.Tier,
		"seed":        seed,
		"level":       "other",
		"coverage":    cov,
		"assumptions": append([]string{"static analysis of source: decides the structural clauses named in coverage.explanation, each a necessary condition of the property; it does not execute the code and does not decide the behaviour itself"}, c.assumptions...),
		"wall_s":      time.Since(c.start).Seconds(),
		"violations":  nviol,
	}
	b, _ := json.MarshalIndent(ev, "", " ")
	dir := filepath.Join(c.VerifDir, "evidence")
	os.MkdirAll(dir, 0o755)
	os.WriteFile(filepath.Join(dir, c.Prop+".json"), b, 0o644)
}

var procStart = time.Now()

func matchKnownRe(known []KnownFinding, prop string, o Obligation) (KnownFinding, bool) {
	for _, k := range known {
		if k.Property != prop || k.Status != "known" || k.ConstructRe == "" || k.Rule != o.Rule {
			continue
		}
		if re, err := regexp.Compile(k.ConstructRe); err == nil && re.MatchString(o.Instance) {
			return k, true
		}
	}
	return KnownFinding{}, false
}
