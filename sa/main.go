// sacheck decides the structural clauses of properties C01..C20 of SiaFoundation/core
// by static analysis of /repo's current working tree. See /verif/DESIGN.md.
package main

import (
	"encoding/json"
	"flag"
	"fmt"
	"os"
	"os/exec"
	"path/filepath"
	"runtime/debug"
	"sort"
	"strings"
	"sync"

	"golang.org/x/tools/go/ssa"
)

type propRunner struct {
	id  string
	run func(c *Ctx)
}

var registry = map[string]func(c *Ctx){}

func register(id string, f func(c *Ctx)) { registry[id] = f }

type childResult struct {
	Exit      int      `json:"exit"`
	Violated  []string `json:"violated"`
	Known     []string `json:"known"`
	Oblig     int      `json:"obligations"`
	Arch      string   `json:"arch"`
	LoadError string   `json:"load_error,omitempty"`
}

func main() {
	prop := flag.String("prop", "", "property id (C01..C20)")
	tier := flag.String("tier", "quick", "quick|thorough")
	repo := flag.String("repo", "/repo", "repository root")
	arch := flag.String("arch", "amd64", "GOARCH to analyse")
	verif := flag.String("verif", "", "verif dir (default: parent of the binary's dir)")
	child := flag.Bool("child", false, "child mode: no evidence file, print CHILD-RESULT json")
	overlayJSON := flag.String("overlay-json", "", "json file {relpath: content} of in-memory overlays")
	selftest := flag.Bool("selftest", false, "run the overlay mutant corpus for -prop (or all)")
	dumpLayout := flag.String("dump-layout", "", "write the extracted wire layout reference to this file")
	replay := flag.String("replay", "", "replay a violation file")
	list := flag.Bool("list", false, "list registered properties")
	dumpCalls := flag.String("dump-calls", "", "debug: print the call facts collected from this entry point")
	dumpWrites := flag.String("dump-writes", "", "debug: print the input writes reachable from this entry point")
	dumpSinks := flag.String("dump-sinks", "", "debug: print panic sinks reachable from this entry point")
	dumpWire := flag.String("dump-wire", "", "debug: print wire programs whose name contains this string")
	dumpGuards := flag.String("dump-guards", "", "debug: print the guards collected from this entry point")
	flag.Parse()
	// go/packages resolves "go" through this process's PATH: force the toolchain that satisfies /repo's go directive
	os.Setenv("PATH", "/opt/veriftools/go1.26.8/bin:"+os.Getenv("PATH"))
	os.Setenv("GOTOOLCHAIN", "local")
	os.Unsetenv("GOWORK")

	if *verif == "" {
		exe, _ := os.Executable()
		*verif = filepath.Dir(filepath.Dir(exe))
	}
	if t := os.Getenv("VERIF_TIER"); t != "" && !isFlagSet("tier") {
		*tier = t
	}
	if *list {
		ids := make([]string, 0, len(registry))
		for id := range registry {
			ids = append(ids, id)
		}
		sort.Strings(ids)
		fmt.Println(strings.Join(ids, " "))
		return
	}
	if *replay != "" {
		b, err := os.ReadFile(*replay)
		if err != nil {
			fmt.Println("cannot read replay file:", err)
			os.Exit(2)
		}
		var r struct {
			Property, Tier, Key string
		}
		json.Unmarshal(b, &r)
		fmt.Printf("replaying %s: re-running property %s; looking for key %s\n", *replay, r.Property, r.Key)
		*prop, *tier = r.Property, "quick"
	}
	if *selftest {
		os.Exit(runSelfTest(*prop, *repo, *verif))
	}
	if *dumpLayout != "" {
		p, err := Load(LoadConfig{Repo: *repo, GOARCH: *arch})
		if err != nil {
			fmt.Println("load:", err)
			os.Exit(2)
		}
		if err := dumpLayoutRef(p, *dumpLayout); err != nil {
			fmt.Println(err)
			os.Exit(2)
		}
		return
	}
	if *dumpCalls != "" {
		p, err := Load(LoadConfig{Repo: *repo, GOARCH: *arch})
		if err != nil {
			fmt.Println("load:", err)
			os.Exit(2)
		}
		ge := NewGuardEngine(p, 8)
		cs, ok := ge.EntryCalls(*dumpCalls)
		if !ok {
			fmt.Println("entry not found")
			os.Exit(2)
		}
		for _, cf := range cs {
			fmt.Printf("%s  %s\n", p.Pos(cf.Pos), cf.String())
		}
		return
	}
	if *dumpWrites != "" {
		p, err := Load(LoadConfig{Repo: *repo, GOARCH: *arch})
		if err != nil {
			fmt.Println("load:", err)
			os.Exit(2)
		}
		ge := NewGuardEngine(p, 8)
		fn := p.Func(*dumpWrites)
		if fn == nil {
			fmt.Println("entry not found")
			os.Exit(2)
		}
		for _, w := range ge.InputWrites(fn) {
			fmt.Printf("%s  %s %s  [%s]  via %s\n", p.Pos(w.Fact.Pos), w.Fact.Name, w.Target, w.Why, strings.Join(w.Fact.Chain, ">"))
		}
		return
	}
	if *dumpSinks != "" {
		p, err := Load(LoadConfig{Repo: *repo, GOARCH: *arch})
		if err != nil {
			fmt.Println("load:", err)
			os.Exit(2)
		}
		ge := NewGuardEngine(p, 6)
		fn := p.Func(*dumpSinks)
		if fn == nil {
			fmt.Println("entry not found")
			os.Exit(2)
		}
		for _, s := range ge.Sinks(fn, nil, nil, nil, 0, map[*ssa.Function]int{}) {
			ok, why := s.Discharged()
			fmt.Printf("%s %v %s operand=%s base=%s(%d) %s\n", p.Pos(s.Pos), ok, s.Kind, s.Operand, s.Base, s.BaseLen, why)
			if !ok {
				for _, c := range s.Conds {
					fmt.Printf("      given %s\n", c)
				}
			}
		}
		return
	}
	if *dumpWire != "" {
		p, err := Load(LoadConfig{Repo: *repo, GOARCH: *arch})
		if err != nil {
			fmt.Println("load:", err)
			os.Exit(2)
		}
		progs := ExtractWirePrograms(p)
		for _, n := range sortedKeys(progs) {
			if strings.Contains(n, *dumpWire) {
				b, _ := json.Marshal(progs[n].Ops)
				fmt.Printf("%s [%s] %s\n", n, progs[n].Side, b)
			}
		}
		return
	}
	if *dumpGuards != "" {
		p, err := Load(LoadConfig{Repo: *repo, GOARCH: *arch})
		if err != nil {
			fmt.Println("load:", err)
			os.Exit(2)
		}
		ge := NewGuardEngine(p, 8)
		gs, ok := ge.EntryGuards(*dumpGuards)
		if !ok {
			fmt.Println("entry not found")
			os.Exit(2)
		}
		for _, g := range gs {
			fmt.Printf("%s  %s\n    via %s\n", p.Pos(g.Pos), g.String(), strings.Join(g.Chain, " > "))
		}
		if fn := p.Func(*dumpGuards); fn != nil {
			for i := 0; i < fn.Signature.Results().Len(); i++ {
				fmt.Printf("return #%d: %s\n", i, strings.Join(ge.ReturnAtoms(fn, i), "  |  "))
			}
		}
		return
	}
	run, ok := registry[*prop]
	if !ok {
		fmt.Printf("unknown property %q\n", *prop)
		os.Exit(2)
	}
	var overlay map[string][]byte
	if *overlayJSON != "" {
		b, err := os.ReadFile(*overlayJSON)
		if err != nil {
			fmt.Println(err)
			os.Exit(2)
		}
		var m map[string]string
		if err := json.Unmarshal(b, &m); err != nil {
			fmt.Println(err)
			os.Exit(2)
		}
		overlay = map[string][]byte{}
		for k, v := range m {
			overlay[filepath.Join(*repo, k)] = []byte(v)
		}
	}
	os.Exit(runOne(*prop, *tier, *repo, *arch, *verif, overlay, *child, run))
}

func isFlagSet(name string) bool {
	set := false
	flag.Visit(func(f *flag.Flag) {
		if f.Name == name {
			set = true
		}
	})
	return set
}

func runOne(prop, tier, repo, arch, verif string, overlay map[string][]byte, child bool, run func(c *Ctx)) (exit int) {
	p, err := Load(LoadConfig{Repo: repo, GOARCH: arch, Overlay: overlay})
	c := NewCtx(prop, tier, p, verif)
	c.Arch = arch
	if err != nil {
		c.Undecided("load", "packages", repo, "cannot load/type-check the repository: "+err.Error())
	} else {
		func() {
			defer func() {
				if r := recover(); r != nil {
					c.Undecided("analyser", "panic", "", fmt.Sprintf("analyser panic: %v\n%s", r, debug.Stack()))
				}
			}()
			run(c)
		}()
	}
	if child {
		exit = c.Finish(false)
		res := childResult{Exit: exit, Arch: arch}
		res.Violated = c.Unlisted
		for _, o := range c.obs {
			if o.Status != "info" {
				res.Oblig++
			}
		}
		if err != nil {
			res.LoadError = err.Error()
		}
		b, _ := json.Marshal(res)
		fmt.Printf("CHILD-RESULT %s\n", b)
		return exit
	}
	if tier == "thorough" {
		exe, _ := os.Executable()
		// other build configurations, one child process each
		type out struct {
			arch string
			res  childResult
			text string
		}
		var outs []out
		var mu sync.Mutex
		var wg sync.WaitGroup
		for _, a := range []string{"arm64", "386"} {
			wg.Add(1)
			go func(a string) {
				defer wg.Done()
				cmd := exec.Command(exe, "-prop", prop, "-tier", "quick", "-arch", a, "-repo", repo, "-verif", verif, "-child")
				b, _ := cmd.CombinedOutput()
				o := out{arch: a, text: string(b)}
				for _, ln := range strings.Split(string(b), "\n") {
					if strings.HasPrefix(ln, "CHILD-RESULT ") {
						json.Unmarshal([]byte(strings.TrimPrefix(ln, "CHILD-RESULT ")), &o.res)
					}
				}
				mu.Lock()
				outs = append(outs, o)
				mu.Unlock()
			}(a)
		}
		wg.Wait()
		cfgs := []string{"linux/" + arch}
		have := map[string]bool{}
		for _, o := range c.obs {
			if o.Status == "violated" || o.Status == "undecided" {
				have[o.Key()] = true
			}
		}
		sort.Slice(outs, func(i, j int) bool { return outs[i].arch < outs[j].arch })
		for _, o := range outs {
			cfgs = append(cfgs, fmt.Sprintf("linux/%s (%d obligations)", o.arch, o.res.Oblig))
			if o.res.Oblig == 0 && o.res.LoadError == "" {
				c.Undecided("build-config", o.arch, "", "child analysis produced no result: "+oneLine(o.text))
			}
			for _, k := range o.res.Violated {
				if !have[k] {
					parts := strings.SplitN(k, "|", 2)
					c.obs = append(c.obs, Obligation{Rule: parts[0], Instance: parts[1], Status: "violated", Where: "linux/" + o.arch, Detail: "violated under build configuration linux/" + o.arch + " only"})
					have[k] = true
				}
			}
		}
		c.Extra("build_configs", cfgs)
		// benign + breaking overlay corpus for this property
		st := selfTestProp(prop, repo, verif, exe)
		c.Extra("selftest", st)
	}
	return c.Finish(true)
}
