package main

import (
	"fmt"
	"go/ast"
	"go/constant"
	"go/token"
	"go/types"
	"sort"
	"strings"

	"golang.org/x/tools/go/packages"
	"golang.org/x/tools/go/types/typeutil"
)

// Symbolic struct interpreter (C17): abstract interpretation of loop-free constructor code over
// field-sensitive linear forms. Scalars (Currency, integers, identifiers such as keys/addresses)
// are integer-linear combinations of atoms; structs are maps from field names to values.
// Currency.Add/Sub and integer +/- are linear; products, quotients and calls without an inlinable
// body are opaque atoms named by the canonical text of their operands, so that two occurrences of
// the same product are the same atom. if/else forks the state; module functions with bodies are
// inlined (all their paths); pointer arguments to locals alias the caller's struct.

type Lin map[string]int64

func (l Lin) clone() Lin {
	r := Lin{}
	for k, v := range l {
		r[k] = v
	}
	return r
}
func (l Lin) addScaled(o Lin, k int64) Lin {
	r := l.clone()
	for a, v := range o {
		r[a] += v * k
		if r[a] == 0 {
			delete(r, a)
		}
	}
	return r
}
func (l Lin) String() string {
	if len(l) == 0 {
		return "0"
	}
	var ks []string
	for k := range l {
		ks = append(ks, k)
	}
	sort.Strings(ks)
	var sb strings.Builder
	for i, k := range ks {
		v := l[k]
		switch {
		case i == 0 && v < 0:
			sb.WriteString("-")
		case i > 0 && v < 0:
			sb.WriteString(" - ")
		case i > 0:
			sb.WriteString(" + ")
		}
		if v < 0 {
			v = -v
		}
		name := k
		if k == "" {
			name = "1"
		}
		if v != 1 || k == "" {
			if k == "" {
				fmt.Fprintf(&sb, "%d", v)
			} else {
				fmt.Fprintf(&sb, "%d*%s", v, name)
			}
		} else {
			sb.WriteString(name)
		}
	}
	return sb.String()
}
func (l Lin) Equal(o Lin) bool { return len(l.addScaled(o, -1)) == 0 }
func (l Lin) NonNeg() bool {
	for _, v := range l {
		if v < 0 {
			return false
		}
	}
	return true
}

type SV struct {
	L    Lin            // scalar
	F    map[string]*SV // struct
	Nil  int            // for error/pointer values: 0 unknown, 1 nil, 2 non-nil
	Cmp  *[2]Lin        // result of a.Cmp(b)
	Bool string         // opaque boolean description
	Idx  map[int64]*SV  // materialised elements of a slice/array value (constant indices)
}

func (v *SV) deep() *SV { return v.deepMemo(map[*SV]*SV{}) }

// deepMemo copies a value graph preserving sharing (pointer locals alias the cells they point to).
func (v *SV) deepMemo(memo map[*SV]*SV) *SV {
	if v == nil {
		return nil
	}
	if n, ok := memo[v]; ok {
		return n
	}
	n := &SV{Nil: v.Nil, Bool: v.Bool, Cmp: v.Cmp}
	memo[v] = n
	if v.L != nil {
		n.L = v.L.clone()
	}
	if v.F != nil {
		n.F = map[string]*SV{}
		for k, f := range v.F {
			n.F[k] = f.deepMemo(memo)
		}
	}
	if v.Idx != nil {
		n.Idx = map[int64]*SV{}
		for k, f := range v.Idx {
			n.Idx[k] = f.deepMemo(memo)
		}
	}
	return n
}

// Field follows a dotted path.
func (v *SV) Field(path string) *SV {
	cur := v
	for _, p := range strings.Split(path, ".") {
		if cur == nil || cur.F == nil {
			return nil
		}
		cur = cur.F[p]
	}
	return cur
}

func (v *SV) String() string {
	switch {
	case v == nil:
		return "?"
	case v.F != nil:
		return "struct"
	case v.L != nil:
		return v.L.String()
	case v.Nil == 1:
		return "nil"
	case v.Nil == 2:
		return "non-nil"
	case v.Bool != "":
		return "bool:" + v.Bool
	}
	unknownCounter++
	return fmt.Sprintf("?#%d", unknownCounter)
}

var unknownCounter int

type symFact struct {
	A, B Lin
	Op   string // A op B holds on this path
	Text string
}

type symState struct {
	env    map[types.Object]*SV
	alias  map[types.Object]types.Object // pointer parameter -> caller's variable
	facts  []symFact
	subs   []symFact // Currency.Sub(a,b) evaluated on this path (needs a >= b)
	unsup  []string
	ret    []*SV
	done   bool
	panics bool
	stores []string // assigned paths, in order (for "no store before the check" rules)
	havoc  []string // variables made unknown by a loop
	notes  []string // expressions outside the domain (evaluated to unique unknowns)
}

func (s *symState) fork() *symState {
	n := &symState{env: map[types.Object]*SV{}, alias: map[types.Object]types.Object{}}
	memo := map[*SV]*SV{}
	var keys []types.Object
	for k := range s.env {
		keys = append(keys, k)
	}
	// containers before the pointer locals that alias their cells (a shared cell must be copied once)
	sort.SliceStable(keys, func(i, j int) bool { return keys[i].Pos() < keys[j].Pos() })
	for _, k := range keys {
		n.env[k] = s.env[k].deepMemo(memo)
	}
	for k, v := range s.alias {
		n.alias[k] = v
	}
	n.facts = append([]symFact{}, s.facts...)
	n.subs = append([]symFact{}, s.subs...)
	n.unsup = append([]string{}, s.unsup...)
	n.stores = append([]string{}, s.stores...)
	n.havoc = append([]string{}, s.havoc...)
	return n
}

type symInterp struct {
	p     *Program
	depth int
	// scalarTypes are named struct types treated as scalars
}

type symFrame struct {
	pkg  *packages.Package
	info *types.Info
	res  []types.Object
	name string
}

func isScalarType(t types.Type) bool {
	if n, ok := t.(*types.Named); ok {
		if n.Obj().Pkg() != nil && n.Obj().Name() == "Currency" && strings.HasSuffix(n.Obj().Pkg().Path(), "/types") {
			return true
		}
	}
	_, isStruct := t.Underlying().(*types.Struct)
	if isStruct {
		// structs of other modules (time.Time, sync types…) are opaque values
		if n, ok := t.(*types.Named); ok && n.Obj().Pkg() != nil && !strings.HasPrefix(n.Obj().Pkg().Path(), modPath) {
			return true
		}
	}
	return !isStruct
}

// symOf materialises a symbolic value rooted at origin.
func symOf(origin string, t types.Type, depth int) *SV {
	if pt, ok := t.Underlying().(*types.Pointer); ok && depth <= 6 {
		if _, isStruct := pt.Elem().Underlying().(*types.Struct); isStruct && !isScalarType(pt.Elem()) {
			return symOf(origin, pt.Elem(), depth+1)
		}
	}
	if isScalarType(t) || depth > 6 {
		v := &SV{L: Lin{origin: 1}}
		return v
	}
	st := t.Underlying().(*types.Struct)
	v := &SV{F: map[string]*SV{}}
	for i := 0; i < st.NumFields(); i++ {
		v.F[st.Field(i).Name()] = symOf(origin+"."+st.Field(i).Name(), st.Field(i).Type(), depth+1)
	}
	return v
}

func zeroOf(t types.Type, depth int) *SV {
	if isScalarType(t) || depth > 6 {
		v := &SV{L: Lin{}}
		if _, ok := t.Underlying().(*types.Interface); ok {
			v.Nil = 1
		}
		if _, ok := t.Underlying().(*types.Pointer); ok {
			v.Nil = 1
		}
		return v
	}
	st := t.Underlying().(*types.Struct)
	v := &SV{F: map[string]*SV{}}
	for i := 0; i < st.NumFields(); i++ {
		v.F[st.Field(i).Name()] = zeroOf(st.Field(i).Type(), depth+1)
	}
	return v
}

// RunFunc interprets fn from symbolic parameters named after the source parameters.
func (si *symInterp) RunFunc(spec string) ([]*symState, *symFrame, *ast.FuncDecl, bool) {
	fn := si.p.Func(spec)
	if fn == nil {
		return nil, nil, nil, false
	}
	obj, _ := fn.Object().(*types.Func)
	if obj == nil {
		return nil, nil, nil, false
	}
	fd, pkg := si.p.Decl(obj)
	if fd == nil || fd.Body == nil {
		return nil, nil, nil, false
	}
	fr := &symFrame{pkg: pkg, info: pkg.TypesInfo, name: fd.Name.Name}
	st := &symState{env: map[types.Object]*SV{}, alias: map[types.Object]types.Object{}}
	bind := func(fl *ast.FieldList) {
		if fl == nil {
			return
		}
		for _, f := range fl.List {
			for _, n := range f.Names {
				o := fr.info.Defs[n]
				if o == nil {
					continue
				}
				t := o.Type()
				if pt, ok := t.Underlying().(*types.Pointer); ok {
					t = pt.Elem()
				}
				st.env[o] = symOf(n.Name, t, 0)
			}
		}
	}
	bind(fd.Recv)
	bind(fd.Type.Params)
	si.bindResults(fd, fr, st)
	out := si.block(fd.Body.List, fr, []*symState{st})
	for _, s := range out {
		if !s.done && !s.panics {
			si.bareReturn(fr, s)
		}
	}
	return out, fr, fd, true
}

func (si *symInterp) bindResults(fd *ast.FuncDecl, fr *symFrame, st *symState) {
	if fd.Type.Results == nil {
		return
	}
	for _, f := range fd.Type.Results.List {
		for _, n := range f.Names {
			if o := fr.info.Defs[n]; o != nil {
				st.env[o] = zeroOf(o.Type(), 0)
				fr.res = append(fr.res, o)
			}
		}
	}
}

func (si *symInterp) bareReturn(fr *symFrame, s *symState) {
	for _, o := range fr.res {
		s.ret = append(s.ret, s.env[o])
	}
	s.done = true
}

func (si *symInterp) block(list []ast.Stmt, fr *symFrame, in []*symState) []*symState {
	cur := in
	for _, st := range list {
		var next []*symState
		for _, s := range cur {
			if s.done || s.panics {
				next = append(next, s)
				continue
			}
			next = append(next, si.stmt(st, fr, s)...)
		}
		cur = next
		if len(cur) > 256 {
			for _, s := range cur {
				s.unsup = append(s.unsup, "path explosion")
			}
			return cur
		}
	}
	return cur
}

func (si *symInterp) lookup(o types.Object, s *symState) *SV {
	for i := 0; i < 8; i++ {
		t, ok := s.alias[o]
		if !ok {
			break
		}
		o = t
	}
	return s.env[o]
}

func (si *symInterp) line(fr *symFrame, n ast.Node) string {
	return si.p.Pos(n.Pos())
}

// lvalue returns the storage cell for an assignable expression.
func (si *symInterp) lvalue(e ast.Expr, fr *symFrame, s *symState) (*SV, string) {
	switch e := stripParens(e).(type) {
	case *ast.Ident:
		o := fr.info.Uses[e]
		if o == nil {
			o = fr.info.Defs[e]
		}
		if o == nil {
			return nil, ""
		}
		return si.lookup(o, s), e.Name
	case *ast.SelectorExpr:
		base, path := si.lvalue(e.X, fr, s)
		if base == nil || base.F == nil {
			return nil, ""
		}
		if f := base.F[e.Sel.Name]; f != nil {
			return f, path + "." + e.Sel.Name
		}
		for en, emb := range base.F { // promoted through an embedded struct
			if emb != nil && emb.F != nil && emb.F[e.Sel.Name] != nil {
				return emb.F[e.Sel.Name], path + "." + en + "." + e.Sel.Name
			}
		}
		return nil, ""
	case *ast.StarExpr:
		return si.lvalue(e.X, fr, s)
	case *ast.IndexExpr:
		base, path := si.lvalue(e.X, fr, s)
		if el := si.element(base, e, fr); el != nil {
			return el, path + "[" + types.ExprString(e.Index) + "]"
		}
	}
	return nil, ""
}

// element materialises base[k] for a constant index k.
func (si *symInterp) element(base *SV, e *ast.IndexExpr, fr *symFrame) *SV {
	if base == nil {
		return nil
	}
	tv, ok := fr.info.Types[e.Index]
	if !ok || tv.Value == nil {
		return nil
	}
	k, ok := constant.Int64Val(tv.Value)
	if !ok {
		return nil
	}
	if base.Idx == nil {
		base.Idx = map[int64]*SV{}
	}
	if el := base.Idx[k]; el != nil {
		return el
	}
	var et types.Type
	switch t := fr.info.TypeOf(e.X).Underlying().(type) {
	case *types.Slice:
		et = t.Elem()
	case *types.Array:
		et = t.Elem()
	default:
		return nil
	}
	origin := "?"
	if len(base.L) == 1 {
		for a := range base.L {
			origin = a
		}
	}
	el := symOf(fmt.Sprintf("%s[%d]", origin, k), et, 0)
	base.Idx[k] = el
	return el
}

func (si *symInterp) store(lhs ast.Expr, v *SV, fr *symFrame, s *symState) {
	if id, ok := stripParens(lhs).(*ast.Ident); ok {
		if id.Name == "_" {
			return
		}
		o := fr.info.Defs[id]
		if o == nil {
			o = fr.info.Uses[id]
		}
		if o == nil {
			return
		}
		for i := 0; i < 8; i++ {
			t, ok := s.alias[o]
			if !ok {
				break
			}
			o = t
		}
		s.env[o] = v.deep()
		s.stores = append(s.stores, id.Name)
		return
	}
	cell, path := si.lvalue(lhs, fr, s)
	if cell == nil || v == nil {
		// store through a non-constant index / map / unknown path: the root variable becomes unknown
		root := lhs
		for {
			switch x := stripParens(root).(type) {
			case *ast.SelectorExpr:
				root = x.X
				continue
			case *ast.IndexExpr:
				root = x.X
				continue
			case *ast.StarExpr:
				root = x.X
				continue
			}
			break
		}
		if id, ok := stripParens(root).(*ast.Ident); ok {
			o := fr.info.Uses[id]
			if o == nil {
				o = fr.info.Defs[id]
			}
			for i := 0; i < 8 && o != nil; i++ {
				t, ok := s.alias[o]
				if !ok {
					break
				}
				o = t
			}
			if o != nil {
				unknownCounter++
				t := o.Type()
				if pt, ok := t.Underlying().(*types.Pointer); ok {
					t = pt.Elem()
				}
				s.env[o] = symOf(fmt.Sprintf("havoc%d:%s", unknownCounter, id.Name), t, 0)
				s.havoc = append(s.havoc, id.Name)
				return
			}
		}
		s.unsup = append(s.unsup, si.line(fr, lhs)+": store to "+types.ExprString(lhs))
		return
	}
	d := v.deep()
	*cell = *d
	s.stores = append(s.stores, path)
}

func (si *symInterp) stmt(st ast.Stmt, fr *symFrame, s *symState) []*symState {
	one := []*symState{s}
	switch st := st.(type) {
	case *ast.BlockStmt:
		return si.block(st.List, fr, one)
	case *ast.EmptyStmt:
		return one
	case *ast.ReturnStmt:
		if len(st.Results) == 0 {
			si.bareReturn(fr, s)
			return one
		}
		if len(st.Results) == 1 {
			if call, ok := stripParens(st.Results[0]).(*ast.CallExpr); ok {
				outs := si.callPaths(call, fr, s)
				if outs != nil {
					for _, o := range outs {
						o.st.ret = o.vals
						o.st.done = true
					}
					return statesOf(outs)
				}
			}
		}
		var vals []*SV
		for _, r := range st.Results {
			vals = append(vals, si.eval(r, fr, s).deep())
		}
		s.ret = vals
		s.done = true
		return one
	case *ast.ExprStmt:
		if call, ok := stripParens(st.X).(*ast.CallExpr); ok {
			if id, ok := call.Fun.(*ast.Ident); ok && id.Name == "panic" {
				s.panics = true
				return one
			}
			if outs := si.callPaths(call, fr, s); outs != nil {
				return statesOf(outs)
			}
			si.eval(call, fr, s)
			return one
		}
	case *ast.IncDecStmt:
		cell, path := si.lvalue(st.X, fr, s)
		if cell != nil && cell.L != nil {
			k := int64(1)
			if st.Tok == token.DEC {
				k = -1
			}
			cell.L = cell.L.addScaled(Lin{"": 1}, k)
			s.stores = append(s.stores, path)
			return one
		}
	case *ast.DeclStmt:
		if gd, ok := st.Decl.(*ast.GenDecl); ok && gd.Tok == token.VAR {
			for _, sp := range gd.Specs {
				vs := sp.(*ast.ValueSpec)
				for i, n := range vs.Names {
					o := fr.info.Defs[n]
					if o == nil {
						continue
					}
					if i < len(vs.Values) {
						s.env[o] = si.eval(vs.Values[i], fr, s).deep()
					} else {
						s.env[o] = zeroOf(o.Type(), 0)
					}
				}
			}
			return one
		}
	case *ast.AssignStmt:
		switch st.Tok {
		case token.ASSIGN, token.DEFINE:
			if len(st.Rhs) == 1 {
				if call, ok := stripParens(st.Rhs[0]).(*ast.CallExpr); ok {
					// v, flag := a.SubWithUnderflow(b) / a.AddWithOverflow(b): one path per flag value
					if fn, _ := typeutil.Callee(fr.info, call).(*types.Func); fn != nil && isCurrencyRecv(fn) && len(st.Lhs) == 2 && (fn.Name() == "SubWithUnderflow" || fn.Name() == "AddWithOverflow") {
						if sel, ok := stripParens(call.Fun).(*ast.SelectorExpr); ok && len(call.Args) == 1 {
							recv, arg := si.eval(sel.X, fr, s), si.eval(call.Args[0], fr, s)
							if recv != nil && arg != nil && recv.L != nil && arg.L != nil {
								okSt, badSt := s, s.fork()
								k := int64(1)
								if fn.Name() == "SubWithUnderflow" {
									k = -1
									okSt.facts = append(okSt.facts, symFact{A: recv.L, B: arg.L, Op: ">=", Text: shortLin(recv.L) + " >= " + shortLin(arg.L)})
									badSt.facts = append(badSt.facts, symFact{A: recv.L, B: arg.L, Op: "<", Text: shortLin(recv.L) + " < " + shortLin(arg.L)})
								}
								si.store(st.Lhs[0], &SV{L: recv.L.addScaled(arg.L, k)}, fr, okSt)
								si.store(st.Lhs[1], &SV{Bool: "const:false"}, fr, okSt)
								unknownCounter++
								si.store(st.Lhs[0], &SV{L: Lin{fmt.Sprintf("?wrapped#%d", unknownCounter): 1}}, fr, badSt)
								si.store(st.Lhs[1], &SV{Bool: "const:true"}, fr, badSt)
								return []*symState{okSt, badSt}
							}
						}
					}
					if outs := si.callPaths(call, fr, s); outs != nil {
						for _, o := range outs {
							if o.st.panics {
								continue
							}
							for i, l := range st.Lhs {
								if i < len(o.vals) {
									si.store(l, o.vals[i], fr, o.st)
								}
							}
						}
						return statesOf(outs)
					}
				}
			}
			if len(st.Lhs) == len(st.Rhs) {
				vals := make([]*SV, len(st.Rhs))
				for i, r := range st.Rhs {
					// p := &x.f[k]: the local shares the cell it points to (writes through p reach x)
					if ue, ok := stripParens(r).(*ast.UnaryExpr); ok && ue.Op == token.AND && st.Tok == token.DEFINE {
						if cell, _ := si.lvalue(ue.X, fr, s); cell != nil {
							vals[i] = cell
							continue
						}
					}
					vals[i] = si.eval(r, fr, s).deep()
				}
				for i, l := range st.Lhs {
					// a pointer local keeps the very cell (no copy)
					if ue, ok := stripParens(st.Rhs[i]).(*ast.UnaryExpr); ok && ue.Op == token.AND && st.Tok == token.DEFINE {
						if id, isID := stripParens(l).(*ast.Ident); isID && id.Name != "_" {
							if o := fr.info.Defs[id]; o != nil && vals[i] != nil {
								s.env[o] = vals[i]
								continue
							}
						}
					}
					si.store(l, vals[i], fr, s)
				}
				return one
			}
		case token.ADD_ASSIGN, token.SUB_ASSIGN:
			cell, path := si.lvalue(st.Lhs[0], fr, s)
			v := si.eval(st.Rhs[0], fr, s)
			if cell != nil && cell.L != nil && v != nil && v.L != nil {
				k := int64(1)
				if st.Tok == token.SUB_ASSIGN {
					k = -1
				}
				cell.L = cell.L.addScaled(v.L, k)
				s.stores = append(s.stores, path)
				return one
			}
		}
	case *ast.IfStmt:
		cur := one
		if st.Init != nil {
			cur = si.stmt(st.Init, fr, s)
		}
		var out []*symState
		for _, c := range cur {
			if c.done || c.panics {
				out = append(out, c)
				continue
			}
			truth := si.cond(st.Cond, fr, c)
			var t, f *symState
			switch truth {
			case 1:
				t = c
			case 2:
				f = c
			default:
				t, f = c.fork(), c.fork()
				si.assume(st.Cond, true, fr, t)
				si.assume(st.Cond, false, fr, f)
			}
			if t != nil {
				out = append(out, si.block(st.Body.List, fr, []*symState{t})...)
			}
			if f != nil {
				if st.Else != nil {
					out = append(out, si.stmt(st.Else, fr, f)...)
				} else {
					out = append(out, f)
				}
			}
		}
		return out
	}
	// an expressionless switch without fallthrough/break is an if/else-if chain
	if sw, ok := st.(*ast.SwitchStmt); ok && sw.Tag == nil && sw.Body != nil {
		plain := true
		var def *ast.CaseClause
		var clauses []*ast.CaseClause
		for _, cc := range sw.Body.List {
			cl := cc.(*ast.CaseClause)
			for _, b := range cl.Body {
				ast.Inspect(b, func(n ast.Node) bool {
					switch x := n.(type) {
					case *ast.BranchStmt:
						if x.Tok == token.FALLTHROUGH || (x.Tok == token.BREAK && x.Label == nil) {
							plain = false
						}
					case *ast.ForStmt, *ast.RangeStmt, *ast.SwitchStmt, *ast.TypeSwitchStmt, *ast.SelectStmt, *ast.FuncLit:
						return false // a break inside belongs to that statement
					}
					return true
				})
			}
			if cl.List == nil {
				def = cl
			} else {
				clauses = append(clauses, cl)
			}
		}
		if plain {
			var chain ast.Stmt
			if def != nil {
				chain = &ast.BlockStmt{Lbrace: def.Pos(), List: def.Body}
			}
			for i := len(clauses) - 1; i >= 0; i-- {
				cl := clauses[i]
				cond := cl.List[0]
				for _, e := range cl.List[1:] {
					cond = &ast.BinaryExpr{X: cond, OpPos: e.Pos(), Op: token.LOR, Y: e}
				}
				chain = &ast.IfStmt{If: cl.Pos(), Cond: cond, Body: &ast.BlockStmt{Lbrace: cl.Colon, List: cl.Body}, Else: chain}
			}
			cur := one
			if sw.Init != nil {
				cur = si.stmt(sw.Init, fr, s)
			}
			if chain == nil {
				return cur
			}
			var out []*symState
			for _, c := range cur {
				if c.done || c.panics {
					out = append(out, c)
					continue
				}
				out = append(out, si.stmt(chain, fr, c)...)
			}
			return out
		}
	}
	switch loop := st.(type) {
	case *ast.ForStmt, *ast.RangeStmt:
		// loops are outside the domain: every variable assigned inside becomes an unknown
		n := 0
		ast.Inspect(loop, func(nd ast.Node) bool {
			as, ok := nd.(*ast.AssignStmt)
			if !ok {
				return true
			}
			for _, l := range as.Lhs {
				root := l
				for {
					switch x := stripParens(root).(type) {
					case *ast.SelectorExpr:
						root = x.X
						continue
					case *ast.IndexExpr:
						root = x.X
						continue
					case *ast.StarExpr:
						root = x.X
						continue
					}
					break
				}
				if cell, path := si.lvalue(l, fr, s); cell != nil {
					// a resolvable field path: only that cell becomes unknown
					unknownCounter++
					fresh := symOf(fmt.Sprintf("loop%d@%s:%s", unknownCounter, si.line(fr, loop), path), fr.info.TypeOf(l), 0)
					*cell = *fresh
					s.havoc = append(s.havoc, path)
					continue
				}
				if id, ok := stripParens(root).(*ast.Ident); ok && id.Name != "_" {
					o := fr.info.Uses[id]
					if o == nil {
						o = fr.info.Defs[id]
					}
					if o != nil {
						if _, tracked := s.env[o]; tracked {
							n++
							s.env[o] = symOf(fmt.Sprintf("loop@%s:%s", si.line(fr, loop), id.Name), o.Type(), 0)
							s.havoc = append(s.havoc, id.Name)
						}
					}
				}
			}
			return true
		})
		return one
	}
	s.unsup = append(s.unsup, si.line(fr, st)+fmt.Sprintf(": statement %T", st))
	return one
}

type symOutcome struct {
	st   *symState
	vals []*SV
}

func statesOf(os []symOutcome) []*symState {
	out := make([]*symState, len(os))
	for i, o := range os {
		out[i] = o.st
	}
	return out
}

// cond decides a condition when it only depends on known nil-ness: 1 true, 2 false, 0 unknown.
func (si *symInterp) cond(e ast.Expr, fr *symFrame, s *symState) int {
	// a flag whose value this path fixed (see SubWithUnderflow)
	{
		x, neg := stripParens(e), false
		if ue, ok := x.(*ast.UnaryExpr); ok && ue.Op == token.NOT {
			x, neg = stripParens(ue.X), true
		}
		if id, ok := x.(*ast.Ident); ok {
			if v := si.eval(id, fr, s); v != nil && strings.HasPrefix(v.Bool, "const:") {
				if (v.Bool == "const:true") != neg {
					return 1
				}
				return 2
			}
		}
	}
	be, ok := stripParens(e).(*ast.BinaryExpr)
	if !ok || (be.Op != token.NEQ && be.Op != token.EQL) {
		return 0
	}
	isNil := func(x ast.Expr) bool {
		id, ok := stripParens(x).(*ast.Ident)
		if !ok {
			return false
		}
		_, isN := fr.info.Uses[id].(*types.Nil)
		return isN
	}
	var other ast.Expr
	if isNil(be.Y) {
		other = be.X
	} else if isNil(be.X) {
		other = be.Y
	} else {
		return 0
	}
	v := si.eval(other, fr, s)
	if v == nil || v.Nil == 0 {
		return 0
	}
	isnil := v.Nil == 1
	if (be.Op == token.EQL) == isnil {
		return 1
	}
	return 2
}

var symNeg = map[string]string{"<": ">=", "<=": ">", ">": "<=", ">=": "<", "==": "!=", "!=": "=="}

// assume records order facts: a.Cmp(b) op 0, and a op b on integers.
func (si *symInterp) assume(e ast.Expr, truth bool, fr *symFrame, s *symState) {
	e = stripParens(e)
	if ue, ok := e.(*ast.UnaryExpr); ok && ue.Op == token.NOT {
		si.assume(ue.X, !truth, fr, s)
		return
	}
	be, ok := e.(*ast.BinaryExpr)
	if !ok {
		// a.IsZero()
		if call, ok := e.(*ast.CallExpr); ok {
			if sel, ok := call.Fun.(*ast.SelectorExpr); ok && sel.Sel.Name == "IsZero" {
				if v := si.eval(sel.X, fr, s); v != nil && v.L != nil {
					op := "=="
					if !truth {
						op = "!="
					}
					s.facts = append(s.facts, symFact{A: v.L, B: Lin{}, Op: op, Text: types.ExprString(e)})
				}
			}
		}
		return
	}
	if (be.Op == token.LAND && truth) || (be.Op == token.LOR && !truth) {
		si.assume(be.X, truth, fr, s)
		si.assume(be.Y, truth, fr, s)
		return
	}
	op := be.Op.String()
	if _, ok := symNeg[op]; !ok {
		return
	}
	if !truth {
		op = symNeg[op]
	}
	x, y := si.eval(be.X, fr, s), si.eval(be.Y, fr, s)
	if x != nil && x.Cmp != nil && y != nil && y.L != nil && len(y.L) == 0 {
		s.facts = append(s.facts, symFact{A: x.Cmp[0], B: x.Cmp[1], Op: op, Text: shortLin(x.Cmp[0]) + " " + op + " " + shortLin(x.Cmp[1])})
		return
	}
	if x != nil && y != nil && x.L != nil && y.L != nil && x.Cmp == nil && y.Cmp == nil {
		s.facts = append(s.facts, symFact{A: x.L, B: y.L, Op: op, Text: shortLin(x.L) + " " + op + " " + shortLin(y.L)})
	}
}

func shortLin(l Lin) string {
	s := l.String()
	if len(s) > 60 {
		s = s[:57] + "..."
	}
	return s
}

func (si *symInterp) calleeDecl(call *ast.CallExpr, fr *symFrame) (*types.Func, *ast.FuncDecl, *packages.Package) {
	fn, _ := typeutil.Callee(fr.info, call).(*types.Func)
	if fn == nil || fn.Pkg() == nil || !strings.HasPrefix(fn.Pkg().Path(), modPath) {
		return fn, nil, nil
	}
	fd, pkg := si.p.Decl(fn)
	if fd == nil || fd.Body == nil {
		return fn, nil, nil
	}
	return fn, fd, pkg
}

func isCurrencyRecv(fn *types.Func) bool {
	sig, ok := fn.Type().(*types.Signature)
	if !ok || sig.Recv() == nil {
		return false
	}
	return typeName(sig.Recv().Type()) == "types.Currency"
}

// inlinable: loop-free body.
func loopFree(fd *ast.FuncDecl) bool {
	ok := true
	ast.Inspect(fd.Body, func(n ast.Node) bool {
		switch x := n.(type) {
		case *ast.ForStmt, *ast.RangeStmt, *ast.GoStmt, *ast.DeferStmt, *ast.SelectStmt, *ast.TypeSwitchStmt, *ast.FuncLit:
			ok = false
		case *ast.SwitchStmt:
			if x.Tag != nil {
				ok = false // only the expressionless form is interpreted (as an if/else-if chain)
			}
		}
		return ok
	})
	return ok
}

// callPaths inlines a call to a module function, returning one outcome per path; nil if the call
// is not inlinable (the caller then treats it as an opaque expression).
func (si *symInterp) callPaths(call *ast.CallExpr, fr *symFrame, s *symState) []symOutcome {
	fn, fd, pkg := si.calleeDecl(call, fr)
	if fn == nil || fd == nil || isCurrencyRecv(fn) || !loopFree(fd) || si.depth > 6 {
		return nil
	}
	cfr := &symFrame{pkg: pkg, info: pkg.TypesInfo, name: fd.Name.Name}
	// bind receiver and parameters
	var actuals []ast.Expr
	if fd.Recv != nil {
		if sel, ok := stripParens(call.Fun).(*ast.SelectorExpr); ok {
			actuals = append(actuals, sel.X)
		} else {
			return nil
		}
	}
	actuals = append(actuals, call.Args...)
	var formals []*ast.Ident
	for _, fl := range []*ast.FieldList{fd.Recv, fd.Type.Params} {
		if fl == nil {
			continue
		}
		for _, f := range fl.List {
			if len(f.Names) == 0 {
				formals = append(formals, nil)
			}
			for _, n := range f.Names {
				formals = append(formals, n)
			}
		}
	}
	if len(formals) != len(actuals) {
		return nil
	}
	for i, f := range formals {
		if f == nil || f.Name == "_" {
			continue
		}
		o := cfr.info.Defs[f]
		if o == nil {
			continue
		}
		a := stripParens(actuals[i])
		_, formalPtr := o.Type().Underlying().(*types.Pointer)
		if formalPtr {
			// &local or a pointer variable already aliased
			if ue, ok := a.(*ast.UnaryExpr); ok && ue.Op == token.AND {
				a = stripParens(ue.X)
			}
			if id, ok := a.(*ast.Ident); ok {
				if t := fr.info.Uses[id]; t != nil {
					s.alias[o] = t
					continue
				}
			}
			// pointer receiver called on an addressable struct value path: not supported
			return nil
		}
		av := si.eval(actuals[i], fr, s)
		if i == 0 && fd.Recv != nil {
			// method promoted through embedded fields: descend to the embedded receiver
			if sel, ok := stripParens(call.Fun).(*ast.SelectorExpr); ok {
				if se := fr.info.Selections[sel]; se != nil && len(se.Index()) > 1 {
					t := fr.info.TypeOf(sel.X)
					for _, ix := range se.Index()[:len(se.Index())-1] {
						if pt, ok := t.Underlying().(*types.Pointer); ok {
							t = pt.Elem()
						}
						st, ok := t.Underlying().(*types.Struct)
						if !ok || av == nil || av.F == nil {
							break
						}
						av = av.F[st.Field(ix).Name()]
						t = st.Field(ix).Type()
					}
				}
			}
		}
		s.env[o] = av.deep()
	}
	si.bindResults(fd, cfr, s)
	si.depth++
	outs := si.block(fd.Body.List, cfr, []*symState{s})
	si.depth--
	var res []symOutcome
	for _, o := range outs {
		if !o.done && !o.panics {
			si.bareReturn(cfr, o)
		}
		vals := o.ret
		o.ret = nil
		o.done = false
		res = append(res, symOutcome{o, vals})
	}
	return res
}

func canonArgs(vs []*SV) string {
	var parts []string
	for _, v := range vs {
		parts = append(parts, v.String())
	}
	return strings.Join(parts, ", ")
}

func (si *symInterp) eval(e ast.Expr, fr *symFrame, s *symState) *SV {
	e = stripParens(e)
	if tv, ok := fr.info.Types[e]; ok && tv.Value != nil {
		switch tv.Value.Kind() {
		case constant.Int:
			if n, ok := constant.Int64Val(tv.Value); ok {
				if n == 0 {
					return &SV{L: Lin{}}
				}
				return &SV{L: Lin{"": n}}
			}
			return &SV{L: Lin{"const:" + tv.Value.ExactString(): 1}}
		case constant.Bool:
			return &SV{Bool: tv.Value.ExactString()}
		case constant.String:
			return &SV{L: Lin{"const:" + tv.Value.ExactString(): 1}, Nil: 2}
		}
	}
	switch e := e.(type) {
	case *ast.Ident:
		o := fr.info.Uses[e]
		if o == nil {
			o = fr.info.Defs[e]
		}
		if _, isNil := o.(*types.Nil); isNil {
			return &SV{Nil: 1, L: Lin{}}
		}
		if v := si.lookup(o, s); v != nil {
			return v
		}
		if vo, ok := o.(*types.Var); ok && vo.Pkg() != nil {
			// package-level variable
			name := vo.Pkg().Name() + "." + vo.Name()
			if name == "types.ZeroCurrency" {
				return &SV{L: Lin{}}
			}
			return symOf(name, vo.Type(), 0)
		}
	case *ast.SelectorExpr:
		// qualified identifier
		if id, ok := e.X.(*ast.Ident); ok {
			if _, isPkg := fr.info.Uses[id].(*types.PkgName); isPkg {
				if vo, ok := fr.info.Uses[e.Sel].(*types.Var); ok {
					name := vo.Pkg().Name() + "." + vo.Name()
					if name == "types.ZeroCurrency" {
						return &SV{L: Lin{}}
					}
					return symOf(name, vo.Type(), 0)
				}
			}
		}
		x := si.eval(e.X, fr, s)
		if x != nil && x.F != nil {
			if f := x.F[e.Sel.Name]; f != nil {
				return f
			}
			// promoted field through an embedded struct
			for _, emb := range x.F {
				if emb != nil && emb.F != nil {
					if f := emb.F[e.Sel.Name]; f != nil {
						return f
					}
				}
			}
		}
	case *ast.StarExpr:
		return si.eval(e.X, fr, s)
	case *ast.IndexExpr:
		if el := si.element(si.eval(e.X, fr, s), e, fr); el != nil {
			return el
		}
	case *ast.UnaryExpr:
		if e.Op == token.AND {
			if _, isLit := stripParens(e.X).(*ast.CompositeLit); isLit {
				v := si.eval(e.X, fr, s).deep()
				v.Nil = 2
				return v
			}
			return si.eval(e.X, fr, s)
		}
		if e.Op == token.SUB {
			if v := si.eval(e.X, fr, s); v != nil && v.L != nil {
				return &SV{L: Lin{}.addScaled(v.L, -1)}
			}
		}
	case *ast.CompositeLit:
		t := fr.info.TypeOf(e)
		if st, ok := t.Underlying().(*types.Struct); ok && !isScalarType(t) {
			v := zeroOf(t, 0)
			for i, el := range e.Elts {
				if kv, ok := el.(*ast.KeyValueExpr); ok {
					v.F[kv.Key.(*ast.Ident).Name] = si.eval(kv.Value, fr, s).deep()
				} else if i < st.NumFields() {
					v.F[st.Field(i).Name()] = si.eval(el, fr, s).deep()
				}
			}
			return v
		}
		if len(e.Elts) == 0 {
			return &SV{L: Lin{}}
		}
	case *ast.BinaryExpr:
		x, y := si.eval(e.X, fr, s), si.eval(e.Y, fr, s)
		if x != nil && y != nil && x.L != nil && y.L != nil {
			switch e.Op {
			case token.ADD:
				return &SV{L: x.L.addScaled(y.L, 1)}
			case token.SUB:
				return &SV{L: x.L.addScaled(y.L, -1)}
			case token.MUL:
				if k, ok := linConst(x.L); ok {
					return &SV{L: Lin{}.addScaled(y.L, k)}
				}
				if k, ok := linConst(y.L); ok {
					return &SV{L: Lin{}.addScaled(x.L, k)}
				}
				a, b := x.L.String(), y.L.String()
				if a > b {
					a, b = b, a
				}
				return &SV{L: Lin{"(" + a + ")*(" + b + ")": 1}}
			case token.QUO, token.REM, token.SHL, token.SHR, token.AND, token.OR, token.XOR, token.AND_NOT:
				return &SV{L: Lin{"(" + x.L.String() + ")" + e.Op.String() + "(" + y.L.String() + ")": 1}}
			}
		}
		return &SV{Bool: types.ExprString(e)}
	case *ast.CallExpr:
		return si.evalCall(e, fr, s)
	}
	// outside the domain: a unique unknown. If it flows into a checked field the identity fails.
	unknownCounter++
	s.notes = append(s.notes, si.line(fr, e)+": expression "+types.ExprString(e))
	return &SV{L: Lin{fmt.Sprintf("?%d:%s", unknownCounter, types.ExprString(e)): 1}}
}

func linConst(l Lin) (int64, bool) {
	if len(l) == 0 {
		return 0, true
	}
	if len(l) == 1 {
		if v, ok := l[""]; ok {
			return v, true
		}
	}
	return 0, false
}

func (si *symInterp) evalCall(e *ast.CallExpr, fr *symFrame, s *symState) *SV {
	// conversions
	if tv, ok := fr.info.Types[e.Fun]; ok && tv.IsType() && len(e.Args) == 1 {
		return si.eval(e.Args[0], fr, s)
	}
	if id, ok := e.Fun.(*ast.Ident); ok {
		if b, isB := fr.info.Uses[id].(*types.Builtin); isB {
			var vs []*SV
			for _, a := range e.Args {
				vs = append(vs, si.eval(a, fr, s))
			}
			return &SV{L: Lin{b.Name() + "(" + canonArgs(vs) + ")": 1}}
		}
	}
	fn, _ := typeutil.Callee(fr.info, e).(*types.Func)
	if fn == nil {
		s.unsup = append(s.unsup, si.line(fr, e)+": dynamic call "+types.ExprString(e.Fun))
		return &SV{L: Lin{"?call": 1}}
	}
	var recv *SV
	if sel, ok := stripParens(e.Fun).(*ast.SelectorExpr); ok {
		if sig, ok := fn.Type().(*types.Signature); ok && sig.Recv() != nil {
			recv = si.eval(sel.X, fr, s)
		}
	}
	var args []*SV
	for _, a := range e.Args {
		args = append(args, si.eval(a, fr, s))
	}
	if isCurrencyRecv(fn) && recv != nil && recv.L != nil {
		switch fn.Name() {
		case "Add":
			if args[0].L != nil {
				return &SV{L: recv.L.addScaled(args[0].L, 1)}
			}
		case "Sub":
			if args[0].L != nil {
				s.subs = append(s.subs, symFact{A: recv.L, B: args[0].L, Op: ">=", Text: si.line(fr, e) + ": " + types.ExprString(e)})
				return &SV{L: recv.L.addScaled(args[0].L, -1)}
			}
		case "Cmp":
			if args[0].L != nil {
				return &SV{Cmp: &[2]Lin{recv.L, args[0].L}}
			}
		case "Mul64", "Mul":
			if args[0].L != nil {
				if k, ok := linConst(args[0].L); ok {
					return &SV{L: Lin{}.addScaled(recv.L, k)}
				}
				a, b := recv.L.String(), args[0].L.String()
				if fn.Name() == "Mul" && a > b {
					a, b = b, a
				}
				return &SV{L: Lin{"(" + a + ")*(" + b + ")": 1}}
			}
		case "Div64", "Div":
			if args[0].L != nil {
				return &SV{L: Lin{"(" + recv.L.String() + ")/(" + args[0].L.String() + ")": 1}}
			}
		case "IsZero", "Equals":
			return &SV{Bool: types.ExprString(e)}
		}
	}
	// inline single-path module helpers
	if outs := si.callPaths(e, fr, s); outs != nil {
		var live []symOutcome
		for _, o := range outs {
			if !o.st.panics {
				live = append(live, o)
			}
		}
		if len(live) == 1 && live[0].st == s && len(live[0].vals) >= 1 {
			return live[0].vals[0]
		}
		s.unsup = append(s.unsup, si.line(fr, e)+": branching callee "+fn.Name()+" in expression position")
		return &SV{L: Lin{"?" + fn.Name(): 1}}
	}
	// opaque: anything reachable through a pointer argument may be modified
	for _, a := range e.Args {
		si.havocPointee(a, fr, s)
	}
	if sel, ok := stripParens(e.Fun).(*ast.SelectorExpr); ok {
		if sig, ok := fn.Type().(*types.Signature); ok && sig.Recv() != nil {
			if _, ptr := sig.Recv().Type().Underlying().(*types.Pointer); ptr {
				si.havocPointee(sel.X, fr, s)
			}
		}
	}
	name := fn.Name()
	if fn.Pkg() != nil {
		name = fn.Pkg().Name() + "." + name
	}
	var all []*SV
	if recv != nil {
		all = append(all, recv)
	}
	all = append(all, args...)
	origin := name + "(" + canonArgsDeep(all) + ")"
	sig := fn.Type().(*types.Signature)
	if sig.Results().Len() == 0 {
		return &SV{L: Lin{}}
	}
	rt := sig.Results().At(0).Type()
	v := symOf(origin, rt, 0)
	if _, isIface := rt.Underlying().(*types.Interface); isIface {
		v.Nil = 0
		if strings.HasPrefix(fn.Name(), "New") || fn.Name() == "Errorf" {
			v.Nil = 2
		}
	}
	return v
}

func canonArgsDeep(vs []*SV) string {
	var parts []string
	for _, v := range vs {
		parts = append(parts, canonSV(v))
	}
	return strings.Join(parts, ", ")
}

func canonSV(v *SV) string {
	if v == nil {
		return "?"
	}
	if v.F == nil {
		return v.String()
	}
	var ks []string
	for k := range v.F {
		ks = append(ks, k)
	}
	sort.Strings(ks)
	var sb strings.Builder
	sb.WriteString("{")
	for i, k := range ks {
		if i > 0 {
			sb.WriteString(",")
		}
		sb.WriteString(k + ":" + canonSV(v.F[k]))
	}
	sb.WriteString("}")
	return sb.String()
}

// havocPointee: &x or a pointer-typed tracked variable passed to code that is not interpreted.
func (si *symInterp) havocPointee(a ast.Expr, fr *symFrame, s *symState) {
	a = stripParens(a)
	isAddr := false
	if ue, ok := a.(*ast.UnaryExpr); ok && ue.Op == token.AND {
		a = stripParens(ue.X)
		isAddr = true
	}
	root := a
	for {
		switch x := stripParens(root).(type) {
		case *ast.SelectorExpr:
			root = x.X
			continue
		case *ast.IndexExpr:
			root = x.X
			continue
		}
		break
	}
	id, ok := stripParens(root).(*ast.Ident)
	if !ok {
		return
	}
	o := fr.info.Uses[id]
	if o == nil {
		return
	}
	_, isPtr := o.Type().Underlying().(*types.Pointer)
	if !isAddr && !(isPtr && root == a) {
		return
	}
	for i := 0; i < 8; i++ {
		t, ok := s.alias[o]
		if !ok {
			break
		}
		o = t
	}
	if _, tracked := s.env[o]; !tracked {
		return
	}
	t := o.Type()
	if pt, ok := t.Underlying().(*types.Pointer); ok {
		t = pt.Elem()
	}
	unknownCounter++
	s.env[o] = symOf(fmt.Sprintf("havoc%d:%s", unknownCounter, id.Name), t, 0)
	s.havoc = append(s.havoc, id.Name)
}
