package main

import (
	"fmt"
	"go/types"
	"regexp"
	"sort"
	"strings"

	"golang.org/x/tools/go/ssa"
)

func init() { register("C04", runC04) }

// leafCtors maps a leaf distinguisher ("leaf/siacoin") to the constructor's function name, per package.
func leafCtors(progs map[string]*WireProg, pkg string) map[string]string {
	out := map[string]string{}
	for name, wp := range progs {
		if relPkg(wp.Fn.Pkg()) != pkg {
			continue
		}
		for _, o := range wp.Ops {
			if o.Kind == "dist" && strings.HasPrefix(o.Typ, `"leaf/`) {
				out[strings.Trim(o.Typ, `"`)] = name
			}
		}
	}
	return out
}

var leafElemType = map[string]string{
	"leaf/siacoin": "SiacoinElement", "leaf/siafund": "SiafundElement", "leaf/filecontract": "FileContractElement",
	"leaf/v2filecontract": "V2FileContractElement", "leaf/chainindex": "ChainIndexElement", "leaf/attestation": "AttestationElement",
}

func runC04(c *Ctx) {
	checkReceiverMutation(c, 10, [][2]string{{"consensus", "ElementAccumulator"}})

	c.Explain("Decides the structural clauses of accumulator membership soundness: (1) leaf commitment coverage: each of the six leaf constructors hashes every leaf field path of its element type (enumerated from go/types) except the StateElement (position and proof, which the leaf hash and the proof root bind), under its own distinguisher; the leaf hash binds element hash, leaf index and the spent flag; (2) membership predicate: containsLeaf is 'a tree exists at height len(proof)' AND 'the stored root equals the proof root', and every contains* wrapper hashes the element with the constant spent flag its use requires and no revision; (3) parent coverage: ValidateTransactionElements checks every element-bearing path of V2Transaction (including a storage proof's chain index element), the v2 validators and the v1 supplement check every parent (shared rows with C02); (4) leaf collection: every element slice of the MidState and the chain index element is turned into a leaf on block application and split into updated/added by LeafIndex == UnassignedLeafIndex; (5) the leaf functions duplicated in package types equal their consensus originals. Proof-root arithmetic and collision resistance are not decided.")
	c.NotCovered("proof-root arithmetic", "collision resistance", "that elements from a reverted branch fail (history-level, C05/C06)")
	progs := ExtractWirePrograms(c.P)
	ge := NewGuardEngine(c.P, c.Depth+4)
	ctors := leafCtors(progs, "consensus")
	// (1) coverage
	for _, dist := range sortedKeys(leafElemType) {
		name := ctors[dist]
		et := c.P.NamedType("types", leafElemType[dist])
		wp := progs[name]
		if wp == nil || et == nil {
			c.Undecided("leaf-coverage", dist, "", "no leaf constructor with distinguisher "+dist+" (or element type missing)")
			continue
		}
		root := "{types." + leafElemType[dist] + "}"
		committed := map[string]bool{}
		var notes []string
		committedPaths(c.P, progs, wp.Ops, root, "", 0, committed, &notes)
		var missing []string
		for _, lp := range c.P.LeafPaths(et, "") {
			if strings.HasPrefix(lp.Path, ".StateElement") {
				continue
			}
			ok := false
			for cp := range committed {
				if lp.Path == cp || strings.HasPrefix(lp.Path, cp+".") || strings.HasPrefix(lp.Path, cp+"[") {
					ok = true
				}
			}
			if !ok {
				missing = append(missing, lp.Path)
			}
		}
		c.Check(len(missing) == 0, "leaf-coverage", dist, c.P.Pos(wp.Decl.Pos()), ifElse(len(missing) == 0, fmt.Sprintf("every field of %s is hashed into the leaf (%d committed paths)", leafElemType[dist], len(committed)), fmt.Sprintf("the %s leaf does not commit field(s) %v: an element altered in that field is still accepted as a member", leafElemType[dist], missing)))
	}
	c.Min("leaf-coverage", 6)
	c04LeafLayout(c, ge)
	c04Predicate(c, ge, ctors)
	c04Parents(c, ge, ctors)
	c04Collection(c, ge, ctors)
	// (5) siblings in package types
	tctors := leafCtors(progs, "types")
	for _, dist := range sortedKeys(tctors) {
		a, b := progs[ctors[dist]], progs[tctors[dist]]
		if a == nil || b == nil {
			c.Fail("leaf-sibling", dist, "", "package types has a "+dist+" leaf function with no consensus counterpart")
			continue
		}
		la, lb := strings.Join(layoutLines(a), "\n"), strings.Join(layoutLines(b), "\n")
		c.Check(la == lb, "leaf-sibling", dist, c.P.Pos(b.Decl.Pos()), ifElse(la == lb, "types copy hashes the same preimage as the consensus original", "the multiproof copy of the "+dist+" leaf differs from consensus: "+firstDiff(layoutLines(a), layoutLines(b))))
	}
	c.Min("leaf-sibling", 4)
	// parents checked by the validators: the C02 liveness rows
	var tab []GuardReq
	for _, r := range c02Table() {
		if strings.Contains(r.ID, "live:") || strings.Contains(r.ID, "supplement") {
			tab = append(tab, r)
		}
	}
	tab = append(tab, c08Table()[23]) // v2-proof-index-ancestor
	if tab[len(tab)-1].ID != "v2-proof-index-ancestor" {
		c.Undecided("membership-guard", "table", "", "internal: row index drifted")
	}
	runGuardTable(c, "membership-guard", ge, tab)
	c.Min("membership-guard", 10)
}

// c04LeafHash: (elementLeaf).hash binds element hash, leaf index and spent flag.
func c04LeafHash(c *Ctx, ge *GuardEngine) {
	fn := c.P.Func("consensus.(elementLeaf).hash")
	if fn == nil {
		c.Undecided("leaf-hash", "anchor", "", "(elementLeaf).hash does not resolve")
		return
	}
	hasHash, hasIndex, hasSpent, hashed := false, false, false, false
	for _, b := range fn.Blocks {
		for _, in := range b.Instrs {
			ge.pv.loadCtx = []ssa.Instruction{in}
			switch x := in.(type) {
			case *ssa.Call:
				if bi, ok := x.Call.Value.(*ssa.Builtin); ok && bi.Name() == "copy" && len(x.Call.Args) == 2 {
					if strings.HasSuffix(ge.pv.Atom(x.Call.Args[1], nil), ".elementHash") {
						hasHash = true
					}
				}
				if f := x.Call.StaticCallee(); f != nil {
					if f.Name() == "PutUint64" && len(x.Call.Args) >= 2 && strings.HasSuffix(ge.pv.Atom(x.Call.Args[len(x.Call.Args)-1], nil), ".LeafIndex") {
						hasIndex = true
					}
					if f.Name() == "HashBytes" {
						hashed = true
					}
				}
			case *ssa.If:
				l, op, _ := ge.decompose(x.Cond, nil)
				if strings.HasSuffix(l, ".spent") && (op == "true" || op == "false") {
					// the branch taken when spent must store into the buffer
					for _, sb := range b.Succs {
						for _, si := range sb.Instrs {
							if st, ok := si.(*ssa.Store); ok {
								if _, isIdx := st.Addr.(*ssa.IndexAddr); isIdx {
									hasSpent = true
								}
							}
						}
					}
				}
			}
		}
	}
	where := c.P.Pos(fn.Pos())
	c.Check(hasHash, "leaf-hash", "element-hash", where, "leaf hash covers the element hash")
	c.Check(hasIndex, "leaf-hash", "leaf-index", where, ifElse(hasIndex, "leaf hash covers the leaf position", "the leaf hash does not bind the leaf index: an element is accepted at another element's position"))
	c.Check(hasSpent, "leaf-hash", "spent-flag", where, ifElse(hasSpent, "leaf hash covers the spent flag", "the leaf hash ignores the spent flag: a spent element is still accepted as unspent"))
	c.Check(hashed, "leaf-hash", "hashed", where, "the buffer is hashed")
}

// c04Predicate: containsLeaf and the wrappers.
func c04Predicate(c *Ctx, ge *GuardEngine, ctors map[string]string) {
	fn := c.P.Func("consensus.(*ElementAccumulator).containsLeaf")
	if fn == nil {
		c.Undecided("membership-predicate", "anchor", "", "containsLeaf does not resolve")
		return
	}
	atoms := ge.ReturnAtoms(fn, 0)
	leaf := "{consensus.elementLeaf}"
	wantS := "({consensus.ElementAccumulator}.Trees[len(" + leaf + ".StateElement.MerkleProof)] == call consensus.proofRoot(" + leaf + ".StateElement.MerkleProof, call (consensus.elementLeaf).hash(" + leaf + "), " + leaf + ".StateElement.LeafIndex))"
	want := mustRe(pat(wantS))
	// every returned value is the root comparison or false (one return or several, any nesting of phis)
	ok, eqs := len(atoms) > 0, 0
	for _, a := range atoms {
		for _, alt := range splitPhi(a) {
			switch {
			case alt == "const:false":
			case want.MatchString(alt) || want.MatchString(ge.pv.ExpandAll(alt, wantS)) || want.MatchString(ge.pv.ExpandAll(c04InlineAccessors(c, ge, alt), wantS)):
				eqs++
			default:
				ok = false
			}
		}
	}
	ok = ok && eqs > 0
	c.Check(ok, "membership-predicate", "root-equality", c.P.Pos(fn.Pos()), ifElse(ok, "true only if Trees[len(proof)] == proofRoot(leaf)", "containsLeaf returns "+joinShort(atoms)+" — not 'stored root at height len(proof) equals the proof root, else false'"))
	gs := ge.Guards(fn, nil, nil, nil, 0, map[*ssa.Function]int{})
	r := req("tree-exists", "", "call (consensus.ElementAccumulator).%ID%({consensus.ElementAccumulator}, len({consensus.elementLeaf}.StateElement.MerkleProof))", opF, "", "a tree must exist at the proof's height (otherwise a stale root slot could match)")
	r.Weak = true
	r.Entry = "consensus.(*ElementAccumulator).containsLeaf"
	// a helper by any name called with (acc, len(proof)), or (a one-line helper read as its comparison) the bit test itself
	callForm := mustRe(r.L)
	bitForm := mustRe(pat("({consensus.ElementAccumulator}.NumLeaves & (const:1 << len({consensus.elementLeaf}.StateElement.MerkleProof)))"))
	r.LFn = func(a string) bool { return callForm.MatchString(a) || bitForm.MatchString(a) }
	r.RFn = func(a string) bool { return a == "" || a == "const:0" }
	r.Ops = []string{"false", "=="}
	ge.CheckReq(c, "membership-predicate", r, gs)
	// the comparison must be evaluated only when the tree exists: the false edge returns false
	// wrappers: classify every method of ElementAccumulator that returns containsLeaf(leafCtor(arg, ...consts))
	acc := c.P.NamedType("consensus", "ElementAccumulator")
	if acc == nil {
		return
	}
	ctorOf := map[string]string{}
	for d, n := range ctors {
		if wp := c.P; wp != nil {
			ctorOf[n] = d
		}
	}
	wrappers := 0
	ms := c.P.SSA.MethodSets.MethodSet(types.NewPointer(acc))
	for i := 0; i < ms.Len(); i++ {
		m := c.P.SSA.MethodValue(ms.At(i))
		if m == nil || !strings.HasPrefix(m.Name(), "contains") || m.Name() == "containsLeaf" {
			continue
		}
		as := ge.ReturnAtoms(m, 0)
		if len(as) != 1 {
			continue
		}
		wrappers++
		a := as[0]
		// expected: call containsLeaf(acc, call <ctor>(param[, nil], const:<flag>))
		wantSpent := strings.Contains(m.Name(), "Spent") && !strings.Contains(m.Name(), "Unspent") || strings.Contains(m.Name(), "Resolved") && !strings.Contains(m.Name(), "Unresolved")
		flag := "const:false"
		if wantSpent {
			flag = "const:true"
		}
		wre := regexp.MustCompile(`^call \(consensus\.ElementAccumulator\)\.containsLeaf\(\{consensus\.ElementAccumulator\}, call (consensus\.\w+)\((.*)\)\)$`)
		mm := wre.FindStringSubmatch(a)
		okc := mm != nil
		inner := a
		if okc {
			// the constructor's arguments in any order: the element, an optional nil revision, an optional flag
			elem, hasNil, gotFlag, other := "", false, "", 0
			for _, arg := range splitTop(mm[2], ',') {
				arg = strings.TrimSpace(arg)
				switch {
				case strings.HasPrefix(arg, "{types.") && strings.HasSuffix(arg, "}"):
					elem = arg
				case arg == "nil":
					hasNil = true
				case arg == "const:true" || arg == "const:false":
					gotFlag = arg
				case arg == "{bool}":
					gotFlag = "param" // the caller chooses the flag: decided at the use sites (rows v2-live:*, v1-supplement-live:*)
				default:
					other++
				}
			}
			inner = mm[1] + "(" + mm[2] + ")"
			kind := ctorOf[mm[1]]
			okc = kind != "" && elem != "" && other == 0
			if kind != "leaf/chainindex" && kind != "leaf/attestation" {
				okc = okc && (gotFlag == flag || gotFlag == "param")
			}
			if kind == "leaf/filecontract" || kind == "leaf/v2filecontract" {
				okc = okc && hasNil
			}
		}
		c.Check(okc, "membership-predicate", "wrapper:"+m.Name(), c.P.Pos(m.Pos()), ifElse(okc, "= containsLeaf("+inner+")", "wrapper "+m.Name()+" evaluates "+a+": the spent/resolved flag or revision it hashes with does not match what its use requires ("+flag+", no revision)"))
	}
	c.Check(wrappers >= 4, "membership-predicate", "wrappers", "", fmt.Sprintf("%d membership wrappers classified", wrappers))
}

// c04Parents: ValidateTransactionElements covers every element-bearing path of V2Transaction.
func c04Parents(c *Ctx, ge *GuardEngine, ctors map[string]string) {
	entry := "consensus.(*ElementAccumulator).ValidateTransactionElements"
	cs, ok := ge.EntryCalls(entry)
	if !ok {
		c.Undecided("parent-coverage", "anchor", "", entry+" does not resolve")
		return
	}
	txn := c.P.NamedType("types", "V2Transaction")
	if txn == nil {
		c.Undecided("parent-coverage", "anchor", "", "V2Transaction does not resolve")
		return
	}
	// element-bearing paths: prefixes P such that P.StateElement.LeafIndex is a leaf path
	paths := map[string]string{}
	for _, lp := range c.P.LeafPaths(txn, "") {
		if strings.HasSuffix(lp.Path, ".StateElement.LeafIndex") {
			paths[strings.TrimSuffix(lp.Path, ".StateElement.LeafIndex")] = ""
		}
	}
	for _, pth := range sortedKeys(paths) {
		want := "{types.V2Transaction}" + pth
		found := false
		where := ""
		for _, cf := range cs {
			if cf.Callee == nil || FuncName(cf.Callee) != "(consensus.ElementAccumulator).containsLeaf" || len(cf.Args) < 2 {
				continue
			}
			if regexp.MustCompile(`[(,] ?` + regexp.QuoteMeta(want) + `[,)]`).MatchString(cf.Args[1]) {
				// the leaf must be built unspent / unrevised
				if strings.Contains(cf.Args[1], "const:true") {
					continue
				}
				bad := unexpectedCtx(cf.Ctx, compileAll(pats("zero == nil", "… == nil", "call consensus.%ID%(…).StateElement.LeafIndex != const:…")), []string{cf.Args[1]})
				if len(bad) == 0 {
					found = true
					where = c.P.Pos(cf.Pos)
				}
			}
		}
		c.Check(found, "parent-coverage", pth, where, ifElse(found, "membership of "+want+" is checked (unless ephemeral)", "ValidateTransactionElements never checks the Merkle proof of "+want+": a forged element at that position is accepted"))
	}
	// "covers" means for every element: no loop of the walk may be left towards acceptance from inside its body
	if fn := c.P.Func(entry); fn != nil {
		fns := append([]*ssa.Function{fn}, fn.AnonFuncs...)
		inFns := map[*ssa.Function]bool{}
		for _, f := range fns {
			inFns[f] = true
		}
		for _, cf := range cs { // helpers the walk was moved into
			if cf.Caller != nil && !inFns[cf.Caller] && len(cf.Caller.Blocks) > 0 && cf.Callee != nil && FuncName(cf.Callee) == "(consensus.ElementAccumulator).containsLeaf" {
				inFns[cf.Caller] = true
				fns = append(fns, cf.Caller)
			}
		}
		n := 0
		for _, f := range fns {
			fi := ge.info(f)
			var heads []*ssa.BasicBlock
			for h := range fi.loopBody {
				heads = append(heads, h)
			}
			sort.Slice(heads, func(i, j int) bool { return heads[i].Index < heads[j].Index })
			{
				for _, h := range heads {
					n++
					why := ge.earlyAcceptingExit(fi, h, nil)
					c.Check(why == "", "parent-coverage", fmt.Sprintf("walk-complete:%s:loop%d", FuncName(f), n), firstPos(c, h), ifElse(why == "", "the loop runs over every element unless it rejects", why+": the remaining elements' Merkle proofs are never checked"))
				}
			}
		}
		c.Check(n >= 1, "parent-coverage", "walk-complete:loops", "", fmt.Sprintf("%d loops over transaction elements examined", n))
	}
	c.Min("parent-coverage", 5)
}

// c04Collection: every element kind of the MidState becomes a leaf when a block is applied.
func c04Collection(c *Ctx, ge *GuardEngine, ctors map[string]string) {
	cs, ok := ge.EntryCalls(CAB)
	if !ok {
		c.Undecided("leaf-collection", "anchor", "", "consensus.ApplyBlock does not resolve")
		return
	}
	for _, r := range []struct{ dist, arg string }{
		{"leaf/siacoin", "call consensus.NewMidState({consensus.State}).sces[*].SiacoinElement"},
		{"leaf/siafund", "call consensus.NewMidState({consensus.State}).sfes[*].SiafundElement"},
		{"leaf/filecontract", "call consensus.NewMidState({consensus.State}).fces[*].FileContractElement"},
		{"leaf/v2filecontract", "call consensus.NewMidState({consensus.State}).v2fces[*].V2FileContractElement"},
		{"leaf/attestation", "call consensus.NewMidState({consensus.State}).aes[*]"},
		{"leaf/chainindex", "call consensus.NewMidState({consensus.State}).cie"},
	} {
		name := ctors[r.dist]
		CheckCallReq(c, "leaf-collection", CallReq{ID: r.dist, Entry: CAB, CalleeDesc: name, Callee: func(fn *ssa.Function) bool { return fn != nil && FuncName(fn) == name },
			Args: map[int]string{0: pat(r.arg)}, Clause: "a created element of an uncollected kind would never become a member"}, cs)
	}
	// fields of MidState holding elements must all be among the collected ones
	if ms := c.P.NamedType("consensus", "MidState"); ms != nil {
		st := ms.Underlying().(*types.Struct)
		collected := map[string]bool{"sces": true, "sfes": true, "fces": true, "v2fces": true, "aes": true, "cie": true}
		for i := 0; i < st.NumFields(); i++ {
			f := st.Field(i)
			tn := typeName(f.Type())
			if strings.Contains(tn, "Element") && !strings.Contains(tn, "map") {
				c.Check(collected[f.Name()], "leaf-collection", "field:"+f.Name(), "", ifElse(collected[f.Name()], "MidState."+f.Name()+" is collected", "MidState."+f.Name()+" ("+tn+") holds elements but is not turned into accumulator leaves"))
			}
		}
	}
	// split predicate and hand-over to the accumulator
	fn := c.P.Func(CAB)
	found := false
	for _, an := range fn.AnonFuncs {
		for _, g := range ge.Guards(an, nil, nil, nil, 0, map[*ssa.Function]int{}) {
			if strings.HasSuffix(g.L, ".LeafIndex") && strings.HasPrefix(g.R, "const:") && (g.Op == "==" || g.Op == "!=") {
				found = true
			}
		}
	}
	c.Check(found, "leaf-collection", "split-predicate", c.P.Pos(fn.Pos()), ifElse(found, "leaves are split into added/updated by LeafIndex == UnassignedLeafIndex", "no split of collected leaves by LeafIndex == UnassignedLeafIndex"))
	applied := false
	for _, cf := range cs {
		if cf.Callee != nil && strings.HasSuffix(FuncName(cf.Callee), ".applyBlock") && len(cf.Args) == 3 && len(cf.Chain) == 1 {
			applied = cf.Args[0] == "{consensus.State}.Elements" && strings.Contains(cf.Args[1], "append(") && strings.Contains(cf.Args[2], "append(")
		}
	}
	c.Check(applied, "leaf-collection", "handed-to-accumulator", c.P.Pos(fn.Pos()), "the parent state's accumulator receives both the updated and the added leaves")
}

func compileAll(ps []string) []*regexp.Regexp {
	var out []*regexp.Regexp
	for _, p := range ps {
		out = append(out, regexp.MustCompile(p))
	}
	return out
}

func firstPos(c *Ctx, h *ssa.BasicBlock) string {
	for _, b := range append([]*ssa.BasicBlock{h}, h.Succs...) {
		for _, in := range b.Instrs {
			if in.Pos().IsValid() {
				return c.P.Pos(in.Pos())
			}
		}
	}
	return ""
}

// c04InlineAccessors: "v, ok := acc.treeRoot(h)" style accessors — a method of the accumulator with results (T, bool)
// that returns its value together with true at exactly one return and the zero value with false elsewhere. Where the
// caller uses result #0 (the root-equality rule looks at the comparison, the tree-exists row separately requires the
// existence test on the path) it stands for the value returned with true.
func c04InlineAccessors(c *Ctx, ge *GuardEngine, a string) string {
	const pfx = "call (consensus.ElementAccumulator)."
	for n := 0; n < 4; n++ {
		i := strings.Index(a, pfx)
		if i < 0 {
			return a
		}
		j := i + len(pfx)
		k := j
		for k < len(a) && a[k] != '(' {
			k++
		}
		name := a[j:k]
		depth, e := 0, -1
		for m := k; m < len(a); m++ {
			if a[m] == '(' {
				depth++
			} else if a[m] == ')' {
				depth--
				if depth == 0 {
					e = m
					break
				}
			}
		}
		if e < 0 || !strings.HasPrefix(a[e+1:], "#0") {
			return a
		}
		fn := c.P.Func("consensus.(*ElementAccumulator)." + name)
		if fn == nil || fn.Signature.Results().Len() != 2 {
			return a
		}
		args := callArgs(a[i : e+1])
		env := &Env{params: map[*ssa.Parameter]string{}, freevars: map[*ssa.FreeVar]string{}}
		for pi, prm := range fn.Params {
			if pi < len(args) {
				env.params[prm] = args[pi]
			}
		}
		val, nTrue, okShape := "", 0, true
		for _, b := range fn.Blocks {
			ret, isRet := b.Instrs[len(b.Instrs)-1].(*ssa.Return)
			if !isRet {
				continue
			}
			if len(ret.Results) != 2 {
				okShape = false
				continue
			}
			k, isK := ret.Results[1].(*ssa.Const)
			if !isK || k.Value == nil {
				okShape = false
				continue
			}
			if k.Value.ExactString() == "true" {
				nTrue++
				ge.pv.loadCtx = []ssa.Instruction{ret}
				val = ge.pv.Atom(ret.Results[0], env)
				ge.pv.loadCtx = nil
			}
		}
		if !okShape || nTrue != 1 || val == "" {
			return a
		}
		a = a[:i] + val + a[e+3:]
	}
	return a
}
