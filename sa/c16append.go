package main

// BuildAppendProof: the proof of an append is the subtree roots of the accumulator over the EXISTING sector roots;
// the new root is the accumulator's root after the appended roots were added. One accumulator object serves both,
// so the order of effects is the content of the proof: everything read from the accumulator for the proof
// (its Trees/NumLeaves, directly or through a helper that receives it) must be read before the first appended
// root goes in, and Root() must be taken after the last one. Decided on the CFG of the builder: no read of the
// accumulator other than AddLeaf/Root is reachable from an AddLeaf of an appended root, and no such AddLeaf is
// reachable from the Root() call that produces the result.

import (
	"go/types"
	"strings"

	"golang.org/x/tools/go/ssa"
)

func blockReaches(from, to *ssa.BasicBlock) bool {
	seen := map[*ssa.BasicBlock]bool{}
	q := append([]*ssa.BasicBlock{}, from.Succs...)
	for len(q) > 0 {
		x := q[0]
		q = q[1:]
		if x == to {
			return true
		}
		if seen[x] {
			continue
		}
		seen[x] = true
		q = append(q, x.Succs...)
	}
	return false
}

func instrIndex(in ssa.Instruction) int {
	for i, x := range in.Block().Instrs {
		if x == in {
			return i
		}
	}
	return -1
}

// after: instruction b can execute after instruction a.
func canRunAfter(a, b ssa.Instruction) bool {
	if a.Block() == b.Block() && instrIndex(b) > instrIndex(a) {
		return true
	}
	return blockReaches(a.Block(), b.Block())
}

func c16AppendOrder(c *Ctx) {
	const rule = "append-proof-order"
	fn := c.P.Func("rhp/v4.BuildAppendProof")
	if fn == nil || len(fn.Params) < 2 {
		c.Undecided(rule, "anchor", "", "rhp/v4.BuildAppendProof does not resolve")
		return
	}
	c.NoteFunc(FuncName(fn))
	appended := fn.Params[1]
	fromAppended := func(v ssa.Value) bool {
		return dependsOn(v, func(x ssa.Value) bool { return x == ssa.Value(appended) }, 0, map[ssa.Value]bool{})
	}
	// the accumulator objects of the builder
	var accs []*ssa.Alloc
	for _, b := range fn.Blocks {
		for _, in := range b.Instrs {
			if a, ok := in.(*ssa.Alloc); ok {
				if pt, ok := a.Type().(*types.Pointer); ok && strings.HasSuffix(typeName(pt.Elem()), "blake2b.Accumulator") {
					accs = append(accs, a)
				}
			}
		}
	}
	if len(accs) == 0 {
		c.Undecided(rule, "accumulator", c.P.Pos(fn.Pos()), "BuildAppendProof no longer builds on a blake2b.Accumulator: the order rule has nothing to read")
		return
	}
	bad := ""
	appends, reads, roots := 0, 0, 0
	for _, acc := range accs {
		var w2, rd, rt []ssa.Instruction
		for _, r := range *acc.Referrers() {
			switch x := r.(type) {
			case *ssa.Call:
				callee := x.Call.StaticCallee()
				name := ""
				if callee != nil {
					name = callee.Name()
				}
				isRecv := len(x.Call.Args) > 0 && x.Call.Args[0] == ssa.Value(acc)
				switch {
				case isRecv && name == "AddLeaf":
					if len(x.Call.Args) > 1 && fromAppended(x.Call.Args[1]) {
						w2 = append(w2, x)
					}
				case isRecv && name == "Root":
					rt = append(rt, x)
				default:
					rd = append(rd, x) // a helper that receives the accumulator reads it
				}
			case *ssa.FieldAddr:
				rd = append(rd, x)
			case *ssa.UnOp:
				rd = append(rd, x) // whole-struct copy
			case *ssa.DebugRef:
			default:
				if _, isStore := r.(*ssa.Store); !isStore {
					rd = append(rd, r)
				}
			}
		}
		appends += len(w2)
		reads += len(rd)
		roots += len(rt)
		for _, w := range w2 {
			for _, r := range rd {
				if canRunAfter(w, r) {
					bad = "the accumulator is read for the proof at " + c.P.Pos(r.Pos()) + " after appended roots were added at " + c.P.Pos(w.Pos()) + ": the proof lists subtrees of the new tree, not of the existing sectors"
				}
			}
			for _, r := range rt {
				if canRunAfter(r, w) && !canRunAfter(w, r) {
					bad = "the new root is taken at " + c.P.Pos(r.Pos()) + " before the appended roots are added"
				}
			}
		}
	}
	if bad == "" && (appends == 0 || reads == 0 || roots == 0) {
		c.Undecided(rule, "BuildAppendProof", c.P.Pos(fn.Pos()), "appended-root insertions, proof reads or Root() not found on the accumulator: the builder is spelled in a way this rule does not read")
		return
	}
	c.Check(bad == "", rule, "BuildAppendProof", c.P.Pos(fn.Pos()), ifElse(bad == "", "subtree roots are read before the first appended root is added; Root() after the last", bad))
	c.Min(rule, 1)
}
