package main

// C19 frame-layout: the RHP2 encrypted frame is  len(8) ‖ nonce ‖ Seal(payload) . The sender and the
// receiver must agree on where each part lies, and the sealed payload must cover everything the
// encoder wrote. All obligations are differences of linear forms (linform.go) over the values the
// code actually passes to AEAD.Seal / AEAD.Open / Conn.Write / PutUint64 — not over names or lines.

import (
	"fmt"
	"go/constant"
	"strings"

	"golang.org/x/tools/go/ssa"
)

// sliceChain returns the root of a chain of reslicings together with the chain (outermost first).
func sliceRoot(v ssa.Value) ssa.Value {
	for {
		s, ok := v.(*ssa.Slice)
		if !ok {
			return v
		}
		v = s.X
	}
}

// offsetTerms expresses the absolute start of v relative to root as terms (sum of the Low bounds).
func offsetTerms(v ssa.Value, root ssa.Value, coef int64) ([]LinTerm, bool) {
	var out []LinTerm
	for v != root {
		s, ok := v.(*ssa.Slice)
		if !ok {
			return nil, false
		}
		if s.Low != nil {
			out = append(out, LinTerm{V: s.Low, Coef: coef})
		}
		v = s.X
	}
	return out, true
}

func invokeNamed(fn *ssa.Function, method string) []*ssa.Call {
	var out []*ssa.Call
	for _, b := range fn.Blocks {
		for _, in := range b.Instrs {
			if c, ok := in.(*ssa.Call); ok && c.Call.IsInvoke() && c.Call.Method != nil && c.Call.Method.Name() == method {
				out = append(out, c)
			}
		}
	}
	return out
}

func staticCallsNamed(fn *ssa.Function, name string) []*ssa.Call {
	var out []*ssa.Call
	for _, b := range fn.Blocks {
		for _, in := range b.Instrs {
			if c, ok := in.(*ssa.Call); ok {
				if f := c.Call.StaticCallee(); f != nil && strings.TrimPrefix(f.String(), "(*") != "" && canonStar(f.String()) == name {
					out = append(out, c)
				}
			}
		}
	}
	return out
}

func canonStar(s string) string { return strings.Replace(s, "(*", "(", 1) }

// instrPrecedes: a precedes b in the same block, or a's block strictly dominates b's.
func instrPrecedes(a, b ssa.Instruction) bool {
	if a.Block() == b.Block() {
		for _, in := range a.Block().Instrs {
			if in == a {
				return true
			}
			if in == b {
				return false
			}
		}
		return false
	}
	return a.Block().Dominates(b.Block())
}

func c19Frame(c *Ctx, ge *GuardEngine) {
	const rule = "frame-layout"
	w := c.P.Func("rhp/v2.(*Transport).writeMessage")
	r := c.P.Func("rhp/v2.(*Transport).readMessage")
	if w == nil || r == nil {
		c.Undecided(rule, "anchor", "", "rhp/v2 Transport.writeMessage / readMessage do not resolve")
		return
	}
	c.NoteFunc(FuncName(w))
	c.NoteFunc(FuncName(r))
	seals := invokeNamed(w, "Seal")
	writes := invokeNamed(w, "Write")
	if len(seals) != 1 || len(seals[0].Call.Args) != 4 {
		c.Undecided(rule, "v2-send:seal", c.P.Pos(w.Pos()), fmt.Sprintf("%d AEAD Seal calls in writeMessage (exactly one expected)", len(seals)))
		return
	}
	seal := seals[0]
	where := c.P.Pos(seal.Pos())
	plaintext, nonce, dst := seal.Call.Args[2], seal.Call.Args[1], seal.Call.Args[0]
	root := sliceRoot(plaintext)
	// the connection write sends a reslice of the same buffer
	var sent ssa.Value
	for _, wr := range writes {
		if len(wr.Call.Args) == 1 && sliceRoot(wr.Call.Args[0]) == root && instrPrecedes(seal, wr) {
			sent = wr.Call.Args[0]
		}
	}
	c.Check(sent != nil, rule, "v2-send:sealed-buffer-is-sent", where, ifElse(sent != nil, "the buffer sealed in place is the one written to the connection, after sealing", "no Conn.Write after Seal sends the buffer that was sealed"))
	if sent == nil {
		return
	}
	prove := func(inst, okMsg, clause string, g LinGoal) LinResult {
		g.At = seal.Block()
		res := ge.LinProve(g)
		msg := okMsg
		if !res.OK {
			msg = res.Why + " — " + clause
		} else if len(res.Forms) > 0 {
			msg += " [" + strings.Join(res.Forms, "; ") + "]"
		}
		c.Check(res.OK, rule, inst, where, msg)
		return res
	}
	pOff, ok1 := offsetTerms(plaintext, root, 1)
	sOff, ok2 := offsetTerms(sent, root, -1)
	nOff, ok3 := offsetTerms(nonce, root, 1)
	dOff, ok4 := offsetTerms(dst, root, 1)
	if !ok1 || !ok2 || !ok3 || !ok4 || sliceRoot(nonce) != root || sliceRoot(dst) != root {
		c.Undecided(rule, "v2-send:regions", where, "nonce, destination and plaintext of Seal are not reslices of one buffer")
		return
	}
	// everything below is relative to the start of the frame (= start of what is sent)
	rel := func(ts []LinTerm) []LinTerm { return append(append([]LinTerm{}, ts...), sOff...) }
	// (1) sealing in place: dst starts where the plaintext starts and has length 0
	prove("v2-send:seal-in-place", "Seal appends the ciphertext where the plaintext starts", "the ciphertext must overwrite the plaintext it was computed from", LinGoal{Terms: append(append([]LinTerm{}, pOff...), negTerms(dOff)...), Eq: true})
	prove("v2-send:seal-dst-empty", "Seal's destination has length zero", "a non-empty destination prefix would shift the ciphertext", LinGoal{Terms: []LinTerm{{V: dst, Len: true, Coef: 1}}, Eq: true})
	// (2) the tag fits exactly: start(plaintext) + len(plaintext) + Overhead == len(sent)
	var overhead ssa.Value
	for _, oc := range invokeNamed(w, "Overhead") {
		overhead = oc
	}
	if overhead == nil {
		c.Undecided(rule, "v2-send:tag-fits", where, "writeMessage never asks the AEAD for its overhead")
		return
	}
	prove("v2-send:tag-fits", "payload end + tag size equals the frame length", "the authentication tag must end exactly at the end of the frame",
		LinGoal{Terms: append(rel(pOff), LinTerm{V: plaintext, Len: true, Coef: 1}, LinTerm{V: overhead, Coef: 1}, LinTerm{V: sent, Len: true, Coef: -1}), Eq: true})
	// (3) the sealed payload covers the encoded bytes: start + len(plaintext) >= buffer length after Flush
	flushes := staticCallsNamed(w, "(go.sia.tech/core/types.Encoder).Flush")
	var bufLen *ssa.Call
	for _, lc := range staticCallsNamed(w, "(bytes.Buffer).Len") {
		bufLen = lc
	}
	if len(flushes) == 0 || bufLen == nil {
		c.Undecided(rule, "v2-send:payload-covers-encoding", where, "no Encoder.Flush / Buffer.Len in writeMessage to measure the encoded length")
		return
	}
	res := prove("v2-send:payload-covers-encoding", "the sealed region ends at or after the last encoded byte", "bytes the encoder wrote beyond the sealed region are dropped: the receiver decodes a truncated object",
		LinGoal{Terms: append(pOff, LinTerm{V: plaintext, Len: true, Coef: 1}, LinTerm{V: bufLen, Coef: -1})})
	// the measured length is the length after everything was written
	stale := ""
	for name, call := range res.Calls {
		if !instrPrecedes(flushes[len(flushes)-1], call) {
			stale = name + " is read before the encoder is flushed"
		}
	}
	for _, b := range w.Blocks {
		for _, in := range b.Instrs {
			if cc, ok := in.(*ssa.Call); ok {
				if f := cc.Call.StaticCallee(); f != nil && strings.HasPrefix(canonStar(f.String()), "(go.sia.tech/core/types.Encoder).Write") && instrPrecedes(flushes[len(flushes)-1], cc) {
					stale = "the encoder writes after the flush that precedes the length measurement"
				}
			}
		}
	}
	c.Check(stale == "", rule, "v2-send:length-measured-after-flush", where, ifElse(stale == "", "the buffer length is read after the last flush and nothing is encoded afterwards", stale))
	// (4) payload starts after what the encoder wrote before the object: prefix(8) + nonce
	var pre []LinTerm
	var objEnc ssa.Instruction
	for _, oc := range invokeNamed(w, "EncodeTo") {
		objEnc = oc
	}
	preOK := objEnc != nil
	if preOK {
		for _, b := range w.Blocks {
			for _, in := range b.Instrs {
				cc, ok := in.(*ssa.Call)
				if !ok || !instrPrecedes(cc, objEnc) {
					continue
				}
				f := cc.Call.StaticCallee()
				if f == nil {
					continue
				}
				switch canonStar(f.String()) {
				case "(go.sia.tech/core/types.Encoder).WriteUint64":
					pre = append(pre, LinTerm{V: ssa.NewConst(constant.MakeInt64(8), cc.Call.Args[1].Type()), Coef: -1})
				case "(go.sia.tech/core/types.Encoder).Write":
					pre = append(pre, LinTerm{V: cc.Call.Args[1], Len: true, Coef: -1})
				default:
					if strings.HasPrefix(canonStar(f.String()), "(go.sia.tech/core/types.Encoder).Write") {
						preOK = false
					}
				}
			}
		}
	}
	if !preOK {
		c.Undecided(rule, "v2-send:payload-start", where, "cannot tell how many bytes precede the object's encoding")
	} else {
		prove("v2-send:payload-start", "the sealed region starts where the object's encoding starts", "sealing from a different offset leaves header bytes encrypted or object bytes in clear",
			LinGoal{Terms: append(rel(pOff), pre...), Eq: true})
	}
	// (5) nonce region: bytes [8, 8+NonceSize)
	var ns ssa.Value
	for _, nc := range invokeNamed(w, "NonceSize") {
		ns = nc
	}
	if ns == nil {
		c.Undecided(rule, "v2-send:nonce-region", where, "writeMessage never asks the AEAD for its nonce size")
	} else {
		prove("v2-send:nonce-offset", "the nonce handed to Seal lies right after the 8-byte length prefix", "the receiver takes the nonce from the first bytes after the prefix",
			LinGoal{Terms: rel(nOff), K: -8, Eq: true})
		prove("v2-send:nonce-length", "the nonce handed to Seal has the AEAD's nonce size", "the receiver takes NonceSize bytes",
			LinGoal{Terms: []LinTerm{{V: nonce, Len: true, Coef: 1}, {V: ns, Coef: -1}}, Eq: true})
		prove("v2-send:payload-after-nonce", "the sealed region starts right after the nonce", "the receiver opens everything after the nonce",
			LinGoal{Terms: append(rel(pOff), LinTerm{V: ns, Coef: -1}), K: -8, Eq: true})
	}
	// (6) the length prefix counts the bytes after it
	var put *ssa.Call
	for _, b := range w.Blocks {
		for _, in := range b.Instrs {
			if cc, ok := in.(*ssa.Call); ok {
				if f := cc.Call.StaticCallee(); f != nil && strings.HasSuffix(f.String(), "littleEndian).PutUint64") && len(cc.Call.Args) == 3 && sliceRoot(cc.Call.Args[1]) == root {
					put = cc
				}
			}
		}
	}
	if put == nil {
		c.Undecided(rule, "v2-send:length-prefix", where, "no little-endian PutUint64 into the frame buffer")
	} else {
		putOff, okp := offsetTerms(put.Call.Args[1], root, 1)
		if !okp {
			c.Undecided(rule, "v2-send:length-prefix", where, "prefix destination is not a reslice of the frame buffer")
		} else {
			prove("v2-send:length-prefix-at-start", "the length prefix is written at the start of the frame", "the receiver reads the prefix first", LinGoal{Terms: rel(putOff), Eq: true})
			prove("v2-send:length-prefix-value", "the length prefix equals the number of bytes that follow it", "the receiver reads exactly that many bytes as nonce ‖ ciphertext ‖ tag",
				LinGoal{Terms: []LinTerm{{V: put.Call.Args[2], Coef: 1}, {V: sent, Len: true, Coef: -1}}, K: 8, Eq: true})
		}
	}
	// ---- receiver ----
	opens := invokeNamed(r, "Open")
	if len(opens) != 1 || len(opens[0].Call.Args) != 4 {
		c.Undecided(rule, "v2-recv:open", c.P.Pos(r.Pos()), fmt.Sprintf("%d AEAD Open calls in readMessage (exactly one expected)", len(opens)))
		return
	}
	open := opens[0]
	rwhere := c.P.Pos(open.Pos())
	rn, rc := open.Call.Args[1], open.Call.Args[2]
	rroot := sliceRoot(rc)
	rprove := func(inst, okMsg, clause string, g LinGoal) {
		g.At = open.Block()
		res := ge.LinProve(g)
		msg := okMsg
		if !res.OK {
			msg = res.Why + " — " + clause
		}
		c.Check(res.OK, rule, inst, rwhere, msg)
	}
	rnOff, okn := offsetTerms(rn, rroot, 1)
	rcOff, okc := offsetTerms(rc, rroot, 1)
	var rns ssa.Value
	for _, nc := range invokeNamed(r, "NonceSize") {
		rns = nc
	}
	if !okn || !okc || sliceRoot(rn) != rroot || rns == nil {
		c.Undecided(rule, "v2-recv:regions", rwhere, "nonce and ciphertext of Open are not reslices of one buffer, or the nonce size is never asked")
		return
	}
	rprove("v2-recv:nonce-offset", "the nonce is taken from the start of the received bytes", "the sender puts the nonce right after the prefix", LinGoal{Terms: rnOff, Eq: true})
	rprove("v2-recv:nonce-length", "the nonce has the AEAD's nonce size", "sender and receiver must split the frame at the same offset", LinGoal{Terms: []LinTerm{{V: rn, Len: true, Coef: 1}, {V: rns, Coef: -1}}, Eq: true})
	rprove("v2-recv:ciphertext-after-nonce", "the ciphertext starts right after the nonce", "sender and receiver must split the frame at the same offset", LinGoal{Terms: append(rcOff, LinTerm{V: rns, Coef: -1}), Eq: true})
	// ciphertext runs to the end of what was read: len(ciphertext) + offset == len(read buffer)
	var filled ssa.Value
	for _, rd := range staticCallsNamed(r, "(go.sia.tech/core/types.Decoder).Read") {
		if len(rd.Call.Args) == 2 && sliceRoot(rd.Call.Args[1]) == rroot && instrPrecedes(rd, open) {
			filled = rd.Call.Args[1]
		}
	}
	c.Check(filled != nil, rule, "v2-recv:opened-buffer-was-read", rwhere, ifElse(filled != nil, "the bytes opened are the bytes read from the connection", "Open is applied to a buffer that no Decoder.Read filled"))
	if filled != nil {
		fOff, okf := offsetTerms(filled, rroot, -1)
		if okf {
			rprove("v2-recv:ciphertext-to-end", "the ciphertext runs to the end of the received bytes", "trailing bytes outside the opened region would not be authenticated",
				LinGoal{Terms: append(append(rcOff, fOff...), LinTerm{V: rc, Len: true, Coef: 1}, LinTerm{V: filled, Len: true, Coef: -1}), Eq: true})
		}
	}
	c.Min(rule, 14)
}

func negTerms(ts []LinTerm) []LinTerm {
	var out []LinTerm
	for _, t := range ts {
		t.Coef = -t.Coef
		out = append(out, t)
	}
	return out
}
