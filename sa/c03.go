package main

import (
	"fmt"
	"go/types"
	"regexp"
	"sort"
	"strings"

	"golang.org/x/tools/go/ssa"
)

func init() { register("C03", runC03) }

func c03Table() []GuardReq {
	var t []GuardReq
	add := func(r GuardReq) { t = append(t, r) }
	uh := func(f string) string {
		return "call (types.UnlockConditions).UnlockHash(%T1%." + f + "[*].UnlockConditions)"
	}
	// ---- v1: revealed unlock conditions hash to the parent's address ----
	add(req("v1-unlock-hash:SiacoinInputs", VT, uh("SiacoinInputs"), opNE, v1Elem("siacoinElement", "SiacoinInputs")+"#0.SiacoinOutput.Address", "revealed unlock conditions must hash to the address committed in the parent"))
	add(req("v1-unlock-hash:FileContractRevisions", VT, uh("FileContractRevisions"), opNE, v1Elem("fileContractElement", "FileContractRevisions")+"#0.FileContract.UnlockHash", "a revision must reveal the conditions committed in the current contract"))
	// ---- v1 signatures ----
	sig := "%T1%.Signatures[*]"
	entry := "make[" + sig + ".ParentID]"
	add(req("v1-sig-parent-known", VT, "ok:"+entry, opF, "", "a signature must reference a parent present in the transaction"))
	add(req("v1-sig-key-index", VT, sig+".PublicKeyIndex", opGE, "len("+entry+".keys)", "a signature must point to an existing key of the parent's conditions"))
	add(req("v1-sig-not-redundant:need", VT, entry+".need", opEQ, "const:0", "adding a signature beyond the required count makes the transaction invalid"))
	add(req("v1-sig-not-redundant:used", VT, entry+".used["+sig+".PublicKeyIndex]", opT, "", "one key cannot sign twice"))
	add(req("v1-sig-verifies", VT, "call (types.PublicKey).VerifyHash("+entry+".keys["+sig+".PublicKeyIndex].Key, phi(call (consensus.State).PartialSigHash(%ST%, %T1%, "+sig+".CoveredFields)|call (consensus.State).WholeSigHash(%ST%, %T1%, "+sig+".ParentID, "+sig+".PublicKeyIndex, "+sig+".Timelock, "+sig+".CoveredFields.Signatures)), "+sig+".Signature)", opF, "", "each ed25519 signature must verify against the key it points to and the sighash of the content it covers", entry+".keys["+sig+".PublicKeyIndex].Algorithm == global types.SpecifierEd25519"))
	add(req("v1-sig-entropy-rejected", VT, entry+".keys["+sig+".PublicKeyIndex].Algorithm", opEQ, "global types.SpecifierEntropy", "entropy keys can never sign", "… != global types.SpecifierEd25519"))
	// ---- v1 Foundation update ----
	fctx := []string{"%CH% >= %NET%.HardforkFoundation.Height", "call bytes.HasPrefix(%T1%.ArbitraryData[*], global types.SpecifierFoundation) is true"}
	add(req("v1-foundation:decodes", VT, "call (types.Decoder).Err(…)", opNE, "nil", "a malformed update is rejected", fctx...))
	// ---- v2 inputs ----
	for _, k := range [][2]string{{"SiacoinInputs", "SiacoinOutput"}, {"SiafundInputs", "SiafundOutput"}} {
		in := "%T2%." + k[0] + "[*]"
		add(req("v2-policy-address:"+k[0], V2T, "call (types.SpendPolicy).Address("+in+".SatisfiedPolicy.Policy)", opNE, in+".Parent."+k[1]+".Address", "the revealed policy must hash to the address committed in the parent (the same parent the accumulator check covers)"))
		add(req("v2-policy-verified:"+k[0], V2T, "call (types.SpendPolicy).Verify("+in+".SatisfiedPolicy.Policy, %PH%, call (consensus.State).medianTimestamp(%ST%), call (consensus.State).InputSigHash(%ST%, %T2%), "+in+".SatisfiedPolicy.Signatures, "+in+".SatisfiedPolicy.Preimages)", opNE, "nil", "the policy must be satisfied by this input's own witnesses against the input sighash of the whole transaction"))
		add(req("v2-policy-key-leaf:"+k[0], V2T, "call (types.PublicKey).VerifyHash("+in+".SatisfiedPolicy.Policy.Type.(types.PolicyTypePublicKey), call (consensus.State).InputSigHash(%ST%, %T2%), …)", opF, "", "a public-key policy needs a signature over the input sighash by that key"))
	}
	// ---- v2 contracts ----
	vh := func(key, hash, sig string) string {
		return "call (types.PublicKey).VerifyHash(" + key + ", " + hash + ", " + sig + ")"
	}
	csh := func(fc string) string { return "call (consensus.State).ContractSigHash(%ST%, " + fc + ")" }
	fc := "%T2%.FileContracts[*]"
	for _, who := range []string{"Renter", "Host"} {
		add(req("v2-contract-signed:"+who, V2T, vh(fc+"."+who+"PublicKey", csh(fc), fc+"."+who+"Signature"), opF, "", "a new v2 contract is signed by its renter and host keys"))
		rev := "%T2%.FileContractRevisions[*]"
		curKey := "phi(%MS%.v2fces[%MS%.elements[" + rev + ".Parent.ID]].Revision." + who + "PublicKey|" + rev + ".Parent.V2FileContract." + who + "PublicKey)"
		add(req("v2-revision-signed-current-keys:"+who, V2T, vh(curKey, csh(rev+".Revision"), rev+".Revision."+who+"Signature"), opF, "", "a revision is signed by the keys of the contract as it currently stands (parent element, or the latest revision earlier in this block) — never by the proposed revision's keys"))
		res := "%T2%.FileContractResolutions[*]"
		ren := res + ".Resolution.(types.V2FileContractRenewal)"
		curResKey := "phi(%MS%.v2fces[%MS%.elements[" + res + ".Parent.ID]].Revision." + who + "PublicKey|" + res + ".Parent.V2FileContract." + who + "PublicKey)"
		{
			r := req("v2-renewal-keys-pinned:"+who, V2T, res+".Parent.V2FileContract."+who+"PublicKey", opNE, ren+".NewContract."+who+"PublicKey", "a renewal cannot substitute other keys")
			parentForm := mustRe(r.L)
			curForm := mustRe(pat("phi(%MS%.v2fces[%MS%.elements[" + res + ".Parent.ID]].Revision." + who + "PublicKey|" + res + ".Parent.V2FileContract." + who + "PublicKey)"))
			r.LFn = func(a string) bool { return parentForm.MatchString(a) || curForm.MatchString(a) }
			add(r)
		}
		add(req("v2-renewal-new-contract-signed:"+who, V2T, vh(ren+".NewContract."+who+"PublicKey", csh(ren+".NewContract"), ren+".NewContract."+who+"Signature"), opF, "", "the renewal's new contract is signed"))
		// "… of the contract as it currently stands": the same for a renewal — current keys are the latest in-block
		// revision's if there is one (known finding F19: the code checks the pre-block element's keys)
		add(req("v2-renewal-current-keys:"+who, V2T, vh(curResKey, "call (consensus.State).RenewalSigHash(%ST%, "+ren+")", ren+"."+who+"Signature"), opF, "", "a renewal is signed by the keys of the contract as it currently stands (parent element, or the latest revision earlier in this block)"))
		{
			r := req("v2-renewal-signed:"+who, V2T, vh(res+".Parent.V2FileContract."+who+"PublicKey", "call (consensus.State).RenewalSigHash(%ST%, "+ren+")", ren+"."+who+"Signature"), opF, "", "the renewal is signed by the keys of the contract being renewed")
			// either spelling of "the contract being renewed" satisfies THIS row (a repair of F19 must not make it fire)
			parentForm := mustRe(r.L)
			curForm := mustRe(pat(vh(curResKey, "call (consensus.State).RenewalSigHash(%ST%, "+ren+")", ren+"."+who+"Signature")))
			r.LFn = func(a string) bool { return parentForm.MatchString(a) || curForm.MatchString(a) }
			add(r)
		}
	}
	att := "%T2%.Attestations[*]"
	add(req("v2-attestation-signed", V2T, vh(att+".PublicKey", "call (consensus.State).AttestationSigHash(%ST%, "+att+")", att+".Signature"), opF, "", "every attestation is signed by its key"))
	// ---- v2 Foundation update ----
	r := req("v2-foundation:authorised", V2T, "%T2%.SiacoinInputs[*].Parent.SiacoinOutput.Address", []string{"==", "!="}, "%ST%.FoundationManagementAddress", "the Foundation address changes only when an input controlled by the current management address is spent", "%T2%.NewFoundationAddress != nil")
	r.Weak = true
	add(r)
	// "… authorized by the CURRENT Foundation keys": within a block the current management address is the MidState's
	// running value (an earlier transaction of the block may have handed it over). Known finding F20: both validators
	// compare with the pre-block state's addresses.
	r2 := req("v2-foundation:in-block-current-key", V2T, "%T2%.SiacoinInputs[*].Parent.SiacoinOutput.Address", []string{"==", "!="}, "%MS%.foundationManagement", "a Foundation update is authorised by the management address as it stands when the transaction is validated (after earlier updates of the same block)", "%T2%.NewFoundationAddress != nil")
	r2.Weak = true
	add(r2)
	r1 := req("v1-foundation:in-block-current-key", VT, "call (types.UnlockConditions).UnlockHash(%T1%.SiacoinInputs[*].UnlockConditions)", []string{"==", "!="}, "%MS%.foundation(Subsidy|Management)", "a v1 Foundation update is authorised by a Foundation address as it stands when the transaction is validated (after earlier updates of the same block)", "…")
	r1.R = strings.Replace(r1.R, regexp.QuoteMeta("(Subsidy|Management)"), "(Subsidy|Management)", 1)
	r1.Ctx = []string{".*"}
	r1.Weak = true
	add(r1)
	return t
}

func runC03(c *Ctx) {
	c.Explain("Decides the structural clauses of content-binding authorisation: (1) guard inventory: every address/unlock-hash comparison and every signature verification exists with exactly the operands the property names (by provenance: which key, which sighash over which object, which signature; which parent's address), its failing side only rejects and it cannot be bypassed; revisions verify with the keys of the contract as it currently stands (parent element or latest in-block revision); renewal keys are pinned; the signature map records each parent's own required count and keys; (2) sighash commitment: WholeSigHash covers every field of Transaction except Signatures, PartialSigHash hashes exactly the elements indexed by the covered fields, v2 sighash builders strip exactly the Signature leaves and InputSigHash hashes the semantic encoding (coverage of which is decided under C12); (3) the Foundation addresses of the state are written only by block application from the MidState, which changes them only in the two authorised update paths. Cryptographic strength is assumed.")
	c.NotCovered("strength of Ed25519 / BLAKE2b", "acceptance of the untampered transaction (an inventory cannot prove no other guard rejects)", "soft-fork rule for unknown key algorithms is accepted by the property")
	ge := NewGuardEngine(c.P, c.Depth+4)
	tab := c03Table()
	// an ephemeral parent's claimed address is what the spend policy is hashed against: from the fix height on it
	// must be the address the element was created with (compared as part of the whole output or on its own)
	{
		esce := "%MS%.sces[%MS%.elements[%T2%.SiacoinInputs[*].Parent.ID]].SiacoinElement"
		r := req("v2-ephemeral-address", V2T, "%T2%.SiacoinInputs[*].Parent.SiacoinOutput", opNE, esce+".SiacoinOutput", "the address claimed for a parent created earlier in the block must be the one it was created with (the policy is checked against the claimed address)", ctxEphemeral, "%CH% >= %NET%.HardforkV2.EphemeralOutputHeight")
		lS, rS := mustRe(r.L), mustRe(r.R)
		lA, rA := mustRe(pat("%T2%.SiacoinInputs[*].Parent.SiacoinOutput.Address")), mustRe(pat(esce+".SiacoinOutput.Address"))
		r.LFn = func(a string) bool { return lS.MatchString(a) || lA.MatchString(a) }
		r.RFn = func(a string) bool { return rS.MatchString(a) || rA.MatchString(a) }
		tab = append(tab, r)
	}
	runGuardTable(c, "auth-guard", ge, tab)
	c03FoundationSigned(c, ge)
	c03AllSupplied(c, ge)
	c03SiafundUnlock(c, ge)
	c.Min("auth-guard", len(tab)+9)
	c03SigMap(c, ge)
	progs := ExtractWirePrograms(c.P)
	c03SigHashCoverage(c, progs)
	c12SigStripping(c, progs)
	c03FoundationWriters(c, ge)
	// F13 regression: the semantic encoding must bind every effect-bearing field (decided in full under C12)
	c12Exclusion(c, progs)
}

// c03SigMap: the signature map entry of each parent carries that parent's own conditions.
func c03SigMap(c *Ctx, ge *GuardEngine) {
	cs, ok := ge.EntryCalls(VT)
	if !ok {
		c.Undecided("sigmap-entry", "entry", VT, "entry does not resolve")
		return
	}
	for _, f := range []string{"SiacoinInputs", "SiafundInputs", "FileContractRevisions"} {
		in := "%T1%." + f + "[*]"
		key := regexp.MustCompile(pat(in + ".ParentID"))
		val := regexp.MustCompile(pat("lit{need: " + in + ".UnlockConditions.SignaturesRequired, keys: " + in + ".UnlockConditions.PublicKeys, used: …}"))
		found := false
		where := ""
		for _, cf := range cs {
			if cf.Name == "mapupdate" && key.MatchString(cf.Args[1]) && val.MatchString(cf.Args[2]) {
				found = true
				where = c.P.Pos(cf.Pos)
			}
		}
		c.Check(found, "sigmap-entry", f, where, ifElse(found, "signature requirements of "+f+" come from that input's own revealed conditions", "the signature map entry for "+f+" is not built from that input's SignaturesRequired / PublicKeys: another policy's keys or count would be enforced"))
	}
}

func c03SigHashCoverage(c *Ctx, progs map[string]*WireProg) {
	p := c.P
	txnT := p.NamedType("types", "Transaction")
	cfT := p.NamedType("types", "CoveredFields")
	whole, partial, input := progs["consensus.(State).WholeSigHash"], progs["consensus.(State).PartialSigHash"], progs["consensus.(State).InputSigHash"]
	if txnT == nil || cfT == nil || whole == nil || partial == nil || input == nil {
		c.Undecided("sighash-coverage", "anchors", "", "sighash builders or transaction types do not resolve")
		return
	}
	for _, f := range structFields(txnT) {
		if f == "Signatures" {
			continue
		}
		found := false
		for _, o := range whole.Ops {
			if (o.Kind == "slice" || o.Kind == "loop") && o.Path == "{types.Transaction}."+f {
				found = len(o.Sub) > 0 && strings.HasPrefix(o.Sub[len(o.Sub)-1].Path, "{types.Transaction}."+f+"[*]")
			}
		}
		c.Check(found, "sighash-coverage", "whole:"+f, p.Pos(whole.Decl.Pos()), ifElse(found, "WholeSigHash hashes every element of "+f, "WholeSigHash does not hash Transaction."+f+": that content can be changed after signing"))
	}
	// trailing: parent ID, key index, timelock, covered signatures
	s := renderOps(whole.Ops, true)
	for _, want := range []string{"ref(types.Hash256) {types.Hash256}", "u64 {uint64}", "u64 {uint64#2}", "ref(types.TransactionSignature) {types.Transaction}.Signatures[{[]uint64}[*]]"} {
		ok := strings.Contains(s, want)
		c.Check(ok, "sighash-coverage", "whole-trailer:"+want, p.Pos(whole.Decl.Pos()), "WholeSigHash binds the signature's own parent ID, key index, timelock and the covered signatures")
	}
	st, _ := cfT.Underlying().(*types.Struct)
	for i := 0; st != nil && i < st.NumFields(); i++ {
		f := st.Field(i)
		if _, isSlice := f.Type().Underlying().(*types.Slice); !isSlice {
			continue
		}
		want := "{types.Transaction}." + f.Name() + "[{types.CoveredFields}." + f.Name() + "[*]]"
		found := false
		for _, o := range partial.Ops {
			if o.Kind == "loop" && o.Path == "{types.CoveredFields}."+f.Name() && len(o.Sub) > 0 && o.Sub[len(o.Sub)-1].Path == want {
				found = true
			}
		}
		c.Check(found, "sighash-coverage", "partial:"+f.Name(), p.Pos(partial.Decl.Pos()), ifElse(found, "PartialSigHash hashes "+want, "PartialSigHash does not hash the elements of Transaction."+f.Name()+" selected by CoveredFields."+f.Name()+" (expected "+want+"): covered content is not what gets signed"))
	}
	is := renderOps(input.Ops, true)
	ok := strings.Contains(is, `dist("sig/input")`) && strings.Contains(is, "ref(types.V2TransactionSemantics) {types.V2Transaction}")
	c.Check(ok, "sighash-coverage", "input", p.Pos(input.Decl.Pos()), "InputSigHash hashes the semantic encoding of the whole v2 transaction under its own purpose distinguisher")
	c.Min("sighash-coverage", 20)
}

// c03FoundationWriters: who may write the Foundation addresses.
func c03FoundationWriters(c *Ctx, ge *GuardEngine) {
	type fieldRule struct {
		typ, field string
		allowed    map[string]string // function -> reason
		valueRe    map[string]string // function -> required provenance of the stored value
	}
	rules := []fieldRule{
		{"consensus.State", "FoundationSubsidyAddress", map[string]string{"consensus.ApplyBlock": "block application", "(consensus.State).DecodeFrom": "decoding", "(consensus.Network).GenesisState": "genesis"},
			map[string]string{"consensus.ApplyBlock": "call consensus.NewMidState({consensus.State}).foundationSubsidy"}},
		{"consensus.State", "FoundationManagementAddress", map[string]string{"consensus.ApplyBlock": "block application", "(consensus.State).DecodeFrom": "decoding", "(consensus.Network).GenesisState": "genesis"},
			map[string]string{"consensus.ApplyBlock": "call consensus.NewMidState({consensus.State}).foundationManagement"}},
		{"consensus.MidState", "foundationSubsidy", map[string]string{"consensus.NewMidState": "initialised from the base state", "(consensus.MidState).ApplyTransaction": "v1 update path", "(consensus.MidState).ApplyV2Transaction": "v2 update path"},
			map[string]string{"consensus.NewMidState": "{consensus.State}.FoundationSubsidyAddress"}},
		{"consensus.MidState", "foundationManagement", map[string]string{"consensus.NewMidState": "initialised from the base state", "(consensus.MidState).ApplyTransaction": "v1 update path", "(consensus.MidState).ApplyV2Transaction": "v2 update path"},
			map[string]string{"consensus.NewMidState": "{consensus.State}.FoundationManagementAddress"}},
	}
	for _, r := range rules {
		n := 0
		for _, fn := range SortedFuncs(c.P.AllFuncs()) {
			if !c.P.InModule(fn) {
				continue
			}
			for _, st := range fieldStores(fn, r.field) {
				fa := st.Addr.(*ssa.FieldAddr)
				if typeName(fa.X.Type()) != r.typ {
					continue
				}
				n++
				name := FuncName(fn)
				if fn.Parent() != nil {
					name = FuncName(fn.Parent())
				}
				_, ok := r.allowed[name]
				if strings.Contains(name, "JSON") {
					ok = true
				}
				if !ok {
					// a piece split out of an allowed writer (every caller is an allowed writer)
					if owner, isHelper := c.P.HelperOf(fn, func(n string) bool { _, a := r.allowed[n]; return a }); isHelper {
						c.OK("foundation-writers", r.typ+"."+r.field+":"+owner+":helper", c.P.Pos(st.Pos()), name+" is called only from the allowed writer "+owner)
						continue
					}
				}
				inst := r.typ + "." + r.field + ":" + name
				if !ok {
					c.Fail("foundation-writers", inst, c.P.Pos(st.Pos()), fmt.Sprintf("%s writes %s.%s: the Foundation addresses may change only through block application of an authorised update", name, r.typ, r.field))
					continue
				}
				if want, has := r.valueRe[name]; has {
					a := ge.pv.Atom(st.Val, nil)
					okv := regexp.MustCompile(pat(want)).MatchString(a)
					c.Check(okv, "foundation-writers", inst, c.P.Pos(st.Pos()), ifElse(okv, "value comes from "+a, "stored value is "+a+", expected "+want))
				} else {
					c.OK("foundation-writers", inst, c.P.Pos(st.Pos()), "allowed writer: "+r.allowed[name])
				}
			}
		}
		if n == 0 {
			c.Undecided("foundation-writers", r.typ+"."+r.field, "", "no writer found at all (field renamed?)")
		}
	}
}

// c03FoundationSigned: a v1 Foundation address update is rejected unless SOME siacoin input is
// controlled by the current subsidy or management address AND a whole-transaction signature belongs
// to that input. The existence test is decided on the flag's truth conditions (flagdnf.go), so the
// spelling (continue-guards, ||-accumulation, loop condition, nested ifs) does not matter.
func c03FoundationSigned(c *Ctx, ge *GuardEngine) {
	const rule = "auth-guard"
	gs, ok := ge.EntryGuards(VT)
	if !ok {
		c.Undecided(rule, "v1-foundation:signed", VT, "entry does not resolve")
		return
	}
	fctx := compileAll(pats("%CH% >= %NET%.HardforkFoundation.Height", "call bytes.HasPrefix(%T1%.ArbitraryData[*], global types.SpecifierFoundation) is true"))
	prefix := fctx[1]
	keyRe := regexp.MustCompile(pat("call (types.UnlockConditions).UnlockHash(%T1%.SiacoinInputs[*].UnlockConditions) == %ST%.Foundation") + "__")
	keyRe = regexp.MustCompile(strings.TrimSuffix(strings.TrimSuffix(keyRe.String(), "__"), "$") + `(Subsidy|Management)Address$`)
	parentRe := []*regexp.Regexp{regexp.MustCompile(pat("%T1%.Signatures[*].ParentID == %T1%.SiacoinInputs[*].ParentID")), regexp.MustCompile(pat("%T1%.SiacoinInputs[*].ParentID == %T1%.Signatures[*].ParentID"))}
	wholeRe := regexp.MustCompile(pat("%T1%.Signatures[*].CoveredFields.WholeTransaction is true"))
	var cands []Guard
	var altsOf [][]conj
	for _, g := range gs {
		if g.Weak {
			continue
		}
		under := false
		for _, d := range g.Ctx {
			if prefix.MatchString(d) {
				under = true
			}
		}
		if !under {
			continue
		}
		alts, isFlag := ge.FlagAlternatives(g)
		if !isFlag {
			continue
		}
		cands = append(cands, g)
		altsOf = append(altsOf, alts)
	}
	if len(cands) == 0 {
		c.Fail(rule, "v1-foundation:signed", VT, "no rejecting existence test guards a Foundation address update: a Foundation address update must be signed (whole transaction) by a current Foundation key")
		return
	}
	for i, g := range cands {
		where := c.P.Pos(g.Pos)
		why := ge.siteProblemsOpt(g, fctx, false)
		if len(altsOf[i]) == 0 && why == "" {
			why = "the tested flag can never be true"
		}
		c.Check(why == "", rule, "v1-foundation:signed", where, ifElse(why == "", fmt.Sprintf("an update is rejected unless the signed-by-a-current-key flag is set (%d way(s) to set it)", len(altsOf[i])), why+" — a Foundation address update must be signed (whole transaction) by a current Foundation key"))
		type need struct {
			id, clause string
			match      func(string) bool
		}
		needs := []need{
			{"v1-foundation:current-key", "the signing input must be controlled by the current subsidy or management address", keyRe.MatchString},
			{"v1-foundation:sig-parent", "the whole-transaction signature must belong to that input", func(s string) bool { return parentRe[0].MatchString(s) || parentRe[1].MatchString(s) }},
			{"v1-foundation:whole-transaction", "the signature must cover the whole transaction", wholeRe.MatchString},
		}
		for _, n := range needs {
			bad := ""
			for _, alt := range altsOf[i] {
				found := false
				for _, a := range alt {
					if n.match(a.String()) {
						found = true
					}
				}
				if !found {
					bad = alt.key()
					break
				}
			}
			c.Check(bad == "", rule, n.id, where, ifElse(bad == "", "every way of setting the flag requires it", "the flag can be set when only ["+bad+"] holds — "+n.clause))
		}
	}
}

// TryReq decides a requirement without recording it.
func (ge *GuardEngine) TryReq(c *Ctx, r GuardReq, guards []Guard) (bool, Obligation) {
	tmp := &Ctx{P: c.P, Prop: c.Prop, Depth: c.Depth, mins: map[string]int{}, funcs: map[string]bool{}, extra: map[string]any{}}
	ge.CheckReq(tmp, "tmp", r, guards)
	if len(tmp.obs) == 0 {
		return false, Obligation{}
	}
	return tmp.obs[0].Status == "discharged", tmp.obs[0]
}

// c03AllSupplied: at the end of signature validation no parent may still need signatures. Either every entry
// of the signature map is examined (range over the map), or the entry of every parent kind that has one is
// looked up — the kinds being exactly those for which an entry is made (rule sigmap-entry).
func c03AllSupplied(c *Ctx, ge *GuardEngine) {
	const clause = "dropping a required signature makes the transaction invalid"
	gs, ok := ge.EntryGuards(VT)
	if !ok {
		c.Undecided("auth-guard", "v1-sig-all-supplied", VT, "entry does not resolve")
		return
	}
	whole := req("v1-sig-all-supplied", VT, "make[*].need", opGT, "const:0", clause)
	if ok, ob := ge.TryReq(c, whole, gs); ok {
		c.OK("auth-guard", "v1-sig-all-supplied", ob.Where, ob.Detail)
		return
	}
	// the whole map where there are signatures, and each parent's required count where there are none
	withSigs := req("v1-sig-all-supplied", VT, "make[*].need", opGT, "const:0", clause, "len(%T1%.Signatures) != const:0")
	if ok, ob := ge.TryReq(c, withSigs, gs); ok {
		n0 := 0
		for _, f := range []string{"SiacoinInputs", "SiafundInputs", "FileContractRevisions"} {
			r := req("v1-sig-all-supplied:"+f, VT, "%T1%."+f+"[*].UnlockConditions.SignaturesRequired", opGT, "const:0", clause, "len(%T1%.Signatures) == const:0")
			if ok2, _ := ge.TryReq(c, r, gs); ok2 {
				n0++
			}
		}
		if n0 == 3 {
			c.OK("auth-guard", "v1-sig-all-supplied", ob.Where, "with signatures: every entry of the signature map must have none outstanding; without signatures: no parent of any kind may require one  ["+clause+"]")
			return
		}
	}
	var missing []string
	where, n := "", 0
	for _, f := range []string{"SiacoinInputs", "SiafundInputs", "FileContractRevisions"} {
		r := req("v1-sig-all-supplied:"+f, VT, "make[%T1%."+f+"[*].ParentID].need", opGT, "const:0", clause)
		// where the transaction carries no signatures at all, the outstanding count of a parent is the count its
		// conditions require (a fast path may test that directly; the other case must still consult the map)
		needRe := regexp.MustCompile(pat("make[%T1%." + f + "[*].ParentID].need"))
		reqRe := regexp.MustCompile(pat("%T1%." + f + "[*].UnlockConditions.SignaturesRequired"))
		r.LFn = func(a string) bool { return needRe.MatchString(a) || reqRe.MatchString(a) }
		if ok, ob := ge.TryReq(c, r, gs); ok {
			n++
			where = ob.Where
		} else {
			missing = append(missing, f+" ("+short(ob.Detail)+")")
		}
	}
	okAll := n == 3
	c.Check(okAll, "auth-guard", "v1-sig-all-supplied", ifElse(where != "", where, VT), ifElse(okAll, "the entry of every parent kind that has one (siacoin inputs, siafund inputs, contract revisions) must have no signatures outstanding  ["+clause+"]", "neither the whole signature map nor the entry of every parent kind is checked for outstanding signatures; not covered: "+strings.Join(missing, "; ")+" — "+clause))
}

// c03SiafundUnlock: a v1 siafund input is accepted iff the revealed conditions hash to the parent's address, or
// (developer-address hardfork) the child height has reached the hardfork height AND the parent is held by the old
// developer address AND the conditions hash to the new developer address. Decided as a decision table over the
// four atomic comparisons (dtable.go), so one compound if, a chain of ifs, a flag local or an address selected
// into a local and compared by a helper are all the same rule.
func c03SiafundUnlock(c *Ctx, ge *GuardEngine) {
	const rule = "auth-guard"
	fn := c.P.Func("consensus.validateSiafunds")
	if fn == nil {
		c.Undecided(rule, "v1-unlock-hash:SiafundInputs", "", "consensus.validateSiafunds does not resolve")
		return
	}
	re := func(p string) *regexp.Regexp { return regexp.MustCompile(pat(p)) }
	uh := "call (types.UnlockConditions).UnlockHash(%T1%.SiafundInputs[*].UnlockConditions)"
	parent := "call (consensus.MidState).siafundElement(%MS%, {consensus.V1TransactionSupplement}, %T1%.SiafundInputs[*].ParentID)#0.SiafundOutput.Address"
	atoms := []dtAtom{
		{"Hge", re("%CH%"), re("%NET%.HardforkDevAddr.Height"), true},
		{"Old", re(parent), re("%NET%.HardforkDevAddr.OldAddress"), false},
		{"New", re(uh), re("%NET%.HardforkDevAddr.NewAddress"), false},
		{"Par", re(uh), re(parent), false},
	}
	table, used, unsup := ge.DecisionTable(fn, atoms, []string{"SiafundInputs"})
	where := c.P.Pos(fn.Pos())
	if len(unsup) > 0 {
		c.Undecided(rule, "v1-unlock-hash:SiafundInputs", where, "decision table not computed: "+strings.Join(unsup, "; "))
		return
	}
	var missing []string
	for _, a := range atoms {
		if !used[a.Name] {
			missing = append(missing, a.Name)
		}
	}
	names := map[string]string{"Hge": "v1-devaddr-override:height", "Old": "v1-devaddr-override:old", "New": "v1-devaddr-override:new", "Par": "v1-unlock-hash:SiafundInputs"}
	clause := map[string]string{"Hge": "dev-address override applies only from its hardfork height", "Old": "dev-address override applies only to the old developer address", "New": "dev-address override requires the new developer address's conditions", "Par": "revealed unlock conditions must hash to the address committed in the parent"}
	// per atom: every assignment in which flipping that atom flips the specified verdict must be decided as specified
	spec := func(a map[string]bool) bool { return a["Par"] || (a["Hge"] && a["Old"] && a["New"]) }
	for _, at := range atoms {
		var bad []string
		if !used[at.Name] {
			bad = append(bad, "the comparison is never evaluated")
		}
		for key, outs := range table {
			asg := map[string]bool{}
			for _, kv := range strings.Split(key, ",") {
				p := strings.SplitN(kv, "=", 2)
				asg[p[0]] = p[1] == "1"
			}
			flipped := map[string]bool{}
			for k, v := range asg {
				flipped[k] = v
			}
			flipped[at.Name] = !asg[at.Name]
			if spec(asg) == spec(flipped) {
				continue // this atom does not matter here
			}
			if spec(asg) && !outs["accept"] {
				bad = append(bad, key+": must be accepted but every path rejects")
			}
			if !spec(asg) && outs["accept"] {
				bad = append(bad, key+": must be rejected but some path accepts")
			}
		}
		sort.Strings(bad)
		if len(bad) > 2 {
			bad = append(bad[:2], fmt.Sprintf("… (%d assignments)", len(bad)))
		}
		c.Check(len(bad) == 0, rule, names[at.Name], where, ifElse(len(bad) == 0, "decided as the property states on all 16 assignments of (height reached, parent is old address, conditions hash to new address, conditions hash to parent address)  ["+clause[at.Name]+"]", strings.Join(bad, " | ")+" — "+clause[at.Name]))
	}
	_ = missing
}
