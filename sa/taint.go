package main

// E5: panic sinks reachable from untrusted-input entry points (decoders, unmarshallers, parsers,
// validators) and their discharge by dominating bound checks. A sink is an operation the Go runtime
// (or the code itself) turns into a panic or an unbounded allocation when its operand is out of
// range: indexing, slicing, make with a computed size, fixed-size hex decoding, integer division,
// explicit panic, unchecked type assertion. Every sink whose operand is not trivially in range must
// be dominated by a comparison of that operand (same provenance atom) with a suitable bound, taken
// on the side where the bound holds.

import (
	"fmt"
	"go/constant"
	"go/token"
	"go/types"
	"regexp"
	"sort"
	"strings"

	"golang.org/x/tools/go/ssa"
)

type Cond struct {
	L, Op, R string
	Blk      *ssa.BasicBlock // the block whose branch established the condition (nil for derived facts)
	Loop     bool
	Need     []string // derived facts: conditions of the callee's guard that must hold for the fact to hold
}

func (c Cond) String() string {
	if c.Op == "true" || c.Op == "false" {
		return c.L + " is " + c.Op
	}
	return c.L + " " + c.Op + " " + c.R
}

type Sink struct {
	Fn          *ssa.Function
	Pos         token.Pos
	Kind        string // index | slice-low | slice-high | make | hex-decode | div | panic | type-assert | loop-bound
	Operand     string // atom of the operand that must be bounded
	Base        string // atom of the indexed / sliced object ("" when not applicable)
	BaseLen     int64  // static length for arrays, -1 otherwise
	Conds       []Cond // conditions that hold when the sink executes (whole call chain)
	Chain       []string
	Expr        string                   // stable fingerprint for known findings
	Terms       []string                 // checked-arith: the leaf terms (affine atoms) of all operands
	BoundedCall bool                     // the operand is a call of a module function whose every return is bounded by BaseLen
	Instr       ssa.Instruction          // the indexing / slicing instruction (for the linear fallback)
	ShrinkBody  map[*ssa.BasicBlock]bool // the base is re-sliced around a loop (s = s[1:]): that loop's blocks; only conditions established inside it speak about the current length
}

// domConds lists every branch condition that holds on entry to block b (dominating conditional
// edges), including the passing side of rejecting guards and loop tests.
func (ge *GuardEngine) domConds(fi *fnInfo, b *ssa.BasicBlock, env *Env) []Cond {
	var out []Cond
	for cur := b; cur != nil; cur = cur.Idom() {
		d := cur.Idom()
		if d == nil || len(d.Instrs) == 0 {
			break
		}
		ifi, ok := d.Instrs[len(d.Instrs)-1].(*ssa.If)
		if !ok {
			continue
		}
		edge := -1
		if edgeDominates(d, 0, cur) {
			edge = 0
		} else if edgeDominates(d, 1, cur) {
			edge = 1
		}
		if edge < 0 {
			continue
		}
		saved := ge.pv.loadCtx
		ge.pv.loadCtx = []ssa.Instruction{ifi}
		conds := ge.condList(ifi.Cond, env, edge == 0)
		// a module predicate / validator that passed: the negations of its unconditional rejecting guards hold
		if call := propagatingCall(ifi.Cond); call != nil && ge.factDepth < 2 {
			if callee := ge.calleeOf(&call.Call); callee != nil && ge.p.InModule(callee) && !isCoderPrimitive(callee) {
				passed := false
				switch fnKind(callee) {
				case "error":
					passed = len(conds) == 1 && conds[0].Op == "==" && conds[0].R == "nil"
				case "bool":
					passed = len(conds) == 1 && conds[0].Op == "true"
				}
				if passed {
					ge.factDepth++
					for _, g := range ge.Guards(callee, ge.calleeEnv(callee, &call.Call, env), nil, nil, 0, map[*ssa.Function]int{}) {
						if g.Weak {
							continue
						}
						conds = append(conds, Cond{L: g.L, Op: negOp[g.Op], R: g.R, Need: g.Ctx})
					}
					ge.factDepth--
				}
			}
		}
		ge.pv.loadCtx = saved
		for i := range conds {
			conds[i].Loop = fi.isLoopTest(d)
			conds[i].Blk = d
		}
		out = append(out, conds...)
	}
	return out
}

// condList decomposes a condition known to be true (want=true) or false into atomic comparisons.
func (ge *GuardEngine) condList(v ssa.Value, env *Env, want bool) []Cond {
	l, op, r := ge.decompose(v, env)
	if !want {
		op = negOp[op]
	}
	return []Cond{{L: l, Op: op, R: r}}
}

var safeIntrinsics = regexp.MustCompile(`^call math/bits\.(Len64|Len|OnesCount64|TrailingZeros64|LeadingZeros64)\(`)

// Sinks walks fn and its module callees (parameters substituted) collecting panic sinks.
func (ge *GuardEngine) Sinks(fn *ssa.Function, env *Env, conds []Cond, chain []string, depth int, seen map[*ssa.Function]int) []Sink {
	if fn == nil || len(fn.Blocks) == 0 || depth > ge.Depth || seen[fn] > 0 {
		return nil
	}
	seen[fn]++
	defer func() { seen[fn]-- }()
	fi := ge.info(fn)
	chain = append(append([]string{}, chain...), FuncName(fn))
	var out []Sink
	// X = make([]T, len(Y)): from there on len(X) == len(Y) (as long as the store dominates the use)
	type makeFact struct {
		blk *ssa.BasicBlock
		c   Cond
	}
	var makeFacts []makeFact
	for _, mb := range fn.Blocks {
		for _, in := range mb.Instrs {
			st, ok := in.(*ssa.Store)
			if !ok {
				continue
			}
			mk, ok := st.Val.(*ssa.MakeSlice)
			if !ok {
				continue
			}
			lc, ok := mk.Len.(*ssa.Call)
			if !ok {
				continue
			}
			if bi, isB := lc.Call.Value.(*ssa.Builtin); !isB || bi.Name() != "len" || len(lc.Call.Args) != 1 {
				continue
			}
			ge.pv.loadCtx = []ssa.Instruction{st}
			fa, isFA := st.Addr.(*ssa.FieldAddr)
			if !isFA {
				ge.pv.loadCtx = nil
				continue
			}
			x, y := ge.pv.addrAtom(fa, env), ge.pv.Atom(lc.Call.Args[0], env)
			ge.pv.loadCtx = nil
			if x == "" || y == "" || strings.Contains(x, "zero") {
				continue
			}
			makeFacts = append(makeFacts, makeFact{mb, Cond{L: "len(" + x + ")", Op: "==", R: "len(" + y + ")", Blk: mb}})
		}
	}
	add := func(in ssa.Instruction, b *ssa.BasicBlock, kind, operand, base string, baseLen int64, expr string) {
		cs := append(append([]Cond{}, conds...), ge.domConds(fi, b, env)...)
		for _, mf := range makeFacts {
			if mf.blk != b && mf.blk.Dominates(b) {
				cs = append(cs, mf.c)
			}
		}
		out = append(out, Sink{Fn: fn, Pos: in.Pos(), Kind: kind, Operand: operand, Base: base, BaseLen: baseLen, Conds: cs, Chain: chain, Expr: expr, Instr: in})
	}
	arrLen := func(t types.Type) int64 {
		if pt, ok := t.Underlying().(*types.Pointer); ok {
			t = pt.Elem()
		}
		if at, ok := t.Underlying().(*types.Array); ok {
			return at.Len()
		}
		return -1
	}
	// staticLen: the length of a slice value when it is fixed by construction
	var staticLen func(v ssa.Value, depth int) int64
	staticLen = func(v ssa.Value, depth int) int64 {
		if depth > 6 {
			return -1
		}
		if n := arrLen(v.Type()); n >= 0 {
			return n
		}
		switch x := v.(type) {
		case *ssa.MakeSlice:
			if k, ok := x.Len.(*ssa.Const); ok && k.Value != nil {
				if n, ok := constant.Int64Val(k.Value); ok {
					return n
				}
			}
		case *ssa.Slice:
			lo := int64(0)
			if x.Low != nil {
				k, ok := x.Low.(*ssa.Const)
				if !ok || k.Value == nil {
					return -1
				}
				lo, _ = constant.Int64Val(k.Value)
			}
			if x.High != nil {
				k, ok := x.High.(*ssa.Const)
				if !ok || k.Value == nil {
					return -1
				}
				hi, _ := constant.Int64Val(k.Value)
				return hi - lo
			}
			if n := staticLen(x.X, depth+1); n >= 0 {
				return n - lo
			}
		case *ssa.UnOp:
			if x.Op == token.MUL {
				if al, ok := ge.pv.resolve(x.X).(*ssa.Alloc); ok {
					whole, _ := ge.pv.storesTo(al, -1)
					if len(whole) == 1 {
						return staticLen(whole[0], depth+1)
					}
				}
			}
		case *ssa.Convert:
			if k, ok := x.X.(*ssa.Const); ok && k.Value != nil && k.Value.Kind() == constant.String {
				return int64(len(constant.StringVal(k.Value)))
			}
		}
		return -1
	}
	for _, b := range fn.Blocks {
		for _, in := range b.Instrs {
			ge.pv.loadCtx = []ssa.Instruction{in}
			switch x := in.(type) {
			case *ssa.IndexAddr:
				n0 := len(out)
				appendIndexSink(ge, add, x, b, x.X, x.Index, env, staticLen(x.X, 0))
				if len(out) > n0 {
					out[len(out)-1].ShrinkBody = shrinkLoopOf(ge, fn, x.X)
				}
			case *ssa.Index:
				n0 := len(out)
				appendIndexSink(ge, add, x, b, x.X, x.Index, env, staticLen(x.X, 0))
				if len(out) > n0 {
					out[len(out)-1].ShrinkBody = shrinkLoopOf(ge, fn, x.X)
				}
			case *ssa.Slice:
				base := ge.pv.Atom(x.X, env)
				bl := staticLen(x.X, 0)
				if x.High != nil {
					if !isConstVal(x.High) || bl < 0 {
						add(x, b, "slice-high", ge.pv.Atom(x.High, env), base, bl, "slice-high "+base)
						if call, ok := x.High.(*ssa.Call); ok && bl >= 0 {
							if f := call.Call.StaticCallee(); f != nil && ge.p.InModule(f) && ge.returnsBoundedBy(f, bl) {
								out[len(out)-1].BoundedCall = true
							}
						}
					}
				}
				if x.Low != nil {
					if k, ok := x.Low.(*ssa.Const); !ok || (k.Value != nil && k.Value.ExactString() != "0") {
						add(x, b, "slice-low", ge.pv.Atom(x.Low, env), base, bl, "slice-low "+base)
					}
				}
			case *ssa.MakeSlice:
				if !isConstVal(x.Len) {
					add(x, b, "make", ge.pv.Atom(x.Len, env), "", -1, "make "+typeName(x.Type()))
				} else if x.Cap != nil && !isConstVal(x.Cap) {
					add(x, b, "make", ge.pv.Atom(x.Cap, env), "", -1, "make-cap "+typeName(x.Type()))
				}
			case *ssa.BinOp:
				if (x.Op == token.QUO || x.Op == token.REM) && !isConstVal(x.Y) {
					if bt, ok := x.Y.Type().Underlying().(*types.Basic); ok && bt.Info()&types.IsInteger != 0 {
						if c, ok := x.Y.(*ssa.Call); ok {
							if f := c.Call.StaticCallee(); f != nil && ge.p.InModule(f) && nonZeroConstFunc(f) {
								continue // divisor is a module function that only returns non-zero constants
							}
						}
						add(x, b, "div", ge.pv.Atom(x.Y, env), "", -1, "div "+ge.pv.Atom(x.Y, env))
					}
				}
			case *ssa.Panic:
				if ge.exhaustiveDefault(b) {
					continue // default of a type switch that handles every implementer of a closed sum type
				}
				add(x, b, "panic", ge.pv.Atom(x.X, env), "", -1, "panic "+ge.pv.Atom(x.X, env))
			case *ssa.TypeAssert:
				if !x.CommaOk {
					if c, ok := x.X.(*ssa.Call); ok {
						if f := c.Call.StaticCallee(); f != nil && f.String() == "(*sync.Pool).Get" {
							continue // homogeneous pool (its New function is the only producer)
						}
					}
					if _, isIface := x.AssertedType.Underlying().(*types.Interface); !isIface {
						add(x, b, "type-assert", ge.pv.Atom(x.X, env), "", -1, "assert "+typeName(x.AssertedType))
					}
				}
			case *ssa.Call:
				if f := x.Call.StaticCallee(); f != nil {
					switch f.String() {
					case "math/bits.Div64", "math/bits.Rem64", "math/bits.Div32", "math/bits.Rem32", "math/bits.Div", "math/bits.Rem":
						// panic on a zero divisor (the quotient-overflow precondition hi < y is a loop invariant, not decided)
						if len(x.Call.Args) == 3 && !isConstVal(x.Call.Args[2]) {
							add(x, b, "div", ge.pv.Atom(x.Call.Args[2], env), "", -1, "div "+ge.pv.Atom(x.Call.Args[2], env))
						}
					case "encoding/hex.Decode":
						if len(x.Call.Args) == 2 {
							dst := x.Call.Args[0]
							if sl, ok := dst.(*ssa.Slice); ok && arrLen(sl.X.Type()) >= 0 {
								add(x, b, "hex-decode", ge.pv.Atom(x.Call.Args[1], env), ge.pv.Atom(sl.X, env), arrLen(sl.X.Type()), "hex.Decode into fixed array")
							}
						}
					}
					if strings.HasSuffix(f.Name(), "Grow") && len(x.Call.Args) == 2 && !isConstVal(x.Call.Args[1]) {
						add(x, b, "make", ge.pv.Atom(x.Call.Args[1], env), "", -1, "Grow")
					}
				}
				callee := ge.calleeOf(&x.Call)
				if callee != nil && isCheckedArith(callee) {
					for i, a := range x.Call.Args {
						_ = i
						_ = a
					}
					var ops []string
					terms := map[string]bool{}
					for _, a := range x.Call.Args {
						ops = append(ops, ge.pv.Atom(a, env))
						if typeName(a.Type()) == "types.Currency" {
							for t := range ge.AffineOf(a, env) {
								terms[strings.TrimPrefix(t, "cond:")] = true
							}
							ge.pv.loadCtx = []ssa.Instruction{in}
						}
					}
					add(x, b, "checked-arith", strings.Join(ops, " ⊕ "), "", -1, callee.Name()+" "+strings.Join(ops, " ⊕ "))
					out[len(out)-1].Terms = sortedKeys(terms)
					continue
				}
				if callee != nil && ge.p.InModule(callee) && !isCoderPrimitive(callee) {
					cs := append(append([]Cond{}, conds...), ge.domConds(fi, b, env)...)
					out = append(out, ge.Sinks(callee, ge.calleeEnv(callee, &x.Call, env), cs, chain, depth+1, seen)...)
				} else if callee == nil {
					for _, f := range ge.calleesOf(&x.Call) {
						if ge.p.InModule(f) && !isCoderPrimitive(f) {
							cs := append(append([]Cond{}, conds...), ge.domConds(fi, b, env)...)
							out = append(out, ge.Sinks(f, ge.calleeEnv(f, &x.Call, env), cs, chain, depth+1, seen)...)
						}
					}
				}
			}
		}
	}
	return out
}

func isConstVal(v ssa.Value) bool {
	_, ok := v.(*ssa.Const)
	return ok
}

// shrinkLoopOf: base is (a reslice of) a loop-header phi one of whose back-edge values reslices the phi itself:
// the blocks of that loop.
func shrinkLoopOf(ge *GuardEngine, fn *ssa.Function, base ssa.Value) map[*ssa.BasicBlock]bool {
	for depth := 0; depth < 4; depth++ {
		switch x := base.(type) {
		case *ssa.Slice:
			base = x.X
			continue
		case *ssa.Phi:
			hdr := x.Block()
			for i, e := range x.Edges {
				if !hdr.Dominates(hdr.Preds[i]) {
					continue // not a back edge
				}
				v := e
				for d := 0; d < 4; d++ {
					if sl, ok := v.(*ssa.Slice); ok {
						if sl.X == ssa.Value(x) {
							return ge.info(fn).loopBody[hdr]
						}
						v = sl.X
						continue
					}
					if ph, ok := v.(*ssa.Phi); ok && ph != x {
						for _, e2 := range ph.Edges {
							if sl, ok := e2.(*ssa.Slice); ok && sl.X == ssa.Value(x) {
								return ge.info(fn).loopBody[hdr]
							}
						}
					}
					break
				}
			}
		}
		break
	}
	return nil
}

func appendIndexSink(ge *GuardEngine, add func(ssa.Instruction, *ssa.BasicBlock, string, string, string, int64, string), in ssa.Instruction, b *ssa.BasicBlock, base, idx ssa.Value, env *Env, bl int64) {
	if k, ok := idx.(*ssa.Const); ok && k.Value != nil && bl >= 0 {
		if v, ok := constant.Int64Val(k.Value); ok && v >= 0 && v < bl {
			return // constant index into a fixed-size object, in range
		}
	}
	if _, isMap := base.Type().Underlying().(*types.Map); isMap {
		return
	}
	ba := ge.pv.Atom(base, env)
	add(in, b, "index", ge.pv.indexAtom(idx, env), ba, bl, "index "+ba)
}

// ---- discharge ----

// searchCall: "call bytes.IndexByte(x, c)" possibly wrapped as "(… + const:1)".
func searchCall(op string) string {
	if strings.HasPrefix(op, "(") && strings.HasSuffix(op, " + const:1)") {
		op = strings.TrimSuffix(strings.TrimPrefix(op, "("), " + const:1)")
	}
	if searchRe.MatchString(op) {
		return op
	}
	return ""
}

var searchRe = regexp.MustCompile(`^\(?(call (?:bytes|strings)\.(?:Index|LastIndex)\w*\(.*\))(?: \+ const:1\))?$`)
var modRe = regexp.MustCompile(`% const:(\d+)\)$`)
var lenSumRe = regexp.MustCompile(`^\(*len\([^()]*\)( \+ len\([^()]*\)\)*)*$`)
var constRe = regexp.MustCompile(`^const:(-?\d+)$`)

func constOf(a string) (int64, bool) {
	m := constRe.FindStringSubmatch(a)
	if m == nil {
		return 0, false
	}
	var v int64
	_, err := fmt.Sscanf(m[1], "%d", &v)
	return v, err == nil
}

// normCond orients a condition so that the operand is on the left: returns (op, other) with
// "operand op other" holding, ok=false if the condition does not mention the operand as one side.
func orient(c Cond, operand string) (string, string, bool) {
	if c.L == operand {
		return c.Op, c.R, true
	}
	if c.R == operand {
		return flipOp[c.Op], c.L, true
	}
	return "", "", false
}

// Discharged decides whether the sink cannot fire given the conditions that hold at it.
func (s Sink) Discharged() (bool, string) {
	// derived facts are usable only when the conditions they were established under hold here
	have := map[string]bool{}
	for _, c := range s.Conds {
		if len(c.Need) == 0 {
			have[c.String()] = true
		}
	}
	var usable []Cond
	for _, c := range s.Conds {
		ok := true
		for _, n := range c.Need {
			if !have[n] && !strings.HasPrefix(n, "ok:") {
				ok = false
			}
		}
		if ok {
			usable = append(usable, c)
		}
	}
	s.Conds = usable
	if s.ShrinkBody != nil {
		// the base shrinks around a loop: what was known about its length before the loop says nothing now
		var cur []Cond
		for _, c := range s.Conds {
			if c.Blk != nil && !s.ShrinkBody[c.Blk] && (strings.Contains(c.L, "len("+s.Base) || strings.Contains(c.R, "len("+s.Base)) {
				continue
			}
			cur = append(cur, c)
		}
		s.Conds = cur
	}
	op := s.Operand
	lenBase := "len(" + s.Base + ")"
	switch s.Kind {
	case "index":
		// the result of a standard search over the base is either -1 or a valid index of it:
		// only the sign has to be established
		for _, f := range []string{"slices.Index", "slices.IndexFunc", "bytes.IndexByte", "bytes.Index", "strings.Index", "strings.IndexByte"} {
			if strings.HasPrefix(op, "call "+f) && strings.Contains(op, "("+s.Base+",") {
				for _, c := range s.Conds {
					nonNeg := (c.Op == ">=" && c.R == "const:0") || (c.Op == ">" && c.R == "const:-1") || (c.Op == "!=" && c.R == "const:-1")
					if c.L == op && nonNeg {
						return true, "index returned by " + f + " over the same slice and checked non-negative"
					}
				}
			}
		}
		if op == "*" || op == "idx" || strings.HasPrefix(op, "*from") {
			// range/induction index: needs a loop test against the base's length (or the loop ranges the base itself)
			for _, c := range s.Conds {
				if c.Loop && (strings.Contains(c.R, lenBase) || strings.Contains(c.L, lenBase)) {
					return true, "loop index bounded by " + lenBase
				}
			}
			// the loop ranges another slice whose length was checked equal to the base's
			for _, c := range s.Conds {
				if !c.Loop || !strings.HasPrefix(c.R, "len(") {
					continue
				}
				for _, e := range s.Conds {
					if e.Op == "==" && ((e.L == lenBase && e.R == c.R) || (e.R == lenBase && e.L == c.R)) {
						return true, "loop ranges a slice of equal length: " + e.String()
					}
				}
			}
			// parallel slices / arrays: loop bounded by a constant not above the array length
			for _, c := range s.Conds {
				if c.Loop {
					if k, ok := constOf(c.R); ok && s.BaseLen >= 0 && k <= s.BaseLen && (c.Op == "<") {
						return true, "loop index bounded by constant within the array"
					}
				}
			}
			if s.BaseLen >= 0 {
				for _, c := range s.Conds {
					if c.Loop && strings.HasPrefix(c.R, "len(") {
						// ranging over a slice of the same array (x[:n]) keeps the index within the array
						if strings.Contains(c.R, s.Base) {
							return true, "loop ranges a slice of the array"
						}
					}
				}
			}
		}
		// a passed bit test "(x & (1 << h)) != 0" bounds h by the width of x (at most 64): enough for an array of
		// 64 or more elements (the accumulator's Trees)
		if s.BaseLen >= 64 {
			for _, c := range s.Conds {
				opName := op
				if op == "*" || strings.HasPrefix(op, "*from") {
					opName = "idx" // the loop index under its name in conditions
				}
				if c.Op == "!=" && c.R == "const:0" && strings.HasPrefix(c.L, "(") && (strings.HasSuffix(c.L, " & (const:1 << "+op+"))") || strings.HasSuffix(c.L, " & (const:1 << "+opName+"))")) {
					return true, "index bounded by a passed bit test: " + c.String()
				}
			}
		}
		if k, ok := constOf("const:" + op); ok {
			if k == 0 { // X <= len(base) and X != 0 imply len(base) >= 1
				for _, c1 := range s.Conds {
					if (c1.Op == "<=" && c1.R == lenBase) || (c1.Op == ">=" && c1.L == lenBase) {
						x := c1.L
						if c1.Op == ">=" {
							x = c1.R
						}
						for _, c2 := range s.Conds {
							if c2.L == x && c2.Op == "!=" && c2.R == "const:0" {
								return true, "non-zero count not above the length"
							}
						}
					}
				}
			}
			// constant index into a slice: needs len(base) > k
			for _, c := range s.Conds {
				o, other, ok2 := orient(c, lenBase)
				if !ok2 {
					continue
				}
				if kk, isK := constOf(other); isK {
					if (o == ">" && kk >= k) || (o == ">=" && kk > k) || (o == "!=" && kk == 0 && k == 0) || (o == "==" && kk > k) {
						return true, "length checked: " + c.String()
					}
				}
			}
		}
		for _, c := range s.Conds {
			o, other, ok := orient(c, op)
			if !ok {
				continue
			}
			if (o == "<") && (other == lenBase || strings.HasPrefix(other, lenBase)) {
				return true, "bounded: " + c.String()
			}
			if k, isK := constOf(other); isK && s.BaseLen >= 0 {
				if (o == "<" && k <= s.BaseLen) || (o == "<=" && k < s.BaseLen) {
					return true, "bounded by constant within the array: " + c.String()
				}
			}
			if o == "==" {
				return true, "fixed: " + c.String()
			}
		}
		// typed bound: uint8 index into an array of >= 256
		if s.BaseLen >= 256 && strings.Contains(op, "uint8") {
			return true, "uint8 index into 256-slot table"
		}
		if safeIntrinsics.MatchString(op) && s.BaseLen >= 65 {
			return true, "bit-count intrinsic bounded by 64"
		}
	case "slice-high", "slice-low":
		if strings.HasPrefix(op, "len(") || strings.HasPrefix(op, "call copy(") || strings.HasPrefix(op, "call min(") {
			return true, "bound derived from a length"
		}
		if k, ok := constOf(op); ok {
			if s.BaseLen >= 0 && k <= s.BaseLen {
				return true, "constant bound within the fixed-size buffer"
			}
			if k == 1 { // X <= len(base) and X != 0 imply len(base) >= 1
				for _, c1 := range s.Conds {
					if (c1.Op == "<=" && c1.R == lenBase) || (c1.Op == ">=" && c1.L == lenBase) {
						x := c1.L
						if c1.Op == ">=" {
							x = c1.R
						}
						for _, c2 := range s.Conds {
							if c2.L == x && c2.Op == "!=" && c2.R == "const:0" {
								return true, "non-zero count not above the length: " + c1.String() + " && " + c2.String()
							}
						}
					}
				}
			}
			for _, c := range s.Conds {
				o, other, ok2 := orient(c, lenBase)
				if kk, isK := constOf(other); ok2 && isK && ((o == ">" && kk >= k-1) || (o == ">=" && kk >= k) || (o == "==" && kk >= k) || (o == "!=" && kk == 0 && k == 1)) {
					return true, "length checked: " + c.String()
				}
				if c.Op == "true" && strings.HasPrefix(c.L, "call bytes.HasPrefix("+s.Base+",") {
					return true, "prefix of that length is present: " + c.String()
				}
			}
		}
		// index returned by a search in the same object
		if sc := searchCall(op); sc != "" {
			m := []string{"", sc}
			for _, c := range s.Conds {
				if strings.Contains(c.L, m[1]) && (c.Op == ">=" && c.R == "const:0" || c.Op == "!=" && (c.R == "const:-1" || c.R == "const:0") || c.Op == ">" && c.R == "const:-1") {
					return true, "search result checked: " + c.String()
				}
			}
		}
		if s.BoundedCall {
			return true, "bound is a module function every return of which is within the fixed-size object"
		}
		if m := modRe.FindStringSubmatch(op); m != nil && s.BaseLen >= 0 {
			var k int64
			fmt.Sscanf(m[1], "%d", &k)
			if k <= s.BaseLen {
				return true, "remainder modulo a constant within the buffer"
			}
		}
		for _, c := range s.Conds {
			o, other, ok := orient(c, op)
			if !ok {
				continue
			}
			if (o == "<=" || o == "<") && (strings.HasPrefix(other, lenBase) || other == "cap("+s.Base+")") {
				return true, "bounded: " + c.String()
			}
			if k, isK := constOf(other); isK && s.BaseLen >= 0 && ((o == "<=" && k <= s.BaseLen) || (o == "<" && k <= s.BaseLen+1)) {
				return true, "bounded by constant within the array: " + c.String()
			}
		}
		// affine use c - n under n <= c' (v1 currency)
		if m := regexp.MustCompile(`^\(const:(\d+) - (.+)\)$`).FindStringSubmatch(op); m != nil {
			var cst int64
			fmt.Sscanf(m[1], "%d", &cst)
			for _, c := range s.Conds {
				o, other, ok := orient(c, m[2])
				if k, isK := constOf(other); ok && isK && ((o == "<=" && k <= cst) || (o == "<" && k <= cst+1)) {
					return true, "affine bound: " + c.String()
				}
			}
		}
	case "make":
		if strings.HasPrefix(op, "len(") || strings.Contains(op, "uint8") || lenSumRe.MatchString(op) {
			return true, "size derived from lengths / a byte"
		}
		for _, c := range s.Conds {
			o, other, ok := orient(c, op)
			if !ok {
				// the size may be a conversion / arithmetic of the compared value
				if c.L != "" && strings.Contains(op, c.L) && (c.Op == "<=" || c.Op == "<") {
					return true, "size bounded through " + c.String()
				}
				continue
			}
			if o == "<=" || o == "<" || o == "==" {
				_ = other
				return true, "size bounded: " + c.String()
			}
		}
	case "hex-decode":
		// needs len(src) bounded by 2*len(dst)
		for _, c := range s.Conds {
			if strings.Contains(c.L, "len("+s.Operand+")") || strings.Contains(c.R, "len("+s.Operand+")") {
				return true, "source length checked: " + c.String()
			}
		}
	case "div":
		if strings.HasPrefix(op, "const:") {
			return true, "constant divisor"
		}
		if v, ok := evalConstAtom(op); ok && v != 0 {
			return true, "constant divisor (folded)"
		}
		// max(x, K) with K >= 1 is never zero for unsigned or non-negative operands
		if strings.HasPrefix(op, "call max(") {
			for _, a := range callArgs(op) {
				if k, ok := constOf(a); ok && k >= 1 {
					return true, "divisor is max(…, " + a + ")"
				}
			}
		}
		for _, c := range s.Conds {
			o, other, ok := orient(c, op)
			if ok && ((o == "!=" && other == "const:0") || (o == ">" && strings.HasPrefix(other, "const:")) || (o == ">=" && other != "const:0" && strings.HasPrefix(other, "const:"))) {
				return true, "divisor checked: " + c.String()
			}
		}
	}
	return false, ""
}

var closureNumRe = regexp.MustCompile(`\$\d+`)

// sinkKey names a sink by its enclosing function (closures by their parent: closure numbers change whenever a
// sibling closure is added or removed), its kind and the expression fingerprint.
func sinkKey(s Sink) string {
	return closureNumRe.ReplaceAllString(FuncName(s.Fn), "$") + ":" + s.Kind + ":" + s.Expr
}

func sortSinks(ss []Sink) {
	sort.SliceStable(ss, func(i, j int) bool { return sinkKey(ss[i]) < sinkKey(ss[j]) })
}

// isCoderPrimitive: methods of the Encoder/Decoder/Hasher and the hashing kernels are analysed once
// on their own, not re-entered from every caller.
// isCheckedArith: the panicking Currency operations.
func isCheckedArith(fn *ssa.Function) bool {
	if fn.Signature.Recv() == nil || typeName(fn.Signature.Recv().Type()) != "types.Currency" {
		return false
	}
	switch fn.Name() {
	case "Add", "Sub", "Mul", "Mul64", "Div", "Div64":
		return true
	}
	return false
}

func isCoderPrimitive(fn *ssa.Function) bool {
	if fn.Signature.Recv() != nil {
		switch typeName(fn.Signature.Recv().Type()) {
		case "types.Decoder", "types.Encoder", "types.Hasher":
			// the exported methods are the primitives; an unexported helper method (readPrefix) is implementation
			return fn.Object() == nil || fn.Object().Exported()
		}
	}
	if fn.Pkg != nil && strings.HasSuffix(fn.Pkg.Pkg.Path(), "/blake2b") {
		return true
	}
	return false
}

// exhaustiveDefault: block b is reached only after comma-ok assertions of one interface value to
// every implementer of its (closed) interface type have failed.
func (ge *GuardEngine) exhaustiveDefault(b *ssa.BasicBlock) bool {
	failed := map[string]bool{}
	var subject ssa.Value
	for cur := b; cur != nil; cur = cur.Idom() {
		d := cur.Idom()
		if d == nil || len(d.Instrs) == 0 {
			break
		}
		ifi, ok := d.Instrs[len(d.Instrs)-1].(*ssa.If)
		if !ok || !edgeDominates(d, 1, cur) {
			continue
		}
		ex, ok := ifi.Cond.(*ssa.Extract)
		if !ok || ex.Index != 1 {
			continue
		}
		ta, ok := ex.Tuple.(*ssa.TypeAssert)
		if !ok {
			continue
		}
		if subject == nil {
			subject = ta.X
		}
		if ta.X != subject {
			continue
		}
		failed[typeName(ta.AssertedType)] = true
	}
	if subject == nil {
		return false
	}
	iface, ok := subject.Type().Underlying().(*types.Interface)
	if !ok {
		return false
	}
	impls := ge.p.Implementers(iface)
	if len(impls) == 0 {
		return false
	}
	for _, im := range impls {
		if !failed[typeName(im)] {
			return false
		}
	}
	return true
}

// nonZeroConstFunc: every return of fn is a non-zero constant.
func nonZeroConstFunc(fn *ssa.Function) bool {
	rs := returnsOf(fn)
	if len(rs) == 0 {
		return false
	}
	for _, r := range rs {
		if len(r.Results) != 1 {
			return false
		}
		k, ok := r.Results[0].(*ssa.Const)
		if !ok || k.Value == nil || k.Value.ExactString() == "0" {
			return false
		}
	}
	return true
}

// returnsBoundedBy: every return of fn is a constant <= bound or a value v returned under a
// dominating condition v < K (K <= bound) / v <= K (K < bound... K <= bound for slicing).
func (ge *GuardEngine) returnsBoundedBy(fn *ssa.Function, bound int64) bool {
	rs := returnsOf(fn)
	if len(rs) == 0 {
		return false
	}
	fi := ge.info(fn)
	for _, r := range rs {
		if len(r.Results) != 1 {
			return false
		}
		v := r.Results[0]
		if k, ok := v.(*ssa.Const); ok && k.Value != nil {
			if n, ok := constant.Int64Val(k.Value); ok && n >= 0 && n <= bound {
				continue
			}
			return false
		}
		if minBoundedBy(v, bound) {
			continue
		}
		saved := ge.pv.loadCtx
		ge.pv.loadCtx = []ssa.Instruction{r}
		a := ge.pv.Atom(v, nil)
		ge.pv.loadCtx = saved
		ok := false
		for _, c := range ge.domConds(fi, r.Block(), nil) {
			o, other, match := orient(c, a)
			if k, isK := constOf(other); match && isK && ((o == "<" && k <= bound+1) || (o == "<=" && k <= bound)) {
				ok = true
			}
		}
		if !ok {
			return false
		}
	}
	return true
}

// minBoundedBy: v is (a widening or same-width conversion of) the builtin min over unsigned operands one of
// which is a constant <= bound; the result is then within [0, bound].
func minBoundedBy(v ssa.Value, bound int64) bool {
	for {
		cv, ok := v.(*ssa.Convert)
		if !ok {
			break
		}
		from, _ := cv.X.Type().Underlying().(*types.Basic)
		to, _ := cv.Type().Underlying().(*types.Basic)
		if from == nil || to == nil || from.Info()&types.IsInteger == 0 || to.Info()&types.IsInteger == 0 || bound > 127 {
			return false
		}
		v = cv.X
	}
	call, ok := v.(*ssa.Call)
	if !ok {
		return false
	}
	b, ok := call.Call.Value.(*ssa.Builtin)
	if !ok || b.Name() != "min" {
		return false
	}
	bt, _ := call.Type().Underlying().(*types.Basic)
	if bt == nil || bt.Info()&types.IsUnsigned == 0 {
		return false
	}
	for _, a := range call.Call.Args {
		if k, ok := a.(*ssa.Const); ok && k.Value != nil {
			if n, ok := constant.Int64Val(k.Value); ok && n >= 0 && n <= bound {
				return true
			}
		}
	}
	return false
}

// evalConstAtom evaluates an atom built only from integer constants, parentheses and + - * / (as the
// provenance engine renders an unfolded constant expression).
func evalConstAtom(a string) (int64, bool) {
	pos := 0
	var expr func() (int64, bool)
	skip := func() {
		for pos < len(a) && a[pos] == ' ' {
			pos++
		}
	}
	var operand func() (int64, bool)
	operand = func() (int64, bool) {
		skip()
		if pos < len(a) && a[pos] == '(' {
			pos++
			v, ok := expr()
			skip()
			if !ok || pos >= len(a) || a[pos] != ')' {
				return 0, false
			}
			pos++
			return v, true
		}
		if strings.HasPrefix(a[pos:], "const:") {
			pos += len("const:")
			start := pos
			for pos < len(a) && (a[pos] >= '0' && a[pos] <= '9') {
				pos++
			}
			if start == pos {
				return 0, false
			}
			var v int64
			fmt.Sscanf(a[start:pos], "%d", &v)
			return v, true
		}
		return 0, false
	}
	expr = func() (int64, bool) {
		v, ok := operand()
		if !ok {
			return 0, false
		}
		for {
			skip()
			if pos >= len(a) || a[pos] == ')' {
				return v, true
			}
			opc := a[pos]
			if opc != '+' && opc != '-' && opc != '*' && opc != '/' {
				return 0, false
			}
			pos++
			w, ok := operand()
			if !ok {
				return 0, false
			}
			switch opc {
			case '+':
				v += w
			case '-':
				v -= w
			case '*':
				v *= w
			case '/':
				if w == 0 {
					return 0, false
				}
				v /= w
			}
		}
	}
	v, ok := expr()
	skip()
	return v, ok && pos == len(a)
}

// LinearDischarge: an index that the dominating-bound rules could not discharge is in range if the linear forms
// of the index and of the base's length, with the branch facts that hold at the instruction (loop variables are
// symbols: the facts of the current iteration speak about them), entail 0 <= idx < len(base). Only index sinks.
func (ge *GuardEngine) LinearDischarge(s Sink) (bool, string) {
	if s.Instr == nil {
		return false, ""
	}
	if sl, ok := s.Instr.(*ssa.Slice); ok && (s.Kind == "slice-low" || s.Kind == "slice-high") {
		if _, isSlice := sl.X.Type().Underlying().(*types.Slice); !isSlice {
			return false, ""
		}
		bound := sl.Low
		if s.Kind == "slice-high" {
			bound = sl.High
		}
		if bound == nil {
			return false, ""
		}
		// a constant upper bound within the capacity the slice is known to have (appends never shrink capacity)
		if k, isK := constInt(bound); isK && s.Kind == "slice-high" {
			if c, ok := minCap(sl.X, 0); ok && k >= 0 && k <= c {
				return true, "constant bound within the slice's capacity"
			}
		}
		var extra []LinF
		if body := shrinkLoopOf(ge, s.Fn, sl.X); body != nil {
			inv, ok := ge.lockstepInvariant(sl.X)
			if !ok {
				return false, ""
			}
			extra = inv
		}
		res := ge.LinProve(LinGoal{Terms: []LinTerm{{V: sl.X, Len: true, Coef: 1}, {V: bound, Coef: -1}}, At: sl.Block(), Extra: extra})
		if !res.OK {
			return false, ""
		}
		if b, ok := bound.Type().Underlying().(*types.Basic); ok && b.Info()&types.IsUnsigned == 0 {
			if lo := ge.LinProve(LinGoal{Terms: []LinTerm{{V: bound, Coef: 1}}, At: sl.Block(), Extra: extra}); !lo.OK {
				return false, ""
			}
		}
		return true, "linear facts at the reslice entail 0 <= bound <= len"
	}
	if s.Kind != "index" {
		return false, ""
	}
	var base, idx ssa.Value
	switch x := s.Instr.(type) {
	case *ssa.IndexAddr:
		base, idx = x.X, x.Index
	case *ssa.Index:
		base, idx = x.X, x.Index
	default:
		return false, ""
	}
	at := s.Instr.Block()
	var extra []LinF
	if s.ShrinkBody != nil {
		// the base is re-sliced around the loop: facts from before the loop are void, but a counter that shrinks in
		// lock step with it keeps len(base) - counter >= 0 (established before the loop, preserved by every back edge)
		inv, ok := ge.lockstepInvariant(base)
		if !ok {
			return false, ""
		}
		extra = inv
	}
	upper := ge.LinProve(LinGoal{Terms: []LinTerm{{V: base, Len: true, Coef: 1}, {V: idx, Coef: -1}}, K: -1, At: at, Extra: extra})
	if !upper.OK {
		return false, ""
	}
	if b, ok := idx.Type().Underlying().(*types.Basic); ok && b.Info()&types.IsUnsigned != 0 {
		return true, "linear facts at the access entail idx < len"
	}
	lower := ge.LinProve(LinGoal{Terms: []LinTerm{{V: idx, Coef: 1}}, At: at})
	if !lower.OK {
		return false, ""
	}
	return true, "linear facts at the access entail 0 <= idx < len"
}

// lockstepInvariant: base is a loop-header phi S (re-sliced by the loop). Finds integer header phis R of the same
// loop such that every back edge changes len(S) and R by the same amount, and len(S_init) - R_init >= 0 holds where
// the loop is entered. Returns the facts len(S) - R >= 0 (over the loop-variable symbols).
func (ge *GuardEngine) lockstepInvariant(base ssa.Value) ([]LinF, bool) {
	var sphi *ssa.Phi
	for v, d := base, 0; d < 4; d++ {
		switch x := v.(type) {
		case *ssa.Slice:
			v = x.X
			continue
		case *ssa.Phi:
			sphi = x
		}
		break
	}
	if sphi == nil || !isLoopVar(sphi) {
		return nil, false
	}
	hdr := sphi.Block()
	var out []LinF
	for _, in := range hdr.Instrs {
		rphi, ok := in.(*ssa.Phi)
		if !ok {
			break
		}
		if rphi == sphi || !isIntegerType(rphi.Type()) {
			continue
		}
		okAll, entered := true, false
		for i, pr := range hdr.Preds {
			if hdr.Dominates(pr) {
				// back edge: (len(S_e) - len(S)) - (R_e - R) == 0
				res := ge.LinProve(LinGoal{Terms: []LinTerm{{V: sphi.Edges[i], Len: true, Coef: 1}, {V: sphi, Len: true, Coef: -1}, {V: rphi.Edges[i], Coef: -1}, {V: rphi, Coef: 1}}, Eq: true})
				if !res.OK {
					okAll = false
				}
			} else {
				// entry: len(S_init) - R_init >= 0 at the end of the entering block
				res := ge.LinProve(LinGoal{Terms: []LinTerm{{V: sphi.Edges[i], Len: true, Coef: 1}, {V: rphi.Edges[i], Coef: -1}}, At: pr})
				if !res.OK {
					okAll = false
				}
				entered = true
			}
		}
		if okAll && entered {
			f := newLin()
			f.T["len(loopvar:"+sphi.Name()+")"] = 1
			f.T["loopvar:"+rphi.Name()] = -1
			out = append(out, f)
		}
	}
	return out, len(out) > 0
}

// minCap: a lower bound of cap(v) for a slice value built from a make / array with constant capacity through
// appends and constant re-slicing.
func minCap(v ssa.Value, depth int) (int64, bool) {
	if depth > 12 {
		return 0, false
	}
	switch x := v.(type) {
	case *ssa.MakeSlice:
		return constInt(x.Cap)
	case *ssa.Alloc:
		return arrayLen(x.Type())
	case *ssa.Slice:
		lo := int64(0)
		if x.Low != nil {
			l, ok := constInt(x.Low)
			if !ok || l < 0 {
				return 0, false
			}
			lo = l
		}
		if x.Max != nil {
			m, ok := constInt(x.Max)
			if !ok {
				return 0, false
			}
			return m - lo, true
		}
		c, ok := minCap(x.X, depth+1)
		return c - lo, ok
	case *ssa.Call:
		if b, ok := x.Call.Value.(*ssa.Builtin); ok && b.Name() == "append" && len(x.Call.Args) >= 1 {
			return minCap(x.Call.Args[0], depth+1)
		}
		if f := x.Call.StaticCallee(); f != nil && f.Pkg != nil && f.Pkg.Pkg.Path() == "encoding/binary" && strings.HasPrefix(f.Name(), "Append") && len(x.Call.Args) == 3 {
			return minCap(x.Call.Args[1], depth+1)
		}
	}
	return 0, false
}
