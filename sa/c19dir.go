package main

// gateway.Stream moves RPC objects whose interface offers every operation in two directions
// (encodeRequest / decodeRequest / maxRequestLen and the Response counterparts). Each of the four Stream methods
// serves one direction: everything it asks of the object — the length limit handed to the decoder as much as the
// codec method — must be of that direction. A response read under the request's limit is truncated or dropped.
// Decided on the SSA of the methods: interface invocations and bound method values on the Object parameter.

import (
	"strings"

	"golang.org/x/tools/go/ssa"
)

func c19Direction(c *Ctx) {
	const rule = "direction-pairing"
	n := 0
	for _, m := range []struct{ name, dir string }{
		{"WriteRequest", "Request"}, {"ReadRequest", "Request"}, {"WriteResponse", "Response"}, {"ReadResponse", "Response"},
	} {
		fn := c.P.Func("gateway.(*Stream)." + m.name)
		if fn == nil || len(fn.Params) < 2 {
			c.Undecided(rule, m.name, "", "gateway.(*Stream)."+m.name+" does not resolve")
			continue
		}
		c.NoteFunc(FuncName(fn))
		obj := fn.Params[1]
		other := "Response"
		if m.dir == "Response" {
			other = "Request"
		}
		var used []string
		bad := ""
		for _, b := range fn.Blocks {
			for _, in := range b.Instrs {
				name := ""
				switch x := in.(type) {
				case ssa.CallInstruction:
					if cc := x.Common(); cc.IsInvoke() && cc.Value == ssa.Value(obj) {
						name = cc.Method.Name()
					}
				case *ssa.MakeClosure: // r.decodeResponse as a function value
					if f, ok := x.Fn.(*ssa.Function); ok && strings.HasSuffix(f.Name(), "$bound") && len(x.Bindings) == 1 && x.Bindings[0] == ssa.Value(obj) {
						name = strings.TrimSuffix(f.Name(), "$bound")
					}
				}
				if name == "" {
					continue
				}
				used = append(used, name)
				if strings.Contains(name, other) {
					bad = name + " at " + c.P.Pos(in.Pos())
				}
			}
		}
		n++
		okd := bad == "" && len(used) > 0
		c.Check(okd, rule, m.name, c.P.Pos(fn.Pos()), ifElse(okd, "asks the object only for its "+m.dir+" side ("+strings.Join(used, ", ")+")", ifElse(bad != "", m.name+" uses "+bad+": the "+strings.ToLower(m.dir)+" is read or written under the other direction's codec or length limit", m.name+" asks nothing of the object")))
	}
	c.Min(rule, 4)
}
