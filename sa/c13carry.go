package main

// Work is a 256-bit integer kept as four big-endian 64-bit words; add, sub, mul64 and div64 walk the words
// and hand a carry (borrow, high product, remainder) from one word to the next. "Cumulative work never
// decreases", the clamps and the inverse relation all presuppose that the four words form one number: the
// carry that leaves the primitive for word k must be what enters it for word k+1. Decided on the SSA value
// graph, whatever the spelling (loop, unrolled, words read through helpers):
//   add/sub: the carry-in operand of every bits.Add64/Sub64 is 0 for the first word only and otherwise
//            (a loop phi of 0 and) the carry-out of such a call;
//   div64:   likewise for the high-word operand of bits.Div64 and its remainder result;
//   mul64:   the carried value is (a phi of 0 and) a sum that depends on the high half of bits.Mul64 and on the
//            carry-out of the addition that folded the previous carry in.

import (
	"go/constant"
	"strings"

	"golang.org/x/tools/go/ssa"
)

func bitsCallee(v ssa.Value) (string, *ssa.Call) {
	call, ok := v.(*ssa.Call)
	if !ok {
		return "", nil
	}
	fn := call.Call.StaticCallee()
	if fn == nil || fn.Pkg == nil || fn.Pkg.Pkg.Path() != "math/bits" {
		return "", nil
	}
	return fn.Name(), call
}

func isZeroConst(v ssa.Value) bool {
	k, ok := v.(*ssa.Const)
	if !ok || k.Value == nil {
		return false
	}
	if k.Value.Kind() != constant.Int {
		return false
	}
	x, exact := constant.Int64Val(k.Value)
	return exact && x == 0
}

// chainSource classifies a carry operand: "zero", "carry" (result #idx of a call to one of names, possibly
// through phis whose other edges are zero or carries), or a description of what else it is.
func chainSource(v ssa.Value, names map[string]bool, idx int, seen map[*ssa.Phi]bool) (zero, carry bool, other string) {
	switch x := v.(type) {
	case *ssa.Const:
		if isZeroConst(x) {
			return true, false, ""
		}
		return false, false, "constant " + x.String()
	case *ssa.Extract:
		if n, _ := bitsCallee(x.Tuple); names[n] && x.Index == idx {
			return false, true, ""
		}
		return false, false, "result of " + x.Tuple.String()
	case *ssa.Call:
		if n, _ := bitsCallee(x); n == "Rem64" && names[n] { // single result: the remainder itself
			return false, true, ""
		}
	case *ssa.Phi:
		if seen[x] {
			return false, false, ""
		}
		seen[x] = true
		for _, e := range x.Edges {
			z, cy, o := chainSource(e, names, idx, seen)
			zero, carry = zero || z, carry || cy
			if o != "" {
				other = o
			}
		}
		return
	}
	return false, false, v.String()
}

func dependsOn(v ssa.Value, pred func(ssa.Value) bool, depth int, seen map[ssa.Value]bool) bool {
	if v == nil || depth > 12 || seen[v] {
		return false
	}
	seen[v] = true
	if pred(v) {
		return true
	}
	if in, ok := v.(ssa.Instruction); ok {
		for _, op := range in.Operands(nil) {
			if *op != nil && dependsOn(*op, pred, depth+1, seen) {
				return true
			}
		}
	}
	return false
}

func c13CarryChain(c *Ctx) {
	type spec struct {
		fn   string
		prim string // the primitive whose carry operand is examined
		arg  int    // which operand is the carry-in
		out  int    // which result is the carry-out
		what string
	}
	n := 0
	for _, sp := range []spec{
		{"consensus.(Work).add", "Add64", 2, 1, "carry"},
		{"consensus.(Work).sub", "Sub64", 2, 1, "borrow"},
		{"consensus.(Work).div64", "Div64", 0, 1, "remainder"},
	} {
		fn := c.P.Func(sp.fn)
		if fn == nil {
			c.Undecided("work-carry-chain", sp.fn, "", "anchor does not resolve")
			continue
		}
		c.NoteFunc(FuncName(fn))
		names := map[string]bool{sp.prim: true}
		var calls []*ssa.Call
		walkFuncAndHelpers(fn, func(in ssa.Instruction) {
			if v, ok := in.(ssa.Value); ok {
				if nm, call := bitsCallee(v); nm == sp.prim {
					calls = append(calls, call)
				}
			}
		})
		if len(calls) == 0 && usesBig(fn) {
			n++
			c.Check(true, "work-carry-chain", sp.fn, c.P.Pos(fn.Pos()), "delegated to math/big (no word-level carry to hand on)")
			continue
		}
		if len(calls) == 0 {
			c.Undecided("work-carry-chain", sp.fn, c.P.Pos(fn.Pos()), "no bits."+sp.prim+" call found: the word arithmetic is spelled in a way this rule does not read")
			continue
		}
		zeros, bad := 0, ""
		for _, call := range calls {
			z, cy, other := chainSource(call.Call.Args[sp.arg], names, sp.out, map[*ssa.Phi]bool{})
			inLoop := blockInLoop(call.Block())
			switch {
			case other != "":
				bad = "the " + sp.what + " entering bits." + sp.prim + " at " + c.P.Pos(call.Pos()) + " is " + other + ", not the " + sp.what + " of the previous word"
			case !cy && (inLoop || zeros > 0):
				bad = "the " + sp.what + " entering bits." + sp.prim + " at " + c.P.Pos(call.Pos()) + " is always 0: the " + sp.what + " out of one word never reaches the next"
			case !cy:
				zeros++
			case cy && !z && inLoop:
				bad = "the " + sp.what + " chain at " + c.P.Pos(call.Pos()) + " has no zero start"
			}
		}
		n++
		c.Check(bad == "", "work-carry-chain", sp.fn, c.P.Pos(fn.Pos()), ifElse(bad == "", "the "+sp.what+" out of each word enters the next (bits."+sp.prim+")", bad+": the four words no longer form one 256-bit number"))
	}
	// mul64: carried = high(Mul64) + carry-out(Add64(low, carried, 0))
	if fn := c.P.Func("consensus.(Work).mul64"); fn != nil {
		c.NoteFunc(FuncName(fn))
		var adds []*ssa.Call
		walkFuncAndHelpers(fn, func(in ssa.Instruction) {
			if v, ok := in.(ssa.Value); ok {
				if nm, call := bitsCallee(v); nm == "Add64" {
					adds = append(adds, call)
				}
			}
		})
		bad := ""
		if len(adds) == 0 && usesBig(fn) {
			adds = nil
		} else if len(adds) == 0 {
			bad = "no bits.Add64 folds the carried high half into the next word"
		}
		for _, add := range adds {
			// the carried operand: the one that is not the low half of the product
			var carried ssa.Value
			for _, a := range add.Call.Args[:2] {
				if ex, ok := a.(*ssa.Extract); ok {
					if nm, _ := bitsCallee(ex.Tuple); nm == "Mul64" && ex.Index == 1 {
						continue
					}
				}
				carried = a
			}
			if carried == nil {
				continue
			}
			isHi := func(v ssa.Value) bool {
				ex, ok := v.(*ssa.Extract)
				if !ok {
					return false
				}
				nm, _ := bitsCallee(ex.Tuple)
				return nm == "Mul64" && ex.Index == 0
			}
			isCout := func(v ssa.Value) bool {
				ex, ok := v.(*ssa.Extract)
				if !ok {
					return false
				}
				nm, _ := bitsCallee(ex.Tuple)
				return nm == "Add64" && ex.Index == 1
			}
			phi, ok := carried.(*ssa.Phi)
			if !ok {
				if !isZeroConst(carried) || blockInLoop(add.Block()) {
					bad = "the value folded into the product at " + c.P.Pos(add.Pos()) + " is " + carried.String() + ": not carried from the previous word"
				}
				continue
			}
			hasZero, hasChain := false, false
			for _, e := range phi.Edges {
				if isZeroConst(e) {
					hasZero = true
					continue
				}
				if dependsOn(e, isHi, 0, map[ssa.Value]bool{}) && dependsOn(e, isCout, 0, map[ssa.Value]bool{}) {
					hasChain = true
				} else {
					bad = "the value carried to the next word at " + c.P.Pos(add.Pos()) + " (" + e.String() + ") does not combine the high half of the product with the carry of the addition"
				}
			}
			if bad == "" && (!hasZero || !hasChain) {
				bad = "the carried value at " + c.P.Pos(add.Pos()) + " does not start at 0 and continue with high half + carry"
			}
		}
		n++
		c.Check(bad == "", "work-carry-chain", "consensus.(Work).mul64", c.P.Pos(fn.Pos()), ifElse(bad == "", "carried = high half of the word product + carry of folding the previous carried value in", bad))
	} else {
		c.Undecided("work-carry-chain", "consensus.(Work).mul64", "", "anchor does not resolve")
	}
	c.Min("work-carry-chain", 4)
	_ = strings.Contains
}

func blockInLoop(b *ssa.BasicBlock) bool {
	// b is in a loop iff it can reach itself
	seen := map[*ssa.BasicBlock]bool{}
	q := append([]*ssa.BasicBlock{}, b.Succs...)
	for len(q) > 0 {
		x := q[0]
		q = q[1:]
		if x == b {
			return true
		}
		if seen[x] {
			continue
		}
		seen[x] = true
		q = append(q, x.Succs...)
	}
	return false
}

// walkFuncAndHelpers visits the instructions of fn and of its closures.
func walkFuncAndHelpers(fn *ssa.Function, f func(ssa.Instruction)) {
	for _, g := range append([]*ssa.Function{fn}, fn.AnonFuncs...) {
		for _, b := range g.Blocks {
			for _, in := range b.Instrs {
				f(in)
			}
		}
	}
}

func usesBig(fn *ssa.Function) bool {
	found := false
	walkFuncAndHelpers(fn, func(in ssa.Instruction) {
		if call, ok := in.(ssa.CallInstruction); ok {
			if f := call.Common().StaticCallee(); f != nil && f.Pkg != nil && f.Pkg.Pkg.Path() == "math/big" {
				found = true
			}
		}
	})
	return found
}

// c07ChallengeReduction: the storage-proof challenge index is the 256-bit seed reduced modulo the leaf count, one
// word at a time: the running remainder is the HIGH word of each step (bits.Div64 / bits.Rem64), starting at zero.
func c07ChallengeReduction(c *Ctx) {
	const rule = "challenge-reduction"
	fn := c.P.Func("consensus.(State).StorageProofLeafIndex")
	if fn == nil {
		c.Undecided(rule, "anchor", "", "(State).StorageProofLeafIndex does not resolve")
		return
	}
	c.NoteFunc(FuncName(fn))
	names := map[string]bool{"Div64": true, "Rem64": true}
	var calls []*ssa.Call
	walkFuncAndHelpers(fn, func(in ssa.Instruction) {
		if v, ok := in.(ssa.Value); ok {
			if nm, call := bitsCallee(v); names[nm] {
				calls = append(calls, call)
			}
		}
	})
	if len(calls) == 0 {
		if usesBig(fn) {
			c.Check(true, rule, "StorageProofLeafIndex", c.P.Pos(fn.Pos()), "delegated to math/big")
			return
		}
		c.Undecided(rule, "StorageProofLeafIndex", c.P.Pos(fn.Pos()), "no bits.Div64/Rem64 step found: the reduction is spelled in a way this rule does not read")
		return
	}
	bad := ""
	for _, call := range calls {
		z, cy, other := chainSource(call.Call.Args[0], names, 1, map[*ssa.Phi]bool{})
		switch {
		case other != "":
			bad = "the high word of the step at " + c.P.Pos(call.Pos()) + " is " + other + ", not the running remainder"
		case !cy && blockInLoop(call.Block()):
			bad = "the high word of the step at " + c.P.Pos(call.Pos()) + " is always 0: the remainder of one word never reaches the next"
		case cy && !z:
			bad = "the running remainder at " + c.P.Pos(call.Pos()) + " has no zero start"
		}
		// the divisor is the leaf count, never the running remainder or a seed word
		if dependsOn(call.Call.Args[2], func(v ssa.Value) bool { n, _ := bitsCallee(v); return names[n] }, 0, map[ssa.Value]bool{}) {
			bad = "the divisor of the step at " + c.P.Pos(call.Pos()) + " depends on an earlier step's result"
		}
	}
	c.Check(bad == "", rule, "StorageProofLeafIndex", c.P.Pos(fn.Pos()), ifElse(bad == "", "seed mod leaf count, one word at a time: the running remainder is the high word of every step and starts at zero", bad+": the challenged leaf is no longer H(window ID, contract ID) mod the number of leaves"))
	c.Min(rule, 1)
}
