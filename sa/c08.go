package main

import (
	"strings"

	"golang.org/x/tools/go/ssa"
)

func init() { register("C08", runC08) }

const (
	ctxV2Ephemeral = "%T2%.%ID%[*].Parent.StateElement.LeafIndex …"
)

func c08Table() []GuardReq {
	sce := "call (consensus.MidState).siacoinElement(%MS%, {consensus.V1TransactionSupplement}, %T1%.SiacoinInputs[*].ParentID)#0"
	fceRev := "call (consensus.MidState).fileContractElement(%MS%, {consensus.V1TransactionSupplement}, %T1%.FileContractRevisions[*].ParentID)#0"
	res := "%T2%.FileContractResolutions[*]"
	okSP := "ok:" + res + ".Resolution.(types.V2StorageProof) is true"
	okExp := "ok:" + res + ".Resolution.(types.V2FileContractExpiration) is true"
	okRen := "ok:" + res + ".Resolution.(types.V2FileContractRenewal) is true"
	cur := "phi(%MS%.v2fces[%MS%.elements[%T2%.FileContractRevisions[*].Parent.ID]].Revision.ProofHeight|%T2%.FileContractRevisions[*].Parent.V2FileContract.ProofHeight)"
	return []GuardReq{
		req("v1-output-maturity", VT, sce+".MaturityHeight", opGT, "%CH%", "an output cannot be spent before its maturity height; accepted exactly at it"),
		req("v2-output-maturity", V2T, "%T2%.SiacoinInputs[*].Parent.MaturityHeight", opGT, "%CH%", "an output cannot be spent before its maturity height; accepted exactly at it"),
		req("v1-uc-timelock-siacoin", VT, "%T1%.SiacoinInputs[*].UnlockConditions.Timelock", opGT, "%CH%", "conditions cannot be used before their lock height"),
		req("v1-uc-timelock-siafund", VT, "%T1%.SiafundInputs[*].UnlockConditions.Timelock", opGT, "%CH%", "conditions cannot be used before their lock height"),
		req("v1-uc-timelock-revision", VT, "%T1%.FileContractRevisions[*].UnlockConditions.Timelock", opGT, "%CH%", "conditions cannot be used before their lock height"),
		req("v1-signature-timelock", VT, "%T1%.Signatures[*].Timelock", opGT, "%CH%", "signature timelock"),
		req("v1-contract-window-start", VT, "%T1%.FileContracts[*].WindowStart", opLT, "%CH%", "v1 contract window must not start in the past"),
		req("v1-contract-window-order", VT, "%T1%.FileContracts[*].WindowEnd", opLE, "%T1%.FileContracts[*].WindowStart", "v1 contract window must end after it starts"),
		req("v1-revision-window-start", VT, "%T1%.FileContractRevisions[*].FileContract.WindowStart", opLT, "%CH%", "a v1 revision's window must not start in the past"),
		req("v1-revision-window-order", VT, "%T1%.FileContractRevisions[*].FileContract.WindowEnd", opLE, "%T1%.FileContractRevisions[*].FileContract.WindowStart", "v1 revision window order"),
		req("v1-revision-parent-window", VT, fceRev+".FileContract.WindowStart", opLT, "%CH%", "a v1 contract cannot be revised once its window has opened"),
		req("v1-proof-window-id", VT, "call (consensus.MidState).storageProofWindowID(%MS%, {consensus.V1TransactionSupplement}, %T1%.StorageProofs[*].ParentID)#1", opF, "", "a v1 contract cannot be proven before the window-start block exists"),
		req("v1-require-height", VT, "%CH%", opGE, "%NET%.HardforkV2.RequireHeight", "v1 transactions are invalid from the v2 require height"),
		req("v2-allow-height", V2T, "%CH%", opLT, "%NET%.HardforkV2.AllowHeight", "v2 transactions are invalid before the v2 allow height"),
		req("v2-contract-proof-height", V2T, "%T2%.FileContracts[*].ProofHeight", opLT, "%CH%", "v2 contract proof height must not have passed"),
		req("v2-contract-expiration-order", V2T, "%T2%.FileContracts[*].ExpirationHeight", opLE, "%T2%.FileContracts[*].ProofHeight", "v2 contract expiration after proof height"),
		req("v2-renewal-contract-proof-height", V2T, res+".Resolution.(types.V2FileContractRenewal).NewContract.ProofHeight", opLT, "%CH%", "renewal's new contract: proof height must not have passed", okRen),
		req("v2-renewal-contract-expiration-order", V2T, res+".Resolution.(types.V2FileContractRenewal).NewContract.ExpirationHeight", opLE, res+".Resolution.(types.V2FileContractRenewal).NewContract.ProofHeight", "renewal's new contract: expiration after proof height", okRen),
		req("v2-revision-current-proof-height", V2T, cur, opLT, "%CH%", "a v2 contract cannot be revised after its proof height (current contract, including an earlier revision in the block)"),
		req("v2-revision-proof-height", V2T, "%T2%.FileContractRevisions[*].Revision.ProofHeight", opLT, "%CH%", "a v2 revision's proof height must not have passed"),
		req("v2-revision-expiration-order", V2T, "%T2%.FileContractRevisions[*].Revision.ExpirationHeight", opLE, "%T2%.FileContractRevisions[*].Revision.ProofHeight", "v2 revision expiration after proof height"),
		req("v2-proof-not-before-proof-height", V2T, "%CH%", opLT, res+".Parent.V2FileContract.ProofHeight", "a v2 contract cannot be proven before the block at its proof height is an ancestor", okSP),
		req("v2-proof-index-height", V2T, res+".Resolution.(types.V2StorageProof).ProofIndex.ChainIndex.Height", opNE, res+".Parent.V2FileContract.ProofHeight", "the proof index must be the block at the proof height", okSP),
		req("v2-proof-index-ancestor", V2T, "call (consensus.ElementAccumulator).containsChainIndex(%ST%.Elements, "+res+".Resolution.(types.V2StorageProof).ProofIndex)", opF, "", "the proof index must be an ancestor (accumulator membership)", okSP),
		req("v2-expiration-height", V2T, "%CH%", opLE, res+".Parent.V2FileContract.ExpirationHeight", "a v2 contract cannot be expired at or before its expiration height", okExp),
		// spend policies: evaluated with the parent height and the median timestamp
		req("v2-policy-height-lock-siacoin", V2T, "%PH%", opLT, "%T2%.SiacoinInputs[*].SatisfiedPolicy.Policy.Type.(types.PolicyTypeAbove)", "height lock compares the parent block's height: accepted iff height >= N"),
		req("v2-policy-height-lock-siafund", V2T, "%PH%", opLT, "%T2%.SiafundInputs[*].SatisfiedPolicy.Policy.Type.(types.PolicyTypeAbove)", "height lock compares the parent block's height: accepted iff height >= N"),
		req("v2-policy-time-lock-siacoin", V2T, "call (time.Time).After(call (consensus.State).medianTimestamp(%ST%), %T2%.SiacoinInputs[*].SatisfiedPolicy.Policy.Type.(types.PolicyTypeAfter))", opF, "", "time lock compares the median of the last 11 timestamps: accepted iff median.After(T)"),
		req("v2-policy-time-lock-siafund", V2T, "call (time.Time).After(call (consensus.State).medianTimestamp(%ST%), %T2%.SiafundInputs[*].SatisfiedPolicy.Policy.Type.(types.PolicyTypeAfter))", opF, "", "time lock compares the median of the last 11 timestamps"),
		req("v2-policy-uc-timelock", V2T, "%PH%", opLT, "call types.PolicyAbove(%T2%.SiacoinInputs[*].SatisfiedPolicy.Policy.Type.(types.PolicyTypeUnlockConditions).Timelock).Type.(types.PolicyTypeAbove)", "legacy unlock conditions' timelock is a height lock on the parent height"),
		req("v2-policy-uc-timelock-siafund", V2T, "%PH%", opLT, "call types.PolicyAbove(%T2%.SiafundInputs[*].SatisfiedPolicy.Policy.Type.(types.PolicyTypeUnlockConditions).Timelock).Type.(types.PolicyTypeAbove)", "legacy unlock conditions' timelock is a height lock on the parent height"),
	}
}

func runC08(c *Ctx) {
	c.Explain("Decides the boundary-guard inventory: for every height/time rule in the property statement there is, on every accepting path from the validator's entry point, a comparison of exactly the two quantities the rule names (identified by provenance: type-rooted access paths and calls such as childHeight()/Index.Height/medianTimestamp()), with exactly the operator that puts the boundary where the statement puts it, whose failing side can only lead to rejection, and which cannot be bypassed (no non-rejecting condition other than the rule's own context dominates it). Also decides the definitional clauses: childHeight() = Index.Height+1, MaturityHeight() = childHeight()+MaturityDelay, immature outputs take their maturity from MaturityHeight(), and the in-block storage-proof shortcut requires WindowStart == childHeight(). Each is a necessary condition of 'rejected below the bound, accepted at it'. It does not decide that no other guard rejects the transaction at the bound.")
	c.NotCovered("median-timestamp arithmetic", "absence of extra rejecting guards at the boundary (an inventory cannot prove acceptance)")
	ge := NewGuardEngine(c.P, c.Depth+4)
	tab := c08Table()
	runGuardTable(c, "boundary-guard", ge, tab)
	c.Min("boundary-guard", len(tab))
	c08Definitions(c, ge)
}

// c08Definitions decides the definitional clauses by provenance of returned / stored values.
func c08Definitions(c *Ctx, ge *GuardEngine) {
	chk := func(id, fn, want string) {
		f := c.P.Func(fn)
		if f == nil {
			c.Undecided("definition", id, fn, "anchor does not resolve")
			return
		}
		atoms := ge.ReturnAtoms(f, 0)
		re := mustRe(pat(want))
		ok := len(atoms) > 0
		for _, a := range atoms {
			if !re.MatchString(a) {
				ok = false
			}
		}
		c.Check(ok, "definition", id, c.P.Pos(f.Pos()), ifElse(ok, fn+" returns "+joinShort(atoms), fn+" returns "+joinShort(atoms)+", the property needs "+want))
	}
	chk("childHeight", "consensus.(State).childHeight", "({consensus.State}.Index.Height + const:1)")
	chk("MaturityHeight", "consensus.(State).MaturityHeight", "(call (consensus.State).childHeight({consensus.State}) + {consensus.State}.Network.MaturityDelay)")
	// every store into a MaturityHeight field on the apply side takes MaturityHeight()
	n := 0
	root := c.P.Func("consensus.(*MidState).ApplyBlock")
	if root == nil {
		c.Undecided("definition", "immature-maturity", "", "(*MidState).ApplyBlock does not resolve")
		return
	}
	re := mustRe(pat("call (consensus.State).MaturityHeight(%MS%.base)"))
	for _, fn := range SortedFuncs(c.P.Reachable(root)) {
		for _, st := range fieldStores(fn, "MaturityHeight") {
			n++
			a := ge.pv.Atom(st.Val, nil)
			ok := re.MatchString(a)
			c.Check(ok, "definition", "immature-maturity:"+FuncName(fn), c.P.Pos(st.Pos()), ifElse(ok, "maturity height of a delayed output = MaturityHeight()", "a delayed output's maturity height is set to "+a+" instead of (State).MaturityHeight(): payouts mature early or late"))
		}
	}
	if n == 0 {
		c.Undecided("definition", "immature-maturity", "", "no store into a MaturityHeight field found on the apply side")
	}
	// median timestamp: the middle element for an odd count, the midpoint of the two middle elements for an even one
	if fn := c.P.Func("consensus.(State).medianTimestamp"); fn != nil {
		c.NoteFunc(FuncName(fn))
		as := ge.ReturnAtoms(fn, 0)
		X := "…PrevTimestamps…"
		mid := mustRe(pat(X + "[(len(…) / const:2)]"))
		avg := mustRe(pat("call (time.Time).Add(" + X + "[((len(…) / const:2) - const:1)], (call (time.Time).Sub(" + X + "[(len(…) / const:2)], " + X + "[((len(…) / const:2) - const:1)]) / const:2))"))
		hasMid, hasAvg, extra := false, false, 0
		for _, a := range as {
			for _, alt := range splitPhi(a) {
				switch {
				case avg.MatchString(alt):
					hasAvg = true
				case mid.MatchString(alt):
					hasMid = true
				default:
					extra++
				}
			}
		}
		parity := false
		for _, g := range ge.Guards(fn, nil, nil, nil, 0, map[*ssa.Function]int{}) {
			if strings.HasPrefix(g.L, "(len(") && strings.HasSuffix(g.L, " % const:2)") && (g.Op == "!=" || g.Op == "==") && g.R == "const:0" {
				parity = true
			}
		}
		ok := hasMid && hasAvg && extra == 0 && parity
		c.Check(ok, "definition", "median-timestamp", c.P.Pos(fn.Pos()), ifElse(ok, "odd count: the middle timestamp; even count: the midpoint of the two middle timestamps (the reference time of every time-lock and of the minimum block time)", "medianTimestamp returns "+joinShort(as)+": the median of an even number of timestamps is the midpoint of the two middle ones; any other choice shifts every time boundary"))
	} else {
		c.Undecided("definition", "median-timestamp", "", "anchor does not resolve")
	}
	// in-block storage-proof shortcut
	gs, ok := ge.EntryGuards("consensus.(*MidState).storageProofWindowID")
	if !ok {
		c.Undecided("definition", "window-id-shortcut", "", "storageProofWindowID does not resolve")
		return
	}
	r := req("window-id-shortcut", "consensus.(*MidState).storageProofWindowID", "%MS%.fces[…].FileContractElement.FileContract.WindowStart", opEQ, "%CH%", "a contract created or revised in this block can be proven only if its window starts at the child height (the parent block is the window-start block)", "ok:%MS%.elements[…] is true", "%MS%.elements[…] < len(%MS%.fces)", "%MS%.fces[…].FileContractElement.ID == {types.FileContractID}")
	r.Weak = true
	ge.CheckReq(c, "definition", r, gs)
}
