package main

import (
	"fmt"
	"go/ast"
	"go/types"
	"regexp"
	"sort"
	"strings"

	"golang.org/x/tools/go/ssa"
)

func init() { register("C09", runC09) }

// parameters through which an entry point is documented to write
var documentedUpdaters = map[string][]string{
	"(consensus.MidState).ApplyTransaction":       {"{consensus.MidState}"},
	"(consensus.MidState).ApplyV2Transaction":     {"{consensus.MidState}"},
	"(consensus.MidState).ApplyBlock":             {"{consensus.MidState}"},
	"(consensus.ApplyUpdate).UpdateElementProof":  {"{types.StateElement}"},
	"(consensus.RevertUpdate).UpdateElementProof": {"{types.StateElement}"},
	"(gateway.V2BlockOutline).Complete":           {"{gateway.V2BlockOutline}"},
	"(gateway.V2BlockOutline).RemoveTransactions": {"{gateway.V2BlockOutline}"},
}

var outputParams = map[string]bool{"{types.Encoder}": true, "{types.Decoder}": true, "{types.Hasher}": true}

func c09Entries(c *Ctx, progs map[string]*WireProg) []*ssa.Function {
	specs := []string{
		"consensus.ValidateHeader", "consensus.ValidateOrphan", VB, VT, V2T, CAB, "consensus.ApplyHeader", CRB, AT, A2T, MAB,
		"consensus.(*ElementAccumulator).ValidateTransactionElements",
		"consensus.(State).WholeSigHash", "consensus.(State).PartialSigHash", "consensus.(State).InputSigHash", "consensus.(State).ContractSigHash",
		"consensus.(State).RenewalSigHash", "consensus.(State).AttestationSigHash", "consensus.(State).Commitment", "consensus.(State).MerkleLeafHash",
		"consensus.(State).TransactionWeight", "consensus.(State).V2TransactionWeight", "consensus.(State).StorageProofLeafIndex",
		"consensus.(ApplyUpdate).UpdateElementProof", "consensus.(RevertUpdate).UpdateElementProof",
		"consensus.(ApplyUpdate).ForEachTreeNode", "consensus.(RevertUpdate).ForEachTreeNode",
		"types.(*Transaction).ID", "types.(*Transaction).FullHash", "types.(*Transaction).MerkleLeafHash",
		"types.(*V2Transaction).ID", "types.(*V2Transaction).FullHash", "types.(*V2Transaction).MerkleLeafHash", "types.(*V2Transaction).DeepCopy",
		"types.(SpendPolicy).Address", "types.(SpendPolicy).Verify", "types.(*Block).ID", "types.(*Block).Header", "types.(*Block).V2Transactions",
		"gateway.OutlineBlock", "gateway.(*V2BlockOutline).Complete", "gateway.(*V2BlockOutline).RemoveTransactions", "gateway.(V2BlockOutline).ID", "gateway.(V2BlockOutline).Missing",
	}
	seen := map[*ssa.Function]bool{}
	var out []*ssa.Function
	for _, s := range specs {
		fn := c.P.Func(s)
		if fn == nil {
			c.Undecided("inputs-not-written", "anchor:"+s, "", "entry point does not resolve")
			continue
		}
		if !seen[fn] {
			seen[fn] = true
			out = append(out, fn)
		}
	}
	// every encoder of the module is an entry too
	for _, n := range sortedKeys(progs) {
		wp := progs[n]
		if wp.Side != "enc" || !wp.Fn.Exported() {
			continue
		}
		if fn := c.P.SSA.FuncValue(wp.Fn); fn != nil && !seen[fn] {
			seen[fn] = true
			out = append(out, fn)
		}
	}
	return out
}

func runC09(c *Ctx) {
	c.Explain("Decides the structural clauses of 'deterministic, side-effect free, concurrency-safe': (1) inputs are not written: for every public validation/application/hashing/encoding entry point, no store, copy destination, in-place sort/reverse, map update or known external writer reachable from it (module calls followed with parameter substitution) targets memory that a parameter refers to (slice backing arrays, pointer targets, maps) — by-value copies, including arrays, are the callee's own; documented in-place updaters are exempt by one named parameter; (2) diff elements own their memory: every element stored into a per-block diff record is a Copy() result or a literal; (3) copies are deep: every reference-typed path of the value returned by the copy operations is assigned fresh memory; (4) determinism: no clock, randomness, goroutine or select is reachable, and map iteration in reachable functions only rejects; (5) no shared mutable state: no store to package-level variables; pooled hashers are Reset before use, returned by a deferred Put and do not escape; (6) transaction-by-transaction validation equals block validation: ValidateBlock validates each transaction against a MidState to which the earlier ones were applied with the same apply functions block application uses. Data-race freedom beyond 'no shared writes' and run-time equality of results are not decided.")
	c.NotCovered("data-race freedom under the Go memory model beyond 'no shared writes'", "byte-identical results across independently obtained copies (needs codec canonicity, C11, plus run-time equality)")
	c.Assume("external (non-module) callees not in the writer table (copy, clear, sort.Slice/Sort, slices.Reverse/Sort*, binary.*.PutUint*, hex.Decode/Encode, io.ReadFull, rand.Read) are assumed not to write through their arguments")
	ge := NewGuardEngine(c.P, c.Depth+5)
	progs := ExtractWirePrograms(c.P)
	entries := c09Entries(c, progs)
	for _, fn := range entries {
		name := FuncName(fn)
		c.NoteFunc(name)
		ws := ge.InputWrites(fn)
		exempt := map[string]bool{}
		for _, e := range documentedUpdaters[name] {
			exempt[e] = true
		}
		var bad []string
		for _, w := range ws {
			if exempt[w.Root] || outputParams[w.Root] {
				continue
			}
			bad = append(bad, fmt.Sprintf("%s: %s to %s (%s; via %s)", c.P.Pos(w.Fact.Pos), w.Fact.Name, w.Target, w.Why, strings.Join(w.Fact.Chain, " > ")))
		}
		sort.Strings(bad)
		bad = uniq(bad)
		if len(bad) > 3 {
			bad = append(bad[:3], fmt.Sprintf("(+%d more)", len(bad)-3))
		}
		c.Check(len(bad) == 0, "inputs-not-written", name, c.P.Pos(fn.Pos()), ifElse(len(bad) == 0, "no write through parameter-reachable memory", "the entry point writes memory its caller still owns: "+strings.Join(bad, " | ")))
	}
	c.Min("inputs-not-written", 150)
	c09DiffOwnership(c, ge)
	c09Determinism(c, entries)
	c09SharedState(c, ge, entries)
	c09TxnByTxn(c, ge)
	c09DeepCopies(c, ge)
	c09DecodedOwnsMemory(c)
	c09PerIterationFresh(c, ge)
}

// c09PerIterationFresh: inside a copy function, a pointer stored into a per-element slot within a loop must
// point to memory allocated in that iteration. A variable hoisted out of the loop makes every element of the copy
// point at the same object (the last one written).
func c09PerIterationFresh(c *Ctx, ge *GuardEngine) {
	n := 0
	for _, fn := range SortedFuncs(c.P.AllFuncs()) {
		if !c.P.InModule(fn) || fn.Synthetic != "" || fn.Pkg == nil || relPkg(fn.Pkg.Pkg) != "types" {
			continue
		}
		if ln := strings.ToLower(fn.Name()); !strings.Contains(ln, "copy") && !strings.Contains(ln, "clone") {
			continue
		}
		fi := ge.info(fn)
		for _, b := range fn.Blocks {
			for _, in := range b.Instrs {
				// &local converted to an interface or stored as a pointer
				var al *ssa.Alloc
				switch x := in.(type) {
				case *ssa.MakeInterface:
					al, _ = x.X.(*ssa.Alloc)
				case *ssa.Store:
					al, _ = x.Val.(*ssa.Alloc)
				}
				if al == nil || len(fi.loopsOf[b]) == 0 {
					continue
				}
				n++
				inside := true
				for _, h := range fi.loopsOf[b] {
					if !fi.loopBody[h][al.Block()] {
						inside = false
					}
				}
				name := al.Comment
				c.Check(inside, "copy-is-deep", FuncName(fn)+":per-iteration:"+name, c.P.Pos(in.Pos()), ifElse(inside, "the pointed-to copy "+name+" is allocated in the iteration that stores it", "every iteration stores a pointer to the same variable "+name+" declared outside the loop: all copied elements end up pointing at the last one"))
			}
		}
	}
	c.Check(n >= 2, "copy-is-deep", "per-iteration:inventory", "", fmt.Sprintf("%d pointer-to-local stores inside copy loops examined", n))
	// a loop that re-points the elements of a copy at fresh memory detaches EVERY element only if it cannot be left
	// from inside its body (a break after the first element of another kind leaves the rest shared with the original).
	// Any function of package types, whatever its name.
	m := 0
	for _, fn := range SortedFuncs(c.P.AllFuncs()) {
		if !c.P.InModule(fn) || fn.Synthetic != "" || fn.Pkg == nil || relPkg(fn.Pkg.Pkg) != "types" || len(fn.Blocks) == 0 {
			continue
		}
		fi := ge.info(fn)
		done := map[*ssa.BasicBlock]bool{}
		k := 0
		for _, b := range fn.Blocks {
			for _, in := range b.Instrs {
				var al *ssa.Alloc
				switch x := in.(type) {
				case *ssa.MakeInterface:
					al, _ = x.X.(*ssa.Alloc)
				case *ssa.Store:
					al, _ = x.Val.(*ssa.Alloc)
					if _, intoElem := x.Addr.(*ssa.FieldAddr); !intoElem {
						if _, intoIdx := x.Addr.(*ssa.IndexAddr); !intoIdx {
							al = nil
						}
					}
				}
				if al == nil || !al.Heap || len(fi.loopsOf[b]) == 0 {
					continue
				}
				// innermost loop
				h := fi.loopsOf[b][0]
				for _, x := range fi.loopsOf[b] {
					if len(fi.loopBody[x]) < len(fi.loopBody[h]) {
						h = x
					}
				}
				if done[h] || !fi.loopBody[h][al.Block()] {
					continue
				}
				done[h] = true
				m++
				k++
				why := ge.earlyAcceptingExit(fi, h, nil)
				c.Check(why == "", "copy-is-deep", fmt.Sprintf("%s:loop-complete#%d", FuncName(fn), k), c.P.Pos(al.Pos()), ifElse(why == "", "the re-pointing loop visits every element", why+": the elements after that point keep pointing into the original"))
			}
		}
	}
	c.Check(m >= 1, "copy-is-deep", "loop-complete:inventory", "", fmt.Sprintf("%d re-pointing loops examined", m))
}

// decodedSharedOK: decoders that by design store a sub-slice of memory they do not own.
var decodedSharedOK = map[string]string{
	"(rhp/v2.RPCReadResponse).DecodeFrom": "documented: the caller may supply Data as a reusable buffer; the decoder reslices it when it is large enough",
}

// c09DecodedOwnsMemory: a value produced by a decoder must not share backing memory with its siblings.
// Every slice a decoder stores into the object it fills is freshly made, appended, returned by a call, or a
// capacity-limited (3-index) sub-slice; a plain sub-slice x[:n] of a buffer that the decoder keeps slicing
// leaves spare capacity that the next element occupies, so appending to one decoded proof overwrites another.
func c09DecodedOwnsMemory(c *Ctx) {
	n, stores := 0, 0
	var visit func(fn *ssa.Function, owner string)
	visit = func(fn *ssa.Function, owner string) {
		for _, b := range fn.Blocks {
			for _, in := range b.Instrs {
				st, ok := in.(*ssa.Store)
				if !ok {
					continue
				}
				if _, isSlice := st.Val.Type().Underlying().(*types.Slice); !isSlice {
					continue
				}
				switch st.Addr.(type) {
				case *ssa.FieldAddr, *ssa.IndexAddr:
				default:
					continue
				}
				sl, ok := st.Val.(*ssa.Slice)
				if !ok {
					continue
				}
				// stores into a scratch local that does not escape are not part of the decoded value
				root := st.Addr
				for {
					if fa, ok := root.(*ssa.FieldAddr); ok {
						root = fa.X
						continue
					}
					if ia, ok := root.(*ssa.IndexAddr); ok {
						root = ia.X
						continue
					}
					break
				}
				if al, ok := root.(*ssa.Alloc); ok && scratchLocal(al) {
					continue
				}
				if _, xIsSlice := sl.X.Type().Underlying().(*types.Slice); !xIsSlice {
					continue // slicing an array value
				}
				stores++
				inst := owner + ":" + strings.TrimPrefix(c.P.Pos(st.Pos()), "")
				_ = inst
				key := owner
				fresh := false
				switch x := sl.X.(type) {
				case *ssa.MakeSlice:
					fresh = true
				case *ssa.Call:
					fresh = true
					_ = x
				}
				ok2 := fresh || sl.Max != nil
				if !ok2 {
					if why, exempt := decodedSharedOK[owner]; exempt {
						c.Info("decoded-owns-memory", key, c.P.Pos(st.Pos()), "reviewed exception: "+why)
						continue
					}
				}
				c.Check(ok2, "decoded-owns-memory", key+":"+fieldOfAddr(st.Addr), c.P.Pos(st.Pos()), ifElse(ok2, "stored sub-slice is fresh or capacity-limited", "the decoder stores a plain sub-slice of a buffer it keeps using: the stored slice's spare capacity is another decoded value's memory, so a later append to one (proof refresh) overwrites the other"))
			}
		}
		for _, an := range fn.AnonFuncs {
			visit(an, owner)
		}
	}
	for _, fn := range SortedFuncs(c.P.AllFuncs()) {
		if !c.P.InModule(fn) || fn.Synthetic != "" || fn.Parent() != nil {
			continue
		}
		switch fn.Name() {
		case "DecodeFrom", "decodeFrom", "decodeRequest", "decodeResponse", "UnmarshalJSON", "UnmarshalText":
		default:
			continue
		}
		n++
		visit(fn, FuncName(fn))
	}
	c.Check(n >= 100 && stores >= 1, "decoded-owns-memory", "inventory", "", fmt.Sprintf("%d decoder functions scanned, %d stored sub-slices examined", n, stores))
}

func fieldOfAddr(a ssa.Value) string {
	if fa, ok := a.(*ssa.FieldAddr); ok {
		if pt, ok := fa.X.Type().Underlying().(*types.Pointer); ok {
			if st, ok := pt.Elem().Underlying().(*types.Struct); ok {
				return st.Field(fa.Field).Name()
			}
		}
	}
	return "elem"
}

func uniq(ss []string) []string {
	var out []string
	for i, s := range ss {
		if i == 0 || s != ss[i-1] {
			out = append(out, s)
		}
	}
	return out
}

// c09DiffOwnership: elements recorded in diffs are copies or literals.
func c09DiffOwnership(c *Ctx, ge *GuardEngine) {
	ge.pv.CopyIsFresh = true
	defer func() { ge.pv.CopyIsFresh = false }()
	elemField := regexp.MustCompile(`\.(SiacoinElement|SiafundElement|FileContractElement|V2FileContractElement)$`)
	n := 0
	for _, entry := range []string{AT, A2T, MAB} {
		fn := c.P.Func(entry)
		if fn == nil {
			c.Undecided("diff-owns-memory", entry, "", "entry does not resolve")
			continue
		}
		for _, f := range ge.Calls(fn, nil, nil, nil, 0, map[*ssa.Function]int{}) {
			if f.Name != "store" || !elemField.MatchString(f.Args[0]) || !strings.Contains(f.Args[0], "record") {
				continue
			}
			if entry == MAB && (strings.Contains(strings.Join(f.Chain, ">"), "ApplyTransaction") || strings.Contains(strings.Join(f.Chain, ">"), "ApplyV2Transaction")) {
				continue
			}
			n++
			v := f.Args[1]
			ok := strings.HasPrefix(v, "fresh(Copy") || strings.HasPrefix(v, "lit{")
			c.Check(ok, "diff-owns-memory", entry+":"+c.P.Pos(f.Pos), c.P.Pos(f.Pos), ifElse(ok, "stored element is "+oneLine(v)[:min(60, len(oneLine(v)))], "a diff record stores "+oneLine(v)+" — the caller's element (shared proof memory), not a Copy(): the accumulator's in-place proof rewriting then modifies the block or supplement passed in"))
		}
	}
	if n < 10 {
		c.Undecided("diff-owns-memory", "min-instances", "", fmt.Sprintf("only %d element stores into diff records found (expected >= 10)", n))
	}
}

// c09Determinism: nondeterminism sources and effectful map iteration in the functions reachable from the entries.
func c09Determinism(c *Ctx, entries []*ssa.Function) {
	// only consensus-critical entries (validation, application, hashing); transports legitimately use randomness
	var roots []*ssa.Function
	for _, e := range entries {
		roots = append(roots, e)
	}
	reach := c.P.Reachable(roots...)
	bad := 0
	for _, fn := range SortedFuncs(reach) {
		for _, b := range fn.Blocks {
			for _, in := range b.Instrs {
				switch x := in.(type) {
				case *ssa.Go:
					bad++
					c.Fail("deterministic", FuncName(fn)+":go", c.P.Pos(x.Pos()), "a goroutine is started in code reachable from validation/application: results may depend on scheduling")
				case *ssa.Select:
					bad++
					c.Fail("deterministic", FuncName(fn)+":select", c.P.Pos(x.Pos()), "select in code reachable from validation/application")
				case *ssa.Call:
					if f := x.Call.StaticCallee(); f != nil && f.Pkg != nil {
						pp := f.Pkg.Pkg.Path()
						if (pp == "time" && (f.Name() == "Now" || f.Name() == "Since")) || pp == "math/rand" || pp == "math/rand/v2" || pp == "crypto/rand" || strings.HasSuffix(pp, "frand") || (pp == "runtime" && f.Name() == "NumCPU") {
							bad++
							c.Fail("deterministic", FuncName(fn)+":"+pp+"."+f.Name(), c.P.Pos(x.Pos()), "nondeterminism source "+pp+"."+f.Name()+" reachable from validation/application/hashing")
						}
					}
				}
			}
		}
		// map iteration with effects (AST)
		if obj, ok := fn.Object().(*types.Func); ok {
			if fd, pkg := c.P.Decl(obj); fd != nil && fd.Body != nil {
				ast.Inspect(fd.Body, func(n ast.Node) bool {
					rs, ok := n.(*ast.RangeStmt)
					if !ok {
						return true
					}
					t := pkg.TypesInfo.TypeOf(rs.X)
					if t == nil {
						return true
					}
					if _, isMap := t.Underlying().(*types.Map); !isMap {
						return true
					}
					if !rangeBodyOnlyRejects(rs.Body) {
						bad++
						c.Fail("deterministic", FuncName(fn)+":map-range", c.P.Pos(rs.Pos()), "iteration over a map whose body has effects other than rejecting: the result depends on map iteration order")
					} else {
						c.OK("deterministic", FuncName(fn)+":map-range", c.P.Pos(rs.Pos()), "map iteration only rejects (order-independent)")
					}
					return true
				})
			}
		}
	}
	c.Extra("determinism_functions", len(reach))
	if bad == 0 {
		c.OK("deterministic", "reachable-set", "", fmt.Sprintf("%d reachable functions: no clock, randomness, goroutine, select or effectful map iteration", len(reach)))
	}
}

func rangeBodyOnlyRejects(body *ast.BlockStmt) bool {
	for _, s := range body.List {
		ifs, ok := s.(*ast.IfStmt)
		if !ok || ifs.Else != nil || ifs.Init != nil {
			return false
		}
		for _, bs := range ifs.Body.List {
			if _, isRet := bs.(*ast.ReturnStmt); !isRet {
				return false
			}
		}
	}
	return true
}

// c09SharedState: no stores to globals; pool discipline.
func c09SharedState(c *Ctx, ge *GuardEngine, entries []*ssa.Function) {
	reach := c.P.Reachable(entries...)
	bad := 0
	pools := 0
	for _, fn := range SortedFuncs(reach) {
		for _, b := range fn.Blocks {
			for _, in := range b.Instrs {
				switch x := in.(type) {
				case *ssa.Store:
					root := x.Addr
					for {
						switch a := root.(type) {
						case *ssa.FieldAddr:
							root = a.X
							continue
						case *ssa.IndexAddr:
							root = a.X
							continue
						}
						break
					}
					if g, ok := root.(*ssa.Global); ok && c.P.InModule(fn) && fn.Name() != "init" {
						bad++
						c.Fail("no-shared-state", FuncName(fn)+":"+g.Name(), c.P.Pos(x.Pos()), "store to package-level variable "+g.Name()+" in code reachable from validation/application: concurrent callers share it")
					}
				case *ssa.MapUpdate:
					if u, ok := x.Map.(*ssa.UnOp); ok {
						if g, ok := u.X.(*ssa.Global); ok && c.P.InModule(fn) && fn.Name() != "init" {
							bad++
							c.Fail("no-shared-state", FuncName(fn)+":"+g.Name(), c.P.Pos(x.Pos()), "update of package-level map "+g.Name()+" in code reachable from validation/application")
						}
					}
				case *ssa.Call:
					if f := x.Call.StaticCallee(); f != nil && f.String() == "(*sync.Pool).Get" && c.P.InModule(fn) {
						pools++
						c09Pool(c, fn, x)
					}
				}
			}
		}
	}
	if bad == 0 {
		c.OK("no-shared-state", "globals", "", fmt.Sprintf("%d reachable functions store to no package-level variable", len(reach)))
	}
	if pools < 5 {
		c.Undecided("pool-discipline", "min-instances", "", fmt.Sprintf("only %d pooled-hasher acquisitions found (expected >= 5)", pools))
	}
}

// c09Pool checks one hasherPool.Get(): deferred Put of the same object, Reset before every other use, no escape.
func c09Pool(c *Ctx, fn *ssa.Function, get *ssa.Call) {
	inst := FuncName(fn)
	// the pooled object: type assertion of the Get result
	var obj ssa.Value
	for _, r := range *get.Referrers() {
		if ta, ok := r.(*ssa.TypeAssert); ok {
			obj = ta
		}
	}
	if obj == nil {
		c.Undecided("pool-discipline", inst, c.P.Pos(get.Pos()), "pooled object is not type-asserted to a concrete hasher")
		return
	}
	deferredPut := false
	var resets []*ssa.Call
	var uses []ssa.Instruction
	escapes := ""
	var visit func(v ssa.Value, depth int)
	visit = func(v ssa.Value, depth int) {
		if depth > 3 {
			return
		}
		for _, r := range *v.Referrers() {
			switch x := r.(type) {
			case *ssa.Defer:
				if f := x.Call.StaticCallee(); f != nil && f.String() == "(*sync.Pool).Put" {
					deferredPut = true
					continue
				}
				uses = append(uses, x)
			case *ssa.Call:
				if f := x.Call.StaticCallee(); f != nil {
					if f.String() == "(*sync.Pool).Put" {
						// a non-deferred Put: the object is back in the pool while later uses may follow
						escapes = "Put is not deferred: the hasher returns to the pool at " + c.P.Pos(x.Pos()) + " while the function may still use it"
						continue
					}
					if f.Name() == "Reset" && len(x.Call.Args) > 0 && x.Call.Args[0] == v {
						resets = append(resets, x)
						continue
					}
				}
				uses = append(uses, x)
			case *ssa.MakeInterface:
				visit(x, depth+1) // passed as interface (to Put)
			case *ssa.FieldAddr:
				visit(x, depth+1)
			case *ssa.UnOp:
				visit(x, depth+1)
			case *ssa.Return:
				escapes = "the pooled hasher is returned"
			case *ssa.Store:
				if x.Val == v {
					if _, local := x.Addr.(*ssa.Alloc); !local {
						escapes = "the pooled hasher is stored into non-local memory"
					}
				}
			case *ssa.Go:
				escapes = "the pooled hasher is passed to a goroutine"
			case *ssa.MakeClosure:
				uses = append(uses, x)
			}
		}
	}
	visit(obj, 0)
	c.Check(deferredPut && escapes == "", "pool-discipline", inst+":put", c.P.Pos(get.Pos()), ifElse(deferredPut && escapes == "", "the pooled hasher is returned by a deferred Put and does not escape", ifElse(escapes != "", escapes, "no deferred Put for the pooled hasher")))
	okReset := len(resets) > 0
	for _, u := range uses {
		dom := false
		for _, r := range resets {
			if r.Block() == u.Block() {
				if instrBefore(r, u) {
					dom = true
				}
			} else if r.Block().Dominates(u.Block()) {
				dom = true
			}
		}
		if !dom {
			okReset = false
		}
	}
	c.Check(okReset, "pool-discipline", inst+":reset", c.P.Pos(get.Pos()), ifElse(okReset, "every use of the pooled hasher is preceded by Reset", "the pooled hasher is used before Reset on some path: stale state from another caller enters the hash"))
}

// c09TxnByTxn: ValidateBlock validates then applies each transaction with the apply functions ApplyBlock uses.
func c09TxnByTxn(c *Ctx, ge *GuardEngine) {
	vb := c.P.Func(VB)
	if vb == nil {
		c.Undecided("txn-by-txn", "anchor", "", "ValidateBlock does not resolve")
		return
	}
	cs := ge.Calls(vb, nil, nil, nil, 0, map[*ssa.Function]int{})
	gs, _ := ge.EntryGuards(VB)
	ms := "call consensus.NewMidState({consensus.State})"
	for _, r := range []struct {
		id, validate, apply string
		args                []string
	}{
		{"v1", "consensus.ValidateTransaction", "(consensus.MidState).ApplyTransaction", []string{ms, "{types.Block}.Transactions[*]", "{consensus.V1BlockSupplement}.Transactions[*]"}},
		{"v2", "consensus.ValidateV2Transaction", "(consensus.MidState).ApplyV2Transaction", []string{ms, "call (types.Block).V2Transactions({types.Block})[*]"}},
	} {
		var vg *Guard
		for i, g := range gs {
			if len(g.Chain) <= 2 && g.L == "call "+r.validate+"("+strings.Join(r.args, ", ")+")" && g.Op == "!=" && g.R == "nil" && !g.Weak {
				vg = &gs[i]
			}
		}
		var ap *CallFact
		for i, cf := range cs {
			if cf.Callee != nil && FuncName(cf.Callee) == r.apply && len(cf.Chain) <= 2 && strings.Join(cf.Args, ", ") == strings.Join(r.args, ", ") {
				ap = &cs[i]
			}
		}
		ok := vg != nil && ap != nil
		if ok {
			// the validation guard dominates the apply call, both in the same loop
			var ab *ssa.BasicBlock
			for _, b := range vg.Fn.Blocks { // ValidateBlock itself or the helper the loop was moved into
				for _, in := range b.Instrs {
					if in.Pos() == ap.Pos {
						ab = b
					}
				}
			}
			ok = ab != nil && vg.Block.Dominates(ab) && len(ap.Ctx) == 0 && ap.Caller == vg.Fn
			if ok && vg.Block == ab {
				// same block: the validation call must come first
				vc := propagatingCall(vg.CondV)
				var apInstr ssa.Instruction
				for _, in := range ab.Instrs {
					if in.Pos() == ap.Pos {
						if _, isCall := in.(*ssa.Call); isCall {
							apInstr = in
						}
					}
				}
				ok = vc != nil && apInstr != nil && instrBefore(vc, apInstr)
			}
		}
		c.Check(ok, "txn-by-txn", r.id, c.P.Pos(vb.Pos()), ifElse(ok, r.validate+" on the evolving MidState dominates "+r.apply+" of the same transaction", "ValidateBlock does not validate each "+r.id+" transaction against the MidState and then apply it with "+r.apply+" (same transaction, same supplement)"))
	}
	// one block accumulator: the v1 and the v2 transactions of a block are validated against the SAME evolving
	// MidState (a v2 transaction must see what the v1 transactions of the block spent): exactly one NewMidState call
	// site in ValidateBlock and the helpers it calls directly
	{
		n, where := 0, ""
		fns := []*ssa.Function{vb}
		for _, b := range vb.Blocks {
			for _, in := range b.Instrs {
				if call, ok := in.(*ssa.Call); ok {
					if g := call.Call.StaticCallee(); g != nil && c.P.InModule(g) && g.Pkg == vb.Pkg && len(g.Blocks) > 0 && !strings.HasPrefix(g.Name(), "Validate") && g.Name() != "NewMidState" {
						fns = append(fns, g)
					}
				}
			}
		}
		for _, f := range fns {
			for _, b := range f.Blocks {
				for _, in := range b.Instrs {
					if call, ok := in.(*ssa.Call); ok {
						if g := call.Call.StaticCallee(); g != nil && FuncName(g) == "consensus.NewMidState" {
							n++
							where = c.P.Pos(call.Pos())
						}
					}
				}
			}
		}
		c.Check(n == 1, "txn-by-txn", "one-midstate", where, ifElse(n == 1, "one MidState per validated block", fmt.Sprintf("%d MidStates are created while validating one block: transactions validated against different accumulators do not see each other's spends", n)))
	}
	// the block-application path uses the same apply functions
	mab := c.P.Func(MAB)
	if mab != nil {
		cs2 := ge.Calls(mab, nil, nil, nil, 0, map[*ssa.Function]int{})
		for _, r := range []struct{ id, apply, args string }{
			{"v1", "(consensus.MidState).ApplyTransaction", "{consensus.MidState}, {types.Block}.Transactions[*], {consensus.V1BlockSupplement}.Transactions[*]"},
			{"v2", "(consensus.MidState).ApplyV2Transaction", "{consensus.MidState}, call (types.Block).V2Transactions({types.Block})[*]"},
		} {
			found := false
			for _, cf := range cs2 {
				if cf.Callee != nil && FuncName(cf.Callee) == r.apply && len(cf.Chain) == 1 && strings.Join(cf.Args, ", ") == r.args && len(cf.Ctx) == 0 {
					found = true
				}
			}
			c.Check(found, "txn-by-txn", "apply-block:"+r.id, c.P.Pos(mab.Pos()), "(*MidState).ApplyBlock applies every "+r.id+" transaction with "+r.apply)
		}
	}
}

// ---- copies are deep ----

// refPaths enumerates the reference-typed paths (slices, pointers, maps, pointer payloads of
// interfaces) reachable from a value of type t.
func (p *Program) refPaths(t types.Type) []string {
	var out []string
	var walk func(t types.Type, prefix string, onPath map[string]int, depth int)
	walk = func(t types.Type, prefix string, onPath map[string]int, depth int) {
		if depth > 14 {
			return
		}
		tn := typeName(t)
		if _, isNamed := t.(*types.Named); isNamed {
			if onPath[tn] >= 2 {
				return // recursive type: one unrolling is representative
			}
			onPath[tn]++
			defer func() { onPath[tn]-- }()
		}
		if tn == "time.Time" {
			return
		}
		switch u := t.Underlying().(type) {
		case *types.Struct:
			for i := 0; i < u.NumFields(); i++ {
				if typeName(u.Field(i).Type()) == "time.Location" {
					continue // time.Time's immutable location pointer
				}
				walk(u.Field(i).Type(), prefix+"."+u.Field(i).Name(), onPath, depth+1)
			}
		case *types.Slice:
			out = append(out, prefix)
			walk(u.Elem(), prefix+"[*]", onPath, depth+1)
		case *types.Array:
			walk(u.Elem(), prefix+"[*]", onPath, depth+1)
		case *types.Pointer:
			if st, ok := u.Elem().Underlying().(*types.Struct); ok && st.NumFields() == 0 {
				return // zero-size pointee: nothing to share
			}
			out = append(out, prefix)
			walk(u.Elem(), prefix, onPath, depth+1)
		case *types.Map:
			out = append(out, prefix)
		case *types.Interface:
			for _, impl := range p.Implementers(u) {
				q := prefix + ".(" + typeName(impl) + ")"
				if pt, ok := impl.(*types.Pointer); ok {
					if st, ok := pt.Elem().Underlying().(*types.Struct); ok && st.NumFields() == 0 {
						continue
					}
					out = append(out, q)
					walk(pt.Elem(), q, onPath, depth+1)
				} else {
					walk(impl, q, onPath, depth+1)
				}
			}
		}
	}
	walk(t, "", map[string]int{}, 0)
	return out
}

type freshStore struct {
	path string
	deep bool
	pos  string
}

// copyFreshness collects, for the local that a copy function returns, the paths assigned fresh memory.
func (ge *GuardEngine) copyFreshness(fn *ssa.Function, memo map[*ssa.Function][]string) (stores []freshStore, ok bool) {
	// the returned local (or, for a copy function over a slice, the freshly cloned slice value it returns)
	var ret *ssa.Alloc
	var retVal ssa.Value
	for _, r := range returnsOf(fn) {
		if len(r.Results) != 1 {
			return nil, false
		}
		ld, isLoad := r.Results[0].(*ssa.UnOp)
		if !isLoad {
			if _, isSlice := r.Results[0].Type().Underlying().(*types.Slice); isSlice && ret == nil && (retVal == nil || retVal == r.Results[0]) {
				retVal = r.Results[0]
				continue
			}
			return nil, false
		}
		al, isAlloc := ld.X.(*ssa.Alloc)
		if !isAlloc || (ret != nil && ret != al) {
			return nil, false
		}
		ret = al
	}
	if ret == nil && retVal == nil {
		return nil, false
	}
	prefixOf := map[*ssa.Alloc]string{}
	if ret != nil {
		prefixOf[ret] = ""
	}
	var rel func(addr ssa.Value, depth int) (string, bool)
	rel = func(addr ssa.Value, depth int) (string, bool) {
		if depth > 24 {
			return "", false
		}
		switch a := addr.(type) {
		case *ssa.Alloc:
			p, ok := prefixOf[a]
			return p, ok
		case *ssa.FieldAddr:
			base, ok := rel(a.X, depth+1)
			if !ok {
				return "", false
			}
			st, _ := a.X.Type().Underlying().(*types.Pointer).Elem().Underlying().(*types.Struct)
			if st == nil {
				return "", false
			}
			return base + "." + st.Field(a.Field).Name(), true
		case *ssa.IndexAddr:
			if retVal != nil && a.X == retVal {
				return "[*]", true
			}
			if _, isPtr := a.X.Type().Underlying().(*types.Pointer); isPtr {
				base, ok := rel(a.X, depth+1)
				return base + "[*]", ok
			}
			if ld, isLoad := a.X.(*ssa.UnOp); isLoad {
				base, ok := rel(ld.X, depth+1)
				return base + "[*]", ok
			}
		case *ssa.UnOp: // pointer loaded from a path (payload of an interface / pointer field)
			base, ok := rel(a.X, depth+1)
			return base, ok
		case *ssa.Extract: // value of a comma-ok type assertion on a loaded interface
			if ta, isTA := a.Tuple.(*ssa.TypeAssert); isTA && a.Index == 0 {
				if ld, isLoad := ta.X.(*ssa.UnOp); isLoad {
					base, ok := rel(ld.X, depth+1)
					return base + ".(" + typeName(ta.AssertedType) + ")", ok
				}
			}
		case *ssa.TypeAssert:
			if ld, isLoad := a.X.(*ssa.UnOp); isLoad {
				base, ok := rel(ld.X, depth+1)
				return base + ".(" + typeName(a.AssertedType) + ")", ok
			}
		}
		return "", false
	}
	freshKind := func(v ssa.Value) (fresh, deep bool, pointee *ssa.Alloc, suffix string) {
		for {
			switch x := v.(type) {
			case *ssa.MakeInterface:
				suffix = ".(" + typeName(x.X.Type()) + ")"
				// a value-typed payload copied out of a local: its fields are assigned through that local
				if ld, ok := x.X.(*ssa.UnOp); ok {
					if al, ok := ld.X.(*ssa.Alloc); ok {
						return false, false, al, suffix
					}
				}
				v = x.X
				continue
			case *ssa.ChangeType:
				v = x.X
				continue
			}
			break
		}
		switch x := v.(type) {
		case *ssa.Alloc:
			return true, false, x, suffix
		case *ssa.MakeSlice, *ssa.MakeMap:
			return true, false, nil, suffix
		case *ssa.Const:
			return x.Value == nil, true, nil, suffix // nil reference: nothing shared
		case *ssa.Call:
			if b, isB := x.Call.Value.(*ssa.Builtin); isB && b.Name() == "append" && len(x.Call.Args) > 0 {
				if k, isC := x.Call.Args[0].(*ssa.Const); isC && k.Value == nil {
					return true, false, nil, suffix
				}
				return false, false, nil, suffix
			}
			if f := x.Call.StaticCallee(); f != nil {
				n := f.String()
				if strings.HasPrefix(n, "slices.Clone") || n == "bytes.Clone" {
					return true, false, nil, suffix
				}
				if ge.p.InModule(f) {
					if missing, known := memo[f]; known {
						return len(missing) == 0, len(missing) == 0, nil, suffix
					}
					memo[f] = nil // assume fresh on recursion
					missing := ge.copyMissing(f, nil, memo)
					memo[f] = missing
					return len(missing) == 0, len(missing) == 0, nil, suffix
				}
			}
		}
		return false, false, nil, suffix
	}
	// iterate to a fixed point so that pointees registered later are picked up
	for iter := 0; iter < 4; iter++ {
		stores = stores[:0]
		if retVal != nil {
			if fresh, deep, _, _ := freshKind(retVal); fresh {
				stores = append(stores, freshStore{"", deep, ge.p.Pos(retVal.Pos())})
			}
		}
		for _, b := range fn.Blocks {
			for _, in := range b.Instrs {
				st, isStore := in.(*ssa.Store)
				if !isStore {
					continue
				}
				pth, okp := rel(st.Addr, 0)
				if !okp {
					continue
				}
				fresh, deep, pointee, suffix := freshKind(st.Val)
				if _, isIface := st.Val.Type().Underlying().(*types.Interface); isIface {
					pth += suffix
				}
				if pointee != nil {
					if _, known := prefixOf[pointee]; !known && pointee != ret {
						prefixOf[pointee] = pth
					}
				}
				if fresh {
					stores = append(stores, freshStore{pth, deep, ge.p.Pos(st.Pos())})
				}
			}
		}
	}
	return stores, true
}

// copyMissing returns the reference paths of fn's result type that are not assigned fresh memory.
func (ge *GuardEngine) copyMissing(fn *ssa.Function, only func(string) bool, memo map[*ssa.Function][]string) []string {
	if fn.Signature.Results().Len() != 1 {
		return []string{"<not a single-result copy function>"}
	}
	stores, ok := ge.copyFreshness(fn, memo)
	if !ok {
		return []string{"<the result is not a local that the function builds>"}
	}
	var missing []string
	for _, p := range ge.p.refPaths(fn.Signature.Results().At(0).Type()) {
		if only != nil && !only(p) {
			continue
		}
		covered := false
		for _, s := range stores {
			if s.path == p || (s.deep && (strings.HasPrefix(p, s.path+".") || strings.HasPrefix(p, s.path+"["))) {
				covered = true
			}
		}
		if !covered {
			missing = append(missing, p)
		}
	}
	sort.Strings(missing)
	return missing
}

func c09DeepCopies(c *Ctx, ge *GuardEngine) {
	memo := map[*ssa.Function][]string{}
	proofOnly := func(p string) bool { return strings.HasSuffix(p, "MerkleProof") }
	n := 0
	for _, t := range []string{"StateElement", "ChainIndexElement", "SiacoinElement", "SiafundElement", "FileContractElement", "V2FileContractElement", "AttestationElement"} {
		fn := c.P.Func("types.(" + t + ").Copy")
		if fn == nil {
			c.Undecided("copy-is-deep", t+".Copy", "", "copy method does not resolve")
			continue
		}
		n++
		missing := ge.copyMissing(fn, proofOnly, memo)
		c.Check(len(missing) == 0, "copy-is-deep", t+".Copy", c.P.Pos(fn.Pos()), ifElse(len(missing) == 0, "the copy's proof memory is freshly allocated", fmt.Sprintf("%s.Copy() returns a value whose %v still shares its backing array with the original: in-place proof updates on the copy modify the caller's element", t, missing)))
	}
	fn := c.P.Func("types.(*V2Transaction).DeepCopy")
	if fn == nil {
		c.Undecided("copy-is-deep", "V2Transaction.DeepCopy", "", "DeepCopy does not resolve")
		return
	}
	missing := ge.copyMissing(fn, nil, memo)
	groups := map[string][]string{}
	for _, m := range missing {
		top := m
		if i := strings.IndexAny(m[1:], ".["); i >= 0 {
			top = m[:i+1]
		}
		groups[top] = append(groups[top], m)
	}
	for _, g := range sortedKeys(groups) {
		c.Fail("copy-is-deep", "V2Transaction.DeepCopy:"+g, c.P.Pos(fn.Pos()), fmt.Sprintf("DeepCopy's result shares %v with the original (documented: 'does not alias any of its memory'): mutation through the copy changes the original", groups[g]))
	}
	if len(missing) == 0 {
		c.OK("copy-is-deep", "V2Transaction.DeepCopy", c.P.Pos(fn.Pos()), fmt.Sprintf("all %d reference-typed paths of V2Transaction are assigned fresh memory", len(c.P.refPaths(fn.Signature.Results().At(0).Type()))))
	}
	c.Extra("deepcopy_ref_paths", c.P.refPaths(fn.Signature.Results().At(0).Type()))
}

// scratchLocal: a local whose whole value is never returned, stored elsewhere or boxed (its address may be lent
// to calls such as json.Unmarshal).
func scratchLocal(al *ssa.Alloc) bool {
	for _, r := range *al.Referrers() {
		switch x := r.(type) {
		case *ssa.UnOp:
			for _, rr := range *x.Referrers() {
				switch y := rr.(type) {
				case *ssa.Return, *ssa.MakeInterface, *ssa.Phi:
					return false
				case *ssa.Store:
					if y.Val == ssa.Value(x) {
						return false
					}
				}
			}
		case *ssa.MakeClosure:
			return false
		case *ssa.Store:
			if x.Val == ssa.Value(al) {
				return false
			}
		}
	}
	return true
}
