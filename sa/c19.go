package main

import (
	"fmt"
	"go/ast"
	"go/constant"
	"go/token"
	"go/types"
	"sort"
	"strings"

	"regexp"

	"golang.org/x/tools/go/ssa"
	"golang.org/x/tools/go/types/typeutil"
)

func init() { register("C19", runC19) }

func runC19(c *Ctx) {
	c.Explain("Decides the structural part of RPC framing. (size-algebra) For every rhp/v4 Object whose variable-length members are all bounded — by a limit the request's own Validate method enforces (extracted from its rejecting guards) or by a documented response bound that mirrors a bounded request member — the maximal encoded size computed from the extracted wire program (E1) with those bounds fits the limit the receiver applies: size <= maxLen() for requests, 1 + size <= RPCError.maxLen() + maxLen() for responses; maxLen() bodies are evaluated statically, sizeofX variables being replaced by the computed size of their argument's zero value. Objects with a member that no protocol limit bounds are listed, not passed. (bounded-reads) every types.NewDecoder over a connection in gateway and rhp v2/v3/v4 wraps an io.LimitedReader whose N derives from constants, a maxLen parameter or a max*Len method, and every length prefix read from the wire is compared against the limit before it sizes a buffer. (error-delivered) on each protocol's response path the error flag's true branch decodes the protocol's error type and makes it the returned error, and writers set the flag iff the object is an error. (tamper-closes) on every path where AEAD Open or the streamed tag comparison fails, setErr is called before returning, and setErr closes the connection. (registries) gateway idForObject/ObjectForID and rhp/v3 instructionID/instructionForID cover every implementer and invert each other; RPC and instruction specifiers are pairwise distinct. (handshake) validateHeader rejects a different genesis ID and an equal unique ID and both sides run it on the peer's header.")
	c.NotCovered("transport faithfulness as a run-time relation (ordering, concurrency inside the external mux module)", "objects with members unbounded by protocol (transaction sets, free-sector proofs, gateway blocks): their maxLen is a policy constant, listed under size-algebra as not checked", "cryptographic strength of the AEAD construction", "decoding to the same object (C11 decides the codec mirror)")
	ge := NewGuardEngine(c.P, c.Depth+2)
	c19Sizes(c, ge)
	c19BoundedReads(c, ge)
	c19Errors(c, ge)
	c19Tamper(c, ge)
	c19Frame(c, ge)
	c19MacTrailer(c)
	c19Direction(c)
	c19Registries(c)
	c19Handshake(c, ge)
}

// ---------- size algebra ----------

type sizer struct {
	c      *Ctx
	progs  map[string]*WireProg
	bounds map[string]int64 // path -> max element count / byte length
	zero   bool
	unb    []string
	undec  []string
	stack  []string
}

func (sz *sizer) encProg(typ string) *WireProg {
	for _, m := range []string{".EncodeTo", ".encodeTo"} {
		if wp := findMethodProg(sz.progs, typ+m); wp != nil && wp.Side == "enc" {
			return wp
		}
	}
	return nil
}

func (sz *sizer) bound(path string) (int64, bool) {
	if sz.zero {
		return 0, true
	}
	b, ok := sz.bounds[path]
	return b, ok
}

func (sz *sizer) ops(ops []Op, prefix string, depth int) int64 {
	var total int64
	for _, o := range ops {
		total += sz.op(o, prefix, depth)
	}
	return total
}

func joinPath(prefix, p string) string {
	if strings.HasPrefix(p, ".") || strings.HasPrefix(p, "[") {
		return prefix + p
	}
	if p == "" {
		return prefix
	}
	return prefix + "<" + p + ">"
}

func (sz *sizer) op(o Op, prefix string, depth int) int64 {
	if depth > 40 {
		sz.undec = append(sz.undec, "recursion too deep at "+prefix+o.Path)
		return 0
	}
	path := joinPath(prefix, o.Path)
	switch {
	case o.Kind == "u8" || o.Kind == "bool":
		return 1
	case o.Kind == "u64" || o.Kind == "time":
		return 8
	case strings.HasPrefix(o.Kind, "fixed:"):
		var n int64
		fmt.Sscanf(o.Kind, "fixed:%d", &n)
		return n
	case o.Kind == "bytes" || o.Kind == "string":
		if b, ok := sz.bound(path); ok {
			return 8 + b
		}
		sz.unb = append(sz.unb, path)
		return 8
	case o.Kind == "raw":
		if b, ok := sz.bound(path); ok {
			return b
		}
		sz.unb = append(sz.unb, path)
		return 0
	case o.Kind == "const":
		switch strings.SplitN(o.Typ, ":", 2)[0] {
		case "u8", "bool":
			return 1
		case "u64":
			return 8
		}
		sz.undec = append(sz.undec, "constant of unknown width "+o.Typ)
		return 0
	case o.Kind == "ref":
		typ := o.Typ
		for _, t := range sz.stack {
			if t == typ {
				sz.unb = append(sz.unb, path+" (recursive "+typ+")")
				return 0
			}
		}
		sz.stack = append(sz.stack, typ)
		defer func() { sz.stack = sz.stack[:len(sz.stack)-1] }()
		if isNonStdRef(typ) {
			if wp := findMethodProg(sz.progs, typ); wp != nil {
				return sz.ops(wp.Ops, path, depth+1)
			}
		}
		if wp := sz.encProg(typ); wp != nil {
			return sz.ops(wp.Ops, path, depth+1)
		}
		sz.undec = append(sz.undec, "no encoder program for "+typ)
		return 0
	case o.Kind == "slice":
		elem := sz.ops(o.Sub, prefix, depth+1)
		if b, ok := sz.bound(path); ok {
			return 8 + b*elem
		}
		sz.unb = append(sz.unb, path)
		return 8
	case o.Kind == "opt":
		if sz.zero {
			return 1
		}
		return 1 + sz.ops(o.Sub, prefix, depth+1)
	case o.Kind == "cond":
		sub := sz.ops(o.Sub, prefix, depth+1)
		if sz.zero && sub != 0 {
			sz.undec = append(sz.undec, "conditional field in a sizeof argument: "+o.Typ)
		}
		return sub
	case o.Kind == "switch":
		var mx int64
		for _, cs := range o.Cases {
			if n := sz.ops(cs.Ops, prefix, depth+1); n > mx {
				mx = n
			}
		}
		return mx
	case o.Kind == "fn" && strings.HasPrefix(o.Typ, "closure "):
		return sz.ops(o.Sub, prefix, depth+1)
	case o.Kind == "fn":
		// a plain module helper that takes the coder and a value
		if wp := sz.progs[o.Typ]; wp != nil && wp.Side == "enc" {
			for _, t := range sz.stack {
				if t == o.Typ {
					sz.unb = append(sz.unb, path+" (recursive "+o.Typ+")")
					return 0
				}
			}
			sz.stack = append(sz.stack, o.Typ)
			defer func() { sz.stack = sz.stack[:len(sz.stack)-1] }()
			return sz.ops(rerootPaths(wp.Ops, ""), path, depth+1)
		}
	case o.Kind == "dist" || o.Kind == "reset" || o.Kind == "sum":
		return 0
	case o.Kind == "dyn":
		sz.unb = append(sz.unb, path+" (interface-coded)")
		return 0
	case o.Kind == "loop":
		elem := sz.ops(o.Sub, prefix, depth+1)
		if b, ok := sz.bound(path); ok {
			return b * elem
		}
		sz.unb = append(sz.unb, path+" (loop)")
		return 0
	}
	sz.undec = append(sz.undec, "op "+o.Kind+" "+o.Typ+" at "+path)
	return 0
}

// response members bounded by the protocol, with the reason (confirmed by reading the host-side construction)
var c19ResponseBounds = map[string]struct {
	expr   string // constant name or literal
	reason string
}{
	"RPCReplenishAccountsResponse.Deposits": {"MaxAccountBatchSize", "one deposit per requested account; the request's account list is bounded by Validate"},
	"RPCFundAccountsResponse.Balances":      {"MaxAccountBatchSize", "one balance per requested deposit; the request's deposit list is bounded by Validate"},
	"RPCSectorRootsResponse.Roots":          {"MaxSectorBatchSize", "Length roots are returned and Validate rejects Length > MaxSectorBatchSize"},
	"RPCSectorRootsResponse.Proof":          {"128", "a range proof over at most 2^64 leaves has at most 2*64 hashes"},
	"RPCAppendSectorsResponse.SubtreeRoots": {"64", "one subtree root per set bit of a 64-bit sector count"},
	"RPCAppendSectorsResponse.Accepted":     {"MaxSectorBatchSize", "one flag per sector of the request, whose sector list is bounded by Validate"},
	"RPCReadSectorResponse.Proof":           {"32", "a range proof inside a sector of 2^16 leaves has at most 2*16 hashes"},
	"RPCVerifySectorResponse.Proof":         {"16", "a single-leaf proof inside a sector of 2^16 leaves has 16 hashes"},
}

func (c *Ctx) constInt(pkgSuffix, name string) (int64, bool) {
	p := c.P.Pkg(pkgSuffix)
	if p == nil {
		return 0, false
	}
	k, ok := p.Types.Scope().Lookup(name).(*types.Const)
	if !ok {
		return 0, false
	}
	return constant.Int64Val(constant.ToInt(k.Val()))
}

func c19Sizes(c *Ctx, ge *GuardEngine) {
	pkg := c.P.Pkg("rhp/v4")
	if pkg == nil {
		c.Undecided("size-algebra", "rhp/v4", "", "package does not load")
		return
	}
	progs := ExtractWirePrograms(c.P)
	objIface, _ := pkg.Types.Scope().Lookup("Object").Type().Underlying().(*types.Interface)
	if objIface == nil {
		c.Undecided("size-algebra", "Object", "", "rhp/v4.Object does not resolve")
		return
	}
	// sizeof variables
	sizeofs := map[types.Object]int64{}
	for _, f := range pkg.Syntax {
		for _, d := range f.Decls {
			gd, ok := d.(*ast.GenDecl)
			if !ok || gd.Tok != token.VAR {
				continue
			}
			for _, sp := range gd.Specs {
				vs := sp.(*ast.ValueSpec)
				for i, n := range vs.Names {
					if i >= len(vs.Values) || !strings.HasPrefix(n.Name, "sizeof") {
						continue
					}
					call, ok := vs.Values[i].(*ast.CallExpr)
					if !ok || len(call.Args) != 1 {
						continue
					}
					if id, ok := call.Fun.(*ast.Ident); !ok || id.Name != "sizeof" {
						continue
					}
					tn := sizeofArgType(pkg.TypesInfo, call.Args[0])
					if tn == "" {
						c.Undecided("size-algebra", n.Name, c.P.Pos(n.Pos()), "argument of sizeof is not a zero-value literal of a codec type")
						continue
					}
					sz := &sizer{c: c, progs: progs, zero: true}
					var size int64
					if wp := sz.encProg(tn); wp != nil {
						size = sz.ops(wp.Ops, "", 0)
					} else {
						sz.undec = append(sz.undec, "no encoder for "+tn)
					}
					if len(sz.undec) > 0 {
						c.Undecided("size-algebra", n.Name, c.P.Pos(n.Pos()), strings.Join(sz.undec, "; "))
						continue
					}
					sizeofs[pkg.TypesInfo.Defs[n]] = size
					c.OK("size-algebra", n.Name, c.P.Pos(n.Pos()), fmt.Sprintf("encoded size of the zero %s is %d bytes", tn, size))
				}
			}
		}
	}
	// maxLen evaluator
	evalBound := map[types.Object]int64{}
	var evalStack []*types.Func
	var evalInt func(e ast.Expr) (int64, bool)
	evalInt = func(e ast.Expr) (int64, bool) {
		e = stripParens(e)
		if tv, ok := pkg.TypesInfo.Types[e]; ok && tv.Value != nil {
			return constant.Int64Val(constant.ToInt(tv.Value))
		}
		switch x := e.(type) {
		case *ast.Ident:
			if v, ok := evalBound[pkg.TypesInfo.Uses[x]]; ok {
				return v, true
			}
			if v, ok := sizeofs[pkg.TypesInfo.Uses[x]]; ok {
				return v, true
			}
		case *ast.BinaryExpr:
			a, ok1 := evalInt(x.X)
			b, ok2 := evalInt(x.Y)
			if !ok1 || !ok2 {
				return 0, false
			}
			switch x.Op {
			case token.ADD:
				return a + b, true
			case token.SUB:
				return a - b, true
			case token.MUL:
				return a * b, true
			case token.SHL:
				return a << uint(b), true
			case token.QUO:
				if b != 0 {
					return a / b, true
				}
			}
		case *ast.CallExpr:
			if len(x.Args) == 1 {
				if tv, ok := pkg.TypesInfo.Types[x.Fun]; ok && tv.IsType() {
					return evalInt(x.Args[0])
				}
			}
			// a size helper of the package: a function whose body is one returned integer expression of its parameters
			if fn, _ := typeutil.Callee(pkg.TypesInfo, x).(*types.Func); fn != nil && fn.Pkg() == pkg.Types && len(evalStack) < 4 {
				if fd, _ := c.P.Decl(fn); fd != nil && fd.Body != nil && len(fd.Body.List) == 1 && fd.Recv == nil {
					rs, isRet := fd.Body.List[0].(*ast.ReturnStmt)
					var formals []types.Object
					for _, f := range fd.Type.Params.List {
						for _, n := range f.Names {
							formals = append(formals, pkg.TypesInfo.Defs[n])
						}
					}
					if isRet && len(rs.Results) == 1 && len(formals) == len(x.Args) {
						vals := make([]int64, len(x.Args))
						for i, a := range x.Args {
							v, ok := evalInt(a)
							if !ok {
								return 0, false
							}
							vals[i] = v
						}
						saved := map[types.Object]int64{}
						for i, f := range formals {
							if old, had := evalBound[f]; had {
								saved[f] = old
							}
							evalBound[f] = vals[i]
						}
						evalStack = append(evalStack, fn)
						v, ok := evalInt(rs.Results[0])
						evalStack = evalStack[:len(evalStack)-1]
						for _, f := range formals {
							delete(evalBound, f)
						}
						for f, old := range saved {
							evalBound[f] = old
						}
						return v, ok
					}
				}
			}
		}
		return 0, false
	}
	maxLenOf := func(named *types.Named) (int64, token.Pos, bool) {
		for _, f := range pkg.Syntax {
			for _, d := range f.Decls {
				fd, ok := d.(*ast.FuncDecl)
				if !ok || fd.Name.Name != "maxLen" || fd.Recv == nil || fd.Body == nil || len(fd.Body.List) == 0 {
					continue
				}
				t := fd.Recv.List[0].Type
				if st, ok := t.(*ast.StarExpr); ok {
					t = st.X
				}
				if id, ok := t.(*ast.Ident); !ok || id.Name != named.Obj().Name() {
					continue
				}
				if rs, ok := fd.Body.List[len(fd.Body.List)-1].(*ast.ReturnStmt); ok && len(rs.Results) == 1 && len(fd.Body.List) == 1 {
					v, ok := evalInt(rs.Results[0])
					return v, fd.Pos(), ok
				}
				return 0, fd.Pos(), false
			}
		}
		return 0, token.NoPos, false
	}
	errType, _ := pkg.Types.Scope().Lookup("RPCError").Type().(*types.Named)
	errMax := int64(0)
	if errType != nil {
		if v, _, ok := maxLenOf(errType); ok {
			errMax = v
		}
	}
	if errMax == 0 {
		c.Undecided("size-algebra", "RPCError.maxLen", "", "error limit does not evaluate")
	}
	checked, listed := 0, 0
	names := pkg.Types.Scope().Names()
	sort.Strings(names)
	for _, name := range names {
		tn, ok := pkg.Types.Scope().Lookup(name).(*types.TypeName)
		if !ok {
			continue
		}
		named, ok := tn.Type().(*types.Named)
		if !ok || !types.Implements(types.NewPointer(named), objIface) {
			continue
		}
		if _, isStruct := named.Underlying().(*types.Struct); !isStruct {
			continue
		}
		limit, pos, ok := maxLenOf(named)
		where := c.P.Pos(pos)
		if !ok {
			c.Undecided("size-algebra", name, where, "maxLen() is not a statically evaluable expression")
			continue
		}
		isResp := strings.Contains(name, "Response") || name == "RPCError"
		enc := findMethodProg(progs, "rhp/v4."+name+".encodeTo")
		if enc == nil {
			c.Undecided("size-algebra", name, where, "encodeTo wire program not found")
			continue
		}
		if len(enc.Opaque) > 0 {
			c.Undecided("size-algebra", name, where, "wire program has unmodelled constructs: "+strings.Join(enc.Opaque, "; "))
			continue
		}
		bounds := map[string]int64{}
		var why []string
		// request bounds from Validate
		if vfn := c.P.Func("rhp/v4.(*" + name + ").Validate"); vfn != nil {
			for _, g := range ge.Guards(vfn, nil, nil, nil, 0, map[*ssa.Function]int{}) {
				pre := "len({rhp/v4." + name + "}"
				if !strings.HasPrefix(g.L, pre) || !strings.HasSuffix(g.L, ")") || !strings.HasPrefix(g.R, "const:") {
					continue
				}
				var k int64
				if _, err := fmt.Sscanf(strings.TrimPrefix(g.R, "const:"), "%d", &k); err != nil {
					continue
				}
				switch g.Op {
				case ">":
				case ">=":
					k--
				default:
					continue
				}
				field := strings.TrimSuffix(strings.TrimPrefix(g.L, pre), ")")
				if old, ok := bounds[field]; !ok || k < old {
					bounds[field] = k
					why = append(why, fmt.Sprintf("%s <= %d (Validate, %s)", field, k, c.P.Pos(g.Pos)))
				}
			}
		}
		for key, rb := range c19ResponseBounds {
			if !strings.HasPrefix(key, name+".") || rb.expr == "" {
				continue
			}
			field := strings.TrimPrefix(key, name)
			if st, ok := named.Underlying().(*types.Struct); ok {
				has := false
				for i := 0; i < st.NumFields(); i++ {
					if "."+st.Field(i).Name() == field {
						has = true
					}
				}
				if !has {
					c.Undecided("size-algebra", name+field+":bound", where, "the documented response bound names a field that no longer exists")
					continue
				}
			}
			var k int64
			if _, err := fmt.Sscanf(rb.expr, "%d", &k); err != nil {
				v, ok := c.constInt("rhp/v4", rb.expr)
				if !ok {
					c.Undecided("size-algebra", name, where, "bound constant "+rb.expr+" does not resolve")
					continue
				}
				k = v
			}
			bounds[field] = k
			why = append(why, fmt.Sprintf("%s <= %s (%s)", field, rb.expr, rb.reason))
		}
		sz := &sizer{c: c, progs: progs, bounds: bounds}
		size := sz.ops(enc.Ops, "", 0)
		if len(sz.undec) > 0 {
			c.Undecided("size-algebra", name, where, strings.Join(sz.undec, "; "))
			continue
		}
		if len(sz.unb) > 0 {
			listed++
			sort.Strings(sz.unb)
			c.Info("size-algebra", name, where, fmt.Sprintf("not checked: members unbounded by protocol (%s); limit %d is a policy constant", strings.Join(sz.unb, ", "), limit))
			continue
		}
		checked++
		need, have := size, limit
		form := "size <= maxLen()"
		if isResp && name != "RPCError" {
			need, have = size+1, errMax+limit
			form = "1 + size <= RPCError.maxLen() + maxLen()"
		}
		sort.Strings(why)
		ok2 := need <= have
		c.Check(ok2, "size-algebra", name, where, ifElse(ok2, fmt.Sprintf("%s: maximal valid encoding %d <= %d%s", form, need, have, ifElse(len(why) > 0, " with "+strings.Join(why, "; "), "")), fmt.Sprintf("a maximal valid %s encodes to %d bytes but the receiver stops reading after %d (%s; %s)", name, need, have, form, strings.Join(why, "; "))))
	}
	c.Extra("size_algebra_checked", checked)
	c.Extra("size_algebra_unbounded_listed", listed)
	c.Check(checked >= 20, "size-algebra", "inventory", "", fmt.Sprintf("%d objects decided, %d listed as unbounded by protocol", checked, listed))
}

// sizeofArgType: T{} or types.EncoderFunc(T{}.encodeTo) -> "pkg.T"
func sizeofArgType(info *types.Info, e ast.Expr) string {
	zeroLit := func(x ast.Expr) string { // T{}, &T{}, new(T)
		x = stripParens(x)
		if u, ok := x.(*ast.UnaryExpr); ok && u.Op == token.AND {
			x = stripParens(u.X)
		}
		if cl, ok := x.(*ast.CompositeLit); ok && len(cl.Elts) == 0 {
			return typeName(info.TypeOf(cl))
		}
		if call, ok := x.(*ast.CallExpr); ok && len(call.Args) == 1 {
			if id, ok := call.Fun.(*ast.Ident); ok && id.Name == "new" {
				return typeName(info.TypeOf(call.Args[0]))
			}
		}
		return ""
	}
	e = stripParens(e)
	if t := zeroLit(e); t != "" {
		return t
	}
	// types.EncoderFunc(T{}.encodeTo) / (&T{}).encodeTo
	if call, ok := e.(*ast.CallExpr); ok && len(call.Args) == 1 {
		if sel, ok := stripParens(call.Args[0]).(*ast.SelectorExpr); ok {
			return zeroLit(sel.X)
		}
	}
	return ""
}

// ---------- bounded reads ----------

func c19BoundedReads(c *Ctx, ge *GuardEngine) {
	n := 0
	perFn := map[string]int{}
	for _, fn := range SortedFuncs(c.P.AllFuncs()) {
		if !c.P.InModule(fn) || fn.Pkg == nil || fn.Synthetic != "" {
			continue
		}
		rp := relPkg(fn.Pkg.Pkg)
		if rp != "gateway" && rp != "rhp/v2" && rp != "rhp/v3" && rp != "rhp/v4" {
			continue
		}
		for _, b := range fn.Blocks {
			for _, in := range b.Instrs {
				call, ok := in.(*ssa.Call)
				if !ok {
					continue
				}
				callee := call.Call.StaticCallee()
				if callee == nil || FuncName(callee) != "types.NewDecoder" || len(call.Call.Args) != 1 {
					continue
				}
				n++
				fname := FuncName(fn)
				perFn[fname]++
				inst := fmt.Sprintf("%s#%d", fname, perFn[fname])
				where := c.P.Pos(call.Pos())
				// the argument is an io.LimitedReader value: find the store to its N field
				limit := ""
				if lr := limitedReaderN(call.Call.Args[0]); lr != nil {
					ge.pv.loadCtx = []ssa.Instruction{call}
					limit = ge.pv.Atom(lr, nil)
				}
				wire := map[string]bool{"(rhp/v2.Transport).readMessage": true, "(rhp/v2.Transport).RawResponse": true, "(rhp/v3.Stream).readObject": true}
				ok2 := limit != "" && boundedAtom(limit, wire[fname])
				// a helper that is handed a limit must use it
				for _, prm := range fn.Params {
					// decoder helpers: one NewDecoder, a callback that consumes it, and the limit as a parameter
					hasCallback := false
					for _, q := range fn.Params {
						if _, isFn := q.Type().Underlying().(*types.Signature); isFn {
							hasCallback = true
						}
					}
					if countCallsTo(fn, "types.NewDecoder") != 1 || !hasCallback {
						break
					}
					if b, ok := prm.Type().Underlying().(*types.Basic); ok && (b.Kind() == types.Int || b.Kind() == types.Uint64) && strings.Contains(strings.ToLower(prm.Name()), "len") {
						if !strings.Contains(limit, "{int}") && !strings.Contains(limit, "{uint64}") {
							ok2 = false
							limit += " (the " + prm.Name() + " parameter is ignored)"
						}
					}
				}
				c.Check(ok2, "bounded-reads", inst, where, ifElse(ok2, "decoder reads at most N = "+shortStr(limit, 120), "types.NewDecoder is given a reader whose limit is "+ifElse(limit == "", "not an io.LimitedReader{N: …} literal", limit)+": a peer can make the receiver read without bound"))
			}
		}
	}
	c.Check(n >= 6, "bounded-reads", "inventory", "", fmt.Sprintf("%d decoders over connections analysed", n))
	// rhp/v4: the limits the size algebra assumes are the ones the transport applies
	for _, e := range []struct{ fn, want, what string }{
		{"rhp/v4.ReadRequest", "call invoke rhp/v4.Object.maxLen({rhp/v4.Object})", "o.maxLen()"},
		{"rhp/v4.ReadResponse", "(call (rhp/v4.RPCError).maxLen(…) + call invoke rhp/v4.Object.maxLen({rhp/v4.Object}))", "RPCError.maxLen() + o.maxLen()"},
	} {
		cs, fn := directCalls(ge, e.fn)
		if fn == nil {
			c.Undecided("bounded-reads", e.fn+":limit", "", "anchor does not resolve")
			continue
		}
		got := ""
		for _, cf := range cs {
			if cf.Callee != nil && FuncName(cf.Callee) == "rhp/v4.withDecoder" {
				// the limit is the integer parameter, wherever it stands
				for i, prm := range cf.Callee.Params {
					if b, ok := prm.Type().Underlying().(*types.Basic); ok && b.Info()&types.IsInteger != 0 && i < len(cf.Args) {
						got = cf.Args[i]
					}
				}
			}
		}
		ok := mustRe(pat(e.want)).MatchString(got)
		c.Check(ok, "bounded-reads", e.fn+":limit", c.P.Pos(fn.Pos()), ifElse(ok, "reads at most "+e.what, e.fn+" reads at most "+got+", but valid messages are sized against "+e.what))
	}
	// length prefixes compared against the limit before sizing a buffer
	tab := []GuardReq{
		req("v2-readMessage:size-vs-limit", "rhp/v2.(*Transport).readMessage", "call (types.Decoder).ReadUint64(…)", opGT, "…{uint64}…", "a frame longer than the caller's limit is rejected before its buffer is grown", "…"),
		req("v2-readMessage:size-vs-overhead", "rhp/v2.(*Transport).readMessage", "call (types.Decoder).ReadUint64(…)", opLT, "…", "a frame shorter than nonce + tag is rejected", "…"),
		req("v2-RawResponse:size-vs-limit", "rhp/v2.(*Transport).RawResponse", "call (types.Decoder).ReadUint64(…)", opGT, "…{uint64}…", "a streamed frame longer than the caller's limit is rejected", "…"),
		req("v2-RawResponse:size-vs-overhead", "rhp/v2.(*Transport).RawResponse", "call (types.Decoder).ReadUint64(…)", opLT, "…", "a streamed frame shorter than nonce + tag is rejected before the subtraction", "…"),
		req("v3-readObject:size-vs-limit", "rhp/v3.(*Stream).readObject", "call (types.Decoder).ReadUint64(…)", opGT, "…{uint64}…", "a declared length above the limit is rejected", "…"),
	}
	runGuardTable(c, "bounded-reads", ge, tab)
}

func shortStr(s string, n int) string {
	if len(s) > n {
		return s[:n-3] + "..."
	}
	return s
}

// limitedReaderN finds the value stored into field N of the io.LimitedReader passed (by value, through an
// interface) to NewDecoder.
func limitedReaderN(v ssa.Value) ssa.Value {
	for i := 0; i < 6; i++ {
		switch x := v.(type) {
		case *ssa.MakeInterface:
			v = x.X
			continue
		case *ssa.ChangeInterface:
			v = x.X
			continue
		case *ssa.UnOp:
			if x.Op == token.MUL {
				if al, ok := x.X.(*ssa.Alloc); ok {
					if !strings.HasSuffix(al.Type().String(), "io.LimitedReader") {
						return nil
					}
					for _, ref := range *al.Referrers() {
						fa, ok := ref.(*ssa.FieldAddr)
						if !ok || fa.Field != 1 {
							continue
						}
						for _, r2 := range *fa.Referrers() {
							if st, ok := r2.(*ssa.Store); ok && st.Addr == fa {
								return st.Val
							}
						}
					}
				}
			}
		}
		break
	}
	return nil
}

var (
	maxLenCallRe = regexp.MustCompile(`call (invoke )?[^ ()]*(\([^()]*\))?\.?max(Len|RequestLen|ResponseLen)\([^()]*\)`)
	wireLenRe    = regexp.MustCompile(`call \(types\.Decoder\)\.ReadUint64\(call types\.NewDecoder\(lit\{[^{}]*(\{[^{}]*\})?[^{}]*\}\)\)`)
	boundTokRe   = regexp.MustCompile(`const:-?\d+|\{u?int(64)?\}(#\d+)?|phi\(|call (max|min)\(|[|+\-(), ]`)
)

// boundedAtom: the limit is built from constants, integer parameters, max*Len methods, + and - only;
// allowWire additionally admits a length prefix read from the wire (the function must then carry the
// size-vs-limit guard, which is a separate obligation).
func boundedAtom(a string, allowWire bool) bool {
	s := a
	for i := 0; i < 8; i++ {
		n := maxLenCallRe.ReplaceAllString(s, "")
		if allowWire {
			n = wireLenRe.ReplaceAllString(n, "")
		}
		if n == s {
			break
		}
		s = n
	}
	s = boundTokRe.ReplaceAllString(s, "")
	return strings.TrimSpace(s) == ""
}

// ---------- error responses ----------

func c19Errors(c *Ctx, ge *GuardEngine) {
	// rhp/v4: ReadResponse sets the decoded RPCError as the decoder's error under the flag; WriteResponse writes the flag from the dynamic type
	if fn := c.P.Func("rhp/v4.ReadResponse"); fn != nil {
		c.NoteFunc(FuncName(fn))
		found := false
		for _, an := range fn.AnonFuncs {
			for _, b := range an.Blocks {
				for _, in := range b.Instrs {
					call, ok := in.(*ssa.Call)
					if !ok || call.Call.StaticCallee() == nil || FuncName(call.Call.StaticCallee()) != "(types.Decoder).SetErr" || len(call.Call.Args) != 2 {
						continue
					}
					mi, ok := call.Call.Args[1].(*ssa.MakeInterface)
					if !ok || !strings.HasSuffix(mi.X.Type().String(), "RPCError") {
						continue
					}
					// under the true edge of ReadBool, and the block returns without decoding the object
					for d := b; d != nil; d = d.Idom() {
						id := d.Idom()
						if id == nil || len(id.Instrs) == 0 {
							break
						}
						if ifi, ok := id.Instrs[len(id.Instrs)-1].(*ssa.If); ok && condMentionsCall(ifi.Cond, "ReadBool", 0) && edgeDominates(id, 0, b) {
							found = blockReturns(b)
						}
					}
				}
			}
		}
		c.Check(found, "error-delivered", "rhp/v4.ReadResponse", c.P.Pos(fn.Pos()), ifElse(found, "flag set: an *RPCError is decoded and becomes the decoder's (and so the function's) error", "when the error flag is set, ReadResponse does not decode an RPCError and return it as the error"))
		as := ge.ReturnAtoms(fn, 0)
		ok := len(as) == 1 && strings.HasPrefix(as[0], "call rhp/v4.withDecoder(")
		c.Check(ok, "error-delivered", "rhp/v4.ReadResponse:returns-decoder-error", c.P.Pos(fn.Pos()), ifElse(ok, "returns withDecoder's result, i.e. d.Err()", "ReadResponse returns "+joinShort(as)))
	} else {
		c.Undecided("error-delivered", "rhp/v4.ReadResponse", "", "anchor does not resolve")
	}
	if fn := c.P.Func("rhp/v4.withDecoder"); fn != nil {
		as := ge.ReturnAtoms(fn, 0)
		ok := len(as) == 1 && strings.HasPrefix(as[0], "call (types.Decoder).Err(")
		c.Check(ok, "error-delivered", "rhp/v4.withDecoder", c.P.Pos(fn.Pos()), ifElse(ok, "returns the decoder's sticky error", "withDecoder returns "+joinShort(as)+" instead of d.Err()"))
	}
	if fn := c.P.Func("rhp/v4.WriteResponse"); fn != nil {
		found := false
		for _, an := range fn.AnonFuncs {
			for _, cf := range ge.Calls(an, nil, nil, nil, 0, map[*ssa.Function]int{}) {
				if cf.Callee != nil && FuncName(cf.Callee) == "(types.Encoder).WriteBool" && len(cf.Chain) == 1 && len(cf.Args) == 2 && strings.HasPrefix(cf.Args[1], "ok:") && strings.Contains(cf.Args[1], "RPCError") {
					found = true
				}
			}
		}
		c.Check(found, "error-delivered", "rhp/v4.WriteResponse", c.P.Pos(fn.Pos()), ifElse(found, "the error flag written is 'the object is an *RPCError'", "WriteResponse does not derive the error flag from the object's dynamic type"))
	} else {
		c.Undecided("error-delivered", "rhp/v4.WriteResponse", "", "anchor does not resolve")
	}
	// rhp/v2, rhp/v3: the response wrapper's error is returned when present
	tab := []GuardReq{
		req("rhp/v2.ReadResponse", "rhp/v2.(*Transport).ReadResponse", "…err", opNE, "nil", "an error response is returned as that error", "…"),
		req("rhp/v3.readObject", "rhp/v3.(*Stream).readObject", "…err", opNE, "nil", "an error response is returned as that error", "…"),
	}
	for i := range tab {
		tab[i].Weak = true
		// neither branch of this test rejects outright (one returns nil, the other the wrapper's error), so the
		// spelling "err != nil { return err }" and "err == nil { return nil }" are the same test
		tab[i].Ops = []string{"!=", "=="}
	}
	runGuardTable(c, "error-delivered", ge, tab)
	for _, e := range []struct{ fn, pat string }{{"rhp/v2.(*Transport).ReadResponse", "….err"}, {"rhp/v3.(*Stream).readObject", "….err"}} {
		if fn := c.P.Func(e.fn); fn != nil {
			as := ge.ReturnAtoms(fn, 0)
			ok := false
			for _, a := range as {
				for _, alt := range splitPhi(a) {
					if mustRe(pat(e.pat)).MatchString(alt) || strings.HasSuffix(alt, ".err") {
						ok = true
					}
				}
			}
			c.Check(ok, "error-delivered", e.fn+":returns-wrapper-error", c.P.Pos(fn.Pos()), ifElse(ok, "the decoded wrapper's err field is among the returned values", e.fn+" never returns the decoded response error: "+joinShort(as)))
			// and no path on which the wrapper's error is known to be set returns nil
			swallowed := ""
			fi := ge.info(fn)
			for _, b := range fn.Blocks {
				if len(b.Instrs) == 0 {
					continue
				}
				ret, isRet := b.Instrs[len(b.Instrs)-1].(*ssa.Return)
				if !isRet || len(ret.Results) == 0 {
					continue
				}
				k, isConst := ret.Results[len(ret.Results)-1].(*ssa.Const)
				if !isConst || !k.IsNil() {
					continue
				}
				for _, cd := range ge.domConds(fi, b, nil) {
					if strings.HasSuffix(cd.L, ".err") && cd.Op == "!=" && cd.R == "nil" {
						swallowed = c.P.Pos(ret.Pos())
					}
				}
			}
			c.Check(swallowed == "", "error-delivered", e.fn+":error-not-swallowed", c.P.Pos(fn.Pos()), ifElse(swallowed == "", "no return of nil where the wrapper's error is known to be set", "returns nil at "+swallowed+" although the response carried an error"))
		}
	}
	c.Min("error-delivered", 9)
}

// ---------- tampering ----------

func c19Tamper(c *Ctx, ge *GuardEngine) {
	// every block that returns after a failed Open / tag mismatch has called setErr
	type site struct{ fn, what, cond string }
	for _, s := range []site{
		{"rhp/v2.(*Transport).readMessage", "AEAD Open failure", "Open"},
		{"rhp/v2.(*ResponseReader).VerifyTag", "tag mismatch", "ConstantTimeCompare"},
	} {
		fn := c.P.Func(s.fn)
		if fn == nil {
			c.Undecided("tamper-closes", s.fn, "", "anchor does not resolve")
			continue
		}
		c.NoteFunc(FuncName(fn))
		// locate the If testing the result of the named call
		found, ok := false, false
		why := s.what + " returns without setErr: the session stays usable after a modified frame"
		for _, b := range fn.Blocks {
			if len(b.Instrs) == 0 {
				continue
			}
			ifi, isIf := b.Instrs[len(b.Instrs)-1].(*ssa.If)
			if !isIf || !condMentionsCall(ifi.Cond, s.cond, 0) {
				continue
			}
			found = true
			// failing successor: the one that reaches a return without passing the other successor's normal flow:
			// pick the successor whose block (or its unique chain) returns a non-nil error
			for _, succ := range b.Succs {
				if blockCallsNamed(succ, "setErr") && blockReturns(succ) {
					ok = true
					// the recorded error must be the failure itself (setErr(nil) is a no-op)
					if arg := namedCallArg(succ, "setErr"); arg != nil && !isFailureValue(arg, ifi.Cond) {
						ok = false
						why = "setErr is called with a value that is not the detected failure (a nil error leaves the session open)"
					}
				}
			}
		}
		if !found {
			c.Undecided("tamper-closes", s.fn, c.P.Pos(fn.Pos()), "no branch on the result of "+s.cond+" found")
			continue
		}
		c.Check(ok, "tamper-closes", s.fn, c.P.Pos(fn.Pos()), ifElse(ok, s.what+" records the error with setErr before returning it", why))
	}
	// setErr closes the connection
	if fn := c.P.Func("rhp/v2.(*Transport).setErr"); fn != nil {
		closes, records := false, false
		for _, b := range fn.Blocks {
			for _, in := range b.Instrs {
				if call, ok := in.(*ssa.Call); ok && call.Call.IsInvoke() && call.Call.Method.Name() == "Close" {
					closes = true
				}
				if st, ok := in.(*ssa.Store); ok {
					if fa, ok := st.Addr.(*ssa.FieldAddr); ok {
						if pt, ok := fa.X.Type().Underlying().(*types.Pointer); ok {
							if sx, ok := pt.Elem().Underlying().(*types.Struct); ok && sx.Field(fa.Field).Name() == "err" {
								records = true
							}
						}
					}
				}
			}
		}
		closes = closes && records
		c.Check(closes, "tamper-closes", "rhp/v2.(*Transport).setErr", c.P.Pos(fn.Pos()), ifElse(closes, "setErr closes the connection on a fatal error", "setErr no longer closes the connection"))
	} else {
		c.Undecided("tamper-closes", "rhp/v2.(*Transport).setErr", "", "anchor does not resolve")
	}
	// once closed/errored, no further message is processed
	tab := []GuardReq{
		req("readMessage:refuses-after-error", "rhp/v2.(*Transport).readMessage", "call (rhp/v2.Transport).PrematureCloseErr(…)", opNE, "nil", "a session that recorded an error refuses further reads", "…"),
		req("writeMessage:refuses-after-error", "rhp/v2.(*Transport).writeMessage", "call (rhp/v2.Transport).PrematureCloseErr(…)", opNE, "nil", "a session that recorded an error refuses further writes", "…"),
	}
	runGuardTable(c, "tamper-closes", ge, tab)
	c.Min("tamper-closes", 5)
}

func condMentionsCall(v ssa.Value, name string, depth int) bool {
	if depth > 4 {
		return false
	}
	switch x := v.(type) {
	case *ssa.Call:
		if x.Call.IsInvoke() {
			return x.Call.Method.Name() == name
		}
		if f := x.Call.StaticCallee(); f != nil {
			return f.Name() == name
		}
	case *ssa.Extract:
		return condMentionsCall(x.Tuple, name, depth+1)
	case *ssa.BinOp:
		return condMentionsCall(x.X, name, depth+1) || condMentionsCall(x.Y, name, depth+1)
	case *ssa.UnOp:
		return condMentionsCall(x.X, name, depth+1)
	}
	return false
}

func blockCallsNamed(b *ssa.BasicBlock, name string) bool {
	for _, in := range b.Instrs {
		if call, ok := in.(*ssa.Call); ok {
			if f := call.Call.StaticCallee(); f != nil && f.Name() == name {
				return true
			}
			// method value / field of function type named setErr
			if ua, ok := call.Call.Value.(*ssa.UnOp); ok {
				if fa, ok := ua.X.(*ssa.FieldAddr); ok {
					if st, ok := fa.X.Type().Underlying().(*types.Pointer); ok {
						if s, ok := st.Elem().Underlying().(*types.Struct); ok && s.Field(fa.Field).Name() == name {
							return true
						}
					}
				}
			}
		}
	}
	return false
}

func blockReturns(b *ssa.BasicBlock) bool {
	seen := map[*ssa.BasicBlock]bool{}
	for cur := b; cur != nil && !seen[cur]; {
		seen[cur] = true
		if len(cur.Instrs) == 0 {
			return false
		}
		switch t := cur.Instrs[len(cur.Instrs)-1].(type) {
		case *ssa.Return:
			return true
		case *ssa.Jump:
			cur = cur.Succs[0]
			_ = t
			continue
		}
		return false
	}
	return false
}

// ---------- registries ----------

func c19Registries(c *Ctx) {
	// gateway: idForObject (type switch -> specifier) and ObjectForID (specifier switch -> new(T))
	regPair(c, "gateway", "idForObject", "ObjectForID", "Object")
	regPair(c, "rhp/v3", "instructionID", "instructionForID", "Instruction")
	// specifiers pairwise distinct within each protocol package
	for _, suffix := range []string{"gateway", "rhp/v2", "rhp/v3", "rhp/v4"} {
		pkg := c.P.Pkg(suffix)
		if pkg == nil {
			continue
		}
		seen := map[string]string{}
		n := 0
		var dups []string
		for _, f := range pkg.Syntax {
			for _, d := range f.Decls {
				gd, ok := d.(*ast.GenDecl)
				if !ok || gd.Tok != token.VAR {
					continue
				}
				for _, sp := range gd.Specs {
					vs := sp.(*ast.ValueSpec)
					for i, nm := range vs.Names {
						if i >= len(vs.Values) {
							continue
						}
						call, ok := vs.Values[i].(*ast.CallExpr)
						if !ok || len(call.Args) != 1 {
							continue
						}
						fn, _ := typeutil.Callee(pkg.TypesInfo, call).(*types.Func)
						if fn == nil || fn.Name() != "NewSpecifier" {
							continue
						}
						tv := pkg.TypesInfo.Types[call.Args[0]]
						if tv.Value == nil {
							continue
						}
						// group: RPC ids vs instruction ids vs others by name prefix
						group := "other"
						switch {
						case strings.HasPrefix(nm.Name, "RPC") || strings.HasPrefix(nm.Name, "rpc") || strings.HasPrefix(nm.Name, "id"):
							group = "rpc"
						case strings.HasPrefix(nm.Name, "idInstr"):
							group = "instr"
						}
						if strings.HasPrefix(nm.Name, "idInstr") {
							group = "instr"
						}
						n++
						key := group + ":" + constant.StringVal(tv.Value)
						if prev, ok := seen[key]; ok {
							dups = append(dups, nm.Name+" = "+prev+" = "+constant.StringVal(tv.Value))
						}
						seen[key] = nm.Name
					}
				}
			}
		}
		if n > 0 {
			c.Check(len(dups) == 0, "registries", suffix+":distinct-specifiers", "", ifElse(len(dups) == 0, fmt.Sprintf("%d specifiers pairwise distinct", n), "two RPCs/instructions share a specifier: "+strings.Join(dups, "; ")))
		}
	}
	c.Min("registries", 5)
}

// regPair checks that toID (type switch over implementers returning an identifier) and fromID (switch over
// identifiers returning a new value) cover every implementer of iface and invert each other.
func regPair(c *Ctx, suffix, toID, fromID, ifaceName string) {
	pkg := c.P.Pkg(suffix)
	if pkg == nil {
		c.Undecided("registries", suffix, "", "package does not load")
		return
	}
	info := pkg.TypesInfo
	var toDecl, fromDecl *ast.FuncDecl
	for _, f := range pkg.Syntax {
		for _, d := range f.Decls {
			if fd, ok := d.(*ast.FuncDecl); ok && fd.Recv == nil {
				if fd.Name.Name == toID {
					toDecl = fd
				}
				if fd.Name.Name == fromID {
					fromDecl = fd
				}
			}
		}
	}
	if toDecl == nil || fromDecl == nil {
		c.Undecided("registries", suffix+":"+toID+"/"+fromID, "", "registry functions do not resolve")
		return
	}
	// type -> id expression text
	t2id := map[string]string{}
	ast.Inspect(toDecl.Body, func(n ast.Node) bool {
		ts, ok := n.(*ast.TypeSwitchStmt)
		if !ok {
			return true
		}
		for _, cc := range ts.Body.List {
			cl := cc.(*ast.CaseClause)
			if len(cl.List) == 0 || len(cl.Body) == 0 {
				continue
			}
			rs, ok := cl.Body[len(cl.Body)-1].(*ast.ReturnStmt)
			if !ok || len(rs.Results) == 0 {
				continue
			}
			for _, te := range cl.List {
				t2id[strings.TrimPrefix(typeName(info.TypeOf(te)), "*")] = identKey(info, rs.Results[0])
			}
		}
		return true
	})
	id2t := map[string]map[string]bool{}
	ast.Inspect(fromDecl.Body, func(n ast.Node) bool {
		ss, ok := n.(*ast.SwitchStmt)
		if !ok {
			return true
		}
		for _, cc := range ss.Body.List {
			cl := cc.(*ast.CaseClause)
			if len(cl.List) == 0 || len(cl.Body) == 0 {
				continue
			}
			ts := map[string]bool{}
			for _, st := range cl.Body {
				ast.Inspect(st, func(m ast.Node) bool {
					if rs, ok := m.(*ast.ReturnStmt); ok && len(rs.Results) > 0 {
						ts[strings.TrimPrefix(typeName(info.TypeOf(rs.Results[0])), "*")] = true
					}
					return true
				})
			}
			for _, ie := range cl.List {
				id2t[identKey(info, ie)] = ts
			}
		}
		return true
	})
	where := c.P.Pos(toDecl.Pos())
	if len(t2id) == 0 || len(id2t) == 0 {
		c.Undecided("registries", suffix+":"+toID+"/"+fromID, where, "registry functions are not switch tables")
		return
	}
	var bad []string
	for t, id := range t2id {
		if back, ok := id2t[id]; !ok {
			bad = append(bad, fromID+" does not know "+id+" ("+t+")")
		} else if !back[t] {
			bad = append(bad, id+" is written for "+t+" but never decodes to it")
		}
	}
	for id, ts := range id2t {
		for t := range ts {
			if fwd, ok := t2id[t]; !ok {
				bad = append(bad, toID+" does not know "+t)
			} else if fwd != id {
				bad = append(bad, t+" is written as "+fwd+" but "+id+" decodes to it")
			}
		}
	}
	// every implementer is registered
	if io, ok := pkg.Types.Scope().Lookup(ifaceName).(*types.TypeName); ok {
		if iface, ok := io.Type().Underlying().(*types.Interface); ok {
			for _, t := range c.P.Implementers(iface) {
				tn := strings.TrimPrefix(typeName(t), "*")
				if !strings.HasPrefix(tn, suffix+".") {
					continue
				}
				if n, ok := t.(*types.Named); ok && !n.Obj().Exported() {
					continue
				}
				if pt, ok := t.(*types.Pointer); ok {
					if n, ok := pt.Elem().(*types.Named); ok && !n.Obj().Exported() {
						continue
					}
				}
				if _, ok := t2id[tn]; !ok {
					bad = append(bad, tn+" implements "+ifaceName+" but has no identifier")
				}
			}
		}
	}
	sort.Strings(bad)
	c.Check(len(bad) == 0, "registries", suffix+":"+toID+"/"+fromID, where, ifElse(len(bad) == 0, fmt.Sprintf("%d types and %d identifiers invert each other and cover every implementer", len(t2id), len(id2t)), strings.Join(bad, "; ")))
}

func identKey(info *types.Info, e ast.Expr) string {
	e = stripParens(e)
	switch x := e.(type) {
	case *ast.Ident:
		if o := info.Uses[x]; o != nil {
			return o.Name()
		}
	case *ast.SelectorExpr:
		return x.Sel.Name
	}
	return types.ExprString(e)
}

// ---------- handshake ----------

func c19Handshake(c *Ctx, ge *GuardEngine) {
	tab := []GuardReq{
		req("genesis-mismatch", "gateway.validateHeader", "{gateway.Header#2}.GenesisID", opNE, "{gateway.Header}.GenesisID", "a peer on a different network is rejected"),
		req("same-unique-id", "gateway.validateHeader", "{gateway.Header#2}.UniqueID", opEQ, "{gateway.Header}.UniqueID", "a connection to ourselves is rejected"),
		req("readHeader:validates", "gateway.readHeader", "call gateway.validateHeader({gateway.Header}, …)", opNE, "nil", "the peer's header is validated before it is accepted", "…"),
		req("writeHeader:acceptance", "gateway.writeHeader", "…", opNE, "const:\"accept\"", "our header must be accepted by the peer", "…"),
	}
	runGuardTable(c, "handshake", ge, tab)
	for _, f := range []string{"gateway.Dial", "gateway.Accept"} {
		cs, fn := directCalls(ge, f)
		if fn == nil {
			c.Undecided("handshake", f, "", "anchor does not resolve")
			continue
		}
		r, w := false, false
		for _, cf := range cs {
			if cf.Callee != nil && FuncName(cf.Callee) == "gateway.readHeader" {
				r = true
			}
			if cf.Callee != nil && FuncName(cf.Callee) == "gateway.writeHeader" {
				w = true
			}
		}
		c.Check(r && w, "handshake", f+":exchanges-headers", c.P.Pos(fn.Pos()), ifElse(r && w, "reads (and validates) the peer's header and writes ours", f+" skips the header exchange"))
		// the mux is established only after both succeeded: guards on their errors
		gs, _ := ge.EntryGuards(f)
		n := 0
		for _, g := range gs {
			if !g.Weak && (strings.HasPrefix(g.L, "call gateway.readHeader(") || strings.HasPrefix(g.L, "call gateway.writeHeader(")) && g.Op == "!=" {
				n++
			}
		}
		c.Check(n == 2, "handshake", f+":aborts-on-failure", c.P.Pos(fn.Pos()), fmt.Sprintf("%d of 2 header steps abort the handshake on error", n))
	}
	c.Min("handshake", 8)
}

func countCallsTo(fn *ssa.Function, name string) int {
	n := 0
	for _, b := range fn.Blocks {
		for _, in := range b.Instrs {
			if call, ok := in.(*ssa.Call); ok {
				if f := call.Call.StaticCallee(); f != nil && FuncName(f) == name {
					n++
				}
			}
		}
	}
	return n
}

// namedCallArg returns the last argument of the first call to a function / func-typed field called name in b.
func namedCallArg(b *ssa.BasicBlock, name string) ssa.Value {
	for _, in := range b.Instrs {
		call, ok := in.(*ssa.Call)
		if !ok || len(call.Call.Args) == 0 {
			continue
		}
		if f := call.Call.StaticCallee(); f != nil && f.Name() == name {
			return call.Call.Args[len(call.Call.Args)-1]
		}
		if ua, ok := call.Call.Value.(*ssa.UnOp); ok {
			if fa, ok := ua.X.(*ssa.FieldAddr); ok {
				if st, ok := fa.X.Type().Underlying().(*types.Pointer); ok {
					if sx, ok := st.Elem().Underlying().(*types.Struct); ok && sx.Field(fa.Field).Name() == name {
						return call.Call.Args[len(call.Call.Args)-1]
					}
				}
			}
		}
	}
	return nil
}

// isFailureValue: v is the error the branch condition tested against nil, or a freshly constructed error.
func isFailureValue(v ssa.Value, cond ssa.Value) bool {
	if call, ok := v.(*ssa.Call); ok {
		if f := call.Call.StaticCallee(); f != nil && f.Pkg != nil {
			pp := f.Pkg.Pkg.Path()
			if (pp == "errors" && f.Name() == "New") || (pp == "fmt" && f.Name() == "Errorf") {
				return true
			}
		}
	}
	if bo, ok := cond.(*ssa.BinOp); ok {
		return bo.X == v || bo.Y == v
	}
	return false
}
