package main

import (
	"fmt"
	"go/ast"
	"go/token"
	"go/types"
	"golang.org/x/tools/go/packages"
	"golang.org/x/tools/go/types/typeutil"
	"regexp"
	"strings"

	"golang.org/x/tools/go/ssa"
)

func init() { register("C07", runC07) }

func c07Table() []GuardReq {
	var t []GuardReq
	add := func(r GuardReq) { t = append(t, r) }
	lowerOrEq := []string{"<", "<="} // "never lower its revision number": both boundaries are within the statement
	fceRev := v1Elem("fileContractElement", "FileContractRevisions") + "#0.FileContract"
	add(req("v1-revision-number", VT, "%T1%.FileContractRevisions[*].FileContract.RevisionNumber", lowerOrEq, fceRev+".RevisionNumber", "accepted revisions never lower the revision number"))
	rev := "%T2%.FileContractRevisions[*]"
	cur := func(f string) string {
		return "phi(%MS%.v2fces[%MS%.elements[" + rev + ".Parent.ID]].Revision." + f + "|" + rev + ".Parent.V2FileContract." + f + ")"
	}
	add(req("v2-revision-number", V2T, rev+".Revision.RevisionNumber", lowerOrEq, cur("RevisionNumber"), "accepted revisions never lower the revision number (compared with the contract as it currently stands)"))
	add(req("v2-revision-missed-host", V2T, rev+".Revision.MissedHostValue", opGT, cur("MissedHostValue"), "a v2 revision never raises the host's missed value"))
	add(req("v2-revision-missed-host-cap", V2T, rev+".Revision.MissedHostValue", opGT, rev+".Revision.HostOutput.Value", "from the ephemeral-output fix height on, a revision's missed host value never exceeds its own valid host value (an expiry never pays more than the contract holds)", "%CH% >= %NET%.HardforkV2.EphemeralOutputHeight"))
	add(req("v2-revision-collateral", V2T, rev+".Revision.TotalCollateral", opNE, cur("TotalCollateral"), "a v2 revision never alters total collateral"))
	for _, fc := range []string{"%T2%.FileContracts[*]", "%T2%.FileContractResolutions[*].Resolution.(types.V2FileContractRenewal).NewContract"} {
		id := "new"
		if strings.Contains(fc, "Renewal") {
			id = "renewal"
		}
		add(req("v2-"+id+"-contract-missed-host", V2T, fc+".MissedHostValue", opGT, fc+".HostOutput.Value", "the missed host value never exceeds the valid host value"))
		add(req("v2-"+id+"-contract-collateral", V2T, fc+".TotalCollateral", opGT, fc+".HostOutput.Value", "total collateral never exceeds the host's valid value"))
	}
	// storage proofs are checked against the root and size committed in the contract
	fceSP := v1Elem("fileContractElement", "StorageProofs") + "#0.FileContract"
	wid := "call (consensus.MidState).storageProofWindowID(%MS%, {consensus.V1TransactionSupplement}, %T1%.StorageProofs[*].ParentID)#0"
	li := "call (consensus.State).StorageProofLeafIndex(%ST%, " + fceSP + ".Filesize, " + wid + ", %T1%.StorageProofs[*].ParentID)"
	r := req("v1-proof-root", VT, "…", opNE, fceSP+".FileMerkleRoot",
		"a v1 storage proof must prove the leaf chosen by the chain-derived challenge (window ID, contract ID, committed size) under the root committed in the contract",
		"call closure %ID%$%ID%(…) != nil", "call consensus.%ID%(…%T1%.StorageProofs[*].Leaf…) != nil") // an empty file has no leaf to prove (post storage-proof hardfork)
	// root(leafIndex, filesize, leafHash(leafIndex, filesize, Leaf), Proof): closures or named helpers, any
	// argument order, the state as an optional extra argument
	stOpt := []*regexp.Regexp{regexp.MustCompile(pat("%ST%"))}
	r.Skip = pats(fceSP + ".Filesize == const:0") // the same exemption tested directly on the committed size
	r.LFn = func(a string) bool {
		leafHash := func(b string) bool {
			return callArgSet(b, []func(string) bool{reMatcher(li), reMatcher(fceSP + ".Filesize"), reMatcher("%T1%.StorageProofs[*].Leaf")}, stOpt)
		}
		return callArgSet(a, []func(string) bool{reMatcher(li), reMatcher(fceSP + ".Filesize"), leafHash, reMatcher("%T1%.StorageProofs[*].Proof")}, stOpt)
	}
	add(r)
	res := "%T2%.FileContractResolutions[*]"
	sp := res + ".Resolution.(types.V2StorageProof)"
	pfc := res + ".Parent.V2FileContract"
	add(req("v2-proof-root", V2T, "call consensus.storageProofRoot("+sp+".Proof, call (consensus.State).StorageProofLeafHash(%ST%, "+sp+".Leaf), call (consensus.State).StorageProofLeafIndex(%ST%, "+pfc+".Filesize, "+sp+".ProofIndex.ChainIndex.ID, "+res+".Parent.ID), "+pfc+".Filesize)", opNE, pfc+".FileMerkleRoot",
		"a v2 storage proof must prove the leaf chosen by the chain-derived challenge (proof-index block ID, contract ID, committed size) under the root committed in the contract", "ok:"+sp+" is true"))
	return t
}

func runC07(c *Ctx) {
	c.Explain("Decides the structural clauses of 'contracts pay out exactly once, totals fixed; storage proofs against the committed root': (1) resolution -> payout table: each resolution kind creates exactly the outputs the property assigns to it (valid outputs on a proof; final outputs on renewal; renter output and missed host output on expiration; missed outputs on v1 expiry), under the right ID derivation, delayed by the maturity period — branch-sensitively; (2) every consumer of the resolution sum type handles all three kinds; (3) revision guard inventory (revision number never lowered — both < and <= discharge it —, missed host value never raised, collateral unchanged, bounds on new contracts) with must-pass-through; the value-preservation equations are shared with C01; (4) the proof root is compared with the parent contract's FileMerkleRoot and the challenged leaf index is derived from the parent's Filesize, the contract ID and a chain-derived ID; (5) revise recorders store the revision on every path (the latest accepted revision is what later pays out), resolve recorders keep the contract. Single resolution is decided under C02's guards, which this check re-evaluates. The tree arithmetic of the proof verifier is not decided.")
	c.NotCovered("that the verifier's tree arithmetic accepts exactly the honest proofs for every shape and era (numeric)", "prover side (BuildProof)")
	ge := NewGuardEngine(c.P, c.Depth+4)
	tab := c07Table()
	// single resolution: the C02 rows about contracts
	for _, r := range c02Table() {
		if strings.Contains(r.ID, "StorageProofs") || strings.Contains(r.ID, "FileContractRe") || strings.Contains(r.ID, "ExpiringFileContracts") {
			tab = append(tab, r)
		}
	}
	runGuardTable(c, "contract-guard", ge, tab)
	c.Min("contract-guard", len(tab))
	c07ChallengeReduction(c)
	c02StalePointers(c) // "resolved at most once": the resolved mark must reach the MidState's slice
	valueSources(c, ge, "payout", map[string]bool{"v1-storage-proof-valid-outputs": true, "v1-expiry-missed-outputs": true, "v2-resolution-renter": true, "v2-resolution-host": true})
	// totals fixed: the value-preservation equations
	cache := map[string][]Guard{}
	for _, eq := range c01Equations() {
		if !(strings.Contains(eq.ID, "revision") || strings.Contains(eq.ID, "renewal") || strings.Contains(eq.ID, "contract")) {
			continue
		}
		gs, ok := cache[eq.Entry]
		if !ok {
			gs, _ = ge.EntryGuards(eq.Entry)
			cache[eq.Entry] = gs
		}
		ge.CheckEquation(c, "total-fixed", eq, gs)
	}
	c.Min("total-fixed", 6)
	c07Exhaustive(c)
	c07Recorders(c, ge)
	c07ProofRootOrder(c)
}

// c07ProofRootOrder: in a storage-proof Merkle path the proof hash at height i is the LEFT sibling exactly
// when bit i of the leaf index is set or i is at/above the height of the ragged subtree
// (bits.Len64(leafIndex ^ lastLeafIndex)). The v1 verifier decides this with one condition inside its loop;
// the condition only compares (bit i, i vs subtreeHeight), so it is evaluated over all 6 orderings.
func c07ProofRootOrder(c *Ctx) {
	// the loop is identified by what it does (chooses between SumPair(h, root) and SumPair(root, h) by a condition that
	// compares the loop index with a threshold), wherever a refactoring has put it — any package of the module
	found := false
	for _, pkg := range c.P.Pkgs {
		if c07ProofRootOrderIn(c, pkg) {
			found = true
		}
	}
	if !found {
		c.Undecided("proof-root-order", "v1", "", "no loop choosing between SumPair(h, root) and SumPair(root, h) by the loop index and a subtree-height threshold found in the module")
	}
	c.Min("proof-root-order", 7)
}

func c07ProofRootOrderIn(c *Ctx, pkg *packages.Package) bool {
	info := pkg.TypesInfo
	var fds []*ast.FuncDecl
	for _, f := range pkg.Syntax {
		for _, d := range f.Decls {
			if fd, ok := d.(*ast.FuncDecl); ok && fd.Body != nil {
				fds = append(fds, fd)
			}
		}
	}
	isSumPair := func(e ast.Expr) (*ast.CallExpr, bool) {
		call, ok := stripParens(e).(*ast.CallExpr)
		if !ok || len(call.Args) != 2 {
			return nil, false
		}
		f, _ := typeutil.Callee(info, call).(*types.Func)
		return call, f != nil && f.Name() == "SumPair" && f.Pkg() != nil && strings.HasSuffix(f.Pkg().Path(), "/blake2b")
	}
	found := false
	for _, fd := range fds {
		ast.Inspect(fd.Body, func(n ast.Node) bool {
			rs, ok := n.(*ast.RangeStmt)
			if !ok || rs.Key == nil || rs.Value == nil {
				return true
			}
			key, _ := rs.Key.(*ast.Ident)
			val, _ := rs.Value.(*ast.Ident)
			if key == nil || val == nil {
				return true
			}
			// if cond { root = SumPair(a,b) } else { root = SumPair(b,a) }
			for _, st := range rs.Body.List {
				ifs, ok := st.(*ast.IfStmt)
				if !ok || ifs.Else == nil || len(ifs.Body.List) != 1 {
					continue
				}
				els, ok := ifs.Else.(*ast.BlockStmt)
				if !ok || len(els.List) != 1 {
					continue
				}
				order := func(s ast.Stmt) string { // "hash-left" when the proof hash is the first argument
					as, ok := s.(*ast.AssignStmt)
					if !ok || len(as.Rhs) != 1 {
						return ""
					}
					call, ok := isSumPair(as.Rhs[0])
					if !ok {
						return ""
					}
					a0, _ := stripParens(call.Args[0]).(*ast.Ident)
					a1, _ := stripParens(call.Args[1]).(*ast.Ident)
					if a0 != nil && info.Uses[a0] == info.Defs[val] {
						return "hash-left"
					}
					if a1 != nil && info.Uses[a1] == info.Defs[val] {
						return "hash-right"
					}
					return ""
				}
				thenO, elseO := order(ifs.Body.List[0]), order(els.List[0])
				if thenO == "" || elseO == "" || thenO == elseO {
					continue
				}
				// only the ragged-tree verifier compares the index with a threshold; the plain proofRoot does not
				if probe := (&bitCmpEval{info: info, idx: info.Defs[key]}); true {
					probe.cond(ifs.Cond)
					if probe.threshold == nil {
						continue
					}
				}
				found = true
				where := c.P.Pos(ifs.Pos())
				// evaluate the condition on the 6 abstract cases
				for _, bit := range []int{0, 1} {
					for _, cmp := range []int{-1, 0, 1} {
						ev := &bitCmpEval{info: info, idx: info.Defs[key], bit: bit, cmp: cmp}
						res := ev.cond(ifs.Cond)
						inst := fmt.Sprintf("v1:bit=%d,i%ssubtreeHeight", bit, map[int]string{-1: "<", 0: "=", 1: ">"}[cmp])
						if len(ev.unsup) > 0 {
							c.Undecided("proof-root-order", inst, where, "condition uses a construct outside (bit test of the leaf index at i, comparison of i with the subtree height): "+strings.Join(ev.unsup, "; "))
							continue
						}
						got := elseO
						if res {
							got = thenO
						}
						want := "hash-right"
						if bit == 1 || cmp >= 0 {
							want = "hash-left"
						}
						c.Check(got == want, "proof-root-order", inst, where, ifElse(got == want, "proof hash is the "+strings.TrimPrefix(want, "hash-")+" sibling", "the proof hash is hashed as the "+strings.TrimPrefix(got, "hash-")+" sibling, but at this position it is the "+strings.TrimPrefix(want, "hash-")+" one: honest proofs of ragged files are rejected (or wrong leaves accepted)"))
					}
				}
				// the threshold is the ragged-subtree height
				if ev := (&bitCmpEval{info: info, idx: info.Defs[key]}); true {
					ev.cond(ifs.Cond)
					ok := ev.threshold != nil && isSubtreeHeight(info, fd, ev.threshold)
					c.Check(ok, "proof-root-order", "v1:threshold", where, ifElse(ok, "i is compared with bits.Len64(leafIndex ^ lastLeafIndex(filesize))", "the loop index is not compared with bits.Len64(leafIndex ^ lastLeafIndex(filesize))"))
				}
			}
			return true
		})
	}
	return found
}

type bitCmpEval struct {
	info      *types.Info
	idx       types.Object
	bit, cmp  int
	unsup     []string
	threshold ast.Expr
}

func (ev *bitCmpEval) isIdx(e ast.Expr) bool {
	id, ok := stripParens(e).(*ast.Ident)
	return ok && ev.info.Uses[id] == ev.idx
}

// bitTest: x&(1<<i) or (x>>i)&1
func (ev *bitCmpEval) bitTest(e ast.Expr) bool {
	be, ok := stripParens(e).(*ast.BinaryExpr)
	if !ok || be.Op != token.AND {
		return false
	}
	for _, side := range []ast.Expr{be.X, be.Y} {
		if sh, ok := stripParens(side).(*ast.BinaryExpr); ok && (sh.Op == token.SHL || sh.Op == token.SHR) && ev.isIdx(sh.Y) {
			return true
		}
	}
	return false
}

func (ev *bitCmpEval) cond(e ast.Expr) bool {
	e = stripParens(e)
	switch x := e.(type) {
	case *ast.UnaryExpr:
		if x.Op == token.NOT {
			return !ev.cond(x.X)
		}
	case *ast.BinaryExpr:
		switch x.Op {
		case token.LOR:
			a, b := ev.cond(x.X), ev.cond(x.Y)
			return a || b
		case token.LAND:
			a, b := ev.cond(x.X), ev.cond(x.Y)
			return a && b
		}
		isZero := func(e ast.Expr) bool {
			tv, ok := ev.info.Types[e]
			return ok && tv.Value != nil && tv.Value.ExactString() == "0"
		}
		if ev.bitTest(x.X) && isZero(x.Y) {
			switch x.Op {
			case token.NEQ, token.GTR:
				return ev.bit == 1
			case token.EQL:
				return ev.bit == 0
			}
		}
		if ev.isIdx(x.X) || ev.isIdx(x.Y) {
			s := ev.cmp
			other := x.Y
			if ev.isIdx(x.Y) {
				s = -s
				other = x.X
			}
			if !ev.isIdx(other) {
				ev.threshold = other
				if r, ok := cmpHolds(x.Op, s); ok {
					return r
				}
			}
		}
	}
	ev.unsup = append(ev.unsup, types.ExprString(e))
	return false
}

// isSubtreeHeight: e is (a local defined as) bits.Len64(a ^ b)
func isSubtreeHeight(info *types.Info, fd *ast.FuncDecl, e ast.Expr) bool {
	isLenXor := func(x ast.Expr) bool {
		call, ok := stripParens(x).(*ast.CallExpr)
		if !ok || len(call.Args) != 1 {
			return false
		}
		f, _ := typeutil.Callee(info, call).(*types.Func)
		if f == nil || f.Pkg() == nil || f.Pkg().Path() != "math/bits" || f.Name() != "Len64" {
			return false
		}
		be, ok := stripParens(call.Args[0]).(*ast.BinaryExpr)
		return ok && be.Op == token.XOR
	}
	if isLenXor(e) {
		return true
	}
	id, ok := stripParens(e).(*ast.Ident)
	if !ok {
		return false
	}
	obj := info.Uses[id]
	res := false
	ast.Inspect(fd.Body, func(n ast.Node) bool {
		as, ok := n.(*ast.AssignStmt)
		if !ok || len(as.Lhs) != 1 || len(as.Rhs) != 1 {
			return true
		}
		if lid, ok := as.Lhs[0].(*ast.Ident); ok && (info.Defs[lid] == obj || info.Uses[lid] == obj) && isLenXor(as.Rhs[0]) {
			res = true
		}
		return true
	})
	return res
}

// c07Exhaustive: every type switch over the resolution sum type (and over the policy sum type for
// C14, see there) handles every implementer or has a rejecting/panicking default.
func sumTypeSwitches(c *Ctx, rule, ifacePkg, ifaceName string, min int) {
	pkg := c.P.Pkg(ifacePkg)
	if pkg == nil {
		c.Undecided(rule, "anchor", "", "package does not resolve")
		return
	}
	tn, _ := pkg.Types.Scope().Lookup(ifaceName).(*types.TypeName)
	if tn == nil {
		c.Undecided(rule, "anchor", "", ifaceName+" does not resolve")
		return
	}
	sumTypeSwitchesOn(c, rule, tn.Type(), ifaceName, min)
}

// sumTypeSwitchesOn checks every type switch whose subject has exactly the given interface type.
func sumTypeSwitchesOn(c *Ctx, rule string, target types.Type, ifaceName string, min int) {
	p := c.P
	iface, _ := target.Underlying().(*types.Interface)
	if iface == nil {
		c.Undecided(rule, "anchor", "", ifaceName+" is not an interface")
		return
	}
	impls := p.Implementers(iface)
	n := 0
	for _, pk := range p.Pkgs {
		if strings.Contains(pk.PkgPath, "internal/") {
			continue
		}
		for _, f := range pk.Syntax {
			var fnName string
			ast.Inspect(f, func(nd ast.Node) bool {
				if fd, ok := nd.(*ast.FuncDecl); ok {
					fnName = fd.Name.Name
					if fd.Recv != nil && len(fd.Recv.List) > 0 {
						fnName = types.ExprString(fd.Recv.List[0].Type) + "." + fnName
					}
				}
				ts, ok := nd.(*ast.TypeSwitchStmt)
				if !ok {
					return true
				}
				var subj ast.Expr
				switch a := ts.Assign.(type) {
				case *ast.AssignStmt:
					subj = a.Rhs[0].(*ast.TypeAssertExpr).X
				case *ast.ExprStmt:
					subj = a.X.(*ast.TypeAssertExpr).X
				}
				st := pk.TypesInfo.TypeOf(subj)
				if st == nil || !types.Identical(st, target) {
					return true
				}
				n++
				handled := map[string]bool{}
				hasDefault, defaultRejects := false, false
				for _, cc := range ts.Body.List {
					cl := cc.(*ast.CaseClause)
					if cl.List == nil {
						hasDefault = true
						defaultRejects = clauseRejects(cl, pk.TypesInfo, subj)
					}
					for _, e := range cl.List {
						if t := pk.TypesInfo.TypeOf(e); t != nil {
							handled[typeName(t)] = true
						}
					}
				}
				var missing []string
				for _, im := range impls {
					if !handled[typeName(im)] {
						missing = append(missing, typeName(im))
					}
				}
				inst := relPkg(pk.Types) + "." + fnName
				why, partialOK := partialSwitchOK[inst]
				if ln := strings.ToLower(fnName); !partialOK && (strings.Contains(ln, "copy") || strings.Contains(ln, "clone")) {
					why, partialOK = "copy helper: only the kinds that own reference memory need cloning (that the copy is complete is decided under C09 copy-is-deep)", true
				}
				if partialOK {
					c.Info(rule, inst, p.Pos(ts.Pos()), "partial by design: "+why)
					n--
					return true
				}
				ok = len(missing) == 0 || (hasDefault && defaultRejects)
				c.Check(ok, rule, inst, p.Pos(ts.Pos()), ifElse(ok, fmt.Sprintf("handles all %d kinds (or rejects the rest)", len(impls)), fmt.Sprintf("type switch over %s does not handle %v and its default (if any) neither rejects nor looks at the value: that kind is silently mishandled here", ifaceName, missing)))
				return true
			})
		}
	}
	c.Min(rule, min)
}

// switches that are partial by design: one named symbol with its reason
var partialSwitchOK = map[string]string{
	"types.*V2Transaction.DeepCopy":         "only resolution kinds that own memory are cloned; an expiration is a zero-size value",
	"types.SpendPolicy.deepCopy":            "only the kinds that own reference memory (threshold children, unlock-condition keys) need cloning; the others are plain values",
	"types.V2TransactionSemantics.EncodeTo": "normalisation step only (strips signatures / the history proof from the kinds that carry them); every kind is then encoded by the resolution's own EncodeTo",
}

// clauseRejects: the default clause deals with the kinds it receives: it rejects them (panic, recorded or
// returned error) or it processes the switched value itself (it mentions the switch subject or the variable
// bound to it). A default that merely leaves, or that lumps all remaining kinds into one constant outcome
// without looking at the value, silently mishandles a kind that has no case of its own.
func clauseRejects(cl *ast.CaseClause, info *types.Info, subj ast.Expr) bool {
	var root types.Object
	for e := stripParens(subj); e != nil; {
		switch x := e.(type) {
		case *ast.Ident:
			root = info.Uses[x]
			e = nil
		case *ast.SelectorExpr:
			e = stripParens(x.X)
		case *ast.IndexExpr:
			e = stripParens(x.X)
		case *ast.StarExpr:
			e = stripParens(x.X)
		case *ast.CallExpr:
			if len(x.Args) > 0 {
				e = stripParens(x.Args[0])
			} else {
				e = nil
			}
		default:
			e = nil
		}
	}
	bound := info.Implicits[cl]
	handles := false
	for _, s := range cl.Body {
		ast.Inspect(s, func(n ast.Node) bool {
			switch x := n.(type) {
			case *ast.CallExpr:
				if id, ok := x.Fun.(*ast.Ident); ok && id.Name == "panic" {
					handles = true
				}
				if sel, ok := x.Fun.(*ast.SelectorExpr); ok && (sel.Sel.Name == "SetErr" || sel.Sel.Name == "Errorf" || sel.Sel.Name == "New") {
					handles = true
				}
			case *ast.ReturnStmt:
				if len(x.Results) > 0 {
					last := stripParens(x.Results[len(x.Results)-1])
					if t := info.TypeOf(last); t != nil && isErrorType(t) {
						if id, ok := last.(*ast.Ident); !ok || id.Name != "nil" {
							handles = true // a sentinel, a constructed or a propagated error
						}
					}
				}
			case *ast.Ident:
				if o := info.Uses[x]; o != nil && (o == root || o == bound) {
					handles = true
				}
			}
			return true
		})
	}
	return handles
}

func c07Exhaustive(c *Ctx) {
	sumTypeSwitches(c, "resolution-exhaustive", "types", "V2FileContractResolutionType", 5)
}

// c07Recorders: a revise recorder stores the revision it is given on every normal path.
func c07Recorders(c *Ctx, ge *GuardEngine) {
	n := 0
	for _, fn := range SortedFuncs(c.P.AllFuncs()) {
		if !c.P.InModule(fn) || fn.Pkg == nil || relPkg(fn.Pkg.Pkg) != "consensus" || strings.Contains(fn.Name(), "JSON") || fn.Synthetic != "" {
			continue
		}
		diffT := ""
		for _, st := range fieldStores(fn, "Revision") {
			if fa, ok := st.Addr.(*ssa.FieldAddr); ok && strings.HasSuffix(typeName(fa.X.Type()), "FileContractElementDiff") {
				diffT = typeName(fa.X.Type())
			}
		}
		if diffT == "" || len(fn.Params) < 3 {
			continue
		}
		n++
		// the revision parameter: the last parameter (a contract value)
		revParam := fn.Params[len(fn.Params)-1]
		revAtom := paramName(revParam)
		storing := map[*ssa.BasicBlock]bool{}
		for _, b := range fn.Blocks {
			for _, in := range b.Instrs {
				st, ok := in.(*ssa.Store)
				if !ok {
					continue
				}
				va := ge.pv.Atom(st.Val, nil)
				if va != revAtom && !strings.HasPrefix(va, revAtom) && !(strings.HasPrefix(va, "lit{") && false) {
					continue
				}
				// stores into the diff record (through the record pointer) or through the diff's Revision pointer
				aa := ""
				switch a := st.Addr.(type) {
				case *ssa.FieldAddr:
					aa = ge.pv.addrAtom(a, nil)
				default:
					aa = ge.pv.Atom(st.Addr, nil)
				}
				if strings.Contains(aa, "FileContract") || strings.Contains(aa, "Revision") {
					if _, isLocal := st.Addr.(*ssa.Alloc); !isLocal {
						storing[b] = true
					}
				}
			}
		}
		// is there a normal path avoiding all storing blocks?
		bad := false
		seen := map[*ssa.BasicBlock]bool{}
		stack := []*ssa.BasicBlock{fn.Blocks[0]}
		for len(stack) > 0 {
			b := stack[len(stack)-1]
			stack = stack[:len(stack)-1]
			if seen[b] || storing[b] {
				continue
			}
			seen[b] = true
			if len(b.Instrs) > 0 {
				if _, ok := b.Instrs[len(b.Instrs)-1].(*ssa.Return); ok {
					bad = true
					break
				}
			}
			stack = append(stack, b.Succs...)
		}
		c.Check(!bad, "revision-recorded", FuncName(fn), c.P.Pos(fn.Pos()), ifElse(!bad, "the revision is stored into the diff on every normal path", "some path through the revise recorder returns without storing the revision it was given: a later resolution pays out an older revision"))
	}
	c.Min("revision-recorded", 2)
}
