package main

// E7: type-path enumeration and sum-type (closed interface) implementers.

import (
	"go/types"
	"sort"
	"strings"
)

type LeafPath struct {
	Path string
	Type types.Type
}

var atomicStructs = map[string]bool{"types.Currency": true, "types.V1Currency": true, "types.V2Currency": true, "time.Time": true, "types.SpendPolicy": true}

// Implementers lists the module's named types T such that T or *T implements iface (sorted).
func (p *Program) Implementers(iface *types.Interface) []types.Type {
	var out []types.Type
	for _, pkg := range p.Pkgs {
		sc := pkg.Types.Scope()
		for _, n := range sc.Names() {
			tn, ok := sc.Lookup(n).(*types.TypeName)
			if !ok || tn.IsAlias() {
				continue
			}
			t := tn.Type()
			if _, isIface := t.Underlying().(*types.Interface); isIface {
				continue
			}
			if types.Implements(t, iface) {
				out = append(out, t)
			} else if types.Implements(types.NewPointer(t), iface) {
				out = append(out, types.NewPointer(t))
			}
		}
	}
	sort.Slice(out, func(i, j int) bool { return typeName(out[i]) < typeName(out[j]) })
	return out
}

// LeafPaths enumerates every access path from t down to atomic leaves.
func (p *Program) LeafPaths(t types.Type, prefix string) []LeafPath {
	var out []LeafPath
	seen := map[string]bool{}
	var walk func(t types.Type, prefix string, depth int)
	walk = func(t types.Type, prefix string, depth int) {
		if depth > 12 {
			out = append(out, LeafPath{prefix, t})
			return
		}
		tn := typeName(t)
		if atomicStructs[tn] {
			out = append(out, LeafPath{prefix, t})
			return
		}
		switch u := t.Underlying().(type) {
		case *types.Struct:
			key := prefix + "|" + tn
			if seen[key] {
				return
			}
			seen[key] = true
			if u.NumFields() == 0 {
				return
			}
			for i := 0; i < u.NumFields(); i++ {
				f := u.Field(i)
				walk(f.Type(), prefix+"."+f.Name(), depth+1)
			}
		case *types.Pointer:
			walk(u.Elem(), prefix, depth+1)
		case *types.Slice:
			if b, ok := u.Elem().Underlying().(*types.Basic); ok && b.Kind() == types.Byte {
				out = append(out, LeafPath{prefix, t})
				return
			}
			walk(u.Elem(), prefix+"[*]", depth+1)
		case *types.Array:
			if b, ok := u.Elem().Underlying().(*types.Basic); ok && b.Kind() == types.Byte {
				out = append(out, LeafPath{prefix, t})
				return
			}
			walk(u.Elem(), prefix+"[*]", depth+1)
		case *types.Interface:
			for _, impl := range p.Implementers(u) {
				walk(impl, prefix+".("+typeName(impl)+")", depth+1)
			}
		default:
			out = append(out, LeafPath{prefix, t})
		}
	}
	walk(t, prefix, 0)
	return out
}

func (p *Program) NamedType(pkgSuffix, name string) *types.Named {
	pkg := p.Pkg(pkgSuffix)
	if pkg == nil {
		return nil
	}
	tn, ok := pkg.Types.Scope().Lookup(name).(*types.TypeName)
	if !ok {
		return nil
	}
	n, _ := tn.Type().(*types.Named)
	return n
}

func hasPrefixAny(s string, ps ...string) bool {
	for _, p := range ps {
		if strings.HasPrefix(s, p) {
			return true
		}
	}
	return false
}
