package main

import (
	"fmt"
	"go/ast"
	"go/token"
	"go/types"
	"os"
	"path/filepath"
	"sort"
	"strings"

	"golang.org/x/tools/go/callgraph"
	"golang.org/x/tools/go/callgraph/cha"
	"golang.org/x/tools/go/callgraph/vta"
	"golang.org/x/tools/go/packages"
	"golang.org/x/tools/go/ssa"
	"golang.org/x/tools/go/ssa/ssautil"
)

const modPath = "go.sia.tech/core"

// Program is the loaded, type-checked and SSA-built view of /repo as it stands.
type Program struct {
	Repo   string
	Fset   *token.FileSet
	Pkgs   []*packages.Package // module packages only, sorted by path
	ByPath map[string]*packages.Package
	SSA    *ssa.Program
	SSAPkg map[string]*ssa.Package
	cg     *callgraph.Graph
	GOARCH string

	allFuncs map[*ssa.Function]bool
	funcDecl map[*types.Func]*ast.FuncDecl
	declPkg  map[*ast.FuncDecl]*packages.Package
}

type LoadConfig struct {
	Repo    string
	GOARCH  string
	Overlay map[string][]byte
}

func goEnv(arch string) []string {
	env := []string{}
	for _, kv := range os.Environ() {
		k := strings.SplitN(kv, "=", 2)[0]
		switch k {
		case "GOFLAGS", "GOPROXY", "GOSUMDB", "GOTOOLCHAIN", "GOWORK", "GOARCH", "GOOS", "PATH", "CGO_ENABLED":
			continue
		}
		env = append(env, kv)
	}
	env = append(env,
		"GOFLAGS=-mod=mod", "GOPROXY=off", "GOSUMDB=off", "GOTOOLCHAIN=local", "GOWORK=off",
		"GOOS=linux", "GOARCH="+arch, "CGO_ENABLED=0",
		"PATH=/opt/veriftools/go1.26.8/bin:"+os.Getenv("PATH"))
	return env
}

// Load loads every package of the module under cfg.Repo. It fails closed: any
// type error, or a package count below the expected minimum, is an error.
func Load(cfg LoadConfig) (*Program, error) {
	if cfg.GOARCH == "" {
		cfg.GOARCH = "amd64"
	}
	fset := token.NewFileSet()
	pc := &packages.Config{
		Mode: packages.NeedName | packages.NeedFiles | packages.NeedCompiledGoFiles | packages.NeedImports |
			packages.NeedDeps | packages.NeedTypes | packages.NeedSyntax | packages.NeedTypesInfo |
			packages.NeedTypesSizes | packages.NeedModule,
		Dir:     cfg.Repo,
		Fset:    fset,
		Env:     goEnv(cfg.GOARCH),
		Tests:   false,
		Overlay: cfg.Overlay,
	}
	initial, err := packages.Load(pc, "./...")
	if err != nil {
		return nil, fmt.Errorf("packages.Load: %w", err)
	}
	p := &Program{Repo: cfg.Repo, Fset: fset, ByPath: map[string]*packages.Package{}, SSAPkg: map[string]*ssa.Package{}, GOARCH: cfg.GOARCH,
		funcDecl: map[*types.Func]*ast.FuncDecl{}, declPkg: map[*ast.FuncDecl]*packages.Package{}}
	var errs []string
	packages.Visit(initial, nil, func(pkg *packages.Package) {
		for _, e := range pkg.Errors {
			errs = append(errs, fmt.Sprintf("%s: %s", pkg.PkgPath, e))
		}
	})
	if len(errs) > 0 {
		sort.Strings(errs)
		return nil, fmt.Errorf("type/load errors (%d): %s", len(errs), strings.Join(errs[:min(len(errs), 5)], "; "))
	}
	for _, pkg := range initial {
		if strings.HasPrefix(pkg.PkgPath, modPath) {
			p.Pkgs = append(p.Pkgs, pkg)
			p.ByPath[pkg.PkgPath] = pkg
		}
	}
	sort.Slice(p.Pkgs, func(i, j int) bool { return p.Pkgs[i].PkgPath < p.Pkgs[j].PkgPath })
	if len(p.Pkgs) < 7 {
		return nil, fmt.Errorf("only %d module packages loaded from %s (expected >= 7)", len(p.Pkgs), cfg.Repo)
	}
	prog, pkgs := ssautil.AllPackages(initial, ssa.InstantiateGenerics)
	prog.Build()
	p.SSA = prog
	for i, sp := range pkgs {
		if sp != nil {
			p.SSAPkg[initial[i].PkgPath] = sp
		}
	}
	for _, pkg := range p.Pkgs {
		for _, f := range pkg.Syntax {
			for _, d := range f.Decls {
				if fd, ok := d.(*ast.FuncDecl); ok {
					if obj, ok := pkg.TypesInfo.Defs[fd.Name].(*types.Func); ok {
						p.funcDecl[obj] = fd
						p.declPkg[fd] = pkg
					}
				}
			}
		}
	}
	return p, nil
}

// Pkg returns the module package with the given path suffix ("consensus", "types", "rhp/v4").
func (p *Program) Pkg(suffix string) *packages.Package {
	return p.ByPath[modPath+"/"+suffix]
}

func (p *Program) SSAPackage(suffix string) *ssa.Package { return p.SSAPkg[modPath+"/"+suffix] }

// Pos renders a position relative to the repository root.
func (p *Program) Pos(pos token.Pos) string {
	if !pos.IsValid() {
		return "?"
	}
	ps := p.Fset.Position(pos)
	rel, err := filepath.Rel(p.Repo, ps.Filename)
	if err != nil {
		rel = ps.Filename
	}
	return fmt.Sprintf("%s:%d", rel, ps.Line)
}

// AllFuncs returns every SSA function (including anonymous ones and generic instances) in the program.
func (p *Program) AllFuncs() map[*ssa.Function]bool {
	if p.allFuncs == nil {
		p.allFuncs = ssautil.AllFunctions(p.SSA)
	}
	return p.allFuncs
}

// InModule reports whether fn belongs to the module under analysis.
func (p *Program) InModule(fn *ssa.Function) bool {
	if fn == nil {
		return false
	}
	for fn.Parent() != nil {
		fn = fn.Parent()
	}
	if o := fn.Origin(); o != nil {
		fn = o
	}
	if fn.Pkg != nil {
		return strings.HasPrefix(fn.Pkg.Pkg.Path(), modPath)
	}
	if obj := fn.Object(); obj != nil && obj.Pkg() != nil {
		return strings.HasPrefix(obj.Pkg().Path(), modPath)
	}
	return false
}

// CallGraph builds (once) the VTA call graph refined from CHA.
func (p *Program) CallGraph() *callgraph.Graph {
	if p.cg == nil {
		p.cg = vta.CallGraph(p.AllFuncs(), cha.CallGraph(p.SSA))
	}
	return p.cg
}

// Func resolves "pkgsuffix.Name" or "pkgsuffix.(Recv).Name" / "pkgsuffix.(*Recv).Name" to an SSA function.
// Func resolves "pkg.f" or "pkg.(T).m". When the exact form does not exist it also tries the other one (a method
// turned into a plain function of the same name, or the reverse), provided the result is unique in the package.
func (p *Program) Func(spec string) *ssa.Function {
	if fn := p.funcExact(spec); fn != nil {
		return fn
	}
	i := strings.LastIndex(spec, ".")
	if i < 0 {
		return nil
	}
	left, name := spec[:i], spec[i+1:]
	pkgSuffix := left
	if j := strings.Index(left, ".("); j >= 0 {
		pkgSuffix = left[:j]
		return p.funcExact(pkgSuffix + "." + name)
	}
	pkg := p.SSAPackage(pkgSuffix)
	if pkg == nil {
		return nil
	}
	var found *ssa.Function
	for _, m := range pkg.Members {
		t, ok := m.(*ssa.Type)
		if !ok {
			continue
		}
		for _, typ := range []types.Type{t.Type(), types.NewPointer(t.Type())} {
			if sel := p.SSA.MethodSets.MethodSet(typ).Lookup(pkg.Pkg, name); sel != nil {
				if f := p.SSA.MethodValue(sel); f != nil && f.Synthetic == "" {
					if found != nil && found != f {
						return nil
					}
					found = f
				}
			}
		}
	}
	return found
}

func (p *Program) funcExact(spec string) *ssa.Function {
	i := strings.LastIndex(spec, ".")
	if i < 0 {
		return nil
	}
	left, name := spec[:i], spec[i+1:]
	if j := strings.Index(left, ".("); j >= 0 {
		pkg := p.SSAPackage(left[:j])
		if pkg == nil {
			return nil
		}
		recv := strings.TrimSuffix(left[j+2:], ")")
		ptr := strings.HasPrefix(recv, "*")
		recv = strings.TrimPrefix(recv, "*")
		tn, ok := pkg.Pkg.Scope().Lookup(recv).(*types.TypeName)
		if !ok {
			return nil
		}
		var t types.Type = tn.Type()
		if ptr {
			t = types.NewPointer(t)
		}
		_ = t
		// value receiver first (looking a value method up through the pointer method set yields a wrapper)
		sel := p.SSA.MethodSets.MethodSet(tn.Type()).Lookup(pkg.Pkg, name)
		if sel == nil {
			sel = p.SSA.MethodSets.MethodSet(types.NewPointer(tn.Type())).Lookup(pkg.Pkg, name)
			if sel == nil {
				return nil
			}
		}
		return p.SSA.MethodValue(sel)
	}
	pkg := p.SSAPackage(left)
	if pkg == nil {
		return nil
	}
	return pkg.Func(name)
}

// Reachable returns the module functions reachable from the roots through the call graph
// (static callees + VTA-resolved dynamic callees), plus anonymous functions nested in them.
func (p *Program) Reachable(roots ...*ssa.Function) map[*ssa.Function]bool {
	cg := p.CallGraph()
	seen := map[*ssa.Function]bool{}
	var work []*ssa.Function
	push := func(f *ssa.Function) {
		if f != nil && !seen[f] && p.InModule(f) {
			seen[f] = true
			work = append(work, f)
		}
	}
	for _, r := range roots {
		push(r)
	}
	for len(work) > 0 {
		f := work[len(work)-1]
		work = work[:len(work)-1]
		for _, an := range f.AnonFuncs {
			push(an)
		}
		if n := cg.Nodes[f]; n != nil {
			for _, e := range n.Out {
				push(e.Callee.Func)
			}
		}
	}
	return seen
}

// FuncName gives a stable human-readable name for an SSA function.
func FuncName(fn *ssa.Function) string {
	if fn == nil {
		return "<nil>"
	}
	s := strings.ReplaceAll(fn.String(), modPath+"/", "")
	// receivers are rendered without the pointer star: whether an (unexported) method has a value or a pointer
	// receiver is not part of any rule
	if strings.HasPrefix(s, "(*") {
		s = "(" + s[2:]
	}
	return s
}

// Decl returns the AST declaration for a types.Func of the module.
func (p *Program) Decl(obj *types.Func) (*ast.FuncDecl, *packages.Package) {
	if obj == nil {
		return nil, nil
	}
	if o := obj.Origin(); o != nil {
		obj = o
	}
	fd := p.funcDecl[obj]
	if fd == nil {
		return nil, nil
	}
	return fd, p.declPkg[fd]
}

// SortedFuncs returns the functions of a set in a deterministic order.
func SortedFuncs(m map[*ssa.Function]bool) []*ssa.Function {
	out := make([]*ssa.Function, 0, len(m))
	for f := range m {
		out = append(out, f)
	}
	sort.Slice(out, func(i, j int) bool {
		a, b := out[i].String(), out[j].String()
		if a != b {
			return a < b
		}
		return out[i].Pos() < out[j].Pos()
	})
	return out
}

// HelperOf: an unexported function that is not itself in allowed counts as part of an allowed function when every one
// of its callers is an allowed function or, transitively, such a helper (a split-out piece of it). Returns the allowed
// owner it belongs to.
func (p *Program) HelperOf(fn *ssa.Function, allowed func(name string) bool) (string, bool) {
	cg := p.CallGraph()
	seen := map[*ssa.Function]bool{}
	var owner string
	var rec func(f *ssa.Function, depth int) bool
	rec = func(f *ssa.Function, depth int) bool {
		if depth > 4 || seen[f] {
			return depth <= 4
		}
		seen[f] = true
		top := f
		for top.Parent() != nil {
			top = top.Parent()
		}
		if allowed(FuncName(top)) {
			if owner == "" {
				owner = FuncName(top)
			}
			return true
		}
		if obj := top.Object(); obj == nil || obj.Exported() {
			return false
		}
		n := cg.Nodes[top]
		if n == nil || len(n.In) == 0 {
			return false
		}
		for _, e := range n.In {
			if e.Caller == nil || e.Caller.Func == nil {
				return false
			}
			if !rec(e.Caller.Func, depth+1) {
				return false
			}
		}
		return true
	}
	top := fn
	for top.Parent() != nil {
		top = top.Parent()
	}
	if obj := top.Object(); obj == nil || obj.Exported() {
		return "", false
	}
	n := cg.Nodes[top]
	if n == nil || len(n.In) == 0 {
		return "", false
	}
	seen[top] = true
	for _, e := range n.In {
		if e.Caller == nil || e.Caller.Func == nil || !rec(e.Caller.Func, 1) {
			return "", false
		}
	}
	return owner, owner != ""
}
