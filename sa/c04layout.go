package main

// The element leaf's preimage is a hand-built byte buffer: prefix | element hash | leaf index | spent flag. What
// membership soundness needs of it is that the three variable parts are written to DISJOINT regions of the hashed
// buffer, each in full width: then two leaves that differ in element hash, position or spent flag hash differently.
// Decided by interpreting the straight-line slice arithmetic of (elementLeaf).hash over constants — every slice
// value is (buffer, offset, length), `append`, `copy`, `binary.LittleEndian.PutUint64/AppendUint64`, indexed
// stores and re-slicing move those numbers — whatever the spelling (indexed writes into make([]byte, 42) or
// appends to make([]byte, 0, 42)). Nothing is executed.

import (
	"fmt"
	"go/constant"
	"go/token"
	"go/types"
	"sort"
	"strings"

	"golang.org/x/tools/go/ssa"
)

type bufView struct {
	buf      ssa.Value // the backing allocation
	off, len int64
}

type bufWrite struct {
	buf    ssa.Value
	off, n int64
	src    string
	cond   bool // executed only on some paths
	pos    token.Pos
}

type bufInterp struct {
	ge     *GuardEngine
	views  map[ssa.Value]bufView
	writes []bufWrite
	why    string
}

func constInt(v ssa.Value) (int64, bool) {
	k, ok := v.(*ssa.Const)
	if !ok || k.Value == nil || k.Value.Kind() != constant.Int {
		return 0, false
	}
	return constant.Int64Val(k.Value)
}

func (bi *bufInterp) intOf(v ssa.Value) (int64, bool) {
	if k, ok := constInt(v); ok {
		return k, true
	}
	switch x := v.(type) {
	case *ssa.BinOp:
		a, ok1 := bi.intOf(x.X)
		b, ok2 := bi.intOf(x.Y)
		if ok1 && ok2 {
			switch x.Op {
			case token.ADD:
				return a + b, true
			case token.SUB:
				return a - b, true
			case token.MUL:
				return a * b, true
			}
		}
	case *ssa.Call:
		if b, ok := x.Call.Value.(*ssa.Builtin); ok && (b.Name() == "len") && len(x.Call.Args) == 1 {
			if vw, ok := bi.view(x.Call.Args[0]); ok {
				return vw.len, true
			}
		}
	case *ssa.Convert:
		return bi.intOf(x.X)
	}
	return 0, false
}

func arrayLen(t types.Type) (int64, bool) {
	if p, ok := t.Underlying().(*types.Pointer); ok {
		t = p.Elem()
	}
	if a, ok := t.Underlying().(*types.Array); ok {
		return a.Len(), true
	}
	return 0, false
}

func (bi *bufInterp) view(v ssa.Value) (bufView, bool) {
	if vw, ok := bi.views[v]; ok {
		return vw, true
	}
	var out bufView
	ok := false
	switch x := v.(type) {
	case *ssa.MakeSlice:
		if n, isK := bi.intOf(x.Len); isK {
			out, ok = bufView{x, 0, n}, true
		}
	case *ssa.Alloc:
		if n, isArr := arrayLen(x.Type()); isArr {
			out, ok = bufView{x, 0, n}, true
		}
	case *ssa.FieldAddr: // a fixed-size array field used as a source
		if n, isArr := arrayLen(x.Type()); isArr {
			out, ok = bufView{x, 0, n}, true
		}
	case *ssa.Slice:
		base, okb := bi.view(x.X)
		if !okb {
			break
		}
		lo, hi := int64(0), base.len
		if x.Low != nil {
			l, okl := bi.intOf(x.Low)
			if !okl {
				return out, false
			}
			lo = l
		}
		if x.High != nil {
			h, okh := bi.intOf(x.High)
			if !okh {
				return out, false
			}
			hi = h
		}
		out, ok = bufView{base.buf, base.off + lo, hi - lo}, true
	case *ssa.Call:
		if b, isB := x.Call.Value.(*ssa.Builtin); isB && b.Name() == "append" && len(x.Call.Args) == 2 {
			dst, ok1 := bi.view(x.Call.Args[0])
			src, ok2 := bi.view(x.Call.Args[1])
			if ok1 && ok2 {
				out, ok = bufView{dst.buf, dst.off, dst.len + src.len}, true
			}
		} else if f := x.Call.StaticCallee(); f != nil && f.Name() == "AppendUint64" && len(x.Call.Args) == 3 {
			if dst, ok1 := bi.view(x.Call.Args[1]); ok1 {
				out, ok = bufView{dst.buf, dst.off, dst.len + 8}, true
			}
		}
	}
	if ok {
		bi.views[v] = out
	}
	return out, ok
}

// srcOf: what a byte source stands for (the field it reads, a constant, ...).
func (bi *bufInterp) srcOf(v ssa.Value) string {
	if sl, ok := v.(*ssa.Slice); ok {
		if al, isAl := sl.X.(*ssa.Alloc); isAl { // varargs array: what was stored into it
			var parts []string
			for _, r := range *al.Referrers() {
				if ia, isIA := r.(*ssa.IndexAddr); isIA {
					for _, rr := range *ia.Referrers() {
						if st, isSt := rr.(*ssa.Store); isSt {
							parts = append(parts, bi.ge.pv.Atom(st.Val, nil))
						}
					}
				}
			}
			sort.Strings(parts)
			return strings.Join(parts, ",")
		}
		return bi.ge.pv.Atom(sl.X, nil)
	}
	return bi.ge.pv.Atom(v, nil)
}

func (bi *bufInterp) run(fn *ssa.Function) (hashed *bufView) {
	entry := fn.Blocks[0]
	for _, b := range fn.Blocks {
		cond := !(b == entry || b.Dominates(fn.Blocks[len(fn.Blocks)-1])) // not on every path to the end
		// a block is unconditional iff it dominates every returning block
		cond = false
		for _, rb := range fn.Blocks {
			if _, isRet := rb.Instrs[len(rb.Instrs)-1].(*ssa.Return); isRet && !b.Dominates(rb) {
				cond = true
			}
		}
		for _, in := range b.Instrs {
			bi.ge.pv.loadCtx = []ssa.Instruction{in}
			switch x := in.(type) {
			case *ssa.Store:
				if ia, ok := x.Addr.(*ssa.IndexAddr); ok {
					vw, okv := bi.view(ia.X)
					idx, oki := bi.intOf(ia.Index)
					if okv && oki {
						if _, isVar := vw.buf.(*ssa.Alloc); isVar && strings.Contains(vw.buf.(*ssa.Alloc).Comment, "varargs") {
							continue
						}
						bi.writes = append(bi.writes, bufWrite{vw.buf, vw.off + idx, 1, bi.ge.pv.Atom(x.Val, nil), cond, x.Pos()})
					} else if okv {
						bi.why = "a store into the preimage at an offset that is not a constant"
					}
				}
			case *ssa.Call:
				if b2, ok := x.Call.Value.(*ssa.Builtin); ok {
					switch b2.Name() {
					case "copy":
						dst, ok1 := bi.view(x.Call.Args[0])
						src, ok2 := bi.view(x.Call.Args[1])
						if ok1 && ok2 {
							n := min(dst.len, src.len)
							bi.writes = append(bi.writes, bufWrite{dst.buf, dst.off, n, bi.srcOf(x.Call.Args[1]), cond, x.Pos()})
						} else if ok1 {
							bi.why = "copy into the preimage from a source of unknown length"
						}
					case "append":
						dst, ok1 := bi.view(x.Call.Args[0])
						src, ok2 := bi.view(x.Call.Args[1])
						if ok1 && ok2 {
							bi.writes = append(bi.writes, bufWrite{dst.buf, dst.off + dst.len, src.len, bi.srcOf(x.Call.Args[1]), cond, x.Pos()})
						} else if ok1 {
							bi.why = "append to the preimage of a source of unknown length"
						}
					}
					continue
				}
				f := x.Call.StaticCallee()
				if f == nil {
					continue
				}
				switch f.Name() {
				case "PutUint64":
					if len(x.Call.Args) == 3 {
						if dst, ok := bi.view(x.Call.Args[1]); ok {
							bi.writes = append(bi.writes, bufWrite{dst.buf, dst.off, 8, bi.ge.pv.Atom(x.Call.Args[2], nil), cond, x.Pos()})
						}
					}
				case "AppendUint64":
					if len(x.Call.Args) == 3 {
						if dst, ok := bi.view(x.Call.Args[1]); ok {
							bi.writes = append(bi.writes, bufWrite{dst.buf, dst.off + dst.len, 8, bi.ge.pv.Atom(x.Call.Args[2], nil), cond, x.Pos()})
						}
					}
				case "HashBytes":
					if vw, ok := bi.view(x.Call.Args[0]); ok {
						hashed = &vw
					} else {
						bi.why = "the hashed buffer's extent is not a constant"
					}
				}
			}
		}
	}
	bi.ge.pv.loadCtx = nil
	return hashed
}

func c04LeafLayout(c *Ctx, ge *GuardEngine) {
	const rule = "leaf-hash"
	fn := c.P.Func("consensus.(elementLeaf).hash")
	if fn == nil || len(fn.Blocks) == 0 {
		c.Undecided(rule, "anchor", "", "(elementLeaf).hash does not resolve")
		return
	}
	c.NoteFunc(FuncName(fn))
	where := c.P.Pos(fn.Pos())
	bi := &bufInterp{ge: ge, views: map[ssa.Value]bufView{}}
	hashed := bi.run(fn)
	if hashed == nil || bi.why != "" {
		c.Undecided(rule, "layout", where, ifElse(bi.why != "", bi.why, "no types.HashBytes call over a buffer of constant extent")+": the leaf preimage is built in a way this rule does not read")
		return
	}
	find := func(suffix string) *bufWrite {
		for i := range bi.writes {
			w := &bi.writes[i]
			if w.buf == hashed.buf && strings.HasSuffix(w.src, suffix) {
				return w
			}
		}
		return nil
	}
	inside := func(w *bufWrite) bool { return w.off >= hashed.off && w.off+w.n <= hashed.off+hashed.len }
	eh, li := find(".elementHash"), find(".LeafIndex")
	okH := eh != nil && eh.n == 32 && !eh.cond && inside(eh)
	c.Check(okH, rule, "element-hash", where, ifElse(okH, fmt.Sprintf("all 32 bytes of the element hash at offset %d of the %d hashed bytes", offOf(eh)-hashed.off, hashed.len), "the leaf preimage does not contain the whole element hash"))
	okI := li != nil && li.n == 8 && !li.cond && inside(li)
	c.Check(okI, rule, "leaf-index", where, ifElse(okI, fmt.Sprintf("the 8-byte leaf index at offset %d", offOf(li)-hashed.off), "the leaf hash does not bind the leaf index in full: an element is accepted at another element's position"))
	// the spent flag: a conditional one-byte store, under the flag, of a non-zero constant
	var fl *bufWrite
	for i := range bi.writes {
		w := &bi.writes[i]
		if w.buf == hashed.buf && w.cond && w.n == 1 && strings.HasPrefix(w.src, "const:") && w.src != "const:0" {
			fl = w
		}
	}
	okF := fl != nil && inside(fl)
	if okF {
		// executed exactly when l.spent
		ctx := ge.condCtx(ge.info(fn), blockOfPos(fn, fl.pos), nil)
		okF = len(ctx) == 1 && strings.HasSuffix(ctx[0], ".spent is true")
	}
	c.Check(okF, rule, "spent-flag", where, ifElse(okF, fmt.Sprintf("one byte at offset %d set exactly when the leaf is spent", offOf(fl)-hashed.off), "the leaf hash ignores the spent flag (no byte of the hashed buffer is set exactly when l.spent): a spent element is still accepted as unspent"))
	// disjointness: no later write overlaps the element hash, the leaf index or the flag
	bad := ""
	named := map[string]*bufWrite{"the element hash": eh, "the leaf index": li, "the spent flag": fl}
	for _, na := range []string{"the element hash", "the leaf index", "the spent flag"} {
		a := named[na]
		if a == nil {
			continue
		}
		for i := range bi.writes {
			w := &bi.writes[i]
			if w == a || w.buf != a.buf {
				continue
			}
			if w.off < a.off+a.n && a.off < w.off+w.n {
				bad = fmt.Sprintf("%s at bytes [%d,%d) is overlapped by the write of %s at [%d,%d) (%s)", na, a.off-hashed.off, a.off+a.n-hashed.off, w.src, w.off-hashed.off, w.off+w.n-hashed.off, c.P.Pos(w.pos))
			}
		}
	}
	c.Check(bad == "", rule, "regions-disjoint", where, ifElse(bad == "", "element hash, leaf index and spent flag occupy disjoint regions of the preimage", bad+": two different leaves can hash alike"))
	c.Check(true, rule, "hashed", where, fmt.Sprintf("types.HashBytes over %d bytes", hashed.len))
}

func offOf(w *bufWrite) int64 {
	if w == nil {
		return 0
	}
	return w.off
}

func blockOfPos(fn *ssa.Function, pos token.Pos) *ssa.BasicBlock {
	for _, b := range fn.Blocks {
		for _, in := range b.Instrs {
			if in.Pos() == pos {
				if _, ok := in.(*ssa.Store); ok {
					return b
				}
			}
		}
	}
	return fn.Blocks[0]
}
