package main

import (
	"encoding/json"
	"fmt"
	"os"
	"os/exec"
	"path/filepath"
	"sort"
	"strings"
	"sync"
)

// A Mutant is an in-memory overlay of /repo used to test the checker both ways:
// breaking mutants must make the property's check fire (naming Expect), benign ones must stay silent.
type Edit struct{ File, Old, New string }
type Mutant struct {
	Prop     string
	Name     string
	Edits    []Edit
	Breaking bool
	Expect   string // substring of the violated obligation key expected (breaking only)
}

var mutants []Mutant

func mut(prop, name string, breaking bool, expect string, edits ...Edit) {
	mutants = append(mutants, Mutant{prop, name, edits, breaking, expect})
}

type mutantResult struct {
	Prop     string   `json:"property"`
	Name     string   `json:"name"`
	Breaking bool     `json:"breaking"`
	Stale    bool     `json:"stale,omitempty"`
	Fired    bool     `json:"fired"`
	Matched  bool     `json:"expected_rule_named"`
	OK       bool     `json:"ok"`
	Keys     []string `json:"violated_keys,omitempty"`
	Note     string   `json:"note,omitempty"`
}

func runMutant(m Mutant, repo, verif, exe string) mutantResult {
	r := mutantResult{Prop: m.Prop, Name: m.Name, Breaking: m.Breaking}
	ov := map[string]string{}
	for _, e := range m.Edits {
		src, ok := ov[e.File]
		if !ok {
			b, err := os.ReadFile(filepath.Join(repo, e.File))
			if err != nil {
				r.Stale, r.Note = true, err.Error()
				return r
			}
			src = string(b)
		}
		if strings.Count(src, e.Old) != 1 {
			r.Stale = true
			r.Note = fmt.Sprintf("edit anchor occurs %d times in %s (tree changed since the corpus was written)", strings.Count(src, e.Old), e.File)
			return r
		}
		ov[e.File] = strings.Replace(src, e.Old, e.New, 1)
	}
	f, err := os.CreateTemp("", "sacheck-ov-*.json")
	if err != nil {
		r.Stale, r.Note = true, err.Error()
		return r
	}
	defer os.Remove(f.Name())
	b, _ := json.Marshal(ov)
	f.Write(b)
	f.Close()
	cmd := exec.Command(exe, "-prop", m.Prop, "-tier", "quick", "-repo", repo, "-verif", verif, "-child", "-overlay-json", f.Name())
	out, _ := cmd.CombinedOutput()
	var res childResult
	got := false
	for _, ln := range strings.Split(string(out), "\n") {
		if strings.HasPrefix(ln, "CHILD-RESULT ") {
			json.Unmarshal([]byte(strings.TrimPrefix(ln, "CHILD-RESULT ")), &res)
			got = true
		}
	}
	if !got {
		r.Note = "no child result: " + oneLine(string(out))
		return r
	}
	if res.LoadError != "" {
		r.Note = "mutant does not compile: " + res.LoadError
		r.Stale = true
		return r
	}
	r.Fired = res.Exit != 0
	r.Keys = res.Violated
	for _, k := range res.Violated {
		if m.Expect != "" && strings.Contains(k, m.Expect) {
			r.Matched = true
		}
	}
	if m.Breaking {
		r.OK = r.Fired && (m.Expect == "" || r.Matched)
	} else {
		r.OK = !r.Fired
	}
	return r
}

func runMutants(ms []Mutant, repo, verif, exe string) []mutantResult {
	res := make([]mutantResult, len(ms))
	sem := make(chan struct{}, 8)
	var wg sync.WaitGroup
	for i := range ms {
		wg.Add(1)
		go func(i int) {
			defer wg.Done()
			sem <- struct{}{}
			defer func() { <-sem }()
			res[i] = runMutant(ms[i], repo, verif, exe)
		}(i)
	}
	wg.Wait()
	return res
}

// selfTestProp runs the corpus of one property and returns a summary for the evidence file.
func selfTestProp(prop, repo, verif, exe string) map[string]any {
	var ms []Mutant
	for _, m := range mutants {
		if m.Prop == prop {
			ms = append(ms, m)
		}
	}
	res := runMutants(ms, repo, verif, exe)
	ok, stale := 0, 0
	var bad []mutantResult
	for _, r := range res {
		switch {
		case r.Stale:
			stale++
		case r.OK:
			ok++
		default:
			bad = append(bad, r)
			fmt.Printf("SELFTEST-MISS property=%s mutant=%q breaking=%v fired=%v keys=%v\n", prop, r.Name, r.Breaking, r.Fired, r.Keys)
		}
	}
	return map[string]any{"mutants": len(ms), "as_expected": ok, "stale": stale, "unexpected": bad, "results": res}
}

func runSelfTest(prop, repo, verif string) int {
	exe, _ := os.Executable()
	var ms []Mutant
	for _, m := range mutants {
		if prop == "" || m.Prop == prop {
			ms = append(ms, m)
		}
	}
	res := runMutants(ms, repo, verif, exe)
	sort.SliceStable(res, func(i, j int) bool { return res[i].Prop < res[j].Prop })
	bad := 0
	for _, r := range res {
		status := "ok"
		if r.Stale {
			status = "STALE"
			bad++
		} else if !r.OK {
			status = "MISS"
			if !r.Breaking {
				status = "FALSE-ALARM"
			}
			bad++
		}
		kind := "benign"
		if r.Breaking {
			kind = "breaking"
		}
		fmt.Printf("%-11s %s %-8s %-60s %s %s\n", status, r.Prop, kind, r.Name, strings.Join(r.Keys, ","), r.Note)
	}
	fmt.Printf("selftest: %d mutants, %d not as expected\n", len(res), bad)
	os.MkdirAll(filepath.Join(verif, "selftest"), 0o755)
	b, _ := json.MarshalIndent(res, "", " ")
	name := "all"
	if prop != "" {
		name = prop
	}
	os.WriteFile(filepath.Join(verif, "selftest", name+".json"), b, 0o644)
	if bad > 0 {
		return 1
	}
	return 0
}
