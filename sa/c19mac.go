package main

// The streamed-response reader authenticates with its own Poly1305 over the ciphertext it has passed through;
// the writer seals with the library AEAD. The two agree only if the reader completes the MAC input exactly as
// RFC 8439 does: zeros up to the next 16-byte boundary, the 8-byte little-endian AD length (0) and the 8-byte
// little-endian ciphertext length. All of that is one expression of clen in VerifyTag (or a helper it calls).
// Because the expression depends on clen only through small arithmetic, it is decided by evaluating the SSA
// expression tree over every residue class of clen modulo 16 (three representatives each): the trailer's
// length L satisfies 16 <= L < 32 and (clen + L - 16) % 16 == 0, the length field is stored at L-8 and holds clen,
// and the buffer comes zeroed from make. No code is run; operators outside + - * / % & | ^ << >> and conversions
// leave the row undecided.

import (
	"fmt"
	"go/constant"
	"go/token"
	"go/types"

	"golang.org/x/tools/go/ssa"
)

type modEval struct {
	sym  func(ssa.Value) bool
	bind map[*ssa.Parameter]ssa.Value
	why  string
}

func (m *modEval) eval(v ssa.Value, clen uint64, depth int) (uint64, bool) {
	if depth > 40 {
		m.why = "expression too deep"
		return 0, false
	}
	if m.sym(v) {
		return clen, true
	}
	switch x := v.(type) {
	case *ssa.Const:
		if x.Value == nil || x.Value.Kind() != constant.Int {
			m.why = "non-integer constant " + x.String()
			return 0, false
		}
		if u, ok := constant.Uint64Val(x.Value); ok {
			return u, true
		}
		if i, ok := constant.Int64Val(x.Value); ok {
			return uint64(i), true
		}
	case *ssa.Parameter:
		if b, ok := m.bind[x]; ok {
			return m.eval(b, clen, depth+1)
		}
	case *ssa.Convert:
		return m.evalTrunc(x.X, x.Type(), clen, depth)
	case *ssa.ChangeType:
		return m.eval(x.X, clen, depth+1)
	case *ssa.UnOp:
		if x.Op == token.SUB {
			a, ok := m.eval(x.X, clen, depth+1)
			return -a, ok
		}
	case *ssa.BinOp:
		a, ok1 := m.eval(x.X, clen, depth+1)
		b, ok2 := m.eval(x.Y, clen, depth+1)
		if !ok1 || !ok2 {
			return 0, false
		}
		signed := false
		if bt, ok := x.X.Type().Underlying().(*types.Basic); ok {
			signed = bt.Info()&types.IsUnsigned == 0
		}
		switch x.Op {
		case token.ADD:
			return a + b, true
		case token.SUB:
			return a - b, true
		case token.MUL:
			return a * b, true
		case token.AND:
			return a & b, true
		case token.OR:
			return a | b, true
		case token.XOR:
			return a ^ b, true
		case token.AND_NOT:
			return a &^ b, true
		case token.SHL:
			return a << (b & 63), true
		case token.SHR:
			if signed {
				return uint64(int64(a) >> (b & 63)), true
			}
			return a >> (b & 63), true
		case token.REM, token.QUO:
			if b == 0 {
				m.why = "division by zero in the trailer expression"
				return 0, false
			}
			if signed {
				if x.Op == token.REM {
					return uint64(int64(a) % int64(b)), true
				}
				return uint64(int64(a) / int64(b)), true
			}
			if x.Op == token.REM {
				return a % b, true
			}
			return a / b, true
		}
	}
	m.why = "not an arithmetic expression of the ciphertext length: " + v.String()
	return 0, false
}

func (m *modEval) evalTrunc(v ssa.Value, t types.Type, clen uint64, depth int) (uint64, bool) {
	a, ok := m.eval(v, clen, depth+1)
	if !ok {
		return 0, false
	}
	if bt, ok := t.Underlying().(*types.Basic); ok {
		switch bt.Kind() {
		case types.Uint8, types.Int8:
			a &= 0xff
		case types.Uint16, types.Int16:
			a &= 0xffff
		case types.Uint32, types.Int32:
			a &= 0xffffffff
		}
	}
	return a, true
}

// sliceShape: v as base[low:high] over a make([]byte, len, cap); returns low, high (nil = none) and the make.
func sliceChain(v ssa.Value) (mk ssa.Value, lows, highs []ssa.Value) {
	for {
		switch x := v.(type) {
		case *ssa.Slice:
			if x.Low != nil {
				lows = append(lows, x.Low)
			}
			if x.High != nil && len(highs) == 0 {
				highs = append(highs, x.High) // the outermost high is relative to its own base; only simple chains are read
			}
			v = x.X
			continue
		case *ssa.MakeSlice:
			return x, lows, highs
		case *ssa.Alloc: // make with constant size: a zeroed array
			if _, isArr := x.Type().(*types.Pointer).Elem().Underlying().(*types.Array); isArr {
				return x, lows, highs
			}
		}
		return nil, nil, nil
	}
}

func c19MacTrailer(c *Ctx) {
	const rule = "mac-trailer"
	fn := c.P.Func("rhp/v2.(*ResponseReader).VerifyTag")
	if fn == nil {
		c.Undecided(rule, "anchor", "", "rhp/v2.(*ResponseReader).VerifyTag does not resolve")
		return
	}
	c.NoteFunc(FuncName(fn))
	isClen := func(v ssa.Value) bool {
		ld, ok := v.(*ssa.UnOp)
		if !ok || ld.Op != token.MUL {
			return false
		}
		fa, ok := ld.X.(*ssa.FieldAddr)
		if !ok {
			return false
		}
		st, ok := fa.X.Type().Underlying().(*types.Pointer).Elem().Underlying().(*types.Struct)
		return ok && st.Field(fa.Field).Name() == "clen"
	}
	// the trailer: the argument of the one MAC write in VerifyTag
	var tailArg ssa.Value
	var at token.Pos
	nWrites := 0
	for _, b := range fn.Blocks {
		for _, in := range b.Instrs {
			call, ok := in.(*ssa.Call)
			if !ok {
				continue
			}
			callee := call.Call.StaticCallee()
			if callee == nil || callee.Name() != "Write" || callee.Pkg == nil || callee.Pkg.Pkg.Path() != "golang.org/x/crypto/poly1305" && callee.Pkg.Pkg.Name() != "poly1305" {
				continue
			}
			nWrites++
			tailArg, at = call.Call.Args[len(call.Call.Args)-1], call.Pos()
		}
	}
	if nWrites != 1 {
		c.Undecided(rule, "VerifyTag", c.P.Pos(fn.Pos()), fmt.Sprintf("%d MAC writes in VerifyTag (expected the one that completes the Poly1305 input)", nWrites))
		return
	}
	m := &modEval{sym: isClen, bind: map[*ssa.Parameter]ssa.Value{}}
	host := fn
	// through a helper that builds the trailer from the length
	if call, ok := tailArg.(*ssa.Call); ok {
		callee := call.Call.StaticCallee()
		if callee == nil || len(callee.Blocks) == 0 {
			c.Undecided(rule, "VerifyTag", c.P.Pos(at), "the trailer comes from a call that does not resolve")
			return
		}
		for i, p := range callee.Params {
			if i < len(call.Call.Args) {
				m.bind[p] = call.Call.Args[i]
			}
		}
		var rets []ssa.Value
		for _, b := range callee.Blocks {
			if r, ok := b.Instrs[len(b.Instrs)-1].(*ssa.Return); ok && len(r.Results) == 1 {
				rets = append(rets, r.Results[0])
			}
		}
		if len(rets) != 1 {
			c.Undecided(rule, "VerifyTag", c.P.Pos(callee.Pos()), "the trailer helper has several returns")
			return
		}
		tailArg, host = rets[0], callee
		c.NoteFunc(FuncName(callee))
	}
	mk, lows, highs := sliceChain(tailArg)
	if mk == nil || len(lows) != 0 {
		c.Undecided(rule, "VerifyTag", c.P.Pos(at), "the trailer is not a prefix of a freshly made (zeroed) buffer: "+tailArg.String())
		return
	}
	var lenExpr ssa.Value
	if ms, ok := mk.(*ssa.MakeSlice); ok {
		lenExpr = ms.Len
	}
	if len(highs) == 1 {
		lenExpr = highs[0]
	}
	if lenExpr == nil {
		c.Undecided(rule, "VerifyTag", c.P.Pos(at), "the trailer's length is not given by a slice expression")
		return
	}
	// the length field: PutUint64(tail[off:], value) on the same buffer, in the function that builds it
	var offExpr, valExpr ssa.Value
	nPut := 0
	for _, b := range host.Blocks {
		for _, in := range b.Instrs {
			call, ok := in.(*ssa.Call)
			if !ok {
				continue
			}
			callee := call.Call.StaticCallee()
			if callee == nil || callee.Name() != "PutUint64" || len(call.Call.Args) < 3 {
				continue
			}
			if recv := callee.Signature.Recv(); recv == nil || typeName(recv.Type()) != "encoding/binary.littleEndian" {
				continue
			}
			mk2, lows2, _ := sliceChain(call.Call.Args[1])
			if mk2 != mk {
				continue
			}
			nPut++
			if len(lows2) == 1 {
				offExpr = lows2[0]
			}
			valExpr = call.Call.Args[2]
		}
	}
	if nPut != 1 || offExpr == nil {
		c.Check(false, rule, "length-field", c.P.Pos(at), fmt.Sprintf("%d little-endian 8-byte stores into the trailer (expected exactly one, at an offset): the ciphertext length is not authenticated the way the sealing side does", nPut))
		return
	}
	bad := ""
	evalLen := func(e ssa.Value, clen uint64) (uint64, bool) {
		// len(tail) inside offset expressions
		return m.eval(e, clen, 0)
	}
	lenSym := m.sym
	for r := uint64(0); r < 16 && bad == ""; r++ {
		for _, clen := range []uint64{r, r + 16, r + 4096} {
			m.sym = lenSym
			L, ok := evalLen(lenExpr, clen)
			if !ok {
				c.Undecided(rule, "trailer-length", c.P.Pos(at), m.why)
				return
			}
			// offsets may be written as len(tail)-8
			m.sym = func(v ssa.Value) bool { return lenSym(v) }
			off, ok := m.evalWithLen(offExpr, clen, L, mk)
			if !ok {
				c.Undecided(rule, "length-field", c.P.Pos(at), m.why)
				return
			}
			val, ok := m.evalWithLen(valExpr, clen, L, mk)
			if !ok {
				c.Undecided(rule, "length-field", c.P.Pos(at), m.why)
				return
			}
			switch {
			case L < 16 || L >= 32 || (clen+L-16)%16 != 0:
				bad = fmt.Sprintf("for a ciphertext of %d bytes the trailer is %d bytes long: RFC 8439 pads to the next 16-byte boundary (%d zero bytes) and appends 16 bytes of lengths", clen, L, (16-clen%16)%16)
			case off != L-8:
				bad = fmt.Sprintf("for a ciphertext of %d bytes the ciphertext length is stored at offset %d of a %d-byte trailer (must be the last 8 bytes)", clen, off, L)
			case val != clen:
				bad = fmt.Sprintf("the length field holds %d for a ciphertext of %d bytes", val, clen)
			}
			if bad != "" {
				break
			}
		}
	}
	m.sym = lenSym
	c.Check(bad == "", rule, "poly1305-trailer", c.P.Pos(at), ifElse(bad == "", "zeros to the 16-byte boundary, AD length 0, ciphertext length: as the sealing AEAD computes it (all 16 residues of the length)", bad+": untampered streamed responses of that size fail authentication"))
	c.Min(rule, 1)
}

// evalWithLen: like eval, with len(<a slice of the trailer buffer>) read as L.
func (m *modEval) evalWithLen(v ssa.Value, clen, L uint64, mk ssa.Value) (uint64, bool) {
	saved := m.sym
	defer func() { m.sym = saved }()
	var lenVals = map[ssa.Value]bool{}
	var scan func(x ssa.Value, d int)
	scan = func(x ssa.Value, d int) {
		if d > 20 {
			return
		}
		if call, ok := x.(*ssa.Call); ok {
			if b, ok := call.Call.Value.(*ssa.Builtin); ok && b.Name() == "len" && len(call.Call.Args) == 1 {
				if mk2, lows, _ := sliceChain(call.Call.Args[0]); mk2 == mk && len(lows) == 0 {
					lenVals[x] = true
				}
			}
			return
		}
		if in, ok := x.(ssa.Instruction); ok {
			for _, op := range in.Operands(nil) {
				if *op != nil {
					scan(*op, d+1)
				}
			}
		}
	}
	scan(v, 0)
	if len(lenVals) == 0 {
		return m.eval(v, clen, 0)
	}
	// substitute: evaluate with a wrapper that answers len(...) with L
	return m.evalSubst(v, clen, L, lenVals, 0)
}

func (m *modEval) evalSubst(v ssa.Value, clen, L uint64, lenVals map[ssa.Value]bool, depth int) (uint64, bool) {
	if lenVals[v] {
		return L, true
	}
	if bo, ok := v.(*ssa.BinOp); ok {
		a, ok1 := m.evalSubst(bo.X, clen, L, lenVals, depth+1)
		b, ok2 := m.evalSubst(bo.Y, clen, L, lenVals, depth+1)
		if !ok1 || !ok2 {
			return 0, false
		}
		switch bo.Op {
		case token.ADD:
			return a + b, true
		case token.SUB:
			return a - b, true
		case token.MUL:
			return a * b, true
		}
		m.why = "operator " + bo.Op.String() + " on the trailer's length"
		return 0, false
	}
	if cv, ok := v.(*ssa.Convert); ok {
		return m.evalSubst(cv.X, clen, L, lenVals, depth+1)
	}
	return m.eval(v, clen, depth)
}
