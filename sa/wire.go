package main

// E1: wire-schema extraction. For every function that writes to a *types.Encoder or reads from a
// *types.Decoder the walker produces a wire program: an ordered tree of ops with kind, width,
// nesting and the Go access path each op reads from / assigns to.

import (
	"fmt"
	"go/ast"
	"go/constant"
	"go/token"
	"go/types"
	"sort"
	"strings"

	"golang.org/x/tools/go/packages"
	"golang.org/x/tools/go/types/typeutil"
)

type Op struct {
	Kind  string    `json:"k"`           // u8 u64 bool time bytes string fixed:N raw ref dyn slice opt cond loop switch fn const dist opaque
	Path  string    `json:"p,omitempty"` // Go access path (receiver-rooted ".F.G", "[*]" for elements, "$v" locals, "<expr>")
	Typ   string    `json:"t,omitempty"` // ref: type name; fn: callee; slice: prefix width; cond: predicate; const: value
	Sub   []Op      `json:"s,omitempty"`
	Cases []OpCase  `json:"c,omitempty"`
	Args  []string  `json:"-"` // fn: the paths of all non-coder arguments, in order (mirror comparison only)
	Pos   token.Pos `json:"-"`
}

type OpCase struct {
	Tag string `json:"tag"`
	Ops []Op   `json:"ops,omitempty"`
}

type WireProg struct {
	Name   string // "types.(FileContract).EncodeTo"
	Side   string // enc | dec
	Fn     *types.Func
	Decl   *ast.FuncDecl
	Pkg    *packages.Package
	Recv   *types.Named // receiver named type (deref'd), nil for plain functions
	Ops    []Op
	Reads  map[string]bool // top-level receiver fields mentioned (read)
	Writes map[string]bool // top-level receiver fields assigned / address-taken / decoded into
	Opaque []string
	Zeroed []string // access paths overwritten with a zero value before being encoded (signature stripping)
}

type wireWalker struct {
	callAlias map[types.Object]string // locals defined once from an argument-less getter call
	tagLocals map[types.Object]Op     // locals assigned one constant per case of a type switch (see tagSwitch)
	p         *Program
	pkg       *packages.Package
	info      *types.Info
	recv      types.Object
	paths     map[types.Object]string
	closures  map[types.Object]*ast.FuncLit
	active    map[types.Object]bool
	params    map[types.Object]string
	prog      *WireProg
	side      string
	renames   map[string]string // local filled from the coder, later stored whole into a path
	// value-aware zeroing: a local that is a *copy* of a path (x := *p) collects the fields zeroed on it;
	// they count as zeroed in the preimage only if the copy is stored into the slot that is then encoded
	copyLocal map[types.Object]bool
	pendZero  map[types.Object][]string
	slotZero  map[string][]string // slot key (root object + selectors) -> zeroed paths
}

func (w *wireWalker) rootIdent(e ast.Expr) (*ast.Ident, string) {
	sel := ""
	for {
		switch x := stripParens(e).(type) {
		case *ast.SelectorExpr:
			sel = "." + x.Sel.Name + sel
			e = x.X
			continue
		case *ast.TypeAssertExpr:
			e = x.X
			continue
		case *ast.StarExpr:
			e = x.X
			continue
		case *ast.IndexExpr:
			sel = "[]" + sel
			e = x.X
			continue
		case *ast.Ident:
			return x, sel
		}
		return nil, ""
	}
}

func (w *wireWalker) objOf(id *ast.Ident) types.Object {
	if o := w.info.Defs[id]; o != nil {
		return o
	}
	return w.info.Uses[id]
}

func (w *wireWalker) slotKey(e ast.Expr) string {
	id, sel := w.rootIdent(e)
	if id == nil {
		return ""
	}
	o := w.objOf(id)
	if o == nil {
		return ""
	}
	return fmt.Sprintf("%p%s", o, sel)
}

// noteZero records that path expression e is zeroed.
func (w *wireWalker) noteZero(e ast.Expr) {
	if id, _ := w.rootIdent(e); id != nil {
		if o := w.objOf(id); o != nil && w.copyLocal[o] {
			w.pendZero[o] = append(w.pendZero[o], w.pathOf(e))
			return
		}
	}
	w.prog.Zeroed = append(w.prog.Zeroed, w.pathOf(e))
}

// noteEncoded: the value of e is written to the coder; zeroes stored into that very slot take effect.
func (w *wireWalker) noteEncoded(e ast.Expr) {
	if k := w.slotKey(e); k != "" {
		if zs := w.slotZero[k]; len(zs) > 0 {
			w.prog.Zeroed = append(w.prog.Zeroed, zs...)
		}
	}
	// a copy local encoded directly
	if id, _ := w.rootIdent(e); id != nil {
		if o := w.objOf(id); o != nil && w.copyLocal[o] {
			w.prog.Zeroed = append(w.prog.Zeroed, w.pendZero[o]...)
		}
	}
}

func renameOps(ops []Op, ren map[string]string) {
	if len(ren) == 0 {
		return
	}
	for i := range ops {
		if to, ok := ren[ops[i].Path]; ok {
			ops[i].Path = to
		}
		renameOps(ops[i].Sub, ren)
	}
}

func isCoderType(t types.Type, which string) bool {
	if t == nil {
		return false
	}
	pt, ok := t.(*types.Pointer)
	if !ok {
		return false
	}
	n, ok := pt.Elem().(*types.Named)
	if !ok {
		return false
	}
	o := n.Obj()
	if o.Pkg() == nil || o.Pkg().Path() != modPath+"/types" {
		return false
	}
	if which == "" {
		return o.Name() == "Encoder" || o.Name() == "Decoder"
	}
	return o.Name() == which
}

func relPkg(pkg *types.Package) string {
	if pkg == nil {
		return ""
	}
	return strings.TrimPrefix(strings.TrimPrefix(pkg.Path(), modPath), "/")
}

func typeName(t types.Type) string {
	switch t := t.(type) {
	case *types.Pointer:
		return typeName(t.Elem())
	case *types.Named:
		s := t.Obj().Name()
		if t.Obj().Pkg() != nil {
			s = relPkg(t.Obj().Pkg()) + "." + s
			if !strings.HasPrefix(t.Obj().Pkg().Path(), modPath) {
				s = t.Obj().Pkg().Path() + "." + t.Obj().Name()
			}
		}
		if ta := t.TypeArgs(); ta != nil && ta.Len() > 0 {
			var a []string
			for i := 0; i < ta.Len(); i++ {
				a = append(a, typeName(ta.At(i)))
			}
			s += "[" + strings.Join(a, ",") + "]"
		}
		return s
	case *types.Alias:
		return typeName(types.Unalias(t))
	case *types.Slice:
		return "[]" + typeName(t.Elem())
	case *types.Array:
		return fmt.Sprintf("[%d]%s", t.Len(), typeName(t.Elem()))
	case *types.Basic:
		return t.Name()
	}
	return types.TypeString(t, func(p *types.Package) string { return relPkg(p) })
}

func funcFullName(f *types.Func) string {
	sig := f.Type().(*types.Signature)
	if r := sig.Recv(); r != nil {
		t := r.Type()
		ptr := ""
		if pt, ok := t.(*types.Pointer); ok {
			t = pt.Elem()
			ptr = "*"
		}
		if n, ok := t.(*types.Named); ok {
			return relPkg(f.Pkg()) + ".(" + ptr + n.Obj().Name() + ")." + f.Name()
		}
	}
	return relPkg(f.Pkg()) + "." + f.Name()
}

// coderParams returns the side ("enc"/"dec") if the function takes an Encoder/Decoder parameter.
func coderSide(sig *types.Signature) string {
	for i := 0; i < sig.Params().Len(); i++ {
		t := sig.Params().At(i).Type()
		if isCoderType(t, "Encoder") {
			return "enc"
		}
		if isCoderType(t, "Decoder") {
			return "dec"
		}
	}
	return ""
}

// ExtractWirePrograms walks every function declaration in the module that takes a coder parameter.
func ExtractWirePrograms(p *Program) map[string]*WireProg {
	out := map[string]*WireProg{}
	for _, pkg := range p.Pkgs {
		for _, f := range pkg.Syntax {
			for _, d := range f.Decls {
				fd, ok := d.(*ast.FuncDecl)
				if !ok || fd.Body == nil {
					continue
				}
				obj, _ := pkg.TypesInfo.Defs[fd.Name].(*types.Func)
				if obj == nil {
					continue
				}
				sig := obj.Type().(*types.Signature)
				side := coderSide(sig)
				if side == "" {
					if !bodyTouchesCoder(pkg.TypesInfo, fd.Body) && !callsHashAllHelper(pkg, fd.Body) {
						if !delegatesToHashHelper(pkg, fd) {
							continue
						}
						delegatingDecl[fd] = true
					}
					side = "hash"
				}
				// methods of Encoder/Decoder themselves are primitives
				if r := sig.Recv(); r != nil && isCoderType(r.Type(), "") {
					continue
				}
				wp := extractFunc(p, pkg, fd, obj, side)
				out[wp.Name] = wp
			}
		}
	}
	return out
}

// bodyTouchesCoder: the body uses an Encoder/Decoder-typed expression or calls hashAll.
func bodyTouchesCoder(info *types.Info, body ast.Node) bool {
	found := false
	ast.Inspect(body, func(n ast.Node) bool {
		if found {
			return false
		}
		if e, ok := n.(ast.Expr); ok {
			if tv, ok := info.Types[e]; ok && isCoderType(tv.Type, "") {
				found = true
			}
		}
		if c, ok := n.(*ast.CallExpr); ok {
			if id, ok := c.Fun.(*ast.Ident); ok && id.Name == "hashAll" {
				found = true
			}
		}
		return !found
	})
	return found
}

func extractFunc(p *Program, pkg *packages.Package, fd *ast.FuncDecl, obj *types.Func, side string) *WireProg {
	wp := &WireProg{Name: funcFullName(obj), Side: side, Fn: obj, Decl: fd, Pkg: pkg, Reads: map[string]bool{}, Writes: map[string]bool{}}
	w := &wireWalker{p: p, pkg: pkg, info: pkg.TypesInfo, paths: map[types.Object]string{}, closures: map[types.Object]*ast.FuncLit{}, active: map[types.Object]bool{}, prog: wp, side: side, copyLocal: map[types.Object]bool{}, pendZero: map[types.Object][]string{}, slotZero: map[string][]string{}}
	sig := obj.Type().(*types.Signature)
	if r := sig.Recv(); r != nil {
		t := r.Type()
		if pt, ok := t.(*types.Pointer); ok {
			t = pt.Elem()
		}
		if n, ok := t.(*types.Named); ok {
			wp.Recv = n
		}
		if fd.Recv != nil && len(fd.Recv.List) > 0 && len(fd.Recv.List[0].Names) > 0 {
			w.recv = pkg.TypesInfo.Defs[fd.Recv.List[0].Names[0]]
			if w.recv != nil {
				w.paths[w.recv] = ""
			}
		}
	}
	// non-coder params are roots named by their type (and position when ambiguous)
	w.params = map[types.Object]string{}
	seen := map[string]int{}
	for _, f := range fd.Type.Params.List {
		for _, n := range f.Names {
			if o := pkg.TypesInfo.Defs[n]; o != nil && !isCoderType(o.Type(), "") {
				tn := "{" + typeName(o.Type()) + "}"
				seen[tn]++
				if seen[tn] > 1 {
					tn = fmt.Sprintf("{%s#%d}", typeName(o.Type()), seen[tn])
				}
				w.params[o] = tn
			}
		}
	}
	wp.Ops = exitsToElse(pruneSkips(w.stmts(fd.Body.List), false, false), "return")
	renameOps(wp.Ops, w.renames)
	w.fieldUse(fd.Body)
	return wp
}

// fieldUse records which top-level receiver fields are read and which are written.
func (w *wireWalker) fieldUse(body ast.Node) {
	if w.recv == nil {
		return
	}
	// writes: assignment LHS, &x.F, x.F.DecodeFrom(d), d.Read(x.F[:]), DecodeSlice(d, &x.F)
	var markWrite func(e ast.Expr)
	markWrite = func(e ast.Expr) {
		if f := w.topField(e); f != "" {
			w.prog.Writes[f] = true
		}
	}
	ast.Inspect(body, func(n ast.Node) bool {
		switch n := n.(type) {
		case *ast.AssignStmt:
			for _, l := range n.Lhs {
				markWrite(l)
				if st, ok := stripParens(l).(*ast.StarExpr); ok {
					if id, ok := stripParens(st.X).(*ast.Ident); ok && w.info.Uses[id] == w.recv && w.prog.Recv != nil {
						for _, f := range structFields(w.prog.Recv) {
							w.prog.Writes[f] = true
						}
					}
				}
			}
		case *ast.UnaryExpr:
			if n.Op == token.AND {
				markWrite(n.X)
			}
		case *ast.CallExpr:
			if id, ok := n.Fun.(*ast.Ident); ok && id.Name == "copy" && len(n.Args) == 2 {
				if _, isB := w.info.Uses[id].(*types.Builtin); isB {
					markWrite(n.Args[0])
				}
			}
			if sel, ok := n.Fun.(*ast.SelectorExpr); ok {
				if fn, ok := w.info.Uses[sel.Sel].(*types.Func); ok {
					sig := fn.Type().(*types.Signature)
					if sig.Recv() != nil {
						if _, isPtr := sig.Recv().Type().(*types.Pointer); isPtr && !isCoderType(sig.Recv().Type(), "") {
							markWrite(sel.X)
						}
						if isCoderType(sig.Recv().Type(), "Decoder") && fn.Name() == "Read" && len(n.Args) == 1 {
							markWrite(n.Args[0])
						}
					}
				}
			}
		case *ast.SelectorExpr:
			if f := w.topField(n); f != "" {
				w.prog.Reads[f] = true
			}
		}
		return true
	})
	// a bare use of the receiver as a whole (e.g. V1Block(b).EncodeTo(e), *p = x, hashAll(x)) touches every field
	ast.Inspect(body, func(n ast.Node) bool {
		return true
	})
}

// topField returns the top-level receiver field an expression is rooted at ("" if none).
func (w *wireWalker) topField(e ast.Expr) string {
	for {
		switch x := e.(type) {
		case *ast.ParenExpr:
			e = x.X
		case *ast.StarExpr:
			e = x.X
		case *ast.UnaryExpr:
			e = x.X
		case *ast.SliceExpr:
			e = x.X
		case *ast.IndexExpr:
			e = x.X
		case *ast.CallExpr: // conversion
			if len(x.Args) == 1 && w.isConversion(x) {
				e = x.Args[0]
			} else {
				return ""
			}
		case *ast.SelectorExpr:
			if id, ok := stripParens(x.X).(*ast.Ident); ok && w.info.Uses[id] == w.recv && w.recv != nil {
				if _, isField := w.info.Uses[x.Sel].(*types.Var); isField {
					return w.topFieldName(x)
				}
				return ""
			}
			// (*T)(recv).F or T(recv).F: conversion of the receiver
			if c, ok := stripParens(x.X).(*ast.CallExpr); ok && len(c.Args) == 1 && w.isConversion(c) {
				if id, ok := stripParens(c.Args[0]).(*ast.Ident); ok && w.info.Uses[id] == w.recv && w.recv != nil {
					if _, isField := w.info.Uses[x.Sel].(*types.Var); isField {
						return x.Sel.Name
					}
				}
			}
			e = x.X
		default:
			return ""
		}
	}
}

// topFieldName maps a (possibly promoted) field selection on the receiver to the receiver's own field.
func (w *wireWalker) topFieldName(x *ast.SelectorExpr) string {
	if sel := w.info.Selections[x]; sel != nil && len(sel.Index()) > 1 && w.prog.Recv != nil {
		if st, ok := w.prog.Recv.Underlying().(*types.Struct); ok && sel.Index()[0] < st.NumFields() {
			return st.Field(sel.Index()[0]).Name()
		}
	}
	return x.Sel.Name
}

func stripParens(e ast.Expr) ast.Expr {
	for {
		p, ok := e.(*ast.ParenExpr)
		if !ok {
			return e
		}
		e = p.X
	}
}

func (w *wireWalker) isConversion(c *ast.CallExpr) bool {
	tv, ok := w.info.Types[c.Fun]
	return ok && tv.IsType()
}

func (w *wireWalker) opaque(pos token.Pos, why string) Op {
	w.prog.Opaque = append(w.prog.Opaque, w.p.Pos(pos)+": "+why)
	return Op{Kind: "opaque", Typ: why, Pos: pos}
}

// involvesCoder reports whether any sub-expression has Encoder/Decoder type (or is a call of a
// closure that captures one).
func (w *wireWalker) involvesCoder(n ast.Node) bool {
	found := false
	ast.Inspect(n, func(n ast.Node) bool {
		if found {
			return false
		}
		if _, ok := n.(*ast.FuncLit); ok {
			// still descend: closures defined inline (EncodeSliceFn literal)
		}
		if e, ok := n.(ast.Expr); ok {
			if tv, ok := w.info.Types[e]; ok && isCoderType(tv.Type, "") {
				found = true
				return false
			}
			if c, ok := e.(*ast.CallExpr); ok {
				if id, ok := c.Fun.(*ast.Ident); ok && id.Name == "hashAll" {
					found = true
					return false
				}
				if fn, _ := typeutil.Callee(w.info, c).(*types.Func); fn != nil && w.pkg != nil {
					if inner, _ := w.hashAllHelperAny(fn, w.prog != nil && delegatingDecl[w.prog.Decl]); inner != nil {
						found = true
						return false
					}
				}
			}
			if id, ok := e.(*ast.Ident); ok {
				if o := w.info.Uses[id]; o != nil {
					if fl := w.closures[o]; fl != nil && w.litInvolvesCoder(fl) {
						found = true
						return false
					}
				}
			}
		}
		return true
	})
	return found
}

func (w *wireWalker) litInvolvesCoder(fl *ast.FuncLit) bool {
	found := false
	ast.Inspect(fl.Body, func(n ast.Node) bool {
		if e, ok := n.(ast.Expr); ok {
			if tv, ok := w.info.Types[e]; ok && isCoderType(tv.Type, "") {
				found = true
			}
		}
		return !found
	})
	return found
}

func (w *wireWalker) stmts(list []ast.Stmt) []Op {
	var ops []Op
	failed := false // a SetErr call earlier in this list: leaving afterwards is error handling, not layout
	for _, s := range list {
		if es, ok := s.(*ast.ExprStmt); ok {
			if call, ok := es.X.(*ast.CallExpr); ok {
				if sel, ok := stripParens(call.Fun).(*ast.SelectorExpr); ok && sel.Sel.Name == "SetErr" {
					failed = true
				}
			}
		}
		for _, o := range w.stmt(s) {
			if o.Kind == "skip" && failed {
				continue
			}
			ops = append(ops, o)
		}
	}
	return mergeLenLoops(ops)
}

// mergeLenLoops turns "u64 len(P)" followed by "loop P" into "slice:u64 P".
func mergeLenLoops(ops []Op) []Op {
	// "if len(P) > 0 { for … range P { … } }" is the loop itself
	for i, o := range ops {
		if o.Kind == "cond" && len(o.Cases) == 0 && len(o.Sub) == 1 && o.Sub[0].Kind == "loop" {
			p := o.Sub[0].Path
			switch strings.TrimSuffix(strings.TrimPrefix(o.Typ, "("), ")") {
			case "len(" + p + ") > 0", "len(" + p + ") != 0", "0 < len(" + p + ")", "len(" + p + ") >= 1":
				ops[i] = o.Sub[0]
			}
		}
	}
	var out []Op
	for i := 0; i < len(ops); i++ {
		o := ops[i]
		if i+1 < len(ops) && ops[i+1].Kind == "loop" && (o.Kind == "u64" || o.Kind == "u8") {
			lp := ops[i+1]
			if o.Path == "len("+lp.Path+")" || o.Path == "make("+lp.Path+")" {
				out = append(out, Op{Kind: "slice", Typ: o.Kind, Path: lp.Path, Sub: lp.Sub, Pos: o.Pos})
				i++
				continue
			}
		}
		out = append(out, o)
	}
	return out
}

func (w *wireWalker) stmt(s ast.Stmt) []Op {
	switch s := s.(type) {
	case nil:
		return nil
	case *ast.BlockStmt:
		return w.stmts(s.List)
	case *ast.ExprStmt:
		return w.expr(s.X, "")
	case *ast.AssignStmt:
		// closure definitions
		if len(s.Lhs) == 1 && len(s.Rhs) == 1 {
			if fl, ok := s.Rhs[0].(*ast.FuncLit); ok {
				if id, ok := s.Lhs[0].(*ast.Ident); ok {
					o := w.info.Defs[id]
					if o == nil {
						o = w.info.Uses[id]
					}
					if o != nil {
						w.closures[o] = fl
					}
					return nil
				}
			}
		}
		var ops []Op
		if len(s.Lhs) == len(s.Rhs) {
			for i := range s.Rhs {
				if isZeroExpr(s.Rhs[i]) {
					if _, plain := s.Lhs[i].(*ast.Ident); !plain {
						w.noteZero(s.Lhs[i])
					}
				}
				// slot = &copy / slot = copy: the copy's zeroes now live in that slot
				{
					r := stripParens(s.Rhs[i])
					if u, ok := r.(*ast.UnaryExpr); ok && u.Op == token.AND {
						r = stripParens(u.X)
					}
					if rid, ok := r.(*ast.Ident); ok {
						if ro := w.objOf(rid); ro != nil && w.copyLocal[ro] {
							if k := w.slotKey(s.Lhs[i]); k != "" {
								w.slotZero[k] = append(w.slotZero[k], w.pendZero[ro]...)
							}
						}
					}
				}
				// x := *p  (a copy of what p points to)
				if lid, ok := s.Lhs[i].(*ast.Ident); ok && s.Tok == token.DEFINE {
					if _, isStar := stripParens(s.Rhs[i]).(*ast.StarExpr); isStar {
						if o := w.info.Defs[lid]; o != nil {
							w.copyLocal[o] = true
						}
					}
				}
				// L = X.zeroingCopy(): the named fields of L are zero from here on
				if zc, ok := stripParens(s.Rhs[i]).(*ast.CallExpr); ok {
					if src, fields := w.zeroCopyCall(zc); src != nil {
						for _, f := range fields {
							if id, _ := w.rootIdent(s.Lhs[i]); id != nil {
								if o := w.objOf(id); o != nil && w.copyLocal[o] {
									w.pendZero[o] = append(w.pendZero[o], w.pathOf(s.Lhs[i])+f)
									continue
								}
							}
							w.prog.Zeroed = append(w.prog.Zeroed, w.pathOf(s.Lhs[i])+f)
						}
					}
				}
				// an interface-typed local assigned (not defined) from a value: it stands for what that value stands for;
				// a type-assertion suffix is dropped so that the per-case copies of a type switch agree on one path
				if id, ok := s.Lhs[i].(*ast.Ident); ok && s.Tok == token.ASSIGN && !w.involvesCoder(s.Rhs[i]) {
					if o, isVar := w.info.Uses[id].(*types.Var); isVar && o.Parent() != nil && o.Pkg() != nil && o.Parent() != o.Pkg().Scope() {
						if _, isIface := o.Type().Underlying().(*types.Interface); isIface {
							if pth := w.pathOf(s.Rhs[i]); pth != "" && !strings.HasPrefix(pth, "<") && !strings.HasPrefix(pth, "$") {
								if k := strings.LastIndex(pth, ".("); k >= 0 && strings.HasSuffix(pth, ")") {
									pth = pth[:k]
								}
								w.paths[o] = pth
							}
						}
					}
				}
				// local alias of a path: v := x.F / sp := *res
				if id, ok := s.Lhs[i].(*ast.Ident); ok && !w.involvesCoder(s.Rhs[i]) {
					if o := w.info.Defs[id]; o != nil {
						if pth := w.pathOf(s.Rhs[i]); pth != "" && !strings.HasPrefix(pth, "<") && !strings.HasPrefix(pth, "$") {
							w.paths[o] = pth
						} else if call, isCall := stripParens(s.Rhs[i]).(*ast.CallExpr); isCall && s.Tok == token.DEFINE && strings.HasPrefix(pth, "<") && len(call.Args) == 0 {
							// v := x.getter(): a value computed once by an argument-less method of a non-coder value and
							// written later is written as x.getter() is
							if sel, isSel := stripParens(call.Fun).(*ast.SelectorExpr); isSel {
								if fn, isFn := w.info.Uses[sel.Sel].(*types.Func); isFn {
									if sig, _ := fn.Type().(*types.Signature); sig != nil && sig.Recv() != nil && !isCoderType(sig.Recv().Type(), "") {
										if w.callAlias == nil {
											w.callAlias = map[types.Object]string{}
										}
										w.callAlias[o] = pth // used where the local is written raw (rawOp)
									}
								}
							}
						}
					}
					continue
				}
				if !w.involvesCoder(s.Rhs[i]) {
					// x.F = local: the local's coder ops fill x.F
					if id, ok := stripParens(s.Rhs[i]).(*ast.Ident); ok {
						if _, plain := s.Lhs[i].(*ast.Ident); !plain {
							if lp := w.pathOf(id); strings.HasPrefix(lp, "$") {
								if w.renames == nil {
									w.renames = map[string]string{}
								}
								w.renames[lp] = w.pathOf(s.Lhs[i])
							}
						}
					}
					continue
				}
				ops = append(ops, w.expr(s.Rhs[i], w.pathOf(s.Lhs[i]))...)
			}
			return ops
		}
		for _, r := range s.Rhs {
			if w.involvesCoder(r) {
				lhs := ""
				if len(s.Lhs) > 0 {
					lhs = w.pathOf(s.Lhs[0])
				}
				ops = append(ops, w.expr(r, lhs)...)
			}
		}
		return ops
	case *ast.DeclStmt:
		gd, ok := s.Decl.(*ast.GenDecl)
		if !ok {
			return nil
		}
		var ops []Op
		for _, sp := range gd.Specs {
			vs, ok := sp.(*ast.ValueSpec)
			if !ok {
				continue
			}
			for i, v := range vs.Values {
				if fl, ok := v.(*ast.FuncLit); ok && i < len(vs.Names) {
					if o := w.info.Defs[vs.Names[i]]; o != nil {
						w.closures[o] = fl
					}
					continue
				}
				if w.involvesCoder(v) {
					lhs := ""
					if i < len(vs.Names) {
						lhs = "$" + vs.Names[i].Name
					}
					ops = append(ops, w.expr(v, lhs)...)
				}
			}
		}
		return ops
	case *ast.IfStmt:
		var ops []Op
		if s.Init != nil {
			ops = append(ops, w.stmt(s.Init)...)
		}
		if w.involvesCoder(s.Cond) {
			ops = append(ops, w.expr(s.Cond, "")...)
		}
		body := w.stmts(s.Body.List)
		var els []Op
		if s.Else != nil {
			els = w.stmt(s.Else)
		}
		if len(body) == 0 && len(els) == 0 {
			return ops
		}
		pred := w.pred(s.Cond)
		if len(body) > 0 {
			ops = append(ops, Op{Kind: "cond", Typ: pred, Sub: body, Pos: s.Pos()})
		}
		if len(els) > 0 {
			ops = append(ops, Op{Kind: "cond", Typ: "!(" + pred + ")", Sub: els, Pos: s.Pos()})
		}
		return ops
	case *ast.RangeStmt:
		// "for _, c := range hp.currencies()" where the helper returns a literal list of field addresses
		// ([...]*T{&hp.A, &hp.B}): the loop is the sequence of its body over those fields, in that order
		if fields := w.fieldTable(s.X); len(fields) > 0 {
			if v, ok := s.Value.(*ast.Ident); ok && v != nil {
				if o := w.info.Defs[v]; o != nil {
					var ops []Op
					for _, f := range fields {
						w.paths[o] = f
						ops = append(ops, w.stmts(s.Body.List)...)
					}
					delete(w.paths, o)
					return ops
				}
			}
		}
		// bind range vars
		base := w.pathOf(s.X)
		if v, ok := s.Value.(*ast.Ident); ok && v != nil {
			if o := w.info.Defs[v]; o != nil {
				w.paths[o] = base + "[*]"
			}
		}
		body := w.stmts(s.Body.List)
		if len(body) == 0 {
			return nil
		}
		return []Op{{Kind: "loop", Path: base, Sub: body, Pos: s.Pos()}}
	case *ast.ForStmt:
		var ops []Op
		if s.Init != nil {
			ops = append(ops, w.stmt(s.Init)...)
		}
		body := w.stmts(s.Body.List)
		if len(body) == 0 {
			return ops
		}
		bound := "?"
		if be, ok := s.Cond.(*ast.BinaryExpr); ok {
			bound = w.pathOf(be.Y)
			if strings.HasPrefix(bound, "len(") {
				bound = strings.TrimSuffix(strings.TrimPrefix(bound, "len("), ")")
			}
		}
		return append(ops, Op{Kind: "loop", Path: bound, Sub: body, Pos: s.Pos()})
	case *ast.SwitchStmt:
		var ops []Op
		if s.Init != nil {
			ops = append(ops, w.stmt(s.Init)...)
		}
		tagPath := ""
		if s.Tag != nil {
			if w.involvesCoder(s.Tag) {
				ops = append(ops, w.expr(s.Tag, "$tag")...)
				tagPath = "$tag"
			} else {
				tagPath = w.pathOf(s.Tag)
			}
		}
		sw := Op{Kind: "switch", Path: tagPath, Pos: s.Pos()}
		any := false
		for _, cc := range s.Body.List {
			cl := cc.(*ast.CaseClause)
			var tags []string
			for _, e := range cl.List {
				tags = append(tags, w.constOrExpr(e))
			}
			tag := strings.Join(tags, ",")
			if cl.List == nil {
				tag = "default"
			}
			body := w.stmts(cl.Body)
			if len(body) > 0 {
				any = true
			}
			sw.Cases = append(sw.Cases, OpCase{Tag: tag, Ops: body})
		}
		if !any {
			return ops
		}
		return append(ops, sw)
	case *ast.TypeSwitchStmt:
		var ops []Op
		if s.Init != nil {
			ops = append(ops, w.stmt(s.Init)...)
		}
		var subj ast.Expr
		var bind *ast.Ident
		switch a := s.Assign.(type) {
		case *ast.AssignStmt:
			subj = a.Rhs[0].(*ast.TypeAssertExpr).X
			bind, _ = a.Lhs[0].(*ast.Ident)
		case *ast.ExprStmt:
			subj = a.X.(*ast.TypeAssertExpr).X
		}
		spath := w.pathOf(subj)
		sw := Op{Kind: "switch", Typ: "type", Path: spath, Pos: s.Pos()}
		any := false
		for _, cc := range s.Body.List {
			cl := cc.(*ast.CaseClause)
			var tags []string
			for _, e := range cl.List {
				if tv, ok := w.info.Types[e]; ok && tv.Type != nil {
					tags = append(tags, typeName(tv.Type))
				} else {
					tags = append(tags, types.ExprString(e))
				}
			}
			tag := strings.Join(tags, ",")
			if cl.List == nil {
				tag = "default"
			}
			if bind != nil {
				if o := w.info.Implicits[cl]; o != nil {
					w.paths[o] = spath + ".(" + tag + ")"
				}
			}
			body := w.stmts(cl.Body)
			if len(body) > 0 {
				any = true
			}
			sw.Cases = append(sw.Cases, OpCase{Tag: tag, Ops: body})
		}
		if !any {
			// "tag variable": every case only assigns a constant to one local, which is written afterwards; the
			// write then stands for this switch with the constants in place (same program as writing in each case)
			if tsw, obj := w.tagSwitch(s, sw); obj != nil {
				if w.tagLocals == nil {
					w.tagLocals = map[types.Object]Op{}
				}
				w.tagLocals[obj] = tsw
			}
			return ops
		}
		return append(ops, sw)
	case *ast.ReturnStmt:
		var ops []Op
		for _, r := range s.Results {
			if w.involvesCoder(r) {
				ops = append(ops, w.expr(r, "$ret")...)
			}
		}
		// returning a non-nil error is rejecting, not layout
		if n := len(s.Results); n > 0 {
			last := stripParens(s.Results[n-1])
			if t := w.info.TypeOf(last); t != nil && isErrorType(t) {
				if id, ok := last.(*ast.Ident); !ok || id.Name != "nil" {
					return ops
				}
			}
		}
		// leaving early skips whatever would be written/read afterwards (pruned again if nothing follows)
		ops = append(ops, Op{Kind: "skip", Typ: "return", Pos: s.Pos()})
		return ops
	case *ast.BranchStmt:
		if s.Label == nil && (s.Tok == token.CONTINUE || s.Tok == token.BREAK) {
			return []Op{{Kind: "skip", Typ: s.Tok.String(), Pos: s.Pos()}}
		}
		return nil
	case *ast.DeferStmt:
		if w.involvesCoder(s.Call) {
			return []Op{w.opaque(s.Pos(), "defer involving coder")}
		}
		return nil
	case *ast.GoStmt:
		if w.involvesCoder(s.Call) {
			return []Op{w.opaque(s.Pos(), "go statement involving coder")}
		}
		return nil
	case *ast.IncDecStmt, *ast.EmptyStmt:
		return nil
	case *ast.LabeledStmt:
		return w.stmt(s.Stmt)
	}
	if w.involvesCoder(s) {
		return []Op{w.opaque(s.Pos(), fmt.Sprintf("unhandled statement %T", s))}
	}
	return nil
}

func (w *wireWalker) constOrExpr(e ast.Expr) string {
	if tv, ok := w.info.Types[e]; ok && tv.Value != nil {
		return tv.Value.ExactString()
	}
	if v := w.pkgVarConst(e); v != nil {
		return v.ExactString()
	}
	return types.ExprString(e)
}

// pred renders a branch predicate canonically (receiver renamed to "_", bit tests recognised).
func (w *wireWalker) pred(e ast.Expr) string {
	e = stripParens(e)
	// fields&(1<<k) != 0
	if be, ok := e.(*ast.BinaryExpr); ok && be.Op == token.NEQ {
		if and, ok := stripParens(be.X).(*ast.BinaryExpr); ok && and.Op == token.AND {
			if tv, ok := w.info.Types[and.Y]; ok && tv.Value != nil {
				if v, ok := constant.Uint64Val(tv.Value); ok && v != 0 && v&(v-1) == 0 {
					k := 0
					for v > 1 {
						v >>= 1
						k++
					}
					return fmt.Sprintf("bit %d of %s", k, w.pathOf(and.X))
				}
			}
		}
	}
	return w.canon(e)
}

// canon renders an expression with paths normalised.
func (w *wireWalker) canon(e ast.Expr) string {
	switch x := stripParens(e).(type) {
	case *ast.BinaryExpr:
		return "(" + w.canon(x.X) + " " + x.Op.String() + " " + w.canon(x.Y) + ")"
	case *ast.UnaryExpr:
		return x.Op.String() + w.canon(x.X)
	case *ast.CallExpr:
		if w.isConversion(x) && len(x.Args) == 1 {
			return w.canon(x.Args[0])
		}
		var args []string
		for _, a := range x.Args {
			args = append(args, w.canon(a))
		}
		fn := types.ExprString(x.Fun)
		if sel, ok := x.Fun.(*ast.SelectorExpr); ok {
			if _, isPkg := w.info.Uses[identOf(sel.X)].(*types.PkgName); !isPkg {
				fn = w.canon(sel.X) + "." + sel.Sel.Name
			}
		}
		return fn + "(" + strings.Join(args, ",") + ")"
	case *ast.BasicLit:
		return x.Value
	}
	if tv, ok := w.info.Types[e]; ok && tv.Value != nil {
		return tv.Value.ExactString()
	}
	return w.pathOf(e)
}

func identOf(e ast.Expr) *ast.Ident {
	id, _ := stripParens(e).(*ast.Ident)
	return id
}

// pathOf normalises an access path: conversions, &, *, [:] and parens are dropped.
func (w *wireWalker) pathOf(e ast.Expr) string {
	switch x := e.(type) {
	case nil:
		return ""
	case *ast.ParenExpr:
		return w.pathOf(x.X)
	case *ast.StarExpr:
		return w.pathOf(x.X)
	case *ast.UnaryExpr:
		if x.Op == token.AND {
			return w.pathOf(x.X)
		}
	case *ast.SliceExpr:
		if x.Low == nil && x.High == nil {
			return w.pathOf(x.X)
		}
		lo, hi := "", ""
		if x.Low != nil {
			lo = w.canon(x.Low)
		}
		if x.High != nil {
			hi = w.canon(x.High)
		}
		return w.pathOf(x.X) + "[" + lo + ":" + hi + "]"
	case *ast.IndexExpr:
		if tv, ok := w.info.Types[x.X]; ok {
			if _, isMap := tv.Type.Underlying().(*types.Map); isMap {
				return w.pathOf(x.X) + "[key]"
			}
		}
		if tv, ok := w.info.Types[x.Index]; ok && tv.Value != nil {
			return w.pathOf(x.X) + "[" + tv.Value.ExactString() + "]"
		}
		if id, ok := stripParens(x.Index).(*ast.Ident); ok {
			if o := w.info.Uses[id]; o != nil {
				if ip, ok := w.paths[o]; ok && ip != "" {
					return w.pathOf(x.X) + "[" + ip + "]"
				}
			}
		}
		return w.pathOf(x.X) + "[*]"
	case *ast.Ident:
		o := w.info.Uses[x]
		if o == nil {
			o = w.info.Defs[x]
		}
		if o != nil {
			if p, ok := w.paths[o]; ok {
				return p
			}
			if c, ok := o.(*types.Const); ok {
				return c.Val().ExactString()
			}
			if o.Pkg() == nil {
				return x.Name
			}
			if _, ok := o.(*types.Var); ok && o.Parent() != nil && o.Parent() != o.Pkg().Scope() {
				if w.params[o] != "" {
					return w.params[o]
				}
				return "$" + x.Name
			}
			return relPkg(o.Pkg()) + "." + x.Name
		}
		return "$" + x.Name
	case *ast.SelectorExpr:
		if id, ok := x.X.(*ast.Ident); ok {
			if _, isPkg := w.info.Uses[id].(*types.PkgName); isPkg {
				if o := w.info.Uses[x.Sel]; o != nil {
					return relPkg(o.Pkg()) + "." + x.Sel.Name
				}
			}
		}
		return w.pathOf(x.X) + "." + x.Sel.Name
	case *ast.TypeAssertExpr:
		if x.Type == nil {
			return w.pathOf(x.X)
		}
		if tv, ok := w.info.Types[x.Type]; ok {
			if _, isIface := tv.Type.Underlying().(*types.Interface); isIface {
				return w.pathOf(x.X)
			}
			return w.pathOf(x.X) + ".(" + typeName(tv.Type) + ")"
		}
		return w.pathOf(x.X)
	case *ast.CallExpr:
		if w.isConversion(x) && len(x.Args) == 1 {
			return w.pathOf(x.Args[0])
		}
		if src, _ := w.zeroCopyCall(x); src != nil {
			return w.pathOf(src) // a copy of src with some fields zeroed: same access path
		}
		if id, ok := x.Fun.(*ast.Ident); ok && (id.Name == "len" || id.Name == "new") && len(x.Args) == 1 {
			if id.Name == "len" {
				return "len(" + w.pathOf(x.Args[0]) + ")"
			}
		}
		if id, ok := x.Fun.(*ast.Ident); ok && id.Name == "make" {
			return "<make>"
		}
	case *ast.CompositeLit:
		if tv, ok := w.info.Types[x]; ok {
			return "<" + typeName(tv.Type) + "{}>"
		}
	case *ast.BasicLit:
		return x.Value
	}
	if tv, ok := w.info.Types[e]; ok && tv.Value != nil {
		return tv.Value.ExactString()
	}
	switch e.(type) {
	case *ast.CallExpr, *ast.BinaryExpr, *ast.UnaryExpr:
		return "<" + w.canon(e) + ">"
	}
	return "<" + types.ExprString(e) + ">"
}

func exprStr(e ast.Expr) string {
	if e == nil {
		return ""
	}
	return types.ExprString(e)
}

// expr emits the wire ops of an expression in evaluation order. lhs is the path the value is
// assigned to (decoder side) or "" .
func (w *wireWalker) expr(e ast.Expr, lhs string) []Op {
	e = stripParens(e)
	switch x := e.(type) {
	case *ast.CallExpr:
		return w.call(x, lhs)
	case *ast.BinaryExpr:
		return append(w.expr(x.X, lhs), w.expr(x.Y, lhs)...)
	case *ast.UnaryExpr:
		return w.expr(x.X, lhs)
	case *ast.StarExpr:
		return w.expr(x.X, lhs)
	case *ast.SelectorExpr:
		return w.expr(x.X, lhs)
	case *ast.IndexExpr:
		return append(w.expr(x.X, lhs), w.expr(x.Index, lhs)...)
	case *ast.SliceExpr:
		ops := w.expr(x.X, lhs)
		if x.Low != nil {
			ops = append(ops, w.expr(x.Low, lhs)...)
		}
		if x.High != nil {
			ops = append(ops, w.expr(x.High, lhs)...)
		}
		return ops
	case *ast.CompositeLit:
		var ops []Op
		for _, el := range x.Elts {
			if kv, ok := el.(*ast.KeyValueExpr); ok {
				if w.involvesCoder(kv.Value) {
					sub := lhs
					if id, ok := kv.Key.(*ast.Ident); ok {
						sub = lhs + "." + id.Name
					}
					ops = append(ops, w.expr(kv.Value, sub)...)
				}
			} else if w.involvesCoder(el) {
				ops = append(ops, w.expr(el, lhs)...)
			}
		}
		return ops
	case *ast.TypeAssertExpr:
		return w.expr(x.X, lhs)
	case *ast.FuncLit:
		return nil
	case *ast.Ident, *ast.BasicLit:
		return nil
	}
	if w.involvesCoder(e) {
		return []Op{w.opaque(e.Pos(), fmt.Sprintf("unhandled expression %T", e))}
	}
	return nil
}

var encPrims = map[string]string{"WriteUint8": "u8", "WriteUint64": "u64", "WriteBool": "bool", "WriteTime": "time", "WriteBytes": "bytes", "WriteString": "string"}
var decPrims = map[string]string{"ReadUint8": "u8", "ReadUint64": "u64", "ReadBool": "bool", "ReadTime": "time", "ReadBytes": "bytes", "ReadString": "string"}

func isZeroExpr(e ast.Expr) bool {
	switch x := stripParens(e).(type) {
	case *ast.Ident:
		return x.Name == "nil"
	case *ast.CompositeLit:
		return len(x.Elts) == 0
	}
	return false
}

// isZeroer: the function body stores a zero composite through a pointer (nilSigs-like helpers).
func isZeroer(body *ast.BlockStmt) bool {
	found := false
	ast.Inspect(body, func(n ast.Node) bool {
		if as, ok := n.(*ast.AssignStmt); ok && len(as.Lhs) == 1 && len(as.Rhs) == 1 {
			if _, ok := stripParens(as.Lhs[0]).(*ast.StarExpr); ok && isZeroExpr(as.Rhs[0]) {
				found = true
			}
		}
		return !found
	})
	return found
}

func (w *wireWalker) noteZeroerCall(c *ast.CallExpr) {
	var body *ast.BlockStmt
	if id, ok := stripParens(c.Fun).(*ast.Ident); ok {
		if o := w.info.Uses[id]; o != nil {
			if fl := w.closures[o]; fl != nil {
				body = fl.Body
			} else if fn, ok := o.(*types.Func); ok {
				if fd, _ := w.p.Decl(fn); fd != nil {
					body = fd.Body
				}
			}
		}
	}
	if body == nil || !isZeroer(body) {
		return
	}
	for _, a := range c.Args {
		if u, ok := stripParens(a).(*ast.UnaryExpr); ok && u.Op == token.AND {
			w.noteZero(u.X)
		}
	}
}

func (w *wireWalker) call(c *ast.CallExpr, lhs string) []Op {
	w.noteZeroerCall(c)
	// conversions: descend
	if w.isConversion(c) {
		var ops []Op
		for _, a := range c.Args {
			ops = append(ops, w.expr(a, lhs)...)
		}
		return ops
	}
	// nested coder ops inside arguments come first (evaluation order), except for the coder arg itself
	callee := typeutil.Callee(w.info, c)
	fn, _ := callee.(*types.Func)

	// io.ReadAll(io.LimitReader(coder, n)): a raw read of at most n bytes into the result
	if fn != nil && fn.Pkg() != nil && fn.Pkg().Path() == "io" && fn.Name() == "ReadAll" && len(c.Args) == 1 {
		if in, ok := stripParens(c.Args[0]).(*ast.CallExpr); ok && len(in.Args) == 2 && isCoderExpr(w, in.Args[0]) {
			if f2, _ := typeutil.Callee(w.info, in).(*types.Func); f2 != nil && f2.Pkg() != nil && f2.Pkg().Path() == "io" && f2.Name() == "LimitReader" {
				return []Op{{Kind: "raw", Path: lhs, Pos: c.Pos()}}
			}
		}
	}

	// closure call
	if id, ok := stripParens(c.Fun).(*ast.Ident); ok {
		if o := w.info.Uses[id]; o != nil {
			if fl := w.closures[o]; fl != nil {
				if w.active[o] {
					return []Op{{Kind: "rec", Typ: id.Name, Pos: c.Pos()}}
				}
				if !w.litInvolvesCoder(fl) {
					var ops []Op
					for _, a := range c.Args {
						ops = append(ops, w.expr(a, lhs)...)
					}
					return ops
				}
				w.active[o] = true
				defer delete(w.active, o)
				// bind params to argument paths
				w.bindParams(fl.Type, c.Args)
				var ops []Op
				for _, a := range c.Args {
					if w.involvesCoder(a) && !isCoderExpr(w, a) {
						ops = append(ops, w.expr(a, lhs)...)
					}
				}
				return append(ops, Op{Kind: "fn", Typ: "closure " + id.Name, Sub: exitsToElse(pruneSkips(w.stmts(fl.Body.List), false, false), "return"), Pos: c.Pos()})
			}
		}
	}
	if fn != nil {
		sig := fn.Type().(*types.Signature)
		// methods on Encoder / Decoder / Hasher
		if r := sig.Recv(); r != nil && isCoderType(r.Type(), "") {
			name := fn.Name()
			if k, ok := encPrims[name]; ok && len(c.Args) == 1 {
				if id, isID := stripParens(c.Args[0]).(*ast.Ident); isID {
					if tsw, isTag := w.tagLocals[w.info.Uses[id]]; isTag {
						for i := range tsw.Cases {
							for j := range tsw.Cases[i].Ops {
								tsw.Cases[i].Ops[j].Typ = k + ":" + tsw.Cases[i].Ops[j].Typ
							}
						}
						tsw.Pos = c.Pos()
						return []Op{tsw}
					}
				}
				op := Op{Kind: k, Path: w.pathOf(c.Args[0]), Pos: c.Pos()}
				if tv, ok := w.info.Types[c.Args[0]]; ok && tv.Value != nil {
					op.Kind, op.Typ, op.Path = "const", k+":"+tv.Value.ExactString(), ""
				}
				return append(w.argOps(c.Args, lhs), op)
			}
			if k, ok := decPrims[name]; ok {
				return []Op{{Kind: k, Path: lhs, Pos: c.Pos()}}
			}
			switch name {
			case "Write", "Read":
				if len(c.Args) == 1 {
					return append(w.argOps(c.Args, lhs), w.rawOp(c.Args[0], c.Pos()))
				}
			case "SetErr", "Err", "Flush", "Reset":
				return w.argOps(c.Args, lhs)
			}
			return []Op{w.opaque(c.Pos(), "unknown coder method "+name)}
		}
		if r := sig.Recv(); r != nil && typeName(r.Type()) == "types.Hasher" {
			switch fn.Name() {
			case "WriteDistinguisher":
				return []Op{{Kind: "dist", Typ: w.constOrExpr(c.Args[0]), Pos: c.Pos()}}
			case "Reset":
				return []Op{{Kind: "reset", Pos: c.Pos()}}
			case "Sum":
				return []Op{{Kind: "sum", Pos: c.Pos()}}
			}
		}
		if fn.Name() == "hashAll" && sig.Variadic() && sig.Recv() == nil {
			return w.hashAllOps(c)
		}
		// an unexported helper of this package whose whole body is "return hashAll(…)": the call is that hash, with
		// the helper's receiver and parameters standing for the arguments
		inner, fd := w.hashAllHelper(fn)
		if inner == nil {
			// an EXPORTED hash method applied to a value that is itself being hashed here ("hash of a hash":
			// txn.SiafundOutputID(i).ClaimOutputID()) is part of this preimage program; applied to a plain value it
			// stays a call (validators that merely derive an ID are not hash programs)
			if sel, ok := stripParens(c.Fun).(*ast.SelectorExpr); ok && sig.Recv() != nil && (w.involvesCoder(sel.X) || (w.prog != nil && delegatingDecl[w.prog.Decl])) {
				inner, fd = w.hashAllHelperAny(fn, true)
			}
		}
		if inner != nil {
			if fd.Recv != nil && len(fd.Recv.List) == 1 && len(fd.Recv.List[0].Names) == 1 {
				if sel, ok := stripParens(c.Fun).(*ast.SelectorExpr); ok {
					if o := w.info.Defs[fd.Recv.List[0].Names[0]]; o != nil {
						w.paths[o] = w.pathOf(sel.X)
					}
				}
			}
			w.bindParams(fd.Type, c.Args)
			return w.hashAllOps(inner)
		}
		// generic helpers of package types
		if fn.Pkg() != nil && fn.Pkg().Path() == modPath+"/types" && sig.Recv() == nil {
			if ops, ok := w.helper(fn, c, lhs); ok {
				return ops
			}
		}
		// a method whose receiver is the value and that takes the coder: ref
		if w.callPassesCoder(c) {
			if sel, ok := stripParens(c.Fun).(*ast.SelectorExpr); ok && sig.Recv() != nil {
				rt := w.info.TypeOf(sel.X)
				if rt != nil {
					if _, isIface := rt.Underlying().(*types.Interface); isIface {
						w.noteEncoded(sel.X)
						return []Op{{Kind: "dyn", Path: w.pathOf(sel.X), Typ: fn.Name(), Pos: c.Pos()}}
					}
					std := fn.Name() == "EncodeTo" || fn.Name() == "DecodeFrom"
					if zc, ok := stripParens(sel.X).(*ast.CallExpr); ok {
						if src, fields := w.zeroCopyCall(zc); src != nil {
							for _, f := range fields {
								w.prog.Zeroed = append(w.prog.Zeroed, w.pathOf(src)+f)
							}
						}
					}
					recvPath := w.pathOf(sel.X)
					// a method promoted through embedded fields belongs to the embedded type, at the embedded field's path
					if se := w.info.Selections[sel]; se != nil && len(se.Index()) > 1 {
						t := rt
						for _, ix := range se.Index()[:len(se.Index())-1] {
							if pt, isPtr := t.Underlying().(*types.Pointer); isPtr {
								t = pt.Elem()
							}
							st, isStruct := t.Underlying().(*types.Struct)
							if !isStruct || ix >= st.NumFields() {
								break
							}
							recvPath += "." + st.Field(ix).Name()
							t = st.Field(ix).Type()
						}
						rt = t
					}
					op := Op{Kind: "ref", Typ: typeName(rt), Path: recvPath, Pos: c.Pos()}
					if !std {
						op.Typ = typeName(rt) + "." + fn.Name()
					}
					return append(w.argOpsNoCoder(c.Args, lhs), op)
				}
			}
			// plain function taking the coder
			path := ""
			var all []string
			for _, a := range c.Args {
				if !isCoderExpr(w, a) {
					if len(all) == 0 {
						path = w.pathOf(a)
					}
					all = append(all, w.pathOf(a))
				}
			}
			return append(w.argOpsNoCoder(c.Args, lhs), Op{Kind: "fn", Typ: funcFullName(fn), Path: path, Args: all, Pos: c.Pos()})
		}
	}
	// call of a function value (method expression / param) that takes the coder
	if w.callPassesCoder(c) {
		return []Op{w.opaque(c.Pos(), "dynamic call passing coder: "+types.ExprString(c.Fun))}
	}
	// ordinary call: look for nested coder ops in receiver and args
	var ops []Op
	if id, ok := stripParens(c.Fun).(*ast.Ident); ok && id.Name == "make" {
		if _, isBuiltin := w.info.Uses[id].(*types.Builtin); isBuiltin && lhs != "" {
			lhs = "make(" + lhs + ")"
		}
	}
	if id, ok := stripParens(c.Fun).(*ast.Ident); ok && id.Name == "copy" && len(c.Args) == 2 {
		if _, isBuiltin := w.info.Uses[id].(*types.Builtin); isBuiltin {
			lhs = w.pathOf(c.Args[0])
		}
	}
	if sel, ok := stripParens(c.Fun).(*ast.SelectorExpr); ok && w.involvesCoder(sel.X) {
		ops = append(ops, w.expr(sel.X, lhs)...)
	}
	return append(ops, w.argOps(c.Args, lhs)...)
}

func isCoderExpr(w *wireWalker, e ast.Expr) bool {
	tv, ok := w.info.Types[e]
	return ok && isCoderType(tv.Type, "")
}

func (w *wireWalker) callPassesCoder(c *ast.CallExpr) bool {
	for _, a := range c.Args {
		if isCoderExpr(w, a) {
			return true
		}
	}
	return false
}

func (w *wireWalker) argOps(args []ast.Expr, lhs string) []Op {
	var ops []Op
	for _, a := range args {
		if w.involvesCoder(a) && !isCoderExpr(w, a) {
			ops = append(ops, w.expr(a, lhs)...)
		}
	}
	return ops
}
func (w *wireWalker) argOpsNoCoder(args []ast.Expr, lhs string) []Op { return w.argOps(args, lhs) }

func (w *wireWalker) bindParams(ft *ast.FuncType, args []ast.Expr) {
	i := 0
	for _, f := range ft.Params.List {
		for _, n := range f.Names {
			if i < len(args) {
				if o := w.info.Defs[n]; o != nil && !isCoderExpr(w, args[i]) {
					w.paths[o] = w.pathOf(args[i])
				}
			}
			i++
		}
	}
}

// rawOp models e.Write(x[:]) / d.Read(x[:]).
func (w *wireWalker) rawOp(arg ast.Expr, pos token.Pos) Op {
	a := stripParens(arg)
	if se, ok := a.(*ast.SliceExpr); ok && se.Low == nil && se.High == nil {
		t := w.info.TypeOf(se.X)
		if pt, ok := t.Underlying().(*types.Pointer); ok {
			t = pt.Elem()
		}
		if at, ok := t.Underlying().(*types.Array); ok {
			return Op{Kind: fmt.Sprintf("fixed:%d", at.Len()), Path: w.pathOf(se.X), Pos: pos}
		}
	}
	// []byte("const") or []byte{...} constants
	if ce, ok := a.(*ast.CallExpr); ok && w.isConversion(ce) && len(ce.Args) == 1 {
		if tv, ok := w.info.Types[ce.Args[0]]; ok && tv.Value != nil {
			return Op{Kind: "const", Typ: "raw:" + tv.Value.ExactString(), Pos: pos}
		}
	}
	if id, ok := a.(*ast.Ident); ok {
		if pth, ok := w.callAlias[w.info.Uses[id]]; ok {
			return Op{Kind: "raw", Path: pth, Pos: pos}
		}
	}
	return Op{Kind: "raw", Path: w.pathOf(arg), Pos: pos}
}

// elemOp returns the element program for a slice/pointer helper given the element type.
func (w *wireWalker) refOf(t types.Type, path string, pos token.Pos) Op {
	return Op{Kind: "ref", Typ: typeName(t), Path: path, Pos: pos}
}

func (w *wireWalker) helper(fn *types.Func, c *ast.CallExpr, lhs string) ([]Op, bool) {
	name := fn.Name()
	inst := w.info.Instances[calleeIdent(c)]
	targ := func(i int) types.Type {
		if inst.TypeArgs != nil && i < inst.TypeArgs.Len() {
			return inst.TypeArgs.At(i)
		}
		return nil
	}
	elemOfArg := func(a ast.Expr) types.Type {
		t := w.info.TypeOf(a)
		if t == nil {
			return nil
		}
		if pt, ok := t.Underlying().(*types.Pointer); ok {
			t = pt.Elem()
		}
		if st, ok := t.Underlying().(*types.Slice); ok {
			return st.Elem()
		}
		if pt, ok := t.Underlying().(*types.Pointer); ok {
			return pt.Elem()
		}
		return nil
	}
	if len(c.Args) < 2 {
		return nil, false
	}
	arg := c.Args[1]
	path := w.pathOf(arg)
	switch name {
	case "EncodeSlice", "DecodeSlice":
		et := elemOfArg(arg)
		if et == nil {
			return []Op{w.opaque(c.Pos(), name+": cannot determine element type")}, true
		}
		return []Op{{Kind: "slice", Typ: "u64", Path: path, Sub: []Op{w.refOf(et, path+"[*]", c.Pos())}, Pos: c.Pos()}}, true
	case "EncodeSliceCast", "DecodeSliceCast":
		vt := targ(0)
		if vt == nil {
			return []Op{w.opaque(c.Pos(), name+": no type argument")}, true
		}
		return []Op{{Kind: "slice", Typ: "u64", Path: path, Sub: []Op{w.refOf(vt, path+"[*]", c.Pos())}, Pos: c.Pos()}}, true
	case "EncodeSliceFn", "DecodeSliceFn":
		if len(c.Args) < 3 {
			return nil, false
		}
		sub := w.fnArg(c.Args[2], path+"[*]")
		return []Op{{Kind: "slice", Typ: "u64", Path: path, Sub: sub, Pos: c.Pos()}}, true
	case "EncodePtr", "DecodePtr":
		var et types.Type
		if t := w.info.TypeOf(arg); t != nil {
			if pt, ok := t.Underlying().(*types.Pointer); ok {
				et = pt.Elem()
				if name == "DecodePtr" {
					if pt2, ok := et.Underlying().(*types.Pointer); ok {
						et = pt2.Elem()
					} else {
						et = nil
					}
				}
			}
		}
		if et == nil {
			return []Op{w.opaque(c.Pos(), name+": cannot determine pointee type")}, true
		}
		return []Op{{Kind: "opt", Path: path, Sub: []Op{w.refOf(et, path, c.Pos())}, Pos: c.Pos()}}, true
	case "EncodePtrCast", "DecodePtrCast":
		vt := targ(0)
		if vt == nil {
			return []Op{w.opaque(c.Pos(), name+": no type argument")}, true
		}
		return []Op{{Kind: "opt", Path: path, Sub: []Op{w.refOf(vt, path, c.Pos())}, Pos: c.Pos()}}, true
	}
	return nil, false
}

func calleeIdent(c *ast.CallExpr) *ast.Ident {
	f := stripParens(c.Fun)
	for {
		switch x := f.(type) {
		case *ast.IndexExpr:
			f = x.X
		case *ast.IndexListExpr:
			f = x.X
		case *ast.SelectorExpr:
			return x.Sel
		case *ast.Ident:
			return x
		default:
			return nil
		}
	}
}

// fnArg models the element function passed to EncodeSliceFn / DecodeSliceFn.
func (w *wireWalker) fnArg(e ast.Expr, elemPath string) []Op {
	e = stripParens(e)
	switch x := e.(type) {
	case *ast.FuncLit:
		// bind the non-coder parameter to the element path
		for _, f := range x.Type.Params.List {
			for _, n := range f.Names {
				if o := w.info.Defs[n]; o != nil {
					if !isCoderType(o.Type(), "") {
						w.paths[o] = elemPath
					}
				}
			}
		}
		if x.Type.Results != nil {
			for _, f := range x.Type.Results.List {
				for _, n := range f.Names {
					if o := w.info.Defs[n]; o != nil {
						w.paths[o] = elemPath
					}
				}
			}
		}
		ops := exitsToElse(pruneSkips(w.stmts(x.Body.List), false, false), "return") // a function literal's returns end the literal
		for i := range ops {
			if ops[i].Path == "$ret" {
				ops[i].Path = elemPath
			}
		}
		return ops
	case *ast.SelectorExpr:
		// method expression (*Encoder).WriteUint64 / (*Decoder).ReadBytes, or T.EncodeTo
		if fn, ok := w.info.Uses[x.Sel].(*types.Func); ok {
			sig := fn.Type().(*types.Signature)
			if sig.Recv() != nil && isCoderType(sig.Recv().Type(), "") {
				if k, ok := encPrims[fn.Name()]; ok {
					return []Op{{Kind: k, Path: elemPath, Pos: e.Pos()}}
				}
				if k, ok := decPrims[fn.Name()]; ok {
					return []Op{{Kind: k, Path: elemPath, Pos: e.Pos()}}
				}
			}
			if sig.Recv() != nil {
				return []Op{{Kind: "ref", Typ: typeName(sig.Recv().Type()), Path: elemPath, Pos: e.Pos()}}
			}
			return []Op{{Kind: "fn", Typ: funcFullName(fn), Path: elemPath, Pos: e.Pos()}}
		}
	case *ast.Ident:
		if fn, ok := w.info.Uses[x].(*types.Func); ok {
			return []Op{{Kind: "fn", Typ: funcFullName(fn), Path: elemPath, Pos: e.Pos()}}
		}
		if o := w.info.Uses[x]; o != nil {
			if fl := w.closures[o]; fl != nil {
				return w.fnArg(fl, elemPath)
			}
		}
	}
	return []Op{w.opaque(e.Pos(), "element function not understood: "+types.ExprString(e))}
}

// hashAllOps models a call of the variadic hashAll helper: each argument is written according to
// its static type (the helper itself is checked once to dispatch exactly like this).
func (w *wireWalker) hashAllOps(c *ast.CallExpr) []Op {
	ops := []Op{{Kind: "reset", Pos: c.Pos()}}
	for _, a := range c.Args {
		tv := w.info.Types[a]
		t := tv.Type
		if t == nil {
			ops = append(ops, w.opaque(a.Pos(), "hashAll arg without type"))
			continue
		}
		if b, ok := t.Underlying().(*types.Basic); ok {
			k := ""
			switch {
			case b.Info()&types.IsString != 0:
				if tv.Value != nil {
					ops = append(ops, Op{Kind: "dist", Typ: tv.Value.ExactString(), Pos: a.Pos()})
				} else if v := w.pkgVarConst(a); v != nil {
					ops = append(ops, Op{Kind: "dist", Typ: v.ExactString(), Pos: a.Pos()})
				} else {
					ops = append(ops, Op{Kind: "dist", Typ: "<" + w.pathOf(a) + ">", Pos: a.Pos()})
				}
				continue
			case b.Kind() == types.Uint8:
				k = "u8"
			case b.Kind() == types.Uint64 || b.Kind() == types.Int || b.Kind() == types.UntypedInt:
				k = "u64"
			case b.Kind() == types.Bool:
				k = "bool"
			}
			if k != "" && !isNamedEncoder(t) {
				if tv.Value != nil {
					ops = append(ops, Op{Kind: "const", Typ: k + ":" + tv.Value.ExactString(), Pos: a.Pos()})
				} else {
					ops = append(ops, Op{Kind: k, Path: w.pathOf(a), Pos: a.Pos()})
				}
				continue
			}
		}
		if _, isIface := t.Underlying().(*types.Interface); isIface {
			w.noteEncoded(a)
			ops = append(ops, Op{Kind: "dyn", Path: w.pathOf(a), Typ: "EncodeTo", Pos: a.Pos()})
			continue
		}
		if isNamedEncoder(t) {
			ops = append(ops, Op{Kind: "ref", Typ: typeName(t), Path: w.pathOf(a), Pos: a.Pos()})
			continue
		}
		ops = append(ops, w.opaque(a.Pos(), "hashAll arg of unhandled type "+typeName(t)))
	}
	return append(ops, Op{Kind: "sum", Pos: c.Pos()})
}

// isNamedEncoder reports whether t (or *t) has an EncodeTo(*types.Encoder) method.
func isNamedEncoder(t types.Type) bool {
	for _, tt := range []types.Type{t, types.NewPointer(t)} {
		ms := types.NewMethodSet(tt)
		for i := 0; i < ms.Len(); i++ {
			if ms.At(i).Obj().Name() == "EncodeTo" {
				return true
			}
		}
	}
	return false
}

// ---------- rendering and comparison ----------

func (o Op) String() string {
	var sb strings.Builder
	renderOp(&sb, o, 0, true)
	return strings.TrimRight(sb.String(), "\n")
}

func renderOps(ops []Op, withPaths bool) string {
	var sb strings.Builder
	for _, o := range ops {
		renderOp(&sb, o, 0, withPaths)
	}
	return sb.String()
}

func renderOp(sb *strings.Builder, o Op, ind int, withPaths bool) {
	sb.WriteString(strings.Repeat("  ", ind))
	sb.WriteString(o.Kind)
	if o.Typ != "" {
		sb.WriteString("(" + o.Typ + ")")
	}
	if withPaths && o.Path != "" {
		sb.WriteString(" " + o.Path)
	}
	sb.WriteString("\n")
	for _, s := range o.Sub {
		renderOp(sb, s, ind+1, withPaths)
	}
	for _, c := range o.Cases {
		sb.WriteString(strings.Repeat("  ", ind+1) + "case " + c.Tag + ":\n")
		for _, s := range c.Ops {
			renderOp(sb, s, ind+2, withPaths)
		}
	}
}

// flatLines renders a program as lines for diffing.
func flatLines(ops []Op, withPaths bool) []string {
	s := strings.TrimRight(renderOps(ops, withPaths), "\n")
	if s == "" {
		return nil
	}
	return strings.Split(s, "\n")
}

// structFields lists the field names of a named struct type.
func structFields(n *types.Named) []string {
	st, ok := n.Underlying().(*types.Struct)
	if !ok {
		return nil
	}
	var out []string
	for i := 0; i < st.NumFields(); i++ {
		out = append(out, st.Field(i).Name())
	}
	return out
}

func sortedKeys[V any](m map[string]V) []string {
	out := make([]string, 0, len(m))
	for k := range m {
		out = append(out, k)
	}
	sort.Strings(out)
	return out
}

// tagSwitch recognises a type switch whose cases (other than a default that assigns nothing) each consist of one
// assignment of a constant to the same local variable; it returns the switch op with a const op (value only; the
// width is added where the local is written) per case, and the variable.
func (w *wireWalker) tagSwitch(s *ast.TypeSwitchStmt, sw Op) (Op, types.Object) {
	var obj types.Object
	out := Op{Kind: "switch", Typ: "type", Path: sw.Path, Pos: sw.Pos}
	for i, cc := range s.Body.List {
		cl := cc.(*ast.CaseClause)
		tag := sw.Cases[i].Tag
		if cl.List == nil {
			for _, b := range cl.Body {
				if _, isAssign := b.(*ast.AssignStmt); isAssign {
					return Op{}, nil
				}
			}
			out.Cases = append(out.Cases, OpCase{Tag: tag})
			continue
		}
		if len(cl.Body) != 1 {
			return Op{}, nil
		}
		as, ok := cl.Body[0].(*ast.AssignStmt)
		if !ok || as.Tok != token.ASSIGN || len(as.Lhs) != 1 || len(as.Rhs) != 1 {
			return Op{}, nil
		}
		id, ok := as.Lhs[0].(*ast.Ident)
		tv, hasTV := w.info.Types[as.Rhs[0]]
		if !ok || !hasTV || tv.Value == nil || w.info.Uses[id] == nil {
			return Op{}, nil
		}
		if obj != nil && obj != w.info.Uses[id] {
			return Op{}, nil
		}
		obj = w.info.Uses[id]
		out.Cases = append(out.Cases, OpCase{Tag: tag, Ops: []Op{{Kind: "const", Typ: tv.Value.ExactString(), Pos: as.Pos()}}})
	}
	return out, obj
}

var pkgVarConstMemo = map[types.Object]map[string]constant.Value{}

// pkgVarConst: e names a package-level variable of the module (v, or v.f for a struct-typed v) that is initialised
// with a constant (a composite literal of constants) and never assigned, incremented or address-taken anywhere in
// the module: the constant it holds. nil otherwise.
func (w *wireWalker) pkgVarConst(e ast.Expr) constant.Value {
	e = stripParens(e)
	field := ""
	if sel, ok := e.(*ast.SelectorExpr); ok {
		if _, isPkg := w.info.Uses[identOf(sel.X)].(*types.PkgName); !isPkg || identOf(sel.X) == nil {
			field = sel.Sel.Name
			e = stripParens(sel.X)
		} else {
			e = sel.Sel
		}
	}
	id, ok := e.(*ast.Ident)
	if !ok {
		return nil
	}
	v, ok := w.info.Uses[id].(*types.Var)
	if !ok || v.Pkg() == nil || v.Parent() != v.Pkg().Scope() {
		return nil
	}
	if m, done := pkgVarConstMemo[v]; done {
		return m[field]
	}
	m := map[string]constant.Value{}
	pkgVarConstMemo[v] = m
	var home *packages.Package
	for _, pk := range w.p.Pkgs {
		if pk.Types == v.Pkg() {
			home = pk
		}
	}
	if home == nil {
		return nil
	}
	// written anywhere?
	for _, pk := range w.p.Pkgs {
		written := false
		for _, f := range pk.Syntax {
			ast.Inspect(f, func(n ast.Node) bool {
				root := func(x ast.Expr) types.Object {
					for {
						switch y := stripParens(x).(type) {
						case *ast.SelectorExpr:
							if o, isVar := pk.TypesInfo.Uses[y.Sel].(*types.Var); isVar && o == v {
								return o
							}
							x = y.X
						case *ast.IndexExpr:
							x = y.X
						case *ast.Ident:
							return pk.TypesInfo.Uses[y]
						default:
							return nil
						}
					}
				}
				switch x := n.(type) {
				case *ast.AssignStmt:
					for _, l := range x.Lhs {
						if root(l) == v {
							written = true
						}
					}
				case *ast.IncDecStmt:
					if root(x.X) == v {
						written = true
					}
				case *ast.UnaryExpr:
					if x.Op == token.AND && root(x.X) == v {
						written = true
					}
				}
				return !written
			})
		}
		if written {
			return nil
		}
	}
	for _, f := range home.Syntax {
		for _, d := range f.Decls {
			gd, ok := d.(*ast.GenDecl)
			if !ok || gd.Tok != token.VAR {
				continue
			}
			for _, sp := range gd.Specs {
				vs := sp.(*ast.ValueSpec)
				for i, n := range vs.Names {
					if home.TypesInfo.Defs[n] != v || i >= len(vs.Values) {
						continue
					}
					init := stripParens(vs.Values[i])
					if tv, ok := home.TypesInfo.Types[init]; ok && tv.Value != nil {
						m[""] = tv.Value
					}
					if cl, ok := init.(*ast.CompositeLit); ok {
						st, _ := v.Type().Underlying().(*types.Struct)
						for j, el := range cl.Elts {
							if kv, ok := el.(*ast.KeyValueExpr); ok {
								if k, ok := kv.Key.(*ast.Ident); ok {
									if tv, ok := home.TypesInfo.Types[kv.Value]; ok && tv.Value != nil {
										m[k.Name] = tv.Value
									}
								}
							} else if st != nil && j < st.NumFields() {
								if tv, ok := home.TypesInfo.Types[el]; ok && tv.Value != nil {
									m[st.Field(j).Name()] = tv.Value
								}
							}
						}
					}
				}
			}
		}
	}
	return m[field]
}

// zeroCopyCall: c calls a module function or method that takes one struct VALUE (its receiver or only
// parameter), zeroes some of its fields (through a zeroer such as nilSigs(&v.A, &v.B) or "v.A = T{}") and
// returns it. Returns the expression the copy is made of and the selectors of the zeroed fields.
func (w *wireWalker) zeroCopyCall(c *ast.CallExpr) (ast.Expr, []string) {
	fn, _ := typeutil.Callee(w.info, c).(*types.Func)
	if fn == nil || fn.Pkg() == nil || !strings.HasPrefix(fn.Pkg().Path(), modPath) {
		return nil, nil
	}
	sig := fn.Type().(*types.Signature)
	var src ast.Expr
	switch {
	case sig.Recv() != nil && sig.Params().Len() == 0:
		sel, ok := stripParens(c.Fun).(*ast.SelectorExpr)
		if !ok {
			return nil, nil
		}
		src = sel.X
	case sig.Recv() == nil && sig.Params().Len() == 1 && len(c.Args) == 1:
		src = c.Args[0]
	default:
		return nil, nil
	}
	if sig.Results().Len() != 1 {
		return nil, nil
	}
	fd, pkg := w.p.Decl(fn)
	if fd == nil || fd.Body == nil || pkg == nil {
		return nil, nil
	}
	// the value parameter
	var pid *ast.Ident
	if fd.Recv != nil && len(fd.Recv.List) == 1 && len(fd.Recv.List[0].Names) == 1 {
		pid = fd.Recv.List[0].Names[0]
	} else if fd.Recv == nil && len(fd.Type.Params.List) == 1 && len(fd.Type.Params.List[0].Names) == 1 {
		pid = fd.Type.Params.List[0].Names[0]
	}
	if pid == nil {
		return nil, nil
	}
	pobj := pkg.TypesInfo.Defs[pid]
	if pobj == nil {
		return nil, nil
	}
	if _, isStruct := pobj.Type().Underlying().(*types.Struct); !isStruct {
		return nil, nil
	}
	if !types.Identical(pobj.Type(), sig.Results().At(0).Type()) {
		return nil, nil
	}
	var fields []string
	returnsParam, other := false, false
	for _, st := range fd.Body.List {
		switch x := st.(type) {
		case *ast.ReturnStmt:
			if len(x.Results) == 1 {
				if id, ok := stripParens(x.Results[0]).(*ast.Ident); ok && pkg.TypesInfo.Uses[id] == pobj {
					returnsParam = true
					continue
				}
			}
			other = true
		case *ast.ExprStmt:
			call, ok := x.X.(*ast.CallExpr)
			if !ok {
				other = true
				continue
			}
			// zeroer(&p.A, &p.B)
			var body *ast.BlockStmt
			if zf, _ := typeutil.Callee(pkg.TypesInfo, call).(*types.Func); zf != nil {
				if zd, _ := w.p.Decl(zf); zd != nil {
					body = zd.Body
				}
			}
			if body == nil || !isZeroer(body) {
				other = true
				continue
			}
			for _, a := range call.Args {
				u, ok := stripParens(a).(*ast.UnaryExpr)
				if !ok || u.Op != token.AND {
					other = true
					continue
				}
				sel, ok := stripParens(u.X).(*ast.SelectorExpr)
				if !ok {
					other = true
					continue
				}
				if id, ok := stripParens(sel.X).(*ast.Ident); ok && pkg.TypesInfo.Uses[id] == pobj {
					fields = append(fields, "."+sel.Sel.Name)
				} else {
					other = true
				}
			}
		case *ast.AssignStmt:
			if len(x.Lhs) == 1 && len(x.Rhs) == 1 && isZeroExpr(x.Rhs[0]) {
				if sel, ok := stripParens(x.Lhs[0]).(*ast.SelectorExpr); ok {
					if id, ok := stripParens(sel.X).(*ast.Ident); ok && pkg.TypesInfo.Uses[id] == pobj {
						fields = append(fields, "."+sel.Sel.Name)
						continue
					}
				}
			}
			other = true
		default:
			other = true
		}
	}
	if !returnsParam || other || len(fields) == 0 {
		return nil, nil
	}
	return src, fields
}

// pruneSkips removes "skip" ops that skip nothing: a return with no write after it anywhere in the function,
// a continue/break with no write after it in the enclosing loop body. What remains marks a data-dependent early
// exit that changes which bytes are written.
func pruneSkips(ops []Op, afterInLoop, afterInFunc bool) []Op {
	var out []Op
	// does a real (non-skip) op occur later in this list?
	realAfter := make([]bool, len(ops)+1)
	for i := len(ops) - 1; i >= 0; i-- {
		realAfter[i] = realAfter[i+1] || hasRealOp(ops[i:i+1])
	}
	for i, o := range ops {
		later := realAfter[i+1]
		if o.Kind == "skip" {
			keep := false
			switch o.Typ {
			case "return":
				keep = later || afterInLoop || afterInFunc
			default: // continue, break: the rest of the loop body (and, for break, later iterations)
				keep = later || afterInLoop
			}
			if keep {
				out = append(out, o)
			}
			continue
		}
		if o.Kind == "loop" || o.Kind == "slice" {
			o.Sub = pruneSkips(o.Sub, false, later || afterInLoop || afterInFunc)
		} else {
			o.Sub = pruneSkips(o.Sub, later || afterInLoop, later || afterInFunc)
		}
		if len(o.Cases) > 0 {
			cs := make([]OpCase, len(o.Cases))
			for j, c := range o.Cases {
				cs[j] = OpCase{Tag: c.Tag, Ops: pruneSkips(c.Ops, later || afterInLoop, later || afterInFunc)}
			}
			o.Cases = cs
		}
		// a container left with nothing inside disappears (it only held a pruned skip)
		if (o.Kind == "cond" || o.Kind == "loop") && len(o.Sub) == 0 && len(o.Cases) == 0 {
			continue
		}
		if o.Kind == "switch" {
			any := false
			for _, c := range o.Cases {
				if len(c.Ops) > 0 {
					any = true
				}
			}
			if !any {
				continue
			}
		}
		out = append(out, o)
	}
	return out
}

func hasRealOp(ops []Op) bool {
	for _, o := range ops {
		if o.Kind == "skip" {
			continue
		}
		if o.Kind == "cond" || o.Kind == "loop" || o.Kind == "switch" {
			if hasRealOp(o.Sub) {
				return true
			}
			for _, c := range o.Cases {
				if hasRealOp(c.Ops) {
					return true
				}
			}
			continue
		}
		return true
	}
	return false
}

// exitsToElse rewrites "if P { A; return }; B" as "if P { A } else { B }" (and, inside loop bodies, the same for
// continue): the two spellings write the same bytes. kind is the exit that ends this list ("return" at function
// level, "continue" in a loop body).
func exitsToElse(ops []Op, kind string) []Op {
	for i := range ops {
		o := &ops[i]
		switch o.Kind {
		case "loop", "slice":
			o.Sub = exitsToElse(o.Sub, "continue")
		case "cond":
			o.Sub = exitsToElse(o.Sub, kind)
		}
		for j := range o.Cases {
			o.Cases[j].Ops = exitsToElse(o.Cases[j].Ops, kind)
		}
	}
	// leaving because the coder has already failed is error handling, not layout
	{
		var kept []Op
		for _, o := range ops {
			if o.Kind == "cond" && strings.Contains(o.Typ, "Err()") && !hasRealOp(o.Sub) {
				continue
			}
			kept = append(kept, o)
		}
		ops = kept
	}
	for i, o := range ops {
		if o.Kind != "cond" || len(o.Sub) == 0 {
			continue
		}
		last := o.Sub[len(o.Sub)-1]
		if last.Kind != "skip" || (last.Typ != kind && last.Typ != "return") {
			continue
		}
		head := append([]Op{}, ops[:i]...)
		body := o.Sub[:len(o.Sub)-1]
		if len(body) > 0 {
			c := o
			c.Sub = body
			head = append(head, c)
		}
		rest := exitsToElse(append([]Op{}, ops[i+1:]...), kind)
		if len(rest) > 0 {
			neg := "!(" + o.Typ + ")"
			if strings.HasPrefix(o.Typ, "!(") && strings.HasSuffix(o.Typ, ")") {
				neg = o.Typ[2 : len(o.Typ)-1]
			}
			head = append(head, Op{Kind: "cond", Typ: neg, Sub: rest, Pos: o.Pos})
		}
		return head
	}
	return ops
}

// fieldTable: e is a call, on some value v, of a same-package function or method whose whole body is
// "return [...]*T{&r.F1, &r.F2, …}" (or a slice literal) over its receiver / single parameter r: the paths v.F1, v.F2, …
func (w *wireWalker) fieldTable(e ast.Expr) []string {
	call, ok := stripParens(e).(*ast.CallExpr)
	if !ok {
		return nil
	}
	fn, _ := typeutil.Callee(w.info, call).(*types.Func)
	if fn == nil || fn.Pkg() == nil || fn.Pkg() != w.pkg.Types || fn.Exported() {
		return nil
	}
	var fd *ast.FuncDecl
	for _, f := range w.pkg.Syntax {
		for _, d := range f.Decls {
			if x, isFD := d.(*ast.FuncDecl); isFD && w.info.Defs[x.Name] == types.Object(fn) {
				fd = x
			}
		}
	}
	if fd == nil || fd.Body == nil || len(fd.Body.List) != 1 {
		return nil
	}
	ret, ok := fd.Body.List[0].(*ast.ReturnStmt)
	if !ok || len(ret.Results) != 1 {
		return nil
	}
	lit, ok := stripParens(ret.Results[0]).(*ast.CompositeLit)
	if !ok {
		return nil
	}
	// the value the fields belong to: the receiver or the single argument
	var formal *ast.Ident
	var actual ast.Expr
	if fd.Recv != nil && len(fd.Recv.List) == 1 && len(fd.Recv.List[0].Names) == 1 && len(call.Args) == 0 {
		formal = fd.Recv.List[0].Names[0]
		if sel, isSel := stripParens(call.Fun).(*ast.SelectorExpr); isSel {
			actual = sel.X
		}
	} else if fd.Recv == nil && len(call.Args) == 1 && len(fd.Type.Params.List) == 1 && len(fd.Type.Params.List[0].Names) == 1 {
		formal, actual = fd.Type.Params.List[0].Names[0], call.Args[0]
	}
	if formal == nil || actual == nil {
		return nil
	}
	fobj := w.info.Defs[formal]
	base := w.pathOf(actual)
	var out []string
	for _, el := range lit.Elts {
		ue, isU := stripParens(el).(*ast.UnaryExpr)
		if !isU || ue.Op != token.AND {
			return nil
		}
		// &r.F (possibly nested selectors)
		var names []string
		x := stripParens(ue.X)
		for {
			sel, isSel := x.(*ast.SelectorExpr)
			if !isSel {
				break
			}
			names = append([]string{sel.Sel.Name}, names...)
			x = stripParens(sel.X)
		}
		id, isID := x.(*ast.Ident)
		if !isID || len(names) == 0 || w.info.Uses[id] != fobj {
			return nil
		}
		out = append(out, base+"."+strings.Join(names, "."))
	}
	return out
}

// hashAllHelper: fn is an unexported function or method of the walked package whose body is exactly
// "return hashAll(args…)": that call and the declaration.
func (w *wireWalker) hashAllHelper(fn *types.Func) (*ast.CallExpr, *ast.FuncDecl) {
	return w.hashAllHelperAny(fn, false)
}

func (w *wireWalker) hashAllHelperAny(fn *types.Func, exportedToo bool) (*ast.CallExpr, *ast.FuncDecl) {
	if fn == nil || fn.Pkg() == nil || fn.Pkg() != w.pkg.Types || (fn.Exported() && !exportedToo) {
		return nil, nil
	}
	for _, f := range w.pkg.Syntax {
		for _, d := range f.Decls {
			fd, ok := d.(*ast.FuncDecl)
			if !ok || w.info.Defs[fd.Name] != types.Object(fn) || fd.Body == nil || len(fd.Body.List) != 1 {
				continue
			}
			ret, ok := fd.Body.List[0].(*ast.ReturnStmt)
			if !ok || len(ret.Results) != 1 {
				return nil, nil
			}
			call, ok := stripParens(ret.Results[0]).(*ast.CallExpr)
			if !ok {
				return nil, nil
			}
			if id, ok := stripParens(call.Fun).(*ast.Ident); ok && id.Name == "hashAll" {
				return call, fd
			}
			return nil, nil
		}
	}
	return nil, nil
}

// callsHashAllHelper: the body calls an unexported function of its package whose whole body is "return hashAll(…)".
func callsHashAllHelper(pkg *packages.Package, body ast.Node) bool {
	w := &wireWalker{pkg: pkg, info: pkg.TypesInfo}
	found := false
	ast.Inspect(body, func(n ast.Node) bool {
		if found {
			return false
		}
		if c, ok := n.(*ast.CallExpr); ok {
			if fn, _ := typeutil.Callee(pkg.TypesInfo, c).(*types.Func); fn != nil {
				if inner, _ := w.hashAllHelper(fn); inner != nil {
					found = true
				}
			}
		}
		return !found
	})
	return found
}

// delegatingDecl: functions whose whole body is "return <hash method>(…)" of an exported hash method of the same
// package (Transaction.SiafundClaimOutputID = SiafundOutputID(i).ClaimOutputID()): their program is that method's.
var delegatingDecl = map[*ast.FuncDecl]bool{}

func delegatesToHashHelper(pkg *packages.Package, fd *ast.FuncDecl) bool {
	if fd.Body == nil || len(fd.Body.List) != 1 {
		return false
	}
	ret, ok := fd.Body.List[0].(*ast.ReturnStmt)
	if !ok || len(ret.Results) != 1 {
		return false
	}
	e := stripParens(ret.Results[0])
	// through a conversion
	if c, ok := e.(*ast.CallExpr); ok && len(c.Args) == 1 {
		if tv, isT := pkg.TypesInfo.Types[c.Fun]; isT && tv.IsType() {
			e = stripParens(c.Args[0])
		}
	}
	c, ok := e.(*ast.CallExpr)
	if !ok {
		return false
	}
	fn, _ := typeutil.Callee(pkg.TypesInfo, c).(*types.Func)
	if fn == nil {
		return false
	}
	w := &wireWalker{pkg: pkg, info: pkg.TypesInfo}
	inner, _ := w.hashAllHelperAny(fn, true)
	return inner != nil
}
