package main

import (
	"fmt"
	"go/ast"
	"go/token"
	"go/types"
	"sort"
	"strings"

	"golang.org/x/tools/go/ssa"
	"golang.org/x/tools/go/types/typeutil"
)

func init() { register("C18", runC18) }

func runC18(c *Ctx) {
	c.Explain("Narrow claim: decides the structural necessary conditions of lossless multiproof compression and compact block relay, not the tree arithmetic. Multiproof: (walker-coverage) forEachElementLeaf visits every element-bearing position of a V2Transaction (every path P with P.StateElement.MerkleProof in the type), each through the leaf constructor of its kind; (one-enumeration) the encoder, the decoder, computeMultiproof, expandMultiproof and multiproofSize all enumerate leaves through forEachTree -> forEachElementLeaf over the same transaction slice, and forEachTree hands every collected leaf of a tree to its visitor (no filtering between collection and visit, since proofs are restored by writing through each leaf's pointer); (proof-count) the decoder reads exactly multiproofSize(txns) hashes and hands that buffer to expandMultiproof, the encoder writes every hash of computeMultiproof of the original (proof-carrying) transactions and strips proofs only from deep copies; (codec) the wire programs of V2TransactionsMultiproof, V2BlockData, V2Block and gateway.V2BlockOutline mirror. Outline: (field-map) OutlineBlock and Complete map header fields inversely (Height<->V2.Height, ParentID, Nonce, Timestamp, MinerAddress<->MinerPayouts[0].Address) and the outline ID hashes a header of exactly those fields plus the commitment; (commitment) the outline commitment adds the state leaf for the miner address first and then every transaction hash in Transactions order, the same shape as State.Commitment, with OutlineBlock listing v1 before v2 transactions; (hash-kind) every producer and consumer of OutlineTransaction.Hash uses MerkleLeafHash of the respective transaction version; (fees) Complete starts the miner payout at the block reward and adds the fees of exactly the transactions it appends (TotalFees for v1, MinerFee for v2); (missing) Complete reports Missing(), and Missing, Complete's fill step and the encoder's hash-only case use the same emptiness predicate; (kinds) the outline decoder rejects unknown kinds and kind counts that differ from the three decoded lists.")
	c.NotCovered("bit-for-bit reconstruction of proofs (tree arithmetic of computeMultiproof/expandMultiproof, numLeaves inference and proof-length recovery)", "block ID equality as a value (only that the same fields and hash kinds are used)", "behaviour for candidate pools with hash collisions")
	ge := NewGuardEngine(c.P, c.Depth+2)
	c18Walker(c, ge)
	c18Enumeration(c, ge)
	c18Codec(c)
	c18OutlineFields(c)
	c18Commitment(c, ge)
	c18HashKind(c)
	c18Fees(c)
	c18Missing(c, ge)
	// the multiproof encoder strips proofs from DeepCopy results: every copied element must own its memory
	c09PerIterationFresh(c, ge)
}

func directCalls(ge *GuardEngine, entry string) ([]CallFact, *ssa.Function) {
	fn := ge.p.Func(entry)
	if fn == nil {
		return nil, nil
	}
	var out []CallFact
	for _, cf := range ge.Calls(fn, nil, nil, nil, 0, map[*ssa.Function]int{}) {
		if len(cf.Chain) == 1 {
			out = append(out, cf)
		}
	}
	return out, fn
}

func c18Walker(c *Ctx, ge *GuardEngine) {
	cs, fn := directCalls(ge, "types.forEachElementLeaf")
	txn := c.P.NamedType("types", "V2Transaction")
	if fn == nil || txn == nil {
		c.Undecided("walker-coverage", "anchor", "", "types.forEachElementLeaf or V2Transaction does not resolve")
		return
	}
	c.NoteFunc(FuncName(fn))
	kindOf := map[string]string{"types.SiacoinElement": "types.siacoinLeaf", "types.SiafundElement": "types.siafundLeaf", "types.V2FileContractElement": "types.v2FileContractLeaf", "types.ChainIndexElement": "types.chainIndexLeaf", "types.FileContractElement": "types.fileContractLeaf", "types.AttestationElement": "types.attestationLeaf"}
	paths := map[string]string{}
	for _, lp := range c.P.LeafPaths(txn, "") {
		if strings.HasSuffix(lp.Path, ".StateElement.LeafIndex") {
			paths[strings.TrimSuffix(lp.Path, ".StateElement.LeafIndex")] = ""
		}
	}
	visited := map[string]bool{}
	for _, pth := range sortedKeys(paths) {
		want := "{[]types.V2Transaction}[*]" + pth
		found, where, ctor := false, "", ""
		for _, cf := range cs {
			if cf.Callee == nil || len(cf.Args) != 1 || !strings.HasSuffix(cf.Callee.Name(), "Leaf") {
				continue
			}
			if normAssert(cf.Args[0]) == normAssert(want) {
				found, where, ctor = true, c.P.Pos(cf.Pos), FuncName(cf.Callee)
				visited[cf.Args[0]] = true
			}
		}
		c.Check(found, "walker-coverage", pth, where, ifElse(found, "visited through "+ctor, "forEachElementLeaf never visits "+want+": its Merkle proof is neither written to nor restored from the multiproof"))
		if found {
			// the constructor must be the one of the element's kind
			et := elemTypeAt(c, txn, pth)
			if wantCtor, ok := kindOf[et]; ok {
				c.Check(ctor == wantCtor, "walker-coverage", pth+":kind", where, ifElse(ctor == wantCtor, et+" hashed as its own kind", et+" is hashed by "+ctor+", expected "+wantCtor))
			}
		}
	}
	// the visitor must receive the constructor result
	nv := 0
	for _, cf := range cs {
		if cf.Callee != nil && cf.Callee.Parent() != nil && len(cf.Args) == 1 && strings.HasPrefix(cf.Args[0], "call types.") && strings.Contains(cf.Args[0], "Leaf(") {
			nv++
		}
	}
	if nv == 0 {
		// the visitor called directly (no local wrapper): calls of the function-typed parameter with a constructor result
		for _, f := range append([]*ssa.Function{fn}, fn.AnonFuncs...) {
			for _, b := range f.Blocks {
				for _, in := range b.Instrs {
					call, ok := in.(*ssa.Call)
					if !ok || call.Call.IsInvoke() || len(call.Call.Args) != 1 {
						continue
					}
					if prm, isParam := call.Call.Value.(*ssa.Parameter); !isParam || prm.Parent() != fn {
						continue
					}
					if ctor, ok := call.Call.Args[0].(*ssa.Call); ok {
						if cal := ctor.Call.StaticCallee(); cal != nil && strings.HasSuffix(cal.Name(), "Leaf") {
							nv++
						}
					}
				}
			}
		}
	}
	// ephemeral elements (no leaf index yet) have no proof: every hand-over to the visitor happens only where the
	// element's (or the built leaf's) LeafIndex was compared with UnassignedLeafIndex and differed
	unassigned := ""
	if pkg := c.P.Pkg("types"); pkg != nil {
		if k, ok := pkg.Types.Scope().Lookup("UnassignedLeafIndex").(*types.Const); ok {
			unassigned = "const:" + k.Val().ExactString()
		}
	}
	nh := 0
	for _, f := range append([]*ssa.Function{fn}, fn.AnonFuncs...) {
		fi := ge.info(f)
		for _, b := range f.Blocks {
			for _, in := range b.Instrs {
				call, ok := in.(*ssa.Call)
				if !ok || call.Call.IsInvoke() || len(call.Call.Args) != 1 {
					continue
				}
				target := call.Call.Value
				if ld, isLoad := target.(*ssa.UnOp); isLoad && ld.Op == token.MUL {
					target = ld.X // a captured parameter is read through its cell
				}
				switch v := target.(type) {
				case *ssa.Parameter:
					if v.Parent() != fn {
						continue
					}
				case *ssa.FreeVar:
				case *ssa.Alloc:
					spilled := false
					for _, r := range *v.Referrers() {
						if st, isSt := r.(*ssa.Store); isSt && st.Addr == ssa.Value(v) {
							if prm, isP := st.Val.(*ssa.Parameter); isP && prm.Parent() == fn {
								spilled = true
							}
						}
					}
					if !spilled {
						continue
					}
				default:
					continue
				}
				if _, isFunc := call.Call.Value.Type().Underlying().(*types.Signature); !isFunc {
					continue
				}
				nh++
				arg := ge.pv.Atom(call.Call.Args[0], nil)
				subjects := []string{arg}
				if as := callArgs(arg); strings.HasPrefix(arg, "call types.") && len(as) >= 1 {
					subjects = append(subjects, as[0])
				}
				okSkip := false
				for _, e := range ge.ctxEdges(fi, b, nil) {
					for _, sj := range subjects {
						if e.desc == sj+".StateElement.LeafIndex != "+unassigned || e.desc == sj+".LeafIndex != "+unassigned {
							okSkip = true
						}
					}
				}
				c.Check(okSkip && unassigned != "", "walker-coverage", fmt.Sprintf("skips-ephemeral#%d", nh), c.P.Pos(call.Pos()), ifElse(okSkip, "handed to the visitor only when its leaf index is assigned", "the visitor receives "+arg+" without a test of its LeafIndex against UnassignedLeafIndex: an ephemeral element (no proof, no position) enters the multiproof"))
			}
		}
	}
	c.Check(nh >= 1, "walker-coverage", "skips-ephemeral:inventory", c.P.Pos(fn.Pos()), fmt.Sprintf("%d hand-over(s) to the visitor examined", nh))
	c.Check(nv >= len(paths), "walker-coverage", "visited", c.P.Pos(fn.Pos()), fmt.Sprintf("%d leaf constructor results handed to the visitor for %d element positions", nv, len(paths)))
	c.Min("walker-coverage", 6)
}

func normAssert(s string) string {
	s = strings.ReplaceAll(s, ".(*types.", ".(types.")
	return s
}

// elemTypeAt returns the type name at a LeafPaths-style path below t.
func elemTypeAt(c *Ctx, t types.Type, path string) string {
	cur := t
	for _, seg := range strings.Split(strings.TrimPrefix(path, "."), ".") {
		if seg == "" {
			continue
		}
		if strings.HasPrefix(seg, "(") { // type assertion segment "(types.X)" possibly split; resolve by name
			name := strings.Trim(seg, "()*")
			name = strings.TrimPrefix(name, "types")
			_ = name
			continue
		}
		name := strings.TrimSuffix(seg, "[*]")
		if strings.HasSuffix(name, ")") { // "X)" tail of an assertion that contained a dot
			tn := strings.TrimSuffix(name, ")")
			if nt := c.P.NamedType("types", tn); nt != nil {
				cur = nt
			}
			continue
		}
		if pt, ok := cur.Underlying().(*types.Pointer); ok {
			cur = pt.Elem()
		}
		st, ok := cur.Underlying().(*types.Struct)
		if !ok {
			return ""
		}
		var ft types.Type
		for i := 0; i < st.NumFields(); i++ {
			if st.Field(i).Name() == name {
				ft = st.Field(i).Type()
			}
		}
		if ft == nil {
			return ""
		}
		if strings.HasSuffix(seg, "[*]") {
			if sl, ok := ft.Underlying().(*types.Slice); ok {
				ft = sl.Elem()
			}
		}
		cur = ft
	}
	return typeName(cur)
}

func c18Enumeration(c *Ctx, ge *GuardEngine) {
	has := func(cs []CallFact, callee string, arg0 string) (bool, CallFact) {
		for _, cf := range cs {
			if cf.Callee != nil && FuncName(cf.Callee) == callee && len(cf.Args) > 0 && mustRe(pat(arg0)).MatchString(cf.Args[0]) {
				return true, cf
			}
		}
		return false, CallFact{}
	}
	for _, f := range []string{"types.computeMultiproof", "types.expandMultiproof", "types.multiproofSize"} {
		cs, fn := directCalls(ge, f)
		if fn == nil {
			c.Undecided("one-enumeration", f, "", "anchor does not resolve")
			continue
		}
		c.NoteFunc(f)
		ok, _ := has(cs, "types.forEachTree", "{[]types.V2Transaction}")
		c.Check(ok, "one-enumeration", f, c.P.Pos(fn.Pos()), ifElse(ok, "enumerates trees through forEachTree over its own transaction slice", f+" does not enumerate through forEachTree(txns, …): encoder and decoder can disagree on the leaf order"))
	}
	if cs, fn := directCalls(ge, "types.forEachTree"); fn != nil {
		ok, _ := has(cs, "types.forEachElementLeaf", "{[]types.V2Transaction}")
		c.Check(ok, "one-enumeration", "types.forEachTree", c.P.Pos(fn.Pos()), ifElse(ok, "collects leaves through forEachElementLeaf", "forEachTree does not collect leaves through forEachElementLeaf"))
		// every collected leaf reaches the visitor: the slice passed to fn is the collected per-height slice itself
		var fnParam *ssa.Parameter
		for _, p := range fn.Params {
			if _, isSig := p.Type().Underlying().(*types.Signature); isSig {
				fnParam = p
			}
		}
		found := false
		for _, b := range fn.Blocks {
			for _, in := range b.Instrs {
				call, ok := in.(*ssa.Call)
				if !ok || call.Call.Value != ssa.Value(fnParam) {
					continue
				}
				// the leaves handed to the visitor: a slice argument, or a slice member of a parameter-grouping struct
				var leavesArg ssa.Value
				for _, arg := range call.Call.Args {
					if _, isSlice := arg.Type().Underlying().(*types.Slice); isSlice {
						leavesArg = arg
					}
					if _, isStruct := arg.Type().Underlying().(*types.Struct); isStruct {
						if ld, ok := arg.(*ssa.UnOp); ok {
							if al, ok := ld.X.(*ssa.Alloc); ok {
								for _, ref := range *al.Referrers() {
									if fa, ok := ref.(*ssa.FieldAddr); ok {
										for _, r2 := range *fa.Referrers() {
											if st, ok := r2.(*ssa.Store); ok && st.Addr == ssa.Value(fa) {
												if _, isSlice := st.Val.Type().Underlying().(*types.Slice); isSlice {
													leavesArg = st.Val
												}
											}
										}
									}
								}
							}
						}
					}
				}
				if leavesArg == nil {
					continue
				}
				found = true
				ge.pv.loadCtx = []ssa.Instruction{call}
				a := ge.pv.Atom(leavesArg, nil)
				ok2 := !strings.Contains(a, "call ") && !strings.Contains(a, "[:") && strings.HasSuffix(a, "[*]")
				c.Check(ok2, "one-enumeration", "forEachTree:all-leaves-visited", c.P.Pos(call.Pos()), ifElse(ok2, "the visitor receives the collected per-height leaf slice unchanged (sorted in place)", "the visitor receives "+a+" instead of the collected leaves: a leaf that is dropped or replaced between collection and visit never has its proof restored"))
			}
		}
		if !found {
			c.Undecided("one-enumeration", "forEachTree:all-leaves-visited", c.P.Pos(fn.Pos()), "no call of the visitor parameter found")
		}
	} else {
		c.Undecided("one-enumeration", "types.forEachTree", "", "anchor does not resolve")
	}
	// encoder
	const enc, dec = "types.(V2TransactionsMultiproof).EncodeTo", "types.(*V2TransactionsMultiproof).DecodeFrom"
	if cs, fn := directCalls(ge, enc); fn != nil {
		c.NoteFunc(enc)
		where := c.P.Pos(fn.Pos())
		ok1, _ := has(cs, "types.computeMultiproof", "{types.V2TransactionsMultiproof}")
		c.Check(ok1, "proof-count", "encoder:proof-of-original", where, ifElse(ok1, "the multiproof is computed from the receiver, which still carries its proofs", "computeMultiproof is not applied to the original (proof-carrying) transactions"))
		// a per-transaction copy by any name: a module function that takes an element of the receiver and returns a
		// V2Transaction (that the copy owns every element the walker strips is C09: inputs-not-written with the
		// encoder as an entry, and copy-loop-complete)
		ok2 := false
		for _, cf := range cs {
			if cf.Callee != nil && c.P.InModule(cf.Callee) && len(cf.Args) > 0 && cf.Args[0] == "{types.V2TransactionsMultiproof}[*]" && cf.Callee.Signature.Results().Len() == 1 && typeName(cf.Callee.Signature.Results().At(0).Type()) == "types.V2Transaction" {
				ok2 = true
			}
		}
		ok3, f3 := has(cs, "types.forEachElementLeaf", "…")
		stripsCopy := ok3 && !strings.Contains(f3.Args[0], "{types.V2TransactionsMultiproof}")
		c.Check(ok2 && stripsCopy, "proof-count", "encoder:strips-copies-only", where, ifElse(ok2 && stripsCopy, "proofs are stripped from deep copies, enumerated by the same walker", "the encoder strips proofs from "+f3.Args0()+" (deep copy made: "+fmt.Sprint(ok2)+"): the caller's transactions must not lose their proofs"))
		// every hash written: range over the computeMultiproof result
		wrote := false
		for _, cf := range cs {
			if cf.Callee != nil && FuncName(cf.Callee) == "(types.Hash256).EncodeTo" && len(cf.Args) > 0 && strings.HasPrefix(cf.Args[0], "call types.computeMultiproof(") && strings.HasSuffix(cf.Args[0], "[*]") {
				wrote = true
			}
			// or its 32 bytes handed to the Encoder directly
			if cf.Callee != nil && FuncName(cf.Callee) == "(types.Encoder).Write" && len(cf.Args) == 2 && len(cf.Chain) == 1 && strings.HasPrefix(cf.Args[1], "call types.computeMultiproof(") && strings.HasSuffix(cf.Args[1], "[*]") {
				wrote = true
			}
		}
		c.Check(wrote, "proof-count", "encoder:writes-every-hash", where, ifElse(wrote, "every hash of computeMultiproof(txns) is written in order", "the encoder does not write each element of computeMultiproof(txns)"))
	} else {
		c.Undecided("proof-count", "encoder", "", "anchor does not resolve")
	}
	if cs, fn := directCalls(ge, dec); fn != nil {
		c.NoteFunc(dec)
		where := c.P.Pos(fn.Pos())
		ok1, _ := has(cs, "types.forEachElementLeaf", "{types.V2TransactionsMultiproof}")
		c.Check(ok1, "one-enumeration", dec, where, ifElse(ok1, "proof lengths are restored by the same walker over the decoded transactions", "the decoder does not restore proof lengths through forEachElementLeaf(*txns, …)"))
		okSize, okExpand := false, false
		for _, cf := range cs {
			if cf.Callee == nil {
				continue
			}
			if FuncName(cf.Callee) == "types.expandMultiproof" && len(cf.Args) == 2 && cf.Args[0] == "{types.V2TransactionsMultiproof}" {
				okExpand = true
				// the buffer argument: a make whose length is multiproofSize(*txns)
				for _, b := range fn.Blocks {
					for _, in := range b.Instrs {
						if call, ok := in.(*ssa.Call); ok && call.Pos() == cf.Pos && len(call.Call.Args) == 2 {
							if mk, ok := call.Call.Args[1].(*ssa.MakeSlice); ok {
								ge.pv.loadCtx = []ssa.Instruction{mk}
								if l := ge.pv.Atom(mk.Len, nil); l == "call types.multiproofSize({types.V2TransactionsMultiproof})" {
									okSize = true
								}
							}
						}
					}
				}
			}
		}
		c.Check(okExpand && okSize, "proof-count", "decoder:reads-multiproofSize", where, ifElse(okExpand && okSize, "exactly multiproofSize(txns) hashes are read into the buffer handed to expandMultiproof(txns, …)", "the buffer handed to expandMultiproof is not make([]Hash256, multiproofSize(*txns)) over the decoded transactions"))
		// bail out before expanding when an index was rejected
		gs := ge.AllGuards(fn, nil, 0, map[*ssa.Function]bool{})
		r := req("decoder:leaf-index-bound", dec, "…LeafIndex", opGE, "call (types.Decoder).ReadUint64({types.Decoder})", "a leaf index at or beyond the transmitted leaf count is rejected before proofs are sized", "…")
		r.Weak = true
		ge.CheckReq(c, "proof-count", r, gs)
	} else {
		c.Undecided("proof-count", "decoder", "", "anchor does not resolve")
	}
	c.Min("one-enumeration", 6)
	c.Min("proof-count", 5)
}

func (cf CallFact) Args0() string {
	if len(cf.Args) == 0 {
		return "?"
	}
	return cf.Args[0]
}

func c18Codec(c *Ctx) {
	progs := ExtractWirePrograms(c.P)
	for _, k := range []string{"types|V2TransactionsMultiproof|#Code", "types|V2BlockData|#Code", "types|V2Block|#Code", "gateway|V2BlockOutline|#code"} {
		checkMirrorKey(c, progs, "codec", k)
	}
	c.Min("codec", 4)
}

// ---- outline ----

func c18OutlineFields(c *Ctx) {
	si := &symInterp{p: c.P}
	// OutlineBlock: outline field <- block field
	os, _, ofd, ok1 := si.RunFunc("gateway.OutlineBlock")
	cs, cfr, cfd, ok2 := si.RunFunc("gateway.(*V2BlockOutline).Complete")
	if !ok1 || !ok2 || len(os) == 0 || len(cs) == 0 {
		c.Undecided("field-map", "anchor", "", "OutlineBlock/Complete do not resolve")
		return
	}
	c.NoteFunc("gateway.OutlineBlock")
	c.NoteFunc("gateway.(*V2BlockOutline).Complete")
	bName := paramNames(ofd)[0]
	boName := cfd.Recv.List[0].Names[0].Name
	_ = cfr
	pairs := [][2]string{{"Height", "V2.Height"}, {"ParentID", "ParentID"}, {"Nonce", "Nonce"}, {"Timestamp", "Timestamp"}}
	for _, s := range os {
		if s.panics || len(s.ret) != 1 {
			continue
		}
		bo := s.ret[0]
		for _, p := range pairs {
			got := linOf(bo, p[0])
			ok := got.Equal(Lin{bName + "." + p[1]: 1})
			c.Check(ok, "field-map", "OutlineBlock:"+p[0], c.P.Pos(ofd.Pos()), ifElse(ok, "outline."+p[0]+" = block."+p[1], "outline."+p[0]+" = "+got.String()+", expected block."+p[1]))
		}
		got := linOf(bo, "MinerAddress")
		ok := got.Equal(Lin{bName + ".MinerPayouts[0].Address": 1})
		c.Check(ok, "field-map", "OutlineBlock:MinerAddress", c.P.Pos(ofd.Pos()), ifElse(ok, "outline.MinerAddress = block.MinerPayouts[0].Address", "outline.MinerAddress = "+got.String()))
		break
	}
	for _, s := range cs {
		if s.panics || len(s.ret) != 2 {
			continue
		}
		b := s.ret[0]
		for _, p := range pairs {
			got := linOf(b, p[1])
			ok := got.Equal(Lin{boName + "." + p[0]: 1})
			c.Check(ok, "field-map", "Complete:"+p[1], c.P.Pos(cfd.Pos()), ifElse(ok, "block."+p[1]+" = outline."+p[0], "block."+p[1]+" = "+got.String()+", expected outline."+p[0]))
		}
		break
	}
	// ID: header of exactly ParentID, Nonce, Timestamp + commitment
	if fd, info, ok := c.declOf("gateway.(V2BlockOutline).ID"); ok {
		recv := fd.Recv.List[0].Names[0].Name
		var lit *ast.CompositeLit
		ast.Inspect(fd.Body, func(n ast.Node) bool {
			if cl, ok := n.(*ast.CompositeLit); ok && typeName(info.TypeOf(cl)) == "types.BlockHeader" {
				lit = cl
			}
			return true
		})
		want := map[string]string{"ParentID": recv + ".ParentID", "Nonce": recv + ".Nonce", "Timestamp": recv + ".Timestamp", "Commitment": recv + ".commitment("}
		var bad []string
		if lit == nil {
			bad = append(bad, "no BlockHeader literal")
		} else {
			seen := map[string]bool{}
			for _, el := range lit.Elts {
				kv, ok := el.(*ast.KeyValueExpr)
				if !ok {
					bad = append(bad, "positional header literal")
					continue
				}
				k := kv.Key.(*ast.Ident).Name
				seen[k] = true
				vs := types.ExprString(kv.Value)
				w, ok := want[k]
				good := ok && strings.HasPrefix(vs, w)
				if ok && k == "Commitment" {
					// a call of a gateway function (method or plain) on this outline: remembered as the commitment function
					good = false
					if call, isCall := stripParens(kv.Value).(*ast.CallExpr); isCall {
						if f, _ := typeutil.Callee(info, call).(*types.Func); f != nil && f.Pkg() != nil && strings.HasSuffix(f.Pkg().Path(), "/gateway") {
							onOutline := false
							if sel, isSel := stripParens(call.Fun).(*ast.SelectorExpr); isSel && types.ExprString(sel.X) == recv {
								onOutline = true
							}
							for _, a := range call.Args {
								if as := types.ExprString(a); as == recv || as == "*"+recv || as == "&"+recv {
									onOutline = true
								}
							}
							if onOutline {
								good = true
								c18CommitmentFunc = f
							}
						}
					}
				}
				if !good {
					bad = append(bad, k+" = "+vs)
				}
			}
			for k := range want {
				if !seen[k] {
					bad = append(bad, k+" missing")
				}
			}
		}
		sort.Strings(bad)
		c.Check(len(bad) == 0, "field-map", "ID:header", c.P.Pos(fd.Pos()), ifElse(len(bad) == 0, "the outline ID hashes BlockHeader{ParentID, Nonce, Timestamp, commitment(cs)} of the outline's own fields", "outline header differs from the block header: "+strings.Join(bad, "; ")))
	} else {
		c.Undecided("field-map", "ID:header", "", "anchor does not resolve")
	}
	c.Min("field-map", 10)
}

var (
	c18CommitmentFunc *types.Func
	c18CommitmentSSA  *ssa.Function
)

func c18Commitment(c *Ctx, ge *GuardEngine) {
	// sequence of AddLeaf arguments, in source order, for both commitment functions
	seq := func(entry string) ([]string, *ssa.Function) {
		cs, fn := directCalls(ge, entry)
		var out []string
		for _, cf := range cs {
			if cf.Callee != nil && FuncName(cf.Callee) == "(blake2b.Accumulator).AddLeaf" && len(cf.Args) == 2 {
				out = append(out, cf.Args[1])
			}
		}
		return out, fn
	}
	outlineSpec := "gateway.(V2BlockOutline).commitment"
	if c18CommitmentFunc != nil {
		// the function the outline ID actually uses, whatever it is called
		for fn := range c.P.AllFuncs() {
			if fn.Synthetic == "" && fn.Object() == types.Object(c18CommitmentFunc) {
				outlineSpec = ""
				c18CommitmentSSA = fn
			}
		}
	}
	var o []string
	var ofn *ssa.Function
	if outlineSpec != "" {
		o, ofn = seq(outlineSpec)
	} else {
		ofn = c18CommitmentSSA
		for _, cf := range ge.Calls(ofn, nil, nil, nil, 0, map[*ssa.Function]int{}) {
			if len(cf.Chain) == 1 && cf.Callee != nil && FuncName(cf.Callee) == "(blake2b.Accumulator).AddLeaf" && len(cf.Args) == 2 {
				o = append(o, cf.Args[1])
			}
		}
	}
	s, sfn := seq("consensus.(State).Commitment")
	if ofn == nil || sfn == nil {
		c.Undecided("commitment", "anchor", "", "commitment functions do not resolve")
		return
	}
	c.NoteFunc(FuncName(ofn))
	wantO := []string{pat("call (consensus.State).MerkleLeafHash({consensus.State}, {gateway.V2BlockOutline}.MinerAddress)…"), pat("{gateway.V2BlockOutline}.Transactions[*].Hash…")}
	okO := len(o) == 2 && mustRe(wantO[0]).MatchString(o[0]) && mustRe(wantO[1]).MatchString(o[1])
	c.Check(okO, "commitment", "outline-shape", c.P.Pos(ofn.Pos()), ifElse(okO, "state leaf of the miner address first, then each Transactions[i].Hash in order", "outline commitment adds "+joinShort(o)+"; expected the state leaf for MinerAddress followed by every transaction hash in order"))
	wantS := []string{pat("call (consensus.State).MerkleLeafHash({consensus.State}, {types.Address})…"), pat("call (types.Transaction).MerkleLeafHash({[]types.Transaction}[*])…"), pat("call (types.V2Transaction).MerkleLeafHash({[]types.V2Transaction}[*])…")}
	okS := len(s) == 3
	for i := 0; okS && i < 3; i++ {
		okS = mustRe(wantS[i]).MatchString(s[i])
	}
	c.Check(okS, "commitment", "state-shape", c.P.Pos(sfn.Pos()), ifElse(okS, "State.Commitment: state leaf, v1 leaf hashes, v2 leaf hashes", "State.Commitment adds "+joinShort(s)+": the outline commitment mirrors (state leaf, v1 MerkleLeafHash…, v2 MerkleLeafHash…)"))
	// OutlineBlock lists v1 transactions before v2 transactions
	if fd, info, ok := c.declOf("gateway.OutlineBlock"); ok {
		var order []string
		ast.Inspect(fd.Body, func(n ast.Node) bool {
			cl, ok := n.(*ast.CompositeLit)
			if !ok || typeName(info.TypeOf(cl)) != "gateway.OutlineTransaction" {
				return true
			}
			for _, el := range cl.Elts {
				if kv, ok := el.(*ast.KeyValueExpr); ok {
					if k := kv.Key.(*ast.Ident).Name; k == "Transaction" || k == "V2Transaction" {
						order = append(order, k)
					}
				}
			}
			return true
		})
		ok2 := len(order) == 2 && order[0] == "Transaction" && order[1] == "V2Transaction"
		c.Check(ok2, "commitment", "outline-order", c.P.Pos(fd.Pos()), ifElse(ok2, "OutlineBlock lists v1 transactions before v2 transactions, the order State.Commitment hashes them in", "OutlineBlock builds the transaction list in order "+strings.Join(order, ", ")))
	} else {
		c.Undecided("commitment", "outline-order", "", "anchor does not resolve")
	}
	c.Min("commitment", 3)
}

// c18HashKind: every value stored into OutlineTransaction.Hash, and every key of a Hash256-keyed map in
// gateway/outline.go, is MerkleLeafHash() of a transaction, another outline hash or a decoded hash.
func c18HashKind(c *Ctx) {
	pkg := c.P.Pkg("gateway")
	if pkg == nil {
		c.Undecided("hash-kind", "gateway", "", "package does not load")
		return
	}
	info := pkg.TypesInfo
	n := 0
	per := map[string]int{}
	okExpr := func(e ast.Expr) (bool, string) {
		e = stripParens(e)
		if call, ok := e.(*ast.CallExpr); ok {
			if sel, ok := call.Fun.(*ast.SelectorExpr); ok {
				if f, _ := info.Uses[sel.Sel].(*types.Func); f != nil {
					rt := typeName(info.TypeOf(sel.X))
					rt = strings.TrimPrefix(rt, "*")
					if f.Name() == "MerkleLeafHash" && (rt == "types.Transaction" || rt == "types.V2Transaction") {
						return true, "MerkleLeafHash of a " + rt
					}
					return false, f.Name() + " of " + rt
				}
			}
		}
		if sel, ok := e.(*ast.SelectorExpr); ok && sel.Sel.Name == "Hash" && strings.HasSuffix(typeName(info.TypeOf(sel.X)), "gateway.OutlineTransaction") {
			return true, "an outline hash"
		}
		if ie, ok := e.(*ast.IndexExpr); ok && typeName(info.TypeOf(ie.X)) == "[]types.Hash256" {
			return true, "a transmitted hash"
		}
		if id, ok := e.(*ast.Ident); ok && typeName(info.TypeOf(id)) == "types.Hash256" {
			return true, "a hash variable"
		}
		return false, types.ExprString(e)
	}
	for _, file := range pkg.Syntax {
		var stack []ast.Node
		ast.Inspect(file, func(nd ast.Node) bool {
			if nd == nil {
				stack = stack[:len(stack)-1]
				return false
			}
			stack = append(stack, nd)
			check := func(kind string, e ast.Expr) {
				n++
				ok, what := okExpr(e)
				per[enclosingFunc(stack)+":"+kind]++
				inst := fmt.Sprintf("%s:%s#%d", enclosingFunc(stack), kind, per[enclosingFunc(stack)+":"+kind])
				c.Check(ok, "hash-kind", inst, c.P.Pos(e.Pos()), ifElse(ok, kind+" is "+what, kind+" is "+what+": outline hashes must be MerkleLeafHash() of the transaction, the hash the block commitment is built from"))
			}
			switch x := nd.(type) {
			case *ast.KeyValueExpr:
				if id, ok := x.Key.(*ast.Ident); ok && id.Name == "Hash" {
					if f, _ := info.Uses[id].(*types.Var); f != nil && f.IsField() && strings.HasSuffix(typeName(info.TypeOf(stackLit(stack))), "OutlineTransaction") {
						check("stored hash", x.Value)
					}
				}
			case *ast.AssignStmt:
				for i, l := range x.Lhs {
					if sel, ok := stripParens(l).(*ast.SelectorExpr); ok && sel.Sel.Name == "Hash" && strings.HasSuffix(typeName(info.TypeOf(sel.X)), "gateway.OutlineTransaction") {
						if len(x.Rhs) == len(x.Lhs) {
							check("stored hash", x.Rhs[i])
						}
					}
					if ie, ok := stripParens(l).(*ast.IndexExpr); ok {
						if mt, ok := info.TypeOf(ie.X).Underlying().(*types.Map); ok && typeName(mt.Key()) == "types.Hash256" {
							check("map key", ie.Index)
						}
					}
				}
			case *ast.IndexExpr:
				if mt, ok := info.TypeOf(x.X).Underlying().(*types.Map); ok && typeName(mt.Key()) == "types.Hash256" {
					// reads
					if !isAssignTarget(stack, x) {
						check("lookup key", x.Index)
					}
				}
			}
			return true
		})
	}
	c.Check(n >= 8, "hash-kind", "inventory", "", fmt.Sprintf("%d producers/consumers of outline hashes analysed", n))
}

func stackLit(stack []ast.Node) ast.Expr {
	for i := len(stack) - 2; i >= 0; i-- {
		if cl, ok := stack[i].(*ast.CompositeLit); ok {
			return cl
		}
	}
	return nil
}

func isAssignTarget(stack []ast.Node, x ast.Expr) bool {
	if len(stack) < 2 {
		return false
	}
	if as, ok := stack[len(stack)-2].(*ast.AssignStmt); ok {
		for _, l := range as.Lhs {
			if l == x {
				return true
			}
		}
	}
	return false
}

// c18Fees: in Complete, the block list that receives a transaction and the miner payout that receives
// its fees are updated together.
func c18Fees(c *Ctx) {
	fd, info, ok := c.declOf("gateway.(*V2BlockOutline).Complete")
	if !ok {
		c.Undecided("fees", "Complete", "", "anchor does not resolve")
		return
	}
	where := c.P.Pos(fd.Pos())
	// initial payout value
	initOK := false
	ast.Inspect(fd.Body, func(n ast.Node) bool {
		kv, ok := n.(*ast.KeyValueExpr)
		if !ok {
			return true
		}
		if id, ok := kv.Key.(*ast.Ident); ok && id.Name == "Value" {
			if call, ok := kv.Value.(*ast.CallExpr); ok {
				if sel, ok := call.Fun.(*ast.SelectorExpr); ok && sel.Sel.Name == "BlockReward" && typeName(info.TypeOf(sel.X)) == "consensus.State" {
					initOK = true
				}
			}
		}
		return true
	})
	c.Check(initOK, "fees", "Complete:starts-at-block-reward", where, ifElse(initOK, "the miner payout starts at cs.BlockReward()", "the reconstructed miner payout does not start at the block reward"))
	// accumulators of the payout: the field itself, or a local that is initialised from it (or from the block
	// reward) and stored back into it by a top-level statement
	accs := map[string]bool{}
	finalStores := 0
	for _, st := range fd.Body.List {
		as, ok := st.(*ast.AssignStmt)
		if !ok || len(as.Lhs) != 1 || len(as.Rhs) != 1 || as.Tok != token.ASSIGN {
			continue
		}
		l := types.ExprString(as.Lhs[0])
		if id, isID := as.Rhs[0].(*ast.Ident); isID && strings.HasSuffix(l, ".MinerPayouts[0].Value") {
			// the local must start from the payout / the block reward
			ast.Inspect(fd.Body, func(n ast.Node) bool {
				d, ok := n.(*ast.AssignStmt)
				if !ok || d.Tok != token.DEFINE || len(d.Lhs) != 1 || len(d.Rhs) != 1 {
					return true
				}
				if li, ok := d.Lhs[0].(*ast.Ident); ok && info.Defs[li] != nil && info.Defs[li] == info.Uses[id] {
					r := types.ExprString(d.Rhs[0])
					if strings.HasSuffix(r, ".MinerPayouts[0].Value") || strings.HasSuffix(r, ".BlockReward()") {
						accs[id.Name] = true
						finalStores++
					}
				}
				return true
			})
		}
	}
	isAcc := func(l string) bool { return accs[l] || strings.HasSuffix(l, ".MinerPayouts[0].Value") }
	// every append of a transaction to the block is accompanied, in the same statement list, by adding its fees
	n := 0
	var visit func(list []ast.Stmt)
	visit = func(list []ast.Stmt) {
		for _, st := range list {
			if as, ok := st.(*ast.AssignStmt); ok && len(as.Rhs) == 1 {
				call, ok := as.Rhs[0].(*ast.CallExpr)
				if !ok || len(call.Args) != 2 {
					continue
				}
				id, ok := call.Fun.(*ast.Ident)
				if !ok || id.Name != "append" {
					continue
				}
				lt := typeName(info.TypeOf(call.Args[0]))
				if lt != "[]types.Transaction" && lt != "[]types.V2Transaction" {
					continue
				}
				star, ok := stripParens(call.Args[1]).(*ast.StarExpr)
				if !ok {
					continue
				}
				n++
				txnExpr := types.ExprString(star.X)
				want := txnExpr + ".TotalFees()"
				kind := "v1"
				if lt == "[]types.V2Transaction" {
					want = txnExpr + ".MinerFee"
					kind = "v2"
				}
				paired := false
				for _, st2 := range list {
					as2, ok := st2.(*ast.AssignStmt)
					if !ok || len(as2.Lhs) != 1 || len(as2.Rhs) != 1 {
						continue
					}
					l := types.ExprString(as2.Lhs[0])
					if !isAcc(l) {
						continue
					}
					if types.ExprString(as2.Rhs[0]) == l+".Add("+want+")" {
						paired = true
					}
				}
				c.Check(paired, "fees", "Complete:"+kind+"-fees-follow-transaction", c.P.Pos(as.Pos()), ifElse(paired, "appending "+txnExpr+" adds "+want+" to the miner payout", "a "+kind+" transaction is appended to the block without adding "+want+" to MinerPayouts[0].Value: the completed block's miner payout differs from the original"))
			}
		}
		for _, st := range list {
			switch x := st.(type) {
			case *ast.IfStmt:
				visit(x.Body.List)
				if b, ok := x.Else.(*ast.BlockStmt); ok {
					visit(b.List)
				} else if e, ok := x.Else.(*ast.IfStmt); ok {
					visit([]ast.Stmt{e})
				}
			case *ast.ForStmt:
				visit(x.Body.List)
			case *ast.RangeStmt:
				visit(x.Body.List)
			case *ast.BlockStmt:
				visit(x.List)
			case *ast.AssignStmt:
				// a local closure doing the appending: its body is part of the function
				for _, r := range x.Rhs {
					if fl, ok := r.(*ast.FuncLit); ok {
						visit(fl.Body.List)
					}
				}
			}
		}
	}
	visit(fd.Body.List)
	// no other writer of the payout value
	writers := 0
	ast.Inspect(fd.Body, func(nd ast.Node) bool {
		if as, ok := nd.(*ast.AssignStmt); ok {
			for _, l := range as.Lhs {
				if isAcc(types.ExprString(l)) && as.Tok == token.ASSIGN {
					writers++
				}
			}
		}
		return true
	})
	// order: the block's transactions are appended in one pass over the outline's entries, in outline order
	{
		closureAppends := map[types.Object]bool{}
		isTxnAppend := func(n ast.Node) bool {
			as, ok := n.(*ast.AssignStmt)
			if !ok || len(as.Rhs) != 1 {
				return false
			}
			call, ok := as.Rhs[0].(*ast.CallExpr)
			if !ok || len(call.Args) != 2 {
				return false
			}
			id, ok := call.Fun.(*ast.Ident)
			if !ok || id.Name != "append" {
				return false
			}
			lt := typeName(info.TypeOf(call.Args[0]))
			return lt == "[]types.Transaction" || lt == "[]types.V2Transaction"
		}
		ast.Inspect(fd.Body, func(n ast.Node) bool {
			as, ok := n.(*ast.AssignStmt)
			if !ok || len(as.Lhs) != 1 || len(as.Rhs) != 1 {
				return true
			}
			fl, ok := as.Rhs[0].(*ast.FuncLit)
			if !ok {
				return true
			}
			has := false
			ast.Inspect(fl.Body, func(m ast.Node) bool {
				if isTxnAppend(m) {
					has = true
				}
				return !has
			})
			if id, ok := as.Lhs[0].(*ast.Ident); ok && has {
				if o := info.Defs[id]; o != nil {
					closureAppends[o] = true
				}
			}
			return true
		})
		loops, inOrder, outside := 0, 0, 0
		var scan func(list []ast.Stmt, inLoop bool)
		appendsIn := func(body ast.Node) bool {
			found := false
			ast.Inspect(body, func(m ast.Node) bool {
				if _, isLit := m.(*ast.FuncLit); isLit {
					return false
				}
				if isTxnAppend(m) {
					found = true
				}
				if call, ok := m.(*ast.CallExpr); ok {
					if id, ok := call.Fun.(*ast.Ident); ok && closureAppends[info.Uses[id]] {
						found = true
					}
				}
				return !found
			})
			return found
		}
		scan = func(list []ast.Stmt, inLoop bool) {
			for _, st := range list {
				switch x := st.(type) {
				case *ast.RangeStmt:
					if appendsIn(x.Body) {
						loops++
						if strings.HasSuffix(types.ExprString(x.X), ".Transactions") && typeName(info.TypeOf(x.X)) == "[]gateway.OutlineTransaction" {
							inOrder++
						}
					}
				case *ast.ForStmt:
					if appendsIn(x.Body) {
						loops++
					}
				case *ast.IfStmt:
					scan(x.Body.List, inLoop)
					if b, ok := x.Else.(*ast.BlockStmt); ok {
						scan(b.List, inLoop)
					}
				case *ast.BlockStmt:
					scan(x.List, inLoop)
				case *ast.AssignStmt:
					if _, isLit := x.Rhs[0].(*ast.FuncLit); !isLit && appendsIn(x) {
						outside++
					}
				case *ast.ExprStmt:
					if appendsIn(x) {
						outside++
					}
				}
			}
		}
		scan(fd.Body.List, false)
		okOrder := loops == 1 && inOrder == 1 && outside == 0
		c.Check(okOrder, "fees", "Complete:single-pass-in-outline-order", where, ifElse(okOrder, "transactions are appended in one pass over the outline's entries, so the completed block lists them in outline order", fmt.Sprintf("transactions are appended in %d loop(s) (%d over the outline's entries) and %d place(s) outside a loop: the completed block's transaction order can differ from the outline's, so its body no longer matches the commitment", loops, inOrder, outside)))
	}
	writers -= finalStores // storing the local accumulator back is not an update of its own
	c.Check(n == 2 && writers == 2, "fees", "Complete:exactly-the-appended", where, fmt.Sprintf("%d append sites, %d payout updates: fees are added for exactly the appended transactions", n, writers))
	c.Min("fees", 5)
}

func c18Missing(c *Ctx, ge *GuardEngine) {
	if fn := c.P.Func("gateway.(*V2BlockOutline).Complete"); fn != nil {
		as := ge.ReturnAtoms(fn, 1)
		ok := len(as) == 1 && strings.HasPrefix(as[0], "call (gateway.V2BlockOutline).Missing(")
		// evaluated after the fill loop: the call sits in the returning block
		for _, r := range returnsOf(fn) {
			if len(r.Results) == 2 {
				call, isCall := r.Results[1].(*ssa.Call)
				if !isCall || call.Block() != r.Block() {
					ok = false
				}
			}
		}
		how := "Complete's second result is bo.Missing() after filling"
		if !ok {
			if why := c18InlineMissing(c); why == "" {
				ok, how = true, "Complete's second result is a list of exactly the hashes of entries whose two transaction pointers are nil after filling"
			} else {
				how = why
			}
		}
		c.Check(ok, "missing", "Complete:reports-Missing", c.P.Pos(fn.Pos()), ifElse(ok, how, "Complete returns "+joinShort(as)+" as the missing list ("+how+")"))
	} else {
		c.Undecided("missing", "Complete:reports-Missing", "", "anchor does not resolve")
	}
	// emptiness predicate: Transaction == nil && V2Transaction == nil in Missing, in Complete's fill step; encoder default case after both != nil cases
	pred := func(entry string) (bool, string) {
		fd, _, ok := c.declOf(entry)
		if !ok {
			return false, "does not resolve"
		}
		found := false
		ast.Inspect(fd.Body, func(n ast.Node) bool {
			be, ok := n.(*ast.BinaryExpr)
			if !ok || be.Op != token.LAND {
				return true
			}
			l, r := types.ExprString(be.X), types.ExprString(be.Y)
			if strings.HasSuffix(l, ".Transaction == nil") && strings.HasSuffix(r, ".V2Transaction == nil") && strings.TrimSuffix(l, ".Transaction == nil") == strings.TrimSuffix(r, ".V2Transaction == nil") {
				found = true
			}
			return true
		})
		return found, ""
	}
	for _, e := range []string{"gateway.(V2BlockOutline).Missing", "gateway.(*V2BlockOutline).Complete"} {
		ok, _ := pred(e)
		c.Check(ok, "missing", e+":predicate", "", ifElse(ok, "an entry is missing iff both transaction pointers are nil", e+" does not use the predicate Transaction == nil && V2Transaction == nil"))
	}
	// decoder kinds
	if fn := c.P.Func("gateway.(*V2BlockOutline).decodeFrom"); fn != nil {
		gs := ge.AllGuards(fn, nil, 0, map[*ssa.Function]bool{})
		tab := []GuardReq{
			req("kinds:known", "", "…", opGT, "const:2", "an unknown outline transaction kind is rejected", "…"),
			req("kinds:count-v1", "", "…[0]", opNE, "len(…)", "the number of kind-0 entries equals the number of decoded v1 transactions", "…"),
			req("kinds:count-v2", "", "…[1]", opNE, "len(…)", "the number of kind-1 entries equals the number of decoded v2 transactions", "…"),
			req("kinds:count-hash", "", "…[2]", opNE, "len(…)", "the number of kind-2 entries equals the number of decoded hashes", "…"),
		}
		for _, r := range tab {
			r.Weak = true
			r.Entry = "gateway.(*V2BlockOutline).decodeFrom"
			ge.CheckReq(c, "kinds", r, gs)
		}
	} else {
		c.Undecided("kinds", "decoder", "", "anchor does not resolve")
	}
	c.Min("missing", 3)
	c.Min("kinds", 4)
}

// c18InlineMissing: Complete builds the missing list itself: every return yields one local slice, every
// update of that slice is "m = append(m, E.Hash)" at a place where E.Transaction == nil and E.V2Transaction == nil
// are both known (inside that test, or in the final else of the != nil chain), after the fill step, and every
// entry is visited (the append is in the loop over the outline's transactions). "" if so, else the reason.
func c18InlineMissing(c *Ctx) string {
	fd, info, ok := c.declOf("gateway.(*V2BlockOutline).Complete")
	if !ok {
		return "anchor does not resolve"
	}
	var m types.Object
	bad := ""
	ast.Inspect(fd.Body, func(n ast.Node) bool {
		if _, isLit := n.(*ast.FuncLit); isLit {
			return false
		}
		r, ok := n.(*ast.ReturnStmt)
		if !ok || len(r.Results) != 2 {
			return true
		}
		id, isID := stripParens(r.Results[1]).(*ast.Ident)
		if !isID || info.Uses[id] == nil {
			bad = "the second result is not a local list"
			return true
		}
		if m != nil && m != info.Uses[id] {
			bad = "different lists are returned"
		}
		m = info.Uses[id]
		return true
	})
	if bad != "" || m == nil {
		return ifElse(bad != "", bad, "no two-result return")
	}
	appends := 0
	var walk func(list []ast.Stmt, facts []string, inLoop bool)
	negate := func(e ast.Expr) []string {
		be, ok := stripParens(e).(*ast.BinaryExpr)
		if !ok {
			return nil
		}
		switch be.Op {
		case token.EQL:
			return []string{types.ExprString(be.X) + " != " + types.ExprString(be.Y)}
		case token.NEQ:
			return []string{types.ExprString(be.X) + " == " + types.ExprString(be.Y)}
		case token.LOR: // !(a || b) = !a && !b
			var out []string
			for _, x := range []ast.Expr{be.X, be.Y} {
				nx := stripParens(x)
				if b2, ok := nx.(*ast.BinaryExpr); ok && (b2.Op == token.EQL || b2.Op == token.NEQ) {
					op := " != "
					if b2.Op == token.NEQ {
						op = " == "
					}
					out = append(out, types.ExprString(b2.X)+op+types.ExprString(b2.Y))
				}
			}
			return out
		}
		return nil
	}
	var conj func(e ast.Expr) []string
	conj = func(e ast.Expr) []string {
		e = stripParens(e)
		if be, ok := e.(*ast.BinaryExpr); ok && be.Op == token.LAND {
			return append(conj(be.X), conj(be.Y)...)
		}
		return []string{types.ExprString(e)}
	}
	has := func(facts []string, f string) bool {
		for _, x := range facts {
			if x == f {
				return true
			}
		}
		return false
	}
	walk = func(list []ast.Stmt, facts []string, inLoop bool) {
		for _, st := range list {
			switch x := st.(type) {
			case *ast.AssignStmt:
				for i, l := range x.Lhs {
					id, isID := l.(*ast.Ident)
					if !isID || (info.Uses[id] != m && info.Defs[id] != m) {
						continue
					}
					if x.Tok == token.DEFINE {
						continue
					}
					call, isCall := x.Rhs[min(i, len(x.Rhs)-1)].(*ast.CallExpr)
					fn, _ := func() (*ast.Ident, bool) {
						if !isCall {
							return nil, false
						}
						f, ok := call.Fun.(*ast.Ident)
						return f, ok
					}()
					if fn == nil || fn.Name != "append" || len(call.Args) != 2 || types.ExprString(call.Args[0]) != id.Name {
						bad = "the list is updated other than by appending one hash"
						continue
					}
					sel, isSel := stripParens(call.Args[1]).(*ast.SelectorExpr)
					if !isSel || sel.Sel.Name != "Hash" {
						bad = "something other than an entry's Hash is appended"
						continue
					}
					e := types.ExprString(sel.X)
					if !has(facts, e+".Transaction == nil") || !has(facts, e+".V2Transaction == nil") {
						bad = "a hash is appended where " + e + ".Transaction == nil && " + e + ".V2Transaction == nil is not established"
						continue
					}
					if !inLoop {
						bad = "the hash is appended outside the loop over the outline's entries"
						continue
					}
					appends++
				}
				// an assignment to E.Transaction / E.V2Transaction invalidates facts about them
				for _, l := range x.Lhs {
					ls := types.ExprString(l)
					var kept []string
					for _, f := range facts {
						if !strings.HasPrefix(f, ls+" ") {
							kept = append(kept, f)
						}
					}
					facts = kept
				}
			case *ast.IfStmt:
				cur := x
				acc := append([]string{}, facts...)
				for cur != nil {
					walk(cur.Body.List, append(append([]string{}, acc...), conj(cur.Cond)...), inLoop)
					acc = append(acc, negate(cur.Cond)...)
					switch e := cur.Else.(type) {
					case *ast.IfStmt:
						cur = e
					case *ast.BlockStmt:
						walk(e.List, acc, inLoop)
						cur = nil
					default:
						cur = nil
					}
				}
				// the fill step may have assigned the pointers: drop facts about anything assigned inside
				ast.Inspect(x, func(n ast.Node) bool {
					if as, ok := n.(*ast.AssignStmt); ok {
						for _, l := range as.Lhs {
							ls := types.ExprString(l)
							var kept []string
							for _, f := range facts {
								if !strings.HasPrefix(f, ls+" ") {
									kept = append(kept, f)
								}
							}
							facts = kept
						}
					}
					return true
				})
			case *ast.RangeStmt:
				walk(x.Body.List, nil, strings.HasSuffix(types.ExprString(x.X), ".Transactions"))
			case *ast.ForStmt:
				walk(x.Body.List, nil, false)
			case *ast.BlockStmt:
				walk(x.List, facts, inLoop)
			}
		}
	}
	walk(fd.Body.List, nil, false)
	if bad != "" {
		return bad
	}
	if appends == 0 {
		return "the returned list is never appended to"
	}
	return ""
}
