package main

// The MidState keeps its diffs in slices and its recorders hand out POINTERS to slice elements
// (recordV2FileContractElement returns &ms.v2fces[i]). Any later call that may append to the same slice can move the
// backing array: a write through the old pointer then lands in the abandoned copy and is lost (a contract paid out
// but never marked resolved). Decided on SSA for every function of package consensus: a pointer obtained from a
// recorder of field F is not used after a call that may (transitively) append to F.

import (
	"fmt"
	"go/types"
	"sort"
	"strings"

	"golang.org/x/tools/go/ssa"
)

func c02StalePointers(c *Ctx) {
	const rule = "stale-diff-pointer"
	pkg := c.P.SSAPackage("consensus")
	if pkg == nil {
		c.Undecided(rule, "package", "", "consensus package missing")
		return
	}
	var fns []*ssa.Function
	for fn := range c.P.AllFuncs() {
		inPkg := fn.Pkg == pkg || (fn.Origin() != nil && fn.Origin().Pkg == pkg) // instances of generic helpers too
		if inPkg && (fn.Synthetic == "" || fn.Origin() != nil) && len(fn.Blocks) > 0 {
			fns = append(fns, fn)
		}
	}
	sort.Slice(fns, func(i, j int) bool { return fns[i].String() < fns[j].String() })
	isMidState := func(v ssa.Value) bool {
		return strings.HasSuffix(typeName(v.Type()), "consensus.MidState")
	}
	fieldOf := func(v ssa.Value) string { // v = &ms.F
		fa, ok := v.(*ssa.FieldAddr)
		if !ok || !isMidState(fa.X) {
			return ""
		}
		return fieldName(fa)
	}
	// recorders: return &ms.F[i]
	recorder := map[*ssa.Function]string{}
	for _, fn := range fns {
		for _, b := range fn.Blocks {
			ret, ok := b.Instrs[len(b.Instrs)-1].(*ssa.Return)
			if !ok || len(ret.Results) != 1 {
				continue
			}
			ia, ok := ret.Results[0].(*ssa.IndexAddr)
			if !ok {
				continue
			}
			if ld, ok := ia.X.(*ssa.UnOp); ok {
				if f := fieldOf(ld.X); f != "" {
					recorder[fn] = f
				} else if k := paramIndex(fn, ld.X); k >= 0 {
					recorder[fn] = fmt.Sprintf("param:%d", k) // generic recorder: the slice is handed in by address
				}
			}
		}
	}
	// appenders: direct, then transitive
	appends := map[*ssa.Function]map[string]bool{}
	for _, fn := range fns {
		for _, b := range fn.Blocks {
			for _, in := range b.Instrs {
				st, ok := in.(*ssa.Store)
				if !ok {
					continue
				}
				f := fieldOf(st.Addr)
				if f == "" {
					if k := paramIndex(fn, st.Addr); k >= 0 {
						f = fmt.Sprintf("param:%d", k)
					}
				}
				if f == "" {
					continue
				}
				if call, ok := st.Val.(*ssa.Call); ok {
					if bi, isB := call.Call.Value.(*ssa.Builtin); isB && bi.Name() == "append" {
						if appends[fn] == nil {
							appends[fn] = map[string]bool{}
						}
						appends[fn][f] = true
					}
				}
			}
		}
	}
	for changed := true; changed; {
		changed = false
		for _, fn := range fns {
			for _, b := range fn.Blocks {
				for _, in := range b.Instrs {
					call, ok := in.(ssa.CallInstruction)
					if !ok {
						continue
					}
					g := call.Common().StaticCallee()
					for f := range appends[g] {
						f = effField(fn, call.Common(), f, fieldOf)
						if f == "" {
							continue
						}
						if appends[fn] == nil {
							appends[fn] = map[string]bool{}
						}
						if !appends[fn][f] {
							appends[fn][f] = true
							changed = true
						}
					}
				}
			}
		}
	}
	n := 0
	for _, fn := range fns {
		for _, b := range fn.Blocks {
			for _, in := range b.Instrs {
				c1, ok := in.(*ssa.Call)
				if !ok {
					continue
				}
				f := effField(fn, &c1.Call, recorder[c1.Call.StaticCallee()], fieldOf)
				if f == "" || strings.HasPrefix(f, "param:") {
					continue
				}
				n++
				bad := ""
				// uses of the pointer
				var uses []ssa.Instruction
				for _, r := range *c1.Referrers() {
					if fa, ok := r.(*ssa.FieldAddr); ok {
						for _, rr := range *fa.Referrers() {
							uses = append(uses, rr)
						}
					} else {
						uses = append(uses, r)
					}
				}
				for _, b2 := range fn.Blocks {
					for _, in2 := range b2.Instrs {
						c2, ok := in2.(ssa.CallInstruction)
						if !ok || in2 == ssa.Instruction(c1) {
							continue
						}
						g := c2.Common().StaticCallee()
						if g == nil || !canRunAfter(c1, in2) {
							continue
						}
						grows := false
						for af := range appends[g] {
							if effField(fn, c2.Common(), af, fieldOf) == f {
								grows = true
							}
						}
						if !grows {
							continue
						}
						for _, u := range uses {
							if u != in2 && canRunAfter(in2, u) {
								bad = "the pointer into ms." + f + " obtained at " + c.P.Pos(c1.Pos()) + " is used at " + c.P.Pos(u.Pos()) + " after " + FuncName(g) + " (" + c.P.Pos(in2.Pos()) + ") may have grown that slice"
							}
						}
					}
				}
				c.Check(bad == "", rule, FuncName(fn)+":"+f, c.P.Pos(c1.Pos()), ifElse(bad == "", "the diff pointer is not used after a call that may append to ms."+f, bad+": the write goes to the abandoned backing array and is lost"))
			}
		}
	}
	c.Check(n >= 6, rule, "inventory", "", ifElse(n >= 6, "recorder call sites examined", "fewer recorder call sites than confirmed by hand"))
}

func fieldName(fa *ssa.FieldAddr) string {
	t := fa.X.Type().Underlying()
	if pt, ok := t.(*types.Pointer); ok {
		t = pt.Elem().Underlying()
	}
	if st, ok := t.(*types.Struct); ok && fa.Field < st.NumFields() {
		return st.Field(fa.Field).Name()
	}
	return ""
}

// paramIndex: v is parameter number k of fn (-1 otherwise).
func paramIndex(fn *ssa.Function, v ssa.Value) int {
	for k, p := range fn.Params {
		if ssa.Value(p) == v {
			return k
		}
	}
	return -1
}

// effField: a field name as seen from the caller: "param:k" of the callee becomes the MidState field whose address
// the call passes as argument k, or the caller's own parameter it forwards.
func effField(caller *ssa.Function, cc *ssa.CallCommon, f string, fieldOf func(ssa.Value) string) string {
	if !strings.HasPrefix(f, "param:") {
		return f
	}
	var k int
	fmt.Sscanf(f, "param:%d", &k)
	if k >= len(cc.Args) {
		return ""
	}
	if name := fieldOf(cc.Args[k]); name != "" {
		return name
	}
	if j := paramIndex(caller, cc.Args[k]); j >= 0 {
		return fmt.Sprintf("param:%d", j)
	}
	return ""
}
