package main

import (
	"fmt"
	"go/ast"
	"go/constant"
	"go/token"
	"go/types"
	"math/big"
	"strings"

	"golang.org/x/tools/go/types/typeutil"
)

// Limb interpreter: abstract interpretation of loop-free word arithmetic over the
// polynomial domain (poly.go). Every uint64 value is an exact integer polynomial over the
// input words and the symbols introduced by math/bits intrinsics:
//
//	s, k := bits.Add64(x, y, c)   s = x + y + c - 2^64*k     k fresh (carry, 0/1)
//	d, k := bits.Sub64(x, y, b)   d = x - y - b + 2^64*k     k fresh (borrow, 0/1)
//	h, l := bits.Mul64(x, y)      l = x*y - 2^64*h           h fresh (high word)
//	q, r := bits.Div64(h, l, y)   r = 2^64*h + l - q*y       q fresh; fact r < y; requires h < y
//
// Plain machine +, -, * are modelled the same way with a *dropped* carry symbol, so that a
// lost carry shows up as an unreported overflow term. Anything else is unsupported and makes
// the obligation undecided (never silently accepted).

type limbVal struct {
	P      Poly            // scalar word
	F      map[string]Poly // struct of words
	B      Poly            // boolean as "is non-zero" form (OR = +, AND = *)
	IsBool bool
	Desc   string
}

type ltFact struct{ A, B Poly }

type limbState struct {
	env     map[types.Object]limbVal
	lt      []ltFact
	pre     []string
	ret     []limbVal
	done    bool
	panics  bool
	unsup   []string
	dropped []string
	zero    map[string]bool // input words known to be zero on this path ("if c.Hi == 0 { fast path }")
}

func (s *limbState) fork() *limbState {
	n := &limbState{env: map[types.Object]limbVal{}}
	for k, v := range s.env {
		if v.F != nil {
			f := map[string]Poly{}
			for a, b := range v.F {
				f[a] = b
			}
			v.F = f
		}
		n.env[k] = v
	}
	n.lt = append([]ltFact{}, s.lt...)
	n.pre = append([]string{}, s.pre...)
	n.unsup = append([]string{}, s.unsup...)
	n.dropped = append([]string{}, s.dropped...)
	if len(s.zero) > 0 {
		n.zero = map[string]bool{}
		for k := range s.zero {
			n.zero[k] = true
		}
	}
	return n
}

type limbInterp struct {
	info  *types.Info
	fset  *token.FileSet
	names map[string]int
	res   []types.Object // named results
}

func (li *limbInterp) fresh(base string) string {
	if base == "" || base == "_" {
		base = "discarded"
	}
	li.names[base]++
	if n := li.names[base]; n > 1 {
		return fmt.Sprintf("%s'%d", base, n)
	}
	return base
}

var two64 = new(big.Int).Lsh(big.NewInt(1), 64)
var two128 = new(big.Int).Lsh(big.NewInt(1), 128)

// symbolic value for a parameter of word or struct-of-words type
func (li *limbInterp) paramVal(name string, t types.Type) (limbVal, bool) {
	switch u := t.Underlying().(type) {
	case *types.Basic:
		if u.Kind() == types.Uint64 {
			return limbVal{P: pSym(name)}, true
		}
		if u.Kind() == types.Bool {
			return limbVal{IsBool: true, B: pSym(name)}, true
		}
	case *types.Struct:
		f := map[string]Poly{}
		for i := 0; i < u.NumFields(); i++ {
			b, ok := u.Field(i).Type().Underlying().(*types.Basic)
			if !ok || b.Kind() != types.Uint64 {
				return limbVal{}, false
			}
			f[u.Field(i).Name()] = pSym(name + "." + u.Field(i).Name())
		}
		return limbVal{F: f}, true
	}
	return limbVal{}, false
}

func (li *limbInterp) zeroVal(t types.Type) (limbVal, bool) {
	switch u := t.Underlying().(type) {
	case *types.Basic:
		if u.Kind() == types.Uint64 {
			return limbVal{P: Poly{}}, true
		}
		if u.Kind() == types.Bool {
			return limbVal{IsBool: true, B: Poly{}}, true
		}
	case *types.Struct:
		f := map[string]Poly{}
		for i := 0; i < u.NumFields(); i++ {
			f[u.Field(i).Name()] = Poly{}
		}
		return limbVal{F: f}, true
	}
	return limbVal{}, false
}

// Run interprets fd and returns the terminal states of all paths.
func (li *limbInterp) Run(fd *ast.FuncDecl) []*limbState {
	st := &limbState{env: map[types.Object]limbVal{}}
	bind := func(fl *ast.FieldList, zero bool) {
		if fl == nil {
			return
		}
		for _, f := range fl.List {
			for _, n := range f.Names {
				o := li.info.Defs[n]
				if o == nil {
					continue
				}
				var v limbVal
				var ok bool
				if zero {
					v, ok = li.zeroVal(o.Type())
					li.res = append(li.res, o)
				} else {
					v, ok = li.paramVal(n.Name, o.Type())
				}
				if ok {
					st.env[o] = v
				}
			}
		}
	}
	bind(fd.Recv, false)
	bind(fd.Type.Params, false)
	bind(fd.Type.Results, true)
	out := li.block(fd.Body.List, []*limbState{st})
	for _, s := range out {
		if !s.done && !s.panics {
			// fell off the end: bare return of named results
			li.bareReturn(s)
		}
	}
	return out
}

func (li *limbInterp) bareReturn(s *limbState) {
	for _, o := range li.res {
		s.ret = append(s.ret, s.env[o])
	}
	s.done = true
}

func (li *limbInterp) block(list []ast.Stmt, in []*limbState) []*limbState {
	cur := in
	for _, st := range list {
		var next []*limbState
		for _, s := range cur {
			if s.done || s.panics {
				next = append(next, s)
				continue
			}
			next = append(next, li.stmt(st, s)...)
		}
		cur = next
	}
	return cur
}

func (li *limbInterp) pos(n ast.Node) string {
	p := li.fset.Position(n.Pos())
	return fmt.Sprintf("line %d", p.Line)
}

func (li *limbInterp) stmt(st ast.Stmt, s *limbState) []*limbState {
	switch st := st.(type) {
	case *ast.BlockStmt:
		return li.block(st.List, []*limbState{s})
	case *ast.ReturnStmt:
		if len(st.Results) == 0 {
			li.bareReturn(s)
			return []*limbState{s}
		}
		if len(st.Results) == 1 {
			if vs, ok := li.multi(st.Results[0], s, nil); ok {
				s.ret = vs
				s.done = true
				return []*limbState{s}
			}
		}
		for _, r := range st.Results {
			s.ret = append(s.ret, li.eval(r, s, ""))
		}
		s.done = true
		return []*limbState{s}
	case *ast.ExprStmt:
		if c, ok := st.X.(*ast.CallExpr); ok {
			if id, ok := c.Fun.(*ast.Ident); ok && id.Name == "panic" {
				if _, isB := li.info.Uses[id].(*types.Builtin); isB {
					s.panics = true
					return []*limbState{s}
				}
			}
		}
		s.unsup = append(s.unsup, li.pos(st)+": expression statement")
		return []*limbState{s}
	case *ast.DeclStmt:
		gd, ok := st.Decl.(*ast.GenDecl)
		if !ok || gd.Tok != token.VAR {
			s.unsup = append(s.unsup, li.pos(st)+": declaration")
			return []*limbState{s}
		}
		for _, sp := range gd.Specs {
			vs := sp.(*ast.ValueSpec)
			for i, n := range vs.Names {
				o := li.info.Defs[n]
				if o == nil {
					continue
				}
				if i < len(vs.Values) {
					s.env[o] = li.eval(vs.Values[i], s, n.Name)
				} else if z, ok := li.zeroVal(o.Type()); ok {
					s.env[o] = z
				} else {
					s.unsup = append(s.unsup, li.pos(st)+": variable of unsupported type "+o.Type().String())
				}
			}
		}
		return []*limbState{s}
	case *ast.AssignStmt:
		if st.Tok != token.ASSIGN && st.Tok != token.DEFINE {
			s.unsup = append(s.unsup, li.pos(st)+": compound assignment "+st.Tok.String())
			return []*limbState{s}
		}
		var vals []limbVal
		if len(st.Rhs) == 1 && len(st.Lhs) > 1 {
			names := make([]string, len(st.Lhs))
			for i, l := range st.Lhs {
				names[i] = types.ExprString(l)
			}
			vs, ok := li.multi(st.Rhs[0], s, names)
			if !ok {
				s.unsup = append(s.unsup, li.pos(st)+": multi-value call "+types.ExprString(st.Rhs[0]))
				return []*limbState{s}
			}
			vals = vs
		} else {
			for i, r := range st.Rhs {
				vals = append(vals, li.eval(r, s, types.ExprString(st.Lhs[i])))
			}
		}
		for i, l := range st.Lhs {
			if i < len(vals) {
				li.assign(l, vals[i], s)
			}
		}
		return []*limbState{s}
	case *ast.IfStmt:
		if st.Init != nil {
			ss := li.stmt(st.Init, s)
			if len(ss) != 1 {
				s.unsup = append(s.unsup, li.pos(st)+": branching init")
				return ss
			}
			s = ss[0]
		}
		t, f := s.fork(), s.fork()
		li.assume(st.Cond, true, t)
		li.assume(st.Cond, false, f)
		out := li.block(st.Body.List, []*limbState{t})
		if st.Else != nil {
			out = append(out, li.stmt(st.Else, f)...)
		} else {
			out = append(out, f)
		}
		return out
	case *ast.SwitchStmt:
		// "switch { case c1: ... case c2: ... default: ... }" is an if/else-if chain
		if st.Init == nil && st.Tag == nil {
			cur := s
			var out []*limbState
			var deflt *ast.CaseClause
			okShape := true
			for _, cl := range st.Body.List {
				cc := cl.(*ast.CaseClause)
				if cc.List == nil {
					deflt = cc
					continue
				}
				if len(cc.List) != 1 {
					okShape = false
					break
				}
				t, f := cur.fork(), cur.fork()
				li.assume(cc.List[0], true, t)
				li.assume(cc.List[0], false, f)
				out = append(out, li.block(cc.Body, []*limbState{t})...)
				cur = f
			}
			if okShape {
				if deflt != nil {
					out = append(out, li.block(deflt.Body, []*limbState{cur})...)
				} else {
					out = append(out, cur)
				}
				return out
			}
		}
	}
	s.unsup = append(s.unsup, li.pos(st)+fmt.Sprintf(": statement %T", st))
	return []*limbState{s}
}

func (li *limbInterp) assign(l ast.Expr, v limbVal, s *limbState) {
	switch l := l.(type) {
	case *ast.Ident:
		if l.Name == "_" {
			return
		}
		o := li.info.Defs[l]
		if o == nil {
			o = li.info.Uses[l]
		}
		if o != nil {
			s.env[o] = v
		}
	case *ast.SelectorExpr:
		if id, ok := l.X.(*ast.Ident); ok {
			if o := li.info.Uses[id]; o != nil {
				if sv, ok := s.env[o]; ok && sv.F != nil {
					sv.F[l.Sel.Name] = v.P
					s.env[o] = sv
					return
				}
			}
		}
		s.unsup = append(s.unsup, li.pos(l)+": store to "+types.ExprString(l))
	default:
		s.unsup = append(s.unsup, li.pos(l)+": store to "+types.ExprString(l))
	}
}

// assume records order facts from a branch condition (only a < b and !(a < b) are used).
func (li *limbInterp) assume(cond ast.Expr, truth bool, s *limbState) {
	if call, isCall := stripParens(cond).(*ast.CallExpr); isCall && truth {
		// c.IsZero(): both words are zero
		if sel, ok := call.Fun.(*ast.SelectorExpr); ok && sel.Sel.Name == "IsZero" && len(call.Args) == 0 {
			if v := li.eval(sel.X, s, ""); v.F != nil {
				for _, w := range v.F {
					if name, ok := w.singleVar(); ok {
						if s.zero == nil {
							s.zero = map[string]bool{}
						}
						s.zero[name] = true
					}
				}
			}
		}
		return
	}
	be, ok := stripParens(cond).(*ast.BinaryExpr)
	if !ok {
		return
	}
	switch {
	case be.Op == token.LAND && truth, be.Op == token.LOR && !truth:
		li.assume(be.X, truth, s)
		li.assume(be.Y, truth, s)
	case be.Op == token.EQL && truth, be.Op == token.NEQ && !truth:
		x, y := li.eval(be.X, s, ""), li.eval(be.Y, s, "")
		for _, pr := range [][2]limbVal{{x, y}, {y, x}} {
			if pr[0].P != nil && pr[1].P != nil && !pr[0].IsBool && !pr[1].IsBool && len(pr[1].P) == 0 {
				if v, ok := pr[0].P.singleVar(); ok {
					if s.zero == nil {
						s.zero = map[string]bool{}
					}
					s.zero[v] = true
				}
			}
		}
	case be.Op == token.LSS && truth:
		s.lt = append(s.lt, ltFact{li.eval(be.X, s, "").P, li.eval(be.Y, s, "").P})
	case be.Op == token.GTR && truth:
		s.lt = append(s.lt, ltFact{li.eval(be.Y, s, "").P, li.eval(be.X, s, "").P})
	case be.Op == token.GEQ && !truth:
		s.lt = append(s.lt, ltFact{li.eval(be.X, s, "").P, li.eval(be.Y, s, "").P})
	case be.Op == token.LEQ && !truth:
		s.lt = append(s.lt, ltFact{li.eval(be.Y, s, "").P, li.eval(be.X, s, "").P})
	}
}

func (li *limbInterp) knownLess(a, b Poly, s *limbState) bool {
	for _, f := range s.lt {
		if f.A != nil && f.B != nil && f.A.Equal(a) && f.B.Equal(b) {
			return true
		}
	}
	return false
}

func (li *limbInterp) bitsFunc(c *ast.CallExpr) string {
	fn, _ := typeutil.Callee(li.info, c).(*types.Func)
	if fn == nil || fn.Pkg() == nil {
		return ""
	}
	if fn.Pkg().Path() == "math/bits" {
		return "bits." + fn.Name()
	}
	if sig, ok := fn.Type().(*types.Signature); ok && sig.Recv() == nil {
		return fn.Pkg().Name() + "." + fn.Name()
	}
	return ""
}

// multi evaluates a multi-valued intrinsic call; names are the destination names used for fresh symbols.
func (li *limbInterp) multi(e ast.Expr, s *limbState, names []string) ([]limbVal, bool) {
	c, ok := stripParens(e).(*ast.CallExpr)
	if !ok {
		return nil, false
	}
	nm := func(i int, def string) string {
		if i < len(names) && names[i] != "_" {
			return names[i]
		}
		if i < len(names) {
			return "discarded(" + def + ")"
		}
		return def
	}
	arg := func(i int) Poly { return li.eval(c.Args[i], s, "").P }
	switch li.bitsFunc(c) {
	case "bits.Add64":
		k := li.fresh(nm(1, "carry"))
		sum := arg(0).Add(arg(1)).Add(arg(2)).Sub(pBig(two64).Mul(pSym(k)))
		return []limbVal{{P: sum}, {P: pSym(k)}}, true
	case "bits.Sub64":
		k := li.fresh(nm(1, "borrow"))
		d := arg(0).Sub(arg(1)).Sub(arg(2)).Add(pBig(two64).Mul(pSym(k)))
		return []limbVal{{P: d}, {P: pSym(k)}}, true
	case "bits.Mul64":
		h := li.fresh(nm(0, "hi"))
		lo := arg(0).Mul(arg(1)).Sub(pBig(two64).Mul(pSym(h)))
		return []limbVal{{P: pSym(h)}, {P: lo}}, true
	case "bits.Div64":
		hi, lo, y := arg(0), arg(1), arg(2)
		if !hi.IsZero() && !li.knownLess(hi, y, s) {
			s.pre = append(s.pre, li.pos(c)+": bits.Div64 panics unless its high word is below the divisor; here the high word "+hi.String()+" is not known to be below "+y.String())
		}
		q := li.fresh(nm(0, "quo"))
		r := pBig(two64).Mul(hi).Add(lo).Sub(pSym(q).Mul(y))
		s.lt = append(s.lt, ltFact{r, y})
		return []limbVal{{P: pSym(q)}, {P: r}}, true
	}
	return nil, false
}

func (li *limbInterp) eval(e ast.Expr, s *limbState, dest string) limbVal {
	e = stripParens(e)
	if tv, ok := li.info.Types[e]; ok && tv.Value != nil {
		switch tv.Value.Kind() {
		case constant.Int:
			if n, ok := new(big.Int).SetString(tv.Value.ExactString(), 10); ok {
				return limbVal{P: pBig(n)}
			}
		case constant.Bool:
			if constant.BoolVal(tv.Value) {
				return limbVal{IsBool: true, B: pConst(1)}
			}
			return limbVal{IsBool: true, B: Poly{}}
		}
	}
	switch e := e.(type) {
	case *ast.Ident:
		if o := li.info.Uses[e]; o != nil {
			if v, ok := s.env[o]; ok {
				return v
			}
		}
	case *ast.SelectorExpr:
		x := li.eval(e.X, s, "")
		if x.F != nil {
			if p, ok := x.F[e.Sel.Name]; ok {
				return limbVal{P: p}
			}
		}
	case *ast.CompositeLit:
		if st, ok := li.info.TypeOf(e).Underlying().(*types.Struct); ok {
			f := map[string]Poly{}
			for i := 0; i < st.NumFields(); i++ {
				f[st.Field(i).Name()] = Poly{}
			}
			for i, el := range e.Elts {
				if kv, ok := el.(*ast.KeyValueExpr); ok {
					f[kv.Key.(*ast.Ident).Name] = li.eval(kv.Value, s, "").P
				} else if i < st.NumFields() {
					f[st.Field(i).Name()] = li.eval(el, s, "").P
				}
			}
			return limbVal{F: f}
		}
	case *ast.CallExpr:
		switch li.bitsFunc(e) {
		case "types.NewCurrency":
			return limbVal{F: map[string]Poly{"Lo": li.eval(e.Args[0], s, "").P, "Hi": li.eval(e.Args[1], s, "").P}}
		case "types.NewCurrency64":
			return limbVal{F: map[string]Poly{"Lo": li.eval(e.Args[0], s, "").P, "Hi": {}}}
		}
	case *ast.BinaryExpr:
		switch e.Op {
		case token.LOR, token.LAND:
			x, y := li.eval(e.X, s, ""), li.eval(e.Y, s, "")
			if x.IsBool && y.IsBool && x.B != nil && y.B != nil {
				if e.Op == token.LOR {
					return limbVal{IsBool: true, B: x.B.Add(y.B)}
				}
				return limbVal{IsBool: true, B: x.B.Mul(y.B)}
			}
		case token.NEQ:
			x, y := li.eval(e.X, s, ""), li.eval(e.Y, s, "")
			if x.P != nil && y.P != nil && !x.IsBool {
				if y.P.IsZero() && x.P.AllPositive() {
					return limbVal{IsBool: true, B: x.P}
				}
				if x.P.IsZero() && y.P.AllPositive() {
					return limbVal{IsBool: true, B: y.P}
				}
			}
		case token.GTR:
			x, y := li.eval(e.X, s, ""), li.eval(e.Y, s, "")
			if x.P != nil && y.P != nil && y.P.IsZero() && x.P.AllPositive() {
				return limbVal{IsBool: true, B: x.P} // x > 0 on unsigned words
			}
		case token.QUO, token.REM:
			// word division: x = q*y + r with r < y (y == 0 panics in Go as bits.Div64 does); the quotient is a symbol
			// shared by x/y and x%y, the remainder is expressed through it
			x, y := li.eval(e.X, s, ""), li.eval(e.Y, s, "")
			if x.P == nil || y.P == nil || x.IsBool || y.IsBool {
				break
			}
			q := pSym("quo(" + x.P.String() + "," + y.P.String() + ")")
			if e.Op == token.QUO {
				return limbVal{P: q}
			}
			r := x.P.Sub(q.Mul(y.P))
			s.lt = append(s.lt, ltFact{r, y.P})
			return limbVal{P: r}
		case token.ADD, token.SUB, token.MUL:
			x, y := li.eval(e.X, s, ""), li.eval(e.Y, s, "")
			if x.P == nil || y.P == nil || x.IsBool || y.IsBool {
				break
			}
			k := li.fresh("dropped(" + types.ExprString(e) + ")")
			s.dropped = append(s.dropped, k)
			switch e.Op {
			case token.ADD:
				return limbVal{P: x.P.Add(y.P).Sub(pBig(two64).Mul(pSym(k)))}
			case token.SUB:
				return limbVal{P: x.P.Sub(y.P).Add(pBig(two64).Mul(pSym(k)))}
			default:
				return limbVal{P: x.P.Mul(y.P).Sub(pBig(two64).Mul(pSym(k)))}
			}
		}
	}
	s.unsup = append(s.unsup, li.pos(e)+": expression "+types.ExprString(e))
	return limbVal{}
}

func (v limbVal) word128() (Poly, bool) {
	if v.F == nil || len(v.F) != 2 || v.F["Lo"] == nil || v.F["Hi"] == nil {
		return nil, false
	}
	return v.F["Lo"].Add(pBig(two64).Mul(v.F["Hi"])), true
}

func supportsText(ss []string) string {
	if len(ss) == 0 {
		return "never"
	}
	var out []string
	for _, s := range ss {
		out = append(out, strings.ReplaceAll(s, "*", " and ")+" non-zero")
	}
	return strings.Join(out, ", or ")
}
