package main

import (
	"encoding/json"
	"fmt"
	"go/ast"
	"go/token"
	"go/types"
	"golang.org/x/tools/go/ssa"
	"os"
	"path/filepath"
	"regexp"
	"sort"
	"strings"
)

func init() { register("C11", runC11) }

// ---- pairing ----

var codecNameRe = regexp.MustCompile(`^(?i:en|de)code`)

// pairKey maps an encoder/decoder function name to the key shared with its sibling.
func pairKey(wp *WireProg) string {
	name := wp.Fn.Name()
	n := name
	switch {
	case strings.HasPrefix(n, "Encode"), strings.HasPrefix(n, "Decode"):
		n = "#Code" + n[6:]
	case strings.HasPrefix(n, "encode"), strings.HasPrefix(n, "decode"):
		n = "#code" + n[6:]
	}
	n = strings.TrimSuffix(strings.TrimSuffix(n, "To"), "From")
	recv := ""
	if wp.Recv != nil {
		recv = wp.Recv.Obj().Name()
	}
	return relPkg(wp.Fn.Pkg()) + "|" + recv + "|" + n
}

// unpaired functions that legitimately have no sibling, each with its reason
var unpairedOK = map[string]string{
	"types.EncodeSlice": "generic helper (modelled)", "types.EncodeSliceCast": "generic helper (modelled)", "types.EncodeSliceFn": "generic helper (modelled)",
	"types.EncodePtr": "generic helper (modelled)", "types.EncodePtrCast": "generic helper (modelled)",
	"types.DecodeSlice": "generic helper (modelled)", "types.DecodeSliceCast": "generic helper (modelled)", "types.DecodeSliceFn": "generic helper (modelled)",
	"types.DecodePtr": "generic helper (modelled)", "types.DecodePtrCast": "generic helper (modelled)",
	"types.(EncoderFunc).EncodeTo": "adapter", "types.(DecoderFunc).DecodeFrom": "adapter",
	"types.(SpendPolicy).encodePolicy":        "inlined into SpendPolicy.EncodeTo for the mirror",
	"types.(V2TransactionSemantics).EncodeTo": "hash preimage only (C12)",
	"types.(txnSansSigs).EncodeTo":            "hash preimage only (C12)",
	"gateway.withV1Encoder":                   "transport helper", "gateway.withV2Encoder": "transport helper", "gateway.withV1Decoder": "transport helper", "gateway.withV2Decoder": "transport helper",
	"rhp/v4.withEncoder": "transport helper", "rhp/v4.withDecoder": "transport helper",
}

// documented asymmetries: pair key -> reason. The pair is still checked for field completeness.
var mirrorAsym = map[string]string{
	"types|V1Currency|#Code":                "variable-length big-endian form: encoder trims leading zeros (bytes), decoder reads u64 length then right-aligned raw bytes; checked by the dedicated rule v1currency",
	"types|V1SiafundOutput|#Code":           "siafund value travels as a V1Currency and a dummy claim-start follows; kinds agree (checked), paths differ by design",
	"rhp/v3|Account|#Code":                  "account encoded via UnlockKey form",
	"rhp/v2|RPCReadResponse|#Code":          "decoder reuses caller-provided buffers; length-prefixed bytes read by hand",
	"rhp/v3|RPCExecuteProgramRequest|#Code": "instruction framing: specifier + length-prefixed body per instruction, decoder dispatches through instructionForID (registry checked under C19)",
}

type normOpts struct{ side string }

// normalise prepares a program for mirror comparison.
func normaliseOps(ops []Op, progs map[string]*WireProg, self *WireProg, depth int) []Op {
	var out []Op
	for _, o := range ops {
		switch {
		case o.Kind == "fn" && strings.HasPrefix(o.Typ, "closure "):
			out = append(out, normaliseOps(o.Sub, progs, self, depth)...)
			continue
		case o.Kind == "fn" && !strings.HasPrefix(o.Typ, "closure "):
			// a plain module function that takes the coder and a value (encodePolicy(e, p)): inline like an unpaired
			// helper method, re-rooting its parameter-rooted paths at the argument's path
			if callee := progs[o.Typ]; callee != nil && self != nil && callee.Side == self.Side && depth < 4 {
				if _, paired := pairedSibling(progs, callee); !paired {
					if callee == self {
						out = append(out, Op{Kind: "rec", Pos: o.Pos})
						continue
					}
					sub := normaliseOps(callee.Ops, progs, callee, depth+1)
					out = append(out, rerootPaths(sub, o.Path)...)
					continue
				}
			}
		case o.Kind == "reset" || o.Kind == "sum":
			continue
		case o.Kind == "dyn":
			o.Typ = ""
		case o.Kind == "ref" && o.Path == "" && !isNonStdRef(o.Typ) && depth < 4:
			// whole receiver converted to a helper type without sibling codec (txnSansSigs): inline
			if callee := findMethodProg(progs, o.Typ+".EncodeTo"); callee != nil && self != nil && callee.Side == self.Side {
				if _, paired := pairedSibling(progs, callee); !paired {
					out = append(out, normaliseOps(callee.Ops, progs, callee, depth+1)...)
					continue
				}
			}
		case o.Kind == "ref" && strings.Contains(o.Typ, ".") && isNonStdRef(o.Typ):
			// ref(T.method): inline when the callee has no sibling (encodePolicy), mark recursion
			if self != nil && strings.HasSuffix(o.Typ, "."+self.Fn.Name()) && self.Recv != nil && strings.Contains(o.Typ, self.Recv.Obj().Name()+".") {
				out = append(out, Op{Kind: "rec", Pos: o.Pos})
				continue
			}
			if callee := findMethodProg(progs, o.Typ); callee != nil && depth < 4 {
				if _, paired := pairedSibling(progs, callee); !paired {
					sub := normaliseOps(callee.Ops, progs, callee, depth+1)
					out = append(out, prefixPaths(sub, o.Path)...)
					continue
				}
			}
			o.Typ = normRefName(o.Typ)
		case o.Kind == "rec":
			o.Typ = ""
		case o.Kind == "switch" && o.Typ == "type":
			// encoder type switch whose cases start with a constant tag -> tag + value switch
			tagKind := ""
			ok := true
			var cases []OpCase
			for _, c := range o.Cases {
				if c.Tag == "default" {
					continue
				}
				if len(c.Ops) == 0 || c.Ops[0].Kind != "const" {
					ok = false
					break
				}
				parts := strings.SplitN(c.Ops[0].Typ, ":", 2)
				tagKind = parts[0]
				cases = append(cases, OpCase{Tag: parts[1], Ops: normaliseOps(c.Ops[1:], progs, self, depth)})
			}
			if ok && tagKind != "" {
				out = append(out, Op{Kind: tagKind, Path: "$tag", Pos: o.Pos})
				sw := Op{Kind: "switch", Path: "$tag", Pos: o.Pos}
				any := false
				for _, c := range cases {
					if len(c.Ops) > 0 {
						any = true
					}
				}
				sort.Slice(cases, func(i, j int) bool { return cases[i].Tag < cases[j].Tag })
				sw.Cases = cases
				if any {
					out = append(out, sw)
				}
				continue
			}
		}
		if o.Kind == "switch" && o.Typ != "type" {
			var cases []OpCase
			any := false
			for _, c := range o.Cases {
				if c.Tag == "default" && len(c.Ops) == 0 {
					continue
				}
				nc := OpCase{Tag: c.Tag, Ops: normaliseOps(c.Ops, progs, self, depth)}
				if len(nc.Ops) > 0 {
					any = true
				}
				cases = append(cases, nc)
			}
			sort.Slice(cases, func(i, j int) bool { return cases[i].Tag < cases[j].Tag })
			o.Cases = cases
			if !any {
				continue
			}
			out = append(out, o)
			continue
		}
		if len(o.Sub) > 0 {
			o.Sub = normaliseOps(o.Sub, progs, self, depth)
		}
		if o.Kind == "ref" {
			o.Typ = normRefName(o.Typ)
			if fx := fixedRef(progs, o.Typ); fx != "" {
				o.Kind, o.Typ = fx, ""
			}
		}
		out = append(out, o)
	}
	return mergeLenLoops(out)
}

// fixedRef: a named type whose codec is a single fixed-size read/write (Hash256, Address, ...).
func fixedRef(progs map[string]*WireProg, t string) string {
	for _, m := range []string{".EncodeTo", ".DecodeFrom"} {
		if wp := findMethodProg(progs, t+m); wp != nil {
			if len(wp.Ops) == 1 && strings.HasPrefix(wp.Ops[0].Kind, "fixed:") && wp.Ops[0].Path == "" {
				return wp.Ops[0].Kind
			}
			return ""
		}
	}
	return ""
}

func isNonStdRef(t string) bool {
	i := strings.LastIndex(t, ".")
	if i < 0 {
		return false
	}
	m := t[i+1:]
	return m != "" && (m[0] >= 'a' && m[0] <= 'z') && codecNameRe.MatchString(m)
}

func normRefName(t string) string {
	i := strings.LastIndex(t, ".")
	if i < 0 || !isNonStdRef(t) {
		return t
	}
	m := t[i+1:]
	m = "#code" + m[6:]
	m = strings.TrimSuffix(strings.TrimSuffix(m, "To"), "From")
	return t[:i+1] + m
}

func findMethodProg(progs map[string]*WireProg, ref string) *WireProg {
	// ref = "pkg.Type.method"
	i := strings.LastIndex(ref, ".")
	if i < 0 {
		return nil
	}
	tn, m := ref[:i], ref[i+1:]
	j := strings.LastIndex(tn, ".")
	if j < 0 {
		return nil
	}
	pkg, typ := tn[:j], tn[j+1:]
	for _, cand := range []string{pkg + ".(" + typ + ")." + m, pkg + ".(*" + typ + ")." + m} {
		if wp := progs[cand]; wp != nil {
			return wp
		}
	}
	return nil
}

func pairedSibling(progs map[string]*WireProg, wp *WireProg) (*WireProg, bool) {
	k := pairKey(wp)
	for _, o := range progs {
		if o != wp && o.Side != wp.Side && o.Side != "hash" && wp.Side != "hash" && pairKey(o) == k {
			return o, true
		}
	}
	return nil, false
}

func prefixPaths(ops []Op, prefix string) []Op {
	if prefix == "" {
		return ops
	}
	out := make([]Op, len(ops))
	for i, o := range ops {
		if strings.HasPrefix(o.Path, ".") || o.Path == "" && (o.Kind == "ref" || o.Kind == "dyn") {
			o.Path = prefix + o.Path
		}
		o.Sub = prefixPaths(o.Sub, prefix)
		var cs []OpCase
		for _, c := range o.Cases {
			cs = append(cs, OpCase{c.Tag, prefixPaths(c.Ops, prefix)})
		}
		o.Cases = cs
		out[i] = o
	}
	return out
}

var paramRootRe = regexp.MustCompile(`^\{[^{}]*\}`)

// rerootPaths replaces the parameter root ({pkg.T}) of every path by prefix.
func rerootPaths(ops []Op, prefix string) []Op {
	out := make([]Op, len(ops))
	for i, o := range ops {
		if loc := paramRootRe.FindStringIndex(o.Path); loc != nil {
			o.Path = prefix + o.Path[loc[1]:]
		}
		o.Sub = rerootPaths(o.Sub, prefix)
		var cs []OpCase
		for _, c := range o.Cases {
			cs = append(cs, OpCase{c.Tag, rerootPaths(c.Ops, prefix)})
		}
		o.Cases = cs
		out[i] = o
	}
	return out
}

var localRe = regexp.MustCompile(`\$[A-Za-z_0-9]+`)

func anonLocals(s string) string { return localRe.ReplaceAllString(s, "$") }

func fieldRooted(p string) bool { return p == "" || strings.HasPrefix(p, ".") }

// mirrorDiff compares an encoder program with a decoder program op by op.
// canonByteLoops: writing (reading) a byte slice element by element as u8 is the same wire step as writing
// (reading) the slice raw.
func canonByteLoops(ops []Op) []Op {
	out := make([]Op, len(ops))
	for i, o := range ops {
		o.Sub = canonByteLoops(o.Sub)
		if len(o.Cases) > 0 {
			cs := make([]OpCase, len(o.Cases))
			for j, c := range o.Cases {
				cs[j] = OpCase{Tag: c.Tag, Ops: canonByteLoops(c.Ops)}
			}
			o.Cases = cs
		}
		if o.Kind == "loop" && len(o.Sub) == 1 && o.Sub[0].Kind == "u8" && o.Sub[0].Path == o.Path+"[*]" {
			o = Op{Kind: "raw", Path: o.Path, Pos: o.Pos}
		}
		out[i] = o
	}
	return out
}

func mirrorDiff(e, d []Op, where string) []string {
	e, d = canonByteLoops(e), canonByteLoops(d)
	var diffs []string
	n := len(e)
	if len(d) != n {
		diffs = append(diffs, fmt.Sprintf("%s: encoder has %d op(s), decoder has %d:\n    enc: %s\n    dec: %s", where, len(e), len(d), strings.Join(flatLines(e, true), " ; "), strings.Join(flatLines(d, true), " ; ")))
		return diffs
	}
	for i := 0; i < n; i++ {
		eo, do := e[i], d[i]
		ek, dk := eo.Kind, do.Kind
		et, dt := eo.Typ, do.Typ
		if ek == "const" { // constant written by the encoder, read into a local and checked by the decoder
			parts := strings.SplitN(et, ":", 2)
			ek, et = parts[0], ""
			if ek == "raw" {
				ek = dk
			}
			if fieldRooted(do.Path) && do.Path != "" {
				diffs = append(diffs, fmt.Sprintf("%s op %d: encoder writes a constant but decoder stores into field %s", where, i, do.Path))
			}
		}
		if ek == "cond" || dk == "cond" {
			et, dt = anonLocals(et), anonLocals(dt)
			// decoder-side "if d.ReadBool()" vs encoder-side explicit bool + predicate
			if ek == "cond" && dk == "cond" && et != dt {
				if !(strings.Contains(dt, "ReadBool") || strings.Contains(et, "nil")) {
					diffs = append(diffs, fmt.Sprintf("%s op %d: presence predicate differs: encoder %q, decoder %q", where, i, et, dt))
				}
				et, dt = "", ""
			}
		}
		if ek == "fn" && dk == "fn" && !strings.HasPrefix(et, "closure ") && !strings.HasPrefix(dt, "closure ") {
			// a pair of plain helper functions (encodeX / decodeX, themselves compared as a pair): same name up to the
			// direction, and the same fields handed over in the same order
			et, dt = fnPairName(et), fnPairName(dt)
			if et == dt && len(eo.Args) == len(do.Args) {
				for k := range eo.Args {
					if eo.Args[k] != do.Args[k] {
						diffs = append(diffs, fmt.Sprintf("%s op %d: helper argument %d: encoder passes %s, decoder passes %s", where, i, k+1, eo.Args[k], do.Args[k]))
					}
				}
			}
		}
		if ek != dk || et != dt {
			diffs = append(diffs, fmt.Sprintf("%s op %d: encoder %s vs decoder %s", where, i, strings.TrimSpace(renderHead(eo)), strings.TrimSpace(renderHead(do))))
			continue
		}
		if eo.Kind != "const" && fieldRooted(eo.Path) && fieldRooted(do.Path) && eo.Path != do.Path && eo.Kind != "cond" && eo.Kind != "switch" {
			// slicing of a fixed array on one side only (PrevTimestamps[:n]) is the same storage
			if stripSliceSuffix(eo.Path) != stripSliceSuffix(do.Path) || (eo.Kind == "loop" && eo.Path != do.Path) {
				diffs = append(diffs, fmt.Sprintf("%s op %d (%s): encoder reads %q but decoder assigns %q", where, i, ek, eo.Path, do.Path))
			}
		}
		if len(eo.Sub) > 0 || len(do.Sub) > 0 {
			diffs = append(diffs, mirrorDiff(eo.Sub, do.Sub, where+"/"+ek)...)
		}
		if len(eo.Cases) > 0 || len(do.Cases) > 0 {
			em, dm := map[string][]Op{}, map[string][]Op{}
			for _, c := range eo.Cases {
				em[c.Tag] = c.Ops
			}
			for _, c := range do.Cases {
				dm[c.Tag] = c.Ops
			}
			for _, t := range sortedKeys(em) {
				if _, ok := dm[t]; !ok && len(em[t]) > 0 {
					diffs = append(diffs, fmt.Sprintf("%s op %d: tag %s handled by encoder only", where, i, t))
					continue
				}
				diffs = append(diffs, mirrorDiff(em[t], dm[t], fmt.Sprintf("%s/case %s", where, t))...)
			}
			for _, t := range sortedKeys(dm) {
				if _, ok := em[t]; !ok && len(dm[t]) > 0 {
					diffs = append(diffs, fmt.Sprintf("%s op %d: tag %s handled by decoder only", where, i, t))
				}
			}
		}
	}
	return diffs
}

var sliceSuffixRe = regexp.MustCompile(`\[[^\[\]]*:[^\[\]]*\]`)

func stripSliceSuffix(p string) string { return sliceSuffixRe.ReplaceAllString(p, "") }

func renderHead(o Op) string {
	s := o.Kind
	if o.Typ != "" {
		s += "(" + o.Typ + ")"
	}
	if o.Path != "" {
		s += " " + o.Path
	}
	return s
}

// coverage: receiver fields touched, following whole-receiver refs into the sibling codec.
func coveredFields(wp *WireProg, progs map[string]*WireProg, write bool, seen map[*WireProg]bool) map[string]bool {
	out := map[string]bool{}
	if seen[wp] {
		return out
	}
	seen[wp] = true
	src := wp.Reads
	if write {
		src = wp.Writes
	}
	for f := range src {
		out[f] = true
	}
	var visit func(ops []Op)
	visit = func(ops []Op) {
		for _, o := range ops {
			if strings.HasPrefix(o.Path, ".") {
				f := o.Path[1:]
				if i := strings.IndexAny(f, ".["); i >= 0 {
					f = f[:i]
				}
				out[f] = true
			}
			if (o.Kind == "ref") && o.Path == "" && o.Typ != "" {
				// whole receiver converted to another named type with the same underlying struct
				for _, cand := range progs {
					if cand.Side == wp.Side && cand.Recv != nil && typeName(cand.Recv) == strings.TrimSuffix(o.Typ, "."+cand.Fn.Name()) {
						if o.Typ == typeName(cand.Recv) && cand.Fn.Name() != "EncodeTo" && cand.Fn.Name() != "DecodeFrom" {
							continue
						}
						for f := range coveredFields(cand, progs, write, seen) {
							out[f] = true
						}
					}
				}
			}
			if o.Kind == "fn" && !strings.HasPrefix(o.Typ, "closure ") && o.Path == "" {
				// plain helper function given the whole receiver: its parameter-rooted paths are receiver fields
				if cand := progs[o.Typ]; cand != nil && cand.Side == wp.Side && !seen[cand] {
					seen[cand] = true
					var sub func(ops []Op)
					sub = func(ops []Op) {
						for _, so := range rerootPaths(ops, "") {
							if strings.HasPrefix(so.Path, ".") {
								f := so.Path[1:]
								if i := strings.IndexAny(f, ".["); i >= 0 {
									f = f[:i]
								}
								out[f] = true
							}
							sub(so.Sub)
							for _, cs := range so.Cases {
								sub(cs.Ops)
							}
						}
					}
					sub(cand.Ops)
				}
			}
			visit(o.Sub)
			for _, c := range o.Cases {
				visit(c.Ops)
			}
		}
	}
	visit(wp.Ops)
	return out
}

// progBySuffix finds the wire program of a function or method by its bare name when the exact key is gone
// (method turned into a plain function or the reverse); the name must be unique.
func progBySuffix(progs map[string]*WireProg, key string) *WireProg {
	if wp := progs[key]; wp != nil {
		return wp
	}
	name := key[strings.LastIndex(key, ".")+1:]
	pkg := key[:strings.Index(key, ".")]
	if i := strings.Index(key, ".("); i >= 0 {
		pkg = key[:i]
	} else if j := strings.LastIndex(key, "."); j >= 0 {
		pkg = key[:j]
	}
	var found *WireProg
	for k, wp := range progs {
		if strings.HasPrefix(k, pkg+".") && strings.HasSuffix(k, "."+name) && wp.Fn.Name() == name {
			if found != nil {
				return nil
			}
			found = wp
		}
	}
	return found
}

// fields not transmitted, each one named symbol with its reason
var notTransmitted = map[string]string{
	"types.StateElement.shared": "ownership marker; decoded values own fresh memory",
	"consensus.State.Network":   "documented as not encoded (network parameters are configuration)",
	"rhp/v3.rpcResponse.err":    "handled through the explicit error flag",
	"rhp/v2.rpcResponse.err":    "handled through the explicit error flag",
	"types.V1Block.V2":          "the v1 block form has no v2 data by definition (V2Block adds it)",
}

func runC11(c *Ctx) {
	p := c.P
	c.Explain("Decides, for every encoder/decoder pair in the module (binary codec), (1) mirror: the decoder's wire program equals the encoder's op by op (kind, width, length-prefix width, nesting, tag sets, presence predicates, Go field each op reads/assigns); (2) field completeness: every struct field is read by the encoder and assigned by the decoder unless listed as not transmitted; (3) layout reference: the wire programs of consensus-critical objects and hash preimages in packages types and consensus equal the committed, hand-reviewed layout (catches symmetric changes: swapped fields, changed widths, dropped fields on both sides); (4) no lossy narrowing conversion and no nondeterminism source inside an encoder; (5) decoders go through *types.Decoder only. Each is a necessary condition of round-trip/canonical/field-complete/layout-exact encoding; value-level equality after a round trip is not decided.")
	c.NotCovered("value-level round-trip equality", "agreement of the committed layout with other implementations (reviewed by hand; trusted base)", "truncation behaviour beyond the sticky-error shape of the slice helpers")
	progs := ExtractWirePrograms(p)
	c.Extra("wire_programs", len(progs))
	byKey := map[string][]*WireProg{}
	for _, n := range sortedKeys(progs) {
		wp := progs[n]
		c.NoteFunc(n)
		if wp.Side == "hash" {
			continue
		}
		byKey[pairKey(wp)] = append(byKey[pairKey(wp)], wp)
	}
	pairs := 0
	for _, k := range sortedKeys(byKey) {
		ws := byKey[k]
		var enc, dec *WireProg
		for _, w := range ws {
			if w.Side == "enc" {
				enc = w
			} else {
				dec = w
			}
		}
		if enc == nil || dec == nil {
			w := ws[0]
			if why, ok := unpairedOK[w.Name]; ok {
				c.Info("pairing", w.Name, p.Pos(w.Decl.Pos()), "no sibling: "+why)
				continue
			}
			// the obligation is about codecs of data types (the protocol's codec method names); other functions that
			// happen to write to an encoder or read from a decoder are helpers of some codec or of a transport
			std := map[string]bool{"EncodeTo": true, "DecodeFrom": true, "encodeTo": true, "decodeFrom": true, "encodeRequest": true, "decodeRequest": true, "encodeResponse": true, "decodeResponse": true}
			if !std[w.Fn.Name()] {
				c.Info("pairing", w.Name, p.Pos(w.Decl.Pos()), "helper that uses a coder (not one of the codec method names): not a data type's codec")
				continue
			}
			c.Fail("pairing", w.Name, p.Pos(w.Decl.Pos()), "codec function has no encoder/decoder sibling: a type that can be written but not read (or vice versa) cannot round-trip")
			continue
		}
		if _, ok := unpairedOK[enc.Name]; ok {
			c.Info("pairing", enc.Name, p.Pos(enc.Decl.Pos()), "helper pair: "+unpairedOK[enc.Name])
			continue
		}
		pairs++
		where := p.Pos(enc.Decl.Pos())
		// opaque ops make the pair undecided
		if len(enc.Opaque)+len(dec.Opaque) > 0 {
			c.Undecided("mirror", k, where, "wire program contains constructs the extractor does not model: "+strings.Join(append(enc.Opaque, dec.Opaque...), "; "))
			continue
		}
		ne := normaliseOps(enc.Ops, progs, enc, 0)
		nd := normaliseOps(dec.Ops, progs, dec, 0)
		if why, ok := mirrorAsym[k]; ok {
			// kinds must still agree where both sides are straight-line
			c.Info("mirror", k, where, "documented asymmetry: "+why)
		} else {
			diffs := mirrorDiff(ne, nd, "")
			c.Check(len(diffs) == 0, "mirror", k, where, ifElse(len(diffs) == 0, fmt.Sprintf("%d ops mirror %s", len(ne), dec.Name), "decoder does not mirror encoder: "+strings.Join(diffs, " | ")))
		}
		// field completeness
		if enc.Recv != nil {
			if fields := structFields(enc.Recv); len(fields) > 0 {
				er := coveredFields(enc, progs, false, map[*WireProg]bool{})
				dw := coveredFields(dec, progs, true, map[*WireProg]bool{})
				// a type with several codec pairs (request/response halves) is covered by their union
				for _, other := range progs {
					if other.Recv != nil && other.Recv.Obj() == enc.Recv.Obj() && other != enc && other != dec {
						if other.Side == "enc" {
							for f := range coveredFields(other, progs, false, map[*WireProg]bool{}) {
								er[f] = true
							}
						} else if other.Side == "dec" {
							for f := range coveredFields(other, progs, true, map[*WireProg]bool{}) {
								dw[f] = true
							}
						}
					}
				}
				var missE, missD []string
				for fi, f := range fields {
					full := typeName(enc.Recv) + "." + f
					if _, ok := notTransmitted[full]; ok {
						continue
					}
					if st, ok := enc.Recv.Underlying().(*types.Struct); ok {
						if fst, ok := st.Field(fi).Type().Underlying().(*types.Struct); ok && fst.NumFields() == 0 {
							continue // zero-size marker embed
						}
					}
					if !er[f] {
						missE = append(missE, f)
					}
					if !dw[f] {
						missD = append(missD, f)
					}
				}
				ok := len(missE) == 0 && len(missD) == 0
				c.Check(ok, "fields", k, where, ifElse(ok, fmt.Sprintf("all %d fields of %s encoded and decoded", len(fields), typeName(enc.Recv)),
					fmt.Sprintf("struct %s: field(s) not read by encoder %v, not assigned by decoder %v — a field that does not influence the bytes", typeName(enc.Recv), missE, missD)))
			}
		}
	}
	c.Min("mirror", 150)
	c.Min("fields", 120)
	c.Extra("pairs", pairs)

	c11Primitives(c)
	c11BufferDiscipline(c)
	c11Narrowing(c, progs)
	c11Determinism(c, progs)
	c11V1Currency(c, progs)
	c11TagMaps(c, progs)
	c11Bitmap(c, progs)
	checkLayoutRef(c, progs, "C11")
}

func ifElse(b bool, x, y string) string {
	if b {
		return x
	}
	return y
}

// c11Narrowing: a narrowing integer conversion of len() or of a wider integer inside an encoder
// loses information unless the encoder bounds the value.
func c11Narrowing(c *Ctx, progs map[string]*WireProg) {
	n := 0
	for _, name := range sortedKeys(progs) {
		wp := progs[name]
		if wp.Side != "enc" {
			continue
		}
		info := wp.Pkg.TypesInfo
		ast.Inspect(wp.Decl.Body, func(nd ast.Node) bool {
			call, ok := nd.(*ast.CallExpr)
			if !ok || len(call.Args) != 1 {
				return true
			}
			tv, ok := info.Types[call.Fun]
			if !ok || !tv.IsType() {
				return true
			}
			dst, ok := tv.Type.Underlying().(*types.Basic)
			if !ok || dst.Info()&types.IsInteger == 0 {
				return true
			}
			at := info.TypeOf(call.Args[0])
			if at == nil {
				return true
			}
			src, ok := at.Underlying().(*types.Basic)
			if !ok || src.Info()&types.IsInteger == 0 {
				return true
			}
			if atv := info.Types[call.Args[0]]; atv.Value != nil {
				return true
			}
			sz := c.P.Pkgs[0].TypesSizes
			if sz.Sizeof(dst) >= sz.Sizeof(src) {
				return true
			}
			n++
			inst := name + ":" + types.ExprString(call)
			c.Fail("no-lossy-narrowing", inst, c.P.Pos(call.Pos()), fmt.Sprintf("encoder narrows %s (%s) to %s: values beyond the narrow range encode to bytes that decode to a different value without error", types.ExprString(call.Args[0]), src.Name(), dst.Name()))
			return true
		})
	}
	if n == 0 {
		c.OK("no-lossy-narrowing", "all-encoders", "", "no narrowing integer conversion in any encoder")
	}
}

func c11Determinism(c *Ctx, progs map[string]*WireProg) {
	bad := 0
	count := 0
	for _, name := range sortedKeys(progs) {
		wp := progs[name]
		if wp.Side != "enc" {
			continue
		}
		count++
		info := wp.Pkg.TypesInfo
		ast.Inspect(wp.Decl.Body, func(nd ast.Node) bool {
			switch x := nd.(type) {
			case *ast.RangeStmt:
				if t := info.TypeOf(x.X); t != nil {
					if _, ok := t.Underlying().(*types.Map); ok {
						bad++
						c.Fail("encoder-deterministic", name+":range-map", c.P.Pos(x.Pos()), "encoder iterates a map: byte order depends on map iteration order")
					}
				}
			case *ast.CallExpr:
				if sel, ok := x.Fun.(*ast.SelectorExpr); ok {
					if fn, ok := info.Uses[sel.Sel].(*types.Func); ok && fn.Pkg() != nil {
						pp := fn.Pkg().Path()
						if (pp == "time" && fn.Name() == "Now") || pp == "math/rand" || pp == "crypto/rand" || pp == "lukechampine.com/frand" {
							bad++
							c.Fail("encoder-deterministic", name+":"+pp+"."+fn.Name(), c.P.Pos(x.Pos()), "encoder reads a nondeterminism source")
						}
					}
				}
			}
			return true
		})
	}
	if bad == 0 {
		c.OK("encoder-deterministic", "all-encoders", "", fmt.Sprintf("%d encoder functions: no map iteration, clock or randomness", count))
	}
}

// c11V1Currency: the one variable-length legacy codec, checked by shape.
func c11V1Currency(c *Ctx, progs map[string]*WireProg) {
	enc, dec := progs["types.(V1Currency).EncodeTo"], progs["types.(*V1Currency).DecodeFrom"]
	if enc == nil || dec == nil {
		c.Undecided("v1currency", "anchor", "", "V1Currency codec not found")
		return
	}
	e := flatLines(enc.Ops, false)
	d := flatLines(dec.Ops, false)
	ok := len(e) == 1 && e[0] == "bytes" && len(d) == 2 && d[0] == "u64" && d[1] == "raw"
	c.Check(ok, "v1currency", "shape", c.P.Pos(enc.Decl.Pos()), ifElse(ok, "encoder: length-prefixed bytes; decoder: u64 length + raw bytes", fmt.Sprintf("unexpected shape enc=%v dec=%v", e, d)))
	// decoder must bound the length by the buffer size before slicing (also C10)
	hasBound := false
	ast.Inspect(dec.Decl.Body, func(n ast.Node) bool {
		if be, ok := n.(*ast.BinaryExpr); ok && (be.Op == token.GTR || be.Op == token.GEQ) {
			if tv, ok := dec.Pkg.TypesInfo.Types[be.Y]; ok && tv.Value != nil && tv.Value.ExactString() == "16" {
				hasBound = true
			}
		}
		return true
	})
	c.Check(hasBound, "v1currency", "length-bound", c.P.Pos(dec.Decl.Pos()), "decoder compares the length prefix with 16 before use")
}

// c11TagMaps: sum types written as a tag byte: the encoder's type->tag map must be the inverse of the
// decoder's tag->type map.
func c11TagMaps(c *Ctx, progs map[string]*WireProg) {
	type tm struct{ enc, dec string }
	for _, t := range []tm{{"types.(V2FileContractResolution).EncodeTo", "types.(*V2FileContractResolution).DecodeFrom"}, {"types.(SpendPolicy).encodePolicy", "types.(*SpendPolicy).DecodeFrom"}} {
		enc, dec := progBySuffix(progs, t.enc), progBySuffix(progs, t.dec)
		if enc == nil || dec == nil {
			c.Undecided("tag-map", t.enc, "", "anchor not found")
			continue
		}
		em := encTagMap(enc)
		dm := decTagMap(c.P, dec, em)
		if len(em) == 0 {
			c.Undecided("tag-map", t.enc, c.P.Pos(enc.Decl.Pos()), "no type->tag map found in encoder")
			continue
		}
		for _, ty := range sortedKeys(em) {
			tag := em[ty]
			got := dm[tag]
			ok := len(got) == 1 && got[0] == ty
			c.Check(ok, "tag-map", ty+"="+tag, c.P.Pos(dec.Decl.Pos()), ifElse(ok, "decoder constructs "+ty+" for tag "+tag, fmt.Sprintf("encoder writes tag %s for %s but the decoder's case %s constructs %v", tag, ty, tag, got)))
		}
		for _, tag := range sortedKeys(dm) {
			found := false
			for _, v := range em {
				if v == tag {
					found = true
				}
			}
			if !found && len(dm[tag]) > 0 {
				c.Fail("tag-map", "tag "+tag, c.P.Pos(dec.Decl.Pos()), fmt.Sprintf("decoder accepts tag %s (%v) that no encoder case writes", tag, dm[tag]))
			}
		}
	}
	c.Min("tag-map", 10)
}

func encTagMap(enc *WireProg) map[string]string {
	out := map[string]string{}
	var visit func(ops []Op)
	visit = func(ops []Op) {
		for _, o := range ops {
			if o.Kind == "switch" && o.Typ == "type" {
				for _, cs := range o.Cases {
					if len(cs.Ops) > 0 && cs.Ops[0].Kind == "const" {
						out[cs.Tag] = strings.SplitN(cs.Ops[0].Typ, ":", 2)[1]
					}
				}
			}
			visit(o.Sub)
		}
	}
	visit(enc.Ops)
	return out
}

// decTagMap finds, for each constant case of the decoder's tag switch, which of the encoder's
// types the case body constructs (directly, or through a module constructor function).
func decTagMap(p *Program, dec *WireProg, em map[string]string) map[string][]string {
	out := map[string][]string{}
	info := dec.Pkg.TypesInfo
	want := map[string]bool{}
	for t := range em {
		want[t] = true
	}
	var mention func(n ast.Node, depth int, acc map[string]bool)
	mention = func(n ast.Node, depth int, acc map[string]bool) {
		ast.Inspect(n, func(nd ast.Node) bool {
			if e, ok := nd.(ast.Expr); ok {
				if tv, ok := info.Types[e]; ok && tv.IsType() {
					if tn := typeName(tv.Type); want[tn] {
						acc[tn] = true
					}
				}
			}
			if call, ok := nd.(*ast.CallExpr); ok && depth < 2 {
				if id := calleeIdent(call); id != nil {
					if fn, ok := info.Uses[id].(*types.Func); ok {
						if fd, fpkg := p.Decl(fn); fd != nil && fd.Body != nil && fpkg == dec.Pkg {
							mention(fd.Body, depth+1, acc)
						}
					}
				}
			}
			return true
		})
	}
	ast.Inspect(dec.Decl.Body, func(nd ast.Node) bool {
		sw, ok := nd.(*ast.SwitchStmt)
		if !ok {
			return true
		}
		for _, cc := range sw.Body.List {
			cl := cc.(*ast.CaseClause)
			for _, e := range cl.List {
				tv, ok := info.Types[e]
				if !ok || tv.Value == nil {
					continue
				}
				acc := map[string]bool{}
				for _, s := range cl.Body {
					mention(s, 0, acc)
				}
				out[tv.Value.ExactString()] = sortedKeys(acc)
			}
		}
		return true
	})
	return out
}

// ---------- layout reference ----------

type layoutEntry struct {
	Key    string   `json:"key"`  // function name (exported anchors) or content key
	Name   string   `json:"name"` // function the program was extracted from when the reference was made
	ByName bool     `json:"by_name"`
	Lines  []string `json:"lines"`
}

func pinnedProgram(wp *WireProg) bool {
	pk := relPkg(wp.Fn.Pkg())
	if pk != "types" && pk != "consensus" {
		return false
	}
	if _, ok := unpairedOK[wp.Name]; ok && strings.Contains(unpairedOK[wp.Name], "generic helper") {
		return false
	}
	switch wp.Name {
	case "types.(EncoderFunc).EncodeTo", "types.(DecoderFunc).DecodeFrom", "types.hashAll", "consensus.hashAll", "types.(*Hasher).Reset", "types.(*Hasher).Sum", "types.(*Hasher).WriteDistinguisher",
		"types.NewBufDecoder", "types.NewDecoder", "types.NewEncoder", "types.NewHasher":
		return false
	}
	if wp.Side == "hash" {
		// only genuine hash builders (those that finish a hash) and not validators that merely decode
		s := renderOps(wp.Ops, false)
		return strings.Contains(s, "sum") || strings.Contains(s, "reset") || strings.Contains(s, "dist")
	}
	return true
}

// canonCases returns a copy of ops with the clauses of every switch sorted by tag (default last): the order
// of mutually exclusive clauses is not part of the layout.
func canonCases(ops []Op) []Op {
	out := make([]Op, len(ops))
	for i, o := range ops {
		o.Sub = canonCases(o.Sub)
		if len(o.Cases) > 0 {
			cs := make([]OpCase, len(o.Cases))
			for j, c := range o.Cases {
				cs[j] = OpCase{Tag: c.Tag, Ops: canonCases(c.Ops)}
			}
			sort.SliceStable(cs, func(a, b int) bool {
				if (cs[a].Tag == "default") != (cs[b].Tag == "default") {
					return cs[b].Tag == "default"
				}
				return cs[a].Tag < cs[b].Tag
			})
			o.Cases = cs
		}
		out[i] = o
	}
	return out
}

var (
	helperRefRe = regexp.MustCompile(`ref\(([\w/.]+)\.[A-Za-z_]\w*\.([a-z]\w*)\)`)
	helperFnRe  = regexp.MustCompile(`fn\(([\w/.]+)\.([a-z]\w*)\)`)
)

// leafRefs: named types whose whole encoding is one primitive op ("ref(types.Hash256)" -> "fixed:32"): writing the
// value through its EncodeTo method or writing its bytes directly is the same wire step.
var leafRefs = map[string]string{}
var leafRefRe = regexp.MustCompile(`ref\(([^()]+)\)`)

func computeLeafRefs(progs map[string]*WireProg) {
	leafRefs = map[string]string{}
	single := map[string]Op{}
	for _, wp := range progs {
		if wp.Side != "enc" || wp.Recv == nil || len(wp.Ops) != 1 || wp.Fn.Name() != "EncodeTo" {
			continue
		}
		single[typeName(wp.Recv)] = wp.Ops[0]
	}
	var resolve func(t string, depth int) string
	resolve = func(t string, depth int) string {
		op, ok := single[t]
		if !ok || depth > 4 {
			return ""
		}
		switch {
		case strings.HasPrefix(op.Kind, "fixed:"), op.Kind == "u64", op.Kind == "u8", op.Kind == "bool", op.Kind == "time":
			return op.Kind
		case op.Kind == "ref":
			return resolve(op.Typ, depth+1)
		}
		return ""
	}
	for t := range single {
		if k := resolve(t, 0); k != "" {
			leafRefs["ref("+t+")"] = k
		}
	}
}

func normLeafRefs(line string) string {
	return leafRefRe.ReplaceAllStringFunc(line, func(m string) string {
		if k, ok := leafRefs[m]; ok {
			return k
		}
		return m
	})
}

func layoutLines(wp *WireProg) []string {
	ops := canonByteLoops(canonCases(wp.Ops))
	if wp.Recv == nil {
		ops = rerootPaths(ops, "") // a plain function's data parameter plays the receiver's role
	}
	ls := flatLines(ops, true)
	for i := range ls {
		ls[i] = anonLocals(ls[i])
		// an unexported helper is the same step whether it is a method of the value or a function taking it
		ls[i] = helperRefRe.ReplaceAllString(ls[i], "helper($1.$2)")
		ls[i] = helperFnRe.ReplaceAllString(ls[i], "helper($1.$2)")
		ls[i] = normLeafRefs(ls[i])
	}
	return ls
}

func exportedAnchor(wp *WireProg) bool {
	if !wp.Fn.Exported() {
		return false
	}
	if wp.Recv != nil && !wp.Recv.Obj().Exported() {
		return false
	}
	return true
}

func layoutPath(verif string) string { return filepath.Join(verif, "sa", "layout", "layout.json") }

func dumpLayoutRef(p *Program, path string) error {
	progs := ExtractWirePrograms(p)
	computeLeafRefs(progs)
	var entries []layoutEntry
	for _, k := range sortedKeys(progs) {
		wp := progs[k]
		if !pinnedProgram(wp) {
			continue
		}
		entries = append(entries, layoutEntry{Key: k, Name: k, ByName: exportedAnchor(wp), Lines: layoutLines(wp)})
	}
	b, _ := json.MarshalIndent(entries, "", " ")
	os.MkdirAll(filepath.Dir(path), 0o755)
	return os.WriteFile(path, b, 0o644)
}

// checkLayoutRef compares the extracted programs with the committed reference. Exported anchors are
// matched by name; programs of unexported helpers are matched by content, so renaming or moving an
// unexported helper is not reported while any change of the bytes is.
func checkLayoutRef(c *Ctx, progs map[string]*WireProg, prop string) {
	b, err := os.ReadFile(layoutPath(c.VerifDir))
	if err != nil {
		c.Undecided("layout", "reference", "", "cannot read layout reference: "+err.Error())
		return
	}
	var entries []layoutEntry
	if err := json.Unmarshal(b, &entries); err != nil {
		c.Undecided("layout", "reference", "", "bad layout reference: "+err.Error())
		return
	}
	computeLeafRefs(progs)
	for i := range entries {
		for j := range entries[i].Lines {
			entries[i].Lines[j] = normLeafRefs(entries[i].Lines[j])
		}
	}
	have := map[string][]string{} // content -> names
	for _, k := range sortedKeys(progs) {
		wp := progs[k]
		if pinnedProgram(wp) {
			have[strings.Join(layoutLines(wp), "\n")] = append(have[strings.Join(layoutLines(wp), "\n")], k)
		}
	}
	for _, e := range entries {
		isHash := false
		for _, l := range e.Lines {
			if strings.HasPrefix(strings.TrimSpace(l), "dist(") || strings.TrimSpace(l) == "sum" || strings.TrimSpace(l) == "reset" {
				isHash = true
			}
		}
		if (prop == "C12") != isHash && prop != "" {
			// C11 owns codec layouts, C12 owns hash preimages
			if !(prop == "C11" && !isHash) && !(prop == "C12" && isHash) {
				continue
			}
		}
		want := strings.Join(e.Lines, "\n")
		if e.ByName {
			wp := progs[e.Name]
			if wp == nil {
				// exported anchor gone: accept if some program has identical content (moved/renamed receiver form)
				if len(have[want]) > 0 {
					c.OK("layout", e.Key, "", "anchor renamed; identical program found as "+have[want][0])
				} else {
					c.Fail("layout", e.Key, "", "consensus-critical wire program no longer present (function removed or renamed and no program with the reviewed layout exists)")
				}
				continue
			}
			got := strings.Join(layoutLines(wp), "\n")
			if got == want {
				c.OK("layout", e.Key, c.P.Pos(wp.Decl.Pos()), fmt.Sprintf("%d-line wire program equals the reviewed layout", len(e.Lines)))
			} else {
				c.Fail("layout", e.Key, c.P.Pos(wp.Decl.Pos()), "wire program differs from the reviewed layout reference: "+firstDiff(e.Lines, layoutLines(wp)))
			}
			continue
		}
		if names := have[want]; len(names) > 0 {
			c.OK("layout", e.Key, c.P.Pos(progs[names[0]].Decl.Pos()), fmt.Sprintf("%d-line wire program present (as %s)", len(e.Lines), names[0]))
		} else if wp := progs[e.Name]; wp != nil {
			c.Fail("layout", e.Key, c.P.Pos(wp.Decl.Pos()), "wire program differs from the reviewed layout reference: "+firstDiff(e.Lines, layoutLines(wp)))
		} else {
			c.Fail("layout", e.Key, "", "no program with the reviewed layout exists any more (reference extracted from "+e.Name+")")
		}
	}
	c.Min("layout", 20)
}

func firstDiff(want, got []string) string {
	for i := 0; i < len(want) || i < len(got); i++ {
		w, g := "<end>", "<end>"
		if i < len(want) {
			w = strings.TrimSpace(want[i])
		}
		if i < len(got) {
			g = strings.TrimSpace(got[i])
		}
		if w != g {
			return fmt.Sprintf("at op %d reference has %q, code has %q", i, w, g)
		}
	}
	return "identical"
}

// c11Bitmap: V2Transaction's field bitmap. Bit k must be set exactly when field k is non-empty
// (canonical emptiness test of that field, nothing else), and bit k must guard field k's ops.
func c11Bitmap(c *Ctx, progs map[string]*WireProg) {
	enc := progs["types.(V2Transaction).EncodeTo"]
	if enc == nil {
		c.Undecided("bitmap", "anchor", "", "V2Transaction.EncodeTo not found")
		return
	}
	info := enc.Pkg.TypesInfo
	w := &wireWalker{p: c.P, pkg: enc.Pkg, info: info, paths: map[types.Object]string{}, closures: map[types.Object]*ast.FuncLit{}, active: map[types.Object]bool{}, prog: enc, params: map[types.Object]string{}}
	if enc.Decl.Recv != nil && len(enc.Decl.Recv.List[0].Names) > 0 {
		w.recv = info.Defs[enc.Decl.Recv.List[0].Names[0]]
		w.paths[w.recv] = ""
	}
	var preds []string
	var lit *ast.CompositeLit
	ast.Inspect(enc.Decl.Body, func(n ast.Node) bool {
		if cl, ok := n.(*ast.CompositeLit); ok && lit == nil {
			if at, ok := info.TypeOf(cl).Underlying().(*types.Array); ok {
				if b, ok := at.Elem().Underlying().(*types.Basic); ok && b.Kind() == types.Bool {
					lit = cl
				}
			}
		}
		return true
	})
	if lit == nil {
		c.Undecided("bitmap", "literal", c.P.Pos(enc.Decl.Pos()), "presence bitmap literal not found")
		return
	}
	for _, e := range lit.Elts {
		preds = append(preds, w.canon(e))
	}
	// guarded fields per bit from the wire program
	bitField := map[int]string{}
	for _, o := range enc.Ops {
		if o.Kind == "cond" && strings.HasPrefix(o.Typ, "bit ") {
			var k int
			fmt.Sscanf(o.Typ, "bit %d", &k)
			if len(o.Sub) > 0 {
				f := o.Sub[0].Path
				bitField[k] = f
			}
		}
	}
	st, _ := enc.Recv.Underlying().(*types.Struct)
	for k, pred := range preds {
		f, ok := bitField[k]
		inst := fmt.Sprintf("bit %d", k)
		if !ok {
			c.Fail("bitmap", inst, c.P.Pos(lit.Pos()), "bit has a presence predicate but guards no field")
			continue
		}
		// canonical emptiness predicate for the field's type
		var ft types.Type
		for i := 0; st != nil && i < st.NumFields(); i++ {
			if "."+st.Field(i).Name() == f {
				ft = st.Field(i).Type()
			}
		}
		var want []string
		switch t := ft.(type) {
		case nil:
		default:
			switch t.Underlying().(type) {
			case *types.Slice:
				want = []string{"(len(" + f + ") != 0)", "(len(" + f + ") > 0)"}
			case *types.Pointer:
				want = []string{"(" + f + " != nil)"}
			default:
				want = []string{"!" + f + ".IsZero()", "(" + f + " != 0)"}
			}
		}
		ok = false
		for _, wv := range want {
			if pred == wv {
				ok = true
			}
		}
		c.Check(ok, "bitmap", inst+" "+f, c.P.Pos(lit.Elts[k].Pos()), ifElse(ok, "bit set iff "+pred, fmt.Sprintf("bit %d guards field %s but is set iff %s (expected the plain emptiness test %v): a non-empty value can be dropped from the encoding", k, f, pred, want)))
	}
	for k, f := range bitField {
		if k >= len(preds) {
			c.Fail("bitmap", fmt.Sprintf("bit %d", k), c.P.Pos(lit.Pos()), "field "+f+" is guarded by a bit that is never set")
		}
	}
	c.Min("bitmap", 11)
}

// checkMirrorKey re-decides the encoder/decoder mirror of one codec pair (used by properties that
// depend on a specific codec).
func checkMirrorKey(c *Ctx, progs map[string]*WireProg, rule, key string) {
	var enc, dec *WireProg
	for _, n := range sortedKeys(progs) {
		wp := progs[n]
		if wp.Side == "hash" || pairKey(wp) != key {
			continue
		}
		if wp.Side == "enc" {
			enc = wp
		} else {
			dec = wp
		}
	}
	if enc == nil || dec == nil {
		c.Undecided(rule, key, "", "codec pair does not resolve")
		return
	}
	where := c.P.Pos(enc.Decl.Pos())
	if len(enc.Opaque)+len(dec.Opaque) > 0 {
		c.Undecided(rule, key, where, "wire program contains constructs the extractor does not model: "+strings.Join(append(enc.Opaque, dec.Opaque...), "; "))
		return
	}
	ne := normaliseOps(enc.Ops, progs, enc, 0)
	nd := normaliseOps(dec.Ops, progs, dec, 0)
	diffs := mirrorDiff(ne, nd, "")
	c.Check(len(diffs) == 0, rule, key, where, ifElse(len(diffs) == 0, fmt.Sprintf("%d ops mirror %s", len(ne), dec.Name), "decoder does not mirror encoder: "+strings.Join(diffs, " | ")))
}

// c11Primitives: a Decoder primitive may reject only what its Encoder counterpart cannot have written:
// an I/O error, a non-canonical bool byte, a length prefix larger than the bytes left. Any other rejection
// inside Read*/ReadTime/ReadUint64… makes some encodable value undecodable (round-trip broken for every type
// that contains it).
func c11Primitives(c *Ctx) {
	ge := NewGuardEngine(c.P, 2)
	allowed := map[string]map[string]bool{
		"Read":       {"io": true},
		"ReadBool":   {"canonical-bool": true},
		"ReadBytes":  {"length-prefix": true},
		"ReadPrefix": {"length-prefix": true},
	}
	pkg := c.P.SSAPackage("types")
	if pkg == nil {
		c.Undecided("primitive-symmetry", "types", "", "package does not load")
		return
	}
	dec, _ := pkg.Members["Decoder"].(*ssa.Type)
	if dec == nil {
		c.Undecided("primitive-symmetry", "types.Decoder", "", "type does not resolve")
		return
	}
	ms := c.P.SSA.MethodSets.MethodSet(types.NewPointer(dec.Type()))
	n := 0
	for i := 0; i < ms.Len(); i++ {
		fn := c.P.SSA.MethodValue(ms.At(i))
		if fn == nil || !strings.HasPrefix(fn.Name(), "Read") || len(fn.Blocks) == 0 {
			continue
		}
		n++
		var bad []string
		kinds := map[string]bool{}
		for _, cf := range ge.Calls(fn, nil, nil, nil, 0, map[*ssa.Function]int{}) {
			if len(cf.Chain) != 1 || cf.Callee == nil || FuncName(cf.Callee) != "(types.Decoder).SetErr" || len(cf.Args) != 2 {
				continue
			}
			ctx := strings.Join(cf.Ctx, " && ")
			kind := ""
			switch {
			case strings.Contains(cf.Args[1], "call io.ReadFull(") || strings.Contains(cf.Args[1], "call invoke io.Reader.Read("):
				kind = "io"
			case strings.Contains(ctx, ".buf[0]"):
				kind = "canonical-bool"
			case strings.Contains(ctx, ".lr.N"):
				kind = "length-prefix"
			default:
				kind = "other"
			}
			kinds[kind] = true
			if !allowed[fn.Name()][kind] {
				bad = append(bad, fmt.Sprintf("%s rejects when %s (%s)", c.P.Pos(cf.Pos), ifElse(ctx == "", "always", ctx), cf.Args[1]))
			}
		}
		c.Check(len(bad) == 0, "primitive-symmetry", "(types.Decoder)."+fn.Name(), c.P.Pos(fn.Pos()), ifElse(len(bad) == 0, "rejects only "+ifElse(len(kinds) == 0, "nothing of its own", strings.Join(sortedKeys(kinds), ", ")), "a decoder primitive rejects a value its encoder counterpart can write: "+strings.Join(bad, "; ")))
	}
	c.Min("primitive-symmetry", 6)
	_ = n
}

// c11BufferDiscipline: the Encoder stages bytes in buf[:n]. Anything handed to the underlying writer directly
// reaches the stream BEFORE the staged bytes unless those were flushed first. So every direct write of the
// underlying writer inside the Encoder's methods is either the flush itself (the argument is buf[:n]) or is
// preceded, with no staging in between, by an unconditional Flush of the same Encoder.
func c11BufferDiscipline(c *Ctx) {
	const rule = "buffer-discipline"
	enc := c.P.NamedType("types", "Encoder")
	if enc == nil {
		c.Undecided(rule, "types.Encoder", "", "type does not resolve")
		return
	}
	st, _ := enc.Underlying().(*types.Struct)
	fieldName := func(fa *ssa.FieldAddr) string {
		pt, ok := fa.X.Type().Underlying().(*types.Pointer)
		if !ok || typeName(pt.Elem()) != "types.Encoder" || st == nil || fa.Field >= st.NumFields() {
			return ""
		}
		return st.Field(fa.Field).Name()
	}
	n := 0
	for _, fn := range SortedFuncs(c.P.AllFuncs()) {
		if !c.P.InModule(fn) || fn.Pkg == nil || relPkg(fn.Pkg.Pkg) != "types" || fn.Synthetic != "" {
			continue
		}
		for _, b := range fn.Blocks {
			for _, in := range b.Instrs {
				call, ok := in.(*ssa.Call)
				if !ok || !call.Call.IsInvoke() || call.Call.Method == nil || call.Call.Method.Name() != "Write" || len(call.Call.Args) != 1 {
					continue
				}
				// receiver: load of Encoder.w
				ld, ok := call.Call.Value.(*ssa.UnOp)
				if !ok {
					continue
				}
				wfa, ok := ld.X.(*ssa.FieldAddr)
				if !ok || fieldName(wfa) != "w" {
					continue
				}
				n++
				where := c.P.Pos(call.Pos())
				inst := FuncName(fn)
				// the flush itself: buf[:n]
				if sl, ok := call.Call.Args[0].(*ssa.Slice); ok && sl.Low == nil && sl.High != nil {
					bfa, ok1 := sl.X.(*ssa.FieldAddr)
					hl, ok2 := sl.High.(*ssa.UnOp)
					if ok1 && ok2 && fieldName(bfa) == "buf" {
						if nfa, ok := hl.X.(*ssa.FieldAddr); ok && fieldName(nfa) == "n" {
							c.OK(rule, inst, where, "writes the staged bytes buf[:n] (the flush)")
							continue
						}
					}
				}
				// otherwise: an unconditional Flush precedes with no staging in between
				flushed := false
				for _, fb := range fn.Blocks {
					for _, fin := range fb.Instrs {
						fc, ok := fin.(*ssa.Call)
						if !ok {
							continue
						}
						f := fc.Call.StaticCallee()
						if f == nil || canonStar(f.String()) != "(go.sia.tech/core/types.Encoder).Flush" || !instrPrecedes(fc, call) {
							continue
						}
						staged := false
						for _, sb := range fn.Blocks {
							if !(sb == fb || fb.Dominates(sb)) || !(sb == b || sb.Dominates(b)) {
								continue
							}
							for _, sin := range sb.Instrs {
								s, ok := sin.(*ssa.Store)
								if !ok {
									continue
								}
								if sfa, ok := s.Addr.(*ssa.FieldAddr); ok && fieldName(sfa) == "n" {
									if (sb != fb || instrPrecedes(fc, s)) && (sb != b || instrPrecedes(s, call)) {
										staged = true
									}
								}
							}
						}
						if !staged {
							flushed = true
						}
					}
				}
				// or: the write happens only where the buffer is known to be empty (n == 0 tested on the way, nothing
				// staged since)
				if !flushed {
					for cur := b; cur != nil && !flushed; cur = cur.Idom() {
						d := cur.Idom()
						if d == nil || len(d.Instrs) == 0 || len(d.Succs) != 2 {
							continue
						}
						ifi, ok := d.Instrs[len(d.Instrs)-1].(*ssa.If)
						if !ok {
							continue
						}
						bo, ok := ifi.Cond.(*ssa.BinOp)
						if !ok || (bo.Op != token.EQL && bo.Op != token.NEQ) {
							continue
						}
						isN := func(v ssa.Value) bool {
							ld, ok := v.(*ssa.UnOp)
							if !ok || ld.Op != token.MUL {
								return false
							}
							fa, ok := ld.X.(*ssa.FieldAddr)
							return ok && fieldName(fa) == "n"
						}
						isZero := func(v ssa.Value) bool {
							k, ok := v.(*ssa.Const)
							return ok && k.Value != nil && k.Value.ExactString() == "0"
						}
						if !((isN(bo.X) && isZero(bo.Y)) || (isN(bo.Y) && isZero(bo.X))) {
							continue
						}
						edge := 0
						if bo.Op == token.NEQ {
							edge = 1
						}
						if !edgeDominates(d, edge, cur) {
							continue
						}
						// nothing staged between the test and the write
						staged := false
						for _, sb := range fn.Blocks {
							if !(sb == cur || cur.Dominates(sb)) || !(sb == b || sb.Dominates(b)) {
								continue
							}
							for _, sin := range sb.Instrs {
								if s, ok := sin.(*ssa.Store); ok {
									if sfa, ok := s.Addr.(*ssa.FieldAddr); ok && fieldName(sfa) == "n" && (sb != b || instrPrecedes(s, call)) {
										staged = true
									}
								}
							}
						}
						if !staged {
							flushed = true
						}
					}
				}
				c.Check(flushed, rule, inst, where, ifElse(flushed, "a direct write of the underlying stream, preceded by a Flush of the staged bytes (or made only where the buffer is empty)", "bytes are handed to the underlying stream directly while earlier fields may still sit in the Encoder's buffer (no unconditional Flush precedes): the stream receives them out of order"))
			}
		}
	}
	c.Check(n >= 1, rule, "inventory", "", fmt.Sprintf("%d direct writes of the Encoder's underlying stream examined", n))
}

// fnPairName: "pkg.encodeFoo" and "pkg.decodeFoo" (any capitalisation of the first letter) name the same pair.
func fnPairName(full string) string {
	i := strings.LastIndex(full, ".")
	pkg, n := full[:i+1], full[i+1:]
	for _, pfx := range []string{"Encode", "Decode", "encode", "decode"} {
		if strings.HasPrefix(n, pfx) {
			return pkg + "#code" + n[len(pfx):]
		}
	}
	return full
}
