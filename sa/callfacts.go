package main

// Call facts: every call site reachable from an entry point, with the provenance atoms of its
// arguments (parameters of callees substituted by the caller's argument atoms) and the conditions
// under which it executes. Used for value-source tables (which element is created from what).

import (
	"fmt"
	"go/token"
	"go/types"
	"regexp"
	"sort"
	"strings"

	"golang.org/x/tools/go/ssa"
)

type CallFact struct {
	Caller *ssa.Function
	Callee *ssa.Function
	Name   string
	Args   []string
	Ctx    []string
	Pos    token.Pos
	Chain  []string
	InLoop string        // atom of the innermost ranged collection, "" when not in a loop
	Alts   map[int][]Alt // for arguments that are branch-dependent (phi): each alternative with its branch context
	Root   string        // effect mode: the memory object a store/write targets ("local…" or the provenance of the reference it goes through)
}

// Alt is one alternative of a branch-dependent value together with the conditions of the branch.
type Alt struct {
	Atom string
	Ctx  []string
}

func (ge *GuardEngine) phiAlts(v ssa.Value, env *Env, fi *fnInfo) []Alt {
	return ge.phiAltsRec(v, env, fi, map[*ssa.Phi]bool{})
}

func (ge *GuardEngine) phiAltsRec(v ssa.Value, env *Env, fi *fnInfo, seen map[*ssa.Phi]bool) []Alt {
	phi, ok := v.(*ssa.Phi)
	if !ok || seen[phi] {
		return nil
	}
	seen[phi] = true
	var out []Alt
	for i, e := range phi.Edges {
		pred := phi.Block().Preds[i]
		if inner, ok := e.(*ssa.Phi); ok {
			out = append(out, ge.phiAltsRec(inner, env, fi, seen)...)
			continue
		}
		out = append(out, Alt{ge.pv.Atom(e, env), ge.condCtx(fi, pred, env)})
	}
	return out
}

func (cf CallFact) String() string {
	s := cf.Name + "(" + strings.Join(cf.Args, ", ") + ")"
	if len(cf.Ctx) > 0 {
		s += "  UNDER " + strings.Join(cf.Ctx, " && ")
	}
	for i, alts := range cf.Alts {
		for _, a := range alts {
			s += fmt.Sprintf("\n      arg%d alt: %s  WHEN %s", i, a.Atom, strings.Join(a.Ctx, " && "))
		}
	}
	return s
}

// Calls collects call facts from fn downward (module callees only), to the engine's depth bound.
func (ge *GuardEngine) Calls(fn *ssa.Function, env *Env, chain, ctx []string, depth int, seen map[*ssa.Function]int) []CallFact {
	if fn == nil || len(fn.Blocks) == 0 || depth > ge.Depth || seen[fn] > 0 {
		return nil
	}
	seen[fn]++
	defer func() { seen[fn]-- }()
	fi := ge.info(fn)
	chain = append(append([]string{}, chain...), FuncName(fn))
	var out []CallFact
	for _, b := range fn.Blocks {
		for _, in := range b.Instrs {
			ge.pv.loadCtx = []ssa.Instruction{in}
			var cc *ssa.CallCommon
			switch x := in.(type) {
			case *ssa.Call:
				cc = &x.Call
			case *ssa.Defer:
				cc = &x.Call
			case *ssa.MapUpdate:
				out = append(out, CallFact{Caller: fn, Name: "mapupdate", Pos: x.Pos(), Chain: chain, Root: ge.refRoot(x.Map, env),
					Args: []string{ge.pv.Atom(x.Map, env), ge.pv.Atom(x.Key, env), ge.pv.Atom(x.Value, env)},
					Ctx:  append(append([]string{}, ctx...), ge.condCtx(fi, b, env)...)})
				continue
			case *ssa.Store:
				if ia, ok := x.Addr.(*ssa.IndexAddr); ok {
					out = append(out, CallFact{Caller: fn, Name: "write", Pos: x.Pos(), Chain: chain, Root: ge.writeRoot(ia, env),
						Args: []string{ge.pv.Atom(ia.X, env) + "[" + ge.pv.indexAtom(ia.Index, env) + "]", ge.pv.Atom(x.Val, env), "index-store"},
						Ctx:  append(append([]string{}, ctx...), ge.condCtx(fi, b, env)...)})
					continue
				}
				if u, ok := x.Addr.(*ssa.UnOp); ok && u.Op == token.MUL {
					// store through a loaded pointer: *p = v
					out = append(out, CallFact{Caller: fn, Name: "write", Pos: x.Pos(), Chain: chain, Root: ge.refRoot(u, env),
						Args: []string{"*" + ge.pv.Atom(u, env), ge.pv.Atom(x.Val, env), "deref-store"},
						Ctx:  append(append([]string{}, ctx...), ge.condCtx(fi, b, env)...)})
					continue
				}
				if prm, ok := x.Addr.(*ssa.Parameter); ok {
					out = append(out, CallFact{Caller: fn, Name: "write", Pos: x.Pos(), Chain: chain, Root: ge.refRoot(prm, env),
						Args: []string{"*" + ge.pv.Atom(prm, env), ge.pv.Atom(x.Val, env), "deref-store"},
						Ctx:  append(append([]string{}, ctx...), ge.condCtx(fi, b, env)...)})
					continue
				}
				if al, ok := x.Addr.(*ssa.Alloc); ok && al.Comment != "" {
					// assignment to a local variable that is assigned in several places (branch-dependent value)
					if whole, _ := ge.pv.storesTo(al, -1); len(whole) > 1 {
						out = append(out, CallFact{Caller: fn, Name: "assign", Pos: x.Pos(), Chain: chain,
							Args: []string{al.Comment, ge.pv.Atom(x.Val, env)},
							Ctx:  append(append([]string{}, ctx...), ge.condCtx(fi, b, env)...)})
					}
					continue
				}
				// *p = T{F: v, …} through a pointer that is neither a local nor a parameter (a recorder's result):
				// one store fact per field of the literal (unset fields are stored as zero)
				if pt, isPtr := x.Addr.Type().Underlying().(*types.Pointer); isPtr {
					if st, isStruct := pt.Elem().Underlying().(*types.Struct); isStruct {
						if _, isFA := x.Addr.(*ssa.FieldAddr); !isFA {
							if ld, isLoad := x.Val.(*ssa.UnOp); isLoad && ld.Op == token.MUL {
								if lit, isAlloc := ld.X.(*ssa.Alloc); isAlloc && lit.Referrers() != nil {
									base := ge.pv.Atom(x.Addr, env)
									set := map[int]ssa.Value{}
									simple := true
									for _, r := range *lit.Referrers() {
										switch y := r.(type) {
										case *ssa.FieldAddr:
											if y.Referrers() == nil {
												continue
											}
											for _, rr := range *y.Referrers() {
												if fs, ok := rr.(*ssa.Store); ok && fs.Addr == ssa.Value(y) {
													set[y.Field] = fs.Val
												} else {
													simple = false
												}
											}
										case *ssa.UnOp, *ssa.DebugRef:
										default:
											simple = false
										}
									}
									if simple {
										for i := 0; i < st.NumFields(); i++ {
											val := "zero"
											if v, ok := set[i]; ok {
												// F: p.F — the field keeps its value: not a store at all
												if l2, ok := v.(*ssa.UnOp); ok && l2.Op == token.MUL {
													if src, ok := l2.X.(*ssa.FieldAddr); ok && src.X == x.Addr && src.Field == i {
														continue
													}
												}
												val = ge.pv.Atom(v, env)
											}
											out = append(out, CallFact{Caller: fn, Name: "store", Pos: x.Pos(), Chain: chain, Root: ge.writeRoot(x.Addr, env),
												Args: []string{base + "." + st.Field(i).Name(), val},
												Ctx:  append(append([]string{}, ctx...), ge.condCtx(fi, b, env)...)})
										}
										continue
									}
								}
							}
						}
					}
				}
				if fa, ok := x.Addr.(*ssa.FieldAddr); ok {
					if _, isAlloc := ge.pv.resolve(fa.X).(*ssa.Alloc); !isAlloc {
						out = append(out, CallFact{Caller: fn, Name: "store", Pos: x.Pos(), Chain: chain, Root: ge.writeRoot(fa, env),
							Args: []string{ge.pv.addrAtom(fa, env), ge.pv.Atom(x.Val, env)},
							Ctx:  append(append([]string{}, ctx...), ge.condCtx(fi, b, env)...)})
					}
				}
				continue
			default:
				continue
			}
			callee := ge.calleeOf(cc)
			if callee == nil {
				// a callback parameter bound to a closure or function by the caller
				if fs := ge.calleesOfEnv(cc, env); len(fs) == 1 {
					if _, isParam := cc.Value.(*ssa.Parameter); isParam {
						callee = fs[0]
					}
				}
			}
			if callee == nil {
				// a call through a package-level list of functions: every listed function is called
				if fs := ge.calleesOf(cc); len(fs) > 1 {
					for _, f := range fs {
						if !ge.p.InModule(f) {
							continue
						}
						cf := CallFact{Caller: fn, Callee: f, Name: FuncName(f), Pos: in.Pos(), Chain: chain}
						for _, a := range cc.Args {
							cf.Args = append(cf.Args, ge.pv.Atom(a, env))
						}
						cf.Ctx = append(append([]string{}, ctx...), ge.condCtx(fi, b, env)...)
						out = append(out, cf)
						out = append(out, ge.Calls(f, ge.calleeEnv(f, cc, env), chain, cf.Ctx, depth+1, seen)...)
					}
					continue
				}
			}
			if callee == nil || !ge.p.InModule(callee) {
				// builtins and external functions that write through an argument
				if dst := externalWriteArg(cc); dst >= 0 && dst < len(cc.Args) {
					out = append(out, CallFact{Caller: fn, Name: "write", Pos: in.Pos(), Chain: chain, Root: ge.sliceRoot(cc.Args[dst], env),
						Args: []string{ge.pv.Atom(cc.Args[dst], env) + "[*]", "", "via " + calleeName(cc)},
						Ctx:  append(append([]string{}, ctx...), ge.condCtx(fi, b, env)...)})
				}
				continue
			}
			cf := CallFact{Caller: fn, Callee: callee, Name: FuncName(callee), Pos: in.Pos(), Chain: chain}
			for i, a := range cc.Args {
				cf.Args = append(cf.Args, ge.pv.Atom(a, env))
				if alts := ge.phiAlts(a, env, fi); len(alts) > 0 {
					if cf.Alts == nil {
						cf.Alts = map[int][]Alt{}
					}
					cf.Alts[i] = alts
				}
			}
			cf.Ctx = append(append([]string{}, ctx...), ge.condCtx(fi, b, env)...)
			out = append(out, cf)
			out = append(out, ge.Calls(callee, ge.calleeEnv(callee, cc, env), chain, cf.Ctx, depth+1, seen)...)
		}
	}
	return out
}

func (ge *GuardEngine) EntryCalls(entry string) ([]CallFact, bool) {
	fn := ge.p.Func(entry)
	if fn == nil {
		return nil, false
	}
	return ge.Calls(fn, nil, nil, nil, 0, map[*ssa.Function]int{}), true
}

// A CallReq requires a call (to a function selected by effect or name pattern) with given argument atoms.
type CallReq struct {
	ID         string
	Entry      string
	Callee     func(fn *ssa.Function) bool // which callees qualify (by effect)
	CalleeDesc string
	Args       map[int]string // argument index -> regexp
	Ctx        []string
	CtxFn      func(desc string) bool // further legitimate contexts, decided by the rule
	Clause     string
}

func CheckCallReq(c *Ctx, rule string, r CallReq, calls []CallFact) {
	argRe := map[int]*regexp.Regexp{}
	for i, s := range r.Args {
		argRe[i] = regexp.MustCompile(s)
	}
	var ctxRes []*regexp.Regexp
	for _, x := range r.Ctx {
		ctxRes = append(ctxRes, regexp.MustCompile(x))
	}
	var problems []string
	for _, cf := range calls {
		if !r.Callee(cf.Callee) {
			continue
		}
		ok := true
		for i, re := range argRe {
			if i >= len(cf.Args) || !re.MatchString(cf.Args[i]) {
				ok = false
			}
		}
		if !ok {
			continue
		}
		var bad []string
		okv := ctxAllowed(cf.Ctx, ctxRes, cf.Args, true)
		for i, cx := range cf.Ctx {
			if !okv[i] && !(r.CtxFn != nil && r.CtxFn(cx)) {
				bad = append(bad, cx)
			}
		}
		if len(bad) > 0 {
			problems = append(problems, fmt.Sprintf("%s: the call is skipped unless %s", c.P.Pos(cf.Pos), strings.Join(bad, " && ")))
			continue
		}
		c.OK(rule, r.ID, c.P.Pos(cf.Pos), cf.String()+"  ["+r.Clause+"]")
		return
	}
	if len(problems) > 0 {
		sort.Strings(problems)
		c.Fail(rule, r.ID, r.Entry, strings.Join(problems, " | ")+" — "+r.Clause)
		return
	}
	var want []string
	for i, s := range r.Args {
		want = append(want, fmt.Sprintf("arg%d~/%s/", i, s))
	}
	sort.Strings(want)
	c.Fail(rule, r.ID, r.Entry, fmt.Sprintf("no call of %s with %s reachable from %s — %s", r.CalleeDesc, strings.Join(want, ", "), r.Entry, r.Clause))
}

// storesConstTrue: fn contains a store of the constant true into a field with one of the names.
func storesToField(fn *ssa.Function, names ...string) bool {
	for _, n := range names {
		if len(fieldStores(fn, n)) > 0 {
			return true
		}
	}
	return false
}

// mapUpdates lists the map-update instructions of fn whose map atom matches.
func (ge *GuardEngine) mapUpdates(fn *ssa.Function, env *Env, mapRe *regexp.Regexp) []*ssa.MapUpdate {
	var out []*ssa.MapUpdate
	for _, b := range fn.Blocks {
		for _, in := range b.Instrs {
			if mu, ok := in.(*ssa.MapUpdate); ok {
				if mapRe.MatchString(ge.pv.Atom(mu.Map, env)) {
					out = append(out, mu)
				}
			}
		}
	}
	return out
}

// onEveryNormalPath: every path from fn's entry to a normal return passes through block b.
func onEveryNormalPath(fn *ssa.Function, b *ssa.BasicBlock) bool {
	if len(fn.Blocks) == 0 {
		return false
	}
	seen := map[*ssa.BasicBlock]bool{b: true}
	st := []*ssa.BasicBlock{fn.Blocks[0]}
	if fn.Blocks[0] == b {
		return true
	}
	for len(st) > 0 {
		x := st[len(st)-1]
		st = st[:len(st)-1]
		if seen[x] {
			continue
		}
		seen[x] = true
		if len(x.Instrs) > 0 {
			if _, ok := x.Instrs[len(x.Instrs)-1].(*ssa.Return); ok {
				return false
			}
		}
		st = append(st, x.Succs...)
	}
	return true
}

// externalWriteArg: index of the argument an external callee (or builtin) writes through, -1 if none.
// Everything external not listed here is assumed read-only for its arguments (stated in the evidence).
func externalWriteArg(cc *ssa.CallCommon) int {
	if b, ok := cc.Value.(*ssa.Builtin); ok {
		switch b.Name() {
		case "copy", "clear":
			return 0
		}
		return -1
	}
	f := cc.StaticCallee()
	if f == nil {
		return -1
	}
	n := f.String()
	switch {
	case strings.HasPrefix(n, "sort.Slice"), strings.HasPrefix(n, "sort.SliceStable"), strings.HasPrefix(n, "sort.Sort"), strings.HasPrefix(n, "slices.Reverse"), strings.HasPrefix(n, "slices.Sort"), strings.HasPrefix(n, "slices.SortFunc"):
		return 0
	case strings.Contains(n, "binary.littleEndian).PutUint"), strings.Contains(n, "binary.bigEndian).PutUint"):
		return 1
	case n == "encoding/hex.Decode", n == "encoding/hex.Encode":
		return 0
	case n == "io.ReadFull":
		return 1
	case n == "crypto/rand.Read", strings.HasSuffix(n, "frand.Read"):
		return 0
	}
	return -1
}
