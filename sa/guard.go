package main

// E3: guard extraction. A guard is a conditional branch one side of which can only lead to
// rejection (non-nil error / false / panic). Guards are normalised to "rejects iff L op R", carry
// the unexpected conditions under which they are evaluated (bypass contexts) and are collected
// interprocedurally through error-propagating and delegating calls.

import (
	"fmt"
	"go/constant"
	"go/token"
	"go/types"
	"regexp"
	"sort"
	"strings"

	"golang.org/x/tools/go/ssa"
)

type Guard struct {
	Fn       *ssa.Function
	Block    *ssa.BasicBlock
	Pos      token.Pos
	L, Op, R string
	Weak     bool      // neither successor rejects outright (conjunct / disjunct of a larger condition)
	Ctx      []string  // unexpected conditions dominating the guard, along the whole call chain
	Chain    []string  // call chain from the entry
	Sites    []Site    // the call-site blocks along the chain, ending with the guard's own block
	CondV    ssa.Value // the SSA condition, for engines that need the operand values (affine forms)
	Env      *Env
	IfPos    ssa.Instruction
	Ret      bool // the guard is a returned boolean value, not a branch
}

// A Site is a block of a function analysed under an environment.
type Site struct {
	Fn    *ssa.Function
	Block *ssa.BasicBlock
	Env   *Env
}

func (g Guard) String() string {
	s := fmt.Sprintf("rejects iff %s %s %s", g.L, g.Op, g.R)
	if g.Op == "true" || g.Op == "false" {
		s = fmt.Sprintf("rejects iff %s is %s", g.L, g.Op)
	}
	if g.Weak {
		s = "(weak) " + s
	}
	if len(g.Ctx) > 0 {
		s += "  UNDER " + strings.Join(g.Ctx, " && ")
	}
	return s
}

type fnInfo struct {
	fn        *ssa.Function
	kind      string // error | bool | void
	canAccept map[*ssa.BasicBlock]bool
	loopsOf   map[*ssa.BasicBlock][]*ssa.BasicBlock // block -> headers of the loops containing it
	loopBody  map[*ssa.BasicBlock]map[*ssa.BasicBlock]bool
	rejEdge   map[[2]*ssa.BasicBlock]bool // (from, to): taking this edge makes a bool function return false
	delegates []*ssa.Call
}

type GuardEngine struct {
	skipRes     []*regexp.Regexp    // Skip patterns of the row being evaluated
	errCells    map[*ssa.Alloc]bool // see errResultCell
	inErrCell   bool
	predDepth   int // nesting of one-line predicate expansion in decompose
	p           *Program
	pv          *Prov
	infos       map[*ssa.Function]*fnInfo
	Depth       int
	rootDepth   int
	factDepth   int
	nonNilCtor  map[*ssa.Function]bool
	globalFuncs map[*ssa.Global][]*ssa.Function
}

func NewGuardEngine(p *Program, depth int) *GuardEngine {
	return &GuardEngine{p: p, pv: NewProv(p), infos: map[*ssa.Function]*fnInfo{}, Depth: depth}
}

func isErrorType(t types.Type) bool {
	n, ok := t.(*types.Named)
	return ok && n.Obj().Pkg() == nil && n.Obj().Name() == "error"
}

func fnKind(fn *ssa.Function) string {
	res := fn.Signature.Results()
	if res.Len() == 0 {
		return "void"
	}
	last := res.At(res.Len() - 1).Type()
	if isErrorType(last) {
		return "error"
	}
	if b, ok := last.Underlying().(*types.Basic); ok && b.Kind() == types.Bool {
		return "bool"
	}
	return "void"
}

func dominatesBlock(a, b *ssa.BasicBlock) bool { return a.Dominates(b) }

// isLoopTest: d ends in a branch one side of which leaves a loop containing d (loop condition or break).
func (fi *fnInfo) isLoopTest(d *ssa.BasicBlock) bool {
	if len(d.Succs) != 2 {
		return false
	}
	for _, h := range fi.loopsOf[d] {
		in0, in1 := fi.inLoop(d.Succs[0], h), fi.inLoop(d.Succs[1], h)
		if in0 != in1 {
			return true
		}
	}
	return false
}

func (fi *fnInfo) inLoop(b, h *ssa.BasicBlock) bool {
	for _, x := range fi.loopsOf[b] {
		if x == h {
			return true
		}
	}
	return false
}

func (ge *GuardEngine) info(fn *ssa.Function) *fnInfo {
	if fi := ge.infos[fn]; fi != nil {
		return fi
	}
	fi := &fnInfo{fn: fn, kind: fnKind(fn), canAccept: map[*ssa.BasicBlock]bool{}, loopsOf: map[*ssa.BasicBlock][]*ssa.BasicBlock{}, loopBody: map[*ssa.BasicBlock]map[*ssa.BasicBlock]bool{}, rejEdge: map[[2]*ssa.BasicBlock]bool{}}
	ge.infos[fn] = fi
	if len(fn.Blocks) == 0 {
		return fi
	}
	// terminal classification
	var work []*ssa.BasicBlock
	for _, b := range fn.Blocks {
		if len(b.Instrs) == 0 {
			continue
		}
		switch t := b.Instrs[len(b.Instrs)-1].(type) {
		case *ssa.Return:
			acc := true
			if fi.kind != "void" && len(t.Results) > 0 {
				rv := t.Results[len(t.Results)-1]
				acc = !ge.definitelyRejects(fi, b, rv, 0)
				if acc {
					if c, ok := rv.(*ssa.Call); ok {
						fi.delegates = append(fi.delegates, c)
					}
				}
			}
			if acc {
				fi.canAccept[b] = true
				work = append(work, b)
			}
			// "return a && b && c": the result is a phi whose false edges come from the failed conjuncts
			if fi.kind == "bool" && len(t.Results) > 0 {
				if phi, ok := t.Results[len(t.Results)-1].(*ssa.Phi); ok && phi.Block() == b {
					for i, e := range phi.Edges {
						if k, ok := e.(*ssa.Const); ok && k.Value != nil && k.Value.ExactString() == "false" {
							fi.rejEdge[[2]*ssa.BasicBlock{b.Preds[i], b}] = true
						}
					}
				}
			}
		}
	}
	// "first error wins": a store of a certainly non-nil error into the enclosing function's error-result cell (the
	// accumulate-and-return idiom: check := func(…) { if err == nil && bad { err = errors.New(…) } } … return err)
	// makes acceptance impossible from that block on, and an edge taken when the cell is already non-nil is a rejecting edge
	cellRej := ge.errCellRejections(fi)
	for b := range cellRej {
		delete(fi.canAccept, b)
	}
	{
		var w2 []*ssa.BasicBlock
		for _, b := range work {
			if !cellRej[b] {
				w2 = append(w2, b)
			}
		}
		work = w2
	}
	for len(work) > 0 {
		b := work[len(work)-1]
		work = work[:len(work)-1]
		for _, pr := range b.Preds {
			if !fi.canAccept[pr] && !cellRej[pr] {
				fi.canAccept[pr] = true
				work = append(work, pr)
			}
		}
	}
	// natural loops
	for _, u := range fn.Blocks {
		for _, h := range u.Succs {
			if h.Dominates(u) { // back edge u -> h
				body := map[*ssa.BasicBlock]bool{h: true}
				st := []*ssa.BasicBlock{u}
				for len(st) > 0 {
					x := st[len(st)-1]
					st = st[:len(st)-1]
					if body[x] {
						continue
					}
					body[x] = true
					st = append(st, x.Preds...)
				}
				if prev := fi.loopBody[h]; prev != nil {
					for b := range body {
						if !prev[b] {
							prev[b] = true
							fi.loopsOf[b] = append(fi.loopsOf[b], h)
						}
					}
					continue
				}
				fi.loopBody[h] = body
				for b := range body {
					fi.loopsOf[b] = append(fi.loopsOf[b], h)
				}
			}
		}
	}
	return fi
}

// definitelyRejects: the returned value is a non-nil error / the constant false.
func (ge *GuardEngine) definitelyRejects(fi *fnInfo, b *ssa.BasicBlock, rv ssa.Value, depth int) bool {
	if depth > 4 {
		return false
	}
	if fi.kind == "bool" {
		if c, ok := rv.(*ssa.Const); ok && c.Value != nil {
			return c.Value.ExactString() == "false"
		}
		return false
	}
	switch x := rv.(type) {
	case *ssa.Const:
		return false // nil
	case *ssa.MakeInterface:
		return true
	case *ssa.Call:
		if f := x.Call.StaticCallee(); f != nil && f.Pkg != nil {
			pp := f.Pkg.Pkg.Path()
			if (pp == "errors" && f.Name() == "New") || (pp == "fmt" && f.Name() == "Errorf") {
				return true
			}
			// module error constructors: every return is a non-nil error
			if ge.p.InModule(f) && len(f.Blocks) > 0 && fnKind(f) == "error" {
				if v, ok := ge.nonNilCtor[f]; ok {
					if v {
						return true
					}
					break
				}
				if ge.nonNilCtor == nil {
					ge.nonNilCtor = map[*ssa.Function]bool{}
				}
				ge.nonNilCtor[f] = false // cycles
				cfi := ge.info(f)
				all, n := true, 0
				for _, cb := range f.Blocks {
					if len(cb.Instrs) == 0 {
						continue
					}
					if r, ok := cb.Instrs[len(cb.Instrs)-1].(*ssa.Return); ok && len(r.Results) > 0 {
						n++
						if !ge.definitelyRejects(cfi, cb, r.Results[len(r.Results)-1], depth+1) {
							all = false
						}
					}
				}
				ge.nonNilCtor[f] = all && n > 0
				if all && n > 0 {
					return true
				}
			}
		}
	case *ssa.UnOp:
		if x.Op == token.MUL {
			if _, ok := x.X.(*ssa.Global); ok {
				return true // package-level error value
			}
			if al, ok := ge.pv.resolve(x.X).(*ssa.Alloc); ok {
				whole, _ := ge.pv.storesTo(al, -1)
				// the cell starts out nil: its stores say something only if one of them certainly ran before this load
				initialised := false
				for _, r := range *al.Referrers() {
					if st, isSt := r.(*ssa.Store); isSt && st.Addr == ssa.Value(al) && st.Block() != nil && x.Block() != nil && st.Block().Parent() == x.Block().Parent() {
						if (st.Block() == x.Block() && instrBefore(st, x)) || (st.Block() != x.Block() && st.Block().Dominates(x.Block())) {
							if _, self := st.Val.(*ssa.UnOp); !self {
								initialised = true
							}
						}
					}
				}
				if !initialised && x.Block() != nil && al.Block() != nil && al.Block().Parent() != x.Block().Parent() {
					// read inside a closure: initialised if a store ran before every closure that captures the cell was made
					var mcs []*ssa.MakeClosure
					var sts []*ssa.Store
					for _, r := range *al.Referrers() {
						switch y := r.(type) {
						case *ssa.MakeClosure:
							mcs = append(mcs, y)
						case *ssa.Store:
							if _, self := y.Val.(*ssa.UnOp); y.Addr == ssa.Value(al) && !self {
								sts = append(sts, y)
							}
						}
					}
					ok := len(mcs) > 0
					for _, mc := range mcs {
						before := false
						for _, st := range sts {
							if (st.Block() == mc.Block() && instrBefore(st, mc)) || (st.Block() != mc.Block() && st.Block().Dominates(mc.Block())) {
								before = true
							}
						}
						ok = ok && before
					}
					initialised = ok
				}
				if len(whole) > 0 && initialised {
					all := true
					for _, w := range whole {
						if !ge.definitelyRejects(fi, b, w, depth+1) {
							all = false
						}
					}
					return all
				}
			}
		}
	case *ssa.FreeVar:
		if r := ge.pv.resolve(x); r != x {
			return ge.definitelyRejects(fi, b, r, depth+1)
		}
	case *ssa.Phi:
		for _, e := range x.Edges {
			if !ge.definitelyRejects(fi, b, e, depth+1) {
				return false
			}
		}
		return len(x.Edges) > 0
	}
	// dominated by the true edge of "rv != nil"
	for cur := b; cur != nil; cur = cur.Idom() {
		d := cur.Idom()
		if d == nil || len(d.Instrs) == 0 {
			break
		}
		ifi, ok := d.Instrs[len(d.Instrs)-1].(*ssa.If)
		if !ok {
			continue
		}
		bo, ok := ifi.Cond.(*ssa.BinOp)
		if !ok {
			continue
		}
		isNil := func(v ssa.Value) bool { c, ok := v.(*ssa.Const); return ok && c.Value == nil }
		var other ssa.Value
		if isNil(bo.Y) {
			other = bo.X
		} else if isNil(bo.X) {
			other = bo.Y
		} else {
			continue
		}
		if other != rv && !sameCellReload(other, rv, d, b) {
			continue
		}
		if bo.Op == token.NEQ && edgeDominates(d, 0, cur) {
			return true
		}
		if bo.Op == token.EQL && edgeDominates(d, 1, cur) {
			return true
		}
	}
	return false
}

// errResultCell: v (an Alloc, or a FreeVar bound to one) is the cell of a function's error result such that
// (a) every return of that function returns the cell's current value, and (b) every store into the cell, in that
// function or in a closure capturing it, is a certainly non-nil error (or the cell's own value). Once non-nil such
// a cell stays non-nil and the function rejects.
func (ge *GuardEngine) errResultCell(v ssa.Value) *ssa.Alloc {
	cell, _ := ge.pv.resolve(v).(*ssa.Alloc)
	if cell == nil || cell.Block() == nil {
		return nil
	}
	if ok, seen := ge.errCells[cell]; seen {
		if ok {
			return cell
		}
		return nil
	}
	if ge.errCells == nil {
		ge.errCells = map[*ssa.Alloc]bool{}
	}
	ge.errCells[cell] = false
	pt, isPtr := cell.Type().Underlying().(*types.Pointer)
	if !isPtr || typeName(pt.Elem()) != "error" {
		return nil
	}
	owner := cell.Block().Parent()
	nret := 0
	for _, b := range owner.Blocks {
		ret, isRet := b.Instrs[len(b.Instrs)-1].(*ssa.Return)
		if !isRet {
			continue
		}
		nret++
		if len(ret.Results) == 0 {
			return nil
		}
		ld, isLd := ret.Results[len(ret.Results)-1].(*ssa.UnOp)
		if !isLd || ld.Op != token.MUL || ld.X != ssa.Value(cell) {
			return nil
		}
	}
	if nret == 0 {
		return nil
	}
	// stores, here and in capturing closures
	var addrs []ssa.Value
	addrs = append(addrs, cell)
	for _, r := range *cell.Referrers() {
		if mc, isMC := r.(*ssa.MakeClosure); isMC {
			if f, ok := mc.Fn.(*ssa.Function); ok {
				for j, bnd := range mc.Bindings {
					if bnd == ssa.Value(cell) && j < len(f.FreeVars) {
						addrs = append(addrs, f.FreeVars[j])
					}
				}
			}
		}
	}
	nstores := 0
	for _, a := range addrs {
		for _, r := range *a.Referrers() {
			st, isSt := r.(*ssa.Store)
			if !isSt || st.Addr != a {
				if _, isLd := r.(*ssa.UnOp); isLd {
					continue
				}
				if _, isMC := r.(*ssa.MakeClosure); isMC {
					continue
				}
				if _, isDbg := r.(*ssa.DebugRef); isDbg {
					continue
				}
				return nil // the address escapes some other way
			}
			if ld, isLd := st.Val.(*ssa.UnOp); isLd && ld.Op == token.MUL && ld.X == a {
				continue // "return err" re-stores the loaded value
			}
			sfi := &fnInfo{fn: st.Block().Parent(), kind: fnKind(st.Block().Parent())} // not the cached info: that one is being built
			if !ge.definitelyRejects(sfi, st.Block(), st.Val, 1) {
				return nil
			}
			nstores++
		}
	}
	if nstores == 0 {
		return nil
	}
	ge.errCells[cell] = true
	return cell
}

// errCellRejections: the blocks of fi.fn that store a non-nil error into an error-result cell; as a side effect
// marks the edges taken when such a cell is already non-nil as rejecting edges.
func (ge *GuardEngine) errCellRejections(fi *fnInfo) map[*ssa.BasicBlock]bool {
	out := map[*ssa.BasicBlock]bool{}
	for _, b := range fi.fn.Blocks {
		for _, in := range b.Instrs {
			switch x := in.(type) {
			case *ssa.Store:
				if ld, isLd := x.Val.(*ssa.UnOp); isLd && ld.Op == token.MUL && ld.X == x.Addr {
					continue
				}
				if ge.errResultCell(x.Addr) != nil {
					out[b] = true
				}
			case *ssa.If:
				bo, ok := x.Cond.(*ssa.BinOp)
				if !ok || (bo.Op != token.EQL && bo.Op != token.NEQ) {
					continue
				}
				isNil := func(v ssa.Value) bool { k, ok := v.(*ssa.Const); return ok && k.Value == nil }
				var other ssa.Value
				if isNil(bo.Y) {
					other = bo.X
				} else if isNil(bo.X) {
					other = bo.Y
				}
				ld, isLd := other.(*ssa.UnOp)
				if !isLd || ld.Op != token.MUL || ge.errResultCell(ld.X) == nil {
					continue
				}
				nonNilEdge := 0 // successor taken when the cell is non-nil
				if bo.Op == token.EQL {
					nonNilEdge = 1
				}
				fi.rejEdge[[2]*ssa.BasicBlock{b, b.Succs[nonNilEdge]}] = true
			}
		}
	}
	return out
}

// sameCellReload: tested and returned are two loads of the same variable cell (a named result or a variable a
// closure captures), the return block directly follows the test and nothing in it before the second load can
// write the cell (no store, no call).
func sameCellReload(tested, returned ssa.Value, d, b *ssa.BasicBlock) bool {
	l1, ok1 := tested.(*ssa.UnOp)
	l2, ok2 := returned.(*ssa.UnOp)
	if !ok1 || !ok2 || l1.Op != token.MUL || l2.Op != token.MUL || l1.X != l2.X {
		return false
	}
	if l2.Block() != b || (b != d.Succs[0] && b != d.Succs[1]) || len(b.Preds) != 1 {
		return false
	}
	for _, in := range b.Instrs {
		if in == ssa.Instruction(l2) {
			break
		}
		if st, isSt := in.(*ssa.Store); isSt && st.Addr == l2.X {
			if ld, isLd := st.Val.(*ssa.UnOp); isLd && ld.Op == token.MUL && ld.X == l2.X {
				continue // "return err" with a named result stores the value it just loaded
			}
		}
		switch in.(type) {
		case *ssa.Store, *ssa.Call, *ssa.Go, *ssa.Defer:
			return false
		}
	}
	// and nothing after the first load in the testing block
	after := false
	for _, in := range d.Instrs {
		if in == ssa.Instruction(l1) {
			after = true
			continue
		}
		if after {
			switch in.(type) {
			case *ssa.Store, *ssa.Call, *ssa.Go, *ssa.Defer:
				return false
			}
		}
	}
	return l1.Block() == d
}

// edgeDominates: every path from d to b goes through d's successor number i.
func edgeDominates(d *ssa.BasicBlock, i int, b *ssa.BasicBlock) bool {
	s := d.Succs[i]
	o := d.Succs[1-i]
	if s == o {
		return false
	}
	if !(s == b || s.Dominates(b)) {
		return false
	}
	// s must be entered only from d for the edge (not the block) to dominate
	return len(s.Preds) == 1
}

var negOp = map[string]string{"<": ">=", "<=": ">", ">": "<=", ">=": "<", "==": "!=", "!=": "==", "true": "false", "false": "true"}
var flipOp = map[string]string{"<": ">", "<=": ">=", ">": "<", ">=": "<=", "==": "==", "!=": "!=", "true": "true", "false": "false"}

var cmpCallRe = regexp.MustCompile(`^call types\.\((Currency|\*Currency)\)\.Cmp\(`)

// decompose renders a boolean SSA value as (L, op, R) meaning "L op R".
func (ge *GuardEngine) decompose(v ssa.Value, env *Env) (string, string, string) {
	switch x := v.(type) {
	case *ssa.Call:
		// an unexported one-line predicate ("func (s State) v2Allowed() bool { return a >= b }") reads as its
		// comparison; exported predicates (Currency.IsZero) are API and keep their name
		if callee := x.Call.StaticCallee(); callee != nil && !x.Call.IsInvoke() && len(callee.Blocks) == 1 && ge.p.InModule(callee) && callee.Object() != nil && !callee.Object().Exported() && callee.Signature.Results().Len() == 1 && ge.predDepth < 3 {
			if ret, ok := callee.Blocks[0].Instrs[len(callee.Blocks[0].Instrs)-1].(*ssa.Return); ok && len(ret.Results) == 1 {
				if bo, isCmp := ret.Results[0].(*ssa.BinOp); isCmp {
					switch bo.Op {
					case token.EQL, token.NEQ, token.LSS, token.LEQ, token.GTR, token.GEQ:
						ge.predDepth++
						l, op, r := ge.decompose(bo, ge.calleeEnv(callee, &x.Call, env))
						ge.predDepth--
						return l, op, r
					}
				}
			}
		}
	case *ssa.UnOp:
		if x.Op == token.NOT {
			l, op, r := ge.decompose(x.X, env)
			return l, negOp[op], r
		}
	case *ssa.BinOp:
		switch x.Op {
		case token.EQL, token.NEQ, token.LSS, token.LEQ, token.GTR, token.GEQ:
			l, r := ge.pv.Atom(x.X, env), ge.pv.Atom(x.Y, env)
			op := x.Op.String()
			// x.Cmp(y) <op> 0  ==>  x <op> y
			if r == "const:0" && strings.HasPrefix(l, "call ") {
				if a, b, ok := splitCmpCall(l); ok {
					return a, op, b
				}
			}
			// bool == true / false
			return l, op, r
		}
	}
	a := ge.pv.Atom(v, env)
	// a.Equals(b) ==> a == b
	if strings.HasPrefix(a, "call (types.Currency).Equals(") {
		if args := callArgs(a); len(args) == 2 {
			return args[0], "==", args[1]
		}
	}
	return a, "true", ""
}

// callArgs splits the top-level arguments of a "call f(a, b)" atom.
func callArgs(a string) []string {
	// "call (pkg.T).Method(args)" or "call pkg.f(args)": the argument list is the last top-level group
	start := -1
	depth := 0
	for j := 0; j < len(a); j++ {
		if a[j] == '(' {
			if depth == 0 {
				start = j
			}
			depth++
		} else if a[j] == ')' {
			depth--
			if depth == 0 && j != len(a)-1 {
				start = -1
			}
		}
	}
	if start < 0 || !strings.HasSuffix(a, ")") {
		return nil
	}
	inner := a[start+1 : len(a)-1]
	parts := splitTop(inner, ',')
	for k := range parts {
		parts[k] = strings.TrimSpace(parts[k])
	}
	return parts
}

func splitCmpCall(l string) (string, string, bool) {
	if !(strings.HasPrefix(l, "call (types.Currency).Cmp(") || strings.HasPrefix(l, "call (consensus.Work).Cmp(")) {
		return "", "", false
	}
	args := callArgs(l)
	if len(args) != 2 {
		return "", "", false
	}
	return args[0], args[1], true
}

// calleeOf resolves the function called by a call instruction (static callee or a closure stored
// once in a local).
// calleesOf is calleeOf extended to calls through an element of a package-level slice of functions
// (for _, f := range validators { if err := f(x); err != nil { return err } }): every listed function is a callee.
// calleesOfEnv: like calleesOf, and a call of a function-typed PARAMETER resolves to the closure or function the
// caller passed for it (callback iterators: forEachX(txn, func(…) error { … })).
func (ge *GuardEngine) calleesOfEnv(c *ssa.CallCommon, env *Env) []*ssa.Function {
	if fs := ge.calleesOf(c); len(fs) > 0 {
		return fs
	}
	if prm, ok := c.Value.(*ssa.Parameter); ok && env != nil {
		for depth := 0; depth < 4; depth++ {
			bv, ok := env.paramVals[prm]
			if !ok || bv.v == nil {
				return nil
			}
			switch x := bv.v.(type) {
			case *ssa.MakeClosure:
				if f, ok := x.Fn.(*ssa.Function); ok {
					return []*ssa.Function{f}
				}
			case *ssa.Function:
				return []*ssa.Function{x}
			case *ssa.Parameter:
				if bv.env == nil {
					return nil
				}
				prm, env = x, bv.env
				continue
			}
			return nil
		}
	}
	return nil
}

func (ge *GuardEngine) calleesOf(c *ssa.CallCommon) []*ssa.Function {
	if f := ge.calleeOf(c); f != nil {
		return []*ssa.Function{f}
	}
	if c.IsInvoke() {
		return nil
	}
	ld, ok := c.Value.(*ssa.UnOp)
	if !ok || ld.Op != token.MUL {
		return nil
	}
	ia, ok := ld.X.(*ssa.IndexAddr)
	if !ok {
		return nil
	}
	gl, ok := ia.X.(*ssa.UnOp)
	if !ok || gl.Op != token.MUL {
		return nil
	}
	g, ok := gl.X.(*ssa.Global)
	if !ok || g.Pkg == nil {
		return nil
	}
	if ge.globalFuncs == nil {
		ge.globalFuncs = map[*ssa.Global][]*ssa.Function{}
	}
	if fs, ok := ge.globalFuncs[g]; ok {
		return fs
	}
	var fs []*ssa.Function
	if init := g.Pkg.Func("init"); init != nil {
		for _, b := range init.Blocks {
			for _, in := range b.Instrs {
				st, ok := in.(*ssa.Store)
				if !ok || st.Addr != ssa.Value(g) {
					continue
				}
				sl, ok := st.Val.(*ssa.Slice)
				if !ok {
					continue
				}
				al, ok := sl.X.(*ssa.Alloc)
				if !ok {
					continue
				}
				byIdx := map[int64]*ssa.Function{}
				complete := true
				for _, ref := range *al.Referrers() {
					ea, ok := ref.(*ssa.IndexAddr)
					if !ok {
						continue
					}
					k, isK := ea.Index.(*ssa.Const)
					for _, r2 := range *ea.Referrers() {
						es, ok := r2.(*ssa.Store)
						if !ok || es.Addr != ssa.Value(ea) {
							continue
						}
						var f *ssa.Function
						switch v := es.Val.(type) {
						case *ssa.Function:
							f = v
						case *ssa.MakeClosure:
							f, _ = v.Fn.(*ssa.Function)
						case *ssa.ChangeType:
							f, _ = v.X.(*ssa.Function)
						}
						if f == nil || !isK {
							complete = false
							continue
						}
						byIdx[k.Int64()] = f
					}
				}
				if complete {
					for i := int64(0); i < int64(len(byIdx)); i++ {
						if byIdx[i] != nil {
							fs = append(fs, byIdx[i])
						}
					}
				}
			}
		}
	}
	// the list is only trusted if nothing else ever stores to the global
	for _, fn := range SortedFuncs(ge.p.AllFuncs()) {
		if fn.Pkg != g.Pkg || fn.Name() == "init" {
			continue
		}
		for _, b := range fn.Blocks {
			for _, in := range b.Instrs {
				if st, ok := in.(*ssa.Store); ok && st.Addr == ssa.Value(g) {
					fs = nil
				}
			}
		}
	}
	ge.globalFuncs[g] = fs
	return fs
}

func (ge *GuardEngine) calleeOf(c *ssa.CallCommon) *ssa.Function {
	if f := c.StaticCallee(); f != nil {
		return f
	}
	v := ge.pv.resolve(c.Value)
	for i := 0; i < 4; i++ {
		switch x := v.(type) {
		case *ssa.MakeClosure:
			f, _ := x.Fn.(*ssa.Function)
			return f
		case *ssa.Function:
			return x
		case *ssa.UnOp:
			if x.Op != token.MUL {
				return nil
			}
			al, ok := ge.pv.resolve(x.X).(*ssa.Alloc)
			if !ok {
				return nil
			}
			whole, _ := ge.pv.storesTo(al, -1)
			var found ssa.Value
			for _, w := range whole {
				if _, isC := w.(*ssa.Const); isC {
					continue // nil initialisation
				}
				if found != nil && found != w {
					return nil
				}
				found = w
			}
			if found == nil {
				return nil
			}
			v = found
		default:
			return nil
		}
	}
	return nil
}

func (ge *GuardEngine) calleeEnv(callee *ssa.Function, c *ssa.CallCommon, env *Env) *Env {
	ne := &Env{params: map[*ssa.Parameter]string{}, freevars: map[*ssa.FreeVar]string{}, paramVals: map[*ssa.Parameter]boundVal{}}
	if env != nil { // enclosing functions' bindings stay valid inside closures
		for k, v := range env.params {
			ne.params[k] = v
		}
		for k, v := range env.freevars {
			ne.freevars[k] = v
		}
		for k, v := range env.paramVals {
			ne.paramVals[k] = v
		}
	}
	args := c.Args
	for i, prm := range callee.Params {
		if i < len(args) {
			if ge.pv.CopyIsFresh {
				if _, isPtr := args[i].Type().Underlying().(*types.Pointer); isPtr {
					ne.params[prm] = ge.writeRoot(args[i], env) // effect mode: pointers are bound to the object they point into
					continue
				}
				// a (variadic) slice of pointers built from a local array: bind to the objects pointed into
				if st, isSlice := args[i].Type().Underlying().(*types.Slice); isSlice {
					if _, elemPtr := st.Elem().Underlying().(*types.Pointer); elemPtr {
						if roots := ge.pointerArrayRoots(args[i], env); len(roots) > 0 {
							ne.params[prm] = "ptrs(" + strings.Join(roots, "|") + ")"
							continue
						}
					}
				}
			}
			ne.params[prm] = ge.pv.Atom(args[i], env)
			ne.paramVals[prm] = boundVal{args[i], env}
		}
	}
	// free variables of a closure: bound values evaluated in the caller's environment
	if mc := ge.pv.closures[callee]; mc != nil {
		for j, fv := range callee.FreeVars {
			if j < len(mc.Bindings) {
				if _, isAlloc := mc.Bindings[j].(*ssa.Alloc); isAlloc {
					continue // captured by reference: resolved through stores
				}
				ne.freevars[fv] = ge.pv.Atom(mc.Bindings[j], env)
			}
		}
	}
	return ne
}

type ctxEdge struct {
	d    *ssa.BasicBlock
	edge int
	desc string
}

// condCtx describes the unexpected (non-rejecting, non-loop) conditions under which block b runs.
func (ge *GuardEngine) condCtx(fi *fnInfo, b *ssa.BasicBlock, env *Env) []string {
	var out []string
	for _, e := range ge.ctxEdges(fi, b, env) {
		out = append(out, e.desc)
	}
	return out
}

func (ge *GuardEngine) ctxEdges(fi *fnInfo, b *ssa.BasicBlock, env *Env) []ctxEdge {
	var out []ctxEdge
	for cur := b; cur != nil; cur = cur.Idom() {
		d := cur.Idom()
		if d == nil || len(d.Instrs) == 0 {
			break
		}
		ifi, ok := d.Instrs[len(d.Instrs)-1].(*ssa.If)
		if !ok {
			continue
		}
		edge := -1
		if edgeDominates(d, 0, cur) {
			edge = 0
		} else if edgeDominates(d, 1, cur) {
			edge = 1
		}
		if edge < 0 {
			continue
		}
		// loop test: exactly one successor of d stays inside a loop that contains d
		if fi.isLoopTest(d) {
			continue
		}
		// the other side rejects: we are past a guard (for a bool function also when taking the other edge
		// makes it return false: "return a && b" evaluates b past the guard a)
		if !fi.canAccept[d.Succs[1-edge]] || fi.rejEdge[[2]*ssa.BasicBlock{d, d.Succs[1-edge]}] {
			continue
		}
		saved := ge.pv.loadCtx
		ge.pv.loadCtx = []ssa.Instruction{ifi}
		l, op, r := ge.decompose(ifi.Cond, env)
		ge.pv.loadCtx = saved
		if edge == 1 {
			op = negOp[op]
		}
		s := l + " " + op + " " + r
		if op == "true" || op == "false" {
			s = l + " is " + op
		}
		out = append(out, ctxEdge{d, edge, s})
	}
	// outermost first
	for i, j := 0, len(out)-1; i < j; i, j = i+1, j-1 {
		out[i], out[j] = out[j], out[i]
	}
	return out
}

// missingWhile: the first required continuation condition that does not dominate the guard (at any level of
// its call chain). Continuation conditions are the staying sides of the loop tests that ctxEdges leaves out.
func (ge *GuardEngine) missingWhile(g Guard, need []string) string {
	if len(need) == 0 {
		return ""
	}
	var have []string
	for _, st := range g.Sites {
		fi := ge.info(st.Fn)
		for cur := st.Block; cur != nil; cur = cur.Idom() {
			d := cur.Idom()
			if d == nil || len(d.Instrs) == 0 {
				break
			}
			ifi, ok := d.Instrs[len(d.Instrs)-1].(*ssa.If)
			if !ok || !fi.isLoopTest(d) {
				continue
			}
			edge := -1
			if edgeDominates(d, 0, cur) {
				edge = 0
			} else if edgeDominates(d, 1, cur) {
				edge = 1
			}
			if edge < 0 {
				continue
			}
			saved := ge.pv.loadCtx
			ge.pv.loadCtx = []ssa.Instruction{ifi}
			l, op, r := ge.decompose(ifi.Cond, st.Env)
			ge.pv.loadCtx = saved
			if edge == 1 {
				op = negOp[op]
			}
			have = append(have, l+" "+op+" "+r)
		}
	}
	for _, n := range need {
		re := regexp.MustCompile(n)
		found := false
		for _, h := range have {
			if re.MatchString(h) {
				found = true
			}
		}
		if !found {
			return n
		}
	}
	return ""
}

// Guards collects the guards of fn (under env) and, recursively, of the callees whose rejection
// propagates to fn's rejection.
func (ge *GuardEngine) Guards(fn *ssa.Function, env *Env, chain []string, ctx []string, depth int, seen map[*ssa.Function]int) []Guard {
	return ge.guardsRec(fn, env, chain, ctx, nil, depth, seen)
}

func (ge *GuardEngine) guardsRec(fn *ssa.Function, env *Env, chain []string, ctx []string, sites []Site, depth int, seen map[*ssa.Function]int) []Guard {
	if fn == nil || len(fn.Blocks) == 0 || depth > ge.Depth || seen[fn] > 1 {
		return nil
	}
	seen[fn]++
	defer func() { seen[fn]-- }()
	fi := ge.info(fn)
	chain = append(append([]string{}, chain...), FuncName(fn))
	var out []Guard
	expandWhenTrue := false // polarity of the guard being expanded: it rejects when the tested call returns true
	expand := func(call *ssa.Call, at *ssa.BasicBlock, extraCtx []string) {
		// slices.ContainsFunc(xs, pred) / slices.IndexFunc(xs, pred): the predicate is evaluated on every element
		if f := call.Call.StaticCallee(); f != nil && (strings.HasPrefix(f.String(), "slices.ContainsFunc") || strings.HasPrefix(f.String(), "slices.IndexFunc")) && len(call.Call.Args) == 2 {
			var pred *ssa.Function
			switch v := call.Call.Args[1].(type) {
			case *ssa.MakeClosure:
				pred, _ = v.Fn.(*ssa.Function)
			case *ssa.Function:
				pred = v
			}
			if pred != nil && len(pred.Params) == 1 {
				ne := &Env{params: map[*ssa.Parameter]string{}, freevars: map[*ssa.FreeVar]string{}}
				if env != nil {
					for k, v := range env.params {
						ne.params[k] = v
					}
					for k, v := range env.freevars {
						ne.freevars[k] = v
					}
				}
				ne.params[pred.Params[0]] = ge.pv.Atom(call.Call.Args[0], env) + "[*]"
				if mc, ok := call.Call.Args[1].(*ssa.MakeClosure); ok {
					for j, fv := range pred.FreeVars {
						if j < len(mc.Bindings) {
							if _, isAlloc := mc.Bindings[j].(*ssa.Alloc); !isAlloc {
								ne.freevars[fv] = ge.pv.Atom(mc.Bindings[j], env)
							}
						}
					}
				}
				cctx := append(append([]string{}, ctx...), ge.condCtx(fi, at, env)...)
				csites := append(append([]Site{}, sites...), Site{fn, at, env})
				for _, g := range ge.guardsRec(pred, ne, chain, cctx, csites, depth+1, seen) {
					if expandWhenTrue && g.Ret {
						// the caller rejects when SOME element satisfies the predicate: every element is tested and
						// a true predicate rejects, exactly like "for … { if pred { reject } }"
						g.Op = negOp[g.Op]
						g.Weak = false
					} else {
						g.Weak = true // an existence test: one element's comparison is a disjunct of the condition
					}
					out = append(out, g)
				}
			}
			return
		}
		for _, callee := range ge.calleesOfEnv(&call.Call, env) {
			if callee == nil || !ge.p.InModule(callee) {
				continue
			}
			cctx := append(append([]string{}, ctx...), ge.condCtx(fi, at, env)...)
			cctx = append(cctx, extraCtx...)
			csites := append(append([]Site{}, sites...), Site{fn, at, env})
			sub := ge.guardsRec(callee, ge.calleeEnv(callee, &call.Call, env), chain, cctx, csites, depth+1, seen)
			if expandWhenTrue && fnKind(callee) == "bool" {
				// the caller rejects when the predicate is TRUE ("if outstanding(x) { reject }"): a returned
				// comparison rejects when it holds; the predicate's own false-returning branches do not reject
				for i := range sub {
					if sub[i].Ret && len(sub[i].Chain) == len(chain)+1 {
						sub[i].Op = negOp[sub[i].Op]
					} else {
						sub[i].Weak = true
					}
				}
			}
			out = append(out, sub...)
		}
	}
	// calls of local closures that record the first error in the function's error cell: their guards are this
	// function's guards
	for _, b := range fn.Blocks {
		for _, in := range b.Instrs {
			call, ok := in.(*ssa.Call)
			if !ok || call.Call.IsInvoke() {
				continue
			}
			mc, ok := call.Call.Value.(*ssa.MakeClosure)
			if !ok {
				continue
			}
			cf, ok := mc.Fn.(*ssa.Function)
			if !ok || cf.Signature.Results().Len() != 0 {
				continue
			}
			if len(ge.errCellRejections(ge.info(cf))) == 0 {
				continue
			}
			expand(call, b, nil)
		}
	}
	for _, b := range fn.Blocks {
		if len(b.Instrs) == 0 {
			continue
		}
		ifi, ok := b.Instrs[len(b.Instrs)-1].(*ssa.If)
		if !ok {
			continue
		}
		rt, rf := !fi.canAccept[b.Succs[0]], !fi.canAccept[b.Succs[1]]
		rt = rt || fi.rejEdge[[2]*ssa.BasicBlock{b, b.Succs[0]}]
		rf = rf || fi.rejEdge[[2]*ssa.BasicBlock{b, b.Succs[1]}]
		ge.pv.loadCtx = []ssa.Instruction{ifi}
		l, op, r := ge.decompose(ifi.Cond, env)
		g := Guard{Fn: fn, Block: b, Pos: ifi.Cond.Pos(), L: l, Op: op, R: r, Chain: chain, CondV: ifi.Cond, Env: env, IfPos: ifi}
		if !g.Pos.IsValid() {
			g.Pos = ifi.Pos()
		}
		switch {
		case rt && rf:
			continue
		case rt:
		case rf:
			g.Op = negOp[op]
		default:
			g.Weak = true
			if fi.isLoopTest(b) && (strings.HasPrefix(l, "idx") || strings.HasPrefix(l, "(idx") || strings.HasPrefix(l, "ok:next") || l == "next#0") {
				continue // plain loop counter test
			}
		}
		g.Ctx = append(append([]string{}, ctx...), ge.condCtx(fi, b, env)...)
		g.Sites = append(append([]Site{}, sites...), Site{fn, b, env})
		if rows := ge.pv.expandTable(g.L, g.R); len(rows) > 0 {
			// a condition on the rows of a local literal table, inside the loop over it: one guard per row
			for _, row := range rows {
				rg := g
				rg.L, rg.R = row[0], row[1]
				out = append(out, rg)
			}
			continue
		}
		out = append(out, g)
		// "a != b" over small arrays rejects iff some element differs: one disjunct per element
		if g.Op == "!=" {
			if bo, ok := ifi.Cond.(*ssa.BinOp); ok {
				if at, ok := bo.X.Type().Underlying().(*types.Array); ok && at.Len() > 0 && at.Len() <= 8 {
					for k := 0; k < int(at.Len()); k++ {
						eg := g
						eg.Weak = true
						eg.L, eg.R = ge.arrayElemAtom(bo.X, k, env), ge.arrayElemAtom(bo.Y, k, env)
						out = append(out, eg)
					}
				}
			}
		}
		// error-propagating / predicate calls: expand the callee
		if !g.Weak {
			if call := propagatingCall(ifi.Cond); call != nil {
				// "v, ok := f(); if !ok { reject }": only a rejection on the false result delegates to f's guards
				if isBoolExtract(ifi.Cond) && g.Op != "false" {
					call = nil
				}
				if call != nil {
					expandWhenTrue = g.Op == "true"
					expand(call, b, nil)
					expandWhenTrue = false
				}
			}
		}
	}
	// bool functions: "return v" / "return a && v" with a non-constant v rejects iff v is false
	if fi.kind == "bool" {
		isDelegate := func(v ssa.Value) bool {
			for _, d := range fi.delegates {
				if ssa.Value(d) == v {
					return true
				}
			}
			return false
		}
		emit := func(v ssa.Value, at *ssa.BasicBlock, ret *ssa.Return) {
			if _, isConst := v.(*ssa.Const); isConst || isDelegate(v) || len(at.Instrs) == 0 {
				return
			}
			if _, isPhi := v.(*ssa.Phi); isPhi {
				return
			}
			term := at.Instrs[len(at.Instrs)-1]
			ge.pv.loadCtx = []ssa.Instruction{term}
			l, op, r := ge.decompose(v, env)
			g := Guard{Fn: fn, Block: at, Pos: v.Pos(), L: l, Op: negOp[op], R: r, Chain: chain, CondV: v, Env: env, IfPos: term, Ret: true}
			if !g.Pos.IsValid() {
				g.Pos = ret.Pos()
			}
			g.Ctx = append(append([]string{}, ctx...), ge.condCtx(fi, at, env)...)
			g.Sites = append(append([]Site{}, sites...), Site{fn, at, env})
			out = append(out, g)
			if call := propagatingCall(v); call != nil {
				expandWhenTrue = g.Op == "true"
				expand(call, at, nil)
				expandWhenTrue = false
			}
		}
		for _, b := range fn.Blocks {
			if len(b.Instrs) == 0 {
				continue
			}
			ret, ok := b.Instrs[len(b.Instrs)-1].(*ssa.Return)
			if !ok || len(ret.Results) == 0 {
				continue
			}
			rv := ret.Results[len(ret.Results)-1]
			if phi, ok := rv.(*ssa.Phi); ok && phi.Block() == b {
				for i, e := range phi.Edges {
					emit(e, b.Preds[i], ret)
				}
			} else {
				emit(rv, b, ret)
			}
		}
	}
	for _, d := range fi.delegates {
		expand(d, d.Block(), nil)
	}
	return out
}

// propagatingCall: the call whose error/bool result the condition tests.
func propagatingCall(cond ssa.Value) *ssa.Call {
	switch x := cond.(type) {
	case *ssa.UnOp:
		if x.Op == token.NOT {
			return propagatingCall(x.X)
		}
	case *ssa.Call:
		return x
	case *ssa.Extract:
		// v, ok := f(...); if !ok  — the tested value is the last (boolean) result of the call
		if cc, ok := x.Tuple.(*ssa.Call); ok {
			if sig := cc.Call.Signature(); sig != nil && x.Index == sig.Results().Len()-1 {
				if b, ok := sig.Results().At(x.Index).Type().Underlying().(*types.Basic); ok && b.Kind() == types.Bool {
					return cc
				}
			}
		}
	case *ssa.BinOp:
		isNil := func(v ssa.Value) bool { c, ok := v.(*ssa.Const); return ok && c.Value == nil }
		var o ssa.Value
		if isNil(x.Y) {
			o = x.X
		} else if isNil(x.X) {
			o = x.Y
		}
		switch c := o.(type) {
		case *ssa.Call:
			return c
		case *ssa.Extract:
			if cc, ok := c.Tuple.(*ssa.Call); ok {
				return cc
			}
		}
	}
	return nil
}

// ---------- requirements ----------

// A GuardReq is one row of a property's guard table.
type GuardReq struct {
	ID         string
	Entry      string            // entry point, e.g. "consensus.ValidateTransaction"
	L          string            // regexp on the left atom
	Ops        []string          // admissible operators for "rejects iff L op R"
	R          string            // regexp on the right atom ("" for boolean atoms)
	Ctx        []string          // regexps of conditions under which the guard may legitimately be evaluated
	Weak       bool              // a weak (conjunct) guard discharges the requirement
	Clause     string            // the clause of the property statement this row comes from
	MinHits    int               // number of distinct guards (by position) that must satisfy the row (default 1)
	LoopExitOK bool              // the enclosing loop may legitimately stop early before reaching the guard (break)
	All        bool              // search the guards of every function and closure reachable from the entry, not only error-propagating calls
	LFn        func(string) bool // when set, decides the left operand instead of the L pattern (argument-order-insensitive rows)
	RFn        func(string) bool // likewise for the right operand
	Skip       []string          // conditions under which going around the guard is legitimate wherever they are tested (not only when they dominate it)
	While      []string          // conditions that must hold whenever the guard is evaluated (loop-continuation tests that dominate it): the guard must not reject where the property accepts
}

type guardCache struct {
	byEntry map[string][]Guard
}

// AllGuards collects the guards of fn, of every module function it calls (whether or not the
// call's result is tested) and of the closures it defines. Used for void decoders, whose
// rejection idiom is "record the error and return".
func (ge *GuardEngine) AllGuards(fn *ssa.Function, env *Env, depth int, seen map[*ssa.Function]bool) []Guard {
	if fn == nil || len(fn.Blocks) == 0 || depth > ge.Depth || seen[fn] {
		return nil
	}
	seen[fn] = true
	out := ge.Guards(fn, env, nil, nil, 0, map[*ssa.Function]int{})
	for _, an := range fn.AnonFuncs {
		out = append(out, ge.AllGuards(an, env, depth+1, seen)...)
	}
	for _, b := range fn.Blocks {
		for _, in := range b.Instrs {
			call, ok := in.(*ssa.Call)
			if !ok {
				continue
			}
			callee := ge.calleeOf(&call.Call)
			if callee == nil || !ge.p.InModule(callee) || isCoderPrimitive(callee) {
				continue
			}
			ge.pv.loadCtx = []ssa.Instruction{in}
			out = append(out, ge.AllGuards(callee, ge.calleeEnv(callee, &call.Call, env), depth+1, seen)...)
		}
	}
	return out
}

func (ge *GuardEngine) EntryGuards(entry string) ([]Guard, bool) {
	fn := ge.p.Func(entry)
	if fn == nil {
		return nil, false
	}
	return ge.Guards(fn, nil, nil, nil, 0, map[*ssa.Function]int{}), true
}

func opIn(op string, ops []string) bool {
	for _, o := range ops {
		if o == op {
			return true
		}
	}
	return false
}

// CheckReq decides one guard requirement against the collected guards.
func (ge *GuardEngine) CheckReq(c *Ctx, rule string, req GuardReq, guards []Guard) {
	lre, err1 := regexp.Compile(req.L)
	rre, err2 := regexp.Compile(req.R)
	if err1 != nil || err2 != nil {
		c.Undecided(rule, req.ID, "", fmt.Sprintf("bad pattern: %v %v", err1, err2))
		return
	}
	var ctxRes []*regexp.Regexp
	for _, x := range req.Ctx {
		ctxRes = append(ctxRes, regexp.MustCompile(x))
	}
	type cand struct {
		g  Guard
		op string
	}
	var cands []cand
	// integer-equivalent forms: x >= K+1 is x > K, x < K+1 is x <= K
	var extra []Guard
	for _, g := range guards {
		if k, ok := constOf(g.R); ok && (g.Op == ">=" || g.Op == "<") {
			h := g
			h.R = fmt.Sprintf("const:%d", k-1)
			if g.Op == ">=" {
				h.Op = ">"
			} else {
				h.Op = "<="
			}
			extra = append(extra, h)
		} else if k, ok := constOf(g.R); ok && (g.Op == ">" || g.Op == "<=") {
			h := g
			h.R = fmt.Sprintf("const:%d", k+1)
			if g.Op == ">" {
				h.Op = ">="
			} else {
				h.Op = "<"
			}
			extra = append(extra, h)
		}
	}
	guards = append(append([]Guard{}, guards...), extra...)
	matchL := lre.MatchString
	if req.LFn != nil {
		matchL = req.LFn
	}
	matchR := rre.MatchString
	if req.RFn != nil {
		matchR = req.RFn
	}
	for _, g := range guards {
		if matchL(g.L) && matchR(g.R) {
			cands = append(cands, cand{g, g.Op})
		} else if req.R != "" && matchL(g.R) && matchR(g.L) {
			cands = append(cands, cand{g, flipOp[g.Op]})
		} else if req.LFn != nil || req.RFn != nil {
			continue
		} else if len(ge.pv.expansions) > 0 {
			// the operands may sit behind a small extracted helper: retry with its body in place of the call
			xl, xr := ge.pv.ExpandAll(g.L, req.L, req.R), ge.pv.ExpandAll(g.R, req.L, req.R)
			if xl == g.L && xr == g.R {
				continue
			}
			if lre.MatchString(xl) && rre.MatchString(xr) {
				cands = append(cands, cand{g, g.Op})
			} else if req.R != "" && lre.MatchString(xr) && rre.MatchString(xl) {
				cands = append(cands, cand{g, flipOp[g.Op]})
			}
		}
	}
	if len(cands) == 0 {
		c.Fail(rule, req.ID, req.Entry, fmt.Sprintf("required guard not found on any path from %s: rejects iff /%s/ %v /%s/ — %s", req.Entry, req.L, req.Ops, req.R, req.Clause))
		return
	}
	// a While row is also a statement about over-rejection: EVERY guard of that form must sit behind the condition
	if len(req.While) > 0 {
		for _, cd := range cands {
			if !opIn(cd.op, req.Ops) {
				continue
			}
			if miss := ge.missingWhile(cd.g, req.While); miss != "" {
				c.Fail(rule, req.ID, c.P.Pos(cd.g.Pos), fmt.Sprintf("the guard (rejects iff %s %s %s) is evaluated, and can reject, even when not /%s/ — %s", cd.g.L, cd.g.Op, cd.g.R, miss, req.Clause))
				return
			}
		}
	}
	var problems []string
	type splitCand struct {
		g           Guard
		desc, where string
	}
	var splitCands []splitCand
	hits := map[string]bool{}
	okDesc, okWhere := "", ""
	for _, cd := range cands {
		where := c.P.Pos(cd.g.Pos)
		if !cd.g.Pos.IsValid() {
			where = fmt.Sprintf("%s#b%d", FuncName(cd.g.Fn), cd.g.Block.Index)
		}
		if !opIn(cd.op, req.Ops) {
			problems = append(problems, fmt.Sprintf("%s: operator is %q (rejects iff %s %s %s), the property requires one of %v", where, cd.op, cd.g.L, cd.g.Op, cd.g.R, req.Ops))
			continue
		}
		if cd.g.Weak && !req.Weak {
			problems = append(problems, fmt.Sprintf("%s: the comparison does not by itself lead to rejection (only in conjunction with other conditions)", where))
			continue
		}
		if why := signedCompareOfUnsigned(cd.g.CondV); why != "" && (opIn("<", req.Ops) || opIn(">", req.Ops) || opIn("<=", req.Ops) || opIn(">=", req.Ops)) {
			problems = append(problems, fmt.Sprintf("%s: %s", where, why))
			continue
		}
		if miss := ge.missingWhile(cd.g, req.While); miss != "" {
			problems = append(problems, fmt.Sprintf("%s: the guard is evaluated (and can reject) even when not /%s/", where, miss))
			continue
		}
		ge.skipRes = nil
		for _, sk := range req.Skip {
			ge.skipRes = append(ge.skipRes, regexp.MustCompile(sk))
		}
		why := ge.siteProblemsOpt(cd.g, ctxRes, req.LoopExitOK)
		ge.skipRes = nil
		if why != "" {
			problems = append(problems, fmt.Sprintf("%s: %s", where, why))
			// remember candidates that are fine except for ONE unexpected condition: two of them under complementary
			// conditions cover both cases (a fast path and a slow path each doing the check)
			const pfx = "guard can be bypassed — it is only evaluated when "
			if strings.HasPrefix(why, pfx) && !strings.Contains(strings.TrimPrefix(why, pfx), " && ") {
				splitCands = append(splitCands, splitCand{cd.g, strings.TrimPrefix(why, pfx), where})
			}
			continue
		}
		hits[where] = true
		okDesc = cd.g.String()
		okWhere = where
		if len(hits) >= max(req.MinHits, 1) {
			c.OK(rule, req.ID, okWhere, okDesc+"  ["+req.Clause+"]")
			return
		}
	}
	// case split: two candidates whose only unexpected conditions are each other's negation
	for i := 0; i < len(splitCands) && max(req.MinHits, 1) == 1; i++ {
		for j := i + 1; j < len(splitCands); j++ {
			a, b := splitCands[i], splitCands[j]
			if !negatedDesc(a.desc, b.desc) {
				continue
			}
			okBoth := true
			for _, sc := range []splitCand{a, b} {
				extra := append(append([]*regexp.Regexp{}, ctxRes...), regexp.MustCompile("^"+regexp.QuoteMeta(sc.desc)+"$"))
				if ge.siteProblemsOpt(sc.g, extra, req.LoopExitOK) != "" {
					okBoth = false
				}
			}
			if okBoth {
				c.OK(rule, req.ID, a.where, a.g.String()+"  (where "+a.desc+") ; "+b.g.String()+"  (where "+b.desc+")  ["+req.Clause+"]")
				return
			}
		}
	}
	if len(hits) > 0 {
		problems = append(problems, fmt.Sprintf("only %d distinct guard(s) satisfy the row, %d required", len(hits), req.MinHits))
	}
	sort.Strings(problems)
	c.Fail(rule, req.ID, c.P.Pos(cands[0].g.Pos), strings.Join(problems, " | ")+" — "+req.Clause)
}

func mustRe(s string) *regexp.Regexp { return regexp.MustCompile(s) }

func joinShort(as []string) string {
	s := strings.Join(as, " | ")
	if len(s) > 300 {
		s = s[:300] + "…"
	}
	return s
}

// ReturnAtoms gives the provenance atoms of result number idx at every return of fn.
func (ge *GuardEngine) ReturnAtoms(fn *ssa.Function, idx int) []string {
	var out []string
	for _, b := range fn.Blocks {
		if len(b.Instrs) == 0 {
			continue
		}
		if r, ok := b.Instrs[len(b.Instrs)-1].(*ssa.Return); ok && idx < len(r.Results) {
			out = append(out, ge.pv.Atom(r.Results[idx], nil))
		}
	}
	return out
}

// fieldStores finds the stores in fn whose address is a field with the given name.
func fieldStores(fn *ssa.Function, field string) []*ssa.Store {
	var out []*ssa.Store
	for _, b := range fn.Blocks {
		for _, in := range b.Instrs {
			st, ok := in.(*ssa.Store)
			if !ok {
				continue
			}
			fa, ok := st.Addr.(*ssa.FieldAddr)
			if !ok {
				continue
			}
			s, _ := fa.X.Type().Underlying().(*types.Pointer).Elem().Underlying().(*types.Struct)
			if s != nil && fa.Field < s.NumFields() && s.Field(fa.Field).Name() == field {
				if selfCopyThroughLiteral(fn, st, fa) {
					continue // "*p = T{F: p.F, …}": F keeps its value
				}
				out = append(out, st)
			}
		}
	}
	return out
}

// ctxAllowed decides whether a dominating condition is a legitimate context of a guard/call whose
// operands are given: listed patterns; a successful type assertion whose value the operands use;
// a failed type assertion on a value for which a successful assertion is legitimate (other cases
// of the same type switch).
var decoderOKRe = regexp.MustCompile(`^call \(types\.Decoder\)\.Err\(.*\) == nil$`)

// an existence flag: a phi one of whose alternatives is a boolean constant
var flagPhiRe = regexp.MustCompile(`phi\((?:[^()]*\|)?const:(?:true|false)[|)]`)

var nonEmptyRe = regexp.MustCompile(`^len\((.+)\) (?:!=|>) const:0$`)

func ctxAllowed(descs []string, allowed []*regexp.Regexp, operands []string, perElem bool) []bool {
	ok := make([]bool, len(descs))
	posOK := map[string]bool{} // asserted expressions X with a legitimate positive assertion
	assertX := func(d string) (string, bool, bool) {
		if !strings.HasPrefix(d, "ok:") {
			return "", false, false
		}
		body := strings.TrimPrefix(d, "ok:")
		pos := strings.HasSuffix(body, " is true")
		body = strings.TrimSuffix(strings.TrimSuffix(body, " is true"), " is false")
		i := strings.LastIndex(body, ".(")
		if i < 0 {
			return "", false, false
		}
		return body[:i], pos, true
	}
	for i, d := range descs {
		for _, re := range allowed {
			if re.MatchString(d) {
				ok[i] = true
			}
		}
		// "the decoder has not failed yet": on the other side the input is already rejected (sticky error)
		if decoderOKRe.MatchString(d) {
			ok[i] = true
		}
		if x, pos, isAssert := assertX(d); isAssert && pos {
			av := strings.TrimSuffix(strings.TrimPrefix(d, "ok:"), " is true")
			for _, o := range operands {
				if strings.Contains(o, av) {
					ok[i] = true
				}
			}
			if ok[i] {
				posOK[x] = true
			}
		}
	}
	// "len(X) is not zero" is implied by any legitimate context about an element X[*] (the obligation only
	// exists for such an element), and by an operand naming X[*] when the site is evaluated once per element
	// (perElem: it sits in a loop; an existence flag "phi(false|true|…)" tested after the loop does not count)
	for i, d := range descs {
		m := nonEmptyRe.FindStringSubmatch(d)
		if ok[i] || m == nil {
			continue
		}
		elem := m[1] + "[*]"
		for _, o := range operands {
			if perElem && strings.Contains(o, elem) && !flagPhiRe.MatchString(o) {
				ok[i] = true
			}
		}
		for j, dj := range descs {
			if j != i && ok[j] && strings.Contains(dj, elem) {
				ok[i] = true
			}
		}
	}
	for i, d := range descs {
		if x, pos, isAssert := assertX(d); isAssert && !pos {
			if posOK[x] {
				ok[i] = true
			}
			for _, o := range operands {
				if strings.Contains(o, x+".(") {
					ok[i] = true // the operands use another case of the same type switch
				}
			}
		}
	}
	return ok
}

// siteProblems checks, at every site of the guard's call chain, that (1) no unexpected condition
// dominates the site and (2) no accepting path through the enclosing scopes avoids the site.
func (ge *GuardEngine) siteProblems(g Guard, allowed []*regexp.Regexp) string {
	return ge.siteProblemsOpt(g, allowed, false)
}

func (ge *GuardEngine) siteProblemsOpt(g Guard, allowed []*regexp.Regexp, loopExitOK bool) string {
	operands := []string{g.L, g.R}
	for _, st := range g.Sites {
		fi := ge.info(st.Fn)
		edges := ge.ctxEdges(fi, st.Block, st.Env)
		var descs []string
		for _, e := range edges {
			descs = append(descs, e.desc)
		}
		perElem := false
		for _, s2 := range g.Sites {
			if len(ge.info(s2.Fn).loopsOf[s2.Block]) > 0 {
				perElem = true
			}
		}
		okv := ctxAllowed(descs, allowed, operands, perElem)
		legit := map[[2]int]bool{} // (block index, successor number) edges that legitimately bypass the site
		var bad []string
		for i, e := range edges {
			if okv[i] {
				legit[[2]int{e.d.Index, 1 - e.edge}] = true
			} else {
				bad = append(bad, e.desc)
			}
		}
		if len(bad) > 0 {
			return "guard can be bypassed — it is only evaluated when " + strings.Join(bad, " && ")
		}
		// vacuity edges: a branch taken only when a collection is empty is a legitimate way around a guard that
		// concerns an element of that collection (same criterion as the non-emptiness contexts in ctxAllowed)
		relevant := func(x string) bool {
			elem := x + "[*]"
			for _, o := range operands {
				if perElem && strings.Contains(o, elem) && !flagPhiRe.MatchString(o) {
					return true
				}
			}
			for i, d := range descs {
				if okv[i] && strings.Contains(d, elem) {
					return true
				}
			}
			return false
		}
		for _, vb := range st.Fn.Blocks {
			if len(vb.Instrs) == 0 || len(vb.Succs) != 2 {
				continue
			}
			vif, isIf := vb.Instrs[len(vb.Instrs)-1].(*ssa.If)
			if !isIf {
				continue
			}
			saved := ge.pv.loadCtx
			ge.pv.loadCtx = []ssa.Instruction{vif}
			l, op, r := ge.decompose(vif.Cond, st.Env)
			ge.pv.loadCtx = saved
			if len(ge.skipRes) > 0 {
				for e := 0; e < 2; e++ {
					o := op
					if e == 1 {
						o = negOp[op]
					}
					d := l + " " + o + " " + r
					if o == "true" || o == "false" {
						d = l + " is " + o
					}
					for _, re := range ge.skipRes {
						if re.MatchString(d) {
							legit[[2]int{vb.Index, e}] = true
						}
					}
				}
			}
			if r != "const:0" || !strings.HasPrefix(l, "len(") || !strings.HasSuffix(l, ")") {
				continue
			}
			emptyEdge := -1
			switch op {
			case "==", "<=":
				emptyEdge = 0
			case "!=", ">":
				emptyEdge = 1
			}
			if emptyEdge >= 0 && relevant(l[4:len(l)-1]) {
				legit[[2]int{vb.Index, emptyEdge}] = true
			}
		}
		if g.Weak && st.Block == g.Block && st.Fn == g.Fn {
			continue // a conjunct is by construction not on every path; its context was checked above
		}
		if path := ge.bypassPath(fi, st.Block, legit); path != "" && !(loopExitOK && strings.HasSuffix(path, "(loop left early)")) {
			return "guard can be bypassed — an accepting path avoids it: " + path
		}
	}
	return ""
}

// bypassPath searches, scope by scope (innermost loop first, then enclosing loops, then the
// function), for a path that completes the scope normally without executing block g.
func (ge *GuardEngine) bypassPath(fi *fnInfo, g *ssa.BasicBlock, legit map[[2]int]bool) string {
	fn := fi.fn
	// loops containing g, innermost (smallest body) first
	hs := append([]*ssa.BasicBlock{}, fi.loopsOf[g]...)
	sort.Slice(hs, func(i, j int) bool { return len(fi.loopBody[hs[i]]) < len(fi.loopBody[hs[j]]) })
	avoid := g
	isAcceptingReturn := func(b *ssa.BasicBlock) bool {
		if len(b.Instrs) == 0 {
			return false
		}
		_, isRet := b.Instrs[len(b.Instrs)-1].(*ssa.Return)
		return isRet && fi.canAccept[b]
	}
	search := func(starts []*ssa.BasicBlock, body map[*ssa.BasicBlock]bool, header *ssa.BasicBlock) string {
		type item struct {
			b    *ssa.BasicBlock
			from *item
		}
		seen := map[*ssa.BasicBlock]bool{avoid: true}
		var q []*item
		for _, s := range starts {
			if s != avoid {
				q = append(q, &item{s, nil})
			}
		}
		render := func(it *item) string {
			var parts []string
			for x := it; x != nil; x = x.from {
				if len(x.b.Instrs) > 0 {
					if ifi, ok := x.b.Instrs[len(x.b.Instrs)-1].(*ssa.If); ok {
						pos := ifi.Cond.Pos()
						if pos.IsValid() {
							parts = append(parts, ge.p.Pos(pos))
						}
					}
				}
			}
			for i, j := 0, len(parts)-1; i < j; i, j = i+1, j-1 {
				parts[i], parts[j] = parts[j], parts[i]
			}
			if len(parts) > 4 {
				parts = parts[len(parts)-4:]
			}
			return "branches at " + strings.Join(parts, " -> ")
		}
		for len(q) > 0 {
			it := q[0]
			q = q[1:]
			b := it.b
			if seen[b] {
				continue
			}
			seen[b] = true
			if header != nil {
				if b == header {
					return render(it) + " (iteration completes)"
				}
				if !body[b] {
					if fi.canAccept[b] {
						return render(it) + " (loop left early)"
					}
					continue
				}
			} else if isAcceptingReturn(b) {
				return render(it) + " -> " + ge.p.Pos(b.Instrs[len(b.Instrs)-1].Pos())
			}
			for i, sc := range b.Succs {
				if legit[[2]int{b.Index, i}] {
					continue
				}
				if fi.rejEdge[[2]*ssa.BasicBlock{b, sc}] {
					continue // this edge makes a bool function return false: not an accepting path
				}
				if !fi.canAccept[sc] && !(header != nil && sc == header) {
					continue
				}
				q = append(q, &item{sc, it})
			}
		}
		return ""
	}
	for _, h := range hs {
		body := fi.loopBody[h]
		var starts []*ssa.BasicBlock
		for i, sc := range h.Succs {
			if body[sc] && sc != h && !legit[[2]int{h.Index, i}] {
				starts = append(starts, sc)
			}
		}
		if p := search(starts, body, h); p != "" {
			return p
		}
		// the guard speaks about every element only if the walk reaches every element: an accepting exit out of
		// the loop body other than the loop's own termination test skips the remaining ones
		if p := ge.earlyAcceptingExit(fi, h, legit); p != "" {
			return p + " (loop left early)"
		}
		avoid = h
	}
	if len(fn.Blocks) > 0 && fn.Blocks[0] != avoid {
		if p := search([]*ssa.BasicBlock{fn.Blocks[0]}, nil, nil); p != "" {
			return p
		}
	}
	return ""
}

// earlyAcceptingExit: an edge from inside the body of the loop headed by h (not from the header itself) to a
// block outside it from which the function can still accept.
func (ge *GuardEngine) earlyAcceptingExit(fi *fnInfo, h *ssa.BasicBlock, legit map[[2]int]bool) string {
	body := fi.loopBody[h]
	var bs []*ssa.BasicBlock
	for b := range body {
		bs = append(bs, b)
	}
	sort.Slice(bs, func(i, j int) bool { return bs[i].Index < bs[j].Index })
	for _, b := range bs {
		if b == h {
			continue
		}
		for i, sc := range b.Succs {
			if body[sc] || !fi.canAccept[sc] || legit[[2]int{b.Index, i}] || fi.rejEdge[[2]*ssa.BasicBlock{b, sc}] {
				continue
			}
			pos := ""
			if len(b.Instrs) > 0 {
				if ifi, ok := b.Instrs[len(b.Instrs)-1].(*ssa.If); ok && ifi.Cond.Pos().IsValid() {
					pos = ge.p.Pos(ifi.Cond.Pos())
				} else if p := b.Instrs[len(b.Instrs)-1].Pos(); p.IsValid() {
					pos = ge.p.Pos(p)
				}
			}
			return "the loop can be left towards acceptance from inside its body at " + pos
		}
	}
	return ""
}

func isBoolExtract(v ssa.Value) bool {
	for {
		if u, ok := v.(*ssa.UnOp); ok && u.Op == token.NOT {
			v = u.X
			continue
		}
		break
	}
	_, ok := v.(*ssa.Extract)
	return ok
}

// arrayElemAtom names element k of an array value: for a local array written only through constant
// indices (a composite literal) the single value stored there, otherwise "<array>[k]".
func (ge *GuardEngine) arrayElemAtom(v ssa.Value, k int, env *Env) string {
	fallback := fmt.Sprintf("%s[%d]", ge.pv.Atom(v, env), k)
	ld, ok := v.(*ssa.UnOp)
	if !ok || ld.Op != token.MUL {
		return fallback
	}
	al, ok := ld.X.(*ssa.Alloc)
	if !ok || al.Referrers() == nil {
		return fallback
	}
	var val ssa.Value
	n := 0
	for _, ref := range *al.Referrers() {
		switch r := ref.(type) {
		case *ssa.IndexAddr:
			kc, isConst := r.Index.(*ssa.Const)
			if !isConst || kc.Value == nil {
				return fallback // written or read through a computed index
			}
			idx, _ := constant.Int64Val(kc.Value)
			if r.Referrers() == nil {
				return fallback
			}
			for _, rr := range *r.Referrers() {
				st, isStore := rr.(*ssa.Store)
				if !isStore || st.Addr != ssa.Value(r) {
					return fallback
				}
				if int(idx) == k {
					val = st.Val
					n++
				}
			}
		case *ssa.UnOp:
		case *ssa.DebugRef:
		default:
			return fallback
		}
	}
	if n == 1 {
		return ge.pv.Atom(val, env)
	}
	if n == 0 {
		return "const:0"
	}
	return fallback
}

// callArgSet: atom is a call of a module closure or function whose top-level arguments, in any order,
// are matched one-to-one by the required matchers; arguments left over must match one of optional.
func callArgSet(atom string, required []func(string) bool, optional []*regexp.Regexp) bool {
	if !strings.HasPrefix(atom, "call ") || strings.HasPrefix(atom, "call invoke ") {
		return false
	}
	args := callArgs(atom)
	if len(args) < len(required) {
		return false
	}
	used := make([]bool, len(args))
	for _, m := range required {
		found := false
		for i, a := range args {
			if !used[i] && m(a) {
				used[i], found = true, true
				break
			}
		}
		if !found {
			return false
		}
	}
	for i, a := range args {
		if used[i] {
			continue
		}
		ok := false
		for _, re := range optional {
			if re.MatchString(a) {
				ok = true
			}
		}
		if !ok {
			return false
		}
	}
	return true
}

func reMatcher(p string) func(string) bool {
	re := regexp.MustCompile(pat(p))
	return re.MatchString
}

// selfCopyThroughLiteral: st initialises field F of a local composite literal with p.F, and the literal is then
// stored whole into *p: the field is carried over, not written.
func selfCopyThroughLiteral(fn *ssa.Function, st *ssa.Store, fa *ssa.FieldAddr) bool {
	lit, ok := fa.X.(*ssa.Alloc)
	if !ok {
		return false
	}
	ld, ok := st.Val.(*ssa.UnOp)
	if !ok || ld.Op != token.MUL {
		return false
	}
	src, ok := ld.X.(*ssa.FieldAddr)
	if !ok || src.Field != fa.Field || lit.Referrers() == nil {
		return false
	}
	for _, r := range *lit.Referrers() {
		whole, ok := r.(*ssa.UnOp)
		if !ok || whole.Op != token.MUL || whole.Referrers() == nil {
			continue
		}
		for _, rr := range *whole.Referrers() {
			if ws, ok := rr.(*ssa.Store); ok && ws.Val == ssa.Value(whole) && ws.Addr == src.X {
				return true
			}
		}
	}
	return false
}

// negatedDesc: a and b are the same comparison with negated operators ("x == k" / "x != k", "v is true" / "v is false").
func negatedDesc(a, b string) bool {
	for _, ops := range [][2]string{{" == ", " != "}, {" < ", " >= "}, {" <= ", " > "}, {" is true", " is false"}} {
		for _, o := range [][2]string{{ops[0], ops[1]}, {ops[1], ops[0]}} {
			if i := strings.LastIndex(a, o[0]); i >= 0 {
				if a[:i]+o[1]+a[i+len(o[0]):] == b {
					return true
				}
			}
		}
	}
	return false
}

// signedCompareOfUnsigned: an ordering comparison one of whose operands is a 64-bit unsigned value converted to a
// signed type ("int64(n) > limit"): values of 2^63 and above compare as negative, so the bound does not bound them.
func signedCompareOfUnsigned(v ssa.Value) string {
	for {
		u, ok := v.(*ssa.UnOp)
		if !ok || u.Op != token.NOT {
			break
		}
		v = u.X
	}
	bo, ok := v.(*ssa.BinOp)
	if !ok {
		return ""
	}
	switch bo.Op {
	case token.LSS, token.LEQ, token.GTR, token.GEQ:
	default:
		return ""
	}
	for _, opnd := range []ssa.Value{bo.X, bo.Y} {
		cv, ok := opnd.(*ssa.Convert)
		if !ok {
			continue
		}
		from, ok1 := cv.X.Type().Underlying().(*types.Basic)
		to, ok2 := cv.Type().Underlying().(*types.Basic)
		if !ok1 || !ok2 {
			continue
		}
		if from.Info()&types.IsUnsigned != 0 && to.Info()&types.IsInteger != 0 && to.Info()&types.IsUnsigned == 0 {
			if from.Kind() == types.Uint64 || from.Kind() == types.Uint || from.Kind() == types.Uintptr {
				if _, isConst := cv.X.(*ssa.Const); !isConst {
					return "the bound is compared in the signed domain (" + from.Name() + " converted to " + to.Name() + "): values of 2^63 and above compare as negative and pass"
				}
			}
		}
	}
	return ""
}
