package main

import (
	"fmt"
	"go/ast"
	"go/types"
	"regexp"
	"sort"
	"strings"
)

func init() { register("C17", runC17) }

const (
	pR  = "RenterOutput.Value"
	pH  = "HostOutput.Value"
	pM  = "MissedHostValue"
	pTC = "TotalCollateral"
)

func runC17(c *Ctx) {
	c.Explain("Decides the algebraic identities of the rhp/v4 contract constructors by abstract interpretation of their loop-free bodies over field-sensitive linear forms (sa/symx.go): Currency.Add/Sub are linear, products and quotients are opaque atoms, helpers are inlined, every if/else path is enumerated. Per path: (pay) PayWithContract moves exactly usage.RenterCost() from the renter to the host output, lowers MissedHostValue by exactly usage.RiskedCollateral, leaves TotalCollateral, keys, heights, size and addresses untouched, bumps the revision number, clears signatures, performs no store on its error paths, and each of its subtractions is dominated by the matching insufficient-funds guard; RenterCost sums every payable Usage field. (revise) each ReviseFor* returns a contract whose value fields differ from its input exactly by PayWithContract applied to the Usage it reports. (split) RenewContract, RefreshContractPartialRollover and RefreshContractFullRollover split the old outputs exactly: final + rollover = old value for renter and host, final outputs keep the old addresses, the new contract keeps both public keys and the renter address, starts at revision 0 with cleared signatures. (invariant) NewContract and every renewal/refresh path yield MissedHostValue <= TotalCollateral <= HostOutput.Value (what consensus checks on the valid/missed host values), given the same of the input. (cost) ContractCost, RenewalCost and RefreshCost satisfy renter + host + rollovers = new renter output + new host output + tax + miner fee as an identity; composed with each constructor path, no subtraction in the cost function or the constructor can underflow (rollover never exceeds what the new contract costs): every a.Sub(b) has a-b in the cone of non-negative atoms, the input invariant and the path's own comparison facts. (v3) PayByContract moves exactly amount between the valid and missed renter/host payouts after both funds guards.")
	c.NotCovered("acceptance of the produced transactions by consensus validation end to end (signatures, heights, proof windows)", "v1-era tax inversion in rhp/v2 and rhp/v3 contract formation (taxAdjustedPayout: numeric fixed point)", "uint64 wrap-around of heights and sizes inside the constructors (only Filesize <= Capacity is decided)", "that the Validate bounds are sufficient for consensus acceptance (only their presence, operands and operators are decided)")
	si := &symInterp{p: c.P}
	c17Pay(c, si)
	c17Revise(c, si)
	c17NewContract(c, si)
	c17Renewals(c, si)
	c17Costs(c, si)
	c17PayByContract(c, si)
	c17Capacity(c, si)
	c17ValidateBounds(c)
}

// c17Capacity: Filesize <= Capacity (a consensus rule for v2 contracts) is preserved by every constructor.
// For appends the witness is the lemma K*min(a, u/K) <= u with u = Capacity - Filesize of the input.
func c17Capacity(c *Ctx, si *symInterp) {
	check := func(inst, where string, out *SV, prefix string, fcName string, s *symState) {
		d := linOf(out, prefix+"Capacity").addScaled(linOf(out, prefix+"Filesize"), -1)
		u := Lin{fcName + ".Capacity": 1, fcName + ".Filesize": -1}
		gens := []Lin{u}
		// lemma instances with K constant and q = (u)/(K), the number of whole K-byte units in the slack u:
		//   K*q <= u            and            K*min(X, q) <= u
		quo := "(" + u.String() + ")/("
		ks := map[int64]bool{}
		note := func(a string) {
			i := strings.LastIndex(a, quo)
			if i < 0 {
				return
			}
			rest := a[i+len(quo):]
			j := strings.Index(rest, ")")
			if j < 0 {
				return
			}
			var k int64
			if _, err := fmt.Sscanf(rest[:j], "%d", &k); err != nil || k <= 0 {
				return
			}
			ks[k] = true
			q := quo + rest[:j] + ")"
			gens = append(gens, Lin{fcName + ".Capacity": 1, fcName + ".Filesize": -1, q: -k})
			if strings.HasPrefix(a, "min(") && strings.HasSuffix(a, ", "+q+")") {
				gens = append(gens, Lin{fcName + ".Capacity": 1, fcName + ".Filesize": -1, a: -k})
			}
		}
		for a := range d {
			note(a)
		}
		if s != nil {
			for _, f := range s.facts {
				for a := range f.A {
					note(a)
				}
				for a := range f.B {
					note(a)
				}
			}
			for _, g := range factGens(s) {
				gens = append(gens, g)
				for k := range ks { // a fact about unit counts, scaled to bytes
					gens = append(gens, Lin{}.addScaled(g, k))
				}
			}
		}
		ok := inCone(d, gens)
		c.Check(ok, "capacity", inst, where, ifElse(ok, "Filesize <= Capacity is preserved (capacity - filesize = "+shortLin(d)+")", "the produced contract can have Filesize > Capacity, which consensus rejects: capacity - filesize = "+d.String()+" is not witnessed non-negative from the input's Capacity >= Filesize"))
	}
	p := c.P.Pkg("rhp/v4")
	if p == nil {
		c.Undecided("capacity", "rhp/v4", "", "package does not load")
		return
	}
	for _, n := range p.Types.Scope().Names() {
		if !strings.HasPrefix(n, "ReviseFor") {
			continue
		}
		states, fr, fd, ok := si.RunFunc("rhp/v4." + n)
		if !ok {
			continue
		}
		names := paramNames(fd)
		_ = fr
		np := 0
		for _, s := range states {
			if s.panics || len(s.ret) != 3 || s.ret[2].Nil != 1 || len(s.unsup) > 0 {
				continue
			}
			np++
			check(fmt.Sprintf("%s#%d", n, np), c.P.Pos(fd.Pos()), s.ret[0], "", names[0], s)
		}
	}
	for _, rp := range c17RenewalPaths {
		check(fmt.Sprintf("%s#%d", rp.fn, rp.idx), rp.where, rp.ren, "NewContract.", rp.fcIn, rp.state)
	}
	if states, _, fd, ok := si.RunFunc("rhp/v4.NewContract"); ok && len(states) == 1 && len(states[0].ret) == 2 {
		check("NewContract", c.P.Pos(fd.Pos()), states[0].ret[0], "", "none", states[0])
	}
	c.Min("capacity", 12)
}

// c17ValidateBounds: the request Validate methods that gate the constructors reject out-of-range heights,
// durations, allowances and collateral, and the minimum proof height is derived from the later of the
// chain tip and the price table's tip.
func c17ValidateBounds(c *Ctx) {
	ge := NewGuardEngine(c.P, c.Depth+2)
	form, renew, refresh := "rhp/v4.(*RPCFormContractRequest).Validate", "rhp/v4.(*RPCRenewContractRequest).Validate", "rhp/v4.(*RPCRefreshContractRequest).Validate"
	F, N, R := "{rhp/v4.RPCFormContractRequest}", "{rhp/v4.RPCRenewContractRequest}", "{rhp/v4.RPCRefreshContractRequest}"
	mph := func(req string) string { return "call rhp/v4.minProofHeight(" + req + ".Prices, {types.ChainIndex})" }
	any := "…"
	tab := []GuardReq{
		req("form:proof-height-min", form, F+".Contract.ProofHeight", opLT, mph(F), "a proof height earlier than tip + minimum duration is rejected", any),
		req("form:proof-height-max", form, F+".Contract.ProofHeight", opGT, "const:…", "proof height + window must not overflow", any),
		req("form:duration-max", form, "(("+F+".Contract.ProofHeight + const:…) - "+F+".Prices.TipHeight)", opGT, "{uint64}", "contract duration is bounded by the host's maximum", any),
		req("form:allowance-nonzero", form, "call (types.Currency).IsZero("+F+".Contract.Allowance)", opT, "", "allowance must be positive", any),
		req("form:collateral-max", form, F+".Contract.Collateral", opGT, "{types.Currency}", "collateral is bounded by the host's maximum", any),
		req("form:allowance-min", form, F+".Contract.Allowance", opLT, "call rhp/v4.MinRenterAllowance("+F+".Prices, "+F+".Contract.Collateral)", "allowance must justify the collateral", any),
		req("renew:after-existing", renew, N+".Renewal.ProofHeight", opLE, "{types.V2FileContract}.ProofHeight", "the renewed proof height must move forward", any),
		req("renew:proof-height-min", renew, N+".Renewal.ProofHeight", opLT, mph(N), "a proof height earlier than tip + minimum duration is rejected", any),
		req("renew:proof-height-max", renew, N+".Renewal.ProofHeight", opGT, "const:…", "proof height + window must not overflow", any),
		req("renew:duration-max", renew, "(("+N+".Renewal.ProofHeight + const:…) - "+N+".Prices.TipHeight)", opGT, "{uint64}", "renewal duration is bounded", any),
		req("renew:allowance-nonzero", renew, "call (types.Currency).IsZero("+N+".Renewal.Allowance)", opT, "", "allowance must be positive", any),
		req("renew:collateral-max", renew, "call (types.Currency).Add("+N+".Renewal.Collateral, …)", opGT, "{types.Currency}", "requested plus risked collateral is bounded by the host's maximum", any),
		req("renew:allowance-min", renew, N+".Renewal.Allowance", opLT, "call rhp/v4.MinRenterAllowance("+N+".Prices, "+N+".Renewal.Collateral)", "allowance must justify the collateral", any),
		req("refresh:not-near-window", refresh, "{types.V2FileContract}.ProofHeight", opLE, mph(R), "a contract too close to its proof window cannot be refreshed", any),
		req("refresh:allowance-nonzero", refresh, "call (types.Currency).IsZero("+R+".Refresh.Allowance)", opT, "", "allowance must be positive", any),
		req("refresh:allowance-min", refresh, R+".Refresh.Allowance", opLT, "call rhp/v4.MinRenterAllowance("+R+".Prices, "+R+".Refresh.Collateral)", "allowance must justify the collateral", any),
		req("refresh:collateral-max", refresh, "phi(…"+R+".Refresh.Collateral…)", opGT, "{types.Currency}", "total host collateral is bounded by the host's maximum", any),
	}
	// sector indices and ranges against the contract's sector count (the constructors subtract / index by them)
	free, roots := "rhp/v4.(*RPCFreeSectorsRequest).Validate", "rhp/v4.(*RPCSectorRootsRequest).Validate"
	sectorsRe := regexp.MustCompile(pat("…{types.V2FileContract}…"))
	idxRe := regexp.MustCompile(`^(\{rhp/v4\.RPCFreeSectorsRequest\}\.Indices|call slices\.Clone\[.*\]\(\{rhp/v4\.RPCFreeSectorsRequest\}\.Indices\))\[\*\]$`)
	fr := req("free:index-in-range", free, "…", opGE, "…", "EVERY freed index must be below the contract's sector count (the revision shrinks the file by the number of indices)", any)
	fr.LFn = idxRe.MatchString
	fr.RFn = sectorsRe.MatchString
	tab = append(tab, fr,
		req("roots:offset-in-range", roots, "{rhp/v4.RPCSectorRootsRequest}.Offset", opGT, "…{types.V2FileContract}…", "the requested range must start inside the contract", any),
		req("roots:length-in-range", roots, "{rhp/v4.RPCSectorRootsRequest}.Length", opGT, "(…{types.V2FileContract}… - {rhp/v4.RPCSectorRootsRequest}.Offset)", "the requested range must end inside the contract", any))
	runGuardTable(c, "validate-bounds", ge, tab)
	{
		si := &symInterp{p: c.P}
		states, fr, fd, ok := si.RunFunc("rhp/v4.minProofHeight")
		if !ok {
			c.Undecided("validate-bounds", "minProofHeight:later-tip", "", "anchor does not resolve")
		} else {
			where := c.P.Pos(fd.Pos())
			var tipName, hpName string
			for _, n := range paramNames(fd) {
				switch typeName(paramObj(fd, fr.info, n).Type()) {
				case "types.ChainIndex":
					tipName = n
				case "rhp/v4.HostPrices":
					hpName = n
				}
			}
			A, B := tipName+".Height", hpName+".TipHeight"
			var bad []string
			nret := 0
			for _, s := range states {
				if s.panics || len(s.ret) != 1 || s.ret[0].L == nil {
					continue
				}
				if len(s.unsup) > 0 {
					bad = append(bad, "outside the symbolic domain: "+strings.Join(s.unsup, "; "))
					continue
				}
				r := s.ret[0].L.clone()
				delete(r, "")
				if len(r) == 1 {
					for a := range r {
						if strings.HasPrefix(a, "const:") { // saturated result
							r = Lin{}
						}
					}
				}
				if len(r) == 0 {
					continue // the saturating constant
				}
				nret++
				okPath := false
				if len(r) == 1 {
					for a, k := range r {
						switch {
						case k == 1 && (a == "max("+A+", "+B+")" || a == "max("+B+", "+A+")"):
							okPath = true
						case k == 1 && (a == A || a == B):
							other := B
							if a == B {
								other = A
							}
							okPath = inCone(Lin{a: 1, other: -1}, factGens(s))
						}
					}
				}
				if !okPath {
					bad = append(bad, "returns "+s.ret[0].L.String()+" when "+pathTag(s))
				}
			}
			ok2 := len(bad) == 0 && nret >= 1
			c.Check(ok2, "validate-bounds", "minProofHeight:later-tip", where, ifElse(ok2, "minimum proof height = the later of (chain tip, price-table tip) + MinContractDuration on every path (saturating)", "minProofHeight is not derived from the later of the chain tip and the price table's tip, so already-passed proof heights validate: "+strings.Join(bad, "; ")))
		}
	}
	c.Min("validate-bounds", len(tab)+1)
}

func leafPaths(v *SV, prefix string, out map[string]*SV) {
	if v == nil {
		return
	}
	if v.F == nil {
		out[prefix] = v
		return
	}
	for k, f := range v.F {
		p := k
		if prefix != "" {
			p = prefix + "." + k
		}
		leafPaths(f, p, out)
	}
}

func linOf(v *SV, path string) Lin {
	f := v.Field(path)
	if f == nil || f.L == nil {
		return Lin{"?missing:" + path: 1}
	}
	return f.L
}

func paramObj(fd *ast.FuncDecl, info *types.Info, name string) types.Object {
	for _, fl := range []*ast.FieldList{fd.Recv, fd.Type.Params} {
		if fl == nil {
			continue
		}
		for _, f := range fl.List {
			for _, n := range f.Names {
				if n.Name == name {
					return info.Defs[n]
				}
			}
		}
	}
	return nil
}

func paramNames(fd *ast.FuncDecl) []string {
	var out []string
	for _, f := range fd.Type.Params.List {
		for _, n := range f.Names {
			out = append(out, n.Name)
		}
	}
	return out
}

func unsupOf(states []*symState) []string {
	set := map[string]bool{}
	for _, s := range states {
		for _, u := range s.unsup {
			set[u] = true
		}
	}
	var out []string
	for u := range set {
		out = append(out, u)
	}
	sort.Strings(out)
	return out
}

// inCone: d is a non-negative combination of non-negative atoms and the given generators (each >= 0).
func inCone(d Lin, gens []Lin) bool {
	if d.NonNeg() {
		return true
	}
	if len(gens) > 7 {
		gens = gens[:7]
	}
	var rec func(i int, cur Lin) bool
	rec = func(i int, cur Lin) bool {
		if cur.NonNeg() {
			return true
		}
		if i == len(gens) {
			return false
		}
		for k := int64(0); k <= 2; k++ {
			if rec(i+1, cur.addScaled(gens[i], -k)) {
				return true
			}
		}
		return false
	}
	return rec(0, d)
}

func factGens(s *symState) []Lin {
	var gens []Lin
	for _, f := range s.facts {
		switch f.Op {
		case ">", ">=":
			gens = append(gens, f.A.addScaled(f.B, -1))
		case "<", "<=":
			gens = append(gens, f.B.addScaled(f.A, -1))
		case "==":
			gens = append(gens, f.A.addScaled(f.B, -1), f.B.addScaled(f.A, -1))
		}
	}
	return gens
}

// contract invariant of a V2FileContract value rooted at origin: Missed <= Total <= Host
func invariantGens(origin string) []Lin {
	return []Lin{
		{origin + "." + pTC: 1, origin + "." + pM: -1},
		{origin + "." + pH: 1, origin + "." + pTC: -1},
	}
}

func checkSubs(c *Ctx, rule, inst, where string, s *symState, hyp []Lin) {
	gens := append(append([]Lin{}, hyp...), factGens(s)...)
	var bad []string
	for _, sub := range s.subs {
		if !inCone(sub.A.addScaled(sub.B, -1), gens) {
			bad = append(bad, fmt.Sprintf("%s computes (%s) - (%s)", sub.Text, sub.A.String(), sub.B.String()))
		}
	}
	c.Check(len(bad) == 0, rule, inst, where, ifElse(len(bad) == 0, fmt.Sprintf("%d subtractions, each witnessed non-negative by the input invariant or the path's comparisons", len(s.subs)), "subtraction not witnessed non-negative (panics for admissible inputs): "+strings.Join(bad, "; ")))
}

func pathTag(s *symState) string {
	var ts []string
	for _, f := range s.facts {
		ts = append(ts, f.Text+ifElse(true, "", ""))
		_ = f
	}
	if len(ts) == 0 {
		return "straight"
	}
	return strings.Join(ts, " & ")
}

// usageCost is the sum of the payable fields of a Usage value (every Currency field except RiskedCollateral).
func usageCost(u *SV) (Lin, []string) {
	sum := Lin{}
	var fields []string
	if u == nil || u.F == nil {
		return Lin{"?usage": 1}, nil
	}
	for k, f := range u.F {
		if k == "RiskedCollateral" || f == nil || f.L == nil {
			continue
		}
		fields = append(fields, k)
		sum = sum.addScaled(f.L, 1)
	}
	sort.Strings(fields)
	return sum, fields
}

func c17Pay(c *Ctx, si *symInterp) {
	const fn = "rhp/v4.PayWithContract"
	states, fr, fd, ok := si.RunFunc(fn)
	if !ok {
		c.Undecided("pay", fn, "", "anchor does not resolve")
		return
	}
	c.NoteFunc(fn)
	where := c.P.Pos(fd.Pos())
	if u := unsupOf(states); len(u) > 0 {
		c.Undecided("pay", fn+":domain", where, "construct outside the symbolic domain: "+strings.Join(u, "; "))
		return
	}
	names := paramNames(fd)
	if len(names) != 2 {
		c.Undecided("pay", fn, where, "expected (contract, usage) parameters")
		return
	}
	fcObj := paramObj(fd, fr.info, names[0])
	init := symOf(names[0], fcObj.Type().Underlying().(*types.Pointer).Elem(), 0)
	usage := symOf(names[1], paramObj(fd, fr.info, names[1]).Type(), 0)
	cost, fields := usageCost(usage)
	// RenterCost covers every payable field
	if rs, _, rfd, ok := si.RunFunc("rhp/v4.(Usage).RenterCost"); ok && len(rs) == 1 && len(rs[0].ret) == 1 && rs[0].ret[0].L != nil {
		u0 := symOf(rfd.Recv.List[0].Names[0].Name, usageType(c), 0)
		want, _ := usageCost(u0)
		ok := rs[0].ret[0].L.Equal(want)
		c.Check(ok, "pay", "RenterCost:covers-fields", c.P.Pos(rfd.Pos()), ifElse(ok, "RenterCost = "+strings.Join(fields, " + "), "RenterCost returns "+rs[0].ret[0].L.String()+" but the payable Usage fields are "+strings.Join(fields, ", ")))
	} else {
		c.Undecided("pay", "RenterCost:covers-fields", "", "Usage.RenterCost is not a single linear expression")
	}
	nOK, nErr := 0, 0
	for _, s := range states {
		if s.panics || len(s.ret) != 1 {
			continue
		}
		final := s.env[fcObj]
		il, fl := map[string]*SV{}, map[string]*SV{}
		leafPaths(init, "", il)
		leafPaths(final, "", fl)
		if s.ret[0].Nil == 2 {
			nErr++
			var changed []string
			for p, iv := range il {
				if fv := fl[p]; fv == nil || fv.L == nil || !fv.L.Equal(iv.L) {
					changed = append(changed, p)
				}
			}
			sort.Strings(changed)
			c.Check(len(changed) == 0, "pay", fmt.Sprintf("error-path-clean#%d", nErr), where, ifElse(len(changed) == 0, "no field of the contract is modified when payment is refused ("+pathTag(s)+")", "the contract is modified although an error is returned: "+strings.Join(changed, ", ")))
			continue
		}
		if s.ret[0].Nil != 1 {
			c.Undecided("pay", "result", where, "return value is neither nil nor a constructed error")
			continue
		}
		nOK++
		delta := func(p string) Lin { return linOf(final, p).addScaled(linOf(init, p), -1) }
		neg := Lin{}.addScaled(cost, -1)
		ok1 := delta(pR).Equal(neg)
		c.Check(ok1, "pay", "renter-charged-usage", where, ifElse(ok1, "renter output decreases by exactly RenterCost(usage)", "renter output changes by "+delta(pR).String()+", expected -("+cost.String()+")"))
		ok2 := delta(pH).Equal(cost)
		c.Check(ok2, "pay", "host-credited-usage", where, ifElse(ok2, "host output increases by exactly RenterCost(usage): total value kept", "host output changes by "+delta(pH).String()+", expected +("+cost.String()+")"))
		wantM := Lin{}.addScaled(linOf(usage, "RiskedCollateral"), -1)
		ok3 := delta(pM).Equal(wantM)
		c.Check(ok3, "pay", "missed-host-risked", where, ifElse(ok3, "missed host value decreases by exactly the reported risked collateral", "missed host value changes by "+delta(pM).String()+", expected "+wantM.String()))
		ok4 := delta("RevisionNumber").Equal(Lin{"": 1})
		c.Check(ok4, "pay", "revision-incremented", where, ifElse(ok4, "revision number + 1", "revision number changes by "+delta("RevisionNumber").String()))
		ok5 := len(linOf(final, "RenterSignature")) == 0 && len(linOf(final, "HostSignature")) == 0
		c.Check(ok5, "pay", "signatures-cleared", where, ifElse(ok5, "both signatures reset", "stale signatures survive the revision"))
		var changed []string
		for p, iv := range il {
			switch p {
			case pR, pH, pM, "RevisionNumber", "RenterSignature", "HostSignature":
				continue
			}
			if fv := fl[p]; fv == nil || fv.L == nil || !fv.L.Equal(iv.L) {
				changed = append(changed, p)
			}
		}
		sort.Strings(changed)
		c.Check(len(changed) == 0, "pay", "nothing-else-touched", where, ifElse(len(changed) == 0, "total collateral, keys, heights, size, root and addresses unchanged", "payment also modifies "+strings.Join(changed, ", ")))
		checkSubs(c, "pay", "guards-dominate-subtractions", where, s, nil)
	}
	c.Check(nOK == 1 && nErr >= 2, "pay", "paths", where, fmt.Sprintf("%d success path, %d refusing paths (insufficient renter funds, insufficient collateral)", nOK, nErr))
	c.Min("pay", 10)
}

func usageType(c *Ctx) types.Type {
	if p := c.P.Pkg("rhp/v4"); p != nil {
		if o := p.Types.Scope().Lookup("Usage"); o != nil {
			return o.Type()
		}
	}
	return types.Typ[types.Invalid]
}

func c17Revise(c *Ctx, si *symInterp) {
	fns := []string{"ReviseForFreeSectors", "ReviseForAppendSectors", "ReviseForSectorRoots", "ReviseForFundAccounts", "ReviseForReplenish"}
	// discover further ReviseFor* functions
	if p := c.P.Pkg("rhp/v4"); p != nil {
		for _, n := range p.Types.Scope().Names() {
			if strings.HasPrefix(n, "ReviseFor") {
				found := false
				for _, f := range fns {
					if f == n {
						found = true
					}
				}
				if !found {
					fns = append(fns, n)
				}
			}
		}
	}
	for _, name := range fns {
		fn := "rhp/v4." + name
		states, fr, fd, ok := si.RunFunc(fn)
		if !ok {
			c.Undecided("revise", name, "", "anchor does not resolve")
			continue
		}
		c.NoteFunc(fn)
		where := c.P.Pos(fd.Pos())
		if u := unsupOf(states); len(u) > 0 {
			c.Undecided("revise", name+":domain", where, "construct outside the symbolic domain: "+strings.Join(u, "; "))
			continue
		}
		names := paramNames(fd)
		init := symOf(names[0], paramObj(fd, fr.info, names[0]).Type(), 0)
		nOK := 0
		for _, s := range states {
			if s.panics || len(s.ret) != 3 {
				continue
			}
			out, usage, err := s.ret[0], s.ret[1], s.ret[2]
			delta := func(p string) Lin { return linOf(out, p).addScaled(linOf(init, p), -1) }
			if err.Nil == 2 {
				clean := len(delta(pR)) == 0 && len(delta(pH)) == 0 && len(delta(pM)) == 0 && len(delta(pTC)) == 0
				c.Check(clean, "revise", name+":error-path-values", where, ifElse(clean, "value fields unchanged when payment is refused", "value fields modified on an error path"))
				continue
			}
			if err.Nil != 1 {
				c.Undecided("revise", name+":result", where, "error result of unknown nil-ness")
				continue
			}
			nOK++
			cost, _ := usageCost(usage)
			ok1 := delta(pR).Equal(Lin{}.addScaled(cost, -1)) && delta(pH).Equal(cost)
			c.Check(ok1, "revise", name+":charges-reported-usage", where, ifElse(ok1, "renter -"+cost.String()+", host +same: exactly the Usage returned to the caller", "renter changes by "+delta(pR).String()+" and host by "+delta(pH).String()+" but the reported usage costs "+cost.String()))
			wantM := Lin{}.addScaled(linOf(usage, "RiskedCollateral"), -1)
			ok2 := delta(pM).Equal(wantM) && len(delta(pTC)) == 0
			c.Check(ok2, "revise", name+":risks-reported-collateral", where, ifElse(ok2, "missed host value -reported risked collateral, total collateral untouched", "missed host value changes by "+delta(pM).String()+" (reported "+wantM.String()+"), total collateral by "+delta(pTC).String()))
			keys := len(delta("RenterPublicKey")) == 0 && len(delta("HostPublicKey")) == 0 && len(delta("RenterOutput.Address")) == 0 && len(delta("HostOutput.Address")) == 0 && len(delta("ProofHeight")) == 0 && len(delta("ExpirationHeight")) == 0
			c.Check(keys, "revise", name+":parties-and-window-kept", where, ifElse(keys, "keys, addresses and heights unchanged", "a revision changes keys, addresses or heights"))
			checkSubs(c, "revise", name+":subtractions", where, s, nil)
		}
		c.Check(nOK >= 1, "revise", name+":paths", where, fmt.Sprintf("%d success path(s)", nOK))
	}
	c.Min("revise", 25)
}

func c17NewContract(c *Ctx, si *symInterp) {
	const fn = "rhp/v4.NewContract"
	states, _, fd, ok := si.RunFunc(fn)
	if !ok || len(states) != 1 || len(states[0].ret) != 2 {
		c.Undecided("invariant", "NewContract", "", "anchor does not resolve to a single path")
		return
	}
	c.NoteFunc(fn)
	where := c.P.Pos(fd.Pos())
	s := states[0]
	if len(s.unsup) > 0 {
		c.Undecided("invariant", "NewContract:domain", where, strings.Join(s.unsup, "; "))
		return
	}
	fc := s.ret[0]
	d1 := linOf(fc, pTC).addScaled(linOf(fc, pM), -1)
	d2 := linOf(fc, pH).addScaled(linOf(fc, pTC), -1)
	ok1 := inCone(d1, nil) && inCone(d2, nil)
	c.Check(ok1, "invariant", "NewContract", where, ifElse(ok1, "MissedHostValue <= TotalCollateral <= HostOutput.Value by construction", "new contract can violate MissedHostValue <= TotalCollateral <= HostOutput.Value: total-missed = "+d1.String()+", host-total = "+d2.String()))
	ok2 := len(linOf(fc, "RevisionNumber")) == 0 && len(linOf(fc, "Filesize")) == 0
	c.Check(ok2, "invariant", "NewContract:fresh", where, "revision number and file size start at zero")
	checkSubs(c, "invariant", "NewContract:subtractions", where, s, nil)
}

type renewalPath struct {
	fn     string
	idx    int
	tag    string
	state  *symState
	ren    *SV
	usage  *SV
	fcIn   string
	where  string
	prices *SV
}

var c17RenewalPaths []renewalPath

func c17Renewals(c *Ctx, si *symInterp) {
	c17RenewalPaths = nil
	for _, name := range []string{"RenewContract", "RefreshContractPartialRollover", "RefreshContractFullRollover"} {
		fn := "rhp/v4." + name
		states, fr, fd, ok := si.RunFunc(fn)
		if !ok {
			c.Undecided("split", name, "", "anchor does not resolve")
			continue
		}
		c.NoteFunc(fn)
		where := c.P.Pos(fd.Pos())
		if u := unsupOf(states); len(u) > 0 {
			c.Undecided("split", name+":domain", where, "construct outside the symbolic domain: "+strings.Join(u, "; "))
			continue
		}
		names := paramNames(fd)
		fcName := names[0]
		init := symOf(fcName, paramObj(fd, fr.info, fcName).Type(), 0)
		hyp := invariantGens(fcName)
		var pricesSV *SV
		for _, n := range names {
			if o := paramObj(fd, fr.info, n); o != nil && typeName(o.Type()) == "rhp/v4.HostPrices" {
				pricesSV = symOf(n, o.Type(), 0)
			}
		}
		np := 0
		for _, s := range states {
			if s.panics || len(s.ret) != 2 {
				continue
			}
			np++
			inst := fmt.Sprintf("%s#%d", name, np)
			ren := s.ret[0]
			tag := pathTag(s)
			c17RenewalPaths = append(c17RenewalPaths, renewalPath{name, np, tag, s, ren, s.ret[1], fcName, where, pricesSV})
			sumR := linOf(ren, "FinalRenterOutput.Value").addScaled(linOf(ren, "RenterRollover"), 1)
			sumH := linOf(ren, "FinalHostOutput.Value").addScaled(linOf(ren, "HostRollover"), 1)
			ok1 := sumR.Equal(linOf(init, pR))
			c.Check(ok1, "split", inst+":renter", where, ifElse(ok1, "final renter output + renter rollover = old renter output ("+tag+")", "final renter output + rollover = "+sumR.String()+", not the old renter output ("+tag+")"))
			ok2 := sumH.Equal(linOf(init, pH))
			c.Check(ok2, "split", inst+":host", where, ifElse(ok2, "final host output + host rollover = old host output", "final host output + rollover = "+sumH.String()+", not the old host output ("+tag+")"))
			same := func(a, b string) bool { return linOf(ren, a).Equal(linOf(init, b)) }
			ok3 := same("FinalRenterOutput.Address", "RenterOutput.Address") && same("FinalHostOutput.Address", "HostOutput.Address") && same("NewContract.RenterOutput.Address", "RenterOutput.Address") && same("NewContract.RenterPublicKey", "RenterPublicKey") && same("NewContract.HostPublicKey", "HostPublicKey")
			c.Check(ok3, "split", inst+":parties", where, ifElse(ok3, "final outputs pay the old addresses; the new contract keeps both keys and the renter address", "final outputs or the new contract's keys/renter address differ from the old contract's"))
			ok4 := len(linOf(ren, "NewContract.RevisionNumber")) == 0 && len(linOf(ren, "NewContract.RenterSignature")) == 0 && len(linOf(ren, "NewContract.HostSignature")) == 0
			c.Check(ok4, "split", inst+":fresh", where, ifElse(ok4, "new contract starts at revision 0 with cleared signatures", "new contract inherits revision number or signatures"))
			// invariant preserved
			gens := append(append([]Lin{}, hyp...), factGens(s)...)
			d1 := linOf(ren, "NewContract."+pTC).addScaled(linOf(ren, "NewContract."+pM), -1)
			d2 := linOf(ren, "NewContract."+pH).addScaled(linOf(ren, "NewContract."+pTC), -1)
			ok5 := inCone(d1, gens) && inCone(d2, gens)
			c.Check(ok5, "invariant", inst, where, ifElse(ok5, "new contract keeps MissedHostValue <= TotalCollateral <= HostOutput.Value", "new contract can violate MissedHostValue <= TotalCollateral <= HostOutput.Value: total-missed = "+d1.String()+", host-total = "+d2.String()))
			checkSubs(c, "split", inst+":subtractions", where, s, hyp)
		}
		c.Check(np >= 1, "split", name+":paths", where, fmt.Sprintf("%d paths", np))
	}
	c.Min("split", 30)
	c.Min("invariant", 10)
}

// RunWith interprets fn with the given parameter values (by parameter name); other parameters are symbolic.
func (si *symInterp) RunWith(spec string, base *symState, vals map[string]*SV) ([]*symState, *ast.FuncDecl, bool) {
	fn := si.p.Func(spec)
	if fn == nil {
		return nil, nil, false
	}
	obj, _ := fn.Object().(*types.Func)
	if obj == nil {
		return nil, nil, false
	}
	fd, pkg := si.p.Decl(obj)
	if fd == nil || fd.Body == nil {
		return nil, nil, false
	}
	fr := &symFrame{pkg: pkg, info: pkg.TypesInfo, name: fd.Name.Name}
	st := &symState{env: map[types.Object]*SV{}, alias: map[types.Object]types.Object{}}
	if base != nil {
		st.facts = append(st.facts, base.facts...)
	}
	for _, fl := range []*ast.FieldList{fd.Recv, fd.Type.Params} {
		if fl == nil {
			continue
		}
		for _, f := range fl.List {
			for _, n := range f.Names {
				o := fr.info.Defs[n]
				if o == nil {
					continue
				}
				if v, ok := vals[n.Name]; ok {
					st.env[o] = v.deep()
				} else {
					st.env[o] = symOf(n.Name, o.Type(), 0)
				}
			}
		}
	}
	si.bindResults(fd, fr, st)
	out := si.block(fd.Body.List, fr, []*symState{st})
	for _, s := range out {
		if !s.done && !s.panics {
			si.bareReturn(fr, s)
		}
	}
	return out, fd, true
}

func c17Costs(c *Ctx, si *symInterp) {
	type spec struct {
		fn    string
		param string // name of the contract/renewal parameter
		new   string // path of the new contract within it
		roll  bool
	}
	for _, sp := range []spec{{"ContractCost", "fc", "", false}, {"RenewalCost", "r", "NewContract", true}, {"RefreshCost", "r", "NewContract", true}} {
		fn := "rhp/v4." + sp.fn
		states, fr, fd, ok := si.RunFunc(fn)
		if !ok {
			c.Undecided("cost", sp.fn, "", "anchor does not resolve")
			continue
		}
		c.NoteFunc(fn)
		where := c.P.Pos(fd.Pos())
		if u := unsupOf(states); len(u) > 0 || len(states) != 1 || len(states[0].ret) != 2 {
			c.Undecided("cost", sp.fn+":domain", where, "not a single symbolic path: "+strings.Join(u, "; "))
			continue
		}
		// locate parameters by type
		var objName, feeName, csName string
		for _, n := range paramNames(fd) {
			t := typeName(paramObj(fd, fr.info, n).Type())
			switch {
			case t == "types.V2FileContract" || t == "types.V2FileContractRenewal":
				objName = n
			case t == "types.Currency":
				feeName = n
			case t == "consensus.State":
				csName = n
			}
		}
		if objName == "" || feeName == "" {
			c.Undecided("cost", sp.fn, where, "parameters not recognised")
			continue
		}
		in := symOf(objName, paramObj(fd, fr.info, objName).Type(), 0)
		nc := in
		if sp.new != "" {
			nc = in.Field(sp.new)
		}
		// tax atom as the cost function itself computes it for the new contract
		taxStates, _, ok2 := si.RunWith("consensus.(State).V2FileContractTax", nil, map[string]*SV{"fc": nc})
		if !ok2 || len(taxStates) != 1 || len(taxStates[0].ret) != 1 {
			c.Undecided("cost", sp.fn+":tax", where, "V2FileContractTax does not resolve")
			continue
		}
		_ = csName
		tax := taxStates[0].ret[0].L
		lhs := states[0].ret[0].L.addScaled(states[0].ret[1].L, 1)
		rhs := linOf(nc, pR).addScaled(linOf(nc, pH), 1).addScaled(Lin{feeName: 1}, 1).addScaled(tax, 1)
		if sp.roll {
			lhs = lhs.addScaled(linOf(in, "RenterRollover"), 1).addScaled(linOf(in, "HostRollover"), 1)
		}
		okEq := lhs.Equal(rhs)
		c.Check(okEq, "cost", sp.fn+":funds-exactly", where, ifElse(okEq, "renter + host"+ifElse(sp.roll, " + rollovers", "")+" = new renter output + new host output + tax + miner fee", "renter + host"+ifElse(sp.roll, " + rollovers", "")+" = "+lhs.String()+" but the new contract, its tax and the fee need "+rhs.String()))
		if !sp.roll {
			checkSubs(c, "cost", sp.fn+":subtractions", where, states[0], invariantGens(objName))
		}
	}
	// composition: cost functions applied to what the constructors produce never underflow
	for _, rp := range c17RenewalPaths {
		costFn := "RenewalCost"
		if strings.HasPrefix(rp.fn, "Refresh") {
			costFn = "RefreshCost"
		}
		vals := map[string]*SV{}
		if cf := c.P.Func("rhp/v4." + costFn); cf != nil {
			if obj, _ := cf.Object().(*types.Func); obj != nil {
				if cfd, cpkg := c.P.Decl(obj); cfd != nil {
					for _, n := range paramNames(cfd) {
						switch typeName(paramObj(cfd, cpkg.TypesInfo, n).Type()) {
						case "types.V2FileContractRenewal":
							vals[n] = rp.ren
						case "rhp/v4.HostPrices":
							if rp.prices != nil {
								vals[n] = rp.prices
							}
						}
					}
				}
			}
		}
		out, fd, ok := si.RunWith("rhp/v4."+costFn, rp.state, vals)
		if !ok || len(out) != 1 {
			c.Undecided("cost", rp.fn+"∘"+costFn, "", "cost function does not resolve to one path")
			continue
		}
		// the refresh cost function takes the host prices: they are the constructor's prices
		inst := fmt.Sprintf("%s∘%s#%d", costFn, rp.fn, rp.idx)
		s := out[0]
		if len(s.unsup) > 0 {
			c.Undecided("cost", inst, c.P.Pos(fd.Pos()), strings.Join(s.unsup, "; "))
			continue
		}
		hyp := invariantGens(rp.fcIn)
		checkSubs(c, "cost", inst, rp.where+" ("+rp.tag+")", s, hyp)
	}
	c.Min("cost", 13)
}

func renameAtoms(l Lin, from, to string) Lin {
	r := Lin{}
	for k, v := range l {
		nk := k
		if strings.HasPrefix(k, from) {
			nk = to + k[len(from):]
		}
		nk = strings.ReplaceAll(nk, "("+from, "("+to)
		r[nk] += v
	}
	return r
}

func c17PayByContract(c *Ctx, si *symInterp) {
	const fn = "rhp/v3.PayByContract"
	states, fr, fd, ok := si.RunFunc(fn)
	if !ok {
		c.Undecided("v3-pay", fn, "", "anchor does not resolve")
		return
	}
	c.NoteFunc(fn)
	where := c.P.Pos(fd.Pos())
	names := paramNames(fd)
	revObj := paramObj(fd, fr.info, names[0])
	amount := Lin{names[1]: 1}
	nOK := 0
	for _, s := range states {
		if s.panics || len(s.ret) != 2 {
			continue
		}
		if s.ret[1].Bool == "false" {
			// refused: nothing stored
			bad := false
			for _, st := range s.stores {
				if strings.HasPrefix(st, names[0]+".") {
					bad = true
				}
			}
			c.Check(!bad, "v3-pay", "refusal-clean", where, ifElse(!bad, "no store to the revision when funds are insufficient", "the revision is modified although payment is refused"))
			continue
		}
		if s.ret[1].Bool != "true" {
			continue
		}
		nOK++
		if len(s.unsup) > 0 {
			c.Undecided("v3-pay", "domain", where, strings.Join(s.unsup, "; "))
			continue
		}
		final := s.env[revObj]
		get := func(list string, idx int) Lin {
			v := final.Field("FileContract." + list)
			if v == nil {
				v = final.Field(list)
			}
			if v == nil || v.Idx == nil || v.Idx[int64(idx)] == nil {
				return Lin{"?": 1}
			}
			return linOf(v.Idx[int64(idx)], "Value")
		}
		orig := func(list string, idx int) Lin {
			return Lin{fmt.Sprintf("%s.FileContract.%s[%d].Value", names[0], list, idx): 1}
		}
		okAll := true
		var diffs []string
		for _, l := range []string{"ValidProofOutputs", "MissedProofOutputs"} {
			dr := get(l, 0).addScaled(orig(l, 0), -1)
			dh := get(l, 1).addScaled(orig(l, 1), -1)
			if !dr.Equal(Lin{}.addScaled(amount, -1)) || !dh.Equal(amount) {
				okAll = false
				diffs = append(diffs, fmt.Sprintf("%s: renter %s, host %s", l, dr.String(), dh.String()))
			}
		}
		c.Check(okAll, "v3-pay", "moves-exactly-amount", where, ifElse(okAll, "valid and missed renter payouts -amount, host payouts +amount: sums unchanged", "payout deltas are not -amount/+amount: "+strings.Join(diffs, "; ")))
		checkSubs(c, "v3-pay", "guards-dominate-subtractions", where, s, nil)
	}
	c.Check(nOK == 1, "v3-pay", "paths", where, fmt.Sprintf("%d paying path", nOK))
	c.Min("v3-pay", 4)
}
