package main

// Decision tables. A compound acceptance condition ("accept iff A, or B and C and D") can be spelled in many
// ways: one rejecting if with &&/||/!, a chain of ifs, a boolean computed into a local, a value selected into a
// local and compared in a shared helper. They all compute the same function of a handful of atomic comparisons.
// DecisionTable evaluates a function path by path over every truth assignment of named atoms:
//   - a branch whose condition is an atom (or its negation) follows the assignment;
//   - a phi takes the value of the edge the path came in by (also through parameters of inlined helpers);
//   - any other condition is a don't-care: both sides are explored;
//   - a loop over a collection the atoms talk about runs its body exactly once, other loops at most once;
//   - module callees whose error/bool result is tested are inlined.
// The result per assignment is the set of outcomes {accept, reject} over all paths. A rule compares it with the
// table the property states: where the property rejects no path may accept; where it accepts some path must.
// This is a finite evaluation over abstract truth values (like the finite-ordering evaluation of Cmp), not a
// search for inputs.

import (
	"go/constant"
	"go/token"
	"go/types"
	"regexp"
	"sort"
	"strings"

	"golang.org/x/tools/go/ssa"
)

type dtAtom struct {
	Name string
	L, R *regexp.Regexp // matches "L == R" (or R == L); the negated operator gives the negation
	GE   bool           // ordered atom: true iff "L >= R"
}

type dtVal struct {
	kind string // "bool", "err", "unknown"
	b    bool   // bool value
	tag  string // err: "nil", "nonnil", or "global:<name>"
}

type dtFrame struct {
	fn     *ssa.Function
	env    *Env
	vals   map[ssa.Value]dtVal
	prev   *ssa.BasicBlock
	caller *dtFrame
	params map[*ssa.Parameter]ssa.Value // bound argument values (in the caller frame)
	visits map[*ssa.BasicBlock]int
	sel    map[*ssa.Phi]ssa.Value // which edge each phi took on the current path
}

type dtEval struct {
	ge       *GuardEngine
	atoms    []dtAtom
	assign   map[string]bool
	forced   []string // collections whose loops run exactly once
	outcomes map[string]bool
	steps    int
	unsup    map[string]bool
	used     map[string]bool // atoms actually met on some path
}

func (fr *dtFrame) clone() *dtFrame {
	n := &dtFrame{fn: fr.fn, env: fr.env, prev: fr.prev, caller: fr.caller, params: fr.params, vals: map[ssa.Value]dtVal{}, visits: map[*ssa.BasicBlock]int{}, sel: map[*ssa.Phi]ssa.Value{}}
	for k, v := range fr.sel {
		n.sel[k] = v
	}
	for k, v := range fr.vals {
		n.vals[k] = v
	}
	for k, v := range fr.visits {
		n.visits[k] = v
	}
	return n
}

// atomOf renders v path-sensitively: parameters resolve to the bound argument, phis to the edge taken.
func (de *dtEval) atomOf(v ssa.Value, fr *dtFrame, at ssa.Instruction) string {
	for depth := 0; depth < 8; depth++ {
		switch x := v.(type) {
		case *ssa.Parameter:
			if fr.caller != nil {
				if bv, ok := fr.params[x]; ok {
					v, fr = bv, fr.caller
					continue
				}
			}
		case *ssa.Phi:
			if x.Block().Parent() == fr.fn {
				if e, ok := de.phiEdge(x, fr); ok {
					v = e
					continue
				}
			}
		case *ssa.ChangeType:
			v = x.X
			continue
		case *ssa.Convert:
			v = x.X
			continue
		}
		break
	}
	saved := de.ge.pv.loadCtx
	de.ge.pv.loadCtx = []ssa.Instruction{at}
	a := de.ge.pv.Atom(v, fr.env)
	de.ge.pv.loadCtx = saved
	return a
}

// phiEdge: the incoming value of phi for the path's previous block (only valid while evaluating phi's block).
func (de *dtEval) phiEdge(p *ssa.Phi, fr *dtFrame) (ssa.Value, bool) {
	if sel, ok := fr.sel[p]; ok {
		return sel, true
	}
	return nil, false
}

func (de *dtEval) matchAtom(l, op, r string) (string, bool, bool) {
	for _, a := range de.atoms {
		if (a.L.MatchString(l) && a.R.MatchString(r)) || (a.L.MatchString(r) && a.R.MatchString(l)) {
			if !a.GE {
				switch op {
				case "==":
					return a.Name, true, true
				case "!=":
					return a.Name, false, true
				}
			}
			// ordered atoms are written with their own operator in the pattern name: NAME is true iff "L >= R"
			if a.GE {
				lr := a.L.MatchString(l) && a.R.MatchString(r)
				switch {
				case lr && op == ">=", !lr && op == "<=":
					return a.Name, true, true
				case lr && op == "<", !lr && op == ">":
					return a.Name, false, true
				}
			}
		}
	}
	return "", false, false
}

// evalBool: the truth value of v on this path: (value, known).
func (de *dtEval) evalBool(v ssa.Value, fr *dtFrame, at ssa.Instruction) (bool, bool) {
	if dv, ok := fr.vals[v]; ok && dv.kind == "bool" {
		return dv.b, true
	}
	switch x := v.(type) {
	case *ssa.Const:
		if x.Value != nil && x.Value.Kind() == constant.Bool {
			return constant.BoolVal(x.Value), true
		}
	case *ssa.UnOp:
		if x.Op == token.NOT {
			b, ok := de.evalBool(x.X, fr, at)
			return !b, ok
		}
	case *ssa.Phi:
		if e, ok := de.phiEdge(x, fr); ok {
			return de.evalBool(e, fr, at)
		}
	case *ssa.BinOp:
		switch x.Op {
		case token.EQL, token.NEQ, token.LSS, token.LEQ, token.GTR, token.GEQ:
			// error comparisons against nil / sentinels
			if lv, ok := de.errVal(x.X, fr); ok {
				if rv, ok2 := de.errVal(x.Y, fr); ok2 && (x.Op == token.EQL || x.Op == token.NEQ) {
					if lv.tag == "nonnil" || rv.tag == "nonnil" {
						if lv.tag == "nil" || rv.tag == "nil" {
							return x.Op == token.NEQ, true
						}
						return false, false
					}
					eq := lv.tag == rv.tag
					return eq == (x.Op == token.EQL), true
				}
			}
			l, r := de.atomOf(x.X, fr, at), de.atomOf(x.Y, fr, at)
			if name, pos, ok := de.matchAtom(l, x.Op.String(), r); ok {
				de.used[name] = true
				return de.assign[name] == pos, true
			}
		}
	}
	return false, false
}

func (de *dtEval) errVal(v ssa.Value, fr *dtFrame) (dtVal, bool) {
	if !isErrorType(v.Type()) {
		if k, ok := v.(*ssa.Const); ok && k.IsNil() {
			return dtVal{kind: "err", tag: "nil"}, true
		}
		return dtVal{}, false
	}
	if dv, ok := fr.vals[v]; ok && dv.kind == "err" {
		return dv, true
	}
	switch x := v.(type) {
	case *ssa.Const:
		if x.IsNil() {
			return dtVal{kind: "err", tag: "nil"}, true
		}
	case *ssa.UnOp:
		if g, ok := x.X.(*ssa.Global); ok && x.Op == token.MUL {
			return dtVal{kind: "err", tag: "global:" + g.Name()}, true
		}
	case *ssa.Phi:
		if e, ok := de.phiEdge(x, fr); ok {
			return de.errVal(e, fr)
		}
	case *ssa.MakeInterface:
		return dtVal{kind: "err", tag: "nonnil"}, true
	case *ssa.Call:
		if f := x.Call.StaticCallee(); f != nil && f.Pkg != nil {
			pp := f.Pkg.Pkg.Path()
			if (pp == "errors" && f.Name() == "New") || (pp == "fmt" && f.Name() == "Errorf") {
				return dtVal{kind: "err", tag: "nonnil"}, true
			}
		}
	}
	return dtVal{}, false
}

const dtMaxSteps = 400000

// run evaluates from block b of frame fr until the function returns; ret receives the returned value's
// classification ("accept", "reject", "unknown") together with the frame state.
func (de *dtEval) run(fr *dtFrame, b *ssa.BasicBlock, ret func(outcome string, v dtVal, fr *dtFrame)) {
	de.steps++
	if de.steps > dtMaxSteps {
		de.unsup["step budget exceeded"] = true
		return
	}
	fr.visits[b]++
	if fr.visits[b] > 2 {
		return // more than one iteration of a loop: pruned
	}
	if fr.sel == nil {
		fr.sel = map[*ssa.Phi]ssa.Value{}
	}
	if fr.prev != nil {
		for _, in := range b.Instrs {
			p, ok := in.(*ssa.Phi)
			if !ok {
				break
			}
			for i, pr := range b.Preds {
				if pr == fr.prev && i < len(p.Edges) {
					fr.sel[p] = p.Edges[i]
				}
			}
		}
	}
	de.resume(fr, b, 0, ret)
}

// resume continues block b at instruction index i (after an inlined call).
func (de *dtEval) resume(fr *dtFrame, b *ssa.BasicBlock, i int, ret func(string, dtVal, *dtFrame)) {
	for j := i; j < len(b.Instrs); j++ {
		if x, ok := b.Instrs[j].(*ssa.Call); ok {
			callee := x.Call.StaticCallee()
			if callee != nil && de.ge.p.InModule(callee) && len(callee.Blocks) > 0 && (fnKind(callee) == "error" || fnKind(callee) == "bool") && x.Referrers() != nil && len(*x.Referrers()) > 0 {
				depth := 0
				for f := fr; f != nil; f = f.caller {
					depth++
				}
				if depth > 4 {
					continue
				}
				cfr := &dtFrame{fn: callee, env: de.ge.calleeEnv(callee, &x.Call, fr.env), vals: map[ssa.Value]dtVal{}, caller: fr, params: map[*ssa.Parameter]ssa.Value{}, visits: map[*ssa.BasicBlock]int{}, sel: map[*ssa.Phi]ssa.Value{}}
				for k, prm := range callee.Params {
					if k < len(x.Call.Args) {
						cfr.params[prm] = x.Call.Args[k]
					}
				}
				jj := j
				de.run(cfr, callee.Blocks[0], func(outcome string, v dtVal, _ *dtFrame) {
					nfr := fr.clone()
					if v.kind != "unknown" {
						nfr.vals[x] = v
					}
					de.resume(nfr, b, jj+1, ret)
				})
				return
			}
		}
	}
	de.terminate(fr, b, ret)
}

// terminate handles the block's terminator.
func (de *dtEval) terminate(fr *dtFrame, b *ssa.BasicBlock, ret func(string, dtVal, *dtFrame)) bool {
	if len(b.Instrs) == 0 {
		return true
	}
	next := func(nb *ssa.BasicBlock, f *dtFrame) {
		f.prev = b
		de.runFrom(f, nb, ret)
	}
	switch t := b.Instrs[len(b.Instrs)-1].(type) {
	case *ssa.Return:
		kind := fnKind(fr.fn)
		v := dtVal{kind: "unknown"}
		outcome := "unknown"
		if len(t.Results) > 0 {
			rv := t.Results[len(t.Results)-1]
			switch kind {
			case "error":
				if ev, ok := de.errVal(rv, fr); ok {
					v = ev
					outcome = ifElse(ev.tag == "nil", "accept", "reject")
				}
			case "bool":
				if bv, ok := de.evalBool(rv, fr, t); ok {
					v = dtVal{kind: "bool", b: bv}
					outcome = ifElse(bv, "accept", "reject")
				}
			}
		}
		ret(outcome, v, fr)
	case *ssa.Jump:
		next(b.Succs[0], fr)
	case *ssa.If:
		// loop test of a range/for loop
		fi := de.ge.info(fr.fn)
		if bv, known := de.evalBool(t.Cond, fr, t); known {
			if bv {
				next(b.Succs[0], fr)
			} else {
				next(b.Succs[1], fr)
			}
			return true
		}
		if fi.isLoopTest(b) {
			// which successor stays in the loop?
			in0 := false
			for _, h := range fi.loopsOf[b] {
				if fi.inLoop(b.Succs[0], h) {
					in0 = true
				}
			}
			stay, leave := b.Succs[1], b.Succs[0]
			if in0 {
				stay, leave = b.Succs[0], b.Succs[1]
			}
			forced := false
			cd := de.atomOf(t.Cond, fr, t)
			for _, fc := range de.forced {
				if strings.Contains(cd, fc) {
					forced = true
				}
			}
			if fr.visits[b] <= 1 {
				// first time at the test: enter the body (forced loops must; others may also skip)
				if !forced {
					f2 := fr.clone()
					next(leave, f2)
				}
				next(stay, fr)
			} else {
				next(leave, fr)
			}
			return true
		}
		f2 := fr.clone()
		next(b.Succs[0], fr)
		next(b.Succs[1], f2)
	case *ssa.Panic:
		ret("reject", dtVal{kind: "unknown"}, fr)
	}
	return true
}

func (de *dtEval) runFrom(fr *dtFrame, b *ssa.BasicBlock, ret func(string, dtVal, *dtFrame)) {
	de.run(fr, b, ret)
}

// DecisionTable evaluates fn over all assignments of the atoms. forced lists collection atoms (substring of the
// loop condition's atom) whose loops run exactly once. Result: assignment key ("A=1,B=0") -> outcomes.
func (ge *GuardEngine) DecisionTable(fn *ssa.Function, atoms []dtAtom, forced []string) (map[string]map[string]bool, map[string]bool, []string) {
	res := map[string]map[string]bool{}
	usedAll := map[string]bool{}
	unsup := map[string]bool{}
	n := len(atoms)
	for mask := 0; mask < 1<<n; mask++ {
		assign := map[string]bool{}
		var key []string
		for i, a := range atoms {
			assign[a.Name] = mask&(1<<i) != 0
			key = append(key, a.Name+"="+ifElse(assign[a.Name], "1", "0"))
		}
		de := &dtEval{ge: ge, atoms: atoms, assign: assign, forced: forced, outcomes: map[string]bool{}, unsup: unsup, used: usedAll}
		fr := &dtFrame{fn: fn, vals: map[ssa.Value]dtVal{}, visits: map[*ssa.BasicBlock]int{}, sel: map[*ssa.Phi]ssa.Value{}}
		de.run(fr, fn.Blocks[0], func(outcome string, v dtVal, _ *dtFrame) {
			de.outcomes[outcome] = true
		})
		res[strings.Join(key, ",")] = de.outcomes
	}
	var us []string
	for k := range unsup {
		us = append(us, k)
	}
	sort.Strings(us)
	return res, usedAll, us
}

var _ = types.Universe
