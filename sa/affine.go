package main

// E4: affine forms. A Currency- or integer-valued SSA value is abstracted to a linear combination
// of provenance atoms with integer coefficients: Add/AddWithOverflow/+ add, Sub/- subtract,
// loop-carried accumulators become sums over the ranged collection (the [*] in the atom is the
// quantifier), closures and small helpers returning a sum are inlined, everything else is an atom.

import (
	"fmt"
	"go/token"
	"regexp"
	"sort"
	"strings"

	"golang.org/x/tools/go/ssa"
)

type Affine map[string]int

func (a Affine) add(b Affine, k int) {
	for t, c := range b {
		a[t] += c * k
		if a[t] == 0 {
			delete(a, t)
		}
	}
}

func (a Affine) String() string {
	var ts []string
	for t, c := range a {
		if c == 1 {
			ts = append(ts, t)
		} else {
			ts = append(ts, fmt.Sprintf("%d*%s", c, t))
		}
	}
	sort.Strings(ts)
	if len(ts) == 0 {
		return "0"
	}
	return strings.Join(ts, "  +  ")
}

type affineCtx struct {
	ge       *GuardEngine
	selfPhi  map[*ssa.Phi]bool
	depth    int
	inlining int
}

const selfTerm = "\x00self:"

func isCurrencyMethod(c *ssa.CallCommon, names ...string) bool {
	f := c.StaticCallee()
	if f == nil || f.Signature.Recv() == nil {
		return false
	}
	if typeName(f.Signature.Recv().Type()) != "types.Currency" {
		return false
	}
	for _, n := range names {
		if f.Name() == n {
			return true
		}
	}
	return false
}

func (ge *GuardEngine) AffineOf(v ssa.Value, env *Env) Affine {
	ac := &affineCtx{ge: ge, selfPhi: map[*ssa.Phi]bool{}}
	return ac.form(v, env)
}

func (ac *affineCtx) atomTerm(v ssa.Value, env *Env) Affine {
	a := ac.ge.pv.Atom(v, env)
	if a == "zero" || a == "const:0" {
		return Affine{}
	}
	return Affine{a: 1}
}

func (ac *affineCtx) form(v ssa.Value, env *Env) Affine {
	ac.depth++
	defer func() { ac.depth-- }()
	if ac.depth > 80 {
		return ac.atomTerm(v, env)
	}
	switch x := v.(type) {
	case *ssa.Parameter:
		// a Currency/integer parameter of an inlined helper: the form of the argument it is bound to
		if env != nil {
			if bv, ok := env.paramVals[x]; ok && bv.v != nil && ac.depth < 40 && bv.env != env {
				return ac.form(bv.v, bv.env)
			}
		}
	case *ssa.Phi:
		if ac.selfPhi[x] {
			return Affine{selfTerm + x.Name(): 1}
		}
		hdr := x.Block()
		// loop-header phi: edges from predecessors dominated by the header are back edges
		var inits, backs []ssa.Value
		for i, e := range x.Edges {
			if hdr.Dominates(hdr.Preds[i]) {
				backs = append(backs, e)
			} else {
				inits = append(inits, e)
			}
		}
		if len(backs) > 0 && len(inits) > 0 {
			res := Affine{}
			first := true
			for _, in := range inits {
				f := ac.form(in, env)
				if first {
					res = f
					first = false
				} else if f.String() != res.String() {
					return ac.atomTerm(v, env)
				}
			}
			ac.selfPhi[x] = true
			defer delete(ac.selfPhi, x)
			for _, be := range backs {
				f := ac.form(be, env)
				self := selfTerm + x.Name()
				if f[self] != 1 {
					return ac.atomTerm(v, env)
				}
				delete(f, self)
				res.add(f, 1)
			}
			return res
		}
		// join: coefficients agreed by all edges are kept; terms present on some edges only are
		// conditional additions (their atoms carry the condition, e.g. a type assertion)
		var forms []Affine
		for _, e := range x.Edges {
			forms = append(forms, ac.form(e, env))
		}
		res := Affine{}
		all := map[string]bool{}
		for _, f := range forms {
			for t := range f {
				all[t] = true
			}
		}
		for t := range all {
			c0 := forms[0][t]
			same := true
			nz := 0
			for _, f := range forms {
				if f[t] != c0 {
					same = false
				}
				if f[t] != 0 {
					nz = f[t]
				}
			}
			if same {
				res[t] = c0
			} else {
				res["cond:"+t] = nz
			}
		}
		return res
	case *ssa.Extract:
		if c, ok := x.Tuple.(*ssa.Call); ok && x.Index == 0 {
			if isCurrencyMethod(&c.Call, "AddWithOverflow") {
				r := ac.form(c.Call.Args[0], env)
				r.add(ac.form(c.Call.Args[1], env), 1)
				return r
			}
			if isCurrencyMethod(&c.Call, "SubWithUnderflow") {
				r := ac.form(c.Call.Args[0], env)
				r.add(ac.form(c.Call.Args[1], env), -1)
				return r
			}
		}
	case *ssa.Call:
		if isCurrencyMethod(&x.Call, "Add") {
			r := ac.form(x.Call.Args[0], env)
			r.add(ac.form(x.Call.Args[1], env), 1)
			return r
		}
		if isCurrencyMethod(&x.Call, "Sub") {
			r := ac.form(x.Call.Args[0], env)
			r.add(ac.form(x.Call.Args[1], env), -1)
			return r
		}
		// closures / small module helpers returning a sum: inline once
		if callee := ac.ge.calleeOf(&x.Call); callee != nil && ac.ge.p.InModule(callee) && ac.inlining < 3 && callee.Parent() != nil {
			if rets := returnsOf(callee); len(rets) == 1 && len(rets[0].Results) == 1 {
				ac.inlining++
				defer func() { ac.inlining-- }()
				return ac.form(rets[0].Results[0], ac.ge.calleeEnv(callee, &x.Call, env))
			}
		}
	case *ssa.BinOp:
		switch x.Op {
		case token.ADD:
			r := ac.form(x.X, env)
			r.add(ac.form(x.Y, env), 1)
			return r
		case token.SUB:
			r := ac.form(x.X, env)
			r.add(ac.form(x.Y, env), -1)
			return r
		}
	case *ssa.UnOp:
		if x.Op == token.MUL {
			// load of a local accumulator (possibly captured by a closure): sum its stores when they form a reduction
			if al, ok := ac.ge.pv.resolve(x.X).(*ssa.Alloc); ok {
				whole, _ := ac.ge.pv.storesTo(al, -1)
				if len(whole) == 1 {
					return ac.form(whole[0], env)
				}
			}
		}
	case *ssa.Convert:
		return ac.form(x.X, env)
	case *ssa.ChangeType:
		return ac.form(x.X, env)
	case *ssa.Const:
		if x.Value != nil && x.Value.ExactString() == "0" {
			return Affine{}
		}
	}
	return ac.atomTerm(v, env)
}

func returnsOf(fn *ssa.Function) []*ssa.Return {
	var out []*ssa.Return
	for _, b := range fn.Blocks {
		if len(b.Instrs) > 0 {
			if r, ok := b.Instrs[len(b.Instrs)-1].(*ssa.Return); ok {
				out = append(out, r)
			}
		}
	}
	return out
}

// equationSides splits a guard condition into the two compared values when it is an (in)equality
// or ordering of two sums.
func equationSides(cond ssa.Value) (ssa.Value, ssa.Value, bool) {
	switch x := cond.(type) {
	case *ssa.UnOp:
		if x.Op == token.NOT {
			return equationSides(x.X)
		}
	case *ssa.BinOp:
		switch x.Op {
		case token.EQL, token.NEQ, token.LSS, token.LEQ, token.GTR, token.GEQ:
			// x.Cmp(y) <op> 0
			if c, ok := x.X.(*ssa.Call); ok && isCurrencyMethod(&c.Call, "Cmp") {
				if k, ok := x.Y.(*ssa.Const); ok && k.Value != nil && k.Value.ExactString() == "0" {
					return c.Call.Args[0], c.Call.Args[1], true
				}
			}
			return x.X, x.Y, true
		}
	case *ssa.Call:
		if isCurrencyMethod(&x.Call, "Equals") {
			return x.Call.Args[0], x.Call.Args[1], true
		}
	}
	return nil, nil, false
}

// An Equation is an expected balance identity: two multisets of term patterns.
type Equation struct {
	ID     string
	Entry  string
	Ops    []string // admissible "rejects iff lhs op rhs" operators
	LHS    []string // term patterns (pat DSL), each must match exactly one term with coefficient 1
	RHS    []string
	Clause string
}

func matchTerms(form Affine, pats []string) (missing []string, extra []string) {
	used := map[string]bool{}
	for _, p := range pats {
		// alternatives of one term (the same quantity reached through a helper): "a || b"
		var res []*regexp.Regexp
		for _, alt := range strings.Split(p, " || ") {
			res = append(res, mustRe(pat(alt)))
		}
		found := false
		for t, c := range form {
			tt := strings.TrimPrefix(t, "cond:")
			if used[t] || c != 1 {
				continue
			}
			m := false
			for _, re := range res {
				if re.MatchString(tt) {
					m = true
				}
			}
			if m {
				used[t] = true
				found = true
				break
			}
		}
		if !found {
			missing = append(missing, p)
		}
	}
	for t, c := range form {
		if !used[t] {
			if c == 1 {
				extra = append(extra, t)
			} else {
				extra = append(extra, fmt.Sprintf("%d*%s", c, t))
			}
		}
	}
	sort.Strings(missing)
	sort.Strings(extra)
	return
}

// CheckEquation finds a rejecting guard whose two sides have exactly the expected affine forms. The identity
// may be split over cases of a nil test: a guard evaluated only where "Q == nil" need not mention terms rooted
// in Q (they are empty there), provided another guard covers "Q != nil". A sum over a collection may be written
// as its element 0 where a rejecting guard forces the collection to have exactly one element.
func (ge *GuardEngine) CheckEquation(c *Ctx, rule string, eq Equation, guards []Guard) {
	best := ""
	bestWhere := ""
	// collections forced to a single element
	single := map[string]bool{}
	for _, g := range guards {
		if !g.Weak && g.Op == "!=" && g.R == "const:1" && strings.HasPrefix(g.L, "len(") && strings.HasSuffix(g.L, ")") {
			single[g.L[4:len(g.L)-1]] = true
		}
	}
	normalise := func(f Affine) Affine {
		if len(single) == 0 {
			return f
		}
		out := Affine{}
		for t, k := range f {
			for x := range single {
				t = strings.ReplaceAll(strings.ReplaceAll(t, x+"[const:0]", x+"[*]"), x+"[0]", x+"[*]")
			}
			out[t] += k
		}
		return out
	}
	nilCtx := regexp.MustCompile(`^(.+) (==|!=) nil$`)
	type caseOK struct {
		q, op, where, desc string
	}
	var cases []caseOK
	for _, g := range guards {
		if g.Weak || g.CondV == nil {
			continue
		}
		a, b, ok := equationSides(g.CondV)
		if !ok {
			continue
		}
		ge.pv.loadCtx = []ssa.Instruction{g.IfPos}
		fa, fb := normalise(ge.AffineOf(a, g.Env)), normalise(ge.AffineOf(b, g.Env))
		// pointers known nil where this guard is evaluated
		var nilQ, nonNilQ []string
		for _, d := range g.Ctx {
			if m := nilCtx.FindStringSubmatch(d); m != nil {
				if m[2] == "==" {
					nilQ = append(nilQ, m[1])
				} else {
					nonNilQ = append(nonNilQ, m[1])
				}
			}
		}
		vacuous := func(missing []string) (rest []string, usedQ string) {
			for _, p := range missing {
				vac := false
				for _, q := range nilQ {
					if strings.HasPrefix(p, q+".") {
						vac, usedQ = true, q
					}
				}
				if !vac {
					rest = append(rest, p)
				}
			}
			return
		}
		for _, orient := range [][2]Affine{{fa, fb}, {fb, fa}} {
			ml, el := matchTerms(orient[0], eq.LHS)
			mr, er := matchTerms(orient[1], eq.RHS)
			// candidate if at least half of the expected terms are present
			present := len(eq.LHS) + len(eq.RHS) - len(ml) - len(mr)
			if present*2 < len(eq.LHS)+len(eq.RHS) {
				continue
			}
			ml, q1 := vacuous(ml)
			mr, q2 := vacuous(mr)
			usedQ := q1
			if usedQ == "" {
				usedQ = q2
			}
			score := len(ml) + len(el) + len(mr) + len(er)
			where := c.P.Pos(g.Pos)
			if score == 0 {
				op := g.Op
				if !opIn(op, eq.Ops) && !opIn(flipOp[op], eq.Ops) {
					best = fmt.Sprintf("the two sides are right but the comparison rejects iff lhs %s rhs (expected %v)", op, eq.Ops)
					bestWhere = where
					continue
				}
				var allowed []*regexp.Regexp
				caseQ, caseOp := "", ""
				if usedQ != "" {
					caseQ, caseOp = usedQ, "=="
				} else {
					for _, q := range nonNilQ {
						// the complementary case of a split: only counts as such if the other side turns up too
						for _, t := range append(append([]string{}, eq.LHS...), eq.RHS...) {
							if strings.HasPrefix(t, q+".") {
								caseQ, caseOp = q, "!="
							}
						}
					}
				}
				if caseQ != "" {
					allowed = append(allowed, regexp.MustCompile("^"+regexp.QuoteMeta(caseQ+" "+caseOp+" nil")+"$"))
				}
				if why := ge.siteProblems(g, allowed); why != "" {
					best = why
					bestWhere = where
					continue
				}
				desc := fmt.Sprintf("rejects unless  %s  ==  %s", orient[0], orient[1])
				if caseQ == "" {
					c.OK(rule, eq.ID, where, desc+"   ["+eq.Clause+"]")
					return
				}
				cases = append(cases, caseOK{caseQ, caseOp, where, desc + "  (where " + caseQ + " " + caseOp + " nil)"})
				continue
			}
			msg := fmt.Sprintf("balance check compares  %s  with  %s ; missing terms: lhs %v rhs %v ; unexpected terms: lhs %v rhs %v", orient[0], orient[1], ml, mr, el, er)
			if best == "" || score < strings.Count(best, "]") {
				best = msg
				bestWhere = where
			}
		}
	}
	// a case split is complete when both sides of the same nil test are covered
	for _, a := range cases {
		for _, b := range cases {
			if a.q == b.q && a.op == "==" && b.op == "!=" {
				c.OK(rule, eq.ID, b.where, a.desc+" ; "+b.desc+"   ["+eq.Clause+"]")
				return
			}
		}
	}
	if len(cases) > 0 && best == "" {
		best = "the identity is only enforced where " + cases[0].q + " " + cases[0].op + " nil (" + cases[0].where + "); no guard covers the other case"
		bestWhere = cases[0].where
	}
	if best == "" {
		best = "no rejecting comparison of two sums with these terms found from " + eq.Entry
	}
	c.Fail(rule, eq.ID, bestWhere, best+" — "+eq.Clause)
}
