package main

import (
	"fmt"
	"go/token"
	"go/types"
	"regexp"
	"strings"

	"golang.org/x/tools/go/ssa"
)

func init() { register("C01", runC01) }

func c01Equations() []Equation {
	sce := v1Elem("siacoinElement", "SiacoinInputs") + "#0.SiacoinOutput.Value"
	sfe := v1Elem("siafundElement", "SiafundInputs") + "#0.SiafundOutput.Value"
	ren := "%T2%.FileContractResolutions[*].Resolution.(types.V2FileContractRenewal)"
	res := "%T2%.FileContractResolutions[*]"
	tax := func(x string) string { return "call (consensus.State).V2FileContractTax(%ST%, " + x + ")" }
	fcv := v1Elem("fileContractElement", "FileContractRevisions") + "#0.FileContract"
	cur := func(f string) string {
		return "phi(%MS%.v2fces[%MS%.elements[%T2%.FileContractRevisions[*].Parent.ID]].Revision." + f + "|%T2%.FileContractRevisions[*].Parent.V2FileContract." + f + ")"
	}
	ne := []string{"!="}
	return []Equation{
		{"miner-payout", VB, ne,
			[]string{"{types.Block}.MinerPayouts[*].Value"},
			[]string{"call (consensus.State).BlockReward({consensus.State})", "{types.Block}.Transactions[*].MinerFees[*]", "{types.Block}.V2.Transactions[*].MinerFee || call (types.Block).V2Transactions({types.Block})[*].MinerFee"},
			"miner fees reappear exactly in the miner payout: payout = block reward + all v1 fees + all v2 fees"},
		{"v1-siacoins", VT, ne,
			[]string{sce},
			[]string{"%T1%.SiacoinOutputs[*].Value", "%T1%.FileContracts[*].Payout", "%T1%.MinerFees[*]"},
			"v1 transaction: siacoin inputs = outputs + contract payouts + miner fees"},
		{"v1-siafunds", VT, ne, []string{sfe}, []string{"%T1%.SiafundOutputs[*].Value"}, "v1 transaction: siafunds in = siafunds out"},
		{"v2-siacoins", V2T, ne,
			[]string{"%T2%.SiacoinInputs[*].Parent.SiacoinOutput.Value", ren + ".RenterRollover", ren + ".HostRollover"},
			[]string{"%T2%.SiacoinOutputs[*].Value", "%T2%.FileContracts[*].RenterOutput.Value", "%T2%.FileContracts[*].HostOutput.Value", tax("%T2%.FileContracts[*]"),
				ren + ".NewContract.RenterOutput.Value", ren + ".NewContract.HostOutput.Value", tax(ren + ".NewContract"), "%T2%.MinerFee"},
			"v2 transaction: inputs + rollovers = outputs + new contracts (renter + host + tax) + renewal contracts (renter + host + tax) + miner fee"},
		{"v2-siafunds", V2T, ne, []string{"%T2%.SiafundInputs[*].Parent.SiafundOutput.Value"}, []string{"%T2%.SiafundOutputs[*].Value"}, "v2 transaction: siafunds in = siafunds out"},
		{"v1-contract-valid-equals-missed", VT, ne, []string{"%T1%.FileContracts[*].ValidProofOutputs[*].Value"}, []string{"%T1%.FileContracts[*].MissedProofOutputs[*].Value"}, "a v1 contract pays the same total on either outcome"},
		{"v1-contract-payout-with-tax", VT, ne, []string{"%T1%.FileContracts[*].Payout"}, []string{"%T1%.FileContracts[*].ValidProofOutputs[*].Value", "call (consensus.State).FileContractTax(%ST%, %T1%.FileContracts[*])"}, "v1 contract payout = outputs + siafund tax"},
		{"v1-revision-valid-sum", VT, ne, []string{"%T1%.FileContractRevisions[*].FileContract.ValidProofOutputs[*].Value"}, []string{fcv + ".ValidProofOutputs[*].Value"}, "a v1 revision never changes the contract's valid total"},
		{"v1-revision-missed-sum", VT, ne, []string{"%T1%.FileContractRevisions[*].FileContract.MissedProofOutputs[*].Value"}, []string{fcv + ".MissedProofOutputs[*].Value"}, "a v1 revision never changes the contract's missed total"},
		{"v2-revision-total", V2T, ne, []string{"%T2%.FileContractRevisions[*].Revision.RenterOutput.Value", "%T2%.FileContractRevisions[*].Revision.HostOutput.Value"}, []string{cur("RenterOutput.Value"), cur("HostOutput.Value")}, "a v2 revision never changes the contract's total value (compared with the contract as it currently stands)"},
		{"v2-renewal-split", V2T, ne, []string{ren + ".FinalRenterOutput.Value", ren + ".RenterRollover", ren + ".FinalHostOutput.Value", ren + ".HostRollover"}, []string{res + ".Parent.V2FileContract.RenterOutput.Value", res + ".Parent.V2FileContract.HostOutput.Value"}, "a renewal splits the old contract's value exactly into final outputs and rollover"},
		{"v2-renewal-rollover-bound", V2T, []string{">"}, []string{ren + ".RenterRollover", ren + ".HostRollover"}, []string{ren + ".NewContract.RenterOutput.Value", ren + ".NewContract.HostOutput.Value", tax(ren + ".NewContract")}, "a renewal never rolls over more than the new contract costs"},
	}
}

func runC01(c *Ctx) {
	c.Explain("Decides the balance equations and value sources that conservation is made of, not the sum over a history: (1) each balance check of block/transaction validation compares two sums whose affine forms (Karr-style, over provenance atoms, loops as sums over the ranged collection) contain exactly the terms the property names — nothing missing, nothing extra — rejects on inequality and cannot be bypassed; (2) every siacoin element the apply side creates is matched to a row of the value-source table (what it is created from, under which ID derivation, whether its maturity is delayed), and every row is realised; siafund claims pay (pool - ClaimStart)/SiafundCount * Value with the pool being the MidState's running revenue and ClaimStart/Value the spent parent's; (3) tax accrual pairing: the running revenue is increased exactly where a contract element is created, by the same tax function the corresponding validation equation uses, new siafund elements start their claim at the running revenue, and block application copies the running revenue into the state; (4) a v1 revision keeps the contract's payout. The arithmetic of BlockReward/FoundationSubsidy/tax formulas and cross-block accounting are not decided.")
	c.NotCovered("arithmetic of BlockReward, FoundationSubsidy, the two tax formulas and the claim quotient", "cross-block accounting (sum over a history)", "the legacy ephemeral window is outside the property by its own text")
	ge := NewGuardEngine(c.P, c.Depth+4)
	cache := map[string][]Guard{}
	for _, eq := range c01Equations() {
		gs, ok := cache[eq.Entry]
		if !ok {
			var found bool
			gs, found = ge.EntryGuards(eq.Entry)
			if !found {
				c.Undecided("balance-equation", eq.ID, eq.Entry, "entry does not resolve")
				continue
			}
			cache[eq.Entry] = gs
			c.NoteCallSites(len(gs))
		}
		ge.CheckEquation(c, "balance-equation", eq, gs)
	}
	c.Min("balance-equation", 12)
	// the claimed value of an ephemeral parent is what the balance equation trusts: from the network's
	// ephemeral-output fix height on it must equal the element created earlier in the block
	esce := "%MS%.sces[%MS%.elements[%T2%.SiacoinInputs[*].Parent.ID]].SiacoinElement"
	fix := "%CH% >= %NET%.HardforkV2.EphemeralOutputHeight"
	eph := []GuardReq{
		req("ephemeral-value-checked", V2T, "%T2%.SiacoinInputs[*].Parent.SiacoinOutput", opNE, esce+".SiacoinOutput", "from the ephemeral-output fix height on, an ephemeral parent's claimed value must equal the created element's (below it the property excludes the legacy window)", ctxEphemeral, fix),
		req("ephemeral-id-checked", V2T, "%T2%.SiacoinInputs[*].Parent.ID", opNE, esce+".ID", "an ephemeral parent must be the element created under that ID", ctxEphemeral, fix),
		req("ephemeral-maturity-checked", V2T, "%T2%.SiacoinInputs[*].Parent.MaturityHeight", opNE, esce+".MaturityHeight", "an ephemeral parent's claimed maturity must equal the created element's", ctxEphemeral, fix),
		req("ephemeral-siafund-rejected", V2T, "%CH%", opGE, "%NET%.HardforkV2.EphemeralOutputHeight", "from the fix height on, ephemeral siafund parents are not accepted at all (their claimed value is never checked)", ctxEphemeral),
	}
	// what an expiry forfeits is valid minus missed: never negative for a revised contract (same era gate)
	for _, r := range c07Table() {
		if r.ID == "v2-revision-missed-host-cap" || r.ID == "v2-new-contract-missed-host" || r.ID == "v2-renewal-contract-missed-host" {
			eph = append(eph, r)
		}
	}
	// the value may be compared as part of the whole output or on its own
	{
		lS, rS := mustRe(pat("%T2%.SiacoinInputs[*].Parent.SiacoinOutput")), mustRe(pat(esce+".SiacoinOutput"))
		lV, rV := mustRe(pat("%T2%.SiacoinInputs[*].Parent.SiacoinOutput.Value")), mustRe(pat(esce+".SiacoinOutput.Value"))
		eph[0].LFn = func(a string) bool { return lS.MatchString(a) || lV.MatchString(a) }
		eph[0].RFn = func(a string) bool { return rS.MatchString(a) || rV.MatchString(a) }
	}
	runGuardTable(c, "ephemeral-guard", ge, eph)
	c.Min("ephemeral-guard", len(eph))
	c01ValueSources(c, ge)
	c01TaxPairing(c, ge)
	c01SiafundBound(c, ge)
	// the scheduled Foundation subsidy: nothing before the hardfork height (the unsigned difference below would
	// wrap), and only on the month boundaries counted from it
	fs := "consensus.(State).FoundationSubsidy"
	sub := []GuardReq{
		req("foundation-not-before-hardfork", fs, "%CH%", opLT, "%NET%.HardforkFoundation.Height", "no Foundation subsidy exists before the Foundation hardfork height"),
		req("foundation-month-boundary", fs, "((%CH% - %NET%.HardforkFoundation.Height) % …)", opNE, "const:0", "after the hardfork the subsidy is paid only every blocks-per-month blocks counted from the hardfork height"),
		req("foundation-void-address", fs, "%ST%.FoundationSubsidyAddress", opEQ, "global types.VoidAddress", "a waived subsidy (void address) is not paid"),
	}
	runGuardTable(c, "subsidy-schedule", ge, sub)
	c.Min("subsidy-schedule", len(sub))
}

// c01SiafundBound: siafund values are plain uint64s and the balance check adds them with "+": the sums are exact only
// because the overflow pre-check bounds EVERY output by the number of siafunds in existence. Decided on the truth
// conditions of the rejecting overflow flag: one of the ways it becomes true is exactly "this output's value exceeds
// SiafundCount()" — a bound on a running sum (which itself wraps) does not count.
func c01SiafundBound(c *Ctx, ge *GuardEngine) {
	const rule = "siafund-bound"
	for _, e := range []struct{ id, entry, txn string }{{"v1", VT, "%T1%"}, {"v2", V2T, "%T2%"}} {
		ent := c.P.Func(e.entry)
		if ent == nil {
			c.Undecided(rule, e.id, e.entry, "entry does not resolve")
			continue
		}
		cmp := pat(e.txn + ".SiafundOutputs[*].Value > call (consensus.State).SiafundCount(%ST%)")
		want := mustRe(cmp)
		inner := mustRe(strings.TrimSuffix(strings.TrimPrefix(cmp, "^"), "$"))
		found, where, flags := false, "", 0
		var cands []*ssa.Function
		for _, b := range ent.Blocks {
			for _, in := range b.Instrs {
				if call, ok := in.(*ssa.Call); ok {
					if g := call.Call.StaticCallee(); g != nil && c.P.InModule(g) && len(g.Blocks) > 0 {
						cands = append(cands, g)
					}
				}
			}
		}
		for _, g := range cands {
			fi := ge.info(g)
			env := &Env{params: map[*ssa.Parameter]string{}, freevars: map[*ssa.FreeVar]string{}}
			// flag cells: a bool local, or a bool field of a local struct; keyed by (allocation, field)
			type cellKey struct {
				base  ssa.Value
				field int
			}
			keyOf := func(addr ssa.Value) (cellKey, bool) {
				pt, isPtr := addr.Type().Underlying().(*types.Pointer)
				if !isPtr || typeName(pt.Elem()) != "bool" {
					return cellKey{}, false
				}
				switch x := addr.(type) {
				case *ssa.Alloc:
					return cellKey{x, -1}, true
				case *ssa.FieldAddr:
					if al, isAl := x.X.(*ssa.Alloc); isAl {
						return cellKey{al, x.Field}, true
					}
				}
				return cellKey{}, false
			}
			rejecting := map[cellKey]bool{}
			var stores []*ssa.Store
			for _, b := range g.Blocks {
				for _, in := range b.Instrs {
					switch x := in.(type) {
					case *ssa.If:
						if ld, isLd := x.Cond.(*ssa.UnOp); isLd && ld.Op == token.MUL {
							if k, ok := keyOf(ld.X); ok && !fi.canAccept[b.Succs[0]] {
								rejecting[k] = true
							}
						}
					case *ssa.Store:
						if _, ok := keyOf(x.Addr); ok {
							stores = append(stores, x)
						}
					}
				}
			}
			flags += len(rejecting)
			for _, st := range stores {
				k, _ := keyOf(st.Addr)
				if !rejecting[k] {
					continue
				}
				ge.pv.loadCtx = []ssa.Instruction{st}
				val := ge.pv.Atom(st.Val, env)
				ge.pv.loadCtx = nil
				if inner.MatchString(val) && !strings.Contains(val, " + ") {
					found, where = true, c.P.Pos(st.Pos())
				}
				if val == "const:true" {
					ctx := ge.condCtx(fi, st.Block(), env)
					if len(ctx) >= 1 && want.MatchString(ctx[len(ctx)-1]) {
						found, where = true, c.P.Pos(st.Pos())
					}
				}
			}
		}
		c.Check(found, rule, e.id, ifElse(found, where, e.entry), ifElse(found, "every siafund output is bounded by SiafundCount() before the outputs are summed", fmt.Sprintf("no rejecting flag of the pre-checks of %s is set exactly when a single siafund output exceeds SiafundCount() (%d flags examined): the uint64 output sum of the balance check can wrap and mint siafunds", e.entry, flags)))
	}
	c.Min(rule, 2)
}

// creation rows: what every siacoin element is created from
type createRow struct {
	id, entry string
	id0       string // pattern of the ID argument
	val       string // pattern of the output argument
	immature  bool
	ctx       []string
	ctxRaw    []string // allowed contexts given as finished regular expressions
	need      []string // contexts (regular expressions) the creation must be under: it pays out only in that case
	alts      []Alt    // for branch-dependent values: each alternative with its context pattern
}

func isCreator(fn *ssa.Function, immature bool) bool {
	if fn == nil || fn.Pkg == nil || relPkg(fn.Pkg.Pkg) != "consensus" {
		return false
	}
	// a creation recorder stores true into Created of a SiacoinElementDiff (directly or through a callee);
	// the immature variant additionally stores the maturity height
	direct := false
	for _, st := range fieldStores(fn, "Created") {
		if fa, ok := st.Addr.(*ssa.FieldAddr); ok && typeName(fa.X.Type()) == "consensus.SiacoinElementDiff" {
			direct = true
		}
	}
	setsMaturity := len(fieldStores(fn, "MaturityHeight")) > 0
	if immature {
		return setsMaturity
	}
	return direct && !setsMaturity
}

func c01ValueSources(c *Ctx, ge *GuardEngine) { valueSources(c, ge, "value-source", nil) }

// valueSources checks the creation table; only (non-nil) selects a subset of rows by id.
func valueSources(c *Ctx, ge *GuardEngine, rule string, only map[string]bool) {
	claim := func(pool, start, val string) string {
		return "lit{Value: call (types.Currency).Mul64(call (types.Currency).Div64(call (types.Currency).Sub(" + pool + ", " + start + "), call (consensus.State).SiafundCount(%ST%)), " + val + "), Address: …ClaimAddress}"
	}
	sfe := v1Elem("siafundElement", "SiafundInputs") + "#0"
	fceSP := v1Elem("fileContractElement", "StorageProofs") + "#0"
	res := "%T2%.FileContractResolutions[*]"
	ren := res + ".Resolution.(types.V2FileContractRenewal)"
	okRen := "ok:" + ren + " is true"
	okSP := "ok:" + res + ".Resolution.(types.V2StorageProof) is true"
	okExp := "ok:" + res + ".Resolution.(types.V2FileContractExpiration) is true"
	rows := []createRow{
		{id: "v1-output", entry: AT, id0: "call (types.Transaction).SiacoinOutputID(%T1%, idx)", val: "%T1%.SiacoinOutputs[*]"},
		{id: "v2-output", entry: A2T, id0: "call (types.V2Transaction).SiacoinOutputID(%T2%, call (types.V2Transaction).ID(%T2%), idx)", val: "%T2%.SiacoinOutputs[*]"},
		{id: "v1-claim", entry: AT, id0: "call (types.SiafundOutputID).ClaimOutputID(%T1%.SiafundInputs[*].ParentID)", val: claim("%MS%.siafundTaxRevenue", sfe+".ClaimStart", sfe+".SiafundOutput.Value"), immature: true},
		{id: "v2-claim", entry: A2T, id0: "call (types.SiafundOutputID).V2ClaimOutputID(%T2%.SiafundInputs[*].Parent.ID)", val: claim("%MS%.siafundTaxRevenue", "%T2%.SiafundInputs[*].Parent.ClaimStart", "%T2%.SiafundInputs[*].Parent.SiafundOutput.Value"), immature: true},
		{id: "v1-storage-proof-valid-outputs", entry: AT, id0: "call (types.FileContractID).ValidOutputID(%T1%.StorageProofs[*].ParentID, idx)", val: fceSP + ".FileContract.ValidProofOutputs[*]", immature: true},
		{id: "v1-expiry-missed-outputs", entry: MAB, id0: "call (types.FileContractID).MissedOutputID({consensus.V1BlockSupplement}.ExpiringFileContracts[*].ID, idx)", val: "{consensus.V1BlockSupplement}.ExpiringFileContracts[*].FileContract.MissedProofOutputs[*]", immature: true,
			ctxRaw: []string{notSpentPat("…ExpiringFileContracts[*].ID")}, need: []string{notSpentPat("…ExpiringFileContracts[*].ID")}},
		{id: "v2-resolution-renter", entry: A2T, id0: "call (types.FileContractID).V2RenterOutputID(" + res + ".Parent.ID)", val: "phi(…)", immature: true,
			alts: []Alt{{ren + ".FinalRenterOutput", []string{okRen}}, {res + ".Parent.V2FileContract.RenterOutput", []string{okSP}}, {res + ".Parent.V2FileContract.RenterOutput", []string{okExp + "|default"}}}},
		{id: "v2-resolution-host", entry: A2T, id0: "call (types.FileContractID).V2HostOutputID(" + res + ".Parent.ID)", val: "phi(…)", immature: true,
			alts: []Alt{{ren + ".FinalHostOutput", []string{okRen}}, {res + ".Parent.V2FileContract.HostOutput", []string{okSP}}, {"call (types.V2FileContract).MissedHostOutput(" + res + ".Parent.V2FileContract)", []string{okExp + "|default"}}}},
		{id: "miner-payouts", entry: MAB, id0: "call (types.BlockID).MinerOutputID(call (types.Block).ID({types.Block}), idx)", val: "{types.Block}.MinerPayouts[*]", immature: true},
		{id: "foundation-subsidy", entry: MAB, id0: "call (types.BlockID).FoundationOutputID(call (types.Block).ID({types.Block}))", val: "call (consensus.State).FoundationSubsidy(%ST%)#0", immature: true,
			ctx: []string{"call (consensus.State).FoundationSubsidy(%ST%)#1 is true"}},
	}
	cache := map[string][]CallFact{}
	matched := map[string]bool{} // call positions explained by a row
	nrows := 0
	for _, r := range rows {
		if only != nil && !only[r.id] {
			continue
		}
		nrows++
		cs, ok := cache[r.entry]
		if !ok {
			var found bool
			cs, found = ge.EntryCalls(r.entry)
			if !found {
				c.Undecided(rule, r.id, r.entry, "entry does not resolve")
				continue
			}
			cache[r.entry] = cs
		}
		idRe, valRe := mustRe(pat(r.id0)), mustRe(pat(r.val))
		var ctxRes []*regexp.Regexp
		for _, x := range r.ctx {
			ctxRes = append(ctxRes, mustRe(pat(x)))
		}
		for _, x := range r.ctxRaw {
			ctxRes = append(ctxRes, mustRe(x))
		}
		var problems []string
		done := false
		for _, cf := range cs {
			if cf.Callee == nil || len(cf.Args) < 3 || !isCreator(cf.Callee, r.immature) {
				continue
			}
			if !idRe.MatchString(cf.Args[1]) {
				continue
			}
			where := c.P.Pos(cf.Pos)
			matched[where] = true
			if !valRe.MatchString(cf.Args[2]) && !valRe.MatchString(ge.pv.ExpandAll(cf.Args[2], r.val)) {
				problems = append(problems, fmt.Sprintf("%s: the element with this ID is created from %s, the property requires %s", where, cf.Args[2], r.val))
				continue
			}
			if bad := unexpectedCtx(cf.Ctx, ctxRes, cf.Args); len(bad) > 0 {
				problems = append(problems, fmt.Sprintf("%s: created only when %s", where, strings.Join(bad, " && ")))
				continue
			}
			missing := ""
			for _, n := range r.need {
				nre, found := mustRe(n), false
				for _, cx := range cf.Ctx {
					if nre.MatchString(cx) {
						found = true
					}
				}
				if !found {
					missing = n
				}
			}
			if missing != "" {
				problems = append(problems, fmt.Sprintf("%s: created whether or not the contract was already resolved in this block (no enclosing test of the spent set): a contract proven in the block its window ends pays out twice", where))
				continue
			}
			if len(r.alts) > 0 {
				if why := checkAlts(cf.Alts[2], r.alts); why != "" {
					problems = append(problems, where+": "+why)
					continue
				}
			}
			c.OK(rule, r.id, where, cf.Name+"("+cf.Args[1]+", "+cf.Args[2]+")"+ifElse(r.immature, "  [delayed by the maturity period]", ""))
			done = true
			break
		}
		if done {
			continue
		}
		if len(problems) == 0 {
			kind := "an immediately spendable"
			if r.immature {
				kind = "a maturity-delayed"
			}
			problems = append(problems, fmt.Sprintf("no creation of %s siacoin element with ID %s reachable from %s", kind, r.id0, r.entry))
		}
		c.Fail(rule, r.id, r.entry, strings.Join(problems, " | "))
	}
	c.Min(rule, nrows)
	if only != nil {
		return
	}
	// no creation call without a row
	for _, entry := range []string{AT, A2T, MAB} {
		for _, cf := range cache[entry] {
			if cf.Callee == nil || len(cf.Args) < 3 {
				continue
			}
			if !(isCreator(cf.Callee, false) || isCreator(cf.Callee, true)) {
				continue
			}
			// nested creator calls (immature -> plain) are the same creation
			if cf.Caller != nil && (isCreator(cf.Caller, true) || isCreator(cf.Caller, false)) {
				continue
			}
			where := c.P.Pos(cf.Pos)
			if entry == MAB && (strings.Contains(strings.Join(cf.Chain, ">"), "ApplyTransaction") || strings.Contains(strings.Join(cf.Chain, ">"), "ApplyV2Transaction")) {
				continue
			}
			if !matched[where] {
				c.Fail("value-source", "unexplained:"+where, where, "a siacoin element is created here ("+cf.Args[1]+" from "+cf.Args[2]+") that no row of the value-source table explains: value appears from nowhere")
			}
		}
	}
}

// checkAlts: the branch alternatives of a value equal the expected (value, context) pairs.
func checkAlts(got []Alt, want []Alt) string {
	if len(got) == 0 {
		return "value is not branch-dependent (one source for all resolution kinds)"
	}
	usedG := map[int]bool{}
	for _, w := range want {
		wre := mustRe(pat(w.Atom))
		found := false
		for gi, g := range got {
			if usedG[gi] || !wre.MatchString(g.Atom) {
				continue
			}
			// the expected context: a positive assertion, or ("|default") all other cases failed
			ctxPat := w.Ctx[0]
			allowDefault := strings.HasSuffix(ctxPat, "|default")
			ctxPat = strings.TrimSuffix(ctxPat, "|default")
			cre := mustRe(pat(ctxPat))
			okc := false
			allNeg := true
			for _, cx := range g.Ctx {
				if cre.MatchString(cx) {
					okc = true
				}
				if strings.HasSuffix(cx, " is true") {
					allNeg = false
				}
			}
			// the last case of a type switch with a rejecting default carries no positive condition of its own:
			// the value read through the asserted type implies the assertion held
			if !okc && allNeg {
				if i := strings.Index(ctxPat, ".("); i >= 0 {
					if j := strings.Index(ctxPat[i:], ")"); j > 0 && strings.Contains(g.Atom, ctxPat[i:i+j+1]) {
						okc = true
					}
				}
			}
			if okc || (allowDefault && allNeg) {
				usedG[gi] = true
				found = true
				break
			}
		}
		if !found {
			return fmt.Sprintf("no branch pays %s when %s (branches: %s)", w.Atom, w.Ctx[0], renderAlts(got))
		}
	}
	for gi, g := range got {
		if !usedG[gi] {
			return fmt.Sprintf("unexpected payout source %s when %s", g.Atom, strings.Join(g.Ctx, " && "))
		}
	}
	return ""
}

func renderAlts(as []Alt) string {
	var out []string
	for _, a := range as {
		out = append(out, a.Atom+" WHEN "+strings.Join(a.Ctx, " && "))
	}
	return strings.Join(out, " ; ")
}

// c01TaxPairing: running tax revenue is written where contracts are created, with the matching tax
// function; new siafund elements take ClaimStart from the running revenue; ApplyBlock copies it.
func c01TaxPairing(c *Ctx, ge *GuardEngine) {
	// (a) all writers of MidState.siafundTaxRevenue
	writers := 0
	for _, fn := range SortedFuncs(c.P.AllFuncs()) {
		if !c.P.InModule(fn) {
			continue
		}
		for _, st := range fieldStores(fn, "siafundTaxRevenue") {
			fa := st.Addr.(*ssa.FieldAddr)
			if typeName(fa.X.Type()) != "consensus.MidState" {
				continue
			}
			name := FuncName(fn)
			a := ge.pv.Atom(st.Val, nil)
			inst := "writer:" + name
			if name == "consensus.NewMidState" {
				ok := mustRe(pat("{consensus.State}.SiafundTaxRevenue")).MatchString(a)
				c.Check(ok, "tax-pairing", inst, c.P.Pos(st.Pos()), ifElse(ok, "running revenue starts from the base state's pool", "running revenue initialised from "+a))
				continue
			}
			writers++
			// must be revenue + Tax(fc) in a function that creates a contract element of the same version
			v1 := mustRe(pat("call (types.Currency).Add(%MS%.siafundTaxRevenue, call (consensus.State).FileContractTax(%ST%, {types.FileContract}))")).MatchString(a)
			v2 := mustRe(pat("call (types.Currency).Add(%MS%.siafundTaxRevenue, call (consensus.State).V2FileContractTax(%ST%, {types.V2FileContract}))")).MatchString(a)
			createsV1, createsV2 := false, false
			for _, cs := range fieldStores(fn, "Created") {
				if cfa, ok := cs.Addr.(*ssa.FieldAddr); ok {
					switch typeName(cfa.X.Type()) {
					case "consensus.FileContractElementDiff":
						createsV1 = true
					case "consensus.V2FileContractElementDiff":
						createsV2 = true
					}
				}
			}
			ok := (v1 && createsV1) || (v2 && createsV2)
			// the contract stored must be the one taxed
			c.Check(ok, "tax-pairing", inst, c.P.Pos(st.Pos()), ifElse(ok, "revenue += tax of the contract created here ("+a+")", "the running tax revenue is set to "+a+" in a function that does not create the matching contract element: tax collected and contract value diverge"))
			if ok && onEveryNormalPath(fn, st.Block()) == false {
				c.Fail("tax-pairing", inst+":always", c.P.Pos(st.Pos()), "the tax increment is skipped on some path that creates the contract")
			}
		}
	}
	c.Check(writers == 2, "tax-pairing", "writers", "", fmt.Sprintf("%d functions accrue tax (expected exactly the v1 and the v2 contract creation recorders)", writers))
	// (b) every creation of a contract element goes through a tax-accruing recorder: calls from AT/A2T
	type crow struct{ id, entry, diff, arg string }
	for _, r := range []crow{
		{"v1-contract", AT, "consensus.FileContractElementDiff", "%T1%.FileContracts[*]"},
		{"v2-contract", A2T, "consensus.V2FileContractElementDiff", "%T2%.FileContracts[*]"},
		{"v2-renewal-contract", A2T, "consensus.V2FileContractElementDiff", "%T2%.FileContractResolutions[*].Resolution.(types.V2FileContractRenewal).NewContract"},
	} {
		cs, ok := ge.EntryCalls(r.entry)
		if !ok {
			c.Undecided("tax-pairing", r.id, r.entry, "entry does not resolve")
			continue
		}
		diff := r.diff
		cr := CallReq{ID: "created-with-tax:" + r.id, Entry: r.entry, CalleeDesc: "a contract creation recorder that accrues tax",
			Callee: func(fn *ssa.Function) bool {
				if fn == nil || len(fieldStores(fn, "siafundTaxRevenue")) == 0 {
					return false
				}
				for _, cs := range fieldStores(fn, "Created") {
					if cfa, ok := cs.Addr.(*ssa.FieldAddr); ok && typeName(cfa.X.Type()) == diff {
						return true
					}
				}
				return false
			},
			Args: map[int]string{2: pat(r.arg)}, Clause: "every created contract (including a renewal's new contract) accrues its tax"}
		CheckCallReq(c, "tax-pairing", cr, cs)
	}
	// (c) new siafund elements start claiming at the running revenue
	n := 0
	for _, fn := range SortedFuncs(c.P.AllFuncs()) {
		if !c.P.InModule(fn) || fn.Pkg == nil || relPkg(fn.Pkg.Pkg) != "consensus" || strings.Contains(fn.Name(), "JSON") {
			continue
		}
		for _, st := range fieldStores(fn, "SiafundElement") {
			fa := st.Addr.(*ssa.FieldAddr)
			if typeName(fa.X.Type()) != "consensus.SiafundElementDiff" {
				continue
			}
			a := ge.pv.Atom(st.Val, nil)
			if !strings.HasPrefix(a, "lit{") {
				continue // a spend recorder stores the parent's copy
			}
			n++
			ok := mustRe(pat("lit{…ClaimStart: %MS%.siafundTaxRevenue…}")).MatchString(a)
			c.Check(ok, "tax-pairing", "claim-start:"+FuncName(fn), c.P.Pos(st.Pos()), ifElse(ok, "a new siafund element's ClaimStart is the running revenue", "a new siafund element is created as "+a+": its ClaimStart is not the MidState's running tax revenue, so tax collected earlier in the block is claimed twice (or not at all)"))
		}
	}
	if n == 0 {
		c.Undecided("tax-pairing", "claim-start", "", "no construction of a new siafund element found")
	}
	// (d) ApplyBlock copies the running revenue into the state
	if fn := c.P.Func(CAB); fn != nil {
		found := false
		for _, st := range fieldStores(fn, "SiafundTaxRevenue") {
			a := ge.pv.Atom(st.Val, nil)
			if mustRe(pat("call consensus.NewMidState({consensus.State}).siafundTaxRevenue")).MatchString(a) {
				found = true
				c.OK("tax-pairing", "state-revenue", c.P.Pos(st.Pos()), "State.SiafundTaxRevenue = MidState's running revenue after the block")
			} else {
				c.Fail("tax-pairing", "state-revenue", c.P.Pos(st.Pos()), "State.SiafundTaxRevenue is set to "+a)
				found = true
			}
		}
		if !found {
			c.Fail("tax-pairing", "state-revenue", c.P.Pos(fn.Pos()), "consensus.ApplyBlock does not carry the running tax revenue into the new state")
		}
	}
	// (e) a v1 revision keeps the payout of the contract it revises
	for _, fn := range SortedFuncs(c.P.AllFuncs()) {
		if !c.P.InModule(fn) || fn.Pkg == nil || relPkg(fn.Pkg.Pkg) != "consensus" {
			continue
		}
		isReviser := false
		for _, st := range fieldStores(fn, "Revision") {
			if fa, ok := st.Addr.(*ssa.FieldAddr); ok && typeName(fa.X.Type()) == "consensus.FileContractElementDiff" {
				isReviser = true
			}
		}
		if !isReviser || strings.Contains(fn.Name(), "JSON") {
			continue
		}
		ok := false
		for _, st := range fieldStores(fn, "Payout") {
			a := ge.pv.Atom(st.Val, nil)
			if mustRe(pat("{types.FileContractElement}.FileContract.Payout")).MatchString(a) && st.Block() == fn.Blocks[0] {
				ok = true
			}
		}
		c.Check(ok, "tax-pairing", "revision-keeps-payout:"+FuncName(fn), c.P.Pos(fn.Pos()), ifElse(ok, "the recorded revision takes the parent contract's payout (the wire form carries a sentinel)", "the v1 revise recorder does not restore the parent's payout into the recorded revision: the contract's locked value becomes the sentinel"))
	}
}
