package main

import (
	"fmt"
	"go/ast"
	"go/constant"
	"go/types"
	"reflect"
	"regexp"
	"sort"
	"strings"

	"golang.org/x/tools/go/packages"
	"golang.org/x/tools/go/types/typeutil"
)

func init() { register("C20", runC20) }

func runC20(c *Ctx) {
	c.Explain("Decides the structural necessary conditions of text/JSON round-tripping. (pairing) every type with MarshalText/MarshalJSON has the matching Unmarshal method on its pointer (or relies on the default decoder of the same struct), and vice versa. (json-keys) for every custom JSON codec the set of keys the unmarshal side reads (helper struct, alias of the type, or the type's own fields; encoding/json matches keys case-insensitively) is contained in the set the marshal side writes, so no field is silently left at its zero value; extra marshal-only keys are reported as convenience keys. (sum-tags) for tagged unions (V2FileContractResolution JSON, SpendPolicy JSON, SpendPolicy String/ParseSpendPolicy) the tag sets of writer and reader are equal and, where the reader names the variant type, each tag maps back to the variant that wrote it. (hidden-state) no struct reachable from a JSON-encoded update, diff, element or state type carries unexported fields without a custom JSON form that covers them: encoding/json drops them, and code that later uses the decoded value (proof refresh) sees zero values. (parse-width) the bitSize handed to strconv.ParseUint/ParseInt equals the width of the integer the parsed value ends in, so every value the formatter can print is accepted and nothing is silently truncated. (unmarshal-guards) every UnmarshalText of a fixed-size identifier rejects input that is too long, too short, of the wrong prefix or alphabet, and the address form rejects a checksum mismatch; fixed-size hex identifiers all go through unmarshalHex on their whole array.")
	c.NotCovered("value equality after a round trip for every value (digit-level formatting, time zones, float precision)", "UTF-8 validity of string fields", "JSON forms produced by encoding/json defaults for plain structs (trusted: encoding/json)")
	c20Pairing(c)
	c20Keys(c)
	c20SumTags(c)
	c20Hidden(c)
	c20ParseWidth(c)
	c20Guards(c)
	c20ListGrammar(c, NewGuardEngine(c.P, c.Depth+2))
	c20LostUpdates(c)
}

type methodSet struct {
	named *types.Named
	pkg   *packages.Package
	decl  map[string]*ast.FuncDecl
}

func jsonTextMethods(c *Ctx) []*methodSet {
	byType := map[*types.TypeName]*methodSet{}
	var order []*methodSet
	for _, suffix := range []string{"types", "consensus", "gateway", "rhp/v2", "rhp/v3", "rhp/v4"} {
		pkg := c.P.Pkg(suffix)
		if pkg == nil {
			continue
		}
		for _, f := range pkg.Syntax {
			for _, d := range f.Decls {
				fd, ok := d.(*ast.FuncDecl)
				if !ok || fd.Recv == nil || fd.Body == nil {
					continue
				}
				switch fd.Name.Name {
				case "MarshalJSON", "UnmarshalJSON", "MarshalText", "UnmarshalText":
				default:
					continue
				}
				t := pkg.TypesInfo.TypeOf(fd.Recv.List[0].Type)
				if pt, ok := t.(*types.Pointer); ok {
					t = pt.Elem()
				}
				n, ok := t.(*types.Named)
				if !ok {
					continue
				}
				ms := byType[n.Obj()]
				if ms == nil {
					ms = &methodSet{named: n, pkg: pkg, decl: map[string]*ast.FuncDecl{}}
					byType[n.Obj()] = ms
					order = append(order, ms)
				}
				ms.decl[fd.Name.Name] = fd
			}
		}
	}
	sort.Slice(order, func(i, j int) bool { return typeName(order[i].named) < typeName(order[j].named) })
	return order
}

// types whose missing half is by design
var c20PairingOK = map[string]string{
	"types.Transaction:UnmarshalJSON":    "marshal-only: adds the convenience key id and output IDs; decoding uses the struct's own tags (checked under json-keys)",
	"types.V2Transaction:UnmarshalJSON":  "marshal-only: adds convenience keys; decoding uses the struct's own tags (checked under json-keys)",
	"types.SiacoinInput:UnmarshalJSON":   "marshal-only: adds the derived address; decoding uses the struct's own tags",
	"types.SiafundInput:UnmarshalJSON":   "marshal-only: adds the derived address; decoding uses the struct's own tags",
	"rhp/v2.HostSettings:UnmarshalJSON":  "marshal-only: decoding uses the struct's own tags (checked under json-keys)",
	"rhp/v4.ProtocolVersion:MarshalJSON": "a [3]uint8 array marshals as a JSON array by default; UnmarshalJSON additionally accepts the text form",
}

func c20Pairing(c *Ctx) {
	n := 0
	for _, ms := range jsonTextMethods(c) {
		tn := typeName(ms.named)
		for _, pr := range [][2]string{{"MarshalText", "UnmarshalText"}, {"MarshalJSON", "UnmarshalJSON"}} {
			a, b := ms.decl[pr[0]], ms.decl[pr[1]]
			if a == nil && b == nil {
				continue
			}
			n++
			missing := ""
			if a == nil {
				missing = pr[0]
			} else if b == nil {
				missing = pr[1]
			}
			where := ""
			if a != nil {
				where = c.P.Pos(a.Pos())
			} else {
				where = c.P.Pos(b.Pos())
			}
			if missing == "" {
				c.OK("pairing", tn+":"+pr[0], where, "has both directions")
				continue
			}
			if why, ok := c20PairingOK[tn+":"+missing]; ok {
				c.Info("pairing", tn+":"+missing, where, "no "+missing+": "+why)
				continue
			}
			c.Fail("pairing", tn+":"+missing, where, tn+" has no "+missing+": its textual form cannot be read back (or written) symmetrically")
		}
	}
	c.Check(n >= 25, "pairing", "inventory", "", fmt.Sprintf("%d text/JSON codec halves inventoried", n))
}

// jsonKeys returns the lower-cased keys encoding/json uses for a struct type (tags, promoted embedded fields).
func jsonKeys(t types.Type, depth int) (map[string]bool, bool) {
	if pt, ok := t.Underlying().(*types.Pointer); ok {
		t = pt.Elem()
	}
	st, ok := t.Underlying().(*types.Struct)
	if !ok || depth > 4 {
		return nil, false
	}
	keys := map[string]bool{}
	for i := 0; i < st.NumFields(); i++ {
		f := st.Field(i)
		tag := reflect.StructTag(st.Tag(i)).Get("json")
		name := strings.Split(tag, ",")[0]
		if name == "-" {
			continue
		}
		if f.Embedded() && name == "" {
			ft := f.Type()
			if pt, ok := ft.Underlying().(*types.Pointer); ok {
				ft = pt.Elem()
			}
			if n, ok := ft.(*types.Named); ok && hasMethod(n, "MarshalJSON") {
				keys[strings.ToLower(f.Name())] = true
				continue
			}
			if sub, ok := jsonKeys(ft, depth+1); ok {
				for k := range sub {
					keys[k] = true
				}
				continue
			}
		}
		if !f.Exported() {
			continue
		}
		if name == "" {
			name = f.Name()
		}
		keys[strings.ToLower(name)] = true
	}
	return keys, true
}

func hasMethod(n *types.Named, name string) bool {
	for _, t := range []types.Type{n, types.NewPointer(n)} {
		ms := types.NewMethodSet(t)
		for i := 0; i < ms.Len(); i++ {
			if ms.At(i).Obj().Name() == name {
				return true
			}
		}
	}
	return false
}

// jsonCallArgTypes: the types handed to json.Marshal / json.Unmarshal(…, dst) inside fd.
func jsonCallArgTypes(pkg *packages.Package, fd *ast.FuncDecl, fn string, argIdx int) []types.Type {
	var out []types.Type
	ast.Inspect(fd.Body, func(n ast.Node) bool {
		call, ok := n.(*ast.CallExpr)
		if !ok || len(call.Args) <= argIdx {
			return true
		}
		f, _ := typeutil.Callee(pkg.TypesInfo, call).(*types.Func)
		if f == nil || f.Pkg() == nil || f.Pkg().Path() != "encoding/json" || f.Name() != fn {
			return true
		}
		out = append(out, pkg.TypesInfo.TypeOf(call.Args[argIdx]))
		return true
	})
	return out
}

func c20Keys(c *Ctx) {
	n := 0
	for _, ms := range jsonTextMethods(c) {
		m, u := ms.decl["MarshalJSON"], ms.decl["UnmarshalJSON"]
		if m == nil && u == nil {
			continue
		}
		tn := typeName(ms.named)
		if _, isStruct := ms.named.Underlying().(*types.Struct); !isStruct {
			continue
		}
		var mk, uk map[string]bool
		// marshal side
		if m != nil {
			for _, t := range jsonCallArgTypes(ms.pkg, m, "Marshal", 0) {
				if ks, ok := jsonKeys(t, 0); ok {
					if mk == nil {
						mk = map[string]bool{}
					}
					for k := range ks {
						mk[k] = true
					}
				}
			}
		} else {
			mk, _ = jsonKeys(ms.named, 0)
		}
		// unmarshal side: the first struct destination
		if u != nil {
			for _, t := range jsonCallArgTypes(ms.pkg, u, "Unmarshal", 1) {
				if ks, ok := jsonKeys(t, 0); ok && uk == nil {
					uk = ks
				}
			}
		} else {
			uk, _ = jsonKeys(ms.named, 0)
		}
		where := ""
		if m != nil {
			where = c.P.Pos(m.Pos())
		} else {
			where = c.P.Pos(u.Pos())
		}
		if mk == nil || uk == nil {
			c.Info("json-keys", tn, where, "codec does not go through a struct on one side (raw splice or scalar): not comparable")
			continue
		}
		n++
		var lost, extra []string
		for k := range uk {
			if !mk[k] {
				if why, ok := c20KeysOK[tn+":"+k]; ok {
					c.Info("json-keys", tn+":"+k, where, "decoder-only key: "+why)
					continue
				}
				lost = append(lost, k)
			}
		}
		for k := range mk {
			if !uk[k] {
				extra = append(extra, k)
			}
		}
		sort.Strings(lost)
		sort.Strings(extra)
		c.Check(len(lost) == 0, "json-keys", tn, where, ifElse(len(lost) == 0, fmt.Sprintf("all %d keys read by the decoder are written by the encoder%s", len(uk), ifElse(len(extra) > 0, " (encoder-only convenience keys: "+strings.Join(extra, ", ")+")", "")), "the decoder reads key(s) "+strings.Join(lost, ", ")+" that the encoder never writes: those fields come back as zero values"))
	}
	c.Check(n >= 8, "json-keys", "inventory", "", fmt.Sprintf("%d custom JSON codecs compared", n))
}

// ---- tagged unions ----

func funcDeclOf(c *Ctx, spec string) (*ast.FuncDecl, *packages.Package) {
	fn := c.P.Func(spec)
	if fn == nil {
		return nil, nil
	}
	obj, _ := fn.Object().(*types.Func)
	if obj == nil {
		return nil, nil
	}
	return c.P.Decl(obj)
}

func firstStringConst(info *types.Info, n ast.Node) string {
	out := ""
	ast.Inspect(n, func(m ast.Node) bool {
		if out != "" {
			return false
		}
		if e, ok := m.(ast.Expr); ok {
			if tv, ok := info.Types[e]; ok && tv.Value != nil && tv.Value.Kind() == constant.String {
				out = constant.StringVal(tv.Value)
				return false
			}
		}
		return true
	})
	return out
}

// writerTags: type-switch clauses -> first string constant in the clause body
func writerTags(pkg *packages.Package, fd *ast.FuncDecl) map[string]string {
	out := map[string]string{}
	ast.Inspect(fd.Body, func(n ast.Node) bool {
		ts, ok := n.(*ast.TypeSwitchStmt)
		if !ok {
			return true
		}
		for _, cc := range ts.Body.List {
			cl := cc.(*ast.CaseClause)
			if len(cl.List) == 0 {
				continue
			}
			tag := ""
			for _, st := range cl.Body {
				if tag = firstStringConst(pkg.TypesInfo, st); tag != "" {
					break
				}
			}
			if tag == "" {
				continue
			}
			tag = strings.TrimSuffix(tag, "(")
			for _, te := range cl.List {
				out[strings.TrimPrefix(typeName(pkg.TypesInfo.TypeOf(te)), "*")] = tag
			}
		}
		return false
	})
	return out
}

// readerTags: switch over string constants -> type names mentioned in the clause body
func readerTags(pkg *packages.Package, fd *ast.FuncDecl) map[string]map[string]bool {
	out := map[string]map[string]bool{}
	info := pkg.TypesInfo
	ast.Inspect(fd.Body, func(n ast.Node) bool {
		ss, ok := n.(*ast.SwitchStmt)
		if !ok || ss.Tag == nil {
			return true
		}
		strCases := 0
		for _, cc := range ss.Body.List {
			cl := cc.(*ast.CaseClause)
			for _, e := range cl.List {
				if tv, ok := info.Types[e]; ok && tv.Value != nil && tv.Value.Kind() == constant.String {
					strCases++
				}
			}
		}
		if strCases < 2 {
			return true
		}
		for _, cc := range ss.Body.List {
			cl := cc.(*ast.CaseClause)
			mentioned := map[string]bool{}
			for _, st := range cl.Body {
				ast.Inspect(st, func(m ast.Node) bool {
					if e, ok := m.(ast.Expr); ok {
						if tv, ok := info.Types[e]; ok && tv.IsType() {
							mentioned[strings.TrimPrefix(typeName(tv.Type), "*")] = true
						}
					}
					return true
				})
			}
			for _, e := range cl.List {
				if tv, ok := info.Types[e]; ok && tv.Value != nil && tv.Value.Kind() == constant.String {
					out[constant.StringVal(tv.Value)] = mentioned
				}
			}
		}
		return false
	})
	return out
}

func c20SumTags(c *Ctx) {
	for _, pr := range []struct {
		name, w, r string
		mapTypes   bool
	}{
		{"V2FileContractResolution/JSON", "types.(V2FileContractResolution).MarshalJSON", "types.(*V2FileContractResolution).UnmarshalJSON", true},
		{"SpendPolicy/JSON", "types.(SpendPolicy).MarshalJSON", "types.(*SpendPolicy).UnmarshalJSON", true},
		{"SpendPolicy/String", "types.(SpendPolicy).String", "types.ParseSpendPolicy", false},
	} {
		wfd, wpkg := funcDeclOf(c, pr.w)
		rfd, rpkg := funcDeclOf(c, pr.r)
		if wfd == nil || rfd == nil {
			c.Undecided("sum-tags", pr.name, "", "anchors do not resolve")
			continue
		}
		c.NoteFunc(pr.w)
		c.NoteFunc(pr.r)
		w := writerTags(wpkg, wfd)
		r := readerTags(rpkg, rfd)
		where := c.P.Pos(wfd.Pos())
		if len(w) == 0 || len(r) == 0 {
			c.Undecided("sum-tags", pr.name, where, "writer or reader is not a switch over variants/tags")
			continue
		}
		var bad []string
		wt := map[string]string{}
		for t, tag := range w {
			wt[tag] = t
			cl, ok := r[tag]
			if !ok {
				bad = append(bad, fmt.Sprintf("tag %q written for %s is not accepted by the reader", tag, t))
			} else if pr.mapTypes && !cl[t] {
				bad = append(bad, fmt.Sprintf("tag %q is written for %s but the reader builds a different variant", tag, t))
			}
		}
		for tag := range r {
			if _, ok := wt[tag]; !ok {
				bad = append(bad, fmt.Sprintf("reader accepts tag %q that no variant writes", tag))
			}
		}
		sort.Strings(bad)
		c.Check(len(bad) == 0, "sum-tags", pr.name, where, ifElse(len(bad) == 0, fmt.Sprintf("%d variants: writer and reader agree on tags%s", len(w), ifElse(pr.mapTypes, " and on the variant each tag denotes", "")), strings.Join(bad, "; ")))
	}
	// every implementer of the variant interfaces has a writer tag
	for _, e := range []struct{ iface, writer string }{{"V2FileContractResolutionType", "types.(V2FileContractResolution).MarshalJSON"}} {
		pkg := c.P.Pkg("types")
		io, _ := pkg.Types.Scope().Lookup(e.iface).(*types.TypeName)
		wfd, wpkg := funcDeclOf(c, e.writer)
		if io == nil || wfd == nil {
			continue
		}
		iface, _ := io.Type().Underlying().(*types.Interface)
		w := writerTags(wpkg, wfd)
		var missing []string
		for _, t := range c.P.Implementers(iface) {
			tn := strings.TrimPrefix(typeName(t), "*")
			if _, ok := w[tn]; !ok && strings.HasPrefix(tn, "types.") {
				missing = append(missing, tn)
			}
		}
		c.Check(len(missing) == 0, "sum-tags", e.iface+":exhaustive", c.P.Pos(wfd.Pos()), ifElse(len(missing) == 0, "every variant has a tag", "variants without a JSON tag: "+strings.Join(missing, ", ")))
	}
	c.Min("sum-tags", 4)
}

// ---- hidden state ----

// c20HiddenOK: unexported fields that are deliberately not part of the JSON form.
var c20HiddenOK = map[string]string{
	"types.StateElement.shared": "ownership marker of the proof memory (Share/Move); a freshly decoded element owns its memory, which is the zero value",
}

// c20KeysOK: decoder keys the encoder deliberately does not write.
var c20KeysOK = map[string]string{
	"types.FileContractRevision:payout": "documented on the type: revisions carry no payout; the decoder sets the sentinel value instead",
}

func c20Hidden(c *Ctx) {
	// roots: helper structs and types handed to json.Marshal by custom marshalers, plus exported module
	// struct types carrying json tags
	type root struct {
		t     types.Type
		where string
		via   string
	}
	var roots []root
	for _, ms := range jsonTextMethods(c) {
		if m := ms.decl["MarshalJSON"]; m != nil {
			for _, t := range jsonCallArgTypes(ms.pkg, m, "Marshal", 0) {
				roots = append(roots, root{t, c.P.Pos(m.Pos()), typeName(ms.named) + ".MarshalJSON"})
			}
		}
	}
	for _, suffix := range []string{"types", "consensus", "rhp/v2", "rhp/v3", "rhp/v4", "gateway"} {
		pkg := c.P.Pkg(suffix)
		if pkg == nil {
			continue
		}
		for _, name := range pkg.Types.Scope().Names() {
			tn, ok := pkg.Types.Scope().Lookup(name).(*types.TypeName)
			if !ok || !tn.Exported() {
				continue
			}
			st, ok := tn.Type().Underlying().(*types.Struct)
			if !ok {
				continue
			}
			tagged := false
			for i := 0; i < st.NumFields(); i++ {
				if reflect.StructTag(st.Tag(i)).Get("json") != "" {
					tagged = true
				}
			}
			if tagged {
				roots = append(roots, root{tn.Type(), c.P.Pos(tn.Pos()), typeName(tn.Type())})
			}
		}
	}
	seen := map[string]bool{}
	reported := map[string]bool{}
	n := 0
	var walk func(t types.Type, path string, r root, depth int)
	walk = func(t types.Type, path string, r root, depth int) {
		if depth > 10 {
			return
		}
		switch u := t.(type) {
		case *types.Pointer:
			walk(u.Elem(), path, r, depth+1)
			return
		case *types.Slice:
			walk(u.Elem(), path+"[]", r, depth+1)
			return
		case *types.Array:
			walk(u.Elem(), path+"[]", r, depth+1)
			return
		case *types.Map:
			walk(u.Elem(), path+"[k]", r, depth+1)
			return
		}
		named, isNamed := t.(*types.Named)
		if isNamed {
			if named.Obj().Pkg() == nil || !strings.HasPrefix(named.Obj().Pkg().Path(), modPath) {
				return
			}
			if hasMethod(named, "MarshalJSON") || hasMethod(named, "MarshalText") {
				return // custom form: checked by json-keys / pairing
			}
			if seen[typeName(named)] {
				return
			}
			seen[typeName(named)] = true
		}
		st, ok := t.Underlying().(*types.Struct)
		if !ok {
			return
		}
		n++
		for i := 0; i < st.NumFields(); i++ {
			f := st.Field(i)
			tag := strings.Split(reflect.StructTag(st.Tag(i)).Get("json"), ",")[0]
			if tag == "-" {
				continue
			}
			if !f.Exported() && !f.Embedded() {
				key := typeName(t) + "." + f.Name()
				if !isNamed {
					key = r.via + ":" + path + "." + f.Name()
				}
				if reported[key] {
					continue
				}
				reported[key] = true
				if why, ok := c20HiddenOK[key]; ok {
					c.Info("hidden-state", key, r.where, "not part of the JSON form: "+why)
					continue
				}
				c.Fail("hidden-state", key, c.P.Pos(f.Pos()), "unexported field "+f.Name()+" of "+typeName(t)+" is reachable from the JSON form of "+r.via+" ("+path+") but encoding/json drops it: a value that went through JSON loses it")
				continue
			}
			walk(f.Type(), path+"."+f.Name(), r, depth+1)
		}
	}
	for _, r := range roots {
		walk(r.t, "", r, 0)
	}
	c.Check(n >= 30, "hidden-state", "inventory", "", fmt.Sprintf("%d struct types reachable from JSON forms examined", n))
}

// ---- parse width ----

func intSigned(t types.Type) bool {
	b, ok := t.Underlying().(*types.Basic)
	return ok && b.Info()&types.IsInteger != 0 && b.Info()&types.IsUnsigned == 0
}

func intWidth(t types.Type) int {
	b, ok := t.Underlying().(*types.Basic)
	if !ok {
		return 0
	}
	switch b.Kind() {
	case types.Uint8, types.Int8:
		return 8
	case types.Uint16, types.Int16:
		return 16
	case types.Uint32, types.Int32:
		return 32
	case types.Uint64, types.Int64, types.Int, types.Uint:
		return 64
	}
	return 0
}

func c20ParseWidth(c *Ctx) {
	n := 0
	for _, suffix := range []string{"types", "consensus", "rhp/v2", "rhp/v3", "rhp/v4", "gateway"} {
		pkg := c.P.Pkg(suffix)
		if pkg == nil {
			continue
		}
		info := pkg.TypesInfo
		for _, file := range pkg.Syntax {
			for _, d := range file.Decls {
				fd, ok := d.(*ast.FuncDecl)
				if !ok || fd.Body == nil {
					continue
				}
				parents := map[ast.Node]ast.Node{}
				var stack []ast.Node
				ast.Inspect(fd.Body, func(nd ast.Node) bool {
					if nd == nil {
						stack = stack[:len(stack)-1]
						return false
					}
					if len(stack) > 0 {
						parents[nd] = stack[len(stack)-1]
					}
					stack = append(stack, nd)
					return true
				})
				// parse helpers: closures whose int parameter is the bitSize of a ParseUint/ParseInt call
				helpers := map[types.Object]int{} // closure variable -> parameter index
				type site struct {
					call   *ast.CallExpr
					bits   int64
					signed bool // strconv.ParseInt (true) or ParseUint (false)
				}
				helperSigned := map[types.Object]bool{}
				var sites []site
				ast.Inspect(fd.Body, func(nd ast.Node) bool {
					call, ok := nd.(*ast.CallExpr)
					if !ok {
						return true
					}
					f, _ := typeutil.Callee(info, call).(*types.Func)
					if f == nil || f.Pkg() == nil || f.Pkg().Path() != "strconv" || (f.Name() != "ParseUint" && f.Name() != "ParseInt") || len(call.Args) != 3 {
						return true
					}
					if tv := info.Types[call.Args[2]]; tv.Value != nil {
						b, _ := constant.Int64Val(tv.Value)
						sites = append(sites, site{call, b, f.Name() == "ParseInt"})
						return true
					}
					// bitSize is a parameter of an enclosing function literal bound to a local
					if id, ok := call.Args[2].(*ast.Ident); ok {
						for p := parents[call]; p != nil; p = parents[p] {
							fl, ok := p.(*ast.FuncLit)
							if !ok {
								continue
							}
							idx, k := -1, 0
							for _, fld := range fl.Type.Params.List {
								for _, nm := range fld.Names {
									if info.Defs[nm] == info.Uses[id] {
										idx = k
									}
									k++
								}
							}
							if idx < 0 {
								break
							}
							if as, ok := parents[fl].(*ast.AssignStmt); ok && len(as.Lhs) == 1 {
								if lid, ok := as.Lhs[0].(*ast.Ident); ok {
									if o := info.Defs[lid]; o != nil {
										helpers[o] = idx
										helperSigned[o] = f.Name() == "ParseInt"
									} else if o := info.Uses[lid]; o != nil {
										helpers[o] = idx
										helperSigned[o] = f.Name() == "ParseInt"
									}
								}
							}
							break
						}
					}
					return true
				})
				ast.Inspect(fd.Body, func(nd ast.Node) bool {
					call, ok := nd.(*ast.CallExpr)
					if !ok {
						return true
					}
					id, ok := call.Fun.(*ast.Ident)
					if !ok {
						return true
					}
					idx, isHelper := helpers[info.Uses[id]]
					if !isHelper || idx >= len(call.Args) {
						return true
					}
					if tv := info.Types[call.Args[idx]]; tv.Value != nil {
						b, _ := constant.Int64Val(tv.Value)
						sites = append(sites, site{call, b, helperSigned[info.Uses[id]]})
					}
					return true
				})
				for _, s := range sites {
					widths := destWidths(info, parents, fd, s.call)
					if len(widths) == 0 {
						continue
					}
					n++
					fname := fd.Name.Name
					inst := fmt.Sprintf("%s:%s", fname, c.P.Pos(s.call.Pos()))
					var bad []string
					for _, w := range widths {
						if int64(w.bits) != s.bits {
							bad = append(bad, fmt.Sprintf("%s is %d bits", w.what, w.bits))
						}
						if w.signed != s.signed {
							bad = append(bad, fmt.Sprintf("%s is %s but the text is parsed as %s (negative values the formatter prints are refused, or out-of-range values wrap)", w.what, ifElse(w.signed, "signed", "unsigned"), ifElse(s.signed, "signed", "unsigned")))
						}
					}
					inst = fmt.Sprintf("%s:%s", fname, strings.Join(destNames(widths), "+"))
					c.Check(len(bad) == 0, "parse-width", inst, c.P.Pos(s.call.Pos()), ifElse(len(bad) == 0, fmt.Sprintf("parsed with bitSize %d into %s", s.bits, strings.Join(destNames(widths), ", ")), fmt.Sprintf("parsed with bitSize %d but %s: values the formatter prints are refused, or accepted values are truncated", s.bits, strings.Join(bad, "; "))))
				}
			}
		}
	}
	c.Check(n >= 4, "parse-width", "inventory", "", fmt.Sprintf("%d integer parse sites with a typed destination analysed", n))
}

type destW struct {
	what   string
	bits   int
	signed bool
}

func destNames(ws []destW) []string {
	var out []string
	for _, w := range ws {
		out = append(out, w.what)
	}
	sort.Strings(out)
	return out
}

// destWidths: where does the value of call end up? direct context, or through one local variable.
func destWidths(info *types.Info, parents map[ast.Node]ast.Node, fd *ast.FuncDecl, call *ast.CallExpr) []destW {
	var out []destW
	var ctx func(e ast.Expr, depth int)
	ctx = func(e ast.Expr, depth int) {
		p := parents[e]
		for {
			if pe, ok := p.(*ast.ParenExpr); ok {
				e, p = pe, parents[pe]
				continue
			}
			break
		}
		switch x := p.(type) {
		case *ast.CallExpr:
			if tv, ok := info.Types[x.Fun]; ok && tv.IsType() {
				if w := intWidth(tv.Type); w > 0 {
					out = append(out, destW{"conversion to " + typeName(tv.Type), w, intSigned(tv.Type)})
				}
				return
			}
			if f, _ := typeutil.Callee(info, x).(*types.Func); f != nil {
				sig := f.Type().(*types.Signature)
				for i, a := range x.Args {
					if a == e && i < sig.Params().Len() {
						if w := intWidth(sig.Params().At(i).Type()); w > 0 {
							out = append(out, destW{"parameter " + sig.Params().At(i).Name() + " of " + f.Name(), w, intSigned(sig.Params().At(i).Type())})
						}
					}
				}
			}
		case *ast.KeyValueExpr:
			if x.Value == e {
				if id, ok := x.Key.(*ast.Ident); ok {
					if f, _ := info.Uses[id].(*types.Var); f != nil && f.IsField() {
						if w := intWidth(f.Type()); w > 0 {
							out = append(out, destW{"field " + f.Name(), w, intSigned(f.Type())})
						}
					}
				}
			}
		case *ast.AssignStmt:
			for i, r := range x.Rhs {
				if r != e && !(len(x.Rhs) == 1 && x.Rhs[0] == e) {
					continue
				}
				if i >= len(x.Lhs) {
					continue
				}
				switch l := x.Lhs[i].(type) {
				case *ast.SelectorExpr:
					if f, _ := info.Uses[l.Sel].(*types.Var); f != nil && f.IsField() {
						if w := intWidth(f.Type()); w > 0 {
							out = append(out, destW{"field " + f.Name(), w, intSigned(f.Type())})
						}
					}
				case *ast.Ident:
					if depth > 0 {
						continue
					}
					o := info.Defs[l]
					if o == nil {
						o = info.Uses[l]
					}
					if o == nil {
						continue
					}
					// named result of the enclosing closure: not followed
					ast.Inspect(fd.Body, func(nd ast.Node) bool {
						if id, ok := nd.(*ast.Ident); ok && id != l && info.Uses[id] == o {
							ctx(id, depth+1)
						}
						return true
					})
				}
			}
		}
	}
	ctx(call, 0)
	return out
}

// ---- unmarshal guards ----

func c20Guards(c *Ctx) {
	ge := NewGuardEngine(c.P, c.Depth+2)
	any := "…"
	tab := []GuardReq{
		req("unmarshalHex:too-long", "types.unmarshalHex", "len({[]byte#2})", opGT, "(len({[]byte}) * const:2)", "hex input longer than the identifier is rejected"),
		req("unmarshalHex:alphabet", "types.unmarshalHex", "…", opNE, "nil", "non-hex characters are rejected", any),
		req("unmarshalHex:too-short", "types.unmarshalHex", "call encoding/hex.Decode(…)#0", opLT, "len({[]byte})", "hex input shorter than the identifier is rejected", any),
		func() GuardReq {
			r := req("Address:length", "types.(*Address).UnmarshalText", "len({[]byte})", opNE, "(len(…) * const:2)", "an address string of the wrong length is rejected")
			// twice the decoded length (32 bytes + 6 checksum bytes), written as an expression or folded to 76
			re2 := regexp.MustCompile(pat("(len(…) * const:2)"))
			r.RFn = func(a string) bool { return re2.MatchString(a) || a == "const:76" }
			return r
		}(),
		req("Address:alphabet", "types.(*Address).UnmarshalText", "call encoding/hex.Decode(…)#1", opNE, "nil", "non-hex characters are rejected", any),
		req("Address:checksum", "types.(*Address).UnmarshalText", "call bytes.Equal(…)", opF, "", "an address whose checksum does not match its body is rejected", any),
		req("PublicKey:separator", "types.(*PublicKey).UnmarshalText", "call bytes.IndexByte({[]byte}, const:58)", opLT, "const:0", "a key without the algorithm prefix is rejected"),
		req("PublicKey:prefix", "types.(*PublicKey).UnmarshalText", "…", opNE, "const:\"ed25519\"", "a key with another algorithm prefix is rejected", any),
		req("ChainIndex:separator", "types.(*ChainIndex).UnmarshalText", "len(call bytes.Split(…))", opNE, "const:2", "height::id needs exactly one separator"),
		req("ChainIndex:height", "types.(*ChainIndex).UnmarshalText", "call strconv.ParseUint(…)#1", opNE, "nil", "a malformed height is rejected", any),
		req("ChainIndex:too-long", "types.(*ChainIndex).UnmarshalText", "call encoding/hex.DecodedLen(…)", opGT, "const:32", "an over-long ID is rejected before decoding", any),
		req("ChainIndex:alphabet", "types.(*ChainIndex).UnmarshalText", "call encoding/hex.Decode(…)#1", opNE, "nil", "non-hex characters are rejected", any),
		req("ChainIndex:too-short", "types.(*ChainIndex).UnmarshalText", "call encoding/hex.Decode(…)#0", opLT, "const:32", "a short ID is rejected", any),
		req("Specifier:too-long", "types.(*Specifier).UnmarshalText", "len(…)", opGT, "const:16", "a specifier longer than 16 bytes is rejected", any),
		req("UnlockKey:separator", "types.(*UnlockKey).UnmarshalText", "call bytes.LastIndexByte({[]byte}, const:58)", opLT, "const:0", "algorithm:key needs a separator"),
		req("StorageProof:leaf-length", "types.(*StorageProof).UnmarshalJSON", "len(…)", opNE, "const:128", "a storage proof leaf of the wrong length is rejected", any),
	}
	tab = append(tab,
		req("v4.Account:too-long", "rhp/v4.(*Account).UnmarshalText", "call encoding/hex.DecodedLen(…)", opGT, "const:32", "an over-long account key is rejected before decoding"),
		req("v4.Account:alphabet", "rhp/v4.(*Account).UnmarshalText", "call encoding/hex.Decode(…)#1", opNE, "nil", "non-hex characters (including a foreign prefix) are rejected", any),
		req("v4.Account:too-short", "rhp/v4.(*Account).UnmarshalText", "call encoding/hex.Decode(…)#0", opLT, "const:32", "a short account key is rejected", any),
	)
	for i := range tab {
		if tab[i].ID == "unmarshalHex:too-short" {
			tab[i].Weak = true // sets the error that the next branch returns
		}
	}
	runGuardTable(c, "unmarshal-guards", ge, tab)
	// every fixed-size hex identifier delegates to unmarshalHex over its whole array
	n := 0
	for _, ms := range jsonTextMethods(c) {
		u := ms.decl["UnmarshalText"]
		if u == nil {
			continue
		}
		at, ok := ms.named.Underlying().(*types.Array)
		if !ok {
			continue
		}
		if b, ok := at.Elem().Underlying().(*types.Basic); !ok || b.Kind() != types.Uint8 {
			continue
		}
		tn := typeName(ms.named)
		fn := c.P.Func(strings.Replace(tn, ".", ".(*", 1) + ").UnmarshalText")
		if fn == nil {
			// package path has a slash: build the spec by hand
			i := strings.LastIndex(tn, ".")
			fn = c.P.Func(tn[:i] + ".(*" + tn[i+1:] + ").UnmarshalText")
		}
		if fn == nil {
			c.Undecided("unmarshal-guards", tn+":delegates", "", "method does not resolve")
			continue
		}
		as := ge.ReturnAtoms(fn, 0)
		deleg := false
		for _, a := range as {
			for _, alt := range splitPhi(a) {
				if strings.HasPrefix(alt, "call types.unmarshalHex({"+tn+"}") || strings.HasPrefix(alt, "call (types.PublicKey).UnmarshalText(") {
					deleg = true
				}
			}
		}
		own := map[string]bool{"types.Address": true, "types.Specifier": true, "rhp/v4.Account": true, "rhp/v4.ProtocolVersion": true}
		if own[tn] {
			c.Info("unmarshal-guards", tn+":delegates", c.P.Pos(u.Pos()), "own format with its own guards (see rows above)")
			continue
		}
		n++
		// rhp/v4.Account and others may strip a prefix first: accept delegation anywhere in the returns
		c.Check(deleg, "unmarshal-guards", tn+":delegates", c.P.Pos(u.Pos()), ifElse(deleg, "decodes through unmarshalHex over the whole "+fmt.Sprint(at.Len())+"-byte array (length both ways and alphabet checked there)", tn+".UnmarshalText returns "+joinShort(as)+": fixed-size identifiers must reject over-long, short and non-hex input (unmarshalHex does)"))
	}
	c.Check(n >= 8, "unmarshal-guards", "delegation-inventory", "", fmt.Sprintf("%d fixed-size hex identifier types checked for delegation", n))
	c.Min("unmarshal-guards", len(tab)+8)
}
