package main

import (
	"fmt"
	"go/types"
	"regexp"
	"sort"
	"strings"

	"golang.org/x/tools/go/ssa"
)

func init() { register("C10", runC10) }

// c10Entries: every function that consumes untrusted input.
func c10Entries(c *Ctx) (decode []*ssa.Function, validate []*ssa.Function) {
	progs := ExtractWirePrograms(c.P)
	seen := map[*ssa.Function]bool{}
	for _, n := range sortedKeys(progs) {
		wp := progs[n]
		if wp.Side != "dec" {
			continue
		}
		if fn := c.P.SSA.FuncValue(wp.Fn); fn != nil && !seen[fn] {
			seen[fn] = true
			decode = append(decode, fn)
		}
	}
	for _, fn := range SortedFuncs(c.P.AllFuncs()) {
		if !c.P.InModule(fn) || fn.Pkg == nil || fn.Synthetic != "" || seen[fn] || strings.Contains(fn.Pkg.Pkg.Path(), "/internal/") {
			continue
		}
		n := fn.Name()
		if n == "UnmarshalJSON" || n == "UnmarshalText" || strings.HasPrefix(n, "Parse") || strings.HasPrefix(n, "parse") || n == "unmarshalHex" {
			if fn.Parent() == nil {
				seen[fn] = true
				decode = append(decode, fn)
			}
		}
	}
	for _, s := range []string{VT, V2T, VB, "consensus.ValidateOrphan", "consensus.ValidateHeader", AT, A2T} {
		if fn := c.P.Func(s); fn != nil {
			validate = append(validate, fn)
		} else {
			c.Undecided("sink-discharged", "anchor:"+s, "", "entry point does not resolve")
		}
	}
	_ = types.Typ
	return
}

func runC10(c *Ctx) {
	c.Explain("Decides the structural clauses of 'untrusted input never crashes a node': (1) in every function reachable from a decoder, unmarshaller or parser entry (module calls followed with parameter substitution) every operation that the runtime turns into a panic or an unbounded allocation when its operand is out of range — indexing, slicing, make/Grow with a computed size, hex decoding into a fixed array, integer division, unchecked type assertion, explicit panic — is dominated, on the side where the bound holds, by a comparison of that operand (same provenance) with a suitable bound (length of the indexed object, a constant within the array, the decoder's remaining-byte count), or is in range by construction (range index, length-derived bound, byte-typed size); (2) the same for the validators (block, transaction, header), where the operands derive from the untrusted transaction; (3) the guard rows whose sufficiency is arithmetic and which the generic rule cannot derive (multiproof leaf index vs leaf count, policy nesting depth, outline kind/count cross-checks, slice-decoder length prefix vs remaining bytes); (4) panicking Currency arithmetic in the validators only on operands covered by the transaction's overflow pre-check; (5) every lookup-failure panic on the apply side has a rejecting counterpart on the validate side. Termination of value-bounded loops and memory 'in proportion' beyond allocation sizing are not decided.")
	c.NotCovered("termination of loops whose bounds are data-dependent but value-bounded", "panics that depend on accumulator-shape invariants in apply/revert (updateLeaves)", "stack depth of ParseSpendPolicy")
	ge := NewGuardEngine(c.P, 5)
	decode, validate := c10Entries(c)
	type rec struct {
		s   Sink
		why string
		ok  bool
	}
	covered := map[string]map[string]bool{}
	during := map[string]bool{} // functions that run while the pre-check is still accumulating
	for _, e := range []string{VT, V2T} {
		covered[e] = precheckCovered(c, ge, e, during)
	}
	c.Extra("overflow_precheck_terms_v1", sortedKeys(covered[VT]))
	c.Extra("overflow_precheck_terms_v2", sortedKeys(covered[V2T]))
	byKey := map[string][]rec{}
	nsinks := 0
	for _, group := range [][]*ssa.Function{decode, validate} {
		for _, fn := range group {
			c.NoteFunc(FuncName(fn))
			for _, s := range ge.Sinks(fn, nil, nil, nil, 0, map[*ssa.Function]int{}) {
				ok, why := s.Discharged()
				if !ok {
					if ok2, why2 := ge.LinearDischarge(s); ok2 {
						ok, why = true, why2
					}
				}
				if s.Kind == "checked-arith" {
					if i := strings.LastIndex(s.Expr, " ⊕ "); i >= 0 {
						s.Expr = strings.SplitN(s.Expr, " ", 2)[0] + " … ⊕ " + s.Expr[i+len(" ⊕ "):]
					}
					if FuncName(fn) == "consensus.ValidateBlock" || FuncName(fn) == "consensus.ValidateOrphan" {
						continue // decided from the transaction-level entries, whose atoms the pre-check is expressed in
					}
					cov := covered[VT]
					if strings.Contains(strings.Join(s.Chain, ">"), "V2") {
						cov = covered[V2T]
					}
					ok, why = arithCovered(s, cov)
					// arithmetic executed while the pre-check is still summing cannot rely on its verdict: it needs
					// its own overflow test on the same operands
					inPre := false
					for _, f := range s.Chain {
						if during[f] {
							inPre = true
						}
					}
					if inPre && ok && strings.HasPrefix(s.Expr, "Add ") {
						ok, why = precheckLocal(s)
					}
				}
				if s.Kind == "panic" {
					ok, why = lookupPanicPaired(s)
				}
				if en := FuncName(fn); (en == "(consensus.MidState).ApplyTransaction" || en == "(consensus.MidState).ApplyV2Transaction") && s.Kind != "checked-arith" {
					continue // the apply entries are analysed for arithmetic only; their other sinks are reached (with validation context) from ValidateBlock
				}
				nsinks++
				k := sinkKey(s)
				byKey[k] = append(byKey[k], rec{s, why, ok})
			}
		}
	}
	c.Extra("entries_decode", len(decode))
	c.Extra("entries_validate", len(validate))
	c.Extra("sink_evaluations", nsinks)
	keys := make([]string, 0, len(byKey))
	for k := range byKey {
		keys = append(keys, k)
	}
	sort.Strings(keys)
	for _, k := range keys {
		rs := byKey[k]
		// a sink must be discharged in every call chain that reaches it
		var bad *rec
		for i := range rs {
			if !rs[i].ok {
				bad = &rs[i]
				break
			}
		}
		s := rs[0].s
		where := c.P.Pos(s.Pos)
		if why, ok := reviewedSinks[k]; ok {
			c.Info("sink-discharged", k, where, "reviewed exception: "+why)
			continue
		}
		skip := false
		if strings.HasPrefix(k, "consensus.validateSignatures:index:index make[") && strings.HasSuffix(k, ".used") {
			c.Info("sink-discharged", k, where, "reviewed exception: e.used is made with len(e.keys) in the same literal; PublicKeyIndex is bounded against len(e.keys) (row v1-sig-key-index)")
			continue
		}
		for _, ro := range reviewedSinkOperands {
			if s.Kind == ro.kind && ro.base.MatchString(s.Base) && ro.operand.MatchString(s.Operand) && strings.HasPrefix(FuncName(s.Fn), ro.pkgPrefix) {
				c.Info("sink-discharged", k, where, "reviewed exception: "+ro.why)
				skip = true
			}
		}
		// a recorder: the function that maintains the ID index itself (writes elements[id] together with an
		// append) reads an index it recorded under this element type; by what the function does, not by its name
		if fnm := FuncName(s.Fn); s.Kind == "index" && strings.Contains(s.Operand, ".elements[") && (strings.HasPrefix(fnm, "consensus.") || strings.HasPrefix(fnm, "(consensus.")) {
			if isIndexRecorder(s.Fn) {
				c.Info("sink-discharged", k, where, "reviewed exception: index obtained from ms.elements inside the function that records it together with the append (see comment on reviewedSinkPrefixes)")
				skip = true
			}
		}
		for pre, why := range reviewedSinkPrefixes {
			if strings.HasPrefix(k, pre) {
				c.Info("sink-discharged", k, where, "reviewed exception: "+why)
				skip = true
			}
		}
		if skip {
			continue
		}
		if bad == nil {
			c.OK("sink-discharged", k, where, fmt.Sprintf("%s of %s: %s", s.Kind, short(s.Operand), rs[0].why))
			continue
		}
		var conds []string
		for _, cd := range bad.s.Conds {
			conds = append(conds, cd.String())
		}
		if bad.s.Kind == "checked-arith" {
			c.Fail("sink-discharged", k, c.P.Pos(bad.s.Pos), fmt.Sprintf("panicking Currency arithmetic on values that neither the transaction's overflow pre-check nor element validation bounds: %s (reached via %s)", short(bad.why), strings.Join(bad.s.Chain, " > ")))
			continue
		}
		c.Fail("sink-discharged", k, c.P.Pos(bad.s.Pos), fmt.Sprintf("%s with operand %s on %s(len %d) is not dominated by a bound check on that operand (reached via %s; known at that point: %s): a crafted input makes this panic or allocate without bound", bad.s.Kind, short(bad.s.Operand), short(bad.s.Base), bad.s.BaseLen, strings.Join(bad.s.Chain, " > "), short(strings.Join(conds, " && "))))
	}
	c.Min("sink-discharged", 60)
	c10GuardRows(c)
}

// c10GuardRows: the bound checks whose sufficiency is arithmetic (the generic sink rule cannot derive
// it) and the checks that establish the invariants the reviewed exceptions rest on.
func c10GuardRows(c *Ctx) {
	ge := NewGuardEngine(c.P, c.Depth+4)
	weak := func(r GuardReq) GuardReq { r.Weak = true; r.All = true; return r }
	all := func(r GuardReq) GuardReq { r.All = true; return r }
	rd := "call (types.Decoder).ReadUint64({types.Decoder})"
	leaf := "…LeafIndex"
	rows := []GuardReq{
		weak(req("slice-prefix-vs-remaining:DecodeSlice", "types.DecodeSlice", rd, opGT, "{types.Decoder}.lr.N", "a length prefix larger than the bytes left in the stream is rejected before anything is allocated or looped over")),
		weak(req("slice-prefix-vs-remaining:DecodeSliceFn", "types.DecodeSliceFn", rd, opGT, "{types.Decoder}.lr.N", "as above, for the function-element slice decoder")),
		weak(req("bytes-prefix-vs-remaining", "types.(*Decoder).ReadBytes", "call (types.Decoder).ReadUint64({types.Decoder})", opGT, "{types.Decoder}.lr.N", "a byte-string prefix larger than the bytes left in the stream is rejected before allocation")),
		weak(req("v1currency-length", "types.(*V1Currency).DecodeFrom", rd, opGT, "const:16", "a v1 currency longer than 16 bytes is rejected before the buffer is sliced")),
		all(req("policy-depth", "types.(*SpendPolicy).DecodeFrom", "…", opGT, "const:32", "policy nesting is bounded so that decoding cannot exhaust the stack")),
		weak(req("multiproof-leaf-index", "types.(*V2TransactionsMultiproof).DecodeFrom", leaf, opGE, rd, "a leaf index not below the claimed leaf count is rejected (the proof length bits.Len64(index^count)-1 would be negative or meaningless)")),
		weak(req("multiproof-bail-on-error", "types.(*V2TransactionsMultiproof).DecodeFrom", "call (types.Decoder).Err({types.Decoder})", opNE, "nil", "expansion is skipped once an error was recorded (multiproofSize / expandMultiproof assume valid indices)")),
		weak(req("outline-kind-range", "gateway.(*V2BlockOutline).decodeFrom", "make[*]", opGT, "const:2", "an outline kind outside 0..2 is rejected before it indexes the counters")),
		weak(req("outline-count-crosscheck:0", "gateway.(*V2BlockOutline).decodeFrom", "zero[0]", opNE, "len(…)", "the number of kind-0 entries must equal the number of v1 transactions received")),
		weak(req("outline-count-crosscheck:1", "gateway.(*V2BlockOutline).decodeFrom", "zero[1]", opNE, "len(…)", "the number of kind-1 entries must equal the number of v2 transactions received", "zero[0] == len(…)")),
		weak(req("outline-count-crosscheck:2", "gateway.(*V2BlockOutline).decodeFrom", "zero[2]", opNE, "len(…)", "the number of kind-2 entries must equal the number of hashes received", "zero[0] == len(…)", "zero[1] == len(…)")),
		req("accumulator-json-length", "consensus.(*ElementAccumulator).UnmarshalJSON", "len(….Trees)", opNE, "call math/bits.OnesCount64(….NumLeaves)", "the number of roots must equal the number of set bits of the leaf count"),
		req("ephemeral-index-bound:siacoin", V2T, "%MS%.elements[%T2%.SiacoinInputs[*].Parent.ID]", opGE, "len(%MS%.sces)", "the shared ID index of an ephemeral parent must be in range for the siacoin diffs (IDs of other element types share the map)", ctxEphemeral),
		req("ephemeral-index-bound:siafund", V2T, "%MS%.elements[%T2%.SiafundInputs[*].Parent.ID]", opGE, "len(%MS%.sfes)", "the shared ID index of an ephemeral parent must be in range for the siafund diffs", ctxEphemeral),
		req("v1-sig-key-index", VT, "%T1%.Signatures[*].PublicKeyIndex", opGE, "len(make[%T1%.Signatures[*].ParentID].keys)", "a signature must point to an existing key"),
	}
	for _, k := range []struct{ fn, slice, elem string }{
		{"siacoinElement", "sces", "SiacoinElement"}, {"siafundElement", "sfes", "SiafundElement"}, {"fileContractElement", "fces", "FileContractElement"}, {"storageProofWindowID", "fces", "FileContractElement"},
	} {
		e := "consensus.(*MidState)." + k.fn
		idx := "{consensus.MidState}.elements[{types.%ID%}]"
		rows = append(rows,
			weak(req("lookup-index-in-range:"+k.fn, e, idx, opLT, "len({consensus.MidState}."+k.slice+")", "the ID index shared by all element types must be in range for this type's diffs", "ok:{consensus.MidState}.elements[…] is true")),
			weak(req("lookup-id-matches:"+k.fn, e, "{consensus.MidState}."+k.slice+"["+idx+"]."+k.elem+".ID", opEQ, "{types.%ID%}", "the element found under the shared index must carry the requested ID (an ID of another element type must not resolve to this type's diff)", "ok:{consensus.MidState}.elements[…] is true", idx+" < len(…)")))
	}
	runGuardTable(c, "bound-guard", ge, rows)
	c.Min("bound-guard", len(rows))
}

// precheckCovered: the Currency values that the transaction's overflow pre-check sums (arguments of
// the accumulating closure / AddWithOverflow calls in the first validation step).
func precheckCovered(c *Ctx, ge *GuardEngine, entry string, during map[string]bool) map[string]bool {
	out := map[string]bool{}
	cs, ok := ge.EntryCalls(entry)
	if !ok {
		return out
	}
	// the pre-check function: a callee of the entry that accumulates with AddWithOverflow: a closure or a module function/method taking one Currency
	isAccumulator := func(fn *ssa.Function) bool {
		if fn == nil || !c.P.InModule(fn) {
			return false
		}
		for _, b := range fn.Blocks {
			for _, in := range b.Instrs {
				if call, ok := in.(*ssa.Call); ok && isCurrencyMethod(&call.Call, "AddWithOverflow") {
					return true
				}
			}
		}
		return false
	}
	for _, cf := range cs {
		if len(cf.Chain) < 2 || cf.Callee == nil || !isAccumulator(cf.Callee) || len(cf.Args) == 0 {
			continue
		}
		// only closures of the function called first by the entry for this purpose (named *Overflow by convention is not relied on):
		// the accumulating closure takes exactly one Currency and returns nothing
		if cf.Callee.Signature.Params().Len() == 1 && cf.Callee.Signature.Results().Len() == 0 && typeName(cf.Callee.Signature.Params().At(0).Type()) == "types.Currency" {
			out[cf.Args[len(cf.Args)-1]] = true // the accumulator may be a closure or a method of a sum type (receiver first)
			for _, f := range cf.Chain[1:] {
				during[f] = true
			}
		}
	}
	return out
}

var trustedTerm = []string{
	// contract parents are always accumulator members (validateParent dominates every use; C02 rows v2-live:*)
	`^\{types\.V2Transaction\}\.FileContract(Revisions|Resolutions)\[\*\]\.Parent\.V2FileContract\.`,
	`^\{consensus\.MidState\}\.v2fces\[`,
	`^call \(consensus\.MidState\)\.(siacoinElement|siafundElement|fileContractElement)\(`, // looked-up parents: members of the accumulator or created in this block
	`\.siafundTaxRevenue$`, `^call \(consensus\.State\)\.(BlockReward|FoundationSubsidy|SiafundCount)`, `^const:`, `^zero$`,
}

// arithCovered: every leaf term of a panicking Currency operation is covered by the pre-check, is a
// trusted (validated / chain-derived) value, or is derived from such values.
func arithCovered(s Sink, cov map[string]bool) (bool, string) {
	var bad []string
	var check func(t string, depth int) bool
	check = func(t string, depth int) bool {
		if cov[t] || depth > 6 {
			return cov[t]
		}
		for _, re := range trustedTerm {
			if mustRe(re).MatchString(t) {
				return true
			}
		}
		// derived values: tax of a covered contract, quotients/products of covered values, sums inside phis
		if strings.HasPrefix(t, "call (consensus.State).FileContractTax(") || strings.HasPrefix(t, "call (consensus.State).V2FileContractTax(") {
			args := callArgs(t)
			if len(args) == 2 {
				return cov[args[1]+".Payout"] || cov[args[1]+".RenterOutput.Value"]
			}
		}
		if strings.HasPrefix(t, "call (types.Currency).") {
			args := callArgs(t)
			ok := len(args) > 0
			for _, a := range args {
				if strings.HasPrefix(a, "{") || strings.HasPrefix(a, "call ") || strings.HasPrefix(a, "phi(") {
					if !check(a, depth+1) {
						ok = false
					}
				}
			}
			return ok
		}
		if strings.HasPrefix(t, "phi(") && strings.HasSuffix(t, ")") {
			ok := true
			for _, alt := range splitTop(t[4:len(t)-1], '|') {
				if alt == "…" || alt == "zero" {
					continue
				}
				if !check(alt, depth+1) {
					ok = false
				}
			}
			return ok
		}
		return false
	}
	for _, t := range s.Terms {
		if !check(t, 0) {
			bad = append(bad, t)
		}
	}
	if len(bad) == 0 {
		return true, "every operand term is covered by the overflow pre-check or is a validated/chain-derived value"
	}
	return false, "operand term(s) not covered by the overflow pre-check: " + strings.Join(bad, " ; ")
}

// lookupPanicPaired: an apply-side panic behind a failed lookup is unreachable for validated input.
func lookupPanicPaired(s Sink) (bool, string) {
	failedLookup, validated := false, false
	for _, cd := range s.Conds {
		if cd.Op == "false" && strings.HasPrefix(cd.L, "call (consensus.MidState).") && strings.HasSuffix(cd.L, "#1") {
			failedLookup = true
		}
		if (strings.HasPrefix(cd.L, "call consensus.ValidateTransaction(") || strings.HasPrefix(cd.L, "call consensus.ValidateV2Transaction(")) && cd.Op == "==" && cd.R == "nil" {
			validated = true
		}
	}
	if failedLookup && validated {
		return true, "lookup-failure panic after validation of the same transaction (validation rejects the failed lookup: C02 rows v1-exists)"
	}
	return false, ""
}

func short(s string) string {
	if len(s) > 160 {
		return s[:160] + "…"
	}
	return s
}

// sinks reviewed by hand, one named construct each with its reason: their safety rests on an
// arithmetic or data-structure invariant the generic dominance rule cannot derive; where a guard
// establishes the invariant, that guard is required by a row of c10GuardRows.
var reviewedSinks = map[string]string{
	"(consensus.ElementAccumulator).UnmarshalJSON:index:index …":                                                              "v.Trees is consumed once per set bit of NumLeaves after the guard len(v.Trees) == OnesCount64(NumLeaves) (row accumulator-json-length)",
	"(consensus.ElementAccumulator).UnmarshalJSON:slice-low:slice-low …":                                                      "same invariant as the index above",
	"(gateway.V2BlockOutline).decodeFrom:index:index …":                                                                       "txns/v2txns/hashes are consumed once per kind after the cross-check counts[k] == len(...) (rows outline-kind-range, outline-count-crosscheck)",
	"(gateway.V2BlockOutline).decodeFrom:slice-low:slice-low …":                                                               "as above",
	"(types.V2TransactionsMultiproof).DecodeFrom:make:make []types.Hash256":                                                   "proof lengths bits.Len64(index^count)-1 are non-negative because index < count was checked (row multiproof-leaf-index); the multiproof buffer is sized from those proofs after the bail-out on error (row multiproof-bail-on-error)",
	"(types.SatisfiedPolicy).UnmarshalJSON:index:index zero":                                                                  "sp.Preimages is made with len(pre) just above; the loop ranges it",
	"consensus.hashAll:panic:panic call fmt.Sprintf(const:\"unhandled type %T\", zero)":                                       "arguments are statically typed at every call site (each call is modelled argument by argument by the wire extractor; an unhandled static type makes C12 undecided)",
	"types.hashAll:panic:panic const:\"unhandled type\"":                                                                      "as above",
	"consensus.ValidateHeader:div:div call (consensus.State).NonceFactor({consensus.State})":                                  "the divisor is 1 or the network's configured ASIC nonce factor: operator configuration, not untrusted input",
	"(consensus.MidState).resolveV2FileContractElement:panic:panic const:\"consensus: resolved a newly-created v2 contract\"": "a resolution's parent must be an unresolved leaf of the base accumulator (C02 row v2-live:FileContractResolutions), which a contract created in this block is not",
	"(types.StateElement).Move:panic:panic const:\"Move called on shared StateElement\"":                                      "reached from JSON unmarshalling of updates, where the decoded leaves own their memory (the shared marker is unexported and never set by decoding)",
}

// MidState-internal indices: elements[id] is written only together with an append to the slice of
// the element's own type, so the index is in range for IDs of that type; IDs of another type can
// only be supplied through an ephemeral v2 parent, which validateEphemeral* bounds (row ephemeral-index-bound).
// reviewedSinkOperands identifies a reviewed sink by what is indexed and by what, not by the enclosing function
// (closures get renumbered and helpers get extracted).
var reviewedSinkOperands = []struct {
	kind, pkgPrefix string
	base, operand   *regexp.Regexp
	why             string
}{
	{"index", "consensus.", regexp.MustCompile(`\.v2fces$`), regexp.MustCompile(`\.elements\[.*Parent\.ID\]`), "ms.elements[parent ID] for a v2 contract parent that has just been shown to be an unresolved accumulator member (C02 rows v2-live:*), whose index was recorded together with the append to ms.v2fces"},
}

var reviewedSinkPrefixes = map[string]string{
	"(consensus.MidState).createAttestationElement:index": "index of the element appended on the line above",

	"(consensus.State).medianTimestamp:index:": "ts has numTimestamps() >= 1 elements; len(ts)/2 and len(ts)/2-1 (taken only for even, hence >= 2, lengths) are in range",
}

// isIndexRecorder: fn stores into a map field named "elements" and appends to a slice: the record-style
// helper that owns the invariant "elements[id] indexes the slice the element was appended to".
func isIndexRecorder(fn *ssa.Function) bool {
	mapWrite, appends := false, false
	for _, b := range fn.Blocks {
		for _, in := range b.Instrs {
			switch x := in.(type) {
			case *ssa.MapUpdate:
				v := x.Map
				if u, ok := v.(*ssa.UnOp); ok {
					if fa, ok := u.X.(*ssa.FieldAddr); ok {
						if st, ok := fa.X.Type().Underlying().(*types.Pointer).Elem().Underlying().(*types.Struct); ok && st.Field(fa.Field).Name() == "elements" {
							mapWrite = true
						}
					}
				}
			case *ssa.Call:
				if bi, ok := x.Call.Value.(*ssa.Builtin); ok && bi.Name() == "append" {
					appends = true
				}
			}
		}
	}
	return mapWrite && appends
}

// precheckLocal: a panicking a.Add(b) executed during the pre-check is dominated by the failed-overflow
// branch of a.AddWithOverflow(b) on the same operands (in either order).
func precheckLocal(s Sink) (bool, string) {
	ops := strings.Split(s.Operand, " ⊕ ")
	if len(ops) != 2 {
		return false, "arithmetic inside the overflow pre-check without its own overflow test: " + short(s.Operand)
	}
	for _, cd := range s.Conds {
		if cd.Op != "false" || !strings.HasSuffix(cd.L, "#1") || !strings.HasPrefix(cd.L, "call (types.Currency).AddWithOverflow(") {
			continue
		}
		args := callArgs(strings.TrimSuffix(cd.L, "#1"))
		if len(args) == 2 && ((args[0] == ops[0] && args[1] == ops[1]) || (args[0] == ops[1] && args[1] == ops[0])) {
			return true, "executed during the pre-check, behind its own overflow test " + cd.String()
		}
	}
	return false, "panicking arithmetic on " + short(s.Operand) + " runs while the overflow pre-check is still summing (its verdict is not yet known) and no AddWithOverflow test on the same operands dominates it"
}
