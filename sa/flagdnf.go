package main

// Existence flags. "found := false; for … { if A && B { found = true } }; if !found { reject }" and its
// many spellings (found = found || (A && B); loop condition "&& !found"; continue-guards; nested ifs)
// all say: the input is accepted only if, for some element, A and B held. FlagDNF computes, from the
// SSA value tested by the rejecting guard, the disjunctive normal form of the conditions under which
// that value is true: one alternative per way the flag can become true, each alternative the
// conjunction of the branch conditions on the way to the assignment (back edges excluded: the
// conditions of the iteration that sets the flag). A rule then requires every alternative to contain
// the conditions the property names. Alternatives that only carry an already-true flag forward are
// inductive and dropped.

import (
	"go/constant"
	"go/token"
	"go/types"
	"sort"
	"strings"

	"golang.org/x/tools/go/ssa"
)

type condAtom struct {
	L, Op, R string
	V        ssa.Value // the tested value
	Want     bool      // polarity of V on this edge
}

func (a condAtom) String() string {
	if a.Op == "true" || a.Op == "false" {
		return a.L + " is " + a.Op
	}
	return a.L + " " + a.Op + " " + a.R
}

func (a condAtom) negates(b condAtom) bool {
	return a.L == b.L && a.R == b.R && a.Op == negOp[b.Op]
}

type conj []condAtom

func (c conj) key() string {
	var ss []string
	for _, a := range c {
		ss = append(ss, a.String())
	}
	sort.Strings(ss)
	return strings.Join(ss, " && ")
}

func (c conj) has(a condAtom) bool {
	for _, x := range c {
		if x.String() == a.String() {
			return true
		}
	}
	return false
}

type flagDNF struct {
	ge    *GuardEngine
	fi    *fnInfo
	env   *Env
	memo  map[*ssa.BasicBlock][]conj
	stack map[*ssa.BasicBlock]bool
}

func (fd *flagDNF) atomOf(cond ssa.Value, want bool, at ssa.Instruction) condAtom {
	saved := fd.ge.pv.loadCtx
	fd.ge.pv.loadCtx = []ssa.Instruction{at}
	l, op, r := fd.ge.decompose(cond, fd.env)
	fd.ge.pv.loadCtx = saved
	if !want {
		op = negOp[op]
	}
	return condAtom{L: l, Op: op, R: r, V: cond, Want: want}
}

// simplify merges alternatives that differ in one complementary condition, removes duplicates and
// alternatives subsumed by a weaker one.
func simplifyDNF(in []conj) []conj {
	changed := true
	for changed {
		changed = false
		seen := map[string]bool{}
		var ded []conj
		for _, c := range in {
			// drop duplicate atoms inside a conjunction
			var u conj
			for _, a := range c {
				if !u.has(a) {
					u = append(u, a)
				}
			}
			if k := u.key(); !seen[k] {
				seen[k] = true
				ded = append(ded, u)
			}
		}
		in = ded
	outer:
		for i := 0; i < len(in); i++ {
			for j := i + 1; j < len(in); j++ {
				a, b := in[i], in[j]
				if len(a) != len(b) {
					continue
				}
				diff := -1
				ok := true
				for k, x := range a {
					if b.has(x) {
						continue
					}
					if diff >= 0 {
						ok = false
						break
					}
					diff = k
				}
				if !ok || diff < 0 {
					continue
				}
				// the one atom of a missing in b must be the negation of the one atom of b missing in a
				var other *condAtom
				for k := range b {
					if !a.has(b[k]) {
						other = &b[k]
					}
				}
				if other == nil || !a[diff].negates(*other) {
					continue
				}
				merged := append(append(conj{}, a[:diff]...), a[diff+1:]...)
				in = append(append(append([]conj{}, in[:i]...), in[i+1:j]...), in[j+1:]...)
				in = append(in, merged)
				changed = true
				break outer
			}
		}
	}
	// absorption
	var out []conj
	for i, a := range in {
		sub := false
		for j, b := range in {
			if i == j || len(b) >= len(a) {
				continue
			}
			all := true
			for _, x := range b {
				if !a.has(x) {
					all = false
				}
			}
			if all {
				sub = true
			}
		}
		if !sub {
			out = append(out, a)
		}
	}
	return out
}

// edgeAtom: the condition for leaving p towards succ (nil when unconditional).
func (fd *flagDNF) edgeAtom(p, succ *ssa.BasicBlock) *condAtom {
	if len(p.Instrs) == 0 || len(p.Succs) != 2 || p.Succs[0] == p.Succs[1] {
		return nil
	}
	ifi, ok := p.Instrs[len(p.Instrs)-1].(*ssa.If)
	if !ok {
		return nil
	}
	a := fd.atomOf(ifi.Cond, p.Succs[0] == succ, ifi)
	return &a
}

// path: DNF of the conditions under which block x is reached in the current iteration.
func (fd *flagDNF) path(x *ssa.BasicBlock) []conj {
	if m, ok := fd.memo[x]; ok {
		return m
	}
	if fd.stack[x] {
		return nil
	}
	fd.stack[x] = true
	defer func() { fd.stack[x] = false }()
	var out []conj
	n := 0
	for _, p := range x.Preds {
		if x.Dominates(p) {
			continue // back edge
		}
		n++
		ea := fd.edgeAtom(p, x)
		for _, alt := range fd.path(p) {
			c := append(conj{}, alt...)
			if ea != nil {
				c = append(c, *ea)
			}
			out = append(out, c)
		}
	}
	if n == 0 {
		out = []conj{{}}
	}
	out = simplifyDNF(out)
	if len(out) > 48 {
		// too many ways to get here: keep only what holds on all of them (conditions of the dominator)
		if d := x.Idom(); d != nil {
			out = fd.path(d)
		} else {
			out = []conj{{}}
		}
	}
	fd.memo[x] = out
	return out
}

// truth: DNF of "v evaluates to want" at its definition.
func (fd *flagDNF) truth(v ssa.Value, want bool, visited map[*ssa.Phi]bool, at ssa.Instruction) []conj {
	switch x := v.(type) {
	case *ssa.Const:
		if x.Value != nil && x.Value.Kind() == constant.Bool && constant.BoolVal(x.Value) == want {
			return []conj{{}}
		}
		return nil
	case *ssa.UnOp:
		if x.Op == token.NOT {
			return fd.truth(x.X, !want, visited, at)
		}
	case *ssa.Phi:
		if visited[x] {
			return nil // carried around the loop: true only if it already was
		}
		visited[x] = true
		defer func() { visited[x] = false }()
		var out []conj
		for i, e := range x.Edges {
			p := x.Block().Preds[i]
			sub := fd.truth(e, want, visited, p.Instrs[len(p.Instrs)-1])
			if sub == nil {
				continue
			}
			ea := fd.edgeAtom(p, x.Block())
			for _, pa := range fd.path(p) {
				base := append(conj{}, pa...)
				if ea != nil {
					base = append(base, *ea)
				}
				// inductive alternative: the path itself requires a visited flag to hold already
				inductive := false
				for _, a := range base {
					if ph, ok := a.V.(*ssa.Phi); ok && visited[ph] && a.Want == want {
						inductive = true
					}
				}
				if inductive {
					continue
				}
				for _, s := range sub {
					out = append(out, append(append(conj{}, base...), s...))
				}
			}
		}
		return simplifyDNF(out)
	}
	return []conj{{fd.atomOf(v, want, at)}}
}

// FlagAlternatives: for a guard that tests a boolean flag, the ways the accepting value can arise.
// ok=false when the guard does not test a flag (phi of booleans).
func (ge *GuardEngine) FlagAlternatives(g Guard) ([]conj, bool) {
	if g.CondV == nil || g.Block == nil || len(g.Block.Succs) != 2 {
		return nil, false
	}
	v := g.CondV
	neg := false
	for {
		u, ok := v.(*ssa.UnOp)
		if !ok || u.Op != token.NOT {
			break
		}
		v, neg = u.X, !neg
	}
	fi := ge.info(g.Fn)
	if call, isCall := v.(*ssa.Call); isCall {
		// the flag computed by a bool helper: the ways the helper returns the accepting value
		callee := call.Call.StaticCallee()
		if callee == nil || len(callee.Blocks) == 0 || !ge.p.InModule(callee) || callee.Signature.Results().Len() != 1 {
			return nil, false
		}
		if bt, ok := callee.Signature.Results().At(0).Type().Underlying().(*types.Basic); !ok || bt.Kind() != types.Bool {
			return nil, false
		}
		hasLoop := false
		cfi := ge.info(callee)
		for _, hs := range cfi.loopsOf {
			if len(hs) > 0 {
				hasLoop = true
			}
		}
		if !hasLoop {
			return nil, false // a plain predicate, not an existence test
		}
		rejTrue := !fi.canAccept[g.Block.Succs[0]]
		rejFalse := !fi.canAccept[g.Block.Succs[1]]
		if rejTrue == rejFalse {
			return nil, false
		}
		want := rejFalse
		if neg {
			want = !want
		}
		fd := &flagDNF{ge: ge, fi: cfi, env: ge.calleeEnv(callee, &call.Call, g.Env), memo: map[*ssa.BasicBlock][]conj{}, stack: map[*ssa.BasicBlock]bool{}}
		var out []conj
		for _, b := range callee.Blocks {
			ret, ok := b.Instrs[len(b.Instrs)-1].(*ssa.Return)
			if !ok || len(ret.Results) != 1 {
				continue
			}
			sub := fd.truth(ret.Results[0], want, map[*ssa.Phi]bool{}, ret)
			for _, pa := range fd.path(b) {
				for _, s := range sub {
					out = append(out, append(append(conj{}, pa...), s...))
				}
			}
		}
		return simplifyDNF(out), true
	}
	if _, ok := v.(*ssa.Phi); !ok {
		return nil, false
	}
	rejTrue := !fi.canAccept[g.Block.Succs[0]]
	rejFalse := !fi.canAccept[g.Block.Succs[1]]
	if rejTrue == rejFalse {
		return nil, false
	}
	// accepted when the If condition is false (rejTrue) or true (rejFalse)
	want := rejFalse
	if neg {
		want = !want
	}
	fd := &flagDNF{ge: ge, fi: fi, env: g.Env, memo: map[*ssa.BasicBlock][]conj{}, stack: map[*ssa.BasicBlock]bool{}}
	term := g.Block.Instrs[len(g.Block.Instrs)-1]
	alts := fd.truth(v, want, map[*ssa.Phi]bool{}, term)
	return alts, true
}
