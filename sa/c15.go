package main

import (
	"fmt"
	"go/ast"
	"go/constant"
	"go/token"
	"go/types"
	"golang.org/x/tools/go/packages"
	"regexp"
	"sort"
	"strings"

	"golang.org/x/tools/go/types/typeutil"
)

func init() { register("C15", runC15) }

func runC15(c *Ctx) {
	c.Explain("Decides the structural core of exact 128-bit Currency arithmetic without running it. (1) limb-identity: the loop-free word arithmetic of AddWithOverflow, SubWithUnderflow, MulWithOverflow, Mul64WithOverflow and quoRem64 is interpreted over the domain of exact integer polynomials, each math/bits intrinsic contributing its defining equation (sum = x+y+c-2^64*carry, lo = x*y-2^64*hi, rem = 2^64*hi+lo-quo*y with rem < y); the returned 128-bit word R must satisfy exact = R + 2^128*Q (add/mul) or R = exact + 2^128*Q (sub) as a polynomial identity with Q a positive-coefficient polynomial in the carry/high-word symbols, and the returned flag must be non-zero exactly on the zero-complement of Q (same minimal monomial supports); quoRem64 must satisfy c = q*v + r with r a Div64 remainder of divisor v on every path and every Div64 precondition (high word < divisor) established by a branch condition or an earlier remainder. A dropped carry, a missing term in the overflow predicate or a wrong partial product breaks the identity. (2) order: Cmp touches its operands only through word comparisons, so it is evaluated over all 9 orderings of (Hi,Lo) and must return the lexicographic sign. (3) wrappers: Add/Sub/Mul/Mul64 call their flag-returning sibling on the same operands, panic iff the flag is set and otherwise return the sibling's value; Div/Div64 return the quotient of quoRem/quoRem64, and quoRem delegates divisors below 2^64 to quoRem64. (4) parser: parseHastings rejects non-integers, negatives and values above 128 bits, every successful ParseCurrency result comes from parseHastings, non-integer scaled values and unknown units reject, and the unit table of String agrees with the parser's unit table (unit i <-> 10^(3i+12)).")
	c.NotCovered("the 128-by-128 trial-quotient path of quoRem (numeric argument about the trial quotient being within one)", "round-trip equality of String/ExactString/JSON with ParseCurrency for every value (digit-level formatting by math/big)", "Siacoins() float conversion")
	pkg := c.P.Pkg("types")
	if pkg == nil {
		c.Undecided("limb-identity", "types", "", "package types does not load")
		return
	}
	c15Limbs(c)
	c15Cmp(c)
	c15Wrappers(c)
	c15Parser(c)
}

func (c *Ctx) declOf(spec string) (*ast.FuncDecl, *types.Info, bool) {
	fn := c.P.Func(spec)
	if fn == nil {
		return nil, nil, false
	}
	obj, _ := fn.Object().(*types.Func)
	if obj == nil {
		return nil, nil, false
	}
	fd, pkg := c.P.Decl(obj)
	if fd == nil || pkg == nil || fd.Body == nil {
		return nil, nil, false
	}
	c.NoteFunc(FuncName(fn))
	return fd, pkg.TypesInfo, true
}

type limbSpec struct {
	fn   string
	kind string // add, sub, mul, mul64, quorem64
}

func c15Limbs(c *Ctx) {
	specs := []limbSpec{
		{"types.(Currency).AddWithOverflow", "add"},
		{"types.(Currency).SubWithUnderflow", "sub"},
		{"types.(Currency).MulWithOverflow", "mul"},
		{"types.(Currency).Mul64WithOverflow", "mul64"},
		{"types.(Currency).quoRem64", "quorem64"},
	}
	for _, sp := range specs {
		fd, info, ok := c.declOf(sp.fn)
		if !ok {
			c.Undecided("limb-identity", sp.fn, "", "anchor does not resolve")
			continue
		}
		where := c.P.Pos(fd.Pos())
		li := &limbInterp{info: info, fset: c.P.Fset, names: map[string]int{}}
		states := li.Run(fd)
		// operands by position: receiver, first parameter
		var names []string
		for _, fl := range []*ast.FieldList{fd.Recv, fd.Type.Params} {
			if fl != nil {
				for _, f := range fl.List {
					for _, n := range f.Names {
						names = append(names, n.Name)
					}
				}
			}
		}
		if len(names) != 2 {
			c.Undecided("limb-identity", sp.fn, where, "expected a receiver and one parameter")
			continue
		}
		w128 := func(n string) Poly { return pSym(n + ".Lo").Add(pBig(two64).Mul(pSym(n + ".Hi"))) }
		C := w128(names[0])
		var V Poly
		if sp.kind == "mul64" || sp.kind == "quorem64" {
			V = pSym(names[1])
		} else {
			V = w128(names[1])
		}
		nret := 0
		for _, s := range states {
			if s.panics {
				continue
			}
			nret++
		}
		if nret == 0 {
			c.Fail("limb-identity", sp.fn, where, "no returning path")
			continue
		}
		bad := false
		for pi, s := range states {
			if s.panics {
				continue
			}
			inst := sp.fn
			if len(states) > 1 {
				inst = fmt.Sprintf("%s:path%d", sp.fn, pi+1)
			}
			if len(s.unsup) > 0 {
				c.Undecided("limb-identity", inst, where, "construct outside the limb domain: "+strings.Join(s.unsup, "; "))
				bad = true
				continue
			}
			if len(s.ret) != 2 {
				c.Undecided("limb-identity", inst, where, "expected two results")
				bad = true
				continue
			}
			R, ok := s.ret[0].word128()
			if !ok {
				c.Undecided("limb-identity", inst, where, "first result is not a two-word value")
				bad = true
				continue
			}
			if sp.kind == "quorem64" {
				r := s.ret[1].P
				if r == nil {
					c.Undecided("limb-identity", inst, where, "remainder not a word")
					bad = true
					continue
				}
				id := R.Mul(V).Add(r).Sub(C).ZeroVars(s.zero)
				ok1 := id.IsZero()
				ok2 := li.knownLess(r, V, s) || li.knownLess(r.ZeroVars(s.zero), V.ZeroVars(s.zero), s)
				ok3 := len(s.pre) == 0
				detail := "c = q*v + r holds as a polynomial identity, r is a remainder of divisor v, every Div64 high word is below its divisor"
				if !ok1 {
					detail = "q*v + r - c = " + id.String() + " is not identically zero: quotient and remainder do not recompose the dividend"
				} else if !ok2 {
					detail = "the returned remainder " + r.String() + " is not a bits.Div64 remainder of divisor " + V.String() + " (r < v not established)"
				} else if !ok3 {
					detail = strings.Join(s.pre, "; ")
				}
				c.Check(ok1 && ok2 && ok3, "limb-identity", inst, where, detail)
				continue
			}
			var exact Poly
			switch sp.kind {
			case "add":
				exact = C.Add(V)
			case "sub":
				exact = C.Sub(V)
			default:
				exact = C.Mul(V)
			}
			D := exact.Sub(R)
			if sp.kind == "sub" {
				D = R.Sub(exact)
			}
			D = D.ZeroVars(s.zero) // words the path's branch conditions put to zero
			Q, div := D.DivExact(two128)
			if !div {
				c.Fail("limb-identity", inst, where, "the returned value differs from the exact result by "+D.String()+", which is not a multiple of 2^128: the result is wrong even when it fits")
				continue
			}
			if !Q.IsZero() && !Q.AllPositive() {
				c.Fail("limb-identity", inst, where, "exact result = returned value + 2^128*("+Q.String()+") with a term of negative sign: the limbs do not form the exact result modulo 2^128")
				continue
			}
			flag := s.ret[1]
			if !flag.IsBool || flag.B == nil {
				c.Undecided("limb-identity", inst, where, "flag expression outside the boolean non-zero domain")
				bad = true
				continue
			}
			want, got := Q.Supports(), flag.B.ZeroVars(s.zero).Supports()
			same := strings.Join(want, "|") == strings.Join(got, "|")
			c.Check(same, "limb-identity", inst, where, ifElse(same,
				"exact = R + 2^128*("+Q.String()+") and the flag is set exactly when that term is non-zero ("+supportsText(got)+")",
				"the result overflows exactly when "+supportsText(want)+", but the flag reports "+supportsText(got)))
		}
		_ = bad
	}
	c.Min("limb-identity", 5)
}

// ---- Cmp over the finite set of orderings ----

type ordEval struct {
	info   *types.Info
	a, b   types.Object // receiver, parameter
	sign   map[string]int
	unsup  []string
	fields []string
}

func (o *ordEval) fieldOf(e ast.Expr) (types.Object, string) {
	se, ok := stripParens(e).(*ast.SelectorExpr)
	if !ok {
		return nil, ""
	}
	id, ok := se.X.(*ast.Ident)
	if !ok {
		return nil, ""
	}
	return o.info.Uses[id], se.Sel.Name
}

func cmpHolds(op token.Token, s int) (bool, bool) {
	switch op {
	case token.LSS:
		return s < 0, true
	case token.LEQ:
		return s <= 0, true
	case token.GTR:
		return s > 0, true
	case token.GEQ:
		return s >= 0, true
	case token.EQL:
		return s == 0, true
	case token.NEQ:
		return s != 0, true
	}
	return false, false
}

func (o *ordEval) cond(e ast.Expr) bool {
	e = stripParens(e)
	switch e := e.(type) {
	case *ast.UnaryExpr:
		if e.Op == token.NOT {
			return !o.cond(e.X)
		}
	case *ast.BinaryExpr:
		switch e.Op {
		case token.LAND:
			return o.cond(e.X) && o.cond(e.Y)
		case token.LOR:
			return o.cond(e.X) || o.cond(e.Y)
		}
		// whole-struct equality
		if ix, ok := stripParens(e.X).(*ast.Ident); ok {
			if iy, ok := stripParens(e.Y).(*ast.Ident); ok {
				ox, oy := o.info.Uses[ix], o.info.Uses[iy]
				if (ox == o.a && oy == o.b) || (ox == o.b && oy == o.a) {
					all := true
					for _, f := range o.fields {
						if o.sign[f] != 0 {
							all = false
						}
					}
					if e.Op == token.EQL {
						return all
					} else if e.Op == token.NEQ {
						return !all
					}
				}
			}
		}
		ox, fx := o.fieldOf(e.X)
		oy, fy := o.fieldOf(e.Y)
		if ox != nil && oy != nil && fx == fy {
			if _, known := o.sign[fx]; known {
				s := o.sign[fx]
				if ox == o.b && oy == o.a {
					s = -s
				} else if !(ox == o.a && oy == o.b) {
					break
				}
				if r, ok := cmpHolds(e.Op, s); ok {
					return r
				}
			}
		}
	}
	o.unsup = append(o.unsup, types.ExprString(e))
	return false
}

// intExpr evaluates cmp.Compare(x.F, y.F) (three-way comparison of one word) and its negation.
func (o *ordEval) intExpr(e ast.Expr) (int64, bool) {
	e = stripParens(e)
	if u, ok := e.(*ast.UnaryExpr); ok && u.Op == token.SUB {
		n, ok := o.intExpr(u.X)
		return -n, ok
	}
	call, ok := e.(*ast.CallExpr)
	if !ok || len(call.Args) != 2 {
		return 0, false
	}
	fun := stripParens(call.Fun)
	if ix, ok := fun.(*ast.IndexExpr); ok {
		fun = ix.X
	}
	sel, ok := fun.(*ast.SelectorExpr)
	if !ok {
		return 0, false
	}
	fn, _ := o.info.Uses[sel.Sel].(*types.Func)
	if fn == nil || fn.Pkg() == nil || fn.Pkg().Path() != "cmp" || fn.Name() != "Compare" {
		return 0, false
	}
	ox, fx := o.fieldOf(call.Args[0])
	oy, fy := o.fieldOf(call.Args[1])
	if ox == nil || oy == nil || fx != fy {
		return 0, false
	}
	s, known := o.sign[fx]
	if !known {
		return 0, false
	}
	if ox == o.b && oy == o.a {
		s = -s
	} else if !(ox == o.a && oy == o.b) {
		return 0, false
	}
	return int64(s), true
}

// run evaluates a body of if/else/return statements; ok=false if control falls through.
func (o *ordEval) run(list []ast.Stmt) (int64, bool) {
	for _, st := range list {
		switch st := st.(type) {
		case *ast.ReturnStmt:
			if len(st.Results) == 1 {
				if tv, ok := o.info.Types[st.Results[0]]; ok && tv.Value != nil && tv.Value.Kind() == constant.Int {
					n, _ := constant.Int64Val(tv.Value)
					return n, true
				}
			}
			if len(st.Results) == 1 {
				if n, ok := o.intExpr(st.Results[0]); ok {
					return n, true
				}
			}
			o.unsup = append(o.unsup, "non-constant return")
			return 0, true
		case *ast.IfStmt:
			if st.Init != nil {
				o.unsup = append(o.unsup, "if with init")
			}
			if o.cond(st.Cond) {
				if v, ok := o.run(st.Body.List); ok {
					return v, true
				}
			} else if st.Else != nil {
				var l []ast.Stmt
				if b, ok := st.Else.(*ast.BlockStmt); ok {
					l = b.List
				} else {
					l = []ast.Stmt{st.Else}
				}
				if v, ok := o.run(l); ok {
					return v, true
				}
			}
		case *ast.BlockStmt:
			if v, ok := o.run(st.List); ok {
				return v, true
			}
		case *ast.SwitchStmt:
			if st.Tag != nil || st.Init != nil {
				o.unsup = append(o.unsup, "tagged switch")
				return 0, true
			}
			var def *ast.CaseClause
			taken := false
			for _, cc := range st.Body.List {
				cl := cc.(*ast.CaseClause)
				if cl.List == nil {
					def = cl
					continue
				}
				hit := false
				for _, e := range cl.List {
					if o.cond(e) {
						hit = true
						break
					}
				}
				if hit {
					taken = true
					if v, ok := o.run(cl.Body); ok {
						return v, true
					}
					break
				}
			}
			if !taken && def != nil {
				if v, ok := o.run(def.Body); ok {
					return v, true
				}
			}
		default:
			o.unsup = append(o.unsup, fmt.Sprintf("statement %T", st))
			return 0, true
		}
	}
	return 0, false
}

func c15Cmp(c *Ctx) {
	const fnName = "types.(Currency).Cmp"
	fd, info, ok := c.declOf(fnName)
	if !ok || fd.Recv == nil || len(fd.Recv.List) != 1 || len(fd.Recv.List[0].Names) != 1 || len(fd.Type.Params.List) != 1 || len(fd.Type.Params.List[0].Names) != 1 {
		c.Undecided("order", fnName, "", "anchor does not resolve")
		return
	}
	where := c.P.Pos(fd.Pos())
	a := info.Defs[fd.Recv.List[0].Names[0]]
	b := info.Defs[fd.Type.Params.List[0].Names[0]]
	st, _ := a.Type().Underlying().(*types.Struct)
	if st == nil || st.NumFields() != 2 {
		c.Undecided("order", fnName, where, "Currency is not a two-word struct")
		return
	}
	names := []string{"<", "=", ">"}
	for hi := -1; hi <= 1; hi++ {
		for lo := -1; lo <= 1; lo++ {
			o := &ordEval{info: info, a: a, b: b, sign: map[string]int{"Hi": hi, "Lo": lo}, fields: []string{"Lo", "Hi"}}
			got, ret := o.run(fd.Body.List)
			inst := fmt.Sprintf("Cmp:Hi%sHi,Lo%sLo", names[hi+1], names[lo+1])
			if len(o.unsup) > 0 || !ret {
				c.Undecided("order", inst, where, "Cmp uses a construct outside word comparisons: "+strings.Join(o.unsup, "; "))
				continue
			}
			want := int64(hi)
			if hi == 0 {
				want = int64(lo)
			}
			c.Check(got == want, "order", inst, where, ifElse(got == want, fmt.Sprintf("returns %d", got), fmt.Sprintf("returns %d for operands whose integer order is %d", got, want)))
		}
	}
	c.Min("order", 9)
}

// ---- wrappers ----

func c15Wrappers(c *Ctx) {
	ge := NewGuardEngine(c.P, c.Depth)
	recv := "{types.Currency}"
	for _, w := range []struct{ fn, sib, arg string }{
		{"Add", "AddWithOverflow", "{types.Currency#2}"},
		{"Sub", "SubWithUnderflow", "{types.Currency#2}"},
		{"Mul", "MulWithOverflow", "{types.Currency#2}"},
		{"Mul64", "Mul64WithOverflow", "{uint64}"},
	} {
		entry := "types.(Currency)." + w.fn
		fn := c.P.Func(entry)
		if fn == nil {
			c.Undecided("wrapper", w.fn, "", "anchor does not resolve")
			continue
		}
		c.NoteFunc(FuncName(fn))
		call := "call (types.Currency)." + w.sib + "(" + recv + ", " + w.arg + ")"
		r := req(w.fn+":panics-iff-flag", entry, call+"#1", opT, "", "the panicking form reports overflow exactly when the flag-returning form does")
		gs, _ := ge.EntryGuards(entry)
		ge.CheckReq(c, "wrapper", r, gs)
		n := 0
		for _, g := range gs {
			if !g.Weak {
				n++
			}
		}
		c.Check(n == 1, "wrapper", w.fn+":no-other-panic", c.P.Pos(fn.Pos()), ifElse(n == 1, "the flag is the only reason to panic", fmt.Sprintf("%d rejecting conditions; only the sibling's flag may cause a panic", n)))
		as := ge.ReturnAtoms(fn, 0)
		ok := len(as) == 1 && as[0] == call+"#0"
		c.Check(ok, "wrapper", w.fn+":returns-sibling-value", c.P.Pos(fn.Pos()), ifElse(ok, "returns "+w.sib+"'s value unchanged", "returns "+joinShort(as)+" instead of the first result of "+w.sib+" on the same operands"))
	}
	for _, w := range []struct{ fn, sib, arg string }{
		{"Div", "quoRem", "{types.Currency#2}"},
		{"Div64", "quoRem64", "{uint64}"},
	} {
		entry := "types.(Currency)." + w.fn
		fn := c.P.Func(entry)
		if fn == nil {
			c.Undecided("wrapper", w.fn, "", "anchor does not resolve")
			continue
		}
		c.NoteFunc(FuncName(fn))
		as := ge.ReturnAtoms(fn, 0)
		want := "call (types.Currency)." + w.sib + "(" + recv + ", " + w.arg + ")#0"
		ok := len(as) == 1 && plainCall(as[0]) == plainCall(want)
		c.Check(ok, "wrapper", w.fn+":returns-quotient", c.P.Pos(fn.Pos()), ifElse(ok, "returns the quotient of "+w.sib, "returns "+joinShort(as)+" instead of the quotient of "+w.sib+" on the same operands"))
	}
	// quoRem: divisors below 2^64 go to quoRem64 and the remainder is widened unchanged
	if fn := c.P.Func("types.(Currency).quoRem"); fn != nil {
		c.NoteFunc(FuncName(fn))
		q := ge.ReturnAtoms(fn, 0)
		r := ge.ReturnAtoms(fn, 1)
		small := plainCall("call (types.Currency).quoRem64({types.Currency}, {types.Currency#2}.Lo)")
		hasQ, hasR := false, false
		for _, a := range q {
			if strings.Contains(plainCall(a), small+"#0") {
				hasQ = true
			}
		}
		for _, a := range r {
			if strings.Contains(plainCall(a), "call types.NewCurrency64("+small+"#1)") {
				hasR = true
			}
		}
		c.Check(hasQ && hasR, "wrapper", "quoRem:small-divisor", c.P.Pos(fn.Pos()), ifElse(hasQ && hasR, "v.Hi == 0 delegates to quoRem64(v.Lo) and widens its remainder", "quoRem results "+joinShort(q)+" / "+joinShort(r)+" do not come from quoRem64(c, v.Lo)"))
		gs, _ := ge.EntryGuards("types.(Currency).quoRem")
		_ = gs
	} else {
		c.Undecided("wrapper", "quoRem:small-divisor", "", "anchor does not resolve")
	}
	c.Min("wrapper", 15)
}

// ---- parser ----

func c15Parser(c *Ctx) {
	ge := NewGuardEngine(c.P, c.Depth)
	set := "call (math/big.Int).SetString(…, {string}, const:10)"
	tab := []GuardReq{
		req("hastings:integer", "types.parseHastings", set+"#1", opF, "", "text that is not a base-10 integer is rejected"),
		req("hastings:non-negative", "types.parseHastings", "call (math/big.Int).Sign("+set+"#0)", opLT, "const:0", "negative values are rejected"),
		req("hastings:128-bit", "types.parseHastings", "call (math/big.Int).BitLen("+set+"#0)", opGT, "const:128", "values above 2^128-1 are rejected"),
		req("currency:has-number", "types.ParseCurrency", "(call strings.LastIndexAny({string}, const:\"0123456789.\") + const:1)", opEQ, "const:0", "text without a number is rejected"),
		req("currency:number-parses", "types.ParseCurrency", "call (math/big.Rat).SetString(…)#1", opF, "", "a malformed decimal is rejected", "…"),
		req("currency:known-unit", "types.ParseCurrency", "ok:global types.currencyUnits[…]", opF, "", "an unknown unit is rejected", "…"),
		req("currency:integral-hastings", "types.ParseCurrency", "call (math/big.Rat).IsInt(…)", opF, "", "a value that is not a whole number of hastings after scaling is rejected", "…"),
	}
	runGuardTable(c, "parser", ge, tab)
	// every non-zero result of ParseCurrency comes out of parseHastings
	if fn := c.P.Func("types.ParseCurrency"); fn != nil {
		c.NoteFunc(FuncName(fn))
		as := ge.ReturnAtoms(fn, 0)
		ok := len(as) > 0
		var bad []string
		for _, a := range as {
			for _, alt := range splitPhi(a) {
				if strings.HasPrefix(alt, "call types.parseHastings(") && strings.HasSuffix(alt, "#0") {
					continue
				}
				if alt == "global types.ZeroCurrency" || alt == "zero" || alt == "lit{}" {
					continue
				}
				ok = false
				bad = append(bad, alt)
			}
		}
		c.Check(ok, "parser", "currency:result-from-parseHastings", c.P.Pos(fn.Pos()), ifElse(ok, "every value ParseCurrency returns is parseHastings' result (sign and range checks apply to unit-suffixed input too)", "ParseCurrency can return "+strings.Join(bad, ", ")+" without the sign/range checks of parseHastings"))
	} else {
		c.Undecided("parser", "currency:result-from-parseHastings", "", "anchor does not resolve")
	}
	c15Units(c)
	c.Min("parser", 9)
}

func splitPhi(a string) []string {
	if strings.HasPrefix(a, "phi(") && strings.HasSuffix(a, ")") {
		var out []string
		depth, start := 0, 4
		for i := 4; i < len(a)-1; i++ {
			switch a[i] {
			case '(', '[', '{':
				depth++
			case ')', ']', '}':
				depth--
			case '|':
				if depth == 0 {
					out = append(out, splitPhi(a[start:i])...)
					start = i + 1
				}
			}
		}
		return append(out, splitPhi(a[start:len(a)-1])...)
	}
	return []string{a}
}

// c15Units: the unit names String() prints agree with the unit table ParseCurrency reads.
func c15Units(c *Ctx) {
	pkg := c.P.Pkg("types")
	// parser table: currencyUnits = map[string]*big.Rat{"pS": expToUnit(12), ...}
	parse := map[string]int64{}
	var wherep string
	for _, f := range pkg.Syntax {
		for _, d := range f.Decls {
			gd, ok := d.(*ast.GenDecl)
			if !ok || gd.Tok != token.VAR {
				continue
			}
			for _, sp := range gd.Specs {
				vs := sp.(*ast.ValueSpec)
				for i, n := range vs.Names {
					if n.Name != "currencyUnits" || i >= len(vs.Values) {
						continue
					}
					cl, ok := vs.Values[i].(*ast.CompositeLit)
					if !ok {
						continue
					}
					wherep = c.P.Pos(cl.Pos())
					for _, el := range cl.Elts {
						kv, ok := el.(*ast.KeyValueExpr)
						if !ok {
							continue
						}
						ktv := pkg.TypesInfo.Types[kv.Key]
						call, ok := kv.Value.(*ast.CallExpr)
						if ktv.Value == nil || !ok || len(call.Args) != 1 {
							parse["?"] = -1
							continue
						}
						fn, _ := typeutil.Callee(pkg.TypesInfo, call).(*types.Func)
						atv := pkg.TypesInfo.Types[call.Args[0]]
						if fn == nil || fn.Name() != "expToUnit" || atv.Value == nil {
							parse["?"] = -1
							continue
						}
						e, _ := constant.Int64Val(atv.Value)
						parse[constant.StringVal(ktv.Value)] = e
					}
				}
			}
		}
	}
	// printer table: []string{...}[u-4] in (Currency).String, u = (digits-1)/3, capped
	fd, info, ok := c.declOf("types.(Currency).String")
	if !ok || len(parse) == 0 {
		c.Undecided("parser", "units:tables-agree", "", "unit tables do not resolve")
		return
	}
	var units []string
	var off int64 = -1
	var capU int64 = -1
	ast.Inspect(fd.Body, func(n ast.Node) bool {
		switch n := n.(type) {
		case *ast.IndexExpr:
			cl, ok := stripParens(n.X).(*ast.CompositeLit)
			if !ok {
				// a package-level table: var names = [...]string{...}
				if id, isID := stripParens(n.X).(*ast.Ident); isID {
					if v, isVar := info.Uses[id].(*types.Var); isVar && v.Parent() == pkg.Types.Scope() {
						cl = pkgVarLiteral(pkg, v)
					}
				}
				if cl == nil {
					return true
				}
			}
			for _, el := range cl.Elts {
				if tv := info.Types[el]; tv.Value != nil && tv.Value.Kind() == constant.String {
					units = append(units, constant.StringVal(tv.Value))
				}
			}
			if be, ok := stripParens(n.Index).(*ast.BinaryExpr); ok && be.Op == token.SUB {
				if tv := info.Types[be.Y]; tv.Value != nil {
					off, _ = constant.Int64Val(tv.Value)
				}
			}
		case *ast.AssignStmt:
			// u = 12 (cap)
			if len(n.Lhs) == 1 && len(n.Rhs) == 1 && n.Tok == token.ASSIGN {
				if id, ok := n.Lhs[0].(*ast.Ident); ok && id.Name == "u" {
					if tv := info.Types[n.Rhs[0]]; tv.Value != nil {
						capU, _ = constant.Int64Val(tv.Value)
					} else if call, ok := n.Rhs[0].(*ast.CallExpr); ok && len(call.Args) == 2 {
						// u = min(u, 12)
						if f, ok := call.Fun.(*ast.Ident); ok && f.Name == "min" {
							for _, a := range call.Args {
								if tv := info.Types[a]; tv.Value != nil {
									capU, _ = constant.Int64Val(tv.Value)
								}
							}
						}
					}
				}
			}
		}
		return true
	})
	if len(units) == 0 || off < 0 {
		c.Undecided("parser", "units:tables-agree", c.P.Pos(fd.Pos()), "String() no longer indexes a literal unit list by u-K")
		return
	}
	var diffs []string
	for i, u := range units {
		exp := 3 * (int64(i) + off)
		if pe, ok := parse[u]; !ok {
			diffs = append(diffs, fmt.Sprintf("String prints unit %q which ParseCurrency does not know", u))
		} else if pe != exp {
			diffs = append(diffs, fmt.Sprintf("unit %q is printed for 10^%d but parsed as 10^%d", u, exp, pe))
		}
	}
	if capU >= 0 && capU-off != int64(len(units))-1 {
		diffs = append(diffs, fmt.Sprintf("unit index is capped at %d but the unit list has %d entries from index %d", capU, len(units), off))
	}
	var pk []string
	for k := range parse {
		pk = append(pk, k)
	}
	sort.Strings(pk)
	c.Check(len(diffs) == 0, "parser", "units:tables-agree", wherep, ifElse(len(diffs) == 0, fmt.Sprintf("%d printed units map to the same powers of ten in the parser table (%s)", len(units), strings.Join(pk, ",")), strings.Join(diffs, "; ")))
}

var recvCallRe = regexp.MustCompile(`call \(((?:[\w]+/)*[\w]+)\.[A-Za-z_]\w*\)\.`)

// plainCall renders method calls "call (pkg.T).m(" as "call pkg.m(": an unexported method and a plain function of
// the same name taking the value as first argument are the same step.
func plainCall(a string) string { return recvCallRe.ReplaceAllString(a, "call $1.") }

// pkgVarLiteral: the composite literal a package-level variable is initialised with (nil if none).
func pkgVarLiteral(pkg *packages.Package, v *types.Var) *ast.CompositeLit {
	for _, f := range pkg.Syntax {
		for _, d := range f.Decls {
			gd, ok := d.(*ast.GenDecl)
			if !ok || gd.Tok != token.VAR {
				continue
			}
			for _, sp := range gd.Specs {
				vs := sp.(*ast.ValueSpec)
				for i, n := range vs.Names {
					if pkg.TypesInfo.Defs[n] == v && i < len(vs.Values) {
						cl, _ := stripParens(vs.Values[i]).(*ast.CompositeLit)
						return cl
					}
				}
			}
		}
	}
	return nil
}
