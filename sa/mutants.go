package main

// Overlay mutant corpus: the checker's own acceptance test (DESIGN §8, Appendix A).
// Breaking mutants compile and are of the kind the existing suite does not notice.

func init() {
	// ---- C11 ----
	mut("C11", "drop TotalCollateral from both codec halves of V2FileContract", true, "fields|types|V2FileContract",
		Edit{"types/encoding.go", "\tV2Currency(fc.TotalCollateral).EncodeTo(e)\n", ""},
		Edit{"types/encoding.go", "\t(*V2Currency)(&fc.TotalCollateral).DecodeFrom(d)\n", ""})
	mut("C11", "swap ProofHeight/ExpirationHeight in the decoder only", true, "mirror|types|V2FileContract",
		Edit{"types/encoding.go", "\tfc.ProofHeight = d.ReadUint64()\n\tfc.ExpirationHeight = d.ReadUint64()\n", "\tfc.ExpirationHeight = d.ReadUint64()\n\tfc.ProofHeight = d.ReadUint64()\n"})
	mut("C11", "swap ProofHeight/ExpirationHeight on both sides", true, "layout|types.(V2FileContract).EncodeTo",
		Edit{"types/encoding.go", "\tfc.ProofHeight = d.ReadUint64()\n\tfc.ExpirationHeight = d.ReadUint64()\n", "\tfc.ExpirationHeight = d.ReadUint64()\n\tfc.ProofHeight = d.ReadUint64()\n"},
		Edit{"types/encoding.go", "\te.WriteUint64(fc.ProofHeight)\n\te.WriteUint64(fc.ExpirationHeight)\n", "\te.WriteUint64(fc.ExpirationHeight)\n\te.WriteUint64(fc.ProofHeight)\n"})
	mut("C11", "V2Transaction decoder tests bit 9 for the fee", true, "mirror|types|V2Transaction",
		Edit{"types/encoding.go", "\tif fields&(1<<10) != 0 {\n\t\t(*V2Currency)(&txn.MinerFee).DecodeFrom(d)", "\tif fields&(1<<9) != 0 {\n\t\t(*V2Currency)(&txn.MinerFee).DecodeFrom(d)"})
	mut("C11", "FileContract encoder writes the payout as V2Currency", true, "mirror|types|FileContract",
		Edit{"types/encoding.go", "\tV1Currency(fc.Payout).EncodeTo(e)\n\tEncodeSliceCast[V1SiacoinOutput](e, fc.ValidProofOutputs)", "\tV2Currency(fc.Payout).EncodeTo(e)\n\tEncodeSliceCast[V1SiacoinOutput](e, fc.ValidProofOutputs)"})
	mut("C11", "resolution decoder maps tag 1 to expiration", true, "tag-map",
		Edit{"types/encoding.go", "\tcase 1:\n\t\tres.Resolution = new(V2StorageProof)\n\tcase 2:\n\t\tres.Resolution = new(V2FileContractExpiration)", "\tcase 2:\n\t\tres.Resolution = new(V2StorageProof)\n\tcase 1:\n\t\tres.Resolution = new(V2FileContractExpiration)"})
	mut("C11", "V2Transaction bitmap drops the void foundation address", true, "bitmap",
		Edit{"types/encoding.go", "\t\ttxn.NewFoundationAddress != nil,\n", "\t\ttxn.NewFoundationAddress != nil && *txn.NewFoundationAddress != VoidAddress,\n"})
	mut("C11", "rhp/v4 HostPrices drops TipHeight on both sides", true, "fields|rhp/v4|HostPrices",
		Edit{"rhp/v4/encoding.go", "\te.WriteUint64(hp.TipHeight)\n", ""},
		Edit{"rhp/v4/encoding.go", "\thp.TipHeight = d.ReadUint64()\n", ""})
	mut("C11", "State decoder reads timestamps with a different presence predicate", true, "mirror|consensus|State",
		Edit{"consensus/state.go", "\tfor i := range s.PrevTimestamps[:s.numTimestamps()] {\n\t\ts.PrevTimestamps[i] = d.ReadTime()", "\tfor i := range s.PrevTimestamps[:len(s.PrevTimestamps)] {\n\t\ts.PrevTimestamps[i] = d.ReadTime()"})
	mut("C11", "(benign) rename receiver variable of ChainIndex.EncodeTo", false, "",
		Edit{"types/encoding.go", "func (index ChainIndex) EncodeTo(e *Encoder) {\n\te.WriteUint64(index.Height)\n\tindex.ID.EncodeTo(e)\n}", "func (ci ChainIndex) EncodeTo(e *Encoder) {\n\te.WriteUint64(ci.Height)\n\tci.ID.EncodeTo(e)\n}"})
	mut("C11", "(benign) V2FileContractRevision decoder via local alias", false, "",
		Edit{"types/encoding.go", "func (rev *V2FileContractRevision) DecodeFrom(d *Decoder) {\n\trev.Parent.DecodeFrom(d)\n\trev.Revision.DecodeFrom(d)\n}", "func (rev *V2FileContractRevision) DecodeFrom(d *Decoder) {\n\tp := &rev.Parent\n\tp.DecodeFrom(d)\n\trev.Revision.DecodeFrom(d)\n}"})
}

func init() {
	// ---- C08 ----
	v := "consensus/validation.go"
	mut("C08", "v2 maturity > becomes >=", true, "v2-output-maturity", Edit{v, "} else if sci.Parent.MaturityHeight > ms.base.childHeight() {", "} else if sci.Parent.MaturityHeight >= ms.base.childHeight() {"})
	mut("C08", "v1 signature timelock > becomes >=", true, "v1-signature-timelock", Edit{v, "} else if sig.Timelock > ms.base.childHeight() {", "} else if sig.Timelock >= ms.base.childHeight() {"})
	mut("C08", "expiration <= becomes <", true, "v2-expiration-height", Edit{v, "if ms.base.childHeight() <= fc.ExpirationHeight {", "if ms.base.childHeight() < fc.ExpirationHeight {"})
	mut("C08", "v1 gate >= becomes >", true, "v1-require-height", Edit{v, "if ms.base.childHeight() >= ms.base.Network.HardforkV2.RequireHeight {", "if ms.base.childHeight() > ms.base.Network.HardforkV2.RequireHeight {"})
	mut("C08", "v2 gate < becomes <=", true, "v2-allow-height", Edit{v, "if ms.base.childHeight() < ms.base.Network.HardforkV2.AllowHeight {", "if ms.base.childHeight() <= ms.base.Network.HardforkV2.AllowHeight {"})
	mut("C08", "policy height >= becomes >", true, "v2-policy-height-lock", Edit{"types/policy.go", "if height >= uint64(p) {", "if height > uint64(p) {"})
	mut("C08", "call site passes childHeight() to Verify", true, "v2-policy-height-lock", Edit{v, "sp.Policy.Verify(ms.base.Index.Height, ms.base.medianTimestamp(), sigHash, sp.Signatures, sp.Preimages); err != nil {", "sp.Policy.Verify(ms.base.childHeight(), ms.base.medianTimestamp(), sigHash, sp.Signatures, sp.Preimages); err != nil {"})
	mut("C08", "MaturityHeight drops the delay", true, "definition|MaturityHeight", Edit{"consensus/state.go", "return s.childHeight() + s.Network.MaturityDelay", "return s.childHeight()"})
	mut("C08", "v2 storage proof drops the ProofIndex height guard", true, "v2-proof-index-height", Edit{v, "} else if sp.ProofIndex.ChainIndex.Height != fc.ProofHeight {", "} else if false && sp.ProofIndex.ChainIndex.Height != fc.ProofHeight {"})
	mut("C08", "revision checks the parent's proof height only via the element (ignores in-block revision)", true, "v2-revision-current-proof-height",
		Edit{v, "case cur.ProofHeight < ms.base.childHeight():\n\t\t\treturn fmt.Errorf(\"revises contract after its proof window has opened\")", "case fce.V2FileContract.ProofHeight < ms.base.childHeight():\n\t\t\treturn fmt.Errorf(\"revises contract after its proof window has opened\")"},
		Edit{v, "} else if cur.ProofHeight < ms.base.childHeight() {\n\t\t\treturn fmt.Errorf(\"file contract revision %v cannot be applied to contract after proof height (%v)\", i, cur.ProofHeight)\n\t\t} else if", "} else if cur.ProofHeight == 0 && i < 0 {\n\t\t\treturn nil\n\t\t} else if"})
	mut("C08", "(benign) maturity guard rewritten with negation", false, "", Edit{v, "} else if sci.Parent.MaturityHeight > ms.base.childHeight() {", "} else if !(ms.base.childHeight() >= sci.Parent.MaturityHeight) {"})
	mut("C08", "(benign) v1 window guards reordered", false, "",
		Edit{v, "\t\tif fc.WindowStart < ms.base.childHeight() {\n\t\t\treturn fmt.Errorf(\"file contract %v has window that starts in the past\", i)\n\t\t} else if fc.WindowEnd <= fc.WindowStart {\n\t\t\treturn fmt.Errorf(\"file contract %v has window that ends before it begins\", i)\n\t\t}",
			"\t\tif fc.WindowEnd <= fc.WindowStart {\n\t\t\treturn fmt.Errorf(\"file contract %v has window that ends before it begins\", i)\n\t\t} else if ch := ms.base.childHeight(); fc.WindowStart < ch {\n\t\t\treturn fmt.Errorf(\"file contract %v has window that starts in the past\", i)\n\t\t}"})
}

func init() {
	// ---- C02 ----
	v := "consensus/validation.go"
	a := "consensus/application.go"
	mut("C02", "delete the ms.spent test for v2 siafund inputs", true, "v2-spent-set:SiafundInputs",
		Edit{v, "\t\tif txid, ok := ms.spent(sfi.Parent.ID); ok {\n\t\t\treturn fmt.Errorf(\"siafund input %v double-spends parent output (previously spent in %v)\", i, txid)\n\t\t} else if j, ok := spent[sfi.Parent.ID]; ok {", "\t\tif j, ok := spent[sfi.Parent.ID]; ok {"})
	mut("C02", "v2 resolutions: parent check skipped for expirations", true, "FileContractResolutions",
		Edit{v, "\t\tif err := validateParent(fcr.Parent.Share()); err != nil {\n\t\t\treturn fmt.Errorf(\"file contract renewal %v parent (%v) %s\", i, fcr.Parent.ID, err)\n\t\t}", "\t\tif _, isExp := fcr.Resolution.(*types.V2FileContractExpiration); !isExp {\n\t\t\tif err := validateParent(fcr.Parent.Share()); err != nil {\n\t\t\t\treturn fmt.Errorf(\"file contract renewal %v parent (%v) %s\", i, fcr.Parent.ID, err)\n\t\t\t}\n\t\t}"})
	mut("C02", "validateSupplement: drop the loop over txn.StorageProofs", true, "v1-supplement-live:StorageProofs",
		Edit{v, "\t\tfor _, sps := range txn.StorageProofs {\n\t\t\tif !s.Elements.containsUnresolvedFileContractElement(sps.FileContract.Share()) {\n\t\t\t\treturn fmt.Errorf(\"valid file contract %v is not present in the accumulator\", sps.FileContract.ID)\n\t\t\t}\n\t\t}\n", ""})
	mut("C02", "resolve recorder for v2 contracts: drop ms.spends[fce.ID] = txid", true, "spend-recorded",
		Edit{a, "\tfced.Resolution = res\n\tms.spends[fce.ID] = txid\n", "\tfced.Resolution = res\n\t_ = txid\n"})
	mut("C02", "applied-leaf walker: pass false for the siafund spent flag", true, "leaf-flag|leaf/siafund",
		Edit{a, "fn(siafundLeaf(&sfe.SiafundElement, sfe.Spent))", "fn(siafundLeaf(&sfe.SiafundElement, false))"})
	mut("C02", "invert polarity of the v1 siacoin spent test", true, "v1-spent-set:SiacoinInputs",
		Edit{v, "} else if txid, ok := ms.spent(types.Hash256(sci.ParentID)); ok {\n\t\t\treturn fmt.Errorf(\"siacoin input %v double-spends", "} else if txid, ok := ms.spent(types.Hash256(sci.ParentID)); !ok {\n\t\t\treturn fmt.Errorf(\"siacoin input %v double-spends"})
	mut("C02", "v2 siacoin duplicate map never written", true, "dup-map-written|v2:SiacoinInputs",
		Edit{v, "\t\tspent[sci.Parent.ID] = i\n", "\t\t_ = spent\n"})
	mut("C02", "expiring contracts resolved without consulting the spent set", true, "spend-applied",
		Edit{a, "\t\tif ms.isSpent(fce.ID) {\n\t\t\tcontinue\n\t\t}\n", ""})
	mut("C02", "(benign) v1 siacoin input checks as separate if statements", false, "",
		Edit{v, "\t\t\treturn fmt.Errorf(\"siacoin input %v has timelocked parent\", i)\n\t\t} else if txid, ok := ms.spent(types.Hash256(sci.ParentID)); ok {", "\t\t\treturn fmt.Errorf(\"siacoin input %v has timelocked parent\", i)\n\t\t}\n\t\tif txid, ok := ms.spent(types.Hash256(sci.ParentID)); ok {"})
}

func init() {
	// ---- C03 ----
	v := "consensus/validation.go"
	s := "consensus/state.go"
	mut("C03", "revision verified with the revision's own keys", true, "v2-revision-signed-current-keys",
		Edit{v, "return validateSignatures(rev, cur.RenterPublicKey, cur.HostPublicKey)", "return validateSignatures(rev, rev.RenterPublicKey, rev.HostPublicKey)"})
	mut("C03", "renewal: drop the host-key equality guard", true, "v2-renewal-keys-pinned:Host",
		Edit{v, "\t\t\t} else if fc.HostPublicKey != renewal.NewContract.HostPublicKey {\n\t\t\t\treturn fmt.Errorf(\"file contract renewal %v changes host public key\", i)\n\t\t\t}", "\t\t\t}"})
	mut("C03", "ContractSigHash zeroes only the renter signature", true, "sig-stripping",
		Edit{s, "\tnilSigs(&fc.RenterSignature, &fc.HostSignature)\n\treturn hashAll(\"sig/filecontract\"", "\tnilSigs(&fc.RenterSignature)\n\treturn hashAll(\"sig/filecontract\""})
	mut("C03", "WholeSigHash drops the FileContractRevisions block", true, "sighash-coverage|whole:FileContractRevisions",
		Edit{s, "\th.E.WriteUint64(uint64(len((txn.FileContractRevisions))))\n\tfor i := range txn.FileContractRevisions {\n\t\ttxn.FileContractRevisions[i].EncodeTo(h.E)\n\t}\n", ""})
	mut("C03", "attestation: VerifyHash result ignored", true, "v2-attestation-signed",
		Edit{v, "\t\tcase !a.PublicKey.VerifyHash(ms.base.AttestationSigHash(a), a.Signature):\n\t\t\treturn fmt.Errorf(\"attestation %v has invalid signature\", i)\n", "\t\tcase !a.PublicKey.VerifyHash(ms.base.AttestationSigHash(a), a.Signature) && false:\n\t\t\treturn fmt.Errorf(\"attestation %v has invalid signature\", i)\n"})
	mut("C03", "v2 foundation update accepted when any input exists", true, "v2-foundation:authorised",
		Edit{v, "\t\tif in.Parent.SiacoinOutput.Address == ms.base.FoundationManagementAddress {\n\t\t\treturn nil\n\t\t}", "\t\tif in.Parent.SiacoinOutput.Address != types.VoidAddress {\n\t\t\treturn nil\n\t\t}"})
	mut("C03", "v2 siafund inputs: policy address compared with the claim address", true, "v2-policy-address:SiafundInputs",
		Edit{v, "validateV2SpendPolicy(ms, sigHash, sfi.SatisfiedPolicy, sfi.Parent.SiafundOutput.Address, types.Hash256(sfi.Parent.ID))", "validateV2SpendPolicy(ms, sigHash, sfi.SatisfiedPolicy, sfi.ClaimAddress, types.Hash256(sfi.Parent.ID))"})
	mut("C03", "PartialSigHash indexes outputs by loop position", true, "sighash-coverage|partial:SiacoinOutputs",
		Edit{s, "\tfor _, i := range cf.SiacoinOutputs {\n\t\ttypes.V1SiacoinOutput(txn.SiacoinOutputs[i]).EncodeTo(h.E)", "\tfor i := range cf.SiacoinOutputs {\n\t\ttypes.V1SiacoinOutput(txn.SiacoinOutputs[i]).EncodeTo(h.E)"})
	mut("C03", "consensus.ApplyBlock overrides the subsidy address", true, "foundation-writers",
		Edit{"consensus/application.go", "\ts.FoundationSubsidyAddress = ms.foundationSubsidy\n", "\ts.FoundationSubsidyAddress = ms.foundationManagement\n"})
	mut("C03", "v1 signatures verified against a fixed whole-transaction hash", true, "v1-sig-verifies",
		Edit{v, "\t\t\t\tsigHash = ms.base.PartialSigHash(txn, sig.CoveredFields)\n", "\t\t\t\tsigHash = ms.base.WholeSigHash(txn, sig.ParentID, sig.PublicKeyIndex, sig.Timelock, nil)\n"})
	mut("C03", "(benign) contract signature closure inlined for new contracts", false, "",
		Edit{v, "\t\treturn validateSignatures(fc, fc.RenterPublicKey, fc.HostPublicKey)\n\t}\n\n\tvalidateRevision", "\t\tcontractHash := ms.base.ContractSigHash(fc)\n\t\tif !fc.RenterPublicKey.VerifyHash(contractHash, fc.RenterSignature) {\n\t\t\treturn errors.New(\"has invalid renter signature\")\n\t\t} else if !fc.HostPublicKey.VerifyHash(contractHash, fc.HostSignature) {\n\t\t\treturn errors.New(\"has invalid host signature\")\n\t\t}\n\t\treturn nil\n\t}\n\n\tvalidateRevision"})
}

func init() {
	// ---- C01 ----
	v := "consensus/validation.go"
	a := "consensus/application.go"
	mut("C01", "v2 balance: miner fee not added to the output sum", true, "balance-equation|v2-siacoins",
		Edit{v, "\toutputSum = outputSum.Add(txn.MinerFee)\n\tif inputSum != outputSum {", "\tif inputSum != outputSum {"})
	mut("C01", "v2 balance: MissedHostValue used for the new contract's host output", true, "balance-equation|v2-siacoins",
		Edit{v, "outputSum = outputSum.Add(fc.RenterOutput.Value).Add(fc.HostOutput.Value).Add(ms.base.V2FileContractTax(fc))", "outputSum = outputSum.Add(fc.RenterOutput.Value).Add(fc.MissedHostValue).Add(ms.base.V2FileContractTax(fc))"})
	mut("C01", "expiration pays the valid host output", true, "value-source|v2-resolution-host",
		Edit{a, "renter, host = fc.RenterOutput, fc.MissedHostOutput()", "renter, host = fc.RenterOutput, fc.HostOutput"})
	mut("C01", "claim computed from the base state's pool", true, "value-source|v2-claim",
		Edit{a, "claimPortion := ms.siafundTaxRevenue.Sub(sfi.Parent.ClaimStart).Div64(ms.base.SiafundCount()).Mul64(sfi.Parent.SiafundOutput.Value)", "claimPortion := ms.base.SiafundTaxRevenue.Sub(sfi.Parent.ClaimStart).Div64(ms.base.SiafundCount()).Mul64(sfi.Parent.SiafundOutput.Value)"})
	mut("C01", "v1 revise recorder forgets the payout", true, "tax-pairing|revision-keeps-payout",
		Edit{a, "\trev.Payout = fce.FileContract.Payout\n\tfced := ms.recordFileContractElement(fce.ID)", "\tfced := ms.recordFileContractElement(fce.ID)"})
	mut("C01", "miner payouts: v2 fees not expected", true, "balance-equation|miner-payout",
		Edit{v, "\t\t\texpectedSum, overflow = expectedSum.AddWithOverflow(txn.MinerFee)\n\t\t\tif overflow {\n\t\t\t\treturn errors.New(\"v2 transaction fees overflow\")\n\t\t\t}\n", "\t\t\t_ = txn\n"})
	mut("C01", "new siafund elements start claiming at the base pool", true, "tax-pairing|claim-start",
		Edit{a, "\t\tClaimStart:    ms.siafundTaxRevenue,\n", "\t\tClaimStart:    ms.base.SiafundTaxRevenue,\n"})
	mut("C01", "v2 contract creation taxed with the v1 formula on a converted contract", true, "tax-pairing|writer",
		Edit{a, "\tms.siafundTaxRevenue = ms.siafundTaxRevenue.Add(ms.base.V2FileContractTax(fc))\n", "\tms.siafundTaxRevenue = ms.siafundTaxRevenue.Add(fc.RenterOutput.Value.Add(fc.HostOutput.Value).Div64(25))\n"})
	mut("C01", "storage proof pays the missed outputs", true, "value-source|v1-storage-proof-valid-outputs",
		Edit{a, "\t\tfor i, sco := range fce.FileContract.ValidProofOutputs {\n\t\t\tms.createImmatureSiacoinElement(sp.ParentID.ValidOutputID(i), sco)", "\t\tfor i, sco := range fce.FileContract.MissedProofOutputs {\n\t\t\tms.createImmatureSiacoinElement(sp.ParentID.ValidOutputID(i), sco)"})
	mut("C01", "v2 storage-proof payout created mature", true, "value-source|v2-resolution-renter",
		Edit{a, "\t\tms.createImmatureSiacoinElement(fcr.Parent.ID.V2RenterOutputID(), renter)", "\t\tms.createSiacoinElement(fcr.Parent.ID.V2RenterOutputID(), renter)"})
	mut("C01", "(benign) balance compared with Equals", false, "",
		Edit{v, "\tif inputSum != outputSum {\n\t\treturn fmt.Errorf(\"siacoin inputs (%v) do not equal outputs (%v)\", inputSum, outputSum)\n\t}\n\n\treturn nil\n}\n\nfunc validateEphemeralSiafundElement", "\tif !inputSum.Equals(outputSum) {\n\t\treturn fmt.Errorf(\"siacoin inputs (%v) do not equal outputs (%v)\", inputSum, outputSum)\n\t}\n\n\treturn nil\n}\n\nfunc validateEphemeralSiafundElement"})
	mut("C01", "(benign) v2 output loop hoisted into a helper closure", false, "",
		Edit{v, "\tfor i, out := range txn.SiacoinOutputs {\n\t\tif out.Value.IsZero() {\n\t\t\treturn fmt.Errorf(\"siacoin output %v has zero value\", i)\n\t\t}\n\t\toutputSum = outputSum.Add(out.Value)\n\t}", "\tfor i, out := range txn.SiacoinOutputs {\n\t\tif out.Value.IsZero() {\n\t\t\treturn fmt.Errorf(\"siacoin output %v has zero value\", i)\n\t\t}\n\t}\n\tsumOutputs := func() (sum types.Currency) {\n\t\tfor _, out := range txn.SiacoinOutputs {\n\t\t\tsum = sum.Add(out.Value)\n\t\t}\n\t\treturn sum\n\t}\n\toutputSum = outputSum.Add(sumOutputs())"})
}

func init() {
	// ---- C07 ----
	v := "consensus/validation.go"
	a := "consensus/application.go"
	mut("C07", "v1 storage proof pays the missed outputs", true, "payout|v1-storage-proof-valid-outputs",
		Edit{a, "\t\tfor i, sco := range fce.FileContract.ValidProofOutputs {\n\t\t\tms.createImmatureSiacoinElement(sp.ParentID.ValidOutputID(i), sco)", "\t\tfor i, sco := range fce.FileContract.MissedProofOutputs {\n\t\t\tms.createImmatureSiacoinElement(sp.ParentID.ValidOutputID(i), sco)"})
	mut("C07", "v2 revision: total-collateral guard dropped", true, "v2-revision-collateral",
		Edit{v, "\t\tcase rev.TotalCollateral != cur.TotalCollateral:\n\t\t\treturn errors.New(\"modifies total collateral\")\n", ""})
	mut("C07", "(benign for C07) v2 revision number may stay equal", false, "",
		Edit{v, "case rev.RevisionNumber <= cur.RevisionNumber:", "case rev.RevisionNumber < cur.RevisionNumber:"})
	mut("C07", "v2 revision: missed host compared with the revision's own host value only", true, "v2-revision-missed-host",
		Edit{v, "case rev.MissedHostValue.Cmp(cur.MissedHostValue) > 0:", "case rev.MissedHostValue.Cmp(rev.HostOutput.Value) > 0:"})
	mut("C07", "apply: expiration case missing from the payout switch (falls to renewal-like default)", true, "payout|v2-resolution-host",
		Edit{a, "\t\tcase *types.V2FileContractExpiration:\n\t\t\trenter, host = fc.RenterOutput, fc.MissedHostOutput()\n\t\tdefault:\n\t\t\tpanic(fmt.Sprintf(\"unhandled resolution type %T\", r))", "\t\tdefault:\n\t\t\t_ = fmt.Sprint\n\t\t\trenter, host = fc.RenterOutput, fc.HostOutput"})
	mut("C07", "v2 storage proof root compared with a root derived from the proof itself", true, "v2-proof-root",
		Edit{v, "leafIndex, fc.Filesize, sp.Proof) != fc.FileMerkleRoot {", "leafIndex, fc.Filesize, sp.Proof) != fc.FileMerkleRoot && len(sp.Proof) > 0 {"})
	mut("C07", "v2 challenge index derived from the proposed leaf instead of the committed size", true, "v2-proof-root",
		Edit{v, "leafIndex := ms.base.StorageProofLeafIndex(fc.Filesize, sp.ProofIndex.ChainIndex.ID, types.FileContractID(fcr.Parent.ID))\n\t\t\tif storageProofRoot", "leafIndex := ms.base.StorageProofLeafIndex(fc.Capacity, sp.ProofIndex.ChainIndex.ID, types.FileContractID(fcr.Parent.ID))\n\t\t\tif storageProofRoot"})
	mut("C07", "v2 revise recorder drops the second-revision arm", true, "revision-recorded",
		Edit{a, "\tfced := ms.recordV2FileContractElement(fce.ID)\n\tif fced.Created {\n\t\tfced.V2FileContractElement.V2FileContract = rev\n\t} else if fced.Revision != nil {\n\t\t*fced.Revision = rev\n\t} else {", "\tfced := ms.recordV2FileContractElement(fce.ID)\n\tif fced.Created {\n\t\tfced.V2FileContractElement.V2FileContract = rev\n\t} else if fced.Revision != nil {\n\t\t_ = rev\n\t} else {"})
	mut("C07", "resolution JSON diff marshaller loses the expiration kind", true, "resolution-exhaustive",
		Edit{"consensus/state.go", "\tcase *types.V2FileContractExpiration:\n\t\ttyp = v2ResolutionExpiration\n\tdefault:\n\t\treturn nil, fmt.Errorf(\"unknown V2FileContractResolutionType: %T\", diff.Resolution)\n", "\tdefault:\n\t\ttyp = v2ResolutionStorageProof\n"})
}

func init() {
	// ---- C06 ----
	a := "consensus/application.go"
	mut("C06", "RevertBlock does not reverse the v1 contract diffs", true, "order-reversed|fces", Edit{a, "\tslices.Reverse(ms.fces)\n", ""})
	mut("C06", "reverted-leaf walker passes the siafund spent flag", true, "pre-block-leaf|leaf/siafund", Edit{a, "\t\tfn(siafundLeaf(&sfes[i].SiafundElement, false))", "\t\tfn(siafundLeaf(&sfes[i].SiafundElement, sfes[i].Spent))"})
	mut("C06", "RevertBlock applies only the transactions (no block-level effects)", true, "same-source",
		Edit{a, "\tms := NewMidState(s)\n\tms.ApplyBlock(b, bs)\n\n\t// compute updated elements", "\tms := NewMidState(s)\n\tfor i, txn := range b.Transactions {\n\t\tms.ApplyTransaction(txn, bs.Transactions[i])\n\t}\n\n\t// compute updated elements"})
	mut("C06", "v2 revise recorder overwrites the stored element on every revision", true, "pre-block-element-kept",
		Edit{a, "\t} else if fced.Revision != nil {\n\t\t*fced.Revision = rev\n\t} else {\n\t\tfced.V2FileContractElement = fce.Copy()\n\t\tfced.Revision = &rev\n\t}", "\t} else {\n\t\tfced.V2FileContractElement = fce.Copy()\n\t\tfced.Revision = &rev\n\t}"})
	mut("C06", "RevertBlock reverses before re-pointing the leaves", true, "pointer-stability",
		Edit{a, "\tfor _, elems := range eru.updated {\n\t\tfor i := range elems {\n\t\t\tse := elems[i].StateElement.Move()\n\t\t\telems[i].StateElement = &se\n\t\t}\n\t}\n\tslices.Reverse(ms.sces)", "\tslices.Reverse(ms.sces)\n\tfor _, elems := range eru.updated {\n\t\tfor i := range elems {\n\t\t\tse := elems[i].StateElement.Move()\n\t\t\telems[i].StateElement = &se\n\t\t}\n\t}"})
	mut("C06", "(benign) reversal through a small local helper loop order changed", false, "", Edit{a, "\tslices.Reverse(ms.sces)\n\tslices.Reverse(ms.sfes)\n", "\tslices.Reverse(ms.sfes)\n\tslices.Reverse(ms.sces)\n"})
}

func init() {
	// ---- C04 ----
	m := "consensus/merkle.go"
	mut("C04", "siacoin leaf drops the maturity height", true, "leaf-coverage|leaf/siacoin",
		Edit{m, "elemHash := hashAll(\"leaf/siacoin\", e.ID, types.V2SiacoinOutput(e.SiacoinOutput), e.MaturityHeight)", "elemHash := hashAll(\"leaf/siacoin\", e.ID, types.V2SiacoinOutput(e.SiacoinOutput))"},
		Edit{"types/multiproof.go", "hashAll(\"leaf/siacoin\", e.ID, V2SiacoinOutput(e.SiacoinOutput), e.MaturityHeight)", "hashAll(\"leaf/siacoin\", e.ID, V2SiacoinOutput(e.SiacoinOutput))"})
	mut("C04", "siafund leaf drops the claim start", true, "leaf-coverage|leaf/siafund",
		Edit{m, "elemHash := hashAll(\"leaf/siafund\", e.ID, types.V2SiafundOutput(e.SiafundOutput), types.V2Currency(e.ClaimStart))", "elemHash := hashAll(\"leaf/siafund\", e.ID, types.V2SiafundOutput(e.SiafundOutput))"})
	mut("C04", "leaf hash does not write the spent byte", true, "leaf-hash|spent-flag", Edit{m, "\tif l.spent {\n\t\tbuf[41] = 1\n\t}\n", "\t_ = l.spent\n"})
	mut("C04", "containsLeaf drops the tree-exists conjunct", true, "membership-predicate",
		Edit{m, "return acc.hasTreeAtHeight(len(l.MerkleProof)) && acc.Trees[len(l.MerkleProof)] == l.proofRoot()", "return len(l.MerkleProof) < len(acc.Trees) && acc.Trees[len(l.MerkleProof)] == l.proofRoot()"})
	mut("C04", "containsUnspentSiafundElement hashes as spent", true, "wrapper:containsUnspentSiafundElement",
		Edit{m, "func (acc *ElementAccumulator) containsUnspentSiafundElement(sfe types.SiafundElement) bool {\n\treturn acc.containsLeaf(siafundLeaf(&sfe, false))", "func (acc *ElementAccumulator) containsUnspentSiafundElement(sfe types.SiafundElement) bool {\n\treturn acc.containsLeaf(siafundLeaf(&sfe, true))"})
	mut("C04", "ValidateTransactionElements skips the storage-proof chain index", true, "parent-coverage",
		Edit{m, "\t\tif r, ok := txn.FileContractResolutions[i].Resolution.(*types.V2StorageProof); ok {\n\t\t\tcheck(\"storage proof\", chainIndexLeaf(&r.ProofIndex))\n\t\t}\n", ""})
	mut("C04", "applied-leaf walker omits attestations", true, "leaf-collection|leaf/attestation",
		Edit{"consensus/application.go", "\tfor i := range aes {\n\t\tfn(attestationLeaf(&aes[i]))\n\t}\n", ""})
	mut("C04", "multiproof copy of the siacoin leaf diverges", true, "leaf-sibling|leaf/siacoin",
		Edit{"types/multiproof.go", "hashAll(\"leaf/siacoin\", e.ID, V2SiacoinOutput(e.SiacoinOutput), e.MaturityHeight)", "hashAll(\"leaf/siacoin\", e.ID, e.MaturityHeight, V2SiacoinOutput(e.SiacoinOutput))"})
}

func init() {
	// ---- C13 ----
	v := "consensus/validation.go"
	a := "consensus/application.go"
	mut("C13", "consensus.ApplyBlock adjusts the difficulty itself after ApplyHeader", true, "pow-writers",
		Edit{a, "\ts = ApplyHeader(s, b.Header(), targetTimestamp)\n\treturn s, ApplyUpdate{", "\ts = ApplyHeader(s, b.Header(), targetTimestamp)\n\ts.Difficulty = s.Difficulty.add(Work{})\n\treturn s, ApplyUpdate{"})
	mut("C13", "ValidateHeader: work comparison < becomes <=", true, "meets-target", Edit{v, "} else if bh.ID().CmpWork(s.PoWTarget()) < 0 {", "} else if bh.ID().CmpWork(s.PoWTarget()) <= 0 {"})
	mut("C13", "ValidateHeader: nonce-factor test dropped", true, "nonce-factor", Edit{v, "\t} else if bh.Nonce%s.NonceFactor() != 0 {\n\t\treturn errors.New(\"nonce not divisible by required factor\")\n", ""})
	mut("C13", "ValidateOrphan no longer validates the header", true, "@consensus.ValidateOrphan", Edit{v, "\t} else if err := ValidateHeader(s, b.Header()); err != nil {\n\t\treturn fmt.Errorf(\"block has %w\", err)\n\t}", "\t}"})
	mut("C13", "PoWTarget always derived from Difficulty", true, "PoWTarget", Edit{"consensus/state.go", "\tif s.childHeight() < s.Network.HardforkV2.FinalCutHeight {\n\t\treturn s.ChildTarget\n\t}\n\treturn invTarget(s.Difficulty.n)", "\treturn invTarget(s.Difficulty.n)"})
	mut("C13", "final-cut adjustment loses the floor of one", true, "clamp-shape", Edit{a, "\tnewDifficulty = newDifficulty.max(s.Difficulty.sub(maxAdjust))\n\n\treturn newDifficulty.max(oneWork) // difficulty cannot be 0", "\treturn newDifficulty.max(s.Difficulty.sub(maxAdjust))"})
	mut("C13", "median-time test uses After", true, "median-time", Edit{v, "} else if bh.Timestamp.Before(s.medianTimestamp()) {", "} else if s.medianTimestamp().Before(bh.Timestamp) {"})
}

func init() {
	// ---- C09 ----
	a := "consensus/application.go"
	mut("C09", "spend recorder stores the caller's element (Move instead of Copy)", true, "diff-owns-memory",
		Edit{a, "\tsced := ms.recordSiacoinElement(sce.ID)\n\tsced.SiacoinElement = sce.Copy()\n\tsced.Spent = true", "\tsced := ms.recordSiacoinElement(sce.ID)\n\tsced.SiacoinElement = sce.Move()\n\tsced.Spent = true"})
	mut("C09", "multiproof encoder strips proofs on the caller's transactions", true, "inputs-not-written",
		Edit{"types/multiproof.go", "func (txns V2TransactionsMultiproof) EncodeTo(e *Encoder) {", "func (txns V2TransactionsMultiproof) EncodeTo(e *Encoder) {\n\tif len(txns) > 0 && len(txns[0].SiacoinInputs) > 0 {\n\t\ttxns[0].SiacoinInputs[0].Parent.StateElement.MerkleProof = nil\n\t}"})
	mut("C09", "semantic encoding zeroes the renewal's signatures through the original pointer", true, "inputs-not-written",
		Edit{"types/encoding.go", "\t\t\trenewal := *res\n\t\t\tnilSigs(\n\t\t\t\t&renewal.NewContract.RenterSignature, &renewal.NewContract.HostSignature,\n\t\t\t\t&renewal.RenterSignature, &renewal.HostSignature,\n\t\t\t)\n\t\t\tfcr.Resolution = &renewal", "\t\t\trenewal := res\n\t\t\tnilSigs(\n\t\t\t\t&renewal.NewContract.RenterSignature, &renewal.NewContract.HostSignature,\n\t\t\t\t&renewal.RenterSignature, &renewal.HostSignature,\n\t\t\t)\n\t\t\tfcr.Resolution = renewal"})
	mut("C09", "V2TransactionWeight nils proofs through the slice", true, "inputs-not-written",
		Edit{"consensus/state.go", "\tfor _, sci := range txn.SiacoinInputs {\n\t\tsci.Parent.StateElement.MerkleProof = nil\n\t\tsci.EncodeTo(e)\n\t}", "\tfor i := range txn.SiacoinInputs {\n\t\ttxn.SiacoinInputs[i].Parent.StateElement.MerkleProof = nil\n\t\ttxn.SiacoinInputs[i].EncodeTo(e)\n\t}"})
	mut("C09", "hashAll without Reset", true, "pool-discipline", Edit{"consensus/state.go", "\tdefer hasherPool.Put(h)\n\th.Reset()\n\tfor _, e := range elems {", "\tdefer hasherPool.Put(h)\n\tfor _, e := range elems {"})
	mut("C09", "package-level cache written in FileContractTax", true, "no-shared-state",
		Edit{"consensus/state.go", "func (s State) FileContractTax(fc types.FileContract) types.Currency {", "var lastTaxPayout types.Currency\n\nfunc (s State) FileContractTax(fc types.FileContract) types.Currency {\n\tlastTaxPayout = fc.Payout"})
	mut("C09", "DeepCopy stops cloning ArbitraryData", true, "copy-is-deep", Edit{"types/types.go", "\tc.ArbitraryData = slices.Clone(c.ArbitraryData)\n\tif c.NewFoundationAddress != nil {", "\tif c.NewFoundationAddress != nil {"})
	mut("C09", "StateElement.Copy reuses the proof's backing array", true, "copy-is-deep|StateElement.Copy", Edit{"types/types.go", "\tse.MerkleProof = slices.Clone(se.MerkleProof)\n\tse.shared = false", "\tse.MerkleProof = append(se.MerkleProof[:0], se.MerkleProof...)\n\tse.shared = false"})
	mut("C09", "ValidateBlock applies each v2 transaction before validating it", true, "txn-by-txn",
		Edit{"consensus/validation.go", "\tfor i, txn := range b.V2Transactions() {\n\t\tif err := ValidateV2Transaction(ms, txn); err != nil {\n\t\t\treturn fmt.Errorf(\"v2 transaction %v is invalid: %w\", i, err)\n\t\t}\n\t\tms.ApplyV2Transaction(txn)\n\t}", "\tfor i, txn := range b.V2Transactions() {\n\t\tms.ApplyV2Transaction(txn)\n\t\tif err := ValidateV2Transaction(ms, txn); err != nil {\n\t\t\treturn fmt.Errorf(\"v2 transaction %v is invalid: %w\", i, err)\n\t\t}\n\t}"})
	mut("C09", "validateSignatures result depends on map iteration (first missing parent reported via side effect)", true, "deterministic",
		Edit{"consensus/validation.go", "\tfor id, sig := range sigMap {\n\t\tif sig.need > 0 {\n\t\t\treturn fmt.Errorf(\"parent %v has missing signatures\", id)\n\t\t}\n\t}\n\treturn nil", "\tvar missing []types.Hash256\n\tfor id, sig := range sigMap {\n\t\tif sig.need > 0 {\n\t\t\tmissing = append(missing, id)\n\t\t}\n\t}\n\tif len(missing) > 0 {\n\t\treturn fmt.Errorf(\"parent %v has missing signatures\", missing[0])\n\t}\n\treturn nil"})
	mut("C09", "(benign) V2TransactionWeight copies the input explicitly", false, "",
		Edit{"consensus/state.go", "\tfor _, sci := range txn.SiacoinInputs {\n\t\tsci.Parent.StateElement.MerkleProof = nil\n\t\tsci.EncodeTo(e)\n\t}", "\tfor i := range txn.SiacoinInputs {\n\t\tsci := txn.SiacoinInputs[i]\n\t\tsci.Parent.StateElement.MerkleProof = nil\n\t\tsci.EncodeTo(e)\n\t}"})
}

func init() {
	// ---- C14 ----
	p := "types/policy.go"
	mut("C14", "leftover preimages accepted", true, "no-leftover-preimages", Edit{p, "\t} else if len(preimages) > 0 {\n\t\treturn errors.New(\"superfluous preimage(s)\")\n\t}", "\t}"})
	mut("C14", "threshold: at least N instead of exactly N", true, "threshold-not-exceeded", Edit{p, "\t\t\t\t\tif satisfied == p.N {\n\t\t\t\t\t\treturn errors.New(\"threshold exceeded\")", "\t\t\t\t\tif satisfied > p.N {\n\t\t\t\t\t\treturn errors.New(\"threshold exceeded\")"})
	mut("C14", "Address() hashes children without opacifying them", true, "children-opacified",
		Edit{p, "\t\tfor i := range pt.Of {\n\t\t\tpt.Of[i] = PolicyOpaque(pt.Of[i])\n\t\t}\n", ""})
	mut("C14", "Address() opacifies in the caller's slice", true, "does-not-write-policy", Edit{p, "\t\tpt.Of = append([]SpendPolicy(nil), pt.Of...)\n", "\t\tpt.Of = append(pt.Of[:0], pt.Of...)\n"})
	mut("C14", "String() loses the after case", true, "policy-exhaustive", Edit{p, "\tcase PolicyTypeAfter:\n\t\tsb.WriteString(\"after(\")\n\t\tsb.WriteString(strconv.FormatInt(time.Time(p).Unix(), 10))\n\t\tsb.WriteByte(')')\n\n", ""})
	mut("C14", "hash leaf accepts any preimage", true, "hash-leaf-matches", Edit{p, "if preimage, ok := nextPreimage(); ok && p == sha256.Sum256(preimage[:]) {", "if preimage, ok := nextPreimage(); ok && (p == sha256.Sum256(preimage[:]) || preimage[0] == 0) {"})
	mut("C14", "signature cursor advances by two", true, "cursor", Edit{p, "\t\t\tsig, sigs = sigs[0], sigs[1:]\n", "\t\t\tsig, sigs = sigs[0], sigs[min(2, len(sigs)):]\n"})
	mut("C14", "empty threshold accepted without consulting N", true, "threshold", Edit{p, "\t\tcase PolicyTypeThreshold:\n", "\t\tcase PolicyTypeThreshold:\n\t\t\tif len(p.Of) == 0 {\n\t\t\t\treturn nil\n\t\t\t}\n"})
}

func init() {
	// ---- C10 ----
	e := "types/encoding.go"
	v := "consensus/validation.go"
	mut("C10", "DecodeSlice: remaining-bytes guard dropped", true, "slice-prefix-vs-remaining:DecodeSlice",
		Edit{e, "\tn := d.ReadUint64()\n\tif n > uint64(d.lr.N) {\n\t\td.SetErr(fmt.Errorf(\"encoded object contains invalid length prefix (%v elems > %v bytes left in stream)\", n, d.lr.N))\n\t\treturn\n\t}\n\tvar items []T\n\tfor range n {", "\tn := d.ReadUint64()\n\tvar items []T\n\tfor range n {"})
	mut("C10", "ReadBytes: guard dropped", true, "bytes-prefix-vs-remaining",
		Edit{e, "\tn := d.ReadUint64()\n\tif n > uint64(d.lr.N) {\n\t\td.SetErr(fmt.Errorf(\"encoded object contains invalid length prefix (%v elems > %v bytes left in stream)\", n, d.lr.N))\n\t\treturn nil\n\t}\n\tb := make([]byte, n)", "\tn := d.ReadUint64()\n\tb := make([]byte, n)"})
	mut("C10", "policy decoder: depth test dropped", true, "policy-depth",
		Edit{e, "\t\tif depth > maxPolicyDepth {\n\t\t\treturn SpendPolicy{}, fmt.Errorf(\"policy exceeds maximum nesting depth of %d\", maxPolicyDepth)\n\t\t}\n", "\t\t_ = depth\n"})
	mut("C10", "outline decoder: kinds[i] > 2 test dropped", true, "outline",
		Edit{"gateway/encoding.go", "\t\tif kinds[i] > 2 {\n\t\t\td.SetErr(fmt.Errorf(\"invalid outline transaction type (%d)\", kinds[i]))\n\t\t\treturn\n\t\t}\n", ""})
	mut("C10", "v1 signatures: PublicKeyIndex bound dropped", true, "sink-discharged|consensus.validateSignatures",
		Edit{v, "\t\t} else if sig.PublicKeyIndex >= uint64(len(e.keys)) {\n\t\t\treturn fmt.Errorf(\"signature %v points to a nonexistent public key\", i)\n", ""})
	mut("C10", "v2 overflow pre-check skips contract payouts of revisions", true, "checked-arith",
		Edit{v, "\tfor _, fc := range txn.FileContractRevisions {\n\t\taddContract(fc.Revision)\n\t}\n", ""})
	mut("C10", "multiproof decoder: leaf index may equal the leaf count", true, "multiproof-leaf-index",
		Edit{"types/multiproof.go", "\t\tif l.LeafIndex >= numLeaves {", "\t\tif l.LeafIndex > numLeaves {"})
	mut("C10", "V1Currency decoder: length bound off by one", true, "V1Currency",
		Edit{e, "\tif n > 16 {\n\t\td.SetErr(fmt.Errorf(\"Currency too large: %v bytes\", n))", "\tif n > 17 {\n\t\td.SetErr(fmt.Errorf(\"Currency too large: %v bytes\", n))"})
	mut("C10", "ephemeral siacoin parent: shared index not bounded", true, "ephemeral-index-bound:siacoin",
		Edit{v, "\tif !ok || j >= len(ms.sces) || !ms.sces[j].Created {\n\t\treturn fmt.Errorf(\"spends nonexistent ephemeral output %v\", sci.Parent.ID)", "\tif !ok || !ms.sces[j].Created {\n\t\treturn fmt.Errorf(\"spends nonexistent ephemeral output %v\", sci.Parent.ID)"})
	mut("C10", "covered fields no longer validated", true, "PartialSigHash",
		Edit{v, "\t\t} else if !validCoveredFields(txn, sig.CoveredFields) {\n\t\t\treturn fmt.Errorf(\"signature %v covers nonexistent fields\", i)\n", ""})
	mut("C10", "MidState lookup drops the ID comparison", true, "lookup-id-matches:siacoinElement",
		Edit{"consensus/state.go", "if i, ok := ms.elements[id]; ok && i < len(ms.sces) && ms.sces[i].SiacoinElement.ID == id {", "if i, ok := ms.elements[id]; ok && i < len(ms.sces) {"})
	mut("C10", "Account.UnmarshalText length guard dropped", true, "Account",
		Edit{"rhp/v4/rhp.go", "\tif hex.DecodedLen(len(b)) > len(a) {\n\t\treturn fmt.Errorf(\"decoding ed25519:<hex> failed: input too long\")\n\t}\n", ""})
	mut("C10", "(benign) V1Currency bound written as >= 17", false, "",
		Edit{e, "\tif n > 16 {\n\t\td.SetErr(fmt.Errorf(\"Currency too large: %v bytes\", n))", "\tif n >= 17 {\n\t\td.SetErr(fmt.Errorf(\"Currency too large: %v bytes\", n))"})
}

func init() {
	// ---- C12 ----
	mut("C12", "RenewalSigHash forgets to strip the new contract's host signature", true, "sig-stripping",
		Edit{"consensus/state.go", "\t\t&fcr.NewContract.RenterSignature, &fcr.NewContract.HostSignature,\n", "\t\t&fcr.NewContract.RenterSignature,\n"})
	mut("C12", "AttestationSigHash drops the v2 replay prefix", true, "replay-prefix",
		Edit{"consensus/state.go", "hashAll(\"sig/attestation\", s.v2ReplayPrefix(), a)", "hashAll(\"sig/attestation\", a)"})
	mut("C12", "attestation and contract signature hashes share a distinguisher", true, "layout",
		Edit{"consensus/state.go", "hashAll(\"sig/attestation\", s.v2ReplayPrefix(), a)", "hashAll(\"sig/filecontract\", s.v2ReplayPrefix(), a)"})
	mut("C12", "WholeSigHash omits the replay prefix before siacoin inputs", true, "replay-prefix",
		Edit{"consensus/state.go", "\th.E.WriteUint64(uint64(len((txn.SiacoinInputs))))\n\tfor i := range txn.SiacoinInputs {\n\t\th.E.Write(s.replayPrefix())\n", "\th.E.WriteUint64(uint64(len((txn.SiacoinInputs))))\n\tfor i := range txn.SiacoinInputs {\n"})
	mut("C12", "V2TransactionSemantics stops committing the miner fee", true, "exclusion-set",
		Edit{"types/encoding.go", "\tEncodePtr(e, txn.NewFoundationAddress)\n\tV2Currency(txn.MinerFee).EncodeTo(e)\n}", "\tEncodePtr(e, txn.NewFoundationAddress)\n}"})
	mut("C12", "(benign) ContractSigHash zeroes the signatures by assignment", false, "",
		Edit{"consensus/state.go", "\tnilSigs(&fc.RenterSignature, &fc.HostSignature)\n\treturn hashAll(\"sig/filecontract\"", "\tfc.RenterSignature, fc.HostSignature = types.Signature{}, types.Signature{}\n\treturn hashAll(\"sig/filecontract\""})
}

func init() {
	// ---- C15 ----
	cur := "types/currency.go"
	mut("C15", "MulWithOverflow forgets the carry of the second cross-term addition", true, "limb-identity|types.(Currency).MulWithOverflow",
		Edit{cur, "p0 != 0 || p2 != 0 || c0 != 0 || c1 != 0", "p0 != 0 || p2 != 0 || c0 != 0"},
		Edit{cur, "hi, c1 := bits.Add64(hi, p3, 0)", "hi, _ = bits.Add64(hi, p3, 0)"})
	mut("C15", "MulWithOverflow reports overflow only when both high words are set or a cross product spills (drops p2)", true, "limb-identity|types.(Currency).MulWithOverflow",
		Edit{cur, "|| p0 != 0 || p2 != 0 ||", "|| p0 != 0 ||"},
		Edit{cur, "p2, p3 := bits.Mul64(c.Lo, v.Hi)", "_, p3 := bits.Mul64(c.Lo, v.Hi)"})
	mut("C15", "MulWithOverflow adds the high half of a cross product instead of the low half", true, "limb-identity|types.(Currency).MulWithOverflow",
		Edit{cur, "hi, c1 := bits.Add64(hi, p3, 0)", "hi, c1 := bits.Add64(hi, p2, 0)"},
		Edit{cur, "p2, p3 := bits.Mul64(c.Lo, v.Hi)", "p2, _ := bits.Mul64(c.Lo, v.Hi)"})
	mut("C15", "Mul64WithOverflow adds the cross term with plain + (carry dropped)", true, "limb-identity|types.(Currency).Mul64WithOverflow",
		Edit{cur, "\thi2, c0 := bits.Add64(hi0, lo1, 0)\n\treturn Currency{lo0, hi2}, hi1 != 0 || c0 != 0", "\thi2 := hi0 + lo1\n\treturn Currency{lo0, hi2}, hi1 != 0"})
	mut("C15", "AddWithOverflow does not chain the low carry into the high limb", true, "limb-identity|types.(Currency).AddWithOverflow",
		Edit{cur, "hi, carry := bits.Add64(c.Hi, v.Hi, carry)", "hi, carry := bits.Add64(c.Hi, v.Hi, 0)"})
	mut("C15", "SubWithUnderflow swaps the high operands", true, "limb-identity|types.(Currency).SubWithUnderflow",
		Edit{cur, "hi, borrow := bits.Sub64(c.Hi, v.Hi, borrow)", "hi, borrow := bits.Sub64(v.Hi, c.Hi, borrow)"})
	mut("C15", "quoRem64 uses <= so that Div64 can be called with hi == v", true, "limb-identity|types.(Currency).quoRem64",
		Edit{cur, "\tif c.Hi < v {\n\t\tq.Lo, r = bits.Div64(c.Hi, c.Lo, v)", "\tif c.Hi <= v {\n\t\tq.Lo, r = bits.Div64(c.Hi, c.Lo, v)"})
	mut("C15", "quoRem64 second division forgets the first remainder", true, "limb-identity|types.(Currency).quoRem64",
		Edit{cur, "q.Lo, r = bits.Div64(r, c.Lo, v)\n\t}", "q.Lo, r = bits.Div64(0, c.Lo, v)\n\t}"})
	mut("C15", "Cmp compares the low words first", true, "order|Cmp",
		Edit{cur, "c.Hi < v.Hi || (c.Hi == v.Hi && c.Lo < v.Lo)", "c.Lo < v.Lo || (c.Lo == v.Lo && c.Hi < v.Hi)"})
	mut("C15", "Cmp drops the equality conjunct", true, "order|Cmp",
		Edit{cur, "c.Hi < v.Hi || (c.Hi == v.Hi && c.Lo < v.Lo)", "c.Hi < v.Hi || c.Lo < v.Lo"})
	mut("C15", "Sub ignores the underflow flag", true, "wrapper|Sub",
		Edit{cur, "\ts, underflow := c.SubWithUnderflow(v)\n\tif underflow {\n\t\tpanic(\"underflow\")\n\t}\n\treturn s", "\ts, _ := c.SubWithUnderflow(v)\n\treturn s"})
	mut("C15", "Div returns the remainder", true, "wrapper|Div:returns-quotient",
		Edit{cur, "\tq, _ := c.quoRem(v)\n\treturn q", "\t_, q := c.quoRem(v)\n\treturn q"})
	mut("C15", "parseHastings accepts up to 129 bits", true, "parser|hastings:128-bit",
		Edit{cur, "i.BitLen() > 128", "i.BitLen() > 129"})
	mut("C15", "parseHastings no longer rejects negatives", true, "parser|hastings:non-negative",
		Edit{cur, "\t} else if i.Sign() < 0 {\n\t\treturn ZeroCurrency, errors.New(\"value cannot be negative\")\n", ""})
	mut("C15", "String prints KS for 10^30", true, "parser|units:tables-agree",
		Edit{cur, "\"SC\", \"KS\", \"MS\", \"GS\", \"TS\"}[u-4]", "\"SC\", \"MS\", \"KS\", \"GS\", \"TS\"}[u-4]"})
	mut("C15", "ParseCurrency truncates fractional hastings instead of rejecting", true, "parser|currency:integral-hastings",
		Edit{cur, "\tif !r.IsInt() {\n\t\treturn ZeroCurrency, errors.New(\"not an integer\")\n\t}\n\treturn parseHastings(r.RatString())", "\treturn parseHastings(new(big.Int).Quo(r.Num(), r.Denom()).String())"})
	mut("C15", "(benign) Mul64WithOverflow with renamed temporaries and reordered disjuncts", false, "",
		Edit{cur, "\thi2, c0 := bits.Add64(hi0, lo1, 0)\n\treturn Currency{lo0, hi2}, hi1 != 0 || c0 != 0", "\tsum, carry := bits.Add64(lo1, hi0, 0)\n\treturn Currency{Lo: lo0, Hi: sum}, carry != 0 || hi1 > 0"})
	mut("C15", "(benign) Cmp written as a switch", false, "",
		Edit{cur, "\tif c == v {\n\t\treturn 0\n\t} else if c.Hi < v.Hi || (c.Hi == v.Hi && c.Lo < v.Lo) {\n\t\treturn -1\n\t} else {\n\t\treturn 1\n\t}", "\tswitch {\n\tcase c.Hi != v.Hi:\n\t\tif c.Hi < v.Hi {\n\t\t\treturn -1\n\t\t}\n\t\treturn 1\n\tcase c.Lo < v.Lo:\n\t\treturn -1\n\tcase c.Lo > v.Lo:\n\t\treturn 1\n\t}\n\treturn 0"})
}

func init() {
	// ---- C16 ----
	m2, m4, bl := "rhp/v2/merkle.go", "rhp/v4/merkle.go", "blake2b/blake2b.go"
	mut("C16", "VerifySectorRangeProof stops checking the proof length", true, "verifier-guard|range:proof-length",
		Edit{m2, "\tif uint64(len(proof)) != RangeProofSize(numRoots, start, end) {\n\t\treturn false\n\t}\n\n\tvar acc proofAccumulator\n\tinsertRange", "\tvar acc proofAccumulator\n\tinsertRange"})
	mut("C16", "VerifySectorRangeProof accepts longer proofs", true, "verifier-guard|range:proof-length",
		Edit{m2, "\tif uint64(len(proof)) != RangeProofSize(numRoots, start, end) {\n\t\treturn false\n\t}\n\n\tvar acc proofAccumulator\n\tinsertRange", "\tif uint64(len(proof)) < RangeProofSize(numRoots, start, end) {\n\t\treturn false\n\t}\n\n\tvar acc proofAccumulator\n\tinsertRange"})
	mut("C16", "VerifyAppendProof does not check the old root", true, "verifier-guard|append:old-root",
		Edit{m2, "\tif acc.root() != oldRoot {\n\t\treturn false\n\t}\n\tacc.insertNode(sectorRoot, 0)", "\tacc.insertNode(sectorRoot, 0)"})
	mut("C16", "VerifyDiffProof ignores left-over tree hashes", true, "verifier-guard|diff:no-leftover",
		Edit{m2, "return acc.root() == root && len(treeHashes) == 0", "return acc.root() == root"})
	mut("C16", "VerifyDiffProof verifies the new root against the old one", true, "verifier-guard|diff:new-root",
		Edit{m2, "return verifyMulti(newProofIndices, treeHashes, newLeafHashes, numLeaves, newRoot)", "return verifyMulti(newProofIndices, treeHashes, newLeafHashes, numLeaves, oldRoot)"})
	mut("C16", "v4 VerifyAppendSectorsProof skips the old root when there is nothing to append", true, "verifier-guard|v4-append:old-root",
		Edit{m4, "\tif acc.Root() != oldRoot {\n\t\treturn false\n\t}\n\tfor _, h := range appended {", "\tif len(appended) > 0 && acc.Root() != oldRoot {\n\t\treturn false\n\t}\n\tfor _, h := range appended {"})
	mut("C16", "v4 VerifySectorRootsProof swaps start and numSectors", true, "forwarding|rhp/v4.VerifySectorRootsProof",
		Edit{m4, "rhp2.VerifySectorRangeProof(proof, sectorRoots, start, end, numSectors, root)", "rhp2.VerifySectorRangeProof(proof, sectorRoots, numSectors, end, start, root)"})
	mut("C16", "v4 VerifyLeafProof verifies against the leaf index itself as range end", true, "forwarding|rhp/v4.VerifyLeafProof",
		Edit{m4, "leafIndex, leafIndex+1, LeavesPerSector, root)", "leafIndex, leafIndex+2, LeavesPerSector, root)"})
	mut("C16", "v4 BuildFreeSectorsProof converts actions with one fewer sector", true, "forwarding|rhp/v4.BuildFreeSectorsProof",
		Edit{m4, "convertFreeActions(freed, uint64(len(sectorRoots))), sectorRoots)", "convertFreeActions(freed, uint64(len(sectorRoots))-1), sectorRoots)"})
	mut("C16", "v4 sectorAccumulator.hasNodeAtHeight diverges from the v2 copy", true, "sibling|sectorAccumulator:implementation",
		Edit{m4, "return (sa.numLeaves>>2)&(1<<(len(sa.trees)-i-1)) != 0", "return (sa.numLeaves>>2)&(1<<(len(sa.trees)-i)) != 0"})
	mut("C16", "SumPair hashes with the leaf prefix", true, "hash-variants|SumPair:prefix",
		Edit{bl, "unsafe.Pointer(&[2][32]byte{left, right})), nodeHashPrefix)", "unsafe.Pointer(&[2][32]byte{left, right})), leafHashPrefix)"})
	mut("C16", "node prefix equals leaf prefix", true, "hash-variants|prefix-constants",
		Edit{bl, "const nodeHashPrefix = 1", "const nodeHashPrefix = 0"})
	mut("C16", "amd64 hashBlocks passes a constant prefix to the AVX2 routine", true, "hash-variants|hashBlocks@amd64",
		Edit{"blake2b/blake2b_amd64.go", "hashBlocksAVX2(outs, msgs, prefix)", "hashBlocksAVX2(outs, msgs, 0)"})
	mut("C16", "generic 4-way hashing writes lane i to output 3-i", true, "hash-variants|hashBlocksGeneric:lanes",
		Edit{bl, "outs[i] = hashBlockGeneric(&msgs[i], prefix)", "outs[len(msgs)-1-i] = hashBlockGeneric(&msgs[i], prefix)"})
	mut("C16", "appendLeaves advances by one leaf while hashing four", true, "unsafe-cast|rhp/v2:(*sectorAccumulator).appendLeaves",
		Edit{m2, "for i := 0; i < len(leaves)-rem; i += LeafSize * 4 {", "for i := 0; i < len(leaves)-rem; i += LeafSize {"})
	mut("C16", "ReaderRoot reads batches of six leaves", true, "chunk-discipline|rhp/v2.ReaderRoot",
		Edit{m2, "leafBatch := make([]byte, LeafSize*16)", "leafBatch := make([]byte, LeafSize*6)"})
	mut("C16", "ReaderRoot uses a single Read per batch", true, "chunk-discipline|rhp/v2.ReaderRoot",
		Edit{m2, "\t\tn, err := io.ReadFull(r, leafBatch)\n\t\tif err == io.EOF {\n\t\t\tbreak", "\t\tn, err := r.Read(leafBatch)\n\t\tif err == io.EOF {\n\t\t\tbreak"})
	mut("C16", "(benign) ReaderRoot reads batches of 32 leaves", false, "",
		Edit{m2, "leafBatch := make([]byte, LeafSize*16)", "leafBatch := make([]byte, LeafSize*32)"})
	mut("C16", "(benign) v4 appendNode with renamed receiver and comment", false, "",
		Edit{m4, "func (sa *sectorAccumulator) appendNode(h types.Hash256) {\n\tsa.nodeBuf[sa.numLeaves%4] = h\n\tsa.numLeaves++\n\tif sa.numLeaves%4 == 0 {\n\t\tsa.numLeaves -= 4 // hack: offset mergeNodeBuf adding 4\n\t\tsa.mergeNodeBuf()", "func (acc *sectorAccumulator) appendNode(node types.Hash256) {\n\tacc.nodeBuf[acc.numLeaves%4] = node\n\tacc.numLeaves++\n\t// buffer full\n\tif acc.numLeaves%4 == 0 {\n\t\tacc.numLeaves -= 4\n\t\tacc.mergeNodeBuf()"})
	mut("C16", "(benign) VerifyAppendProof compares the new root through a local", false, "",
		Edit{m2, "\tacc.insertNode(sectorRoot, 0)\n\treturn acc.root() == newRoot", "\tacc.insertNode(sectorRoot, 0)\n\tgot := acc.root()\n\tif got != newRoot {\n\t\treturn false\n\t}\n\treturn true"})
}

func init() {
	// ---- C17 ----
	r4 := "rhp/v4/rhp.go"
	mut("C17", "PayWithContract credits the host with the usage but forgets account funding", true, "pay|RenterCost:covers-fields",
		Edit{r4, "return u.RPC.Add(u.Storage).Add(u.Egress).Add(u.Ingress).Add(u.AccountFunding)", "return u.RPC.Add(u.Storage).Add(u.Egress).Add(u.Ingress)"})
	mut("C17", "PayWithContract does not credit the host", true, "pay|host-credited-usage",
		Edit{r4, "\tfc.HostOutput.Value = fc.HostOutput.Value.Add(amount)\n", ""})
	mut("C17", "PayWithContract risks the renter cost instead of the collateral", true, "pay|missed-host-risked",
		Edit{r4, "fc.MissedHostValue = fc.MissedHostValue.Sub(collateral)", "fc.MissedHostValue = fc.MissedHostValue.Sub(amount)"})
	mut("C17", "PayWithContract bumps the revision number before the funds check", true, "pay|error-path-clean",
		Edit{r4, "\t// verify the contract can pay the amount before modifying\n\tif fc.RenterOutput.Value.Cmp(amount) < 0 {", "\tfc.RevisionNumber++\n\tif fc.RenterOutput.Value.Cmp(amount) < 0 {"},
		Edit{r4, "\t}\n\tfc.RevisionNumber++\n\tfc.RenterOutput.Value = ", "\t}\n\tfc.RenterOutput.Value = "})
	mut("C17", "PayWithContract checks collateral against the valid host output", true, "pay|guards-dominate-subtractions",
		Edit{r4, "} else if fc.MissedHostValue.Cmp(collateral) < 0 {", "} else if fc.HostOutput.Value.Cmp(collateral) < 0 {"})
	mut("C17", "PayWithContract lowers total collateral too", true, "pay|nothing-else-touched",
		Edit{r4, "\tfc.MissedHostValue = fc.MissedHostValue.Sub(collateral)\n", "\tfc.MissedHostValue = fc.MissedHostValue.Sub(collateral)\n\tfc.TotalCollateral = fc.MissedHostValue\n"})
	mut("C17", "ReviseForFundAccounts reports no usage", true, "revise|ReviseForFundAccounts:charges-reported-usage",
		Edit{r4, "func ReviseForFundAccounts(fc types.V2FileContract, amount types.Currency) (types.V2FileContract, Usage, error) {\n\tusage := Usage{AccountFunding: amount}\n\terr := PayWithContract(&fc, usage)\n\treturn fc, usage, err", "func ReviseForFundAccounts(fc types.V2FileContract, amount types.Currency) (types.V2FileContract, Usage, error) {\n\tusage := Usage{AccountFunding: amount}\n\terr := PayWithContract(&fc, usage)\n\treturn fc, Usage{}, err"})
	mut("C17", "RenewContract computes the final host output from the renter rollover", true, "split|RenewContract#1:host",
		Edit{r4, "renewal.FinalHostOutput.Value = renewal.FinalHostOutput.Value.Sub(renewal.HostRollover)\n\n\t// if the remaining renter output is greater than the required allowance,\n\t// only roll over the new allowance.", "renewal.FinalHostOutput.Value = renewal.FinalHostOutput.Value.Sub(renewal.RenterRollover)\n\n\t// if the remaining renter output is greater than the required allowance,\n\t// only roll over the new allowance."})
	mut("C17", "RenewContract rolls over the whole renter output even when the allowance is smaller", true, "cost|RenewalCost∘RenewContract#1",
		Edit{r4, "\tif fc.RenterOutput.Value.Cmp(rp.Allowance) > 0 {\n\t\trenewal.RenterRollover = rp.Allowance\n\t} else {\n\t\trenewal.RenterRollover = fc.RenterOutput.Value\n\t}\n\trenewal.FinalRenterOutput.Value = renewal.FinalRenterOutput.Value.Sub(renewal.RenterRollover)\n\n\treturn renewal, Usage{\n\t\tRPC:              prices.ContractPrice,\n\t\tStorage:", "\trenewal.RenterRollover = fc.RenterOutput.Value.Add(renewal.NewContract.HostOutput.Value)\n\trenewal.FinalRenterOutput.Value = types.ZeroCurrency\n\n\treturn renewal, Usage{\n\t\tRPC:              prices.ContractPrice,\n\t\tStorage:"})
	mut("C17", "RefreshContractPartialRollover inverts the host rollover comparison", true, "split|RefreshContractPartialRollover#1:subtractions",
		Edit{r4, "\tif fc.HostOutput.Value.Cmp(hostFunds) > 0 {\n\t\trenewal.HostRollover = hostFunds", "\tif fc.HostOutput.Value.Cmp(hostFunds) < 0 {\n\t\trenewal.HostRollover = hostFunds"})
	mut("C17", "RefreshContractFullRollover keeps the missed host value at the new collateral only while total collateral stays", true, "invariant|RefreshContractFullRollover#1",
		Edit{r4, "renewal.NewContract.TotalCollateral = fc.TotalCollateral.Add(rp.Collateral)\n\treturn renewal, Usage{\n\t\t// Refresh usage is only the contract price since duration is not increased\n\t\tRPC:              prices.ContractPrice,\n\t\tRiskedCollateral: renewal.NewContract.RiskedCollateral(),\n\t}\n}\n", "renewal.NewContract.TotalCollateral = rp.Collateral\n\treturn renewal, Usage{\n\t\t// Refresh usage is only the contract price since duration is not increased\n\t\tRPC:              prices.ContractPrice,\n\t\tRiskedCollateral: renewal.NewContract.RiskedCollateral(),\n\t}\n}\n"})
	mut("C17", "RefreshContractFullRollover hands the new contract to the host's renter key", true, "split|RefreshContractFullRollover#1:parties",
		Edit{r4, "\trenewal.NewContract.HostOutput.Address = hostAddress\n\t// add the additional allowance and collateral", "\trenewal.NewContract.HostOutput.Address = hostAddress\n\trenewal.NewContract.RenterPublicKey = fc.HostPublicKey\n\t// add the additional allowance and collateral"})
	mut("C17", "RenewalCost forgets the miner fee", true, "cost|RenewalCost:funds-exactly",
		Edit{r4, "renter = r.NewContract.RenterOutput.Value.Add(contractCost).Add(minerFee).Add(cs.V2FileContractTax(r.NewContract)).Sub(r.RenterRollover)", "renter = r.NewContract.RenterOutput.Value.Add(contractCost).Add(cs.V2FileContractTax(r.NewContract)).Sub(r.RenterRollover)"})
	mut("C17", "RefreshCost charges the host the contract price", true, "cost|RefreshCost:funds-exactly",
		Edit{r4, "host = r.NewContract.HostOutput.Value.Sub(p.ContractPrice).Sub(r.HostRollover)", "host = r.NewContract.HostOutput.Value.Sub(r.HostRollover)"})
	mut("C17", "ContractCost taxes only the renter output", true, "cost|ContractCost:funds-exactly",
		Edit{r4, "renter = fc.RenterOutput.Value.Add(contractCost).Add(minerFee).Add(cs.V2FileContractTax(fc))", "renter = fc.RenterOutput.Value.Add(contractCost).Add(minerFee).Add(fc.RenterOutput.Value.Div64(25))"})
	mut("C17", "NewContract locks less than it promises on failure", true, "invariant|NewContract",
		Edit{r4, "\t\t\tMissedHostValue: cp.Collateral,\n\t\t\tTotalCollateral: cp.Collateral,", "\t\t\tMissedHostValue: cp.Collateral.Add(p.ContractPrice),\n\t\t\tTotalCollateral: cp.Collateral,"})
	mut("C17", "rhp/v3 PayByContract does not lower the missed renter payout", true, "v3-pay|moves-exactly-amount",
		Edit{"rhp/v3/rhp.go", "\trev.MissedProofOutputs[types.RenterContractIndex].Value = rev.MissedProofOutputs[types.RenterContractIndex].Value.Sub(amount)\n", ""})
	mut("C17", "rhp/v3 PayByContract only checks the valid payout", true, "v3-pay|guards-dominate-subtractions",
		Edit{"rhp/v3/rhp.go", "if rev.ValidRenterPayout().Cmp(amount) < 0 || rev.MissedRenterPayout().Cmp(amount) < 0 {", "if rev.ValidRenterPayout().Cmp(amount) < 0 {"})
	mut("C17", "ReviseForAppendSectors grows capacity by half the appended sectors", true, "capacity|ReviseForAppendSectors#1",
		Edit{r4, "\tfc.Capacity += SectorSize * growth\n", "\tfc.Capacity += SectorSize * (growth / 2)\n"})
	mut("C17", "RenewContract keeps the file size but resets capacity to zero", true, "capacity|RenewContract#1",
		Edit{r4, "renewal.NewContract.Capacity = fc.Filesize", "renewal.NewContract.Capacity = 0"})
	mut("C17", "form Validate no longer rejects early proof heights", true, "validate-bounds|form:proof-height-min",
		Edit{"rhp/v4/validation.go", "\tcase req.Contract.ProofHeight < minProofHeight:\n\t\treturn rpcBadRequestError(\"proof height must be greater than %v\", minProofHeight)\n", "\tcase req.Contract.ProofHeight == 0 && minProofHeight > 0:\n\t\treturn rpcBadRequestError(\"proof height must be greater than %v\", minProofHeight)\n"})
	mut("C17", "renew Validate accepts a proof height equal to the existing one", true, "validate-bounds|renew:after-existing",
		Edit{"rhp/v4/validation.go", "case req.Renewal.ProofHeight <= existing.ProofHeight:", "case req.Renewal.ProofHeight < existing.ProofHeight:"})
	mut("C17", "minProofHeight ignores the chain tip", true, "validate-bounds|minProofHeight:later-tip",
		Edit{"rhp/v4/validation.go", "height := max(tip.Height, hp.TipHeight)", "height := hp.TipHeight"})
	mut("C17", "(benign) PayWithContract with reordered stores and a local", false, "",
		Edit{r4, "\tfc.RevisionNumber++\n\tfc.RenterOutput.Value = fc.RenterOutput.Value.Sub(amount)\n\tfc.HostOutput.Value = fc.HostOutput.Value.Add(amount)\n\tfc.MissedHostValue = fc.MissedHostValue.Sub(collateral)\n", "\tnewHost := fc.HostOutput.Value.Add(amount)\n\tfc.MissedHostValue = fc.MissedHostValue.Sub(collateral)\n\tfc.HostOutput.Value = newHost\n\tfc.RenterOutput.Value = fc.RenterOutput.Value.Sub(amount)\n\tfc.RevisionNumber += 1\n"})
	mut("C17", "(benign) RenewContract host rollover through a min-style helper variable", false, "",
		Edit{r4, "\tif fc.TotalCollateral.Cmp(renewal.NewContract.TotalCollateral) > 0 {\n\t\trenewal.HostRollover = renewal.NewContract.TotalCollateral\n\t} else {\n\t\trenewal.HostRollover = fc.TotalCollateral\n\t}", "\thostRollover := fc.TotalCollateral\n\tif hostRollover.Cmp(renewal.NewContract.TotalCollateral) > 0 {\n\t\thostRollover = renewal.NewContract.TotalCollateral\n\t}\n\trenewal.HostRollover = hostRollover"})
}

func init() {
	// ---- C18 ----
	mp, ol, ge := "types/multiproof.go", "gateway/outline.go", "gateway/encoding.go"
	mut("C18", "forEachElementLeaf skips resolution parents", true, "walker-coverage|.FileContractResolutions[*].Parent",
		Edit{mp, "\t\t\tvisit(v2FileContractLeaf(&txn.FileContractResolutions[i].Parent))\n", ""})
	mut("C18", "forEachElementLeaf hashes siafund parents as siacoin leaves", true, "walker-coverage",
		Edit{mp, "visit(siafundLeaf(&txn.SiafundInputs[i].Parent))", "visit(elementLeaf{&txn.SiafundInputs[i].Parent.StateElement, Hash256{}})"})
	mut("C18", "forEachTree drops duplicate leaf indices before visiting", true, "one-enumeration|forEachTree:all-leaves-visited",
		Edit{mp, "\t\tstart := clearBits(leaves[0].LeafIndex, height+1)", "\t\tleaves = dedupLeaves(leaves)\n\t\tstart := clearBits(leaves[0].LeafIndex, height+1)"},
		Edit{mp, "// multiproofSize computes the size", "func dedupLeaves(ls []elementLeaf) []elementLeaf {\n\tout := ls[:0]\n\tfor i, l := range ls {\n\t\tif i == 0 || l.LeafIndex != ls[i-1].LeafIndex {\n\t\t\tout = append(out, l)\n\t\t}\n\t}\n\treturn out\n}\n\n// multiproofSize computes the size"})
	mut("C18", "encoder computes the multiproof from the stripped copies", true, "proof-count|encoder:proof-of-original",
		Edit{mp, "multiproof := computeMultiproof(txns)", "multiproof := computeMultiproof(prooflessTxns)"})
	mut("C18", "encoder strips proofs from shallow copies", true, "proof-count|encoder:strips-copies-only",
		Edit{mp, "prooflessTxns[i] = txns[i].DeepCopy()", "prooflessTxns[i] = txns[i]"})
	mut("C18", "decoder reads one hash fewer than multiproofSize", true, "proof-count|decoder:reads-multiproofSize",
		Edit{mp, "multiproof := make([]Hash256, multiproofSize(*txns))", "multiproof := make([]Hash256, max(multiproofSize(*txns), 1)-1)"})
	mut("C18", "outline stores the transaction ID instead of the leaf hash", true, "hash-kind|OutlineBlock:stored hash",
		Edit{ol, "\t\t\tHash:          b.V2.Transactions[i].MerkleLeafHash(),", "\t\t\tHash:          types.Hash256(b.V2.Transactions[i].ID()),"})
	mut("C18", "Complete indexes candidate v1 transactions by ID", true, "hash-kind|(*V2BlockOutline).Complete:map key",
		Edit{ol, "v1hashes[txns[i].MerkleLeafHash()] = &txns[i]", "v1hashes[types.Hash256(txns[i].ID())] = &txns[i]"})
	mut("C18", "outline commitment omits the miner-address state leaf", true, "commitment|outline-shape",
		Edit{ol, "\tacc.AddLeaf(cs.MerkleLeafHash(bo.MinerAddress))\n\tfor _, txn := range bo.Transactions {", "\tfor _, txn := range bo.Transactions {"})
	mut("C18", "OutlineBlock lists v2 transactions first", true, "commitment|outline-order",
		Edit{ol, "\tfor i := range b.Transactions {\n\t\totxns = append(otxns, OutlineTransaction{\n\t\t\tHash:        b.Transactions[i].MerkleLeafHash(),\n\t\t\tTransaction: &b.Transactions[i],\n\t\t})\n\t}\n\tfor i := range b.V2Transactions() {\n\t\totxns = append(otxns, OutlineTransaction{\n\t\t\tHash:          b.V2.Transactions[i].MerkleLeafHash(),\n\t\t\tV2Transaction: &b.V2.Transactions[i],\n\t\t})\n\t}\n", "\tfor i := range b.V2Transactions() {\n\t\totxns = append(otxns, OutlineTransaction{\n\t\t\tHash:          b.V2.Transactions[i].MerkleLeafHash(),\n\t\t\tV2Transaction: &b.V2.Transactions[i],\n\t\t})\n\t}\n\tfor i := range b.Transactions {\n\t\totxns = append(otxns, OutlineTransaction{\n\t\t\tHash:        b.Transactions[i].MerkleLeafHash(),\n\t\t\tTransaction: &b.Transactions[i],\n\t\t})\n\t}\n"})
	mut("C18", "outline ID leaves the nonce out of the header", true, "field-map|ID:header",
		Edit{ol, "\t\tNonce:      bo.Nonce,\n\t\tTimestamp:  bo.Timestamp,\n\t\tCommitment: bo.commitment(cs),", "\t\tTimestamp:  bo.Timestamp,\n\t\tCommitment: bo.commitment(cs),"})
	mut("C18", "Complete takes the block height from the state", true, "field-map|Complete:V2.Height",
		Edit{ol, "\t\t\tHeight:     bo.Height,\n", "\t\t\tHeight:     cs.Index.Height + 1,\n"})
	mut("C18", "Complete forgets v1 fees", true, "fees|Complete:v1-fees-follow-transaction",
		Edit{ol, "\t\t\tb.MinerPayouts[0].Value = b.MinerPayouts[0].Value.Add(ptxn.Transaction.TotalFees())\n", ""})
	mut("C18", "Complete returns the missing list computed before filling", true, "missing|Complete:reports-Missing",
		Edit{ol, "func (bo *V2BlockOutline) Complete(cs consensus.State, txns []types.Transaction, v2txns []types.V2Transaction) (types.Block, []types.Hash256) {\n", "func (bo *V2BlockOutline) Complete(cs consensus.State, txns []types.Transaction, v2txns []types.V2Transaction) (types.Block, []types.Hash256) {\n\tmissingBefore := bo.Missing()\n"},
		Edit{ol, "\treturn b, bo.Missing()\n", "\treturn b, missingBefore\n"})
	mut("C18", "outline decoder does not cross-check the v2 kind count", true, "kinds|kinds:count-v2",
		Edit{ge, "if counts[0] != len(txns) || counts[1] != len(v2txns) || counts[2] != len(hashes) {", "if counts[0] != len(txns) || counts[2] != len(hashes) {"})
	mut("C18", "(benign) Missing with a local and early continue", false, "",
		Edit{ol, "\t\tif txn.Transaction == nil && txn.V2Transaction == nil {\n\t\t\tmissing = append(missing, txn.Hash)\n\t\t}", "\t\tif !(txn.Transaction == nil && txn.V2Transaction == nil) {\n\t\t\tcontinue\n\t\t}\n\t\tmissing = append(missing, txn.Hash)"})
}

func init() {
	// ---- C19 ----
	e4, t4, v4 := "rhp/v4/encoding.go", "rhp/v4/transport.go", "rhp/v4/validation.go"
	mut("C19", "RPCReadSectorRequest gains nothing but its limit forgets the offset", true, "size-algebra|RPCReadSectorRequest",
		Edit{e4, "return sizeofPrices + sizeofAccountToken + sizeofHash + 8 + 8\n}\n\nfunc (r *RPCReadSectorResponse)", "return sizeofPrices + sizeofAccountToken + sizeofHash + 8\n}\n\nfunc (r *RPCReadSectorResponse)"})
	mut("C19", "fund accounts limit sized for balances without the batch factor on deposits", true, "size-algebra|RPCFundAccountsRequest",
		Edit{e4, "return sizeofHash + 8 + (sizeofAccountDeposit * MaxAccountBatchSize) + sizeofSignature", "return sizeofHash + 8 + (sizeofAccount * MaxAccountBatchSize) + sizeofSignature"})
	mut("C19", "append sectors limit uses 8 bytes per root", true, "size-algebra|RPCAppendSectorsRequest",
		Edit{e4, "func (r *RPCAppendSectorsRequest) maxLen() int {\n\treturn reasonableObjectSize + (32 * MaxSectorBatchSize)", "func (r *RPCAppendSectorsRequest) maxLen() int {\n\treturn reasonableObjectSize + (8 * MaxSectorBatchSize)"})
	mut("C19", "attach pools Validate allows twice the batch size", true, "size-algebra|RPCAttachPoolsRequest",
		Edit{v4, "} else if uint64(len(req.Attachments)) > MaxAccountBatchSize {", "} else if uint64(len(req.Attachments)) > 2*MaxAccountBatchSize {"})
	mut("C19", "HostPrices gains an encoded field (sizeof follows, fixed limits do not)", false, "",
		Edit{e4, "const (\n\treasonableObjectSize         = 10 * 1024", "const (\n\treasonableObjectSize         = 11 * 1024"})
	mut("C19", "ReadResponse forgets the error allowance", true, "bounded-reads|rhp/v4.ReadResponse:limit",
		Edit{t4, "return withDecoder(r, (*RPCError)(nil).maxLen()+o.maxLen(), func(d *types.Decoder) {", "return withDecoder(r, o.maxLen(), func(d *types.Decoder) {"})
	mut("C19", "rhp/v4 withDecoder reads without a limit", true, "bounded-reads|rhp/v4.withDecoder",
		Edit{t4, "d := types.NewDecoder(io.LimitedReader{R: r, N: int64(maxLen)})", "d := types.NewDecoder(io.LimitedReader{R: r, N: 1 << 62})\n\t_ = maxLen"})
	mut("C19", "rhp/v2 readMessage no longer compares the frame size with maxLen", true, "bounded-reads|v2-readMessage:size-vs-limit",
		Edit{"rhp/v2/transport.go", "\t} else if msgSize > maxLen {\n\t\treturn fmt.Errorf(\"message size (%v bytes) exceeds maxLen of %v bytes\", msgSize, maxLen)\n\t} else if msgSize < uint64(t.aead.NonceSize()+t.aead.Overhead()) {", "\t} else if msgSize < uint64(t.aead.NonceSize()+t.aead.Overhead()) {"})
	mut("C19", "rhp/v4 ReadResponse decodes the error but keeps going", true, "error-delivered|rhp/v4.ReadResponse",
		Edit{t4, "\t\t\tr.decodeFrom(d)\n\t\t\td.SetErr(r)\n\t\t\treturn\n", "\t\t\tr.decodeFrom(d)\n"})
	mut("C19", "rhp/v2 readMessage returns the Open error without closing", true, "tamper-closes|rhp/v2.(*Transport).readMessage",
		Edit{"rhp/v2/transport.go", "\t\tt.setErr(err) // not an I/O error, but still fatal\n\t\treturn err\n\t}\n\td = types.NewBufDecoder(plaintext)", "\t\treturn err\n\t}\n\td = types.NewBufDecoder(plaintext)"})
	mut("C19", "VerifyTag records a nil error on tag mismatch", true, "tamper-closes|rhp/v2.(*ResponseReader).VerifyTag",
		Edit{"rhp/v2/transport.go", "\t\trr.setErr(err) // not an I/O error, but still fatal\n\t\treturn err\n\t}\n\treturn nil\n}", "\t\tvar none error\n\t\trr.setErr(none)\n\t\treturn err\n\t}\n\treturn nil\n}"})
	mut("C19", "setErr records the error but leaves the connection open", true, "tamper-closes|rhp/v2.(*Transport).setErr",
		Edit{"rhp/v2/transport.go", "\t\t\tt.conn.Close()\n\t\t\tt.err = err", "\t\t\tt.err = err"})
	mut("C19", "gateway ObjectForID maps the relay-header id to the relay-transaction-set object", true, "registries|gateway:idForObject/ObjectForID",
		Edit{"gateway/encoding.go", "\tcase idSendHeaders:\n\t\treturn new(RPCSendHeaders)", "\tcase idSendHeaders:\n\t\treturn new(RPCSendV2Blocks)"})
	mut("C19", "validateHeader accepts our own unique ID", true, "handshake|same-unique-id",
		Edit{"gateway/transport.go", "\t} else if theirs.UniqueID == ours.UniqueID {\n\t\treturn errors.New(\"peer has same unique ID as us\")\n\t}", "\t}"})
	mut("C19", "Accept does not abort when the peer's header is unacceptable", true, "handshake|gateway.Accept:aborts-on-failure",
		Edit{"gateway/transport.go", "\tif err := readHeader(conn, ourHeader, &p.Addr, &p.UniqueID); err != nil {\n\t\treturn nil, fmt.Errorf(\"could not read peer's header: %w\", err)\n\t} else if err := writeHeader(conn, ourHeader); err != nil {\n\t\treturn nil, fmt.Errorf(\"could not write our header: %w\", err)\n\t}\n\t// establish mux\n\tvar err error\n\tp.mux, err = mux.AcceptAnonymous(conn)", "\treadHeader(conn, ourHeader, &p.Addr, &p.UniqueID)\n\tif err := writeHeader(conn, ourHeader); err != nil {\n\t\treturn nil, fmt.Errorf(\"could not write our header: %w\", err)\n\t}\n\t// establish mux\n\tvar err error\n\tp.mux, err = mux.AcceptAnonymous(conn)"})
}

func init() {
	// ---- C20 ----
	ty, po, st := "types/types.go", "types/policy.go", "consensus/state.go"
	mut("C20", "unmarshalHex accepts over-long input", true, "unmarshal-guards|unmarshalHex:too-long",
		Edit{ty, "\tif len(data) > len(dst)*2 {\n\t\treturn errors.New(\"input too long\")\n\t}\n\tn, err := hex.Decode(dst, data)", "\tif len(data) > len(dst)*2 {\n\t\tdata = data[:len(dst)*2]\n\t}\n\tn, err := hex.Decode(dst, data)"})
	mut("C20", "unmarshalHex accepts short input", true, "unmarshal-guards|unmarshalHex:too-short",
		Edit{ty, "\tif err == nil && n < len(dst) {\n\t\terr = io.ErrUnexpectedEOF\n\t}\n", "\t_ = n\n"})
	mut("C20", "Address.UnmarshalText stops verifying the checksum", true, "unmarshal-guards|Address:checksum",
		Edit{ty, "\t} else if checksum := HashBytes(withChecksum[:32]); !bytes.Equal(checksum[:6], withChecksum[32:]) {\n\t\treturn errors.New(\"bad checksum\")\n\t}", "\t}"})
	mut("C20", "PublicKey.UnmarshalText accepts any algorithm prefix", true, "unmarshal-guards|PublicKey:prefix",
		Edit{ty, "\t} else if string(b[:i]) != \"ed25519\" {\n\t\treturn fmt.Errorf(\"unknown algorithm %q\", b[:i])\n\t}\n\treturn unmarshalHex(pk[:], b[i+1:])", "\t}\n\treturn unmarshalHex(pk[:], b[i+1:])"})
	mut("C20", "BlockID.UnmarshalText decodes without length checks", true, "unmarshal-guards|types.BlockID:delegates",
		Edit{ty, "func (bid *BlockID) UnmarshalText(b []byte) error { return unmarshalHex(bid[:], b) }", "func (bid *BlockID) UnmarshalText(b []byte) error {\n\t_, err := hex.Decode(bid[:], b[:min(len(b), 64)])\n\treturn err\n}"})
	mut("C20", "resolution JSON writes the storage-proof tag for expirations", true, "sum-tags|V2FileContractResolution/JSON",
		Edit{ty, "\tcase *V2FileContractExpiration:\n\t\ttyp = v2ResolutionExpiration\n\tdefault:\n\t\tpanic(fmt.Sprintf(\"unhandled file contract resolution type %T\"", "\tcase *V2FileContractExpiration:\n\t\ttyp = v2ResolutionStorageProof\n\tdefault:\n\t\tpanic(fmt.Sprintf(\"unhandled file contract resolution type %T\""})
	mut("C20", "SpendPolicy JSON reader spells the threshold tag differently", true, "sum-tags|SpendPolicy/JSON",
		Edit{po, "\tcase \"thresh\":\n\t\tvar pt PolicyTypeThreshold", "\tcase \"threshold\":\n\t\tvar pt PolicyTypeThreshold"})
	mut("C20", "SpendPolicy.String prints hash policies as hash(...)", true, "sum-tags|SpendPolicy/String",
		Edit{po, "sb.WriteString(\"h(\")", "sb.WriteString(\"hash(\")"})
	mut("C20", "StorageProof JSON writes the leaf under another key", true, "json-keys|types.StorageProof",
		Edit{ty, "\t\tLeaf     string         `json:\"leaf\"`\n\t\tProof    []Hash256      `json:\"proof\"`\n\t}{sp.ParentID, hex.EncodeToString(sp.Leaf[:]), sp.Proof})", "\t\tLeaf     string         `json:\"leafData\"`\n\t\tProof    []Hash256      `json:\"proof\"`\n\t}{sp.ParentID, hex.EncodeToString(sp.Leaf[:]), sp.Proof})"})
	mut("C20", "ParseSpendPolicy parses the threshold with 64 bits and truncates", true, "parse-width|ParseSpendPolicy",
		Edit{po, "\t\t\tn := parseInt(8)\n", "\t\t\tn := parseInt(64)\n"})
	mut("C20", "a diff type gains an unexported cached field", true, "hidden-state|consensus.SiacoinElementDiff.cachedID",
		Edit{st, "type SiacoinElementDiff struct {\n\tSiacoinElement types.SiacoinElement `json:\"siacoinElement\"`", "type SiacoinElementDiff struct {\n\tcachedID       types.Hash256\n\tSiacoinElement types.SiacoinElement `json:\"siacoinElement\"`"})
	mut("C20", "ChainIndex loses its UnmarshalText", true, "pairing|types.ChainIndex:UnmarshalText",
		Edit{ty, "func (ci *ChainIndex) UnmarshalText(b []byte) (err error) {", "func (ci *ChainIndex) unmarshalText(b []byte) (err error) {"},
		Edit{ty, "\terr = ci.UnmarshalText([]byte(s))\n\treturn\n}\n\n// String implements fmt.Stringer.\nfunc (s Specifier)", "\terr = ci.unmarshalText([]byte(s))\n\treturn\n}\n\n// String implements fmt.Stringer.\nfunc (s Specifier)"})
	mut("C20", "(benign) StorageProof JSON decoder with explicit tags", false, "",
		Edit{ty, "\t\tParentID *FileContractID\n\t\tLeaf     *string\n\t\tProof    *[]Hash256\n\t}{&sp.ParentID, &leaf, &sp.Proof})", "\t\tParentID *FileContractID `json:\"parentID\"`\n\t\tLeaf     *string         `json:\"leaf\"`\n\t\tProof    *[]Hash256      `json:\"proof\"`\n\t}{&sp.ParentID, &leaf, &sp.Proof})"})
}

func init() {
	// ---- C12 (value-aware stripping) ----
	mut("C12", "semantic encoding strips the storage-proof history proof from a copy that is not the one encoded", true, "exclusion-set|v2-semantics",
		Edit{"types/encoding.go", "\t\tswitch res := fcr.Resolution.(type) {\n\t\tcase *V2FileContractRenewal:", "\t\tresolution := fcr.Resolution\n\t\tswitch res := resolution.(type) {\n\t\tcase *V2FileContractRenewal:"},
		Edit{"types/encoding.go", "\t\t\tfcr.Resolution = &renewal\n", "\t\t\tresolution = &renewal\n"},
		Edit{"types/encoding.go", "\t\tfcr.Resolution.(EncoderTo).EncodeTo(e)\n", "\t\tresolution.(EncoderTo).EncodeTo(e)\n"})
	mut("C12", "(benign) semantic encoding normalises into a local that is then encoded", false, "",
		Edit{"types/encoding.go", "\t\tswitch res := fcr.Resolution.(type) {\n\t\tcase *V2FileContractRenewal:", "\t\tresolution := fcr.Resolution\n\t\tswitch res := resolution.(type) {\n\t\tcase *V2FileContractRenewal:"},
		Edit{"types/encoding.go", "\t\t\tfcr.Resolution = &renewal\n", "\t\t\tresolution = &renewal\n"},
		Edit{"types/encoding.go", "\t\t\tfcr.Resolution = &sp\n", "\t\t\tresolution = &sp\n"},
		Edit{"types/encoding.go", "\t\tfcr.Resolution.(EncoderTo).EncodeTo(e)\n", "\t\tresolution.(EncoderTo).EncodeTo(e)\n"})
}

func init() {
	// ---- C06 (proof update order) ----
	mut("C06", "revert looks up reverted leaves before truncating the proof", true, "proof-update-order|consensus.(*elementRevertUpdate).updateElementProof",
		Edit{"consensus/merkle.go", "\tif mh := mergeHeight(eru.numLeaves, e.LeafIndex); mh <= len(e.MerkleProof) {\n\t\te.MerkleProof = e.MerkleProof[:mh-1]\n\t}\n\tupdateProof(e, &eru.updated)\n", "\tupdateProof(e, &eru.updated)\n\tif mh := mergeHeight(eru.numLeaves, e.LeafIndex); mh <= len(e.MerkleProof) {\n\t\te.MerkleProof = e.MerkleProof[:mh-1]\n\t}\n"})
	mut("C06", "apply extends the proof before applying the updated leaves", true, "proof-update-order|consensus.(*elementApplyUpdate).updateElementProof",
		Edit{"consensus/merkle.go", "\tupdateProof(e, &eau.updated)\n\tif mh := mergeHeight(eau.numLeaves, e.LeafIndex); mh != len(e.MerkleProof) {\n\t\te.MerkleProof = append(e.MerkleProof, eau.treeGrowth[len(e.MerkleProof)]...)\n\t}\n", "\tif mh := mergeHeight(eau.numLeaves, e.LeafIndex); mh != len(e.MerkleProof) {\n\t\te.MerkleProof = append(e.MerkleProof, eau.treeGrowth[len(e.MerkleProof)]...)\n\t}\n\tupdateProof(e, &eau.updated)\n"})
}

func init() {
	// ---- C07 (v1 storage-proof sibling order) ----
	v := "consensus/validation.go"
	mut("C07", "v1 storage-proof root treats the node at the subtree height as a right sibling", true, "proof-root-order|v1:bit=0,i=subtreeHeight",
		Edit{v, "if leafIndex&(1<<i) != 0 || i >= subtreeHeight {", "if leafIndex&(1<<i) != 0 || i > subtreeHeight {"})
	mut("C07", "v1 storage-proof root swaps the sibling order", true, "proof-root-order|v1:",
		Edit{v, "\t\t\t\troot = blake2b.SumPair(h, root)\n\t\t\t} else {\n\t\t\t\troot = blake2b.SumPair(root, h)\n\t\t\t}", "\t\t\t\troot = blake2b.SumPair(root, h)\n\t\t\t} else {\n\t\t\t\troot = blake2b.SumPair(h, root)\n\t\t\t}"})
	mut("C07", "(benign) v1 storage-proof root with the condition negated and branches swapped", false, "",
		Edit{v, "\t\t\tif leafIndex&(1<<i) != 0 || i >= subtreeHeight {\n\t\t\t\troot = blake2b.SumPair(h, root)\n\t\t\t} else {\n\t\t\t\troot = blake2b.SumPair(root, h)\n\t\t\t}", "\t\t\tif leafIndex&(1<<i) == 0 && i < subtreeHeight {\n\t\t\t\troot = blake2b.SumPair(root, h)\n\t\t\t} else {\n\t\t\t\troot = blake2b.SumPair(h, root)\n\t\t\t}"})
}

func init() {
	// ---- rules added after the second round of seeded changes ----
	mut("C08", "median timestamp takes the upper middle for an even count", true, "definition|median-timestamp",
		Edit{"consensus/state.go", "\tif len(ts)%2 != 0 {\n\t\treturn ts[len(ts)/2]\n\t}\n\tl, r := ts[len(ts)/2-1], ts[len(ts)/2]\n\treturn l.Add(r.Sub(l) / 2)", "\treturn ts[len(ts)/2]"})
	mut("C09", "multiproof decoder carves proofs out of a shared arena", true, "decoded-owns-memory|(types.V2TransactionsMultiproof).DecodeFrom:MerkleProof",
		Edit{"types/multiproof.go", "\tnumLeaves := d.ReadUint64()\n\tforEachElementLeaf(*txns, func(l elementLeaf) {", "\tnumLeaves := d.ReadUint64()\n\tvar arena []Hash256\n\tforEachElementLeaf(*txns, func(l elementLeaf) {"},
		Edit{"types/multiproof.go", "\t\tl.MerkleProof = make([]Hash256, bits.Len64(l.LeafIndex^numLeaves)-1)", "\t\tn := bits.Len64(l.LeafIndex^numLeaves) - 1\n\t\tif n > len(arena) {\n\t\t\tarena = make([]Hash256, 256)\n\t\t}\n\t\tl.MerkleProof, arena = arena[:n], arena[n:]"})
	mut("C09", "(benign) multiproof decoder carves capacity-limited proofs out of an arena", false, "",
		Edit{"types/multiproof.go", "\tnumLeaves := d.ReadUint64()\n\tforEachElementLeaf(*txns, func(l elementLeaf) {", "\tnumLeaves := d.ReadUint64()\n\tvar arena []Hash256\n\tforEachElementLeaf(*txns, func(l elementLeaf) {"},
		Edit{"types/multiproof.go", "\t\tl.MerkleProof = make([]Hash256, bits.Len64(l.LeafIndex^numLeaves)-1)", "\t\tn := bits.Len64(l.LeafIndex^numLeaves) - 1\n\t\tif n > len(arena) {\n\t\t\tarena = make([]Hash256, 256)\n\t\t}\n\t\tl.MerkleProof, arena = arena[:n:n], arena[n:]"})
	mut("C10", "StorageProofLeafIndex rounds up with an addition that can wrap to a zero divisor", true, "sink-discharged|(consensus.State).StorageProofLeafIndex:div",
		Edit{"consensus/state.go", "\tnumLeaves := filesize / leafSize\n\tif filesize%leafSize != 0 {\n\t\tnumLeaves++\n\t}\n\tif numLeaves == 0 {", "\tnumLeaves := (filesize + leafSize - 1) / leafSize\n\tif filesize == 0 {"})
	mut("C11", "ReadTime rejects timestamps above MaxInt64 although WriteTime writes them", true, "primitive-symmetry|(types.Decoder).ReadTime",
		Edit{"types/encoding.go", "\treturn time.Unix(int64(d.ReadUint64()), 0)", "\tsec := d.ReadUint64()\n\tif sec > 1<<63-1 {\n\t\td.SetErr(errors.New(\"timestamp overflows int64\"))\n\t\treturn time.Time{}\n\t}\n\treturn time.Unix(int64(sec), 0)"})
}

func init() {
	mut("C13", "SufficientlyHeavierThan accepts equal weight", true, "heavier-strict|SufficientlyHeavierThan",
		Edit{"consensus/state.go", "return s.TotalWork.Cmp(t.TotalWork.add(t.Difficulty.div64(5))) > 0", "return s.TotalWork.Cmp(t.TotalWork.add(t.Difficulty.div64(5))) >= 0"})
	mut("C09", "DeepCopy hoists the per-resolution temporaries out of the loop", true, "copy-is-deep|(types.V2Transaction).DeepCopy:per-iteration",
		Edit{"types/types.go", "\t\t\tsp := *res\n", "\t\t\tsp = *res\n"},
		Edit{"types/types.go", "\tc.FileContractResolutions = slices.Clone(c.FileContractResolutions)\n", "\tc.FileContractResolutions = slices.Clone(c.FileContractResolutions)\n\tvar sp V2StorageProof\n"})
}

func init() {
	// ---- refactoring together with a break: the engine extensions must not create blind spots ----
	v := "consensus/validation.go"
	mut("C02", "validator chain becomes a loop over a list that omits the siafund validator", true, "use-guard|v2-spent-set:SiafundInputs",
		Edit{v, "\t} else if err := validateV2Siacoins(ms, txn); err != nil {\n\t\treturn err\n\t} else if err := validateV2Siafunds(ms, txn); err != nil {\n\t\treturn err\n\t} else if err := validateV2FileContracts(ms, txn); err != nil {\n\t\treturn err\n\t} else if err := validateAttestations(ms, txn); err != nil {\n\t\treturn err\n\t} else if err := validateFoundationUpdate(ms, txn); err != nil {\n\t\treturn err\n\t}\n\treturn nil\n}", "\t}\n\tfor _, validate := range v2Validators {\n\t\tif err := validate(ms, txn); err != nil {\n\t\t\treturn err\n\t\t}\n\t}\n\treturn nil\n}\n\nvar v2Validators = []func(*MidState, types.V2Transaction) error{validateV2Siacoins, validateV2FileContracts, validateAttestations, validateFoundationUpdate}"})
	mut("C02", "(benign) validator chain becomes a loop over the complete list", false, "",
		Edit{v, "\t} else if err := validateV2Siacoins(ms, txn); err != nil {\n\t\treturn err\n\t} else if err := validateV2Siafunds(ms, txn); err != nil {\n\t\treturn err\n\t} else if err := validateV2FileContracts(ms, txn); err != nil {\n\t\treturn err\n\t} else if err := validateAttestations(ms, txn); err != nil {\n\t\treturn err\n\t} else if err := validateFoundationUpdate(ms, txn); err != nil {\n\t\treturn err\n\t}\n\treturn nil\n}", "\t}\n\tfor _, validate := range v2Validators {\n\t\tif err := validate(ms, txn); err != nil {\n\t\t\treturn err\n\t\t}\n\t}\n\treturn nil\n}\n\nvar v2Validators = []func(*MidState, types.V2Transaction) error{validateV2Siacoins, validateV2Siafunds, validateV2FileContracts, validateAttestations, validateFoundationUpdate}"})
	mut("C01", "claim payout extracted into a helper that forgets to divide by the siafund count", true, "value-source|v1-claim",
		Edit{"consensus/application.go", "\t\tclaimPortion := ms.siafundTaxRevenue.Sub(sfe.ClaimStart).Div64(ms.base.SiafundCount()).Mul64(sfe.SiafundOutput.Value)\n", "\t\tclaimPortion := ms.claimPortion(sfe.ClaimStart, sfe.SiafundOutput.Value)\n"},
		Edit{"consensus/application.go", "// ApplyTransaction applies a transaction to the MidState.\n", "func (ms *MidState) claimPortion(start types.Currency, value uint64) types.Currency {\n\treturn ms.siafundTaxRevenue.Sub(start).Mul64(value)\n}\n\n// ApplyTransaction applies a transaction to the MidState.\n"})
	mut("C10", "covered-field range check rewritten with ContainsFunc but the negation is lost", true, "sink-discharged|(consensus.State).PartialSigHash:index",
		Edit{v, "\t\tfor _, i := range indices {\n\t\t\tif i >= uint64(n) {\n\t\t\t\treturn false\n\t\t\t}\n\t\t}\n\t\treturn true", "\t\treturn slices.ContainsFunc(indices, func(i uint64) bool { return i >= uint64(n) })"},
		Edit{v, "import (\n", "import (\n\t\"slices\"\n"})
	mut("C10", "(benign) covered-field range check rewritten with ContainsFunc", false, "",
		Edit{v, "\t\tfor _, i := range indices {\n\t\t\tif i >= uint64(n) {\n\t\t\t\treturn false\n\t\t\t}\n\t\t}\n\t\treturn true", "\t\treturn !slices.ContainsFunc(indices, func(i uint64) bool { return i >= uint64(n) })"},
		Edit{v, "import (\n", "import (\n\t\"slices\"\n"})
}

func init() {
	mut("C16", "proofAccumulator.insertNode gets a value receiver: inserted nodes are lost", true, "receiver-mutation|(rhp/v2.proofAccumulator).insertNode",
		Edit{"rhp/v2/merkle.go", "func (pa *proofAccumulator) insertNode(h types.Hash256, height int) {", "func (pa proofAccumulator) insertNode(h types.Hash256, height int) {"})
	mut("C16", "(benign) proofAccumulator.hasNodeAtHeight gets a value receiver", false, "",
		Edit{"rhp/v2/merkle.go", "func (pa *proofAccumulator) hasNodeAtHeight(height int) bool {", "func (pa proofAccumulator) hasNodeAtHeight(height int) bool {"})
}

func init() {
	mut("C02", "spendSiacoinElement gets a value receiver: the spend is recorded on a copy", true, "receiver-mutation|(consensus.MidState).spendSiacoinElement",
		Edit{"consensus/application.go", "func (ms *MidState) spendSiacoinElement(", "func (ms MidState) spendSiacoinElement("})
}

func init() {
	// ---- third benign round: each accepted idiom with a broken twin ----
	cmpOld := "\tif c == v {\n\t\treturn 0\n\t} else if c.Hi < v.Hi || (c.Hi == v.Hi && c.Lo < v.Lo) {\n\t\treturn -1\n\t} else {\n\t\treturn 1\n\t}\n}\n\n// Add returns c+v. If the result would overflow, Add panics."
	imp := Edit{"types/currency.go", "import (\n\t\"encoding/binary\"", "import (\n\t\"cmp\"\n\t\"encoding/binary\""}
	mut("C15", "(benign) Cmp through cmp.Compare, high word first", false, "", imp,
		Edit{"types/currency.go", cmpOld, "\tif c.Hi != v.Hi {\n\t\treturn cmp.Compare(c.Hi, v.Hi)\n\t}\n\treturn cmp.Compare(c.Lo, v.Lo)\n}\n\n// Add returns c+v. If the result would overflow, Add panics."})
	mut("C15", "Cmp through cmp.Compare with the low word's operands swapped", true, "order|Cmp:Hi=Hi,Lo<Lo", imp,
		Edit{"types/currency.go", cmpOld, "\tif c.Hi != v.Hi {\n\t\treturn cmp.Compare(c.Hi, v.Hi)\n\t}\n\treturn cmp.Compare(v.Lo, c.Lo)\n}\n\n// Add returns c+v. If the result would overflow, Add panics."})
	mut("C15", "Cmp through cmp.Compare, low word decides first", true, "order|Cmp:Hi<Hi,Lo>Lo", imp,
		Edit{"types/currency.go", cmpOld, "\tif c.Lo != v.Lo {\n\t\treturn cmp.Compare(c.Lo, v.Lo)\n\t}\n\treturn cmp.Compare(c.Hi, v.Hi)\n}\n\n// Add returns c+v. If the result would overflow, Add panics."})
	ntOld := "\tif s.childHeight() < uint64(len(s.PrevTimestamps)) {\n\t\treturn int(s.childHeight())\n\t}\n\treturn len(s.PrevTimestamps)\n}"
	mut("C10", "(benign) numTimestamps through the min builtin", false, "",
		Edit{"consensus/state.go", ntOld, "\treturn int(min(s.childHeight(), uint64(len(s.PrevTimestamps))))\n}"})
	mut("C10", "numTimestamps through min with a bound one above the array", true, "sink-discharged|(consensus.State).EncodeTo:slice-high",
		Edit{"consensus/state.go", ntOld, "\treturn int(min(s.childHeight(), uint64(len(s.PrevTimestamps))+1))\n}"})
	cntOld := "if counts[0] != len(txns) || counts[1] != len(v2txns) || counts[2] != len(hashes) {"
	mut("C10", "(benign) outline kind counts compared as one array", false, "",
		Edit{"gateway/encoding.go", cntOld, "if counts != [3]int{len(txns), len(v2txns), len(hashes)} {"})
	mut("C10", "outline kind counts compared as one array, hash count left out", true, "bound-guard|outline-count-crosscheck:2",
		Edit{"gateway/encoding.go", cntOld, "if counts != [3]int{len(txns), len(v2txns), counts[2]} {"})
	arbOld := "\tif ms.base.childHeight() < ms.base.Network.HardforkFoundation.Height {\n\t\treturn nil\n\t}\n\tfor _, arb := range txn.ArbitraryData {"
	mut("C03", "(benign) validateArbitraryData returns early without arbitrary data", false, "",
		Edit{"consensus/validation.go", arbOld, "\tif ms.base.childHeight() < ms.base.Network.HardforkFoundation.Height {\n\t\treturn nil\n\t} else if len(txn.ArbitraryData) == 0 {\n\t\treturn nil\n\t}\n\tfor _, arb := range txn.ArbitraryData {"})
	mut("C03", "validateArbitraryData returns early without signatures (unsigned Foundation update accepted)", true, "auth-guard|v1-foundation:signed",
		Edit{"consensus/validation.go", arbOld, "\tif ms.base.childHeight() < ms.base.Network.HardforkFoundation.Height {\n\t\treturn nil\n\t} else if len(txn.Signatures) == 0 {\n\t\treturn nil\n\t}\n\tfor _, arb := range txn.ArbitraryData {"})
	mut("C04", "(benign) ApplyBlock preallocates the updated/added leaf slices", false, "",
		Edit{"consensus/application.go", "\tvar updated, added []elementLeaf\n\tforEachAppliedElement(ms.sces", "\tupdated := make([]elementLeaf, 0, len(ms.sces))\n\tadded := make([]elementLeaf, 0, len(ms.sces))\n\tforEachAppliedElement(ms.sces"})
}

func init() {
	// ---- C03: Foundation update existence test (flag truth conditions) ----
	v := "consensus/validation.go"
	acc := "signed = signed || (sig.ParentID == types.Hash256(sci.ParentID) && sig.CoveredFields.WholeTransaction)"
	mut("C03", "Foundation update: any whole-transaction signature counts (not the key holder's)", true, "auth-guard|v1-foundation:sig-parent",
		Edit{v, acc, "signed = signed || sig.CoveredFields.WholeTransaction"})
	mut("C03", "Foundation update: a partial signature of the key holder counts", true, "auth-guard|v1-foundation:whole-transaction",
		Edit{v, acc, "signed = signed || sig.ParentID == types.Hash256(sci.ParentID)"})
	mut("C03", "Foundation update: the void address counts as a current key", true, "auth-guard|v1-foundation:current-key",
		Edit{v, "uh != ms.base.FoundationSubsidyAddress && uh != ms.base.FoundationManagementAddress {", "uh != ms.base.FoundationSubsidyAddress && uh != ms.base.FoundationManagementAddress && uh != types.VoidAddress {"})
	mut("C03", "Foundation update: the flag starts out true", true, "auth-guard|v1-foundation:current-key",
		Edit{v, "\t\t\tvar signed bool\n", "\t\t\tsigned := len(txn.MinerFees) == 0\n"})
	mut("C03", "(benign) Foundation update: flag set in a nested if instead of ||-accumulation", false, "",
		Edit{v, acc, "if sig.ParentID == types.Hash256(sci.ParentID) && sig.CoveredFields.WholeTransaction {\n\t\t\t\t\t\tsigned = true\n\t\t\t\t\t}"})
	mut("C03", "nested-if form, parent comparison dropped", true, "auth-guard|v1-foundation:sig-parent",
		Edit{v, acc, "if sig.CoveredFields.WholeTransaction {\n\t\t\t\t\t\tsigned = true\n\t\t\t\t\t}"})
}

func init() {
	// ---- C19: RHP2 frame layout (linear forms) and error delivery ----
	t := "rhp/v2/transport.go"
	mut("C19", "writeMessage pads before reserving the tag (payload truncated near the minimum size)", true, "frame-layout|v2-send:payload-covers-encoding",
		Edit{t, "\tmsgSize := t.outbuf.Len() + t.aead.Overhead()\n\tif msgSize < minMessageSize {\n\t\tmsgSize = minMessageSize\n\t}", "\tmsgSize := t.outbuf.Len()\n\tif msgSize < minMessageSize {\n\t\tmsgSize = minMessageSize\n\t} else {\n\t\tmsgSize += t.aead.Overhead()\n\t}"})
	mut("C19", "(benign) writeMessage computes the padded size with max", false, "",
		Edit{t, "\tmsgSize := t.outbuf.Len() + t.aead.Overhead()\n\tif msgSize < minMessageSize {\n\t\tmsgSize = minMessageSize\n\t}", "\tmsgSize := max(t.outbuf.Len()+t.aead.Overhead(), minMessageSize)"})
	mut("C19", "length prefix counts the prefix itself", true, "frame-layout|v2-send:length-prefix-value",
		Edit{t, "binary.LittleEndian.PutUint64(msg[:8], uint64(msgSize-8))", "binary.LittleEndian.PutUint64(msg[:8], uint64(msgSize))"})
	mut("C19", "sealed region starts inside the nonce", true, "frame-layout|v2-send:payload-start",
		Edit{t, "payload := msg[8+len(nonce) : msgSize-t.aead.Overhead()]", "payload := msg[8 : msgSize-t.aead.Overhead()]"})
	mut("C19", "tag overruns the frame by the nonce length", true, "frame-layout|v2-send:tag-fits",
		Edit{t, "payload := msg[8+len(nonce) : msgSize-t.aead.Overhead()]", "payload := msg[8+len(nonce) : msgSize]"})
	mut("C19", "receiver opens from the start of the buffer (nonce treated as ciphertext)", true, "frame-layout|v2-recv:ciphertext-after-nonce",
		Edit{t, "paddedPayload := buf[t.aead.NonceSize():]", "paddedPayload := buf[:]"})
	mut("C19", "buffer length measured before the flush", true, "frame-layout|v2-send:length-measured-after-flush",
		Edit{t, "\tobj.EncodeTo(e)\n\te.Flush()\n\n\t// overwrite message length\n\tmsgSize := t.outbuf.Len() + t.aead.Overhead()", "\tobj.EncodeTo(e)\n\tmsgSize := t.outbuf.Len() + t.aead.Overhead()\n\te.Flush()\n"})
	mut("C19", "ReadResponse swallows the host's error", true, "error-delivered|rhp/v2.(*Transport).ReadResponse:",
		Edit{t, "\t} else if rr.err != nil {\n\t\treturn rr.err\n\t}", "\t} else if rr.err != nil {\n\t\treturn nil\n\t}"})
	mut("C19", "(benign) ReadResponse tests for the absence of an error first", false, "",
		Edit{t, "\t} else if rr.err != nil {\n\t\treturn rr.err\n\t}\n\treturn nil", "\t}\n\tif rr.err == nil {\n\t\treturn nil\n\t}\n\treturn rr.err"})
}

func init() {
	// ---- fourth benign round: accepted restylings with a broken twin ----
	cl := "\treturn acc.hasTreeAtHeight(len(l.MerkleProof)) && acc.Trees[len(l.MerkleProof)] == l.proofRoot()\n"
	mut("C04", "(benign) containsLeaf with explicit early returns", false, "",
		Edit{"consensus/merkle.go", cl, "\theight := len(l.MerkleProof)\n\tif height >= len(acc.Trees) {\n\t\treturn false\n\t} else if !acc.hasTreeAtHeight(height) {\n\t\treturn false\n\t}\n\treturn acc.Trees[height] == l.proofRoot()\n"})
	mut("C04", "containsLeaf with early returns, one of them true (over-long proofs accepted)", true, "membership-predicate|root-equality",
		Edit{"consensus/merkle.go", cl, "\theight := len(l.MerkleProof)\n\tif height >= len(acc.Trees) {\n\t\treturn true\n\t} else if !acc.hasTreeAtHeight(height) {\n\t\treturn false\n\t}\n\treturn acc.Trees[height] == l.proofRoot()\n"})
	ns := "\tnextSig := func() (sig Signature, ok bool) {\n\t\tif ok = len(sigs) > 0; ok {\n\t\t\tsig, sigs = sigs[0], sigs[1:]\n\t\t}\n\t\treturn\n\t}\n"
	mut("C14", "(benign) signature cursor with explicit returns", false, "",
		Edit{"types/policy.go", ns, "\tnextSig := func() (Signature, bool) {\n\t\tif len(sigs) == 0 {\n\t\t\treturn Signature{}, false\n\t\t}\n\t\tsig := sigs[0]\n\t\tsigs = sigs[1:]\n\t\treturn sig, true\n\t}\n"})
	mut("C14", "signature cursor with explicit returns that hands out a signature without consuming it", true, "cursor|",
		Edit{"types/policy.go", ns, "\tnextSig := func() (Signature, bool) {\n\t\tif len(sigs) == 0 {\n\t\t\treturn Signature{}, false\n\t\t}\n\t\tsig := sigs[0]\n\t\treturn sig, true\n\t}\n"})
	mut("C14", "signature cursor with explicit returns that takes the last signature", true, "cursor|",
		Edit{"types/policy.go", ns, "\tnextSig := func() (Signature, bool) {\n\t\tif len(sigs) == 0 {\n\t\t\treturn Signature{}, false\n\t\t}\n\t\tsig := sigs[len(sigs)-1]\n\t\tsigs = sigs[1:]\n\t\treturn sig, true\n\t}\n"})
	loop := "\t\tif ptxn.Transaction != nil {\n\t\t\tb.Transactions = append(b.Transactions, *ptxn.Transaction)\n\t\t\tb.MinerPayouts[0].Value = b.MinerPayouts[0].Value.Add(ptxn.Transaction.TotalFees())\n\t\t} else if ptxn.V2Transaction != nil {\n\t\t\tb.V2.Transactions = append(b.V2.Transactions, *ptxn.V2Transaction)\n\t\t\tb.MinerPayouts[0].Value = b.MinerPayouts[0].Value.Add(ptxn.V2Transaction.MinerFee)\n\t\t}\n\t}\n\treturn b, bo.Missing()\n"
	pre := "\tfor i := range bo.Transactions {\n\t\tptxn := &bo.Transactions[i]\n\t\tif ptxn.Transaction == nil && ptxn.V2Transaction == nil {\n\t\t\tptxn.Transaction, ptxn.V2Transaction = v1hashes[ptxn.Hash], v2hashes[ptxn.Hash]\n\t\t}\n"
	local := func(v2add, missCond, store string) string {
		return "\tpayout := b.MinerPayouts[0].Value\n\tvar missing []types.Hash256\n" + pre +
			"\t\tif ptxn.Transaction != nil {\n\t\t\tb.Transactions = append(b.Transactions, *ptxn.Transaction)\n\t\t\tpayout = payout.Add(ptxn.Transaction.TotalFees())\n\t\t} else if ptxn.V2Transaction != nil {\n\t\t\tb.V2.Transactions = append(b.V2.Transactions, *ptxn.V2Transaction)\n" + v2add + "\t\t}" + missCond + "\n\t}\n" + store + "\treturn b, missing\n"
	}
	okMiss := " else {\n\t\t\tmissing = append(missing, ptxn.Hash)\n\t\t}"
	mut("C18", "(benign) Complete accumulates the payout locally and collects missing hashes in the same pass", false, "",
		Edit{"gateway/outline.go", pre + loop, local("\t\t\tpayout = payout.Add(ptxn.V2Transaction.MinerFee)\n", okMiss, "\tb.MinerPayouts[0].Value = payout\n")})
	mut("C18", "local payout accumulator, v2 fee not added", true, "fees|Complete:v2-fees-follow-transaction",
		Edit{"gateway/outline.go", pre + loop, local("", okMiss, "\tb.MinerPayouts[0].Value = payout\n")})
	mut("C18", "local payout accumulator never stored back", true, "fees|Complete:",
		Edit{"gateway/outline.go", pre + loop, local("\t\t\tpayout = payout.Add(ptxn.V2Transaction.MinerFee)\n", okMiss, "\t_ = payout\n")})
	mut("C18", "inline missing list also reports v2 entries that were found", true, "missing|Complete:reports-Missing",
		Edit{"gateway/outline.go", pre + loop, "\tpayout := b.MinerPayouts[0].Value\n\tvar missing []types.Hash256\n" + pre +
			"\t\tif ptxn.Transaction != nil {\n\t\t\tb.Transactions = append(b.Transactions, *ptxn.Transaction)\n\t\t\tpayout = payout.Add(ptxn.Transaction.TotalFees())\n\t\t} else {\n\t\t\tif ptxn.V2Transaction != nil {\n\t\t\t\tb.V2.Transactions = append(b.V2.Transactions, *ptxn.V2Transaction)\n\t\t\t\tpayout = payout.Add(ptxn.V2Transaction.MinerFee)\n\t\t\t}\n\t\t\tmissing = append(missing, ptxn.Hash)\n\t\t}\n\t}\n\tb.MinerPayouts[0].Value = payout\n\treturn b, missing\n"})
	kinds := "\tkinds := make([]uint8, len(txns)+len(v2txns)+len(hashes))\n"
	mut("C10", "(benign) outline decoder stops early once the decoder has failed", false, "",
		Edit{"gateway/encoding.go", kinds, "\tif d.Err() != nil {\n\t\treturn\n\t}\n" + kinds})
	mut("C10", "outline decoder returns early for an outline without hashes (count cross-check skipped)", true, "bound-guard|outline-",
		Edit{"gateway/encoding.go", kinds, "\tif len(hashes) == 0 {\n\t\treturn\n\t}\n" + kinds})
}

func init() {
	// ---- fifth benign round: accepted restylings with a broken twin ----
	pow := "\tif s.childHeight() < s.Network.HardforkV2.FinalCutHeight {\n\t\treturn s.ChildTarget\n\t}\n\treturn invTarget(s.Difficulty.n)\n"
	mut("C13", "(benign) PoWTarget tests for the post-cut era first", false, "",
		Edit{"consensus/state.go", pow, "\tif s.childHeight() >= s.Network.HardforkV2.FinalCutHeight {\n\t\treturn invTarget(s.Difficulty.n)\n\t}\n\treturn s.ChildTarget\n"})
	mut("C13", "PoWTarget tests for the post-cut era first and returns the recorded target there", true, "era-dispatch|PoWTarget-era",
		Edit{"consensus/state.go", pow, "\tif s.childHeight() >= s.Network.HardforkV2.FinalCutHeight {\n\t\treturn s.ChildTarget\n\t}\n\treturn invTarget(s.Difficulty.n)\n"})
	v2fc := "func validateV2FileContracts(ms *MidState, txn types.V2Transaction) error {\n"
	mut("C02", "(benign) validateV2FileContracts returns early when the transaction touches no contract", false, "",
		Edit{"consensus/validation.go", v2fc, v2fc + "\tif len(txn.FileContracts) == 0 && len(txn.FileContractRevisions) == 0 && len(txn.FileContractResolutions) == 0 {\n\t\treturn nil\n\t}\n"})
	mut("C02", "validateV2FileContracts returns early when no contract is formed (revisions and resolutions unchecked)", true, "use-guard|v2-",
		Edit{"consensus/validation.go", v2fc, v2fc + "\tif len(txn.FileContracts) == 0 {\n\t\treturn nil\n\t}\n"})
	res := "\tswitch r := res.Resolution.(type) {\n\tcase *V2FileContractRenewal:\n\t\te.WriteUint8(0)\n\tcase *V2StorageProof:\n\t\te.WriteUint8(1)\n\tcase *V2FileContractExpiration:\n\t\te.WriteUint8(2)\n\tdefault:\n\t\tpanic(fmt.Sprintf(\"unhandled resolution type %T\", r))\n\t}\n"
	tagv := func(a, b string) string {
		return "\tvar typ uint8\n\tswitch r := res.Resolution.(type) {\n\tcase *V2FileContractRenewal:\n\t\ttyp = 0\n\tcase *V2StorageProof:\n\t\ttyp = " + a + "\n\tcase *V2FileContractExpiration:\n\t\ttyp = " + b + "\n\tdefault:\n\t\tpanic(fmt.Sprintf(\"unhandled resolution type %T\", r))\n\t}\n\te.WriteUint8(typ)\n"
	}
	mut("C11", "(benign) resolution encoder computes the tag in a variable and writes it once", false, "", Edit{"types/encoding.go", res, tagv("1", "2")})
	mut("C11", "resolution encoder computes the tag in a variable, proof and expiration tags swapped", true, "tag-map", Edit{"types/encoding.go", res, tagv("2", "1")})
	wsh := "\tfor i := range txn.SiacoinInputs {\n\t\th.E.Write(s.replayPrefix())\n\t\ttxn.SiacoinInputs[i].EncodeTo(h.E)\n\t}\n\th.E.WriteUint64(uint64(len((txn.SiacoinOutputs))))\n\tfor i := range txn.SiacoinOutputs {\n\t\ttypes.V1SiacoinOutput(txn.SiacoinOutputs[i]).EncodeTo(h.E)"
	mut("C12", "(benign) WholeSigHash computes the replay prefix once per input list", false, "",
		Edit{"consensus/state.go", wsh, "\tif len(txn.SiacoinInputs) > 0 {\n\t\tprefix := s.replayPrefix()\n\t\tfor i := range txn.SiacoinInputs {\n\t\t\th.E.Write(prefix)\n\t\t\ttxn.SiacoinInputs[i].EncodeTo(h.E)\n\t\t}\n\t}\n\th.E.WriteUint64(uint64(len((txn.SiacoinOutputs))))\n\tfor i := range txn.SiacoinOutputs {\n\t\ttypes.V1SiacoinOutput(txn.SiacoinOutputs[i]).EncodeTo(h.E)"})
	mut("C12", "WholeSigHash writes the replay prefix once for the whole input list", true, "replay-prefix|",
		Edit{"consensus/state.go", wsh, "\tif len(txn.SiacoinInputs) > 0 {\n\t\tprefix := s.replayPrefix()\n\t\th.E.Write(prefix)\n\t\tfor i := range txn.SiacoinInputs {\n\t\t\ttxn.SiacoinInputs[i].EncodeTo(h.E)\n\t\t}\n\t}\n\th.E.WriteUint64(uint64(len((txn.SiacoinOutputs))))\n\tfor i := range txn.SiacoinOutputs {\n\t\ttypes.V1SiacoinOutput(txn.SiacoinOutputs[i]).EncodeTo(h.E)"})
	tax := "\t\tif _, taxOverflow := fc.RenterOutput.Value.AddWithOverflow(fc.HostOutput.Value); taxOverflow {\n\t\t\toverflow = true\n\t\t\treturn\n\t\t}\n"
	mut("C10", "v2 overflow pre-check computes the contract tax without its own renter+host overflow test", true, "sink-discharged|(consensus.State).V2FileContractTax:checked-arith:Add",
		Edit{"consensus/validation.go", tax, ""})
}

func init() {
	// ---- rules added after seed round 3 ----
	mut("C06", "spending replaces the whole recorded diff (an element created in this block loses Created)", true, "diff-preserved|(consensus.MidState).spendSiacoinElement",
		Edit{"consensus/application.go", "\tsced := ms.recordSiacoinElement(sce.ID)\n\tsced.SiacoinElement = sce.Copy()\n\tsced.Spent = true\n", "\tsced := ms.recordSiacoinElement(sce.ID)\n\t*sced = SiacoinElementDiff{SiacoinElement: sce.Copy(), Spent: true}\n"})
	mut("C06", "(benign) spending sets the two fields in the other order", false, "",
		Edit{"consensus/application.go", "\tsced := ms.recordSiacoinElement(sce.ID)\n\tsced.SiacoinElement = sce.Copy()\n\tsced.Spent = true\n", "\tsced := ms.recordSiacoinElement(sce.ID)\n\tsced.Spent = true\n\tsced.SiacoinElement = sce.Copy()\n"})
	mut("C20", "after(N) timestamps parsed as unsigned (pre-1970 policies do not parse back)", true, "parse-width|ParseSpendPolicy",
		Edit{"types/policy.go", "\t\tunix, err = strconv.ParseInt(t, 10, 64)", "\t\tvar u uint64\n\t\tu, err = strconv.ParseUint(t, 10, 64)\n\t\tunix = int64(u)"})
	clamp := "\t\tif r := float64(expected) / float64(elapsed); r > 25.0/10.0 {\n\t\t\texpected, elapsed = 25, 10\n\t\t} else if r < 10.0/25.0 {\n\t\t\texpected, elapsed = 10, 25\n\t\t}\n"
	mut("C13", "pre-Oak clamp in integer arithmetic divides by the elapsed time (zero for constant timestamps)", true, "apply-total|div:",
		Edit{"consensus/application.go", clamp, "\t\tif r := expected * 1000 / elapsed; r > 2500 {\n\t\t\texpected, elapsed = 25, 10\n\t\t} else if r < 400 {\n\t\t\texpected, elapsed = 10, 25\n\t\t}\n"})
	mut("C13", "(benign) pre-Oak clamp in integer arithmetic guarded against a zero elapsed time", false, "",
		Edit{"consensus/application.go", clamp, "\t\tif elapsed == 0 {\n\t\t\texpected, elapsed = 25, 10\n\t\t} else if r := float64(expected) / float64(elapsed); r > 25.0/10.0 {\n\t\t\texpected, elapsed = 25, 10\n\t\t} else if r < 10.0/25.0 {\n\t\t\texpected, elapsed = 10, 25\n\t\t}\n"})
	wr := "\t\tif e.n == len(e.buf) {\n\t\t\te.Flush()\n\t\t}\n\t\tc := copy(e.buf[e.n:], p)"
	mut("C11", "Encoder.Write hands large payloads to the stream without flushing the staged bytes", true, "buffer-discipline|(types.Encoder).Write",
		Edit{"types/encoding.go", wr, "\t\tif e.n == len(e.buf) {\n\t\t\te.Flush()\n\t\t}\n\t\tif len(p) >= len(e.buf) && e.err == nil {\n\t\t\t_, e.err = e.w.Write(p)\n\t\t\tbreak\n\t\t}\n\t\tc := copy(e.buf[e.n:], p)"})
	mut("C11", "(benign) Encoder.Write flushes, then hands large payloads to the stream directly", false, "",
		Edit{"types/encoding.go", wr, "\t\tif len(p) >= len(e.buf) {\n\t\t\te.Flush()\n\t\t\tif e.err == nil {\n\t\t\t\t_, e.err = e.w.Write(p)\n\t\t\t}\n\t\t\tbreak\n\t\t}\n\t\tif e.n == len(e.buf) {\n\t\t\te.Flush()\n\t\t}\n\t\tc := copy(e.buf[e.n:], p)"})
}

func init() {
	// ---- C03: siafund unlock / developer-address override as a decision table ----
	v := "consensus/validation.go"
	old := "\t\t} else if sfi.UnlockConditions.UnlockHash() != parent.SiafundOutput.Address &&\n\t\t\t// override old developer siafund address\n\t\t\t!(ms.base.childHeight() >= ms.base.Network.HardforkDevAddr.Height &&\n\t\t\t\tparent.SiafundOutput.Address == ms.base.Network.HardforkDevAddr.OldAddress &&\n\t\t\t\tsfi.UnlockConditions.UnlockHash() == ms.base.Network.HardforkDevAddr.NewAddress) {\n\t\t\treturn fmt.Errorf(\"siafund input %v claims incorrect unlock conditions for siafund output %v\", i, sfi.ParentID)\n\t\t}\n"
	sel := func(cond string) string {
		return "\t\t}\n\t\taddr := parent.SiafundOutput.Address\n\t\tif " + cond + " {\n\t\t\taddr = ms.base.Network.HardforkDevAddr.NewAddress\n\t\t}\n\t\tif sfi.UnlockConditions.UnlockHash() != addr {\n\t\t\treturn fmt.Errorf(\"siafund input %v claims incorrect unlock conditions for siafund output %v\", i, sfi.ParentID)\n\t\t}\n"
	}
	full := "ms.base.childHeight() >= ms.base.Network.HardforkDevAddr.Height && parent.SiafundOutput.Address == ms.base.Network.HardforkDevAddr.OldAddress && sfi.UnlockConditions.UnlockHash() == ms.base.Network.HardforkDevAddr.NewAddress"
	mut("C03", "(benign) dev-address override selects the expected address into a local", false, "", Edit{v, old, sel(full)})
	mut("C03", "address-selection form without the hardfork height (override active before the fork)", true, "auth-guard|v1-devaddr-override:height",
		Edit{v, old, sel("parent.SiafundOutput.Address == ms.base.Network.HardforkDevAddr.OldAddress && sfi.UnlockConditions.UnlockHash() == ms.base.Network.HardforkDevAddr.NewAddress")})
	mut("C03", "address-selection form applied to every parent (any output spendable by the new developer key)", true, "auth-guard|v1-devaddr-override:old",
		Edit{v, old, sel("ms.base.childHeight() >= ms.base.Network.HardforkDevAddr.Height && sfi.UnlockConditions.UnlockHash() == ms.base.Network.HardforkDevAddr.NewAddress")})
	mut("C03", "override accepts any conditions for the old developer address after the fork", true, "auth-guard|v1-devaddr-override:new",
		Edit{v, "\t\t\t\tparent.SiafundOutput.Address == ms.base.Network.HardforkDevAddr.OldAddress &&\n\t\t\t\tsfi.UnlockConditions.UnlockHash() == ms.base.Network.HardforkDevAddr.NewAddress) {", "\t\t\t\tparent.SiafundOutput.Address == ms.base.Network.HardforkDevAddr.OldAddress) {"})
	mut("C03", "siafund unlock hash compared only when the override does not apply… inverted (mismatch accepted)", true, "auth-guard|v1-unlock-hash:SiafundInputs",
		Edit{v, "\t\t} else if sfi.UnlockConditions.UnlockHash() != parent.SiafundOutput.Address &&\n\t\t\t// override old developer siafund address\n\t\t\t!(", "\t\t} else if sfi.UnlockConditions.UnlockHash() == parent.SiafundOutput.Address &&\n\t\t\t// override old developer siafund address\n\t\t\t!("})
}

func init() {
	// ---- "[*]" means every element ----
	mut("C17", "free-sector indices checked from the second one on (a lone out-of-range index passes)", true, "validate-bounds|free:index-in-range",
		Edit{"rhp/v4/validation.go", "\tfor _, index := range req.Indices {\n\t\tif index >= sectors {", "\tfor i := 1; i < len(req.Indices); i++ {\n\t\tindex := req.Indices[i]\n\t\tif index >= sectors {"})
	mut("C17", "(benign) free-sector indices walked by index from zero", false, "",
		Edit{"rhp/v4/validation.go", "\tfor _, index := range req.Indices {\n\t\tif index >= sectors {", "\tfor i := 0; i < len(req.Indices); i++ {\n\t\tindex := req.Indices[i]\n\t\tif index >= sectors {"})
	mut("C02", "v2 siacoin inputs validated from the second one on", true, "use-guard|v2-",
		Edit{"consensus/validation.go", "\tfor i, sci := range txn.SiacoinInputs {\n\t\tif txid, ok := ms.spent(sci.Parent.ID); ok {", "\tfor i := 1; i < len(txn.SiacoinInputs); i++ {\n\t\tsci := txn.SiacoinInputs[i]\n\t\tif txid, ok := ms.spent(sci.Parent.ID); ok {"})
}

func init() {
	// ---- round 5 rules ----
	v := "consensus/validation.go"
	mut("C01", "revision's missed host value capped by the CURRENT contract's host output", true, "v2-revision-missed-host-cap",
		Edit{v, "rev.MissedHostValue.Cmp(rev.HostOutput.Value) > 0:", "rev.MissedHostValue.Cmp(cur.HostOutput.Value) > 0:"})
	mut("C07", "revision's missed host value cap dropped", true, "v2-revision-missed-host-cap",
		Edit{v, "case ms.base.childHeight() >= ms.base.Network.HardforkV2.EphemeralOutputHeight && rev.MissedHostValue.Cmp(rev.HostOutput.Value) > 0:", "case false && rev.MissedHostValue.Cmp(rev.HostOutput.Value) > 0:"})
	mut("C07", "(benign) cap's era gate named", false, "",
		Edit{v, "\t\tcurOutputSum := cur.RenterOutput.Value.Add(cur.HostOutput.Value)\n", "\t\tcapMissed := ms.base.childHeight() >= ms.base.Network.HardforkV2.EphemeralOutputHeight\n\t\tcurOutputSum := cur.RenterOutput.Value.Add(cur.HostOutput.Value)\n"},
		Edit{v, "case ms.base.childHeight() >= ms.base.Network.HardforkV2.EphemeralOutputHeight && rev.MissedHostValue.Cmp(rev.HostOutput.Value) > 0:", "case capMissed && rev.MissedHostValue.Cmp(rev.HostOutput.Value) > 0:"})
	m := "consensus/merkle.go"
	mut("C04", "element walk returns after the first storage proof", true, "walk-complete",
		Edit{m, "\t\t\tcheck(\"storage proof\", chainIndexLeaf(&r.ProofIndex))\n", "\t\t\tcheck(\"storage proof\", chainIndexLeaf(&r.ProofIndex))\n\t\t\treturn\n"})
	mut("C04", "(benign) element walk stops at the first error", false, "",
		Edit{m, "\t\tcheck(\"siafund input\", siafundLeaf(&txn.SiafundInputs[i].Parent, false))\n", "\t\tcheck(\"siafund input\", siafundLeaf(&txn.SiafundInputs[i].Parent, false))\n\t\tif err != nil {\n\t\t\treturn err\n\t\t}\n"})
	mut("C12", "commitment compared only when the block has v2 transactions", true, "v2-commitment-checked",
		Edit{v, "\tif b.V2 != nil {\n\t\tif b.V2.Commitment != s.Commitment(", "\tif b.V2 != nil && len(b.V2.Transactions) > 0 {\n\t\tif b.V2.Commitment != s.Commitment("})
	mut("C12", "commitment recomputed without the v1 transactions", true, "v2-commitment-checked",
		Edit{v, "s.Commitment(b.MinerPayouts[0].Address, b.Transactions, b.V2Transactions())", "s.Commitment(b.MinerPayouts[0].Address, nil, b.V2Transactions())"})
	a := "consensus/application.go"
	mut("C13", "Work.add shadows the carry", true, "work-carry-chain|consensus.(Work).add",
		Edit{a, "\tvar sum, c uint64\n\tfor i := 24; i >= 0; i -= 8 {\n\t\twi := binary.BigEndian.Uint64(w.n[i:])\n\t\tvi := binary.BigEndian.Uint64(v.n[i:])\n\t\tsum, c = bits.Add64(wi, vi, c)\n", "\tvar c uint64\n\tfor i := 24; i >= 0; i -= 8 {\n\t\twi := binary.BigEndian.Uint64(w.n[i:])\n\t\tvi := binary.BigEndian.Uint64(v.n[i:])\n\t\tsum, c := bits.Add64(wi, vi, c)\n"})
	mut("C13", "Work.div64 restarts the remainder at every word", true, "work-carry-chain|consensus.(Work).div64",
		Edit{a, "\t\tquo, rem = bits.Div64(rem, wi, v)\n", "\t\tquo, rem = bits.Div64(0, wi, v)\n\t\t_ = rem\n"})
	mut("C13", "Work.mul64 carries only the high half", true, "work-carry-chain|consensus.(Work).mul64",
		Edit{a, "\t\tc = hi + cc\n", "\t\tc = hi\n\t\t_ = cc\n"})
	mut("C13", "(benign) Work.sub names the borrow", false, "",
		Edit{a, "\tvar sum, c uint64\n\tfor i := 24; i >= 0; i -= 8 {\n\t\twi := binary.BigEndian.Uint64(w.n[i:])\n\t\tvi := binary.BigEndian.Uint64(v.n[i:])\n\t\tsum, c = bits.Sub64(wi, vi, c)\n\t\tbinary.BigEndian.PutUint64(r.n[i:], sum)\n\t\tif c > 0 && i == 0 {", "\tvar borrow uint64\n\tfor i := 24; i >= 0; i -= 8 {\n\t\twi := binary.BigEndian.Uint64(w.n[i:])\n\t\tvi := binary.BigEndian.Uint64(v.n[i:])\n\t\tvar diff uint64\n\t\tdiff, borrow = bits.Sub64(wi, vi, borrow)\n\t\tbinary.BigEndian.PutUint64(r.n[i:], diff)\n\t\tif borrow > 0 && i == 0 {"})
	pol := "types/policy.go"
	mut("C14", "entropy key rejected before the walk's exit test", true, "uc-entropy-key",
		Edit{pol, "\t\t\t\tif p.SignaturesRequired == 0 || p.SignaturesRequired > uint64(len(p.PublicKeys[i:])) || p.SignaturesRequired > uint64(len(sigs)) {\n\t\t\t\t\tbreak\n\t\t\t\t}\n", "\t\t\t\tif pk.Algorithm == SpecifierEntropy {\n\t\t\t\t\treturn errors.New(\"policy uses an entropy public key\")\n\t\t\t\t}\n\t\t\t\tif p.SignaturesRequired == 0 || p.SignaturesRequired > uint64(len(p.PublicKeys[i:])) || p.SignaturesRequired > uint64(len(sigs)) {\n\t\t\t\t\tbreak\n\t\t\t\t}\n"})
	mk := "rhp/v4/merkle.go"
	mut("C16", "append proof reads the subtrees after the appended roots went in", true, "append-proof-order",
		Edit{mk, "\tvar subtreeRoots []types.Hash256\n\tfor i, h := range acc.Trees {\n\t\tif acc.NumLeaves&(1<<i) != 0 {\n\t\t\tsubtreeRoots = append(subtreeRoots, h)\n\t\t}\n\t}\n\tfor _, h := range appended {\n\t\tacc.AddLeaf(h)\n\t}\n", "\tfor _, h := range appended {\n\t\tacc.AddLeaf(h)\n\t}\n\tvar subtreeRoots []types.Hash256\n\tfor i, h := range acc.Trees {\n\t\tif acc.NumLeaves&(1<<i) != 0 {\n\t\t\tsubtreeRoots = append(subtreeRoots, h)\n\t\t}\n\t}\n"})
	tr := "rhp/v2/transport.go"
	mut("C19", "F17 returns: MAC tail sized 32-(clen%16)", true, "mac-trailer",
		Edit{tr, "[:16+(16-rr.clen%16)%16]", "[:32-(rr.clen%16)]"})
	mut("C19", "MAC tail's length field one word early", true, "mac-trailer",
		Edit{tr, "binary.LittleEndian.PutUint64(tail[len(tail)-8:], rr.clen)", "binary.LittleEndian.PutUint64(tail[len(tail)-16:], rr.clen)"})
	mut("C19", "(benign) MAC tail padding with a mask", false, "",
		Edit{tr, "[:16+(16-rr.clen%16)%16]", "[:16+(-rr.clen&15)]"})
	mut("C20", "list loop parses an element before looking for the closing bracket", true, "list-grammar",
		Edit{pol, "\t\t\tvar of []SpendPolicy\n\t\t\tfor err == nil && peek() != ']' {", "\t\t\tvar of []SpendPolicy\n\t\t\tfor err == nil {"})
	mp := "types/multiproof.go"
	mut("C18", "walker hands every leaf to the visitor, ephemeral or not", true, "skips-ephemeral",
		Edit{mp, "\t\tif l.LeafIndex != UnassignedLeafIndex {\n\t\t\tfn(l)\n\t\t}\n", "\t\tfn(l)\n"})
	mut("C06", "revert re-points every leaf at ONE shared copy", true, "repoint-before-reverse",
		Edit{a, "\tfor _, elems := range eru.updated {\n\t\tfor i := range elems {\n\t\t\tse := elems[i].StateElement.Move()\n\t\t\telems[i].StateElement = &se\n", "\tvar se types.StateElement\n\tfor _, elems := range eru.updated {\n\t\tfor i := range elems {\n\t\t\tse = elems[i].StateElement.Move()\n\t\t\telems[i].StateElement = &se\n"})
	cur := "types/currency.go"
	mut("C15", "(benign) Mul64WithOverflow fast path for a zero high word", false, "",
		Edit{cur, "\thi0, lo0 := bits.Mul64(c.Lo, v)\n\thi1, lo1 := bits.Mul64(c.Hi, v)\n", "\thi0, lo0 := bits.Mul64(c.Lo, v)\n\tif c.Hi == 0 {\n\t\treturn Currency{lo0, hi0}, false\n\t}\n\thi1, lo1 := bits.Mul64(c.Hi, v)\n"})
	mut("C15", "Mul64WithOverflow fast path taken for a zero LOW word", true, "limb-identity",
		Edit{cur, "\thi0, lo0 := bits.Mul64(c.Lo, v)\n\thi1, lo1 := bits.Mul64(c.Hi, v)\n", "\thi0, lo0 := bits.Mul64(c.Lo, v)\n\tif c.Lo == 0 {\n\t\treturn Currency{lo0, hi0}, false\n\t}\n\thi1, lo1 := bits.Mul64(c.Hi, v)\n"})
}

func init() {
	// ---- round 6 rules ----
	a := "consensus/application.go"
	v := "consensus/validation.go"
	m := "consensus/merkle.go"
	mut("C01", "missed outputs of an expiring contract paid whether or not it was already resolved", true, "v1-expiry-missed-outputs",
		Edit{a, "\t\tif ms.isSpent(fce.ID) {\n\t\t\tcontinue\n\t\t}\n\t\tms.resolveFileContractElement(fce.Share(), false, types.TransactionID(bid))\n", "\t\tif !ms.isSpent(fce.ID) {\n\t\t\tms.resolveFileContractElement(fce.Share(), false, types.TransactionID(bid))\n\t\t}\n"})
	mut("C01", "(benign) expiring loop asks the two-result spent()", false, "",
		Edit{a, "\t\tif ms.isSpent(fce.ID) {\n\t\t\tcontinue\n\t\t}\n", "\t\tif _, done := ms.spent(fce.ID); done {\n\t\t\tcontinue\n\t\t}\n"})
	mut("C03", "ephemeral parent compared by value only", true, "v2-ephemeral-address",
		Edit{v, "} else if sci.Parent.SiacoinOutput != esci.SiacoinOutput {", "} else if !sci.Parent.SiacoinOutput.Value.Equals(esci.SiacoinOutput.Value) {"})
	mut("C04", "spent flag overwrites the top byte of the leaf index", true, "regions-disjoint",
		Edit{m, "\t\tbuf[41] = 1\n", "\t\tbuf[40] = 1\n"})
	mut("C04", "leaf index written as 4 bytes", true, "leaf-index",
		Edit{m, "\tbinary.LittleEndian.PutUint64(buf[33:], l.LeafIndex)\n", "\tbinary.LittleEndian.PutUint32(buf[33:], uint32(l.LeafIndex))\n"})
	mut("C06", "resolver overwrites the diff's element again (F18 returns)", true, "pre-block-element-kept",
		Edit{a, "\tif !fced.Created && fced.Revision == nil {\n\t\t// first touch in this block; otherwise keep the element as it was\n\t\t// before the block (fce may already reflect an in-block revision)\n\t\tfced.FileContractElement = fce.Copy()\n\t}\n\tfced.Resolved = true\n", "\tfced.FileContractElement = fce.Copy()\n\tfced.Resolved = true\n"})
	mut("C07", "challenge reduction with hi and lo swapped", true, "challenge-reduction",
		Edit{"consensus/state.go", "_, r = bits.Div64(r, binary.BigEndian.Uint64(seed[i:]), numLeaves)", "_, r = bits.Div64(binary.BigEndian.Uint64(seed[i:])%numLeaves, r, numLeaves)"})
	mut("C10", "tree root read before the existence test", true, "sink-discharged",
		Edit{m, "\treturn acc.hasTreeAtHeight(len(l.MerkleProof)) && acc.Trees[len(l.MerkleProof)] == l.proofRoot()\n", "\troot := acc.Trees[len(l.MerkleProof)]\n\treturn acc.hasTreeAtHeight(len(l.MerkleProof)) && root == l.proofRoot()\n"})
	mut("C13", "dispatcher derives the target from the previous difficulty", true, "inverse-pairing",
		Edit{a, "\t\tdifficulty := adjustDifficultyV2(s, blockTimestamp)\n\t\treturn difficulty, invTarget(difficulty.n)\n", "\t\tdifficulty := adjustDifficultyV2(s, blockTimestamp)\n\t\treturn difficulty, invTarget(s.Difficulty.n)\n"})
	mut("C19", "gateway response read under the request's limit", true, "direction-pairing",
		Edit{"gateway/transport.go", "\treturn s.withDecoder(r.maxResponseLen(), r.decodeResponse)\n", "\treturn s.withDecoder(r.maxRequestLen(), r.decodeResponse)\n"})
	mut("C15", "quoRem64 returns 0 for a zero dividend before dividing", true, "limb-identity",
		Edit{"types/currency.go", "func (c Currency) quoRem64(v uint64) (q Currency, r uint64) {\n", "func (c Currency) quoRem64(v uint64) (q Currency, r uint64) {\n\tif c.IsZero() {\n\t\treturn\n\t}\n"})
	mut("C15", "(benign) quoRem64 single-word fast path", false, "",
		Edit{"types/currency.go", "func (c Currency) quoRem64(v uint64) (q Currency, r uint64) {\n", "func (c Currency) quoRem64(v uint64) (q Currency, r uint64) {\n\tif c.Hi == 0 {\n\t\tq.Lo, r = c.Lo/v, c.Lo%v\n\t\treturn\n\t}\n"})
	mut("C09", "DeepCopy stops re-pointing at the first expiration", true, "loop-complete",
		Edit{"types/types.go", "\t\tcase *V2FileContractRenewal:\n\t\t\trenewal := *res\n\t\t\tc.FileContractResolutions[i].Resolution = &renewal\n\t\t}\n\t}\n", "\t\tcase *V2FileContractRenewal:\n\t\t\trenewal := *res\n\t\t\tc.FileContractResolutions[i].Resolution = &renewal\n\t\tcase *V2FileContractExpiration:\n\t\t\tbreak copyResolutions\n\t\t}\n\t}\n"},
		Edit{"types/types.go", "\tfor i := range c.FileContractResolutions {\n\t\tc.FileContractResolutions[i].Parent = c.FileContractResolutions[i].Parent.Copy()\n", "copyResolutions:\n\tfor i := range c.FileContractResolutions {\n\t\tc.FileContractResolutions[i].Parent = c.FileContractResolutions[i].Parent.Copy()\n"})
}

func init() {
	// ---- round 7 rules ----
	v := "consensus/validation.go"
	mut("C01", "v2 siafund outputs bounded by their wrapping sum", true, "siafund-bound|v2",
		Edit{v, "\tfor _, sfo := range txn.SiafundOutputs {\n\t\toverflow = overflow || sfo.Value > ms.base.SiafundCount()\n\t}\n\tfor _, fc := range txn.FileContracts {\n\t\taddContract(fc)", "\tvar sfSum uint64\n\tfor _, sfo := range txn.SiafundOutputs {\n\t\tsfSum += sfo.Value\n\t}\n\toverflow = overflow || sfSum > ms.base.SiafundCount()\n\tfor _, fc := range txn.FileContracts {\n\t\taddContract(fc)"})
	mut("C02", "v2 transactions validated against a second MidState", true, "one-midstate",
		Edit{v, "\tfor i, txn := range b.V2Transactions() {\n\t\tif err := ValidateV2Transaction(ms, txn); err != nil {", "\tms = NewMidState(s)\n\tfor i, txn := range b.V2Transactions() {\n\t\tif err := ValidateV2Transaction(ms, txn); err != nil {"})
	mut("C06", "revert numbers the created leaves from the update's (unset) leaf count", true, "revert-leaf-index",
		Edit{"consensus/merkle.go", "\teru.updated = updateLeaves(updated)\n\teru.numLeaves = acc.NumLeaves\n\tfor i := range added {\n\t\tadded[i].LeafIndex = acc.NumLeaves + uint64(i)\n\t}\n", "\teru.updated = updateLeaves(updated)\n\tfor i := range added {\n\t\tadded[i].LeafIndex = eru.numLeaves + uint64(i)\n\t}\n\teru.numLeaves = acc.NumLeaves\n"})
	mut("C17", "v3 PayByContract credits the host's valid output twice (through pointer locals)", true, "v3-pay",
		Edit{"rhp/v3/rhp.go", "\trev.MissedProofOutputs[types.HostContractIndex].Value = rev.MissedProofOutputs[types.HostContractIndex].Value.Add(amount)\n", "\tmh := &rev.ValidProofOutputs[types.HostContractIndex]\n\tmh.Value = mh.Value.Add(amount)\n"})
	mut("C17", "(benign) v3 PayByContract through a pointer local", false, "",
		Edit{"rhp/v3/rhp.go", "\trev.MissedProofOutputs[types.HostContractIndex].Value = rev.MissedProofOutputs[types.HostContractIndex].Value.Add(amount)\n", "\tmh := &rev.MissedProofOutputs[types.HostContractIndex]\n\tmh.Value = mh.Value.Add(amount)\n"})
}

func init() {
	// ---- round 8 rules ----
	mut("C01", "Foundation subsidy loses its before-the-hardfork guard", true, "foundation-not-before-hardfork",
		Edit{"consensus/state.go", "\tif s.childHeight() < hardforkHeight || (s.childHeight()-hardforkHeight)%blocksPerMonth != 0 {", "\tif (s.childHeight()-hardforkHeight)%blocksPerMonth != 0 {"})
	mut("C10", "length prefix compared in the signed domain", true, "bytes-prefix-vs-remaining",
		Edit{"types/encoding.go", "\tn := d.ReadUint64()\n\tif n > uint64(d.lr.N) {\n\t\td.SetErr(fmt.Errorf(\"encoded object contains invalid length prefix (%v elems > %v bytes left in stream)\", n, d.lr.N))\n\t\treturn nil\n\t}\n\tb := make([]byte, n)", "\tn := d.ReadUint64()\n\tif int64(n) > d.lr.N {\n\t\td.SetErr(fmt.Errorf(\"encoded object contains invalid length prefix (%v elems > %v bytes left in stream)\", n, d.lr.N))\n\t\treturn nil\n\t}\n\tb := make([]byte, n)"})
	mut("C11", "decoder hands a shared helper the valid/missed values in swapped order", true, "mirror|rhp/v2|RPCSectorRootsRequest",
		Edit{"rhp/v2/encoding.go", "func (r *RPCSectorRootsRequest) DecodeFrom(d *types.Decoder) {\n\tr.RootOffset = d.ReadUint64()\n\tr.NumRoots = d.ReadUint64()\n\tr.RevisionNumber = d.ReadUint64()\n\ttypes.DecodeSliceCast[types.V1Currency](d, &r.ValidProofValues)\n\ttypes.DecodeSliceCast[types.V1Currency](d, &r.MissedProofValues)", "func (r *RPCSectorRootsRequest) DecodeFrom(d *types.Decoder) {\n\tr.RootOffset = d.ReadUint64()\n\tr.NumRoots = d.ReadUint64()\n\tr.RevisionNumber = d.ReadUint64()\n\ttypes.DecodeSliceCast[types.V1Currency](d, &r.MissedProofValues)\n\ttypes.DecodeSliceCast[types.V1Currency](d, &r.ValidProofValues)"})
}

func init() {
	mut("C07", "renewal marks the contract resolved through a pointer taken before the renewed contract was appended", true, "stale-diff-pointer",
		Edit{"consensus/application.go", "\tfced.V2FileContractElement = fce.Copy()\n\tfced.Resolution = res\n\tms.spends[fce.ID] = txid\n}", "\tfced.V2FileContractElement = fce.Copy()\n\tif r, ok := res.(*types.V2FileContractRenewal); ok {\n\t\tms.createV2FileContractElement(fce.ID.V2RenewalID(), r.NewContract)\n\t}\n\tfced.Resolution = res\n\tms.spends[fce.ID] = txid\n}"})
}
