package main

// Overlay mutant corpus: the checker's own acceptance test (DESIGN §8, Appendix A).
// Breaking mutants compile and are of the kind the existing suite does not notice.

func init() {
	// ---- C11 ----
	mut("C11", "drop TotalCollateral from both codec halves of V2FileContract", true, "fields|types|V2FileContract",
		Edit{"types/encoding.go", "\tV2Currency(fc.TotalCollateral).EncodeTo(e)\n", ""},
		Edit{"types/encoding.go", "\t(*V2Currency)(&fc.TotalCollateral).DecodeFrom(d)\n", ""})
	mut("C11", "swap ProofHeight/ExpirationHeight in the decoder only", true, "mirror|types|V2FileContract",
		Edit{"types/encoding.go", "\tfc.ProofHeight = d.ReadUint64()\n\tfc.ExpirationHeight = d.ReadUint64()\n", "\tfc.ExpirationHeight = d.ReadUint64()\n\tfc.ProofHeight = d.ReadUint64()\n"})
	mut("C11", "swap ProofHeight/ExpirationHeight on both sides", true, "layout|types.(V2FileContract).EncodeTo",
		Edit{"types/encoding.go", "\tfc.ProofHeight = d.ReadUint64()\n\tfc.ExpirationHeight = d.ReadUint64()\n", "\tfc.ExpirationHeight = d.ReadUint64()\n\tfc.ProofHeight = d.ReadUint64()\n"},
		Edit{"types/encoding.go", "\te.WriteUint64(fc.ProofHeight)\n\te.WriteUint64(fc.ExpirationHeight)\n", "\te.WriteUint64(fc.ExpirationHeight)\n\te.WriteUint64(fc.ProofHeight)\n"})
	mut("C11", "V2Transaction decoder tests bit 9 for the fee", true, "mirror|types|V2Transaction",
		Edit{"types/encoding.go", "\tif fields&(1<<10) != 0 {\n\t\t(*V2Currency)(&txn.MinerFee).DecodeFrom(d)", "\tif fields&(1<<9) != 0 {\n\t\t(*V2Currency)(&txn.MinerFee).DecodeFrom(d)"})
	mut("C11", "FileContract encoder writes the payout as V2Currency", true, "mirror|types|FileContract",
		Edit{"types/encoding.go", "\tV1Currency(fc.Payout).EncodeTo(e)\n\tEncodeSliceCast[V1SiacoinOutput](e, fc.ValidProofOutputs)", "\tV2Currency(fc.Payout).EncodeTo(e)\n\tEncodeSliceCast[V1SiacoinOutput](e, fc.ValidProofOutputs)"})
	mut("C11", "resolution decoder maps tag 1 to expiration", true, "tag-map",
		Edit{"types/encoding.go", "\tcase 1:\n\t\tres.Resolution = new(V2StorageProof)\n\tcase 2:\n\t\tres.Resolution = new(V2FileContractExpiration)", "\tcase 2:\n\t\tres.Resolution = new(V2StorageProof)\n\tcase 1:\n\t\tres.Resolution = new(V2FileContractExpiration)"})
	mut("C11", "V2Transaction bitmap drops the void foundation address", true, "bitmap",
		Edit{"types/encoding.go", "\t\ttxn.NewFoundationAddress != nil,\n", "\t\ttxn.NewFoundationAddress != nil && *txn.NewFoundationAddress != VoidAddress,\n"})
	mut("C11", "rhp/v4 HostPrices drops TipHeight on both sides", true, "fields|rhp/v4|HostPrices",
		Edit{"rhp/v4/encoding.go", "\te.WriteUint64(hp.TipHeight)\n", ""},
		Edit{"rhp/v4/encoding.go", "\thp.TipHeight = d.ReadUint64()\n", ""})
	mut("C11", "State decoder reads timestamps with a different presence predicate", true, "mirror|consensus|State",
		Edit{"consensus/state.go", "\tfor i := range s.PrevTimestamps[:s.numTimestamps()] {\n\t\ts.PrevTimestamps[i] = d.ReadTime()", "\tfor i := range s.PrevTimestamps[:len(s.PrevTimestamps)] {\n\t\ts.PrevTimestamps[i] = d.ReadTime()"})
	mut("C11", "(benign) rename receiver variable of ChainIndex.EncodeTo", false, "",
		Edit{"types/encoding.go", "func (index ChainIndex) EncodeTo(e *Encoder) {\n\te.WriteUint64(index.Height)\n\tindex.ID.EncodeTo(e)\n}", "func (ci ChainIndex) EncodeTo(e *Encoder) {\n\te.WriteUint64(ci.Height)\n\tci.ID.EncodeTo(e)\n}"})
	mut("C11", "(benign) V2FileContractRevision decoder via local alias", false, "",
		Edit{"types/encoding.go", "func (rev *V2FileContractRevision) DecodeFrom(d *Decoder) {\n\trev.Parent.DecodeFrom(d)\n\trev.Revision.DecodeFrom(d)\n}", "func (rev *V2FileContractRevision) DecodeFrom(d *Decoder) {\n\tp := &rev.Parent\n\tp.DecodeFrom(d)\n\trev.Revision.DecodeFrom(d)\n}"})
}
