package main

import (
	"fmt"
	"go/types"
	"regexp"
	"sort"
	"strings"
)

func init() { register("C12", runC12) }

// encoderOf finds the EncodeTo program of a named type ("types.V2FileContract").
func encoderOf(progs map[string]*WireProg, tname string) *WireProg {
	return findMethodProg(progs, tname+".EncodeTo")
}

// committedPaths expands a hash/encoder program into the set of leaf access paths whose content
// reaches the bytes. Paths are rooted at root ("" = receiver or the single object parameter).
func committedPaths(p *Program, progs map[string]*WireProg, ops []Op, prefixFrom, prefixTo string, depth int, out map[string]bool, notes *[]string) {
	rebase := func(path string) (string, bool) {
		if prefixFrom == "" {
			if path == "" || strings.HasPrefix(path, ".") || strings.HasPrefix(path, "[") {
				return prefixTo + path, true
			}
			return "", false
		}
		if strings.HasPrefix(path, prefixFrom) {
			return prefixTo + strings.TrimPrefix(path, prefixFrom), true
		}
		return "", false
	}
	for _, o := range ops {
		// what follows a data-dependent early exit (a surviving "skip") is written only for some values: it is not
		// committed for all of them
		if containsSkip([]Op{o}) {
			*notes = append(*notes, "early-exit:"+o.Kind+" "+o.Path)
			break
		}
		if strings.HasPrefix(o.Path, "<") && prefixFrom == "" {
			// an expression over fields (NewCurrency64(.Value)): every field it mentions reaches the bytes
			for _, m := range exprFieldRe.FindAllString(o.Path, -1) {
				out[prefixTo+m] = true
			}
		}
		switch o.Kind {
		case "u8", "u64", "bool", "time", "bytes", "string", "raw":
			if pth, ok := rebase(o.Path); ok {
				out[pth] = true
			}
		case "ref":
			pth, ok := rebase(o.Path)
			if !ok {
				continue
			}
			tn := strings.TrimSuffix(o.Typ, ".encodePolicy")
			enc := encoderOf(progs, tn)
			if enc == nil || depth > 10 || atomicStructs[tn] || isAtomicProg(enc) {
				out[pth] = true
				continue
			}
			committedPaths(p, progs, enc.Ops, "", pth, depth+1, out, notes)
		case "dyn":
			pth, ok := rebase(o.Path)
			if !ok {
				continue
			}
			// expand over the implementers of the interface found at that path
			*notes = append(*notes, "dyn:"+pth)
			out["dyn:"+pth] = true
		case "slice", "loop", "opt", "cond", "fn":
			committedPaths(p, progs, o.Sub, prefixFrom, prefixTo, depth, out, notes)
		case "switch":
			for _, cs := range o.Cases {
				committedPaths(p, progs, cs.Ops, prefixFrom, prefixTo, depth, out, notes)
			}
		default:
			if strings.HasPrefix(o.Kind, "fixed:") {
				if pth, ok := rebase(o.Path); ok {
					out[pth] = true
				}
			}
		}
	}
}

var exprFieldRe = regexp.MustCompile(`\.[A-Z][A-Za-z0-9_]*(\.[A-Z][A-Za-z0-9_]*|\[\*\])*`)

func isAtomicProg(wp *WireProg) bool {
	if wp.Recv == nil {
		return true
	}
	_, isStruct := wp.Recv.Underlying().(*types.Struct)
	return !isStruct
}

// expandDyn replaces "dyn:P" markers by the committed paths of every implementer of the
// interface-typed field at P.
func expandDyn(p *Program, progs map[string]*WireProg, root types.Type, set map[string]bool) {
	for _, k := range sortedKeys(set) {
		if !strings.HasPrefix(k, "dyn:") {
			continue
		}
		delete(set, k)
		pth := strings.TrimPrefix(k, "dyn:")
		// find implementers from the leaf-path enumeration of the root type
		seen := map[string]bool{}
		for _, lp := range p.LeafPaths(root, "") {
			if strings.HasPrefix(lp.Path, pth+".(") {
				rest := strings.TrimPrefix(lp.Path, pth+".(")
				tn := rest[:strings.Index(rest, ")")]
				seen[tn] = true
			}
		}
		for tn := range seen {
			enc := encoderOf(progs, tn)
			if enc == nil {
				set["unresolved-implementer:"+pth+".("+tn+")"] = true
				continue
			}
			sub := map[string]bool{}
			var notes []string
			committedPaths(p, progs, enc.Ops, "", pth+".("+tn+")", 0, sub, &notes)
			for s := range sub {
				set[s] = true
			}
		}
	}
}

type exclusionSpec struct {
	name      string // rule instance prefix
	prog      string // wire program
	root      [2]string
	rootPath  string                   // path of the object inside the program ("" receiver)
	excluded  func(lp LeafPath) string // reason if the statement excludes the path
	unsettled func(lp LeafPath) string // reason if the statement does not settle the path
}

func runC12(c *Ctx) {
	p := c.P
	c.Explain("Decides (1) the exact commitment sets of the ID/sighash preimages: every leaf field path of types.Transaction / types.V2Transaction (enumerated from go/types) is either reached by the semantic encoding or belongs to the exclusion list the property states (v1 signatures; v2 satisfied policies, contract/renewal signatures, parent contents other than IDs, Merkle proofs) — nothing more, nothing less; signature-stripping must zero exactly the Signature-typed leaves; (2) every hash preimage built in packages types and consensus equals the committed reviewed layout (distinguishers, specifiers, replay prefixes, index arguments, field order); (3) domain separation: (distinguisher, discriminator) tuples of all derivations are pairwise distinct constants, every v2 sighash carries the v2 replay prefix after its purpose distinguisher, every v1 sighash writes the era replay prefix before each siacoin and siafund input; (4) the block ID binds content: Header() commitment sources and ValidateBlock's commitment/height guards. Collision resistance and value-level ID inequality are not decided.")
	c.NotCovered("collision resistance of BLAKE2b", "coincidence of variable-length v1 preimages (legacy design)", "value-level inequality of IDs")
	progs := ExtractWirePrograms(p)
	for n := range progs {
		c.NoteFunc(n)
	}
	checkLayoutRef(c, progs, "C12")
	c12Exclusion(c, progs)
	c12SigStripping(c, progs)
	c12ReplayPrefix(c, progs)
	c12DomainSeparation(c, progs)
	c12BlockBinding(c, progs)
	// the commitment binds only if block validation compares it: for every v2 block, against the commitment
	// recomputed from the parent state, the miner address and all transactions of the block
	ge := NewGuardEngine(c.P, c.Depth+4)
	blk := "{types.Block}"
	tab := []GuardReq{
		req("v2-commitment-checked", VB, blk+".V2.Commitment", opNE, "call (consensus.State).Commitment(%ST%, "+blk+".MinerPayouts[0].Address, "+blk+".Transactions, call (types.Block).V2Transactions("+blk+"))",
			"a v2 block's ID binds parent state, miner address and every transaction: validation rejects a block whose commitment is not the recomputed one", blk+".V2 != nil"),
	}
	runGuardTable(c, "commitment-guard", ge, tab)
	c.Min("commitment-guard", len(tab))
}

var parentRe = regexp.MustCompile(`^\.(SiacoinInputs|SiafundInputs|FileContractRevisions|FileContractResolutions)\[\*\]\.Parent\.`)

func c12Exclusion(c *Ctx, progs map[string]*WireProg) {
	p := c.P
	sigT := p.NamedType("types", "Signature")
	specs := []exclusionSpec{
		{
			name: "v1-id", prog: "types.(txnSansSigs).EncodeTo", root: [2]string{"types", "Transaction"},
			excluded: func(lp LeafPath) string {
				if strings.HasPrefix(lp.Path, ".Signatures") {
					return "v1 transaction signatures"
				}
				return ""
			},
			unsettled: func(lp LeafPath) string {
				if lp.Path == ".FileContractRevisions[*].FileContract.Payout" {
					return "not transmitted: a v1 revision carries no payout (documented sentinel, C11 normalisation)"
				}
				return ""
			},
		},
		{
			name: "v2-semantics", prog: "types.(V2TransactionSemantics).EncodeTo", root: [2]string{"types", "V2Transaction"},
			excluded: func(lp LeafPath) string {
				switch {
				case parentRe.MatchString(lp.Path) && !strings.HasSuffix(lp.Path, ".Parent.ID"):
					return "parent element contents other than the ID"
				case strings.Contains(lp.Path, ".SatisfiedPolicy"):
					return "v2 input witnesses"
				case strings.Contains(lp.Path, ".StateElement.MerkleProof"):
					return "Merkle proofs"
				case strings.HasSuffix(lp.Path, ".StateElement.shared"):
					return "ownership marker, not content"
				case sigT != nil && types.Identical(lp.Type, sigT) && (strings.HasPrefix(lp.Path, ".FileContracts") || strings.HasPrefix(lp.Path, ".FileContractRevisions") || strings.HasPrefix(lp.Path, ".FileContractResolutions")):
					return "contract and renewal signatures"
				}
				return ""
			},
			unsettled: func(lp LeafPath) string {
				switch {
				case strings.HasPrefix(lp.Path, ".Attestations[*].Signature"):
					return "a signature the statement does not list"
				case strings.HasSuffix(lp.Path, ".(types.V2StorageProof).Proof[*]"), strings.HasSuffix(lp.Path, ".(types.V2StorageProof).Leaf"):
					return "both a Merkle proof and the content of the resolution"
				case strings.HasSuffix(lp.Path, ".ProofIndex.StateElement.LeafIndex"):
					return "accumulator position of the proof index (neither parent nor proof)"
				}
				return ""
			},
		},
	}
	for _, sp := range specs {
		wp := progs[sp.prog]
		root := p.NamedType(sp.root[0], sp.root[1])
		if wp == nil || root == nil {
			c.Undecided("exclusion-set", sp.name+":anchor", "", "anchor "+sp.prog+" or its root type does not resolve")
			continue
		}
		if len(wp.Opaque) > 0 {
			c.Undecided("exclusion-set", sp.name+":opaque", c.P.Pos(wp.Decl.Pos()), strings.Join(wp.Opaque, "; "))
			continue
		}
		committed := map[string]bool{}
		var notes []string
		committedPaths(p, progs, wp.Ops, "", "", 0, committed, &notes)
		expandDyn(p, progs, root, committed)
		zeroed := map[string]bool{}
		for _, z := range wp.Zeroed {
			zeroed[z] = true
		}
		where := c.P.Pos(wp.Decl.Pos())
		for _, lp := range p.LeafPaths(root, "") {
			isCommitted := false
			for cp := range committed {
				if lp.Path == cp || strings.HasPrefix(lp.Path, cp+".") || strings.HasPrefix(lp.Path, cp+"[") {
					isCommitted = true
				}
			}
			for z := range zeroed {
				if lp.Path == z || strings.HasPrefix(lp.Path, z+".") || strings.HasPrefix(lp.Path, z+"[") {
					isCommitted = false
				}
			}
			inst := sp.name + ":" + lp.Path
			if why := sp.unsettled(lp); why != "" {
				c.Info("exclusion-set", inst, where, fmt.Sprintf("not settled by the statement (%s); committed=%v", why, isCommitted))
				continue
			}
			if why := sp.excluded(lp); why != "" {
				c.Check(!isCommitted, "exclusion-set", inst, where, ifElse(!isCommitted, "excluded as stated: "+why, "the ID/sighash preimage includes "+lp.Path+" although the property excludes it ("+why+"): the ID changes when only that content changes"))
			} else {
				c.Check(isCommitted, "exclusion-set", inst, where, ifElse(isCommitted, "effect-bearing field reaches the preimage", "effect-bearing field "+lp.Path+" does not reach the ID/sighash preimage: it can be changed without changing the ID or invalidating signatures"))
			}
		}
	}
	c.Min("exclusion-set", 100)
}

// c12SigStripping: each v2 sighash over a whole object zeroes exactly the Signature-typed leaves of
// that object before hashing it.
func c12SigStripping(c *Ctx, progs map[string]*WireProg) {
	p := c.P
	sigT := p.NamedType("types", "Signature")
	for _, s := range []struct{ fn, typ string }{
		{"consensus.(State).ContractSigHash", "V2FileContract"},
		{"consensus.(State).RenewalSigHash", "V2FileContractRenewal"},
		{"consensus.(State).AttestationSigHash", "Attestation"},
	} {
		wp := progs[s.fn]
		root := p.NamedType("types", s.typ)
		if wp == nil || root == nil || sigT == nil {
			c.Undecided("sig-stripping", s.fn, "", "anchor does not resolve")
			continue
		}
		rootPath := "{types." + s.typ + "}"
		want := map[string]bool{}
		for _, lp := range p.LeafPaths(root, rootPath) {
			if types.Identical(lp.Type, sigT) {
				want[lp.Path] = true
			}
		}
		got := map[string]bool{}
		for _, z := range wp.Zeroed {
			got[z] = true
		}
		var miss, extra []string
		for k := range want {
			if !got[k] {
				miss = append(miss, k)
			}
		}
		for k := range got {
			if !want[k] {
				extra = append(extra, k)
			}
		}
		sort.Strings(miss)
		sort.Strings(extra)
		ok := len(miss) == 0 && len(extra) == 0
		c.Check(ok, "sig-stripping", s.fn, c.P.Pos(wp.Decl.Pos()), ifElse(ok, fmt.Sprintf("zeroes exactly the %d Signature leaves of %s", len(want), s.typ), fmt.Sprintf("signature leaves not zeroed before hashing: %v; non-signature content zeroed: %v", miss, extra)))
		// the hashed object must be the stripped parameter itself
		hashed := false
		for _, o := range wp.Ops {
			if o.Kind == "ref" && o.Path == rootPath {
				hashed = true
			}
		}
		c.Check(hashed, "sig-stripping", s.fn+":object", c.P.Pos(wp.Decl.Pos()), "the whole object is hashed after stripping")
	}
}

func c12ReplayPrefix(c *Ctx, progs map[string]*WireProg) {
	// v2: every program with a "sig/" distinguisher has dist, then u8 v2ReplayPrefix()
	n := 0
	for _, name := range sortedKeys(progs) {
		wp := progs[name]
		if relPkg(wp.Fn.Pkg()) != "consensus" {
			continue
		}
		for i, o := range wp.Ops {
			if o.Kind == "dist" && strings.HasPrefix(o.Typ, `"sig/`) {
				n++
				ok := i+1 < len(wp.Ops) && wp.Ops[i+1].Kind == "u8" && strings.Contains(wp.Ops[i+1].Path, "v2ReplayPrefix()")
				c.Check(ok, "replay-prefix", name, c.P.Pos(wp.Decl.Pos()), ifElse(ok, "purpose distinguisher "+o.Typ+" followed by the v2 replay prefix", "v2 signature hash "+o.Typ+" does not write the v2 replay prefix right after its distinguisher: signatures replay across eras"))
			}
		}
	}
	// the commitment leaf too
	// v1: in WholeSigHash and PartialSigHash, the loops over SiacoinInputs and SiafundInputs write replayPrefix() first
	for _, fn := range []string{"consensus.(State).WholeSigHash", "consensus.(State).PartialSigHash"} {
		wp := progs[fn]
		if wp == nil {
			c.Undecided("replay-prefix", fn, "", "anchor does not resolve")
			continue
		}
		for _, field := range []string{"SiacoinInputs", "SiafundInputs"} {
			found, ok := false, false
			for _, o := range wp.Ops {
				if (o.Kind == "slice" || o.Kind == "loop") && strings.HasSuffix(stripSliceSuffix(o.Path), "."+field) {
					found = true
					if len(o.Sub) >= 2 && o.Sub[0].Kind == "raw" && strings.Contains(o.Sub[0].Path, "replayPrefix()") && o.Sub[1].Kind == "ref" {
						ok = true
					}
				}
			}
			c.Check(found && ok, "replay-prefix", fn+":"+field, c.P.Pos(wp.Decl.Pos()), ifElse(found && ok, "era replay prefix written before each "+field+" element", "the v1 signature hash does not write replayPrefix() before each element of "+field+": a signature covering only those inputs is valid in every era"))
		}
	}
	// replayPrefix itself: a case analysis on the fork heights returning distinct constants
	c.Min("replay-prefix", 8)
	_ = n
}

// c12DomainSeparation: all (distinguisher | specifier, following constant discriminators) tuples distinct.
func c12DomainSeparation(c *Ctx, progs map[string]*WireProg) {
	type tup struct{ key, fn, where string }
	var tups []tup
	for _, name := range sortedKeys(progs) {
		wp := progs[name]
		pk := relPkg(wp.Fn.Pkg())
		if pk != "types" && pk != "consensus" {
			continue
		}
		ops := wp.Ops
		for i, o := range ops {
			isDist := o.Kind == "dist"
			isSpec := o.Kind == "ref" && o.Typ == "types.Specifier" && strings.HasPrefix(o.Path, "types.Specifier")
			if !isDist && !isSpec {
				continue
			}
			if isDist && !strings.HasPrefix(o.Typ, `"`) {
				if name != "types.hashAll" && name != "consensus.hashAll" && name != "types.(*Hasher).WriteDistinguisher" {
					c.Fail("domain-separation", name+":non-constant", c.P.Pos(wp.Decl.Pos()), "distinguisher is not a compile-time constant: "+o.Typ)
				}
				continue
			}
			key := o.Typ
			if isSpec {
				key = o.Path
			}
			// the shape of what follows is part of the domain (kinds only)
			var shape []string
			for _, f := range ops[i+1:] {
				if f.Kind == "sum" || f.Kind == "reset" {
					break
				}
				k := f.Kind
				if f.Kind == "ref" {
					k = f.Typ
				}
				if f.Kind == "const" {
					k = "const(" + f.Typ + ")"
				}
				shape = append(shape, k)
			}
			tups = append(tups, tup{key + " " + strings.Join(shape, ","), name, c.P.Pos(wp.Decl.Pos())})
		}
	}
	seen := map[string]tup{}
	for _, t := range tups {
		if prev, dup := seen[t.key]; dup && prev.fn != t.fn {
			// two copies of the same leaf function in two packages are siblings, not a collision
			if sameLeafSibling(prev.fn, t.fn) {
				c.OK("domain-separation", t.fn, t.where, "sibling copy of "+prev.fn+" ("+t.key+")")
				continue
			}
			c.Fail("domain-separation", t.fn, t.where, fmt.Sprintf("derivation %s uses the same (distinguisher, argument shape) %q as %s: two kinds of derived ID/hash can coincide", t.fn, t.key, prev.fn))
			continue
		}
		seen[t.key] = t
		c.OK("domain-separation", t.fn, t.where, "unique domain "+t.key)
	}
	c.Min("domain-separation", 20)
}

func sameLeafSibling(a, b string) bool {
	ai, bi := strings.LastIndex(a, "."), strings.LastIndex(b, ".")
	return ai > 0 && bi > 0 && a[ai:] == b[bi:] && a[:ai] != b[:bi] && strings.HasSuffix(a, "Leaf")
}

// c12BlockBinding: Header() takes its commitment from the full v1 Merkle root or the v2 commitment;
// State.Commitment commits the state leaf then every transaction's full leaf hash. (The
// ValidateBlock guards are decided by the guard engine; see c12Guards in guardrules.go.)
func c12BlockBinding(c *Ctx, progs map[string]*WireProg) {
	for _, fn := range []string{"types.(*Transaction).MerkleLeafHash", "types.(*V2Transaction).MerkleLeafHash", "types.(*Transaction).FullHash", "types.(*V2Transaction).FullHash"} {
		wp := progs[fn]
		if wp == nil {
			c.Undecided("block-binding", fn, "", "anchor does not resolve")
			continue
		}
		full := false
		for _, o := range wp.Ops {
			if o.Kind == "ref" && o.Path == "" && (o.Typ == "types.Transaction" || o.Typ == "types.V2Transaction") {
				full = true
			}
		}
		c.Check(full, "block-binding", fn, c.P.Pos(wp.Decl.Pos()), ifElse(full, "hashes the full encoding (signatures and proofs included)", "leaf/full hash no longer hashes the complete transaction encoding: block content can change without changing the commitment"))
	}
	if wp := progs["types.blockMerkleRoot"]; wp != nil {
		s := renderOps(wp.Ops, true)
		ok := strings.Contains(s, "ref(types.V1SiacoinOutput) {[]types.SiacoinOutput}[*]") && strings.Contains(s, "ref(types.Transaction) {[]types.Transaction}[*]")
		c.Check(ok, "block-binding", "types.blockMerkleRoot", c.P.Pos(wp.Decl.Pos()), "v1 Merkle root covers every miner payout and every transaction's full encoding")
	} else {
		c.Undecided("block-binding", "types.blockMerkleRoot", "", "anchor does not resolve")
	}
	if wp := progs["consensus.(State).MerkleLeafHash"]; wp != nil {
		s := renderOps(wp.Ops, true)
		ok := strings.Contains(s, "ref(consensus.State)") && strings.Contains(s, `dist("commitment")`) && strings.Contains(s, "ref(types.Address) {types.Address}") && strings.Contains(s, "v2ReplayPrefix()")
		c.Check(ok, "block-binding", "consensus.(State).MerkleLeafHash", c.P.Pos(wp.Decl.Pos()), "commitment leaf binds the encoded parent state, the replay prefix and the miner address")
	} else {
		c.Undecided("block-binding", "consensus.(State).MerkleLeafHash", "", "anchor does not resolve")
	}
}

func containsSkip(ops []Op) bool {
	for _, o := range ops {
		if o.Kind == "skip" || containsSkip(o.Sub) {
			return true
		}
		for _, c := range o.Cases {
			if containsSkip(c.Ops) {
				return true
			}
		}
	}
	return false
}
