package main

// E6 (direct form): writes through memory reachable from the parameters of an entry point.
// Every store, copy destination, map update and known external writer reachable from the entry
// (module calls followed with parameter substitution) is classified by the root of its target
// address: a parameter of the entry (input memory), fresh memory, or MidState/global memory.

import (
	"go/token"
	"go/types"
	"strings"

	"golang.org/x/tools/go/ssa"
)

type InputWrite struct {
	Fact   CallFact
	Target string
	Root   string
	Why    string
}

// targetRoots unwraps append(...) and phi(...) to the alternative roots of a target atom.
func targetRoots(t string) []string {
	t = strings.TrimPrefix(t, "*")
	switch {
	case strings.HasPrefix(t, "ptrs("):
		if end := strings.LastIndex(t, ")"); end > 0 {
			var out []string
			for _, alt := range splitTop(t[5:end], '|') {
				out = append(out, targetRoots(alt)...)
			}
			return out
		}
	case strings.HasPrefix(t, "phi(") && strings.HasSuffix(t, ")"):
		// phi may carry a suffix (index); find the matching paren
		depth := 0
		end := -1
		for i := 0; i < len(t); i++ {
			if t[i] == '(' {
				depth++
			} else if t[i] == ')' {
				depth--
				if depth == 0 {
					end = i
					break
				}
			}
		}
		if end > 0 {
			var out []string
			for _, alt := range splitTop(t[4:end], '|') {
				out = append(out, targetRoots(alt+t[end+1:])...)
			}
			return out
		}
	case strings.HasPrefix(t, "append("):
		depth := 0
		end := -1
		for i := 0; i < len(t); i++ {
			if t[i] == '(' {
				depth++
			} else if t[i] == ')' {
				depth--
				if depth == 0 {
					end = i
					break
				}
			}
		}
		if end > 0 {
			args := splitTop(t[7:end], ',')
			if len(args) > 0 {
				first := strings.TrimSpace(args[0])
				if first == "nil" || first == "zero" {
					return []string{"fresh(append)"}
				}
				return targetRoots(first + t[end+1:])
			}
		}
	}
	return []string{t}
}

// InputWrites lists the writes reachable from fn whose target is rooted at one of fn's parameters
// through a reference (slice element, pointer target, map), or at a pointer/slice/map parameter.
func (ge *GuardEngine) InputWrites(fn *ssa.Function) []InputWrite {
	ge.pv.CopyIsFresh = true
	defer func() { ge.pv.CopyIsFresh = false }()
	facts := ge.Calls(fn, nil, nil, nil, 0, map[*ssa.Function]int{})
	refParam := map[string]bool{}
	for _, prm := range fn.Params {
		switch prm.Type().Underlying().(type) {
		case *types.Pointer, *types.Slice, *types.Map:
			refParam[paramName(prm)] = true
		default:
			refParam[paramName(prm)] = false
		}
	}
	var out []InputWrite
	for _, f := range facts {
		if f.Name != "store" && f.Name != "write" && f.Name != "mapupdate" {
			continue
		}
		t := f.Args[0]
		rootAtom := f.Root
		if rootAtom == "" {
			rootAtom = t
		}
		for _, r := range targetRoots(rootAtom) {
			if strings.HasPrefix(r, "local:") {
				continue
			}
			if !strings.HasPrefix(r, "{") {
				continue
			}
			i := strings.Index(r, "}")
			if i < 0 {
				continue
			}
			root, rest := r[:i+1], r[i+1:]
			isRef, known := refParam[root]
			if !known {
				continue
			}
			_ = rest
			through := true // roots are provenances of reference values: the write goes through that reference
			if isRef || through {
				why := "through a slice/pointer/map reachable from the by-value parameter"
				if isRef {
					why = "through the pointer/slice/map parameter"
				}
				out = append(out, InputWrite{f, t, root, why})
			}
		}
	}
	return out
}

// writeRoot identifies the memory object an address points into: "local…" for the function's own
// stack objects (including by-value copies of parameters, arrays included), otherwise the provenance
// of the reference value (pointer / slice / map) the address goes through.
func (ge *GuardEngine) writeRoot(addr ssa.Value, env *Env) string {
	for i := 0; i < 64; i++ {
		switch a := ge.pv.resolve(addr).(type) {
		case *ssa.Alloc:
			return "local:" + a.Comment
		case *ssa.FieldAddr:
			addr = a.X
			continue
		case *ssa.IndexAddr:
			if _, isPtr := a.X.Type().Underlying().(*types.Pointer); isPtr {
				addr = a.X // pointer to array: same object
				continue
			}
			return ge.sliceRoot(a.X, env)
		default:
			return ge.refRoot(addr, env)
		}
	}
	return "?"
}

// sliceRoot: the backing array a slice value refers to.
func (ge *GuardEngine) sliceRoot(v ssa.Value, env *Env) string {
	for {
		switch x := v.(type) {
		case *ssa.MakeInterface:
			v = x.X
			continue
		case *ssa.ChangeType:
			v = x.X
			continue
		case *ssa.Convert:
			v = x.X
			continue
		}
		break
	}
	if sl, ok := v.(*ssa.Slice); ok {
		if _, isPtr := sl.X.Type().Underlying().(*types.Pointer); isPtr {
			return ge.writeRoot(sl.X, env) // slicing an array in place
		}
		return ge.sliceRoot(sl.X, env)
	}
	// a slice held in a local variable: follow the values stored into it
	if ld, ok := v.(*ssa.UnOp); ok && ld.Op == token.MUL {
		if al, ok := ge.pv.resolve(ld.X).(*ssa.Alloc); ok && ge.rootDepth < 6 {
			ge.pv.loadCtx = append(ge.pv.loadCtx, ld)
			whole, _ := ge.pv.storesTo(al, -1)
			ge.pv.loadCtx = ge.pv.loadCtx[:len(ge.pv.loadCtx)-1]
			if len(whole) > 0 {
				ge.rootDepth++
				var rs []string
				for _, w := range whole {
					rs = append(rs, ge.sliceRoot(w, env))
				}
				ge.rootDepth--
				return joinAtoms(rs)
			}
		}
	}
	return ge.refRoot(v, env)
}

// refRoot: provenance of a reference value (pointer, slice, map).
func (ge *GuardEngine) refRoot(v ssa.Value, env *Env) string {
	if prm, ok := v.(*ssa.Parameter); ok && env != nil {
		if a, ok := env.params[prm]; ok {
			return a
		}
	}
	return ge.pv.Atom(v, env)
}

// pointerArrayRoots: for a slice taken from a local array of pointers, the memory objects the stored
// pointers point into.
func (ge *GuardEngine) pointerArrayRoots(v ssa.Value, env *Env) []string {
	sl, ok := v.(*ssa.Slice)
	if !ok {
		return nil
	}
	arr, ok := sl.X.(*ssa.Alloc)
	if !ok {
		return nil
	}
	set := map[string]bool{}
	for _, r := range *arr.Referrers() {
		ia, ok := r.(*ssa.IndexAddr)
		if !ok {
			continue
		}
		for _, rr := range *ia.Referrers() {
			if st, ok := rr.(*ssa.Store); ok && st.Addr == ia {
				set[ge.writeRoot(st.Val, env)] = true
			}
		}
	}
	return sortedKeys(set)
}
