package main

import (
	"math/big"
	"sort"
	"strings"
)

// Poly is a multivariate polynomial with integer coefficients. Keys are monomials:
// variable names joined by "*" in sorted order ("" is the constant monomial).
// It is the abstract domain of the limb-arithmetic rule (C15): every machine word is
// described by an exact polynomial over the input words and the carry/high-word/quotient
// symbols introduced by the math/bits intrinsics.
type Poly map[string]*big.Int

func pConst(n int64) Poly { return pBig(big.NewInt(n)) }
func pBig(n *big.Int) Poly {
	if n.Sign() == 0 {
		return Poly{}
	}
	return Poly{"": new(big.Int).Set(n)}
}
func pSym(name string) Poly { return Poly{name: big.NewInt(1)} }
func pPow2(k uint) Poly     { return pBig(new(big.Int).Lsh(big.NewInt(1), k)) }

func (p Poly) clone() Poly {
	q := Poly{}
	for k, v := range p {
		q[k] = new(big.Int).Set(v)
	}
	return q
}
func (p Poly) Add(q Poly) Poly {
	r := p.clone()
	for k, v := range q {
		if c, ok := r[k]; ok {
			c.Add(c, v)
			if c.Sign() == 0 {
				delete(r, k)
			}
		} else {
			r[k] = new(big.Int).Set(v)
		}
	}
	return r
}
func (p Poly) Neg() Poly {
	r := Poly{}
	for k, v := range p {
		r[k] = new(big.Int).Neg(v)
	}
	return r
}
func (p Poly) Sub(q Poly) Poly { return p.Add(q.Neg()) }
func mulMono(a, b string) string {
	if a == "" {
		return b
	}
	if b == "" {
		return a
	}
	vs := append(strings.Split(a, "*"), strings.Split(b, "*")...)
	sort.Strings(vs)
	return strings.Join(vs, "*")
}
func (p Poly) Mul(q Poly) Poly {
	r := Poly{}
	for k1, v1 := range p {
		for k2, v2 := range q {
			k := mulMono(k1, k2)
			t := new(big.Int).Mul(v1, v2)
			if c, ok := r[k]; ok {
				c.Add(c, t)
				if c.Sign() == 0 {
					delete(r, k)
				}
			} else if t.Sign() != 0 {
				r[k] = t
			}
		}
	}
	return r
}
func (p Poly) IsZero() bool { return len(p) == 0 }
func (p Poly) Equal(q Poly) bool {
	return p.Sub(q).IsZero()
}

// DivExact divides every coefficient by d; ok is false when one is not divisible.
func (p Poly) DivExact(d *big.Int) (Poly, bool) {
	r := Poly{}
	for k, v := range p {
		q, m := new(big.Int).QuoRem(v, d, new(big.Int))
		if m.Sign() != 0 {
			return nil, false
		}
		r[k] = q
	}
	return r, true
}

// AllPositive reports whether every coefficient is positive (with non-negative symbols the
// polynomial is then zero exactly when every monomial is).
func (p Poly) AllPositive() bool {
	for _, v := range p {
		if v.Sign() <= 0 {
			return false
		}
	}
	return true
}

// Supports returns the minimal variable sets of the monomials: for a positive-coefficient
// polynomial over non-negative symbols, p != 0 iff some support has all its variables non-zero.
func (p Poly) Supports() []string {
	set := map[string]bool{}
	for k := range p {
		vs := strings.Split(k, "*")
		sort.Strings(vs)
		var u []string
		for i, v := range vs {
			if i == 0 || v != vs[i-1] {
				u = append(u, v)
			}
		}
		set[strings.Join(u, "*")] = true
	}
	var all []string
	for k := range set {
		all = append(all, k)
	}
	sort.Strings(all)
	// drop supersets
	var out []string
	for _, a := range all {
		sup := false
		for _, b := range all {
			if a != b && subsetVars(b, a) {
				sup = true
			}
		}
		if !sup {
			out = append(out, a)
		}
	}
	return out
}
func subsetVars(a, b string) bool {
	if a == "" {
		return true
	}
	bs := map[string]bool{}
	for _, v := range strings.Split(b, "*") {
		bs[v] = true
	}
	for _, v := range strings.Split(a, "*") {
		if !bs[v] {
			return false
		}
	}
	return true
}

func (p Poly) String() string {
	if len(p) == 0 {
		return "0"
	}
	var ks []string
	for k := range p {
		ks = append(ks, k)
	}
	sort.Strings(ks)
	var sb strings.Builder
	for i, k := range ks {
		c := p[k]
		if i > 0 {
			if c.Sign() < 0 {
				sb.WriteString(" - ")
			} else {
				sb.WriteString(" + ")
			}
		} else if c.Sign() < 0 {
			sb.WriteString("-")
		}
		a := new(big.Int).Abs(c)
		cs := a.String()
		if a.BitLen() > 16 && a.BitLen()-1 == int(a.TrailingZeroBits()) {
			cs = "2^" + itoa(a.BitLen()-1)
		}
		switch {
		case k == "":
			sb.WriteString(cs)
		case a.Cmp(big.NewInt(1)) == 0:
			sb.WriteString(k)
		default:
			sb.WriteString(cs + "*" + k)
		}
	}
	return sb.String()
}

func itoa(n int) string { return big.NewInt(int64(n)).String() }

// ZeroVars: p with every variable of the set put to zero (monomials containing one of them vanish).
func (p Poly) ZeroVars(zero map[string]bool) Poly {
	if len(zero) == 0 {
		return p
	}
	r := Poly{}
	for k, v := range p {
		drop := false
		if k != "" {
			for _, x := range strings.Split(k, "*") {
				if zero[x] {
					drop = true
				}
			}
		}
		if !drop {
			r[k] = new(big.Int).Set(v)
		}
	}
	return r
}

// singleVar: p is exactly one variable with coefficient one.
func (p Poly) singleVar() (string, bool) {
	if len(p) != 1 {
		return "", false
	}
	for k, v := range p {
		if k != "" && !strings.Contains(k, "*") && v.Cmp(big.NewInt(1)) == 0 {
			return k, true
		}
	}
	return "", false
}
