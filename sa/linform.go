package main

// Linear forms over SSA integers within one function, with phi alternatives and their edge
// conditions, and a one/two-fact entailment test. Used for layout agreement rules (C19 frame):
// "the slice that is sealed ends at or after the encoded bytes" is a difference of two forms that
// is non-negative on every phi assignment, given the branch condition that selected it.
//
// This is not a solver: a goal G >= 0 is accepted iff G is a non-negative constant, or
// G = E + k (k >= 0) for one recorded fact E >= 0, or G = E1 + E2 + k for two of them.

import (
	"fmt"
	"go/constant"
	"go/token"
	"go/types"
	"sort"
	"strings"

	"golang.org/x/tools/go/ssa"
)

type LinF struct {
	T map[string]int64
	K int64
}

func newLin() LinF { return LinF{T: map[string]int64{}} }

func (l LinF) add(o LinF, k int64) LinF {
	r := newLin()
	for s, c := range l.T {
		r.T[s] = c
	}
	for s, c := range o.T {
		r.T[s] += c * k
		if r.T[s] == 0 {
			delete(r.T, s)
		}
	}
	r.K = l.K + o.K*k
	return r
}

func (l LinF) isConst() bool { return len(l.T) == 0 }

func (l LinF) String() string {
	var ks []string
	for s := range l.T {
		ks = append(ks, s)
	}
	sort.Strings(ks)
	var parts []string
	for _, s := range ks {
		switch c := l.T[s]; {
		case c == 1:
			parts = append(parts, "+"+s)
		case c == -1:
			parts = append(parts, "-"+s)
		default:
			parts = append(parts, fmt.Sprintf("%+d*%s", c, s))
		}
	}
	if l.K != 0 || len(parts) == 0 {
		parts = append(parts, fmt.Sprintf("%+d", l.K))
	}
	return strings.TrimPrefix(strings.Join(parts, " "), "+")
}

type linEval struct {
	ge     *GuardEngine
	choice map[ssa.Value]int
	phis   []ssa.Value          // phis and min/max calls met during evaluation (to enumerate assignments)
	calls  map[string]*ssa.Call // stateful calls used as symbols (buffer lengths)
	nonneg map[string]bool      // symbols known to be >= 0 (lengths, sizes)
}

// choiceKey: phis of one block are selected by the same incoming edge, so they share one choice point.
func choiceKey(v ssa.Value) ssa.Value {
	if p, ok := v.(*ssa.Phi); ok {
		for _, in := range p.Block().Instrs {
			if first, ok := in.(*ssa.Phi); ok {
				return first
			}
			break
		}
	}
	return v
}

func (le *linEval) note(v ssa.Value) {
	v = choiceKey(v)
	for _, p := range le.phis {
		if p == v {
			return
		}
	}
	le.phis = append(le.phis, v)
}

// arity and facts of a choice point
func choiceArity(v ssa.Value) int {
	switch x := v.(type) {
	case *ssa.Phi:
		return len(x.Edges)
	case *ssa.Call:
		return len(x.Call.Args)
	}
	return 1
}

func (le *linEval) choiceFacts(v ssa.Value, k int) []LinF {
	switch x := v.(type) {
	case *ssa.Phi:
		return le.edgeFacts(x.Block().Preds[k], x.Block())
	case *ssa.Call:
		b, _ := x.Call.Value.(*ssa.Builtin)
		if b == nil {
			return nil
		}
		var out []LinF
		chosen := le.form(x.Call.Args[k])
		for j, a := range x.Call.Args {
			if j == k {
				continue
			}
			if b.Name() == "max" {
				out = append(out, chosen.add(le.form(a), -1)) // chosen - other >= 0
			} else {
				out = append(out, le.form(a).add(chosen, -1))
			}
		}
		return out
	}
	return nil
}

func choiceDesc(v ssa.Value, k int) string {
	if p, ok := v.(*ssa.Phi); ok {
		return fmt.Sprintf("%s<-block%d", p.Name(), p.Block().Preds[k].Index)
	}
	return fmt.Sprintf("%s=arg%d", v.Name(), k)
}

func (le *linEval) sym(name string, nonneg bool) LinF {
	r := newLin()
	r.T[name] = 1
	if nonneg {
		le.nonneg[name] = true
	}
	return r
}

// bufLenSym: the symbol standing for the current length of a bytes.Buffer (Len() and len(Bytes())).
func (le *linEval) bufLenSym(recv ssa.Value, call *ssa.Call) LinF {
	name := "buflen(" + le.ge.pv.Atom(recv, nil) + ")"
	le.calls[name] = call
	return le.sym(name, true)
}

func (le *linEval) form(v ssa.Value) LinF {
	switch x := v.(type) {
	case *ssa.Const:
		if x.Value != nil && x.Value.Kind() == constant.Int {
			if n, ok := constant.Int64Val(x.Value); ok {
				return LinF{T: map[string]int64{}, K: n}
			}
		}
	case *ssa.Convert:
		if isIntegerType(x.X.Type()) && isIntegerType(x.Type()) {
			return le.form(x.X)
		}
	case *ssa.ChangeType:
		return le.form(x.X)
	case *ssa.BinOp:
		switch x.Op {
		case token.ADD:
			return le.form(x.X).add(le.form(x.Y), 1)
		case token.SUB:
			return le.form(x.X).add(le.form(x.Y), -1)
		case token.MUL:
			a, b := le.form(x.X), le.form(x.Y)
			if a.isConst() {
				return newLin().add(b, a.K)
			}
			if b.isConst() {
				return newLin().add(a, b.K)
			}
		}
	case *ssa.Phi:
		// a loop variable (a header phi with a back edge) is a symbol: the facts of the current iteration are about it
		if isLoopVar(x) {
			return le.sym("loopvar:"+x.Name(), nonNegLoopVar(x))
		}
		le.note(x)
		if i, ok := le.choice[choiceKey(x)]; ok && i < len(x.Edges) {
			return le.form(x.Edges[i])
		}
		return le.form(x.Edges[0])
	case *ssa.Call:
		if b, ok := x.Call.Value.(*ssa.Builtin); ok && b.Name() == "len" && len(x.Call.Args) == 1 {
			return le.lenForm(x.Call.Args[0])
		}
		// min/max: one of the arguments, chosen like a phi edge (the choice's facts say it is the extreme one)
		if b, ok := x.Call.Value.(*ssa.Builtin); ok && (b.Name() == "max" || b.Name() == "min") && len(x.Call.Args) > 0 {
			le.note(x)
			if i, ok := le.choice[x]; ok && i < len(x.Call.Args) {
				return le.form(x.Call.Args[i])
			}
			return le.form(x.Call.Args[0])
		}
		if f := x.Call.StaticCallee(); f != nil && f.String() == "(*bytes.Buffer).Len" && len(x.Call.Args) == 1 {
			return le.bufLenSym(x.Call.Args[0], x)
		}
	}
	return le.sym(le.ge.pv.Atom(v, nil), isUnsignedOrSize(v))
}

func isIntegerType(t types.Type) bool {
	b, ok := t.Underlying().(*types.Basic)
	return ok && b.Info()&types.IsInteger != 0
}

// isUnsignedOrSize: values that are never negative: unsigned integers and the size getters of cipher.AEAD.
func isUnsignedOrSize(v ssa.Value) bool {
	if b, ok := v.Type().Underlying().(*types.Basic); ok && b.Info()&types.IsUnsigned != 0 {
		return true
	}
	if c, ok := v.(*ssa.Call); ok && c.Call.IsInvoke() && c.Call.Method != nil {
		switch c.Call.Method.Name() {
		case "Overhead", "NonceSize", "Size", "BlockSize":
			return true
		}
	}
	return false
}

// lenForm: the length of a slice-typed value.
func (le *linEval) lenForm(v ssa.Value) LinF {
	switch x := v.(type) {
	case *ssa.Slice:
		var hi LinF
		if x.High != nil {
			hi = le.form(x.High)
		} else {
			hi = le.lenForm(x.X)
		}
		if x.Low != nil {
			return hi.add(le.form(x.Low), -1)
		}
		return hi
	case *ssa.MakeSlice:
		return le.form(x.Len)
	case *ssa.Call:
		if f := x.Call.StaticCallee(); f != nil && f.String() == "(*bytes.Buffer).Bytes" && len(x.Call.Args) == 1 {
			return le.bufLenSym(x.Call.Args[0], x)
		}
	case *ssa.Phi:
		if isLoopVar(x) {
			return le.sym("len(loopvar:"+x.Name()+")", true)
		}
		le.note(x)
		if i, ok := le.choice[choiceKey(x)]; ok && i < len(x.Edges) {
			return le.lenForm(x.Edges[i])
		}
		return le.lenForm(x.Edges[0])
	}
	if p, ok := v.Type().Underlying().(*types.Pointer); ok {
		if a, ok := p.Elem().Underlying().(*types.Array); ok {
			return LinF{T: map[string]int64{}, K: a.Len()}
		}
	}
	if a, ok := v.Type().Underlying().(*types.Array); ok {
		return LinF{T: map[string]int64{}, K: a.Len()}
	}
	return le.sym("len("+le.ge.pv.Atom(v, nil)+")", true)
}

// condFacts turns "cond is truth" into facts E >= 0.
func (le *linEval) condFacts(cond ssa.Value, truth bool) []LinF {
	bo, ok := cond.(*ssa.BinOp)
	if !ok || !isIntegerType(bo.X.Type()) {
		return nil
	}
	op := bo.Op
	if !truth {
		switch op {
		case token.LSS:
			op = token.GEQ
		case token.LEQ:
			op = token.GTR
		case token.GTR:
			op = token.LEQ
		case token.GEQ:
			op = token.LSS
		case token.EQL:
			op = token.NEQ
		case token.NEQ:
			op = token.EQL
		default:
			return nil
		}
	}
	a, b := le.form(bo.X), le.form(bo.Y)
	one := LinF{T: map[string]int64{}, K: 1}
	switch op {
	case token.LSS: // a < b : b - a - 1 >= 0
		return []LinF{b.add(a, -1).add(one, -1)}
	case token.LEQ:
		return []LinF{b.add(a, -1)}
	case token.GTR:
		return []LinF{a.add(b, -1).add(one, -1)}
	case token.GEQ:
		return []LinF{a.add(b, -1)}
	case token.EQL:
		return []LinF{a.add(b, -1), b.add(a, -1)}
	case token.NEQ:
		// x != 0 for an unsigned x: x >= 1
		if bb, ok := bo.X.Type().Underlying().(*types.Basic); ok && bb.Info()&types.IsUnsigned != 0 {
			if b.isConst() && b.K == 0 {
				return []LinF{a.add(one, -1)}
			}
			if a.isConst() && a.K == 0 {
				return []LinF{b.add(one, -1)}
			}
		}
	}
	return nil
}

// edgeFacts: conditions under which control reaches block b through predecessor p (walking up
// single-predecessor chains).
func (le *linEval) edgeFacts(p, b *ssa.BasicBlock) []LinF {
	var out []LinF
	cur := b
	for depth := 0; p != nil && depth < 8; depth++ {
		if len(p.Instrs) > 0 {
			if ifi, ok := p.Instrs[len(p.Instrs)-1].(*ssa.If); ok && len(p.Succs) == 2 && p.Succs[0] != p.Succs[1] {
				out = append(out, le.condFacts(ifi.Cond, p.Succs[0] == cur)...)
			}
		}
		if len(p.Preds) != 1 {
			break
		}
		cur, p = p, p.Preds[0]
	}
	return out
}

// domFacts: conditions established on every path to block b.
func (le *linEval) domFacts(b *ssa.BasicBlock) []LinF {
	var out []LinF
	for cur := b; cur != nil; cur = cur.Idom() {
		d := cur.Idom()
		if d == nil || len(d.Instrs) == 0 {
			break
		}
		ifi, ok := d.Instrs[len(d.Instrs)-1].(*ssa.If)
		if !ok || len(d.Succs) != 2 {
			continue
		}
		if edgeDominates(d, 0, cur) {
			out = append(out, le.condFacts(ifi.Cond, true)...)
		} else if edgeDominates(d, 1, cur) {
			out = append(out, le.condFacts(ifi.Cond, false)...)
		}
	}
	return out
}

type LinTerm struct {
	V    ssa.Value
	Len  bool // use the length of V
	Coef int64
}

// LinGoal: sum(terms) + K, to be shown >= 0 (or == 0 when Eq) at block At, on every phi assignment.
type LinGoal struct {
	Terms []LinTerm
	K     int64
	Eq    bool
	At    *ssa.BasicBlock
	Extra []LinF // further facts known to hold (established invariants)
}

type LinResult struct {
	OK    bool
	Why   string               // failing assignment and residual form
	Forms []string             // goal form per assignment
	Calls map[string]*ssa.Call // stateful symbols used
}

func (ge *GuardEngine) LinProve(g LinGoal) LinResult {
	res := LinResult{OK: true, Calls: map[string]*ssa.Call{}}
	// discover phis
	le := &linEval{ge: ge, choice: map[ssa.Value]int{}, calls: map[string]*ssa.Call{}, nonneg: map[string]bool{}}
	evalGoal := func(le *linEval) LinF {
		sum := LinF{T: map[string]int64{}, K: g.K}
		for _, t := range g.Terms {
			if t.Len {
				sum = sum.add(le.lenForm(t.V), t.Coef)
			} else {
				sum = sum.add(le.form(t.V), t.Coef)
			}
		}
		return sum
	}
	// iterate: evaluating under an assignment may reveal further phis
	for i := 0; i < 4; i++ {
		n := len(le.phis)
		evalGoal(le)
		for _, p := range le.phis {
			if _, ok := le.choice[p]; !ok {
				le.choice[p] = 0
			}
		}
		if len(le.phis) == n {
			break
		}
	}
	phis := le.phis
	if len(phis) > 6 {
		return LinResult{OK: false, Why: "too many phi nodes in the compared values"}
	}
	total := 1
	for _, p := range phis {
		total *= choiceArity(p)
	}
	if total > 256 {
		return LinResult{OK: false, Why: "too many phi assignments"}
	}
	for a := 0; a < total; a++ {
		e := &linEval{ge: ge, choice: map[ssa.Value]int{}, calls: map[string]*ssa.Call{}, nonneg: map[string]bool{}}
		e.phis = append(e.phis, phis...)
		rem := a
		var desc []string
		for _, p := range phis {
			k := rem % choiceArity(p)
			rem /= choiceArity(p)
			e.choice[p] = k
			desc = append(desc, choiceDesc(p, k))
		}
		goal := evalGoal(e)
		var facts []LinF
		for _, p := range phis {
			facts = append(facts, e.choiceFacts(p, e.choice[p])...)
		}
		if g.At != nil {
			facts = append(facts, e.domFacts(g.At)...)
		}
		facts = append(facts, g.Extra...)
		for s := range e.nonneg {
			f := newLin()
			f.T[s] = 1
			facts = append(facts, f)
		}
		for n, c := range e.calls {
			res.Calls[n] = c
		}
		// an assignment whose own facts are contradictory is infeasible
		if linInfeasible(facts) {
			continue
		}
		res.Forms = append(res.Forms, strings.Join(desc, ",")+": "+goal.String())
		ok := linEntails(goal, facts)
		if ok && g.Eq {
			ok = linEntails(newLin().add(goal, -1), facts)
		}
		if !ok {
			res.OK = false
			rel := ">= 0"
			if g.Eq {
				rel = "== 0"
			}
			res.Why = fmt.Sprintf("on the path %s the value %s is not shown %s", strings.Join(desc, ","), goal.String(), rel)
			return res
		}
	}
	return res
}

func linEntails(goal LinF, facts []LinF) bool {
	if goal.isConst() {
		return goal.K >= 0
	}
	for _, f := range facts {
		if d := goal.add(f, -1); d.isConst() && d.K >= 0 {
			return true
		}
	}
	for i, f1 := range facts {
		for _, f2 := range facts[i:] {
			if d := goal.add(f1, -1).add(f2, -1); d.isConst() && d.K >= 0 {
				return true
			}
		}
	}
	return false
}

// linInfeasible: two facts E1 >= 0 and E2 >= 0 with E1 + E2 a negative constant.
func linInfeasible(facts []LinF) bool {
	for i, f1 := range facts {
		if f1.isConst() && f1.K < 0 {
			return true
		}
		for _, f2 := range facts[i+1:] {
			if d := f1.add(f2, 1); d.isConst() && d.K < 0 {
				return true
			}
		}
	}
	return false
}

func isLoopVar(p *ssa.Phi) bool {
	b := p.Block()
	for _, pr := range b.Preds {
		if b.Dominates(pr) {
			return true
		}
	}
	return false
}

// nonNegLoopVar: starts at a non-negative constant and every back edge adds a non-negative constant (or keeps it).
func nonNegLoopVar(p *ssa.Phi) bool {
	if b, ok := p.Type().Underlying().(*types.Basic); ok && b.Info()&types.IsUnsigned != 0 {
		return true
	}
	blk := p.Block()
	var ok func(v ssa.Value, depth int) bool
	ok = func(v ssa.Value, depth int) bool {
		if depth > 4 {
			return false
		}
		switch x := v.(type) {
		case *ssa.Const:
			if x.Value != nil && x.Value.Kind() == constant.Int {
				n, exact := constant.Int64Val(x.Value)
				return exact && n >= 0
			}
		case *ssa.Phi:
			if x == p {
				return true
			}
			for _, e := range x.Edges {
				if !ok(e, depth+1) {
					return false
				}
			}
			return len(x.Edges) > 0
		case *ssa.BinOp:
			if x.Op == token.ADD {
				return ok(x.X, depth+1) && ok(x.Y, depth+1)
			}
		}
		return false
	}
	for i, e := range p.Edges {
		_ = blk.Preds[i]
		if !ok(e, 0) {
			return false
		}
	}
	return true
}
