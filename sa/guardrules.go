package main

import (
	"regexp"
	"strings"

	"golang.org/x/tools/go/ssa"
)

// pattern DSL for guard tables: text is literal, "…" matches anything, %NAME% are macros.
var patMacros = map[string]string{
	"%CH%":  `call \(consensus\.State\)\.childHeight\((\{consensus\.MidState\}\.base|\{consensus\.State\})\)`,
	"%PH%":  `(\{consensus\.MidState\}\.base|\{consensus\.State\})\.Index\.Height`,
	"%ST%":  `(\{consensus\.MidState\}\.base|\{consensus\.State\})`,
	"%NET%": `(\{consensus\.MidState\}\.base|\{consensus\.State\})\.Network`,
	"%T1%":  `\{types\.Transaction\}`,
	"%T2%":  `\{types\.V2Transaction\}`,
	"%MS%":  `\{consensus\.MidState\}`,
	"%ID%":  `[A-Za-z0-9_]+`,
}

func pat(s string) string {
	q := regexp.QuoteMeta(s)
	q = strings.ReplaceAll(q, "…", ".*")
	for k, v := range patMacros {
		q = strings.ReplaceAll(q, k, v)
	}
	return "^" + q + "$"
}

func pats(ss ...string) []string {
	out := make([]string, len(ss))
	for i, s := range ss {
		out[i] = pat(s)
	}
	return out
}

func req(id, entry, l string, ops []string, r string, clause string, ctx ...string) GuardReq {
	return GuardReq{ID: id, Entry: entry, L: pat(l), Ops: ops, R: pat(r), Clause: clause, Ctx: pats(ctx...)}
}

var (
	opGT = []string{">"}
	opGE = []string{">="}
	opLT = []string{"<"}
	opLE = []string{"<="}
	opNE = []string{"!="}
	opEQ = []string{"=="}
	opT  = []string{"true"}
	opF  = []string{"false"}
)

const (
	VT  = "consensus.ValidateTransaction"
	V2T = "consensus.ValidateV2Transaction"
	VB  = "consensus.ValidateBlock"
)

// runGuardTable evaluates a table; guards per entry are computed once.
func runGuardTable(c *Ctx, rule string, ge *GuardEngine, table []GuardReq) {
	cache := map[string][]Guard{}
	for _, r := range table {
		key := r.Entry
		if r.All {
			key = "all:" + r.Entry
		}
		gs, ok := cache[key]
		if !ok {
			var found bool
			if r.All {
				if fn := ge.p.Func(r.Entry); fn != nil {
					gs, found = ge.AllGuards(fn, nil, 0, map[*ssa.Function]bool{}), true
				}
			} else {
				gs, found = ge.EntryGuards(r.Entry)
			}
			if !found {
				c.Undecided(rule, r.ID, r.Entry, "entry point "+r.Entry+" does not resolve")
				continue
			}
			cache[key] = gs
			fns := map[string]bool{}
			for _, g := range gs {
				fns[FuncName(g.Fn)] = true
			}
			for f := range fns {
				c.NoteFunc(f)
			}
			c.NoteCallSites(len(gs))
		}
		ge.CheckReq(c, rule, r, gs)
	}
}

// notSpentPat: "the element with ID <x> is not in the block's spent set", in any of the spellings the MidState
// offers (isSpent, the two-result spent, a direct lookup).
func notSpentPat(x string) string {
	return "(?:" + pat("call (consensus.MidState).isSpent("+x+") is false") + "|" + pat("call (consensus.MidState).spent("+x+")#1 is false") + "|" + pat("ok:%MS%.spends["+x+"] is false") + ")"
}
