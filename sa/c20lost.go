package main

// A decoder that hands the destination to a helper BY VALUE loses what the helper stores: the helper fills its own
// copy. Decided for every function reachable (static calls, two levels) from an UnmarshalJSON / UnmarshalText
// method: a by-value array or struct parameter that is stored into (element or field stores through its spill
// slot) and never read back, returned or passed on afterwards is a lost update.

import (
	"go/types"
	"strings"

	"golang.org/x/tools/go/ssa"
)

// deadParamStores: descriptions of by-value aggregate parameters of fn that are only written.
func deadParamStores(fn *ssa.Function) []string {
	var out []string
	for _, prm := range fn.Params {
		switch prm.Type().Underlying().(type) {
		case *types.Array, *types.Struct:
		default:
			continue
		}
		var spill *ssa.Alloc
		otherUse := false
		for _, r := range *prm.Referrers() {
			if st, ok := r.(*ssa.Store); ok && st.Val == ssa.Value(prm) {
				if al, isAl := st.Addr.(*ssa.Alloc); isAl {
					spill = al
					continue
				}
			}
			if _, isDbg := r.(*ssa.DebugRef); !isDbg {
				otherUse = true
			}
		}
		if spill == nil || otherUse {
			continue
		}
		stores, reads := 0, 0
		var walk func(addr ssa.Value, depth int)
		walk = func(addr ssa.Value, depth int) {
			if depth > 4 {
				reads++
				return
			}
			for _, r := range *addr.Referrers() {
				switch x := r.(type) {
				case *ssa.Store:
					if x.Addr == addr {
						if addr != ssa.Value(spill) {
							stores++
						}
					} else {
						reads++ // the address itself escapes
					}
				case *ssa.IndexAddr:
					walk(x, depth+1)
				case *ssa.FieldAddr:
					walk(x, depth+1)
				case *ssa.DebugRef:
				default:
					reads++ // loads, calls, slicing, ...
				}
			}
		}
		walk(spill, 0)
		if stores > 0 && reads == 0 {
			out = append(out, prm.Name()+" ("+typeName(prm.Type())+")")
		}
	}
	return out
}

func c20LostUpdates(c *Ctx) {
	const rule = "lost-update"
	seen := map[*ssa.Function]bool{}
	var work []*ssa.Function
	for _, fn := range SortedFuncs(c.P.AllFuncs()) {
		if !c.P.InModule(fn) || fn.Synthetic != "" || len(fn.Blocks) == 0 {
			continue
		}
		if fn.Name() == "UnmarshalJSON" || fn.Name() == "UnmarshalText" {
			work = append(work, fn)
			seen[fn] = true
		}
	}
	roots := len(work)
	for depth := 0; depth < 2; depth++ {
		var next []*ssa.Function
		for _, fn := range work {
			for _, b := range fn.Blocks {
				for _, in := range b.Instrs {
					if call, ok := in.(ssa.CallInstruction); ok {
						if g := call.Common().StaticCallee(); g != nil && c.P.InModule(g) && len(g.Blocks) > 0 && !seen[g] {
							seen[g] = true
							next = append(next, g)
						}
					}
				}
			}
		}
		work = next
	}
	bad := 0
	for _, fn := range SortedFuncs(seen) {
		if ds := deadParamStores(fn); len(ds) > 0 {
			bad++
			c.Fail(rule, FuncName(fn), c.P.Pos(fn.Pos()), "stores into its by-value parameter "+strings.Join(ds, ", ")+" and never reads it back: the decoder's caller keeps the old value, the decoded data is lost")
		}
	}
	c.Check(roots >= 20, rule, "inventory", "", ifElse(roots >= 20, "text/JSON decoders and their helpers examined for stores into by-value parameters", "fewer Unmarshal methods than confirmed by hand"))
	_ = bad
}
