package main

// The policy printer writes a list as "[" elements separated by "," "]" — including the empty list, which a
// threshold of nothing and unlock conditions without keys both print. The parser reads it back only if it looks
// for the closing bracket BEFORE it commits to parsing an element, on every turn of the list loop. Decided on the
// CFG of ParseSpendPolicy and its closures: in every loop that contains an element parse (a call of a closure
// returning a SpendPolicy or an UnlockKey, or of a function-typed parameter), the call is dominated, inside the
// loop, by the continuing side of a comparison of a look-ahead byte with ']'.

import (
	"fmt"
	"go/constant"
	"go/token"
	"go/types"

	"golang.org/x/tools/go/ssa"
)

func allAnon(fn *ssa.Function) []*ssa.Function {
	out := []*ssa.Function{fn}
	for _, a := range fn.AnonFuncs {
		out = append(out, allAnon(a)...)
	}
	return out
}

func c20ListGrammar(c *Ctx, ge *GuardEngine) {
	const rule = "list-grammar"
	root := c.P.Func("types.ParseSpendPolicy")
	if root == nil {
		c.Undecided(rule, "anchor", "", "types.ParseSpendPolicy does not resolve")
		return
	}
	isElemCall := func(call *ssa.Call) bool {
		if call.Call.IsInvoke() {
			return false
		}
		sig, ok := call.Call.Value.Type().Underlying().(*types.Signature)
		if !ok {
			return false
		}
		if _, isParam := call.Call.Value.(*ssa.Parameter); isParam && sig.Params().Len() == 0 {
			return true // parseElem callback
		}
		if _, isBuiltin := call.Call.Value.(*ssa.Builtin); isBuiltin {
			return false
		}
		if call.Call.StaticCallee() != nil && call.Call.StaticCallee().Parent() == nil {
			return false // a named function, not one of the parser's closures
		}
		if sig.Results().Len() >= 1 {
			switch typeName(sig.Results().At(0).Type()) {
			case "types.SpendPolicy", "types.UnlockKey":
				return true
			}
		}
		return false
	}
	isBracketTest := func(d *ssa.BasicBlock) (stay int, ok bool) {
		if len(d.Instrs) == 0 {
			return 0, false
		}
		ifi, isIf := d.Instrs[len(d.Instrs)-1].(*ssa.If)
		if !isIf {
			return 0, false
		}
		bo, isBin := ifi.Cond.(*ssa.BinOp)
		if !isBin || (bo.Op != token.NEQ && bo.Op != token.EQL) {
			return 0, false
		}
		for _, pair := range [][2]ssa.Value{{bo.X, bo.Y}, {bo.Y, bo.X}} {
			k, isK := pair[1].(*ssa.Const)
			if !isK || k.Value == nil || k.Value.Kind() != constant.Int {
				continue
			}
			if v, exact := constant.Int64Val(k.Value); !exact || v != ']' {
				continue
			}
			if bt, isB := pair[0].Type().Underlying().(*types.Basic); !isB || bt.Kind() != types.Uint8 {
				continue
			}
			if bo.Op == token.NEQ {
				return 0, true
			}
			return 1, true
		}
		return 0, false
	}
	n := 0
	for _, fn := range allAnon(root) {
		fi := ge.info(fn)
		for _, b := range fn.Blocks {
			for _, in := range b.Instrs {
				call, ok := in.(*ssa.Call)
				if !ok || !isElemCall(call) || len(fi.loopsOf[b]) == 0 {
					continue
				}
				// innermost loop containing the call
				var body map[*ssa.BasicBlock]bool
				for _, h := range fi.loopsOf[b] {
					if body == nil || len(fi.loopBody[h]) < len(body) {
						body = fi.loopBody[h]
					}
				}
				guarded := false
				for cur := b; cur != nil && !guarded; cur = cur.Idom() {
					d := cur.Idom()
					if d == nil || !body[d] {
						break
					}
					if stay, isT := isBracketTest(d); isT && edgeDominates(d, stay, cur) {
						guarded = true
					}
				}
				n++
				c.Check(guarded, rule, fmt.Sprintf("%s:element-parse#%d", FuncName(fn), n), c.P.Pos(call.Pos()), ifElse(guarded, "an element is parsed only after the look-ahead was compared with ']' on this turn of the loop", "an element is parsed without first looking for ']': the empty list the printer writes (\"[]\") no longer parses, and a list is never recognised as finished before an element was attempted"))
			}
		}
		c.NoteFunc(FuncName(fn))
	}
	c.Check(n >= 1, rule, "inventory", c.P.Pos(root.Pos()), ifElse(n >= 1, "list loops with element parses found", "no list loop with an element parse found in ParseSpendPolicy: the grammar is spelled in a way this rule does not read"))
}
