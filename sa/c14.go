package main

import (
	"go/token"
	"go/types"
	"regexp"
	"strings"

	"golang.org/x/tools/go/ssa"
)

func init() { register("C14", runC14) }

const VERIFY = "types.(SpendPolicy).Verify"

func c14Table() []GuardReq {
	P := "{types.SpendPolicy}.Type"
	var t []GuardReq
	add := func(r GuardReq) { t = append(t, r) }
	add(req("height-lock", VERIFY, "{uint64}", opLT, P+".(types.PolicyTypeAbove)", "a height lock is satisfied iff height >= N"))
	add(req("time-lock", VERIFY, "call (time.Time).After({time.Time}, "+P+".(types.PolicyTypeAfter))", opF, "", "a time lock is satisfied iff the median time is after T"))
	add(req("key-leaf-needs-signature", VERIFY, "call via closure %ID%$%ID%()#1", opF, "", "a public-key leaf consumes one signature; none left means rejection", "ok:"+P+".(types.PolicyTypePublicKey) is true"))
	add(req("key-leaf-verifies", VERIFY, "call (types.PublicKey).VerifyHash("+P+".(types.PolicyTypePublicKey), {types.Hash256}, call via closure %ID%$%ID%()#0)", opF, "", "the consumed signature must verify against the leaf's key and the signature hash"))
	add(req("hash-leaf-needs-preimage", VERIFY, "call via closure %ID%$%ID%()#1", opF, "", "a hash leaf consumes one preimage; none left means rejection", "ok:"+P+".(types.PolicyTypeHash) is true"))
	add(req("hash-leaf-matches", VERIFY, P+".(types.PolicyTypeHash)", opNE, "call crypto/sha256.Sum256(call via closure %ID%$%ID%()#0)", "the consumed preimage must hash to the leaf"))
	add(req("threshold-complexity-total", VERIFY, "(… + len("+P+".(types.PolicyTypeThreshold).Of))", opGT, "const:1024", "complexity limits reject rather than hang"))
	add(req("threshold-complexity-breadth", VERIFY, "len("+P+".(types.PolicyTypeThreshold).Of)", opGT, "const:255", "a threshold has at most 255 children"))
	add(req("threshold-no-uc-child", VERIFY, "ok:"+P+".(types.PolicyTypeThreshold).Of[*].Type.(types.PolicyTypeUnlockConditions)", opT, "", "legacy unlock conditions cannot be a threshold child"))
	add(req("threshold-not-exceeded", VERIFY, "idx", opEQ, P+".(types.PolicyTypeThreshold).N", "revealing more satisfied sub-policies than required is rejected (exactly N)", "ok:"+P+".(types.PolicyTypeThreshold).Of[*].Type.(types.PolicyTypeOpaque) is false"))
	add(req("threshold-reached", VERIFY, "idx", opNE, P+".(types.PolicyTypeThreshold).N", "fewer satisfied sub-policies than required is rejected"))
	add(req("threshold-child-verified", VERIFY, "call via closure %ID%$%ID%("+P+".(types.PolicyTypeThreshold).Of[*])", opNE, "nil", "every revealed child must itself be satisfied", "ok:"+P+".(types.PolicyTypeThreshold).Of[*].Type.(types.PolicyTypeOpaque) is false", "idx != "+P+".(types.PolicyTypeThreshold).N"))
	add(req("opaque-unsatisfiable", VERIFY, "ok:"+P+".(types.PolicyTypeOpaque)", opT, "", "an opaque policy at a verified position is unusable"))
	add(req("uc-timelock", VERIFY, "call via closure %ID%$%ID%(call types.PolicyAbove("+P+".(types.PolicyTypeUnlockConditions).Timelock))", opNE, "nil", "legacy unlock conditions enforce their timelock as a height lock"))
	r := req("uc-entropy-key", VERIFY, P+".(types.PolicyTypeUnlockConditions).PublicKeys[*].Algorithm", opEQ, "global types.SpecifierEntropy", "entropy keys can never sign")
	r.While = []string{"(?:" + pat("phi(…"+P+".(types.PolicyTypeUnlockConditions).SignaturesRequired…) != const:0") + "|" + pat("phi(…"+P+".(types.PolicyTypeUnlockConditions).SignaturesRequired…) > const:0") + ")"} // a key the walk no longer needs is not looked at: an entropy key after the satisfying ones does not make the policy unspendable
	r.LoopExitOK = true                                                                                                                                                                                                // the key walk stops once enough signatures were counted or too few keys/signatures remain
	add(r)
	add(req("uc-required-count", VERIFY, "phi(…"+P+".(types.PolicyTypeUnlockConditions).SignaturesRequired…)", opNE, "const:0", "the required count of distinct listed keys must be reached"))
	add(req("no-leftover-signatures", VERIFY, "len({[]types.Signature})", opGT, "const:0", "no signature may be left unused"))
	add(req("no-leftover-preimages", VERIFY, "len({[][32]byte})", opGT, "const:0", "no preimage may be left unused"))
	return t
}

func runC14(c *Ctx) {
	c.Explain("Narrow claim. Decides (1) the guard inventory inside SpendPolicy.Verify: each leaf kind's acceptance condition (height >= N; median.After(T); a signature is available and verifies against the leaf key and sighash; a preimage is available and hashes to the leaf), threshold accounting (exactly N satisfied, opaque children skipped, unlock-conditions children rejected, complexity limits), opaque rejection, legacy unlock-condition rules, and 'no witness left over' — each with its operands, rejecting side and no bypass; (2) cursor discipline: the two witness cursors hand out the front element and advance by exactly one, only when one is available; (3) exhaustiveness: every switch over the policy sum type handles all seven kinds or rejects; (4) address commitment: Address() opacifies every threshold child before hashing on a fresh slice (it does not write the policy it is given), PolicyOpaque is the identity on opaque policies and otherwise wraps Address(), unlock-condition policies use the legacy root. Agreement with an independent evaluator over all trees and witness assignments is not decided.")
	c.NotCovered("agreement of Verify with an independently written evaluator on all policy trees and witness assignments", "that the untampered satisfied policy is accepted")
	ge := NewGuardEngine(c.P, c.Depth+4)
	tab := c14Table()
	// the total-complexity budget may count up ("total += n; total > 1024") or down ("n > remaining;
	// remaining -= n" from 1024): the second spelling is recognised on the SSA of Verify's closure and, when it is
	// exactly that, the row is matched against the comparison with the budget cell
	if c14CountsDown(c, ge) {
		for i := range tab {
			if tab[i].ID == "threshold-complexity-total" {
				tab[i].L = pat("len(" + "{types.SpendPolicy}.Type" + ".(types.PolicyTypeThreshold).Of)")
			}
		}
	}
	runGuardTable(c, "verify-guard", ge, tab)
	c.Min("verify-guard", len(tab))
	// (3) exhaustiveness over the policy sum type (the anonymous interface in SpendPolicy.Type)
	if sp := c.P.NamedType("types", "SpendPolicy"); sp != nil {
		if st, ok := sp.Underlying().(*types.Struct); ok && st.NumFields() == 1 {
			sumTypeSwitchesOn(c, "policy-exhaustive", st.Field(0).Type(), "SpendPolicy.Type", 3)
		}
	} else {
		c.Undecided("policy-exhaustive", "anchor", "", "SpendPolicy does not resolve")
	}
	c14Cursors(c, ge)
	c14Address(c, ge)
}

// c14Cursors: the witness cursors are closures of Verify returning (front element, true) after
// advancing the captured slice by one, only when it is non-empty.
func c14Cursors(c *Ctx, ge *GuardEngine) {
	fn := c.P.Func(VERIFY)
	if fn == nil {
		c.Undecided("cursor", "anchor", "", "Verify does not resolve")
		return
	}
	n := 0
	for _, an := range fn.AnonFuncs {
		res := an.Signature.Results()
		if an.Signature.Params().Len() != 0 || res.Len() != 2 {
			continue
		}
		n++
		// shape-independent: every access to the captured slice happens where it is known to be non-empty,
		// reads take element 0, and every update of the captured slice is exactly s = s[1:]
		guarded, advanced, front := true, false, false
		fi := ge.info(an)
		nonEmpty := func(b *ssa.BasicBlock) bool {
			for _, cd := range ge.domConds(fi, b, nil) {
				if !strings.HasPrefix(cd.L, "len(") {
					continue
				}
				if (cd.R == "const:0" && (cd.Op == ">" || cd.Op == "!=")) || (cd.R == "const:1" && cd.Op == ">=") {
					return true
				}
			}
			return false
		}
		isCaptured := func(v ssa.Value) bool {
			ld, ok := v.(*ssa.UnOp)
			if !ok || ld.Op != token.MUL {
				return false
			}
			_, isFV := ld.X.(*ssa.FreeVar)
			return isFV
		}
		for _, b := range an.Blocks {
			for _, in := range b.Instrs {
				switch x := in.(type) {
				case *ssa.Slice:
					if !isCaptured(x.X) {
						continue
					}
					k, isK := x.Low.(*ssa.Const)
					if !(isK && k.Value != nil && k.Value.ExactString() == "1" && x.High == nil) || !nonEmpty(b) {
						guarded = false
					}
				case *ssa.IndexAddr:
					if !isCaptured(x.X) {
						continue
					}
					k, isK := x.Index.(*ssa.Const)
					if isK && k.Value != nil && k.Value.ExactString() == "0" && nonEmpty(b) {
						front = true
					} else {
						guarded = false
					}
				case *ssa.Store:
					if _, isFV := x.Addr.(*ssa.FreeVar); !isFV {
						continue
					}
					if _, isSlice := x.Val.Type().Underlying().(*types.Slice); !isSlice {
						continue
					}
					sl, isSl := x.Val.(*ssa.Slice)
					if isSl && isCaptured(sl.X) && sl.High == nil && nonEmpty(b) {
						if k, isK := sl.Low.(*ssa.Const); isK && k.Value != nil && k.Value.ExactString() == "1" {
							advanced = true
							continue
						}
					}
					guarded = false
				}
			}
		}
		ok := guarded && advanced && front
		c.Check(ok, "cursor", an.Name(), c.P.Pos(an.Pos()), ifElse(ok, "hands out element 0 and advances the captured slice by exactly one, only when non-empty", "witness cursor does not (guard non-empty, take element 0, re-slice [1:]) — witnesses are consumed out of order or more than one at a time"))
	}
	c.Check(n == 2, "cursor", "count", c.P.Pos(fn.Pos()), "Verify has exactly two witness cursors (signatures, preimages)")
}

func onlyUnderNonEmpty(b *ssa.BasicBlock) bool {
	// the advancing block is entered only through a conditional edge (the non-empty test)
	return len(b.Preds) == 1 && len(b.Preds[0].Succs) == 2
}

// c14Address: address commitment.
func c14Address(c *Ctx, ge *GuardEngine) {
	addr := c.P.Func("types.(SpendPolicy).Address")
	if addr == nil {
		c.Undecided("address-commitment", "anchor", "", "Address does not resolve")
		return
	}
	ws := ge.InputWrites(addr)
	c.Check(len(ws) == 0, "address-commitment", "does-not-write-policy", c.P.Pos(addr.Pos()), ifElse(len(ws) == 0, "Address() does not write the policy it is given", "Address() writes through the policy it is given (its children are replaced by opaque forms in the caller's memory): a later Verify of the same policy fails"))
	cs := ge.Calls(addr, nil, nil, nil, 0, map[*ssa.Function]int{})
	opacified, legacy, hashed := false, false, false
	for _, cf := range cs {
		if len(cf.Chain) != 1 {
			continue
		}
		if cf.Name == "write" && freshOfRe.MatchString(cf.Args[0]) && strings.HasPrefix(cf.Args[1], "call types.PolicyOpaque(") && freshOfRe.MatchString(strings.TrimPrefix(cf.Args[1], "call types.PolicyOpaque(")) {
			opacified = true
		}
		if cf.Callee != nil && strings.Contains(FuncName(cf.Callee), "unlockConditionsRoot") || (cf.Callee != nil && len(cf.Args) == 1 && cf.Args[0] == "{types.SpendPolicy}.Type.(types.PolicyTypeUnlockConditions)") {
			for _, cx := range cf.Ctx {
				if cx == "ok:{types.SpendPolicy}.Type.(types.PolicyTypeUnlockConditions) is true" {
					legacy = true
				}
			}
		}
		if cf.Callee != nil && FuncName(cf.Callee) == "(types.SpendPolicy).EncodeTo" {
			hashed = true
		}
	}
	c.Check(opacified, "address-commitment", "children-opacified", c.P.Pos(addr.Pos()), ifElse(opacified, "every threshold child is replaced by PolicyOpaque(child) on a fresh slice before hashing", "Address() does not replace every threshold child by its opaque form (on a fresh slice) before hashing: making a child opaque changes the address"))
	c.Check(legacy, "address-commitment", "legacy-root", c.P.Pos(addr.Pos()), "unlock-condition policies use the legacy unlock-hash derivation")
	c.Check(hashed, "address-commitment", "policy-hashed", c.P.Pos(addr.Pos()), "the (opacified) policy encoding is what gets hashed")
	// PolicyOpaque: identity on opaque, otherwise wraps Address()
	po := c.P.Func("types.PolicyOpaque")
	if po == nil {
		c.Undecided("address-commitment", "PolicyOpaque", "", "PolicyOpaque does not resolve")
		return
	}
	rets := ge.ReturnAtoms(po, 0)
	id, wrap := false, false
	for _, a := range rets {
		if a == "{types.SpendPolicy}" {
			id = true
		}
		if strings.Contains(a, "call (types.SpendPolicy).Address({types.SpendPolicy})") {
			wrap = true
		}
	}
	gs := ge.Guards(po, nil, nil, nil, 0, map[*ssa.Function]int{})
	cond := false
	for _, g := range gs {
		if g.L == "ok:{types.SpendPolicy}.Type.(types.PolicyTypeOpaque)" {
			cond = true
		}
	}
	c.Check(id && wrap && cond && len(rets) == 2, "address-commitment", "PolicyOpaque", c.P.Pos(po.Pos()), ifElse(id && wrap && cond, "PolicyOpaque(p) = p if p is opaque, else opaque(Address(p))", "PolicyOpaque returns "+joinShort(rets)))
}

// a fresh copy of the threshold's children, however it is made
var freshOfRe = regexp.MustCompile(`^(append\(nil,|call slices\.Clone\[.*?\]\(|fresh\(Clone )\{types\.SpendPolicy\}\.Type\.\(types\.PolicyTypeThreshold\)\.Of\)\[`)

// c14CountsDown: some closure of Verify compares len(x.Of) with a captured integer cell C by ">" (rejecting), C is
// initialised to the constant 1024 before the closure is made, and its only other store is C - len(x.Of) of the
// same x, executed after the comparison passed. Then "len > C" is "visited so far + len > 1024".
func c14CountsDown(c *Ctx, ge *GuardEngine) bool {
	root := c.P.Func("types.(SpendPolicy).Verify")
	if root == nil {
		return false
	}
	for _, fn := range allAnon(root) {
		for _, b := range fn.Blocks {
			ifi, ok := b.Instrs[len(b.Instrs)-1].(*ssa.If)
			if !ok {
				continue
			}
			bo, ok := ifi.Cond.(*ssa.BinOp)
			if !ok || bo.Op != token.GTR {
				continue
			}
			lenCall, ok := bo.X.(*ssa.Call)
			if !ok {
				continue
			}
			if bi, isB := lenCall.Call.Value.(*ssa.Builtin); !isB || bi.Name() != "len" {
				continue
			}
			ld, ok := bo.Y.(*ssa.UnOp)
			if !ok || ld.Op != token.MUL {
				continue
			}
			fv, ok := ld.X.(*ssa.FreeVar)
			if !ok {
				continue
			}
			cell, _ := ge.pv.resolve(fv).(*ssa.Alloc)
			if cell == nil {
				continue
			}
			// initial store in the parent
			init := false
			for _, r := range *cell.Referrers() {
				if st, isSt := r.(*ssa.Store); isSt && st.Addr == ssa.Value(cell) {
					if k, isK := constInt(st.Val); isK && k == 1024 {
						init = true
					} else {
						return false
					}
				}
			}
			if !init {
				continue
			}
			// stores through the free variable in this closure
			lenAtom := ge.pv.Atom(lenCall, nil)
			okStores, n := true, 0
			for _, r := range *fv.Referrers() {
				st, isSt := r.(*ssa.Store)
				if !isSt || st.Addr != ssa.Value(fv) {
					continue
				}
				n++
				sub, isSub := st.Val.(*ssa.BinOp)
				if !isSub || sub.Op != token.SUB {
					okStores = false
					continue
				}
				l2, isLd := sub.X.(*ssa.UnOp)
				if !isLd || l2.X != ssa.Value(fv) || ge.pv.Atom(sub.Y, nil) != lenAtom {
					okStores = false
				}
				// after the comparison passed: dominated by the false edge
				if !edgeDominates(b, 1, st.Block()) {
					okStores = false
				}
			}
			if okStores && n == 1 {
				return true
			}
		}
	}
	return false
}
